(** Liveness of the fsloop model (Model/Loop.v) without a fairness axiom.

    1. [work_step]: every enabled step of every thread makes [work] strictly smaller, except a
       consumer step inside the polling part of its loop (changes only that consumer's program
       counter) and a Kill on a lifecycle that is killed already (changes nothing).
    2. [seg_progress]: in a reachable state, a stretch of schedule in which every thread gets its
       turn (every consumer POLL times) makes [work] smaller, unless the walk has ended.
    3. [segs_finish]: [work s] such stretches end the walk; the round-robin schedule is one. *)
From GC Require Import Common.Base Model.Loop Model.LoopLive Proofs.Loop.
From Coq Require Import Permutation Lia.
Close Scope N_scope.
Open Scope nat_scope.

#[local] Arguments tsz : simpl never.
#[local] Arguments lsz : simpl nomatch.
#[local] Arguments Nat.mul : simpl never.

(** ---------- sums *)

Lemma tsz_file n : tsz (File n) = 5.
Proof. reflexivity. Qed.

Lemma tsz_dir n ch : tsz (Dir n ch) = 13 + lsz ch.
Proof. reflexivity. Qed.

Lemma sum_by_upd {A} (f : A -> nat) i x y l :
  nth_error l i = Some x -> sum_by f (upd i y l) + f x = sum_by f l + f y.
Proof.
  revert i; induction l as [|z l IH]; intros [|i]; cbn; try discriminate.
  - intros E; inversion E; subst. lia.
  - intros E. specialize (IH _ E). lia.
Qed.

Lemma sum_by_app {A} (f : A -> nat) l1 l2 : sum_by f (l1 ++ l2) = sum_by f l1 + sum_by f l2.
Proof. induction l1; cbn; auto. lia. Qed.

Lemma sum_by_zero {A} (f : A -> nat) l : sum_by f l = 0 -> Forall (fun x => f x = 0) l.
Proof. induction l; cbn; intros H; constructor; try apply IHl; lia. Qed.

Ltac brk H :=
  repeat match type of H with
         | context [match ?x with _ => _ end] => destruct x eqn:?; try discriminate H
         end.

Ltac inv_some H := inversion H; subst; clear H.

Section Live.
  Variable cfg : config.

  (** ---------- 1. the measure *)

  Definition poll_step (t : tid) (s s' : state) : Prop :=
    exists i c c', t = TC i /\ nth_error (cons s) i = Some c /\ c <> CExit /\
                   cnext_of cfg s c = Some c' /\ s' = setc i c' s.

  Lemma cnext_cw x de fe cl k c c' : cnext x de fe cl k c = Some c' -> cw c' = cw c.
  Proof.
    destruct c; cbn; intros H; brk H; inv_some H; try reflexivity;
      repeat match goal with |- context [if ?b then _ else _] => destruct b end; reflexivity.
  Qed.

  Lemma work_setc s i c c' :
    nth_error (cons s) i = Some c -> work (setc i c' s) + cw c = work s + cw c'.
  Proof.
    intros E. unfold work, setc. cbn. pose proof (sum_by_upd cw i c c' _ E). lia.
  Qed.

  Lemma poll_step_work t s s' : poll_step t s s' -> work s' = work s.
  Proof.
    intros (i & c & c' & -> & E & N & X & ->). pose proof (work_setc s i c c' E) as W.
    unfold cnext_of in X. apply cnext_cw in X. lia.
  Qed.

  Ltac sum_cw E :=
    match goal with
    | |- context [sum_by cw (upd ?i ?y ?l)] => pose proof (sum_by_upd cw i _ y l E)
    end.

  (** a consumer step is the polling step described by [cnext], or makes [work] smaller *)
  Lemma cstep_cases s i c :
    nth_error (cons s) i = Some c -> c <> CExit ->
    match cnext_of cfg s c with
    | Some c' => cstep cfg i c s = Some (setc i c' s)
    | None => exists s', cstep cfg i c s = Some s' /\ work s' < work s /\ prods s' = prods s
    end.
  Proof.
    intros E N. unfold cnext_of, cnext, cstep.
    destruct c; try congruence; destruct (xt cfg); destruct (dq s) eqn:D; destruct (fq s) eqn:F;
      destruct (closed s) eqn:CL; destruct (killed s) eqn:K; cbn [isnil];
      try reflexivity;
      try (destruct cl; try reflexivity);
      try (eexists; split; [reflexivity|]; split; [|reflexivity];
           unfold work, setc, raise, after; cbn; rewrite ?D, ?F, ?K; cbn; sum_cw E; cbn [cw] in *;
           repeat match goal with |- context [if ?b then _ else _] => destruct b end;
           repeat match goal with |- context [match ?b with IDir _ => _ | IFile _ => _ end] => destruct b end;
           cbn [cw] in *; lia).
  Qed.

  Ltac sum_pw E :=
    match goal with
    | |- context [sum_by pw (upd ?i ?y ?l)] => pose proof (sum_by_upd pw i _ y l E)
    end.

  Lemma pw_ret_le stk : pw (ret stk) <= 4 + stkw stk.
  Proof. destruct stk; cbn; lia. Qed.

  Lemma pw_ret_tl stk : pw (ret (tl stk)) <= 1 + stkw stk.
  Proof. destruct stk as [|f [|g stk]]; cbn; unfold fw; lia. Qed.

  Lemma stkw_tl stk : stkw (tl stk) <= stkw stk.
  Proof. destruct stk; cbn; lia. Qed.

  (** every producer step makes [work] smaller, by at least the number of producers it starts *)
  Lemma pstep_work s s' i p :
    nth_error (prods s) i = Some p -> pstep cfg i p s = Some s' ->
    work s' < work s /\ length (prods s') + work s' <= length (prods s) + work s.
  Proof.
    intros E H. unfold pstep in H. brk H; inv_some H;
      try match goal with
          | Hs : send_f _ _ _ = Some _ |- _ => apply send_f_inv in Hs; destruct Hs as [[_ ->]|(_ & _ & ->)]
          | Hs : send_d _ _ _ = Some _ |- _ => apply send_d_inv in Hs; destruct Hs as [[_ ->]|(_ & _ & ->)]
          end;
      unfold work, setp, raise; cbn;
      rewrite ?app_length, ?upd_length, ?sum_by_app; cbn; sum_pw E;
      repeat match goal with
             | |- context [ret (tl ?k)] => pose proof (pw_ret_tl k); generalize dependent (ret (tl k)); intros
             | |- context [ret ?k] => pose proof (pw_ret_le k); generalize dependent (ret k); intros
             end;
      repeat match goal with
             | |- context [tl ?k] => pose proof (stkw_tl k); generalize dependent (tl k); intros
             | Hq : context [tl ?k] |- _ => pose proof (stkw_tl k); generalize dependent (tl k); intros
             end;
      cbn [pw pcw stkw] in *; unfold fw in *; cbn [snd lsz] in *; rewrite ?tsz_file, ?tsz_dir in *;
      repeat match goal with |- context [if ?b then _ else _] => destruct b end;
      cbn [pw pcw stkw] in *; unfold fw in *; cbn [snd lsz] in *; lia.
  Qed.

  (** the measure: every enabled step makes [work] smaller, or is a polling step of a consumer, or
      is a Kill that changes nothing *)
  Lemma work_step t s s' :
    step cfg t s = Some s' ->
    (work s' < work s /\ length (prods s') + work s' <= length (prods s) + work s) \/
    poll_step t s s' \/ (t = TX /\ s' = s).
  Proof.
    intros H. destruct t as [i|i| | |]; cbn [step] in H.
    - destruct (nth_error (prods s) i) as [p|] eqn:E; [|discriminate].
      left. eapply pstep_work; eauto.
    - destruct (nth_error (cons s) i) as [c|] eqn:E; [|discriminate].
      assert (N : c <> CExit) by (intros ->; discriminate).
      pose proof (cstep_cases s i c E N) as Q.
      destruct (cnext_of cfg s c) as [c'|] eqn:X.
      + right; left. exists i, c, c'. repeat split; auto. congruence.
      + left. destruct Q as (s1 & Q1 & Q2 & Q3). rewrite Q1 in H. inv_some H.
        split; auto. rewrite Q3. lia.
    - left. unfold kstep in H. brk H; inv_some H; unfold work; cbn; rewrite Heqk; cbn; lia.
    - left. brk H; inv_some H. unfold work; cbn. rewrite Heqb. lia.
    - inv_some H. destruct (killed s) eqn:K.
      + right; right. split; auto. destruct s; cbn in *; subst; reflexivity.
      + left. unfold work; cbn. rewrite K. lia.
  Qed.

  Lemma work_exec_le t s :
    work (exec cfg s t) <= work s /\
    length (prods (exec cfg s t)) + work (exec cfg s t) <= length (prods s) + work s.
  Proof.
    unfold exec. destruct (step cfg t s) as [s'|] eqn:H; [|lia].
    destruct (work_step _ _ _ H) as [D|[Q|[_ ->]]]; try lia.
    pose proof (poll_step_work _ _ _ Q) as W.
    destruct Q as (i & c & c' & _ & _ & _ & _ & ->). change (prods (setc i c' s)) with (prods s) in *. lia.
  Qed.

  Lemma run_cons t a s : run cfg (t :: a) s = run cfg a (exec cfg s t).
  Proof. reflexivity. Qed.

  Lemma work_run_le a s :
    work (run cfg a s) <= work s /\
    length (prods (run cfg a s)) + work (run cfg a s) <= length (prods s) + work s.
  Proof.
    revert s. induction a as [|t a IH]; intros s; [cbn; lia|]. rewrite run_cons.
    pose proof (work_exec_le t s). pose proof (IH (exec cfg s t)). lia.
  Qed.

  (** ---------- states that differ only in the consumers' program counters *)

  Definition sim (s s' : state) : Prop := set_cons s' [] = set_cons s [].

  Lemma sim_refl s : sim s s.
  Proof. reflexivity. Qed.

  Lemma sim_trans s1 s2 s3 : sim s1 s2 -> sim s2 s3 -> sim s1 s3.
  Proof. unfold sim. congruence. Qed.

  Lemma sim_setc s i c : sim s (setc i c s).
  Proof. reflexivity. Qed.

  Lemma sim_fields s s' : sim s s' ->
    prods s' = prods s /\ pcount s' = pcount s /\ ccount s' = ccount s /\ dq s' = dq s /\ fq s' = fq s /\
    closed s' = closed s /\ killed s' = killed s /\ comp s' = comp s /\ waited s' = waited s /\
    dclosed s' = dclosed s /\ fclosed s' = fclosed s.
  Proof.
    unfold sim. intros H.
    repeat split;
      [ apply (f_equal prods) in H | apply (f_equal pcount) in H | apply (f_equal ccount) in H
      | apply (f_equal dq) in H | apply (f_equal fq) in H | apply (f_equal closed) in H
      | apply (f_equal killed) in H | apply (f_equal comp) in H | apply (f_equal waited) in H
      | apply (f_equal dclosed) in H | apply (f_equal fclosed) in H ]; exact H.
  Qed.

  Lemma sim_cnext s s' : sim s s' -> cnext_of cfg s' = cnext_of cfg s.
  Proof.
    intros H. apply sim_fields in H as (_ & _ & _ & D & F & C & K & _). unfold cnext_of. congruence.
  Qed.

  (** a schedule makes [work] smaller or changes nothing but consumers' program counters *)
  Lemma run_dich a s : work (run cfg a s) < work s \/ sim s (run cfg a s).
  Proof.
    revert s. induction a as [|t a IH]; intros s; [right; apply sim_refl|]. rewrite run_cons.
    pose proof (work_run_le a (exec cfg s t)) as [L _].
    unfold exec in *. destruct (step cfg t s) as [s1|] eqn:H; [|apply IH].
    destruct (work_step _ _ _ H) as [D|[Q|[_ ->]]]; [left; lia| |apply IH].
    pose proof (poll_step_work _ _ _ Q) as W.
    destruct (IH s1) as [D|S]; [left; lia|right].
    destruct Q as (i & c & c' & _ & _ & _ & _ & ->).
    eapply sim_trans; [apply sim_setc|exact S].
  Qed.

  (** a thread other than a consumer that is scheduled somewhere in [a]: either [work] got smaller,
      or the thread was disabled in a state that differs from [s] only in consumers' counters *)
  Lemma seg_disabled t a s :
    In t a -> (forall i, t <> TC i) -> t <> TX ->
    work (run cfg a s) < work s \/ exists s1, sim s s1 /\ step cfg t s1 = None.
  Proof.
    intros I NC NX. apply in_split in I as (a1 & a2 & ->).
    rewrite run_app, run_cons.
    pose proof (work_run_le a2 (exec cfg (run cfg a1 s) t)) as [L2 _].
    pose proof (work_exec_le t (run cfg a1 s)) as [L1 _].
    destruct (run_dich a1 s) as [D|S]; [left; lia|].
    destruct (step cfg t (run cfg a1 s)) as [s2|] eqn:H; [|right; eauto].
    left. unfold exec in *. rewrite H in *.
    destruct (work_step _ _ _ H) as [D|[Q|[Q _]]]; [| |congruence].
    - pose proof (work_run_le a1 s) as [L0 _]. lia.
    - destruct Q as (i & _ & _ & Q & _). exfalso. eapply NC; eauto.
  Qed.

  Lemma creach_exit nx n : nx CExit = Some CExit -> creach nx n CExit = false.
  Proof. intros H. induction n; cbn; auto. rewrite H. auto. Qed.

  Lemma cnext_of_exit s : cnext_of cfg s CExit = Some CExit.
  Proof. reflexivity. Qed.

  Lemma count_tid_neq i j : i <> j -> tid_eqb (TC i) (TC j) = false.
  Proof. intros N. cbn. apply Nat.eqb_neq. auto. Qed.

  (** a consumer that is [n] own steps away from a step that is not a polling step, scheduled [n]
      times: [work] gets smaller *)
  Lemma cons_reach i : forall a n s c,
    nth_error (cons s) i = Some c -> creach (cnext_of cfg s) n c = true ->
    n <= count_tid (TC i) a -> work (run cfg a s) < work s.
  Proof.
    induction a as [|t a IH]; intros n s c E R C.
    - cbn in C. assert (n = 0) by lia. subst. discriminate.
    - rewrite run_cons.
      pose proof (work_run_le a (exec cfg s t)) as [L _].
      unfold exec in *. cbn [count_tid] in C.
      destruct (step cfg t s) as [s1|] eqn:H.
      + destruct (work_step _ _ _ H) as [D|[Q|[-> ->]]]; [lia| |].
        * pose proof (poll_step_work _ _ _ Q) as W.
          destruct Q as (j & cj & cj' & -> & Ej & Nj & Xj & ->).
          assert (SC : cnext_of cfg (setc j cj' s) = cnext_of cfg s) by reflexivity.
          destruct (Nat.eq_dec i j) as [<-|NE].
          -- assert (cj = c) by congruence. subst cj.
             destruct n as [|n]; [discriminate|]. cbn [creach] in R. rewrite Xj in R.
             cbn [tid_eqb] in C. rewrite Nat.eqb_refl in C.
             assert (Q : work (run cfg a (setc i cj' s)) < work (setc i cj' s)).
             { apply (IH n _ cj'); [|rewrite SC; exact R|lia].
               cbn. eapply nth_error_upd_eq; eauto. }
             lia.
          -- rewrite (count_tid_neq _ _ NE) in C.
             assert (Q : work (run cfg a (setc j cj' s)) < work (setc j cj' s)).
             { apply (IH n _ c); [|rewrite SC; exact R|lia].
               cbn. rewrite nth_error_upd_neq; auto. }
             lia.
        * cbn [tid_eqb] in C. apply (IH n _ c); auto.
      + destruct (tid_eqb (TC i) t) eqn:T.
        * destruct t; try discriminate. cbn in T. apply Nat.eqb_eq in T. subst i0.
          assert (c = CExit).
          { destruct c; auto; exfalso; eapply (consumer_enabled cfg s i); eauto; discriminate. }
          subst c. rewrite creach_exit in R; [discriminate|reflexivity].
        * apply (IH n _ c); auto.
  Qed.

  (** with something to act on, POLL own steps are enough *)
  Lemma hot_reach s c : hot s = true -> c <> CExit -> creach (cnext_of cfg s) POLL c = true.
  Proof.
    unfold hot, cnext_of. intros H N.
    destruct (xt cfg), (isnil (dq s)), (isnil (fq s)), (closed s), (killed s); try discriminate H;
      destruct c as [| |[]|[]|[]| | | | | | | | |]; try congruence; reflexivity.
  Qed.


  (** ---------- 2. reachable states *)

  Definition kclosed (k : kpc) : bool := match k with K3 | K4 | KEnd => true | _ => false end.

  (** a consumer leaves its loop only after a kill or the close announcement (both exit tests) *)
  Definition cinvx (cl k : bool) (c : cstate) : Prop :=
    match c with
    | C3 true | C4 true | C5 true => cl = true
    | CFin | CExit => k = true \/ cl = true
    | _ => True
    end.

  Record Reach (s : state) : Prop := {
    rP : InvP s;
    rN : InvN cfg s;
    rK : kclosed (comp s) = true -> closed s = true;
    rX : Forall (cinvx (closed s) (killed s)) (cons s)
  }.

  Ltac frame_tac :=
    cbn; repeat split; intros; auto; try congruence;
    try (exfalso; match goal with
                  | Q : forall i, _ <> _ |- _ => eapply Q; reflexivity
                  | Q : _ <> _ |- _ => apply Q; reflexivity
                  end).

  Lemma step_frame t s s' : step cfg t s = Some s' ->
    (killed s = true -> killed s' = true) /\
    ((forall i, t <> TC i) -> cons s' = cons s) /\
    ((forall i, t <> TP i) -> prods s' = prods s) /\
    (t <> TK -> comp s' = comp s /\ closed s' = closed s) /\
    (t <> TW -> waited s' = waited s) /\
    (waited s = true -> waited s' = true).
  Proof.
    intros H. destruct t as [i|i| | |]; cbn [step] in H.
    - destruct (nth_error (prods s) i) as [p|] eqn:E; [|discriminate].
      unfold pstep in H. brk H; inv_some H;
        try match goal with
            | Hs : send_f _ _ _ = Some _ |- _ => apply send_f_inv in Hs; destruct Hs as [[_ ->]|(_ & _ & ->)]
            | Hs : send_d _ _ _ = Some _ |- _ => apply send_d_inv in Hs; destruct Hs as [[_ ->]|(_ & _ & ->)]
            end; frame_tac.
    - destruct (nth_error (cons s) i) as [c|] eqn:E; [|discriminate].
      unfold cstep in H. brk H; inv_some H; frame_tac.
    - unfold kstep in H. brk H; inv_some H; frame_tac.
    - brk H; inv_some H; frame_tac.
    - inv_some H; frame_tac.
  Qed.

  Lemma cinvx_mono cl k cl' k' c :
    (cl = true -> cl' = true) -> (k = true -> k' = true) -> cinvx cl k c -> cinvx cl' k' c.
  Proof. intros A B. unfold cinvx. destruct c as [| |[]|[]|[]| | | | | | | | |]; auto; tauto. Qed.

  Lemma Reach_init base root : Reach (init cfg base root).
  Proof.
    split; [apply InvP_init|apply InvN_init|cbn; discriminate|].
    cbn. apply Forall_forall. intros c Hc. apply repeat_spec in Hc. subst; exact I.
  Qed.

  Lemma Reach_step t s s' : Reach s -> step cfg t s = Some s' -> Reach s'.
  Proof.
    intros [P N K X] H.
    pose proof (step_stable cfg _ _ _ P H) as (SC & SK & _ & _).
    split; [eapply InvP_step; eauto|eapply InvN_step; eauto| |].
    - destruct t as [i|i| | |]; try (destruct (step_frame _ _ _ H) as (_ & _ & _ & Q & _);
        destruct Q as [Q1 Q2]; [discriminate|]; rewrite Q1, Q2; exact K).
      cbn [step] in H. unfold kstep in H. brk H; inv_some H; cbn; auto; try discriminate.
      all: intros _; apply K; rewrite Heqk; reflexivity.
    - assert (X' : Forall (cinvx (closed s') (killed s')) (cons s)).
      { eapply Forall_impl; [|exact X]. intros c. apply cinvx_mono; auto. }
      destruct t as [i|i| | |];
        try (destruct (step_frame _ _ _ H) as (_ & Q & _); rewrite Q; [exact X'|discriminate]).
      cbn [step] in H. destruct (nth_error (cons s) i) as [c|] eqn:E; [|discriminate].
      pose proof (nth_error_Forall _ _ _ _ X E) as Hc.
      unfold cstep in H. brk H; inv_some H; cbn in *; apply Forall_upd; auto; unfold cinvx in *; cbn; auto;
        try tauto;
        try (destruct (closed s); auto; fail);
        try (destruct cl; tauto);
        try (destruct it; exact Logic.I).
  Qed.

  Lemma Reach_run a s : Reach s -> Reach (run cfg a s).
  Proof. apply run_inv. intros t s0 s1. apply Reach_step. Qed.

  (** ---------- 3. a stretch of schedule in which everybody gets a turn *)

  Definition ended_ok (s : state) : Prop :=
    all_exited s = true /\ waited s = true /\
    (killed s = false -> all_pexited s = true /\ comp s = KEnd).

  Lemma tid_eqb_eq a b : tid_eqb a b = true -> a = b.
  Proof.
    destruct a, b; cbn; try discriminate; auto; intros H; apply Nat.eqb_eq in H; congruence.
  Qed.

  Lemma mem_tid_In t l : mem_tid t l = true -> In t l.
  Proof.
    unfold mem_tid. rewrite existsb_exists. intros (u & I & E). apply tid_eqb_eq in E. congruence.
  Qed.

  Lemma forallb_false_ex {A} (f : A -> bool) l : forallb f l = false -> exists x, In x l /\ f x = false.
  Proof.
    induction l as [|x l IH]; cbn; [discriminate|]. destruct (f x) eqn:F; cbn.
    - intros H. destruct (IH H) as (y & ? & ?). exists y; auto.
    - intros _. exists x; auto.
  Qed.

  Lemma all_pexited_count s : all_pexited s = true -> length (filter alive (prods s)) = 0.
  Proof.
    unfold all_pexited. induction (prods s) as [|p l IH]; cbn; auto.
    intros H. apply andb_true_iff in H as [A B]. unfold alive at 1. rewrite A. cbn. auto.
  Qed.

  Lemma all_exited_count s : all_exited s = true -> length (filter calive (cons s)) = 0.
  Proof.
    unfold all_exited. induction (cons s) as [|c l IH]; cbn; auto.
    intros H. apply andb_true_iff in H as [A B]. unfold calive at 1. rewrite A. cbn. auto.
  Qed.

  Lemma seg_progress s P seg :
    Reach s -> 1 <= cmax cfg -> 1 <= dcap cfg -> 1 <= fcap cfg ->
    complete cfg P seg = true -> length (prods s) <= P ->
    work (run cfg seg s) < work s \/ ended_ok s.
  Proof.
    intros [IP IN IK IX] C1 D1 F1 CP LP.
    destruct (Nat.lt_ge_cases (work (run cfg seg s)) (work s)) as [D|ND]; [left; exact D|right].
    unfold complete in CP.
    apply andb_true_iff in CP as [CP HC]. apply andb_true_iff in CP as [CP HW].
    apply andb_true_iff in CP as [HP HK].
    rewrite forallb_forall in HP, HC.
    (* producers: exited or facing a full queue *)
    assert (PB : forall i p, nth_error (prods s) i = Some p ->
                 p = PExit \/ length (dq s) >= dcap cfg \/ length (fq s) >= fcap cfg).
    { intros i p E.
      assert (Li : i < P).
      { assert (i < length (prods s)) by (apply nth_error_Some; congruence). lia. }
      assert (Ii : In (TP i) seg).
      { apply mem_tid_In. apply HP. apply in_seq. lia. }
      destruct (seg_disabled (TP i) seg s Ii) as [Q|(s1 & S & Hn)]; try discriminate; [lia|].
      apply sim_fields in S as (Sp & _ & _ & Sd & Sf & _).
      assert (Dp : p = PExit \/ p <> PExit) by (destruct p; auto; right; discriminate).
      destruct Dp as [Dp|Dp]; auto. right.
      rewrite <- Sp in E. pose proof (producer_blocked_full cfg s1 i p E Dp Hn) as Q.
      rewrite Sd, Sf in Q. exact Q. }
    (* completion goroutine: ended, or waiting for producers *)
    assert (KB : comp s = KEnd \/ pcount s <> 0).
    { destruct (seg_disabled TK seg s (mem_tid_In _ _ HK)) as [Q|(s1 & S & Hn)]; try discriminate; [lia|].
      apply sim_fields in S as (_ & Sc & _ & _ & _ & _ & _ & Sk & _).
      cbn [step] in Hn. unfold kstep in Hn. rewrite Sk, Sc in Hn.
      destruct (comp s); try discriminate; auto.
      destruct (Nat.eqb_spec (pcount s) 0); [discriminate|auto]. }
    (* the caller of Wait: returned, or the consumer pool is not empty *)
    assert (WB : waited s = true \/ ccount s <> 0).
    { destruct (seg_disabled TW seg s (mem_tid_In _ _ HW)) as [Q|(s1 & S & Hn)]; try discriminate; [lia|].
      apply sim_fields in S as (_ & _ & Sc & _ & _ & _ & _ & _ & Sw & _).
      cbn [step] in Hn. rewrite Sw, Sc in Hn.
      destruct (waited s); auto. destruct (Nat.eqb_spec (ccount s) 0); [discriminate|auto]. }
    (* consumers: with something to act on, every consumer has exited *)
    assert (CB : hot s = true -> forall i c, nth_error (cons s) i = Some c -> c = CExit).
    { intros Hh i c E.
      assert (Dc : c = CExit \/ c <> CExit) by (destruct c; auto; right; discriminate).
      destruct Dc as [Dc|Dc]; auto. exfalso.
      assert (Li : i < cmax cfg).
      { rewrite <- (n_len _ _ IN). apply nth_error_Some. congruence. }
      assert (Ci : POLL <= count_tid (TC i) seg).
      { apply Nat.leb_le. apply HC. apply in_seq. lia. }
      pose proof (cons_reach i seg POLL s c E (hot_reach s c Hh Dc) Ci). lia. }
    assert (HE : hot s = true -> all_exited s = true /\ waited s = true).
    { intros Hh. assert (AE : all_exited s = true).
      { unfold all_exited. apply forallb_forall. intros c Hc. apply In_nth_error in Hc as [i Hi].
        rewrite (CB Hh i c Hi). reflexivity. }
      split; auto. destruct WB as [W|W]; auto. exfalso. apply W.
      rewrite (n_count _ _ IN). apply all_exited_count. exact AE. }
    destruct (all_pexited s) eqn:AP.
    - (* every producer has exited *)
      assert (Z : pcount s = 0) by (rewrite (p_count _ IP); apply all_pexited_count; exact AP).
      destruct KB as [KE|KE]; [|congruence].
      assert (CL : closed s = true) by (apply IK; rewrite KE; reflexivity).
      assert (Hh : hot s = true) by (unfold hot; rewrite CL; repeat rewrite orb_true_r; reflexivity).
      destruct (HE Hh) as [AE W]. split; auto.
    - (* a producer is alive, and blocked: a queue is full, so not empty *)
      apply forallb_false_ex in AP as (p & Ip & Xp). apply In_nth_error in Ip as [i Ei].
      assert (Np : p <> PExit) by (intros ->; discriminate).
      destruct (PB i p Ei) as [Q|Q]; [congruence|].
      assert (Hh : hot s = true).
      { unfold hot. destruct Q as [Q|Q].
        - destruct (dq s); cbn in *; [lia|reflexivity].
        - destruct (fq s); cbn in *; [lia|]. destruct (isnil (dq s)); reflexivity. }
      destruct (HE Hh) as [AE W]. split; auto. split; auto. intros NK. exfalso.
      destruct (InvP_prod_not_past s i p IP Ei Np) as (_ & CL & _).
      pose proof (n_len _ _ IN) as L.
      destruct (cons s) as [|c0 cs] eqn:EC; [cbn in L; lia|].
      assert (c0 = CExit) by (apply (CB Hh 0 c0); try rewrite EC; reflexivity). subst c0.
      inversion IX as [|? ? H0 _]; subst. cbn in H0. destruct H0; congruence.
  Qed.

  Lemma ended_ok_step t s s' : ended_ok s -> step cfg t s = Some s' -> ended_ok s'.
  Proof.
    intros (AE & W & PF) H.
    destruct (step_frame _ _ _ H) as (FK & FC & FP & FKc & FW & FW').
    assert (NC : forall i, t <> TC i).
    { intros i ->. cbn [step] in H. destruct (nth_error (cons s) i) as [c|] eqn:E; [|discriminate].
      unfold all_exited in AE. rewrite forallb_forall in AE.
      pose proof (AE c (nth_error_In _ _ E)) as Q. destruct c; discriminate. }
    split; [|split; auto].
    - unfold all_exited. rewrite (FC NC). exact AE.
    - intros NK. assert (NK0 : killed s = false) by (destruct (killed s); auto; rewrite FK in NK; auto).
      destruct (PF NK0) as [AP KE].
      assert (NP : forall i, t <> TP i).
      { intros i ->. cbn [step] in H. destruct (nth_error (prods s) i) as [p|] eqn:E; [|discriminate].
        unfold all_pexited in AP. rewrite forallb_forall in AP.
        pose proof (AP p (nth_error_In _ _ E)) as Q. destruct p; discriminate. }
      assert (NT : t <> TK).
      { intros ->. cbn [step] in H. unfold kstep in H. rewrite KE in H. discriminate. }
      unfold all_pexited. rewrite (FP NP). destruct (FKc NT) as [Q _]. rewrite Q. auto.
  Qed.

  Lemma ended_ok_run a s : ended_ok s -> ended_ok (run cfg a s).
  Proof. apply run_inv. intros t s0 s1 E H. eapply ended_ok_step; eauto. Qed.

  Lemma work0_ended s : work s = 0 -> ended_ok s.
  Proof.
    unfold work. intros H.
    assert (K : killed s = true) by (destruct (killed s); auto; lia).
    assert (W : waited s = true) by (destruct (waited s); auto; lia).
    assert (C : sum_by cw (cons s) = 0) by lia.
    split; [|split; auto; congruence].
    apply sum_by_zero in C. unfold all_exited. apply forallb_forall. intros c Hc.
    rewrite Forall_forall in C. specialize (C c Hc). destruct c; cbn in C; try discriminate; reflexivity.
  Qed.

  (** [work s] stretches in which everybody gets a turn end the walk *)
  Lemma segs_finish P :
    1 <= cmax cfg -> 1 <= dcap cfg -> 1 <= fcap cfg ->
    forall segs s, Reach s -> Forall (fun seg => complete cfg P seg = true) segs ->
    length (prods s) + work s <= P -> work s <= length segs ->
    ended_ok (run cfg (concat segs) s).
  Proof.
    intros C1 D1 F1. induction segs as [|seg segs IH]; intros s R FA LP LW.
    - cbn in *. apply work0_ended. lia.
    - cbn [concat]. rewrite run_app. inversion FA as [|? ? CS FA']; subst.
      destruct (seg_progress s P seg R C1 D1 F1 CS) as [D|E]; [lia| |].
      + pose proof (work_run_le seg s) as [_ L]. cbn [length] in LW.
        apply IH; auto; [apply Reach_run; exact R|lia|lia].
      + apply ended_ok_run. apply ended_ok_run. exact E.
  Qed.

  (** ---------- the round-robin schedule *)

  Lemma count_tid_app t a b : count_tid t (a ++ b) = count_tid t a + count_tid t b.
  Proof. induction a; cbn; auto. lia. Qed.

  Lemma count_tid_In t l : In t l -> 1 <= count_tid t l.
  Proof.
    induction l as [|u l IH]; cbn; [contradiction|]. intros [->|H].
    - assert (tid_eqb t t = true) as -> by (destruct t; cbn; auto; apply Nat.eqb_refl). lia.
    - specialize (IH H). lia.
  Qed.

  Lemma count_tid_concat_repeat t l n : In t l -> n <= count_tid t (concat (repeat l n)).
  Proof.
    intros I. induction n; cbn; [lia|]. rewrite count_tid_app. pose proof (count_tid_In t l I). lia.
  Qed.

  Lemma In_mem_tid t l : In t l -> mem_tid t l = true.
  Proof.
    intros H. unfold mem_tid. apply existsb_exists. exists t. split; auto.
    destruct t; cbn; auto; apply Nat.eqb_refl.
  Qed.

  Lemma rr_block_complete P : complete cfg P (rr_block cfg P) = true.
  Proof.
    unfold complete, rr_block. repeat (apply andb_true_iff; split).
    - apply forallb_forall. intros i Hi. apply In_mem_tid. apply in_or_app. left. apply in_map. exact Hi.
    - apply In_mem_tid. apply in_or_app. right. apply in_or_app. right. cbn; auto.
    - apply In_mem_tid. apply in_or_app. right. apply in_or_app. right. cbn; auto.
    - apply forallb_forall. intros i Hi. apply Nat.leb_le.
      rewrite !count_tid_app.
      pose proof (count_tid_concat_repeat (TC i) (map TC (seq 0 (cmax cfg))) POLL (in_map TC _ _ Hi)). lia.
  Qed.

  Lemma rr_no_kill P n : ~ In TX (rr cfg P n).
  Proof.
    unfold rr. intros H. apply in_concat in H as (b & Hb & H). apply repeat_spec in Hb. subst b.
    unfold rr_block in H. apply in_app_or in H as [H|H].
    - apply in_map_iff in H as (? & ? & _). discriminate.
    - apply in_app_or in H as [H|H].
      + apply in_concat in H as (b & Hb & H). apply repeat_spec in Hb. subst b.
        apply in_map_iff in H as (? & ? & _). discriminate.
      + cbn in H. destruct H as [H|[H|[]]]; discriminate.
  Qed.

  Lemma rr_finish s P n :
    1 <= cmax cfg -> 1 <= dcap cfg -> 1 <= fcap cfg ->
    Reach s -> length (prods s) + work s <= P -> work s <= n -> ended_ok (run cfg (rr cfg P n) s).
  Proof.
    intros C1 D1 F1 R LP LW. unfold rr. apply (segs_finish P); auto.
    - apply Forall_forall. intros b Hb. apply repeat_spec in Hb. subst b. apply rr_block_complete.
    - rewrite repeat_length. exact LW.
  Qed.

  (** ---------- without errors and without Kill events the lifecycle stays alive *)

  Definition not_cerr (c : cstate) : Prop := match c with CErr _ => False | _ => True end.
  Definition alive_ok (s : state) : Prop := killed s = false /\ Forall not_cerr (cons s).

  Lemma step_nokill t s s' :
    (forall p, rderr cfg p = false) -> (forall it, cberr cfg it = false) -> t <> TX ->
    step cfg t s = Some s' -> alive_ok s -> alive_ok s'.
  Proof.
    intros RE CE NX H [K NC]. unfold alive_ok.
    destruct t as [i|i| | |]; cbn [step] in H; [| | | |congruence].
    - destruct (nth_error (prods s) i) as [p|] eqn:E; [|discriminate].
      unfold pstep in H. brk H; inv_some H;
        try match goal with
            | Hs : send_f _ _ _ = Some _ |- _ => apply send_f_inv in Hs; destruct Hs as [[_ ->]|(_ & _ & ->)]
            | Hs : send_d _ _ _ = Some _ |- _ => apply send_d_inv in Hs; destruct Hs as [[_ ->]|(_ & _ & ->)]
            end; cbn;
        try (match goal with Hq : rderr cfg ?x = true |- _ => rewrite RE in Hq; discriminate end);
        try congruence; split; auto.
    - destruct (nth_error (cons s) i) as [c|] eqn:E; [|discriminate].
      pose proof (nth_error_Forall _ _ _ _ NC E) as Hc.
      unfold cstep in H. rewrite ?CE in H. brk H; inv_some H; cbn in *; try contradiction; try congruence;
        (split; [auto|apply Forall_upd; auto; cbn; auto]);
        try (destruct it; exact I);
        repeat match goal with |- not_cerr (match ?x with _ => _ end) => destruct x end; exact I.
    - unfold kstep in H. brk H; inv_some H; cbn; auto.
    - brk H; inv_some H; cbn; auto.
  Qed.

  Lemma run_nokill a s :
    (forall p, rderr cfg p = false) -> (forall it, cberr cfg it = false) -> ~ In TX a ->
    alive_ok s -> alive_ok (run cfg a s).
  Proof.
    intros RE CE. revert s. induction a as [|t a IH]; intros s NX A; [exact A|].
    rewrite run_cons. apply IH; [intros Q; apply NX; right; exact Q|].
    unfold exec. destruct (step cfg t s) as [s1|] eqn:H; auto.
    eapply step_nokill; eauto. intros ->. apply NX. left; reflexivity.
  Qed.

  (** a state reached without kill, under a configuration without errors, has no consumer about
      to report an error *)
  Lemma reach_alive_ok base root sched :
    (forall p, rderr cfg p = false) -> (forall it, cberr cfg it = false) ->
    killed (run cfg sched (init cfg base root)) = false ->
    alive_ok (run cfg sched (init cfg base root)).
  Proof.
    intros RE CE. 
    assert (G : forall a s, (killed s = false -> alive_ok s) ->
                            killed (run cfg a s) = false -> alive_ok (run cfg a s)).
    { induction a as [|t a IH]; intros s A K; [apply A; exact K|].
      rewrite run_cons in *. apply IH; auto. intros K1.
      unfold exec in *. destruct (step cfg t s) as [s1|] eqn:H; auto.
      destruct (step_frame _ _ _ H) as (FK & _).
      assert (K0 : killed s = false) by (destruct (killed s); auto; rewrite FK in K1; auto).
      assert (NX : t <> TX) by (intros ->; cbn in H; inv_some H; discriminate).
      eapply step_nokill; eauto. }
    apply G. intros _. split; [reflexivity|].
    cbn. apply Forall_forall. intros c Hc. apply repeat_spec in Hc. subst; exact I.
  Qed.

  Lemma run_fixed s : (forall t, exec cfg s t = s) -> forall a, run cfg a s = s.
  Proof. intros Fx. induction a as [|t a IH]; [reflexivity|]. rewrite run_cons, Fx. exact IH. Qed.

End Live.

(** ---------- statements in the form used by Props/C08.v *)

Lemma work_measure_full cfg t s s' :
  step cfg t s = Some s' ->
  (work s' < work s /\ length (prods s') + work s' <= length (prods s) + work s) \/
  (exists i c c', t = TC i /\ nth_error (cons s) i = Some c /\ cnext_of cfg s c = Some c' /\
                  s' = setc i c' s /\ work s' = work s) \/
  (t = TX /\ killed s = true /\ s' = s).
Proof.
  intros H. destruct (work_step cfg _ _ _ H) as [D|[Q|[-> ->]]]; auto; right.
  - left. pose proof (poll_step_work cfg _ _ _ Q) as W.
    destruct Q as (i & c & c' & Q1 & Q2 & _ & Q3 & Q4). exists i, c, c'. auto.
  - right. repeat split; auto. cbn in H. injection H as H1.
    apply (f_equal killed) in H1. cbn in H1. symmetry. exact H1.
Qed.

Lemma work_init cfg base root : work (init cfg base root) = 12 + lsz root + 2 * cmax cfg.
Proof.
  unfold work, init. cbn.
  assert (sum_by cw (repeat C1 (cmax cfg)) = 2 * cmax cfg) as ->; [|lia].
  induction (cmax cfg); cbn; lia.
Qed.

Lemma rr_length cfg P n : length (rr cfg P n) = n * (P + POLL * cmax cfg + 2).
Proof.
  unfold rr. induction n; cbn [repeat concat]; [reflexivity|].
  rewrite app_length, IHn. unfold rr_block. rewrite !app_length, map_length, seq_length.
  assert (forall k, length (concat (repeat (map TC (seq 0 (cmax cfg))) k)) = k * cmax cfg) as ->.
  { induction k; cbn [repeat concat]; [reflexivity|]. rewrite app_length, IHk, map_length, seq_length. lia. }
  cbn [length]. lia.
Qed.

Lemma finished_of_ended s : ended_ok s -> killed s = false -> finished s = true.
Proof.
  intros (AE & W & PF) K. destruct (PF K) as [AP KE]. unfold finished. rewrite AP, KE, AE, W. reflexivity.
Qed.

Lemma ended_conclusion cfg base root a :
  1 <= cmax cfg ->
  let s' := run cfg a (init cfg base root) in
  ended_ok s' ->
  all_exited s' = true /\ waited s' = true /\
  (killed s' = false ->
   finished s' = true /\
   (xt cfg = ClosedThenEmpty ->
    Permutation (log s') (sel_list cfg base root) /\ dq s' = [] /\ fq s' = [] /\ errs s' = [])).
Proof.
  intros C1 s' E. pose proof E as (AE & W & _). split; auto. split; auto.
  intros K. split; [apply finished_of_ended; auto|]. intros X.
  apply (exactly_once cfg base root a X C1 AE K).
Qed.

(** every run in which [work s] times in a row everybody gets a turn ends *)
Lemma fair_finish_full cfg base root sched P segs :
  1 <= cmax cfg -> 1 <= dcap cfg -> 1 <= fcap cfg ->
  let s := run cfg sched (init cfg base root) in
  length (prods s) + work s <= P ->
  Forall (fun seg => complete cfg P seg = true) segs -> work s <= length segs ->
  let s' := run cfg (sched ++ concat segs) (init cfg base root) in
  all_exited s' = true /\ waited s' = true /\
  (killed s' = false ->
   finished s' = true /\
   (xt cfg = ClosedThenEmpty ->
    Permutation (log s') (sel_list cfg base root) /\ dq s' = [] /\ fq s' = [] /\ errs s' = [])).
Proof.
  intros C1 D1 F1 s LP FA LW. apply ended_conclusion; auto.
  rewrite run_app. apply (segs_finish cfg P); auto.
  apply Reach_run. apply Reach_init.
Qed.

Lemma round_progress_full cfg base root sched P :
  1 <= cmax cfg -> 1 <= dcap cfg -> 1 <= fcap cfg ->
  let s := run cfg sched (init cfg base root) in
  length (prods s) <= P ->
  work (run cfg (rr_block cfg P) s) < work s \/
  (all_exited s = true /\ waited s = true /\ (killed s = false -> finished s = true)).
Proof.
  intros C1 D1 F1 s LP.
  assert (R : Reach cfg s) by (apply Reach_run; apply Reach_init).
  destruct (seg_progress cfg s P _ R C1 D1 F1 (rr_block_complete cfg P) LP) as [D|E]; [left; exact D|right].
  pose proof E as (AE & W & _). repeat split; auto. intros K. apply finished_of_ended; auto.
Qed.

(** the round-robin continuation computed from the state ends the walk: Wait returns in every case *)
Lemma wait_returns_full cfg base root sched :
  1 <= cmax cfg -> 1 <= dcap cfg -> 1 <= fcap cfg ->
  let s := run cfg sched (init cfg base root) in
  let s' := run cfg (sched ++ rr_from cfg s) (init cfg base root) in
  ~ In TX (rr_from cfg s) /\ all_exited s' = true /\ waited s' = true /\
  (killed s' = false ->
   finished s' = true /\
   (xt cfg = ClosedThenEmpty ->
    Permutation (log s') (sel_list cfg base root) /\ dq s' = [] /\ fq s' = [] /\ errs s' = [])).
Proof.
  intros C1 D1 F1 s. split; [apply rr_no_kill|]. apply ended_conclusion; auto.
  rewrite run_app. apply rr_finish; auto. apply Reach_run. apply Reach_init.
Qed.

(** no error in the configuration, not killed so far: the round-robin continuation ends everything
    and the callbacks made are exactly the selected nodes *)
Lemma can_finish_rr cfg base root sched :
  1 <= cmax cfg -> 1 <= dcap cfg -> 1 <= fcap cfg ->
  (forall p, rderr cfg p = false) -> (forall it, cberr cfg it = false) ->
  let s := run cfg sched (init cfg base root) in
  killed s = false ->
  let s' := run cfg (sched ++ rr_from cfg s) (init cfg base root) in
  finished s' = true /\ killed s' = false /\
  (xt cfg = ClosedThenEmpty ->
   Permutation (log s') (sel_list cfg base root) /\ dq s' = [] /\ fq s' = [] /\ errs s' = []).
Proof.
  intros C1 D1 F1 RE CE s K.
  destruct (wait_returns_full cfg base root sched C1 D1 F1) as (NX & AE & W & Q).
  fold s in NX, AE, W, Q.
  assert (K' : killed (run cfg (sched ++ rr_from cfg s) (init cfg base root)) = false).
  { rewrite run_app. apply (run_nokill cfg (rr_from cfg s) s RE CE NX).
    apply reach_alive_ok; auto. }
  destruct (Q K') as [Fi Ex]. repeat split; auto.
  all: try (apply Ex; assumption).
Qed.

Lemma can_finish_ex cfg base root sched :
  1 <= cmax cfg -> 1 <= dcap cfg -> 1 <= fcap cfg ->
  (forall p, rderr cfg p = false) -> (forall it, cberr cfg it = false) ->
  killed (run cfg sched (init cfg base root)) = false ->
  exists sched', ~ In TX sched' /\
    let s' := run cfg (sched ++ sched') (init cfg base root) in
    finished s' = true /\ killed s' = false /\
    (xt cfg = ClosedThenEmpty ->
     Permutation (log s') (sel_list cfg base root) /\ dq s' = [] /\ fq s' = [] /\ errs s' = []).
Proof.
  intros C1 D1 F1 RE CE K.
  exists (rr_from cfg (run cfg sched (init cfg base root))). split; [apply rr_no_kill|].
  apply can_finish_rr; auto.
Qed.

(** after a kill the producers and the completion goroutine can be left blocked for ever *)
Lemma kill_leak_full :
  let cfg := kl_cfg in
  let s := run cfg kl_sched (init cfg kl_base kl_root) in
  (1 <= cmax cfg /\ 1 <= dcap cfg /\ 1 <= fcap cfg /\
   (forall p, rderr cfg p = false) /\ (forall it, cberr cfg it = false)) /\
  all_exited s = true /\ waited s = true /\ killed s = true /\ errs s = [] /\ log s = [] /\
  comp s = K1 /\ closed s = false /\ length (fq s) = fcap cfg /\
  nth_error (prods s) 0 = Some (PRun PE [(kl_base, [File [98%N]])]) /\
  step cfg (TP 0) s = None /\ step cfg TK s = None /\ finished s = false /\
  forall sched', run cfg (kl_sched ++ sched') (init cfg kl_base kl_root) = s.
Proof.
  intros cfg s.
  split; [split; [|split; [|split; [|split]]]; cbn; auto|].
  do 12 (split; [vm_compute; reflexivity|]).
  intros sched'. rewrite run_app. apply run_fixed.
  intros [[|[|i]]|[|[|i]]| | |]; vm_compute; reflexivity.
Qed.
