(** Proofs about Model/Scope.v (C11, C12). *)
From GC Require Import Common.Base Model.Scope.
From Coq Require Import ZArith Lia ZifyBool ZifyNat Permutation.
Local Open Scope nat_scope.

(** * Lists *)
Lemma upd_length {A} n (f : A -> A) l : length (upd n f l) = length l.
Proof. revert n; induction l as [|x l IH]; intros [|n]; simpl; auto. Qed.

Lemma nth_upd_eq {A} n (f : A -> A) l d : n < length l -> nth n (upd n f l) d = f (nth n l d).
Proof. revert n; induction l as [|x l IH]; intros [|n] H; simpl in *; try lia; auto. apply IH; lia. Qed.

Lemma nth_upd_neq {A} n m (f : A -> A) l d : n <> m -> nth m (upd n f l) d = nth m l d.
Proof. revert n m; induction l as [|x l IH]; intros [|n] [|m] H; simpl in *; try lia; auto. Qed.

Lemma upd_oob {A} n (f : A -> A) l : length l <= n -> upd n f l = l.
Proof. revert n; induction l as [|x l IH]; intros [|n] H; simpl in *; try lia; auto. f_equal. apply IH. lia. Qed.

Lemma nth_upd {A} n m (f : A -> A) l d :
  nth m (upd n f l) d = if Nat.eqb n m && Nat.ltb m (length l) then f (nth m l d) else nth m l d.
Proof.
  destruct (Nat.eqb_spec n m) as [->|H]; simpl.
  - destruct (Nat.ltb_spec m (length l)). apply nth_upd_eq; auto. rewrite upd_oob; auto.
  - apply nth_upd_neq; auto.
Qed.

Lemma upd_split {A} n (f : A -> A) l : n < length l ->
  exists l1 x l2, l = l1 ++ x :: l2 /\ length l1 = n /\ upd n f l = l1 ++ f x :: l2.
Proof.
  revert n; induction l as [|x l IH]; intros [|n] H; simpl in *; try lia.
  - exists [], x, l. auto.
  - destruct (IH n) as (l1 & y & l2 & E1 & E2 & E3); [lia|].
    exists (x :: l1), y, l2. simpl. rewrite E3, <- E1, E2. auto.
Qed.

Lemma upd_split' {A} n (l : list A) x : nth_error l n = Some x ->
  exists l1 l2, l = l1 ++ x :: l2 /\ forall f, upd n f l = l1 ++ f x :: l2.
Proof.
  revert n; induction l as [|y l IH]; intros [|n] H; simpl in *; try discriminate.
  - inversion H; subst. exists [], l. auto.
  - destruct (IH n H) as (l1 & l2 & E1 & E2). exists (y :: l1), l2. split.
    + simpl. congruence.
    + intros f. simpl. now rewrite E2.
Qed.

Lemma nth_error_nth' {A} (l : list A) n d x : nth_error l n = Some x -> nth n l d = x.
Proof. revert n; induction l; intros [|n]; simpl; intros; try discriminate; auto. congruence. Qed.

Lemma nth_error_upd_eq {A} n (f : A -> A) l x : nth_error l n = Some x -> nth_error (upd n f l) n = Some (f x).
Proof. revert n; induction l; intros [|n]; simpl; intros; try discriminate; auto. congruence. Qed.

Lemma nth_error_upd_neq {A} n m (f : A -> A) l : n <> m -> nth_error (upd n f l) m = nth_error l m.
Proof. revert n m; induction l; intros [|n] [|m]; simpl; intros; try lia; auto. Qed.

Lemma in_upd {A} n (f : A -> A) l y : In y (upd n f l) -> In y l \/ exists x, In x l /\ y = f x.
Proof.
  revert n; induction l as [|x l IH]; intros [|n]; simpl; auto.
  - intros [<-|H]; eauto.
  - intros [<-|H]; auto. destruct (IH _ H) as [|(z & ? & ?)]; eauto.
Qed.

(** * Accessors after primitive updates *)
Lemma getc_upd_ctx sh c f c' :
  getc (upd_ctx sh c f) c' = if Nat.eqb c c' && validc sh c' then f (getc sh c') else getc sh c'.
Proof. unfold getc, upd_ctx, validc; simpl. apply nth_upd. Qed.
Lemma gets_upd_ctx sh c f s : gets (upd_ctx sh c f) s = gets sh s.
Proof. reflexivity. Qed.
Lemma gets_upd_scope sh s f s' :
  gets (upd_scope sh s f) s' = if Nat.eqb s s' && valids sh s' then f (gets sh s') else gets sh s'.
Proof. unfold gets, upd_scope, valids; simpl. apply nth_upd. Qed.
Lemma getc_upd_scope sh s f c : getc (upd_scope sh s f) c = getc sh c.
Proof. reflexivity. Qed.
Lemma validc_upd_ctx sh c f c' : validc (upd_ctx sh c f) c' = validc sh c'.
Proof. unfold validc, upd_ctx; simpl. now rewrite upd_length. Qed.
Lemma valids_upd_scope sh s f s' : valids (upd_scope sh s f) s' = valids sh s'.
Proof. unfold valids, upd_scope; simpl. now rewrite upd_length. Qed.

(** * The generic shape of a step *)
Lemma step_inv cf n b st st' :
  step cf (n, b) st = Some st' ->
  exists th i rest todo,
    nth_error (ths st) n = Some th /\ view (sh st) th = Some (i, rest, todo) /\
    ((exists k, exec cf b i (sh st) = XPanic k /\
        st' = {| sh := sh st;
                 ths := upd n (fun _ => {| t_cur := []; t_todo := todo;
                                           t_out := t_out th ++ [OPanic k]; t_acks := t_acks th |}) (ths st) |})
     \/ (exists sh1 push out acks spawn, exec cf b i (sh st) = XOk sh1 push out acks spawn /\
        st' = {| sh := sh1;
                 ths := upd n (fun _ => {| t_cur := push ++ rest; t_todo := todo;
                                           t_out := t_out th ++ out; t_acks := t_acks th ++ acks |}) (ths st)
                        ++ map spawned spawn |})).
Proof.
  unfold step. destruct (nth_error (ths st) n) as [th|] eqn:E; [|discriminate].
  destruct (view (sh st) th) as [[[i rest] todo]|] eqn:V; [|discriminate].
  destruct (exec cf b i (sh st)) eqn:X; [discriminate| |]; intro H; inversion H; subst; clear H;
    exists th, i, rest, todo; repeat split; eauto 10.
Qed.

Lemma run_inv cf (I : state -> Prop) :
  (forall t st st', I st -> step cf t st = Some st' -> I st') ->
  forall sched st, I st -> I (run cf sched st).
Proof.
  intros H sched; induction sched as [|t sched IH]; intros st Hst; simpl; auto.
  apply IH. unfold step_or_skip. destruct (step cf t st) eqn:E; eauto.
Qed.

Lemma run_app cf s1 s2 st : run cf (s1 ++ s2) st = run cf s2 (run cf s1 st).
Proof. unfold run. apply fold_left_app. Qed.

(** An invariant of the shared state alone is preserved by every step as soon as it is preserved by
    every successful micro-step. *)
Lemma shared_inv_step cf (P : shared -> Prop) :
  (forall b i sh sh' p o a sp, P sh -> exec cf b i sh = XOk sh' p o a sp -> P sh') ->
  forall t st st', P (sh st) -> step cf t st = Some st' -> P (sh st').
Proof.
  intros H [n b] st st' HP Hs. apply step_inv in Hs as (th & i & rest & todo & _ & _ & [(k & _ & ->)|(sh1 & p & o & a & sp & X & ->)]);
    simpl; eauto.
Qed.

(** * Trigger only writes the log *)
Lemma trigger_ctxs sh s e : ctxs (fst (trigger sh s e)) = ctxs sh.
Proof. unfold trigger. destruct (run_listeners _). reflexivity. Qed.
Lemma trigger_scopes sh s e : scopes (fst (trigger sh s e)) = scopes sh.
Proof. unfold trigger. destruct (run_listeners _). reflexivity. Qed.
Lemma trigger_log sh s e :
  exists calls, log (fst (trigger sh s e)) = log sh ++ [{| tr_ev := e; tr_by := s; tr_calls := calls |}].
Proof. unfold trigger. destruct (run_listeners _) as [calls r]. exists calls. reflexivity. Qed.

(** * Contexts only grow: errors by suffix, done monotone *)
Definition fext (x y : ctxrec) : Prop :=
  c_iso y = c_iso x /\ (c_done x = true -> c_done y = true) /\
  (exists suf, c_errors y = c_errors x ++ suf).
Definition cextl (l l' : list ctxrec) : Prop :=
  length l <= length l' /\
  forall c, (c < length l -> fext (nth c l dctx) (nth c l' dctx)).
Definition cext (sh sh' : shared) : Prop := cextl (ctxs sh) (ctxs sh').

Lemma fext_refl x : fext x x.
Proof. repeat split; auto. exists []. now rewrite app_nil_r. Qed.
Lemma fext_trans x y z : fext x y -> fext y z -> fext x z.
Proof.
  intros (A1 & A2 & s1 & A3) (B1 & B2 & s2 & B3). repeat split; try congruence; auto.
  exists (s1 ++ s2). rewrite B3, A3. now rewrite app_assoc.
Qed.
Lemma cextl_refl l : cextl l l.
Proof. split; auto. intros. apply fext_refl. Qed.
Lemma cextl_trans a b c : cextl a b -> cextl b c -> cextl a c.
Proof.
  intros [L1 H1] [L2 H2]. split; [lia|]. intros x Hx. eapply fext_trans; [apply H1|apply H2]; lia.
Qed.
Lemma cextl_upd c f l : (forall x, fext x (f x)) -> cextl l (upd c f l).
Proof.
  intros H. split. rewrite upd_length; auto. intros x Hx. rewrite nth_upd.
  destruct (_ && _); auto using fext_refl.
Qed.
Lemma cextl_app l x : cextl l (l ++ [x]).
Proof.
  split. rewrite app_length; lia. intros c Hc. rewrite app_nth1; auto using fext_refl.
Qed.
Lemma fext_append es x : fext x (c_append es x).
Proof. repeat split; auto. simpl. eauto. Qed.
Lemma fext_append_sys es x : fext x (c_append_sys es x).
Proof. repeat split; auto. simpl. eauto. Qed.
Lemma fext_close x : fext x (c_close x).
Proof. repeat split; auto. exists []. simpl. now rewrite app_nil_r. Qed.
#[export] Hint Resolve fext_append fext_append_sys fext_close cextl_refl cextl_app : scope.

(** case analysis helpers *)
Ltac des_if :=
  match goal with
  | H : context [if ?b then _ else _] |- _ => destruct b eqn:?
  | |- context [if ?b then _ else _] => destruct b eqn:?
  end.
Ltac inv_x :=
  match goal with
  | H : XOk _ _ _ _ _ = XOk _ _ _ _ _ |- _ => inversion H; subst; clear H
  | H : XBlocked = XOk _ _ _ _ _ |- _ => discriminate H
  | H : XPanic _ = XOk _ _ _ _ _ |- _ => discriminate H
  | H : XOk _ _ _ _ _ = XPanic _ |- _ => discriminate H
  | H : XOk _ _ _ _ _ = XBlocked |- _ => discriminate H
  | H : XBlocked = XPanic _ |- _ => discriminate H
  | H : XPanic _ = XPanic _ |- _ => inversion H; subst; clear H
  | H : XPanic _ = XBlocked |- _ => discriminate H
  end.
Ltac des_trig :=
  match goal with
  | H : context [trigger ?sh ?s ?e] |- _ =>
    let T := fresh "T" in let sh1 := fresh "sh1" in let r := fresh "r" in
    pose proof (trigger_ctxs sh s e) as ?; pose proof (trigger_scopes sh s e) as ?;
    destruct (trigger_log sh s e) as [? ?];
    destruct (trigger sh s e) as [sh1 r] eqn:T; simpl fst in *; destruct r
  end.

Lemma close_step_cext cf sh s sh' p o a sp :
  close_step cf sh s = XOk sh' p o a sp -> cext sh sh'.
Proof.
  unfold close_step, cext, xok. intros H.
  destruct (s_pc (gets sh s)) eqn:PC; try des_trig; repeat des_if; try inv_x; simpl;
    try (rewrite ?H0, ?H1; apply cextl_refl);
    try (apply cextl_upd; auto with scope); try apply cextl_refl; try congruence.
  all: try (destruct (s_reg (gets sh s)); repeat des_if; inv_x; simpl; apply cextl_refl).
Qed.

Lemma exec_cext cf b i sh sh' p o a sp :
  exec cf b i sh = XOk sh' p o a sp -> cext sh sh'.
Proof.
  destruct i; unfold exec, xok, xpush, cext; intros H;
    try (destruct (close_step cf sh s) eqn:CS; try discriminate; inv_x; eapply close_step_cext; eauto; fail);
    try des_trig; repeat des_if; try inv_x; simpl;
    try (apply cextl_refl); try (apply cextl_upd; auto with scope); try apply cextl_app;
    try (rewrite ?H0, ?H1; apply cextl_refl).
  all: try (destruct es; inv_x; simpl; try apply cextl_refl; apply cextl_upd; auto with scope).
  all: try (destruct (c_iso (getc sh c)); repeat des_if; inv_x; apply cextl_refl).
Qed.

Lemma step_cext cf t st st' : step cf t st = Some st' -> cext (sh st) (sh st').
Proof.
  destruct t as [n b]. intros H. apply step_inv in H as (th & i & rest & todo & _ & _ & [(k & _ & ->)|(sh1 & p & o & a & sp & X & ->)]); simpl.
  apply cextl_refl. eapply exec_cext; eauto.
Qed.

Lemma run_cext cf sched st : cext (sh st) (sh (run cf sched st)).
Proof.
  revert st; induction sched as [|t sched IH]; intros st; simpl. apply cextl_refl.
  eapply cextl_trans; [|apply IH]. unfold step_or_skip. destruct (step cf t st) eqn:E.
  eapply step_cext; eauto. apply cextl_refl.
Qed.

Lemma cext_done sh sh' c : cext sh sh' -> c_done (getc sh c) = true -> c_done (getc sh' c) = true.
Proof.
  intros [L H] D. unfold getc in *. destruct (Nat.lt_ge_cases c (length (ctxs sh))) as [Hc|Hc].
  - apply H in Hc. apply Hc. auto.
  - rewrite nth_overflow in D by lia. discriminate.
Qed.
Lemma cext_errors sh sh' c : cext sh sh' -> exists suf, c_errors (getc sh' c) = c_errors (getc sh c) ++ suf.
Proof.
  intros [L H]. unfold getc in *. destruct (Nat.lt_ge_cases c (length (ctxs sh))) as [Hc|Hc].
  - apply H in Hc. apply Hc.
  - rewrite (nth_overflow (ctxs sh)) by lia. simpl. eauto.
Qed.
Lemma cext_valid sh sh' c : cext sh sh' -> validc sh c = true -> validc sh' c = true.
Proof. intros [L _]. unfold validc. lia. Qed.
Lemma cext_iso sh sh' c : cext sh sh' -> validc sh c = true -> c_iso (getc sh' c) = c_iso (getc sh c).
Proof. intros [L H] V. unfold validc in V. apply H. lia. Qed.

(** * Every acknowledged Stop / AppendError / Kill finds the context done, for ever *)
Definition acks_done (st : state) : Prop :=
  forall th c es, In th (ths st) -> In (c, es) (t_acks th) -> c_done (getc (sh st) c) = true.

Lemma exec_acks_done cf b i sh sh' p o a sp :
  exec cf b i sh = XOk sh' p o a sp -> forall c es, In (c, es) a -> c_done (getc sh' c) = true.
Proof.
  destruct i; unfold exec, xok, xpush; intros H;
    try (destruct (close_step cf sh s) eqn:CS; try discriminate; inv_x; simpl; tauto);
    try des_trig; repeat des_if; try inv_x; simpl; try tauto.
  all: try (destruct es; inv_x; simpl; tauto).
  all: try (intros c' es' [E|[]]; inversion E; subst; rewrite ?getc_upd_ctx, ?Nat.eqb_refl; simpl;
            repeat match goal with H : validc _ _ = true |- _ => rewrite H end; simpl; auto).
  all: try (destruct (c_iso (getc sh c)); repeat des_if; inv_x; simpl; tauto).
Qed.

Lemma acks_done_step cf t st st' : acks_done st -> step cf t st = Some st' -> acks_done st'.
Proof.
  destruct t as [n b]. intros I H. pose proof (step_cext _ _ _ _ H) as CE.
  apply step_inv in H as (th & i & rest & todo & Hn & _ & [(k & _ & ->)|(sh1 & p & o & a & sp & X & ->)]);
    intros th' c es Hin Hack; simpl in *.
  - apply in_upd in Hin as [Hin|(x & Hx & ->)]; simpl in *; eauto.
    apply (I th c es); auto. eapply nth_error_In; eauto.
  - apply in_app_or in Hin as [Hin|Hin].
    + apply in_upd in Hin as [Hin|(x & Hx & ->)]; simpl in *.
      * eapply cext_done; eauto.
      * apply in_app_or in Hack as [Hack|Hack].
        -- eapply cext_done; eauto. apply (I th c es); auto. eapply nth_error_In; eauto.
        -- eapply exec_acks_done; eauto.
    + apply in_map_iff in Hin as (cur & <- & _). simpl in Hack. tauto.
Qed.

Lemma acks_done_init progs : acks_done (init progs).
Proof. intros th c es Hin. apply in_map_iff in Hin as (ops & <- & _). simpl. tauto. Qed.

(** * Accounting: nothing appended is lost or duplicated *)
Definition th_exec (c : nat) (th : thread) : list err :=
  acked c (t_acks th) ++ flat_map (stop_item c) (t_cur th).
Definition acct (st : state) : Prop :=
  forall c, Permutation (c_errors (getc (sh st) c))
                        (c_sys (getc (sh st) c) ++ flat_map (th_exec c) (ths st)).

Lemma acked_app c a b : acked c (a ++ b) = acked c a ++ acked c b.
Proof. unfold acked. apply flat_map_app. Qed.

Lemma expand_no_items sh o c : flat_map (stop_item c) (expand sh o) = [].
Proof.
  destruct o; simpl; repeat des_if; simpl; auto; try (destruct (Nat.eqb _ c); reflexivity).
  destruct (nonnil es); simpl; auto.
Qed.

Lemma view_items sh th i rest todo c :
  view sh th = Some (i, rest, todo) ->
  flat_map (stop_item c) (i :: rest) = flat_map (stop_item c) (t_cur th).
Proof.
  unfold view. destruct (t_cur th) as [|j r] eqn:E.
  - destruct (t_todo th) as [|o os]; [discriminate|].
    pose proof (expand_no_items sh o c) as X. destruct (expand sh o); intros H; inversion H; subst; auto.
  - intros H; inversion H; subst; auto.
Qed.

Lemma close_step_acct cf sh s sh' p o a sp :
  close_step cf sh s = XOk sh' p o a sp ->
  a = [] /\ forall c, exists d, c_errors (getc sh' c) = c_errors (getc sh c) ++ d /\
                               c_sys (getc sh' c) = c_sys (getc sh c) ++ d.
Proof.
  unfold close_step, xok. intros H.
  assert (Z : forall c, exists d, c_errors (getc sh c) = c_errors (getc sh c) ++ d /\
                               c_sys (getc sh c) = c_sys (getc sh c) ++ d)
    by (intros; exists []; now rewrite !app_nil_r).
  assert (U : forall c0 es c, exists d,
             c_errors (getc (upd_ctx sh c0 (c_append_sys es)) c) = c_errors (getc sh c) ++ d /\
             c_sys (getc (upd_ctx sh c0 (c_append_sys es)) c) = c_sys (getc sh c) ++ d).
  { intros. rewrite getc_upd_ctx. destruct (_ && _); simpl; eauto. }
  assert (V : forall c0 c, exists d,
             c_errors (getc (upd_ctx sh c0 c_close) c) = c_errors (getc sh c) ++ d /\
             c_sys (getc (upd_ctx sh c0 c_close) c) = c_sys (getc sh c) ++ d).
  { intros. rewrite getc_upd_ctx. destruct (_ && _); simpl; auto. }
  destruct (s_pc (gets sh s)) eqn:PC; try des_trig; repeat des_if; try inv_x; split; auto;
    unfold set_pc, getc in *; simpl; rewrite ?H0; auto; try apply U; try apply V.
  all: try (destruct (s_reg (gets sh s)); repeat des_if; inv_x; auto).
Qed.

Lemma nth_new_ctx l o c0 :
  c_errors (nth c0 (l ++ [new_ctx o]) dctx) = c_errors (nth c0 l dctx) /\
  c_sys (nth c0 (l ++ [new_ctx o]) dctx) = c_sys (nth c0 l dctx) /\
  c_done (nth c0 (l ++ [new_ctx o]) dctx) = c_done (nth c0 l dctx).
Proof.
  destruct (Nat.lt_ge_cases c0 (length l)).
  - rewrite app_nth1; auto.
  - rewrite (nth_overflow l) by lia. destruct (Nat.eq_dec c0 (length l)) as [->|].
    + rewrite nth_middle. simpl. auto.
    + rewrite nth_overflow. auto. rewrite app_length; simpl; lia.
Qed.

Definition head_ok (cf : cfg) (sh : shared) (i : instr) : Prop :=
  match i with
  | ICStop c es => es <> [] -> validc sh c = true
  | ICClose c es => stop_atomic cf = false /\ (es <> [] -> validc sh c = true)
  | _ => True
  end.

Lemma exec_acct cf b i sh sh' p o a sp :
  exec cf b i sh = XOk sh' p o a sp -> head_ok cf sh i ->
  Forall (fun cur => forall c, flat_map (stop_item c) cur = []) sp /\
  forall c, exists d ds,
      c_errors (getc sh' c) = c_errors (getc sh c) ++ d /\
      c_sys (getc sh' c) = c_sys (getc sh c) ++ ds /\
      Permutation (d ++ stop_item c i) (ds ++ acked c a ++ flat_map (stop_item c) p).
Proof.
  intros H HO. split.
  { destruct i; unfold exec, xok, xpush in H;
      try (destruct (close_step cf sh s) eqn:CS; try discriminate; inv_x; constructor);
      try des_trig; repeat des_if; try inv_x; auto.
    all: try (destruct es; inv_x; auto).
    all: try (destruct (c_iso (getc sh c)); repeat des_if; inv_x; auto). }
  intros c0.
  assert (Z : forall sh0, c_errors (getc sh0 c0) = c_errors (getc sh c0) ->
                          c_sys (getc sh0 c0) = c_sys (getc sh c0) -> forall l1 l2, l1 = l2 ->
     exists d ds, c_errors (getc sh0 c0) = c_errors (getc sh c0) ++ d /\
       c_sys (getc sh0 c0) = c_sys (getc sh c0) ++ ds /\ Permutation (d ++ l1) (ds ++ l2)).
  { intros sh0 E1 E2 l1 l2 ->. exists [], []. rewrite E1, E2, !app_nil_r. auto. }
  assert (C : forall c1, c_errors (getc (upd_ctx sh c1 c_close) c0) = c_errors (getc sh c0) /\
                         c_sys (getc (upd_ctx sh c1 c_close) c0) = c_sys (getc sh c0)).
  { intros. rewrite getc_upd_ctx. destruct (_ && _); auto. }
  destruct i; unfold exec, xok, xpush in H.
  all: try (destruct (close_step cf sh s) eqn:CS; try discriminate; inv_x;
            apply close_step_acct in CS as [-> CS]; destruct (CS c0) as (d & E1 & E2);
            exists d, d; simpl; rewrite !app_nil_r; auto; fail).
  all: try des_trig; repeat des_if; try inv_x.
  all: try (apply Z; [unfold getc; simpl; try apply nth_new_ctx; congruence
                     |unfold getc; simpl; try apply nth_new_ctx; congruence
                     |simpl; rewrite ?app_nil_r; try reflexivity; destruct (Nat.eqb _ _); reflexivity]; fail).
  all: try (apply Z; [apply C|apply C|simpl; rewrite ?app_nil_r; try reflexivity]; fail).
  - (* ICAppend *)
    rewrite getc_upd_ctx. simpl flat_map. simpl stop_item.
    destruct (Nat.eqb_spec c c0) as [->|N]; simpl.
    + rewrite Heqb0. simpl. exists (e :: l), []. rewrite !app_nil_r. auto.
    + exists [], []. rewrite !app_nil_r. auto.
  - (* ICStop, invalid c *) simpl in HO. simpl. destruct (Nat.eqb_spec c c0) as [->|N].
    + destruct es. apply Z; auto. rewrite HO in Heqb0; discriminate.
    + apply Z; auto.
  - simpl in HO. destruct HO as [_ HO]. simpl. destruct (Nat.eqb_spec c c0) as [->|N].
    + destruct es. apply Z; auto. rewrite HO in Heqb0; discriminate.
    + apply Z; auto.
  - (* IRunClose *) destruct (close_step cf sh s) eqn:CS; try discriminate. inv_x.
    apply close_step_acct in CS as [E CS]. destruct (CS c0) as (d & E1 & E2).
    exists d, d. simpl. rewrite !app_nil_r. split; auto. split; auto.
    assert (F : flat_map (stop_item c0) (match s_pc (gets sh' s) with CFinished | CNone => [] | _ => [IRunClose s] end) = [])
      by (destruct (s_pc (gets sh' s)); reflexivity).
    rewrite F, app_nil_r. auto.
  - (* IWatch *) destruct (c_iso (getc sh c)); repeat des_if; inv_x; apply Z; auto.
  - destruct (c_iso (getc sh c)); repeat des_if; inv_x; apply Z; auto.
  - destruct (c_iso (getc sh c)); repeat des_if; inv_x; simpl; try (apply Z; auto; fail).
    apply Z; auto. simpl. destruct (Nat.eqb c c0); auto.
Qed.

(** Shape of a thread's continuation: a Stop carrying appended errors (and, before F19, the
    close half of a Stop) is only ever at the head. *)
Definition quiet (i : instr) : Prop :=
  match i with ICStop _ es => es = [] | ICClose _ _ => False | _ => True end.
Definition shape (cf : cfg) (sh : shared) (th : thread) : Prop :=
  Forall quiet (tl (t_cur th)) /\
  match t_cur th with i :: _ => head_ok cf sh i | [] => True end.
Definition shapes (cf : cfg) (st : state) : Prop := forall th, In th (ths st) -> shape cf (sh st) th.

Lemma quiet_item c i : quiet i -> stop_item c i = [].
Proof. destruct i; simpl; auto; try tauto. intros ->. destruct (Nat.eqb _ _); auto. Qed.
Lemma quiet_items c l : Forall quiet l -> flat_map (stop_item c) l = [].
Proof. induction 1; simpl; auto. rewrite quiet_item, IHForall; auto. Qed.
Lemma quiet_head_ok cf sh i : quiet i -> head_ok cf sh i.
Proof. destruct i; simpl; auto; try tauto. Qed.

Lemma expand_quiet sh o : Forall quiet (expand sh o).
Proof.
  destruct o; simpl; repeat des_if; repeat constructor; simpl; auto.
  destruct (nonnil es); repeat constructor.
Qed.

Lemma view_shape cf sh th i rest todo :
  shape cf sh th -> view sh th = Some (i, rest, todo) -> Forall quiet rest /\ head_ok cf sh i.
Proof.
  unfold view, shape. intros [T Hd]. destruct (t_cur th) as [|j r].
  - destruct (t_todo th) as [|o os]; [discriminate|]. pose proof (expand_quiet sh o) as Q.
    destruct (expand sh o); intros H; inversion H; subst; simpl; auto.
    inversion Q; subst. split; auto using quiet_head_ok.
  - intros H; inversion H; subst. auto.
Qed.

Lemma head_ok_cext cf sh sh' i : cext sh sh' -> head_ok cf sh i -> head_ok cf sh' i.
Proof. intros CE. destruct i; simpl; auto; intuition eauto using cext_valid. Qed.

Lemma exec_push_shape cf b i sh sh' p o a sp :
  exec cf b i sh = XOk sh' p o a sp -> head_ok cf sh i ->
  Forall quiet (tl p) /\ match p with j :: _ => head_ok cf sh' j | [] => True end /\
  Forall (fun cur => exists c, cur = [IWatch c]) sp.
Proof.
  intros H HO.
  assert (W : forall c, match c_iso (getc sh c) with
    | Some p => if c_done (getc sh p) && (negb (c_done (getc sh c)) || b)
                then XOk sh [IWatchRead c] [] [] []
                else if c_done (getc sh c) then XOk sh [] [] [] [] else XBlocked
    | None => XOk sh [] [] [] [] end = XOk sh' p o a sp ->
    Forall quiet (tl p) /\ match p with j :: _ => head_ok cf sh' j | [] => True end /\
    Forall (fun cur => exists c, cur = [IWatch c]) sp).
  { intros c. destruct (c_iso (getc sh c)); repeat des_if; intros; inv_x; simpl; auto. }
  assert (W2 : forall c, match c_iso (getc sh c) with
    | Some p => if isnil (c_errors (getc sh p)) then XOk sh [ICStop c []] [] [] []
                else XOk sh [ICAppend c [Canceled]] [] [] []
    | None => XOk sh [] [] [] [] end = XOk sh' p o a sp ->
    Forall quiet (tl p) /\ match p with j :: _ => head_ok cf sh' j | [] => True end /\
    Forall (fun cur => exists c, cur = [IWatch c]) sp).
  { intros c. destruct (c_iso (getc sh c)); repeat des_if; intros; inv_x; simpl; auto. }
  destruct i; unfold exec, xok, xpush in H; auto;
    try (apply W in H; assumption); try (apply W2 in H; assumption);
    try (destruct (close_step cf sh s) eqn:CS; try discriminate; inv_x;
         destruct (s_pc (gets sh' s)); simpl; auto; fail);
    try des_trig; repeat des_if; try inv_x; simpl; auto; repeat split; repeat constructor; simpl; auto;
    try congruence; eauto.
  - intros _. unfold validc, upd_ctx in *. simpl. rewrite upd_length. auto.
Qed.

Lemma shapes_step cf t st st' : shapes cf st -> step cf t st = Some st' -> shapes cf st'.
Proof.
  destruct t as [n b]. intros I H. pose proof (step_cext _ _ _ _ H) as CE.
  apply step_inv in H as (th & i & rest & todo & Hn & V & [(k & _ & ->)|(sh1 & p & o & a & sp & X & ->)]);
    intros th' Hin; simpl in *.
  - apply in_upd in Hin as [Hin|(x & Hx & ->)]; auto. split; simpl; auto.
  - assert (Sth : shape cf (sh st) th) by (apply I; eapply nth_error_In; eauto).
    destruct (view_shape _ _ _ _ _ _ Sth V) as [Qr Hi].
    destruct (exec_push_shape _ _ _ _ _ _ _ _ _ X Hi) as (P1 & P2 & P3).
    apply in_app_or in Hin as [Hin|Hin].
    + apply in_upd in Hin as [Hin|(x & Hx & ->)].
      * destruct (I _ Hin) as [A B]. split; auto. destruct (t_cur th'); auto.
        eapply head_ok_cext; eauto.
      * split; simpl.
        -- destruct p as [|j p]; simpl in *. destruct rest; simpl; auto. inversion Qr; auto.
           apply Forall_app; auto.
        -- destruct p as [|j p]; simpl in *; auto. destruct rest; auto. inversion Qr; subst.
           auto using quiet_head_ok.
    + apply in_map_iff in Hin as (cur & <- & Hc). rewrite Forall_forall in P3.
      destruct (P3 _ Hc) as [c ->]. split; simpl; auto.
Qed.

Lemma shapes_init cf progs : shapes cf (init progs).
Proof. intros th Hin. apply in_map_iff in Hin as (ops & <- & _). split; simpl; auto. Qed.

Lemma exec_panic_item cf b i sh k c :
  exec cf b i sh = XPanic k -> stop_atomic cf = true -> head_ok cf sh i -> stop_item c i = [].
Proof.
  destruct i; simpl; auto.
  - unfold xok, xpush. intros H; repeat des_if; discriminate.
  - intros _ E [E' _]. congruence.
Qed.

Lemma flat_map_spawned c sp :
  Forall (fun cur => forall c, flat_map (stop_item c) cur = []) sp ->
  flat_map (th_exec c) (map spawned sp) = [].
Proof.
  induction 1; simpl; auto. unfold th_exec at 1. simpl. rewrite H, IHForall. auto.
Qed.

Lemma acct_step cf t st st' :
  stop_atomic cf = true -> shapes cf st -> acct st -> step cf t st = Some st' -> acct st'.
Proof.
  destruct t as [n b]. intros AT S I H.
  apply step_inv in H as (th & i & rest & todo & Hn & V & [(k & X & ->)|(sh1 & p & o & a & sp & X & ->)]);
    intros c; simpl in *; specialize (I c).
  all: assert (Sth : shape cf (sh st) th) by (apply S; eapply nth_error_In; eauto).
  all: destruct (view_shape _ _ _ _ _ _ Sth V) as [Qr Hi].
  all: pose proof (view_items _ _ _ _ _ c V) as VI; simpl in VI; rewrite (quiet_items c rest Qr), app_nil_r in VI.
  all: destruct (upd_split' n (ths st) th Hn) as (l1 & l2 & E1 & E2); rewrite E2.
  - rewrite (exec_panic_item _ _ _ _ _ c X AT Hi) in VI.
    rewrite E1 in I. rewrite !flat_map_app in *. simpl in *. unfold th_exec at 2 in I. unfold th_exec at 2.
    simpl. rewrite <- VI in I. exact I.
  - destruct (exec_acct _ _ _ _ _ _ _ _ _ X Hi) as [SP A]. destruct (A c) as (d & ds & D1 & D2 & D3).
    rewrite E1 in I. rewrite !flat_map_app in *. simpl in *. rewrite flat_map_spawned by auto.
    unfold th_exec at 2 in I. unfold th_exec at 2. simpl. rewrite <- VI in I.
    rewrite acked_app, flat_map_app, (quiet_items c rest Qr), D1, D2, !app_nil_r in *.
    revert I D3. rewrite !(Permutation_count_occ N.eq_dec). intros I D3 e.
    specialize (I e). specialize (D3 e). rewrite !count_occ_app in *. unfold err in *. lia.
Qed.

Lemma acct_init progs : acct (init progs).
Proof.
  intros c. simpl. unfold getc. simpl. destruct c; simpl.
  all: induction progs; simpl; auto.
Qed.

Lemma flat_map_split {A B} (f g : A -> list B) l :
  Permutation (flat_map (fun x => f x ++ g x) l) (flat_map f l ++ flat_map g l).
Proof.
  induction l as [|x l IH]; simpl; auto.
  rewrite IH. rewrite <- !app_assoc. apply Permutation_app_head.
  rewrite !app_assoc. apply Permutation_app_tail. apply Permutation_app_comm.
Qed.

Lemma retained cf progs sched c :
  stop_atomic cf = true ->
  let st := run cf sched (init progs) in
  Permutation (c_errors (getc (sh st) c)) (c_sys (getc (sh st) c) ++ completed c st ++ inflight c st).
Proof.
  intros AT st.
  assert (I : shapes cf st /\ acct st).
  { apply (run_inv cf (fun st => shapes cf st /\ acct st)).
    - intros t s s' [S A] H. split. eapply shapes_step; eauto. eapply acct_step; eauto.
    - split. apply shapes_init. apply acct_init. }
  destruct I as [_ A]. rewrite (A c). apply Permutation_app_head.
  unfold completed, inflight. apply (flat_map_split (fun th => acked c (t_acks th))).
Qed.

(** * The WaitGroup counter: wg = outstanding accepted tasks + registered open children *)
Definition wgL (l : list scoperec) : Prop :=
  forall s, s < length l ->
    s_wg (nth s l dscope) = (s_tasks (nth s l dscope) + Z.of_nat (open_children l s))%Z /\
    (forall p, s_reg (nth s l dscope) = Some p -> p < s).

Lemma oc_upd_same l n f p :
  (forall x, s_reg (f x) = s_reg x) -> open_children (upd n f l) p = open_children l p.
Proof.
  intros H. unfold open_children. revert n; induction l as [|x l IH]; intros [|n]; simpl; auto.
  - assert (E : reg_on p (f x) = reg_on p x) by (unfold reg_on; now rewrite H).
    rewrite E. destruct (reg_on p x); reflexivity.
  - destruct (reg_on p x); simpl; auto.
Qed.

Lemma oc_app l x p : open_children (l ++ [x]) p = open_children l p + (if reg_on p x then 1 else 0).
Proof. unfold open_children. rewrite filter_app, app_length. simpl. destruct (reg_on p x); auto. Qed.

Lemma oc_clear l s p0 p : s < length l -> s_reg (nth s l dscope) = Some p0 ->
  open_children l p = open_children (upd s s_clear_reg l) p + (if Nat.eqb p0 p then 1 else 0).
Proof.
  unfold open_children. revert s; induction l as [|x l IH]; intros [|s] L R; simpl in *; try lia.
  - assert (E1 : reg_on p x = Nat.eqb p0 p) by (unfold reg_on; now rewrite R).
    rewrite E1. destruct (Nat.eqb p0 p); simpl; lia.
  - specialize (IH s). destruct (reg_on p x); simpl; rewrite IH by (auto; lia); lia.
Qed.

Lemma oc_none l p : (forall s q, s < length l -> s_reg (nth s l dscope) = Some q -> q < s) ->
  length l <= p -> open_children l p = 0.
Proof.
  intros H L. unfold open_children. 
  assert (F : forall x, In x l -> reg_on p x = false).
  { intros x Hin. apply (In_nth _ _ dscope) in Hin as (s & Hs & <-). unfold reg_on.
    destruct (s_reg (nth s l dscope)) eqn:E; auto. apply H in E; auto. apply Nat.eqb_neq. lia. }
  clear H. induction l; simpl; auto. rewrite F by (left; auto). apply IHl.
  simpl in L; lia. intros; apply F; right; auto.
Qed.

Lemma wgL_upd_same l n f : wgL l ->
  (forall x, s_reg (f x) = s_reg x /\ (s_wg (f x) - s_tasks (f x) = s_wg x - s_tasks x)%Z) -> wgL (upd n f l).
Proof.
  intros W H s Hs. rewrite upd_length in Hs. rewrite oc_upd_same by apply H.
  rewrite nth_upd. destruct (W s Hs) as [A B]. destruct (_ && _); auto.
  destruct (H (nth s l dscope)) as [R E]. rewrite R. split; auto. lia.
Qed.

Lemma wgL_app l x : wgL l -> s_wg x = s_tasks x ->
  match s_reg x with None => True | Some p => False end -> wgL (l ++ [x]).
Proof.
  intros W E R s Hs. rewrite app_length in Hs. simpl in Hs. rewrite oc_app.
  assert (reg_on s x = false) as -> by (unfold reg_on; destruct (s_reg x); tauto).
  destruct (Nat.eq_dec s (length l)) as [->|N].
  - rewrite nth_middle. rewrite oc_none; auto. split. lia. destruct (s_reg x); [tauto|discriminate].
    intros s q Hs' Hq. apply (W s Hs'); auto.
  - rewrite app_nth1 by lia. rewrite Nat.add_0_r. apply W. lia.
Qed.

Lemma wgL_app_child l p x : wgL l -> p < length l -> s_wg x = s_tasks x -> s_reg x = Some p ->
  wgL (upd p (s_add_wg 1 0) l ++ [x]).
Proof.
  intros W Hp E R s Hs. rewrite app_length, upd_length in Hs. simpl in Hs. rewrite oc_app.
  rewrite oc_upd_same by reflexivity. unfold reg_on. rewrite R.
  destruct (Nat.eq_dec s (length l)) as [->|N].
  - assert (Hn : nth (length l) (upd p (s_add_wg 1 0) l ++ [x]) dscope = x).
    { rewrite <- (upd_length p (s_add_wg 1 0) l) at 1. apply nth_middle. }
    rewrite !Hn. rewrite oc_none; auto. 2: intros s q Hs' Hq; apply (W s Hs'); auto.
    destruct (Nat.eqb_spec p (length l)); [lia|]. split. lia. rewrite R. intros q Hq; inversion Hq; subst; auto.
  - rewrite app_nth1 by (rewrite upd_length; lia). rewrite nth_upd.
    destruct (W s) as [A B]; [lia|].
    destruct (Nat.eqb_spec p s) as [->|Np]; simpl.
    + destruct (Nat.ltb_spec s (length l)); [|lia]. simpl. split; auto. lia.
    + split; auto. lia.
Qed.

Lemma wgL_signoff l s p : wgL l -> s < length l -> s_reg (nth s l dscope) = Some p ->
  (s_wg (nth p l dscope) >= s_tasks (nth p l dscope) + 1)%Z /\
  wgL (upd s s_clear_reg (upd p (s_add_wg (-1) 0) l)).
Proof.
  intros W Hs R. destruct (W s Hs) as [_ B]. specialize (B p R).
  destruct (W p) as [Ap _]; [lia|].
  pose proof (oc_clear l s p p Hs R) as OC. rewrite Nat.eqb_refl in OC. split. lia.
  intros q Hq. rewrite !upd_length in Hq. destruct (W q Hq) as [Aq Bq].
  assert (R' : s_reg (nth s (upd p (s_add_wg (-1) 0) l) dscope) = Some p).
  { rewrite nth_upd. destruct (_ && _); auto. }
  pose proof (oc_clear (upd p (s_add_wg (-1) 0) l) s p q) as OC'. rewrite upd_length in OC'.
  specialize (OC' Hs R'). rewrite oc_upd_same in OC' by reflexivity.
  rewrite !nth_upd, !upd_length.
  destruct (Nat.eqb_spec s q) as [->|Nsq]; simpl.
  - destruct (Nat.ltb_spec q (length l)); [|lia]. simpl.
    destruct (Nat.eqb_spec p q); [lia|]. simpl. split; [|discriminate].
    destruct (Nat.eqb_spec p q); [lia|]. lia.
  - destruct (Nat.eqb_spec p q) as [->|Npq]; simpl.
    + destruct (Nat.ltb_spec q (length l)); [|lia]. simpl. split; auto. lia.
    + split; auto. lia.
Qed.

Definition wgI (sh : shared) : Prop := wgL (scopes sh).

Ltac wg_same := apply wgL_upd_same; auto; intros ?; simpl; split; auto; lia.

Lemma close_step_wg cf sh s sh' p o a sp :
  wgI sh -> close_step cf sh s = XOk sh' p o a sp -> wgI sh'.
Proof.
  unfold close_step, wgI, xok, set_pc. intros W H.
  destruct (s_pc (gets sh s)) eqn:PC; try des_trig; repeat des_if; try inv_x; simpl;
    rewrite ?H0, ?H1; auto; try wg_same.
  - apply wgL_upd_same. apply wgL_upd_same; auto. all: intros ?; simpl; split; auto; lia.
  - destruct (s_reg (gets sh s)) eqn:R; repeat des_if; inv_x; simpl; try wg_same.
    apply wgL_upd_same; [|intros ?; simpl; split; auto; lia].
    destruct (Nat.lt_ge_cases s (length (scopes sh))) as [Hs|Hs].
    + apply wgL_signoff; auto.
    + unfold gets in R. rewrite nth_overflow in R by lia. discriminate.
Qed.

Lemma exec_wg cf b i sh sh' p o a sp :
  remember_reg cf = true -> wgI sh -> exec cf b i sh = XOk sh' p o a sp -> wgI sh'.
Proof.
  intros RR W H. destruct i; unfold exec, xok, xpush in H;
    try (destruct (close_step cf sh s) eqn:CS; try discriminate; inv_x; eapply close_step_wg; eauto; fail);
    try des_trig; repeat des_if; try inv_x; unfold wgI, set_pc in *; simpl; rewrite ?H0, ?H1; auto; try wg_same.
  all: try (destruct (c_iso (getc sh c)); repeat des_if; inv_x; auto; fail).
  all: try (apply wgL_app; simpl; auto; fail).
  all: rewrite RR in *; simpl in *.
  all: apply andb_prop in Heqb0 as [V _]; unfold valids in V.
  all: destruct (c_done (getc sh (s_ctx (gets sh p0)))); simpl.
  all: try (apply wgL_app; simpl; auto; fail).
  all: try discriminate.
  all: apply wgL_app_child; simpl; auto; lia.
Qed.

Lemma run_shared_inv cf (P : shared -> Prop) :
  (forall b i sh sh' p o a sp, P sh -> exec cf b i sh = XOk sh' p o a sp -> P sh') ->
  forall sched st, P (sh st) -> P (sh (run cf sched st)).
Proof.
  intros H. apply (run_inv cf (fun st => P (sh st))). intros t st st'. apply shared_inv_step; auto.
Qed.

Lemma wgI_init progs : wgI (sh (init progs)).
Proof. intros s Hs. simpl in Hs. lia. Qed.

(** * Syntactic invariants of the threads *)
Definition syn (P : instr -> Prop) (Q : op -> Prop) (st : state) : Prop :=
  forall th, In th (ths st) -> Forall P (t_cur th) /\ Forall Q (t_todo th).

Lemma syn_view (P : instr -> Prop) (Q : op -> Prop) sh th i rest todo :
  (forall sh o, Q o -> Forall P (expand sh o)) -> P INop ->
  Forall P (t_cur th) -> Forall Q (t_todo th) -> view sh th = Some (i, rest, todo) ->
  P i /\ Forall P rest /\ Forall Q todo.
Proof.
  intros HE HN HC HT. unfold view. destruct (t_cur th) as [|j r].
  - destruct (t_todo th) as [|o os]; [discriminate|]. inversion HT; subst.
    pose proof (HE sh o H1) as X. destruct (expand sh o); intros H; inversion H; subst; auto.
    inversion X; auto.
  - intros H; inversion H; subst. inversion HC; auto.
Qed.

Lemma syn_step cf (P : instr -> Prop) (Q : op -> Prop) t st st' :
  (forall sh o, Q o -> Forall P (expand sh o)) -> P INop ->
  (forall b i sh sh' p o a sp, P i -> exec cf b i sh = XOk sh' p o a sp -> Forall P p /\ Forall (Forall P) sp) ->
  syn P Q st -> step cf t st = Some st' -> syn P Q st'.
Proof.
  intros HE HN HX I H. destruct t as [n b].
  apply step_inv in H as (th & i & rest & todo & Hn & V & [(k & X & ->)|(sh1 & p & o & a & sp & X & ->)]);
    intros th' Hin; simpl in *.
  all: destruct (I th) as [A B]; [eapply nth_error_In; eauto|].
  all: destruct (syn_view P Q _ _ _ _ _ HE HN A B V) as (Pi & Pr & Pt).
  - apply in_upd in Hin as [Hin|(x & Hx & ->)]; auto. simpl. auto.
  - destruct (HX _ _ _ _ _ _ _ _ Pi X) as [Pp Ps].
    apply in_app_or in Hin as [Hin|Hin].
    + apply in_upd in Hin as [Hin|(x & Hx & ->)]; auto. simpl. split; auto. apply Forall_app; auto.
    + apply in_map_iff in Hin as (cur & <- & Hc). simpl. split; auto.
      rewrite Forall_forall in Ps. auto.
Qed.

Lemma syn_init (P : instr -> Prop) (Q : op -> Prop) progs : Forall (Forall Q) progs -> syn P Q (init progs).
Proof.
  intros H th Hin. apply in_map_iff in Hin as (ops & <- & Ho). simpl. split; auto.
  rewrite Forall_forall in H. auto.
Qed.

Definition i_nodone (i : instr) : Prop := match i with IDoneTask _ => False | _ => True end.
Definition i_safe (i : instr) : Prop :=
  match i with IDoneTask _ | IC0 _ | IRunClose _ => False | _ => True end.

Lemma expand_nodone sh o : op_nodone o = true -> Forall i_nodone (expand sh o).
Proof.
  destruct o; simpl; intros H; try discriminate; repeat des_if; repeat constructor; simpl; auto.
  destruct (nonnil es); repeat constructor.
Qed.
Lemma expand_safe sh o : op_safe o = true -> Forall i_safe (expand sh o).
Proof.
  destruct o; simpl; intros H; try discriminate; repeat des_if; repeat constructor; simpl; auto.
  destruct (nonnil es); repeat constructor.
Qed.

Lemma exec_push_nodone cf b i sh sh' p o a sp :
  exec cf b i sh = XOk sh' p o a sp -> Forall i_nodone p /\ Forall (Forall i_nodone) sp.
Proof.
  intros H. destruct i; unfold exec, xok, xpush in H;
    try (destruct (close_step cf sh s) eqn:CS; try discriminate; inv_x;
         destruct (s_pc (gets sh' s)); repeat constructor; fail);
    try des_trig; repeat des_if; try inv_x; repeat constructor; simpl; auto.
  all: destruct (c_iso (getc sh c)); repeat des_if; inv_x; repeat constructor.
Qed.
Lemma exec_push_safe cf b i sh sh' p o a sp : i_safe i ->
  exec cf b i sh = XOk sh' p o a sp -> Forall i_safe p /\ Forall (Forall i_safe) sp.
Proof.
  intros S H. destruct i; simpl in S; try tauto; unfold exec, xok, xpush in H;
    try des_trig; repeat des_if; try inv_x; repeat constructor; simpl; auto.
  all: destruct (c_iso (getc sh c)); repeat des_if; inv_x; repeat constructor.
Qed.

(** * No WaitGroup / channel panic without user DoneTask (C12_child_of_done) *)
Definition tasksI (sh : shared) : Prop := Forall (fun x => (0 <= s_tasks x)%Z) (scopes sh).

Lemma Forall_upd {A} (P : A -> Prop) n f l : Forall P l -> (forall x, P x -> P (f x)) -> Forall P (upd n f l).
Proof. intros H F. revert n; induction H; intros [|n]; simpl; auto. Qed.

Lemma close_step_tasks cf sh s sh' p o a sp :
  tasksI sh -> close_step cf sh s = XOk sh' p o a sp -> tasksI sh'.
Proof.
  unfold close_step, tasksI, xok, set_pc. intros W H.
  destruct (s_pc (gets sh s)) eqn:PC; try des_trig; repeat des_if; try inv_x; simpl;
    rewrite ?H0, ?H1; auto; repeat (apply Forall_upd; auto; try (intros ?; simpl; lia)).
  destruct (s_reg (gets sh s)) eqn:R; repeat des_if; inv_x; simpl;
    repeat (apply Forall_upd; auto; try (intros ?; simpl; lia)).
Qed.

Lemma exec_tasks cf b i sh sh' p o a sp :
  i_nodone i -> tasksI sh -> exec cf b i sh = XOk sh' p o a sp -> tasksI sh'.
Proof.
  intros ND W H. destruct i; simpl in ND; try tauto; unfold exec, xok, xpush in H;
    try (destruct (close_step cf sh s) eqn:CS; try discriminate; inv_x; eapply close_step_tasks; eauto; fail);
    try des_trig; repeat des_if; try inv_x; unfold tasksI, set_pc in *; simpl; rewrite ?H0, ?H1; auto;
    repeat (apply Forall_upd; auto; try (intros ?; simpl; lia)).
  all: try (destruct (c_iso (getc sh c)); repeat des_if; inv_x; auto; fail).
  all: try (apply Forall_app; split; auto; repeat constructor; simpl; lia).
  all: destruct (negb _); simpl; try (apply Forall_app; split; auto; repeat constructor; simpl; try lia);
    repeat (apply Forall_upd; auto; try (intros ?; simpl; lia)).
Qed.

Lemma exec_out_nopanic cf b i sh sh' p o a sp :
  exec cf b i sh = XOk sh' p o a sp -> Forall (fun x => is_panic x = false) o.
Proof.
  intros H. destruct i; unfold exec, xok, xpush in H;
    try des_trig; repeat des_if; try inv_x; repeat constructor.
  - unfold close_step, xok in H. destruct (s_pc (gets sh s)); try des_trig; repeat des_if; try inv_x;
      repeat constructor.
    destruct (s_reg (gets sh s)); repeat des_if; inv_x; constructor.
  - destruct (c_iso (getc sh c)); repeat des_if; inv_x; repeat constructor.
  - destruct (c_iso (getc sh c)); repeat des_if; inv_x; repeat constructor.
  - destruct (c_iso (getc sh c)); repeat des_if; inv_x; repeat constructor.
Qed.

Lemma tasks_get sh s : tasksI sh -> (0 <= s_tasks (gets sh s))%Z.
Proof.
  intros T. unfold gets. destruct (Nat.lt_ge_cases s (length (scopes sh))).
  - unfold tasksI in T. rewrite Forall_forall in T. apply T. apply nth_In; auto.
  - rewrite nth_overflow by lia. simpl. lia.
Qed.

Lemma exec_panic_kind cf b i sh k :
  exec cf b i sh = XPanic k -> stop_atomic cf = true -> head_ok cf sh i -> i_nodone i ->
  wgI sh -> tasksI sh -> by_design k = true.
Proof.
  intros H AT HO ND W T. destruct i; simpl in ND; try tauto; unfold exec, xok, xpush in H;
    try des_trig; repeat des_if; try inv_x; auto.
  - destruct HO; congruence.
  - unfold close_step, xok in H. destruct (s_pc (gets sh s)) eqn:PC; try des_trig; repeat des_if; try inv_x.
    destruct (s_reg (gets sh s)) eqn:R; repeat des_if; try inv_x. exfalso.
    destruct (Nat.lt_ge_cases s (length (scopes sh))) as [Hs|Hs].
    + destruct (wgL_signoff _ _ _ W Hs R) as [G _]. pose proof (tasks_get sh n T). unfold gets in *. lia.
    + unfold gets in R. rewrite nth_overflow in R by lia. discriminate.
  - destruct (c_iso (getc sh c)); repeat des_if; inv_x.
  - destruct (c_iso (getc sh c)); repeat des_if; inv_x.
  - destruct (c_iso (getc sh c)); repeat des_if; inv_x.
Qed.

Definition no_bad_out (st : state) : Prop :=
  forall th, In th (ths st) -> Forall (fun o => bad_panic o = false) (t_out th).

Definition codI (cf : cfg) (st : state) : Prop :=
  shapes cf st /\ wgI (sh st) /\ tasksI (sh st) /\ syn i_nodone (fun o => op_nodone o = true) st /\
  no_bad_out st.

Lemma codI_step cf t st st' :
  stop_atomic cf = true -> remember_reg cf = true ->
  codI cf st -> step cf t st = Some st' -> codI cf st'.
Proof.
  intros AT RR (S & W & T & Y & O) H.
  assert (Y' : syn i_nodone (fun o => op_nodone o = true) st').
  { eapply syn_step; eauto. intros; apply expand_nodone; auto. exact I.
    intros. eapply exec_push_nodone; eauto. }
  split; [eapply shapes_step; eauto|]. split; [eapply shared_inv_step; eauto; intros; eapply exec_wg; eauto|].
  destruct t as [n b].
  apply step_inv in H as (th & i & rest & todo & Hn & V & [(k & X & ->)|(sh1 & p & o & a & sp & X & ->)]); simpl in *.
  all: assert (Hin : In th (ths st)) by (eapply nth_error_In; eauto).
  all: destruct (Y th Hin) as [A B].
  all: destruct (syn_view i_nodone (fun o => op_nodone o = true) _ _ _ _ _
                          (fun sh o => expand_nodone sh o) I A B V) as (Pi & Pr & Pt).
  all: destruct (view_shape _ _ _ _ _ _ (S th Hin) V) as [Qr Hi].
  - split; auto. split; auto. intros th' Hin'. simpl in Hin'.
    apply in_upd in Hin' as [Hin'|(x & Hx & ->)]; auto. simpl.
    apply Forall_app; split; auto. repeat constructor. simpl.
    rewrite (exec_panic_kind _ _ _ _ _ X AT Hi Pi W T). auto.
  - split; [eapply exec_tasks; eauto|]. split; auto. intros th' Hin'. simpl in Hin'.
    apply in_app_or in Hin' as [Hin'|Hin'].
    + apply in_upd in Hin' as [Hin'|(x & Hx & ->)]; auto. simpl.
      apply Forall_app; split; auto. eapply Forall_impl; [|eapply exec_out_nopanic; eauto].
      intros [] E; simpl in *; auto; discriminate.
    + apply in_map_iff in Hin' as (cur & <- & _). simpl. auto.
Qed.

Lemma codI_init cf progs : Forall (Forall (fun o => op_nodone o = true)) progs -> codI cf (init progs).
Proof.
  intros H. split. apply shapes_init. split. apply wgI_init. split. constructor.
  split. apply syn_init; auto. intros th Hin. apply in_map_iff in Hin as (ops & <- & _). simpl. auto.
Qed.

Lemma wg_nonneg sh s : wgI sh -> tasksI sh -> (0 <= s_wg (gets sh s))%Z.
Proof.
  intros W T. unfold gets. destruct (Nat.lt_ge_cases s (length (scopes sh))).
  - destruct (W s H) as [E _]. pose proof (tasks_get sh s T). unfold gets in *. lia.
  - rewrite nth_overflow by lia. simpl. lia.
Qed.

Lemma child_of_done cf progs sched :
  stop_atomic cf = true -> remember_reg cf = true ->
  Forall (Forall (fun o => op_nodone o = true)) progs ->
  let st := run cf sched (init progs) in
  (forall s, (0 <= s_wg (gets (sh st) s))%Z) /\
  (forall th, In th (ths st) -> Forall (fun o => bad_panic o = false) (t_out th)).
Proof.
  intros AT RR HP st.
  assert (I : codI cf st).
  { apply (run_inv cf (codI cf)). intros; eapply codI_step; eauto. apply codI_init; auto. }
  destruct I as (_ & W & T & _ & O). split; auto. intros s. apply wg_nonneg; auto.
Qed.

(** * No panic at all when no scope is being closed (C12_no_panic) *)
Definition pcsI (sh : shared) : Prop := Forall (fun x => s_pc x = CNone) (scopes sh).

Lemma pcs_get sh s : pcsI sh -> s_pc (gets sh s) = CNone.
Proof.
  intros T. unfold gets. destruct (Nat.lt_ge_cases s (length (scopes sh))).
  - unfold pcsI in T. rewrite Forall_forall in T. apply T. apply nth_In; auto.
  - rewrite nth_overflow by lia. reflexivity.
Qed.

Lemma exec_pcs cf b i sh sh' p o a sp :
  i_safe i -> pcsI sh -> exec cf b i sh = XOk sh' p o a sp -> pcsI sh'.
Proof.
  intros ND W H. destruct i; simpl in ND; try tauto; unfold exec, xok, xpush in H;
    try des_trig; repeat des_if; try inv_x; unfold pcsI, set_pc in *; simpl; rewrite ?H0, ?H1; auto;
    repeat (apply Forall_upd; auto).
  all: try (destruct (c_iso (getc sh c)); repeat des_if; inv_x; auto; fail).
  all: try (apply Forall_app; split; auto; repeat constructor; fail).
  all: destruct (negb _); simpl; try (apply Forall_app; split; auto; repeat constructor);
    repeat (apply Forall_upd; auto).
Qed.

Lemma exec_safe_nopanic cf b i sh k :
  exec cf b i sh = XPanic k -> stop_atomic cf = true -> head_ok cf sh i -> i_safe i -> pcsI sh -> False.
Proof.
  intros H AT HO ND W. destruct i; simpl in ND; try tauto; unfold exec, xok, xpush in H;
    try des_trig; repeat des_if; try inv_x; auto.
  - unfold closed in Heqb0. rewrite (pcs_get sh s W) in Heqb0. discriminate.
  - destruct HO; congruence.
  - unfold nil_fields in Heqb1. rewrite (pcs_get sh s W) in Heqb1. discriminate.
  - destruct (c_iso (getc sh c)); repeat des_if; inv_x.
  - destruct (c_iso (getc sh c)); repeat des_if; inv_x.
  - destruct (c_iso (getc sh c)); repeat des_if; inv_x.
Qed.

Definition no_panic_out (st : state) : Prop :=
  forall th, In th (ths st) -> Forall (fun o => is_panic o = false) (t_out th).

Definition npI (cf : cfg) (st : state) : Prop :=
  shapes cf st /\ pcsI (sh st) /\ syn i_safe (fun o => op_safe o = true) st /\ no_panic_out st.

Lemma npI_step cf t st st' :
  stop_atomic cf = true -> npI cf st -> step cf t st = Some st' -> npI cf st'.
Proof.
  intros AT (S & W & Y & O) H.
  assert (Y' : syn i_safe (fun o => op_safe o = true) st').
  { eapply syn_step; eauto. intros; apply expand_safe; auto. exact I.
    intros. eapply exec_push_safe; eauto. }
  split; [eapply shapes_step; eauto|].
  destruct t as [n b].
  apply step_inv in H as (th & i & rest & todo & Hn & V & [(k & X & ->)|(sh1 & p & o & a & sp & X & ->)]); simpl in *.
  all: assert (Hin : In th (ths st)) by (eapply nth_error_In; eauto).
  all: destruct (Y th Hin) as [A B].
  all: destruct (syn_view i_safe (fun o => op_safe o = true) _ _ _ _ _
                          (fun sh o => expand_safe sh o) I A B V) as (Pi & Pr & Pt).
  all: destruct (view_shape _ _ _ _ _ _ (S th Hin) V) as [Qr Hi].
  - exfalso. eapply exec_safe_nopanic; eauto.
  - split; [eapply exec_pcs; eauto|]. split; auto. intros th' Hin'. simpl in Hin'.
    apply in_app_or in Hin' as [Hin'|Hin'].
    + apply in_upd in Hin' as [Hin'|(x & Hx & ->)]; auto. simpl.
      apply Forall_app; split; auto. eapply exec_out_nopanic; eauto.
    + apply in_map_iff in Hin' as (cur & <- & _). simpl. auto.
Qed.

Lemma no_panic cf progs sched :
  stop_atomic cf = true ->
  Forall (Forall (fun o => op_safe o = true)) progs ->
  all_panics (run cf sched (init progs)) = [].
Proof.
  intros AT HP.
  assert (I : npI cf (run cf sched (init progs))).
  { apply (run_inv cf (npI cf)). intros; eapply npI_step; eauto.
    split. apply shapes_init. split. constructor. split. apply syn_init; auto.
    intros th Hin. apply in_map_iff in Hin as (ops & <- & _). simpl. auto. }
  destruct I as (_ & _ & _ & O). unfold all_panics, no_panic_out in *.
  induction (ths (run cf sched (init progs))) as [|th l IH]; simpl; auto.
  rewrite IH by (intros; apply O; right; auto). rewrite app_nil_r.
  specialize (O th (or_introl eq_refl)). unfold panics_of. induction O; simpl; auto.
  rewrite H. auto.
Qed.

(** * Done is monotone along runs; errors are never lost *)
Lemma done_monotone cf progs s1 s2 c :
  c_done (getc (sh (run cf s1 (init progs))) c) = true ->
  c_done (getc (sh (run cf (s1 ++ s2) (init progs))) c) = true.
Proof. rewrite run_app. apply cext_done. apply run_cext. Qed.

Lemma errors_never_lost cf progs s1 s2 c :
  exists suf, c_errors (getc (sh (run cf (s1 ++ s2) (init progs))) c)
              = c_errors (getc (sh (run cf s1 (init progs))) c) ++ suf.
Proof. rewrite run_app. apply cext_errors. apply run_cext. Qed.

Lemma acked_done cf progs sched th c es :
  let st := run cf sched (init progs) in
  In th (ths st) -> In (c, es) (t_acks th) -> c_done (getc (sh st) c) = true.
Proof.
  intros st. assert (I : acks_done st).
  { apply (run_inv cf acks_done). intros; eapply acks_done_step; eauto. apply acks_done_init. }
  apply I.
Qed.

(** * While Close waits for an outstanding task, AppendError/Kill/Stop are accepted *)
Definition before_closed (p : cpc) : bool :=
  match p with
  | CNone | CFire BC | CErrA BC _ | CErrS BC | CErrT BC | CErr2A BC _ | CErr2S BC | CWait | CDecide | CMark => true
  | _ => false
  end.

Lemma waiting_accepts progs sched s :
  let st := run cfg_current sched (init progs) in
  (before_closed (s_pc (gets (sh st) s)) = true ->
   forall b, exec cfg_current b (IChkClosed s) (sh st) = xok (sh st)) /\
  (s_pc (gets (sh st) s) = CWait -> (0 < s_tasks (gets (sh st) s))%Z ->
   close_step cfg_current (sh st) s = XBlocked).
Proof.
  intros st. split.
  - intros H b. simpl. unfold closed. destruct (s_pc (gets (sh st) s)) as [| [] | [] | [] | [] | [] | [] | | | | | |];
      simpl in *; try discriminate; reflexivity.
  - intros PC T.
    assert (W : wgI (sh st)).
    { apply (run_shared_inv cfg_current wgI). intros; eapply exec_wg; eauto; reflexivity. apply wgI_init. }
    unfold close_step. rewrite PC.
    destruct (Nat.lt_ge_cases s (length (scopes (sh st)))) as [Hs|Hs].
    + destruct (W s Hs) as [E _]. unfold gets in *.
      destruct (Z.eqb_spec (s_wg (nth s (scopes (sh st)) dscope)) 0); auto. lia.
    + unfold gets in T. rewrite nth_overflow in T by lia. simpl in T. lia.
Qed.

Lemma accessors sh b c s :
  exec cfg_current b (IErr c) sh = XOk sh [] [OBool (negb (isnil (c_errors (getc sh c))))] [] [] /\
  (valids sh s = true -> s_wg (gets sh s) = 0%Z ->
   exec cfg_current b (IWait s) sh = xpush sh [IErr (s_ctx (gets sh s))]) /\
  (s_pc (gets sh s) = CRet ->
   close_step cfg_current sh s =
   XOk (set_pc sh s CFinished) [] [OClosed s (negb (isnil (errs_of sh s)))] [] []).
Proof.
  split; [reflexivity|]. split.
  - intros V W. simpl. rewrite V, W. reflexivity.
  - intros P. unfold close_step. rewrite P. reflexivity.
Qed.

Lemma done_once progs :
  (forall s1 s2 c, c_done (getc (sh (run cfg_current s1 (init progs))) c) = true ->
                   c_done (getc (sh (run cfg_current (s1 ++ s2) (init progs))) c) = true) /\
  (forall sched th c es, let st := run cfg_current sched (init progs) in
     In th (ths st) -> In (c, es) (t_acks th) -> c_done (getc (sh st) c) = true).
Proof.
  split. exact (done_monotone cfg_current progs). exact (acked_done cfg_current progs).
Qed.
