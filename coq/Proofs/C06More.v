(** C06, second layer: the tree seen through the cache IS the initial remote with the successful
    operations applied directly (Model/CacheDirect.v), along whole histories in which a Commit
    may fail any number of times at any position, with further operations before the retry.
    Proofs/Cache.v has the per-operation view specifications, the invariant and the single
    fail-then-retry convergence; this file turns them into a simulation. *)
From GC Require Import Common.Base Model.Paths Model.Fs Model.Cache Model.CacheDirect
  Proofs.Paths Proofs.Fs Proofs.Cache Proofs.CacheFrame.
From Coq Require Import Permutation.

(** * Lookup tables closed under prefixes *)
Definition pclosed (f : path -> option entry) : Prop :=
  forall a x, x <> [] -> f (a ++ x) <> None -> f a = Some D.

Lemma pclosed_tree t : WF t -> pclosed (lookup t).
Proof.
  intros W a x Hx H. pose proof (WF_prefix_dir t W x a Hx) as Hd. unfold exists_at, is_dir_at in Hd.
  destruct (lookup t (a ++ x)); [|congruence]. specialize (Hd eq_refl).
  destruct (lookup t a) as [[|]|]; try discriminate. reflexivity.
Qed.

Lemma pclosed_view c : Inv c -> pclosed (vlookup c).
Proof. intros I a x Hx H. exact (view_prefix_dir c a x I Hx H). Qed.

(** What [write_at_spec] / [c_write_spec] say determines the new table completely. *)
Lemma write_shape f f' p d :
  p <> [] -> pclosed f' -> f' p = Some (F d) ->
  (forall q, q <> p -> f q <> None -> f' q = f q) ->
  (forall q, q <> p -> f q = None -> f' q <> None -> f' q = Some D /\ is_prefix q (removelast p) = true) ->
  forall q, f' q = write_fn f p d q.
Proof.
  intros Hp Hc Hpd Hfr Hnew q. unfold write_fn.
  destruct (path_eqb q p) eqn:E.
  - apply path_eqb_spec in E. subst. exact Hpd.
  - apply path_eqb_false in E. destruct (is_prefix q p) eqn:Epre.
    + apply is_prefix_spec in Epre as [x Hx]. subst p. apply (Hc q x).
      * intros ->. rewrite app_nil_r in E. congruence.
      * rewrite Hpd. discriminate.
    + destruct (f q) eqn:Ef.
      * rewrite <- Ef. apply Hfr; congruence.
      * destruct (f' q) eqn:Ef'; [|reflexivity]. exfalso.
        destruct (Hnew q E Ef) as [_ B]; [congruence|].
        rewrite (is_prefix_removelast_l q p Hp B) in Epre. discriminate.
Qed.

Lemma mkdir_shape f f' p :
  pclosed f' -> f' p = Some D ->
  (forall q, f q <> None -> f' q = f q) ->
  (forall q, f q = None -> f' q <> None -> f' q = Some D /\ is_prefix q p = true) ->
  forall q, f' q = mkdir_fn f p q.
Proof.
  intros Hc Hpd Hfr Hnew q. unfold mkdir_fn. destruct (is_prefix q p) eqn:Epre.
  - apply is_prefix_spec in Epre as [x Hx]. subst p.
    destruct x as [|n x]; [rewrite app_nil_r in Hpd; exact Hpd|].
    apply (Hc q (n :: x)); [discriminate|rewrite Hpd; discriminate].
  - destruct (f q) eqn:Ef; [rewrite <- Ef; apply Hfr; congruence|].
    destruct (f' q) eqn:Ef'; [|reflexivity]. exfalso.
    destruct (Hnew q Ef) as [_ B]; [congruence|]. congruence.
Qed.

Lemma write_fn_ext f g p d : (forall q, f q = g q) -> forall q, write_fn f p d q = write_fn g p d q.
Proof. intros H q. unfold write_fn. rewrite H. reflexivity. Qed.
Lemma mkdir_fn_ext f g p : (forall q, f q = g q) -> forall q, mkdir_fn f p q = mkdir_fn g p q.
Proof. intros H q. unfold mkdir_fn. rewrite H. reflexivity. Qed.
Lemma remove_fn_ext f g p : (forall q, f q = g q) -> forall q, remove_fn f p q = remove_fn g p q.
Proof. intros H q. unfold remove_fn. rewrite H. reflexivity. Qed.
Lemma copy_fn_ext f g s d : (forall q, f q = g q) -> forall q, copy_fn f s d q = copy_fn g s d q.
Proof. intros H q. unfold copy_fn. rewrite !H. reflexivity. Qed.

(** The tree and the cache show the same table. *)
Definition sim (t : fs) (c : cache) : Prop := WF t /\ forall q, lookup t q = vlookup c q.

Lemma split_last (p : path) : p <> [] -> p = removelast p ++ [last p []].
Proof. intros Hp. apply app_removelast_last. exact Hp. Qed.

Lemma ancestors_removelast (P : path -> Prop) p :
  p <> [] ->
  (forall a x, a <> [] -> x <> [] -> p = a ++ x -> P a) ->
  forall a, a <> [] -> is_prefix a (removelast p) = true -> P a.
Proof.
  intros Hp H a Ha Hpre. apply is_prefix_spec in Hpre as [s Hs].
  apply (H a (s ++ [last p []]) Ha); [destruct s; discriminate|].
  rewrite app_assoc, <- Hs. apply split_last. exact Hp.
Qed.

(** * Write *)
Lemma tree_write t p d :
  WF t -> good_path p = true -> p <> [] ->
  (forall a x, a <> [] -> x <> [] -> p = a ++ x -> is_file_at t a = false) ->
  is_dir_at t p = false ->
  exists t', write_at t p d = Some t' /\ WF t' /\ forall q, lookup t' q = write_fn (lookup t) p d q.
Proof.
  intros W Hg Hp Hanc Hnd.
  destruct (write_at_succeeds t p d W Hg Hp) as [t' Hw]; [|exact Hnd|].
  { apply (ancestors_removelast (fun a => is_file_at t a = false) p Hp Hanc). }
  destruct (write_at_spec _ _ _ _ W Hg Hp Hw) as (W' & Lp & _ & Fr & Nw).
  exists t'. split; [exact Hw|]. split; [exact W'|].
  apply write_shape; try assumption. apply pclosed_tree. exact W'.
Qed.

Lemma c_write_root c d : c_write c [] d = (c, RErr).
Proof. reflexivity. Qed.

Lemma view_write c p d c' :
  Inv c -> good_path p = true -> c_write c p d = (c', RUnit) ->
  p <> [] /\ Inv c' /\ (forall q, vlookup c' q = write_fn (vlookup c) p d q) /\
  (forall a x, a <> [] -> x <> [] -> p = a ++ x -> v_file c a = false) /\ v_dir c p = false.
Proof.
  intros I Hg H.
  assert (Hp : p <> []) by (intros ->; rewrite c_write_root in H; discriminate).
  split; [exact Hp|].
  unfold c_write in H. destruct (check_dest c p false) eqn:E; [|discriminate].
  destruct (c_write_spec c p d I Hg Hp E) as (c'' & H' & I' & L & Fr & Nw).
  unfold c_write in H'. rewrite E in H'. rewrite H in H'. inversion H'; subst c''.
  destruct (check_dest_spec _ _ _ E) as [Hanc Hnd].
  split; [exact I'|]. split; [|split; [exact Hanc|exact Hnd]].
  apply write_shape; try assumption. apply pclosed_view. exact I'.
Qed.

Lemma sim_file_at t c a : sim t c -> is_file_at t a = v_file c a.
Proof. intros [_ L]. unfold is_file_at, v_file. rewrite L. reflexivity. Qed.
Lemma sim_dir_at t c a : sim t c -> is_dir_at t a = v_dir c a.
Proof. intros [_ L]. unfold is_dir_at, v_dir. rewrite L. reflexivity. Qed.

Lemma sim_write t c p d c' :
  Inv c -> sim t c -> good_path p = true -> c_write c p d = (c', RUnit) ->
  Inv c' /\ sim (keep t (write_at t p d)) c'.
Proof.
  intros I S Hg H. destruct (view_write c p d c' I Hg H) as (Hp & I' & V & Hanc & Hnd).
  split; [exact I'|].
  destruct (tree_write t p d (proj1 S) Hg Hp) as (t' & Hw & W' & L').
  - intros a x Ha Hx E. rewrite (sim_file_at t c a S). exact (Hanc a x Ha Hx E).
  - rewrite (sim_dir_at t c p S). exact Hnd.
  - rewrite Hw. cbn [keep]. split; [exact W'|]. intros q. rewrite L', V.
    apply write_fn_ext. exact (proj2 S).
Qed.

(** * MkdirAll *)
Lemma tree_mkdir t p :
  WF t -> good_path p = true ->
  (forall a, a <> [] -> is_prefix a p = true -> is_file_at t a = false) ->
  exists t', mkdir_all t p = Some t' /\ WF t' /\ forall q, lookup t' q = mkdir_fn (lookup t) p q.
Proof.
  intros W Hg Hanc. destruct (mkdir_all_succeeds t p Hanc) as [t' Hm].
  destruct (mkdir_all_spec _ _ _ W Hg Hm) as (W' & Dp & P1 & N1).
  exists t'. split; [exact Hm|]. split; [exact W'|].
  apply mkdir_shape.
  - apply pclosed_tree. exact W'.
  - unfold is_dir_at in Dp. destruct (lookup t' p) as [[|]|]; try discriminate. reflexivity.
  - intros q Hq. destruct (lookup t q) as [e|] eqn:E; [|congruence]. apply P1. exact E.
  - exact N1.
Qed.

Lemma view_mkdir c p c' :
  Inv c -> good_path p = true -> c_mkdir c p = (c', RUnit) ->
  Inv c' /\ (forall q, vlookup c' q = mkdir_fn (vlookup c) p q) /\
  (forall a, a <> [] -> is_prefix a p = true -> v_file c a = false).
Proof.
  intros I Hg H. destruct p as [|n p].
  - cbn in H. inversion H; subst c'. split; [exact I|]. split.
    + intros q. unfold mkdir_fn. destruct q; reflexivity.
    + intros a Ha Hp. destruct a; [congruence|discriminate].
  - unfold c_mkdir in H. destruct (check_dest c (n :: p) true) eqn:E; [|discriminate].
    destruct (c_mkdir_spec c (n :: p) I Hg ltac:(discriminate) E) as (c'' & H' & I' & L & Fr & Nw).
    unfold c_mkdir in H'. rewrite E in H'. rewrite H in H'. inversion H'; subst c''.
    destruct (check_dest_spec _ _ _ E) as [Hanc Hnf].
    split; [exact I'|]. split.
    + apply mkdir_shape; try assumption. apply pclosed_view. exact I'.
    + intros a Ha Hpre. apply is_prefix_spec in Hpre as [s Hs]. destruct s as [|m s].
      * rewrite app_nil_r in Hs. subst a. exact Hnf.
      * apply (Hanc a (m :: s)); [exact Ha|discriminate|exact Hs].
Qed.

Lemma sim_mkdir t c p c' :
  Inv c -> sim t c -> good_path p = true -> c_mkdir c p = (c', RUnit) ->
  Inv c' /\ sim (keep t (mkdir_all t p)) c'.
Proof.
  intros I S Hg H. destruct (view_mkdir c p c' I Hg H) as (I' & V & Hanc).
  split; [exact I'|].
  destruct (tree_mkdir t p (proj1 S) Hg) as (t' & Hm & W' & L').
  - intros a Ha Hpre. rewrite (sim_file_at t c a S). exact (Hanc a Ha Hpre).
  - rewrite Hm. cbn [keep]. split; [exact W'|]. intros q. rewrite L', V.
    apply mkdir_fn_ext. exact (proj2 S).
Qed.

(** * Remove and recursive remove *)
Lemma tree_parent_dir t p : WF t -> p <> [] -> lookup t p <> None -> is_dir_at t (removelast p) = true.
Proof.
  intros W Hp Hex. rewrite (split_last p Hp) in Hex.
  apply (WF_prefix_dir t W [last p []] (removelast p)); [discriminate|]. unfold exists_at.
  destruct (lookup t (removelast p ++ [last p []])); congruence.
Qed.

Lemma tree_remove t p :
  WF t -> p <> [] -> lookup t p <> None ->
  (lookup t p = Some D -> forall n, lookup t (p ++ [n]) = None) ->
  exists t', remove_at t p = Some t' /\ WF t' /\ forall q, lookup t' q = remove_fn (lookup t) p q.
Proof.
  intros W Hp Hex Hempty.
  pose proof (tree_parent_dir t p W Hp Hex) as Hpar.
  assert (Hrm : exists t', remove_at t p = Some t').
  { unfold remove_at. rewrite Hpar. cbn [negb].
    destruct (lookup t p) as [[d|]|] eqn:El; [eauto| |congruence].
    destruct (has_children t p) eqn:Hc; [|eauto]. exfalso.
    apply has_children_spec in Hc as (q & e & Hin & Hpre & Hlen).
    apply is_prefix_spec in Hpre as [s ->].
    destruct s as [|n s]; [rewrite app_nil_r in Hlen; congruence|].
    pose proof (In_lookup t _ e W Hin) as Hl.
    assert (Hne : lookup t (p ++ [n]) <> None).
    { destruct s as [|m s]; [rewrite Hl; discriminate|].
      replace (p ++ n :: m :: s) with ((p ++ [n]) ++ m :: s) in Hl by (rewrite <- app_assoc; reflexivity).
      rewrite (pclosed_tree t W (p ++ [n]) (m :: s)); [discriminate|discriminate|rewrite Hl; discriminate]. }
    apply Hne. apply Hempty. reflexivity. }
  destruct Hrm as [t' Hr]. destruct (remove_at_spec _ _ _ W Hp Hr) as (W' & _ & L).
  exists t'. split; [exact Hr|]. split; [exact W'|exact L].
Qed.

Lemma view_remove c p c' :
  Inv c -> c_remove c p = (c', RUnit) ->
  p <> [] /\ Inv c' /\ vlookup c p <> None /\
  (forall q, vlookup c' q = remove_fn (vlookup c) p q) /\
  (vlookup c p = Some D -> forall n, vlookup c (p ++ [n]) = None).
Proof.
  intros I H.
  assert (Hp : p <> []) by (intros ->; cbn in H; discriminate).
  destruct (c_remove_spec c p c' I Hp H) as (I' & Hex & L).
  split; [exact Hp|]. split; [exact I'|]. split.
  { unfold v_exists in Hex. destruct (vlookup c p); [discriminate|discriminate]. }
  split; [exact L|].
  intros Hd n. unfold c_remove in H. destruct p as [|m p]; [congruence|].
  destruct (negb (v_exists c (m :: p))); [discriminate|].
  assert (Hvd : v_dir c (m :: p) = true) by (unfold v_dir; rewrite Hd; reflexivity).
  rewrite Hvd in H. cbn [andb] in H.
  destruct (v_read_dir c (m :: p)) as [[|x l]|] eqn:Er; try discriminate.
  destruct (v_read_dir_agrees c (m :: p) [] I Er) as [_ Hl].
  destruct (vlookup c ((m :: p) ++ [n])) as [e|] eqn:Ev; [|reflexivity].
  exfalso. apply (proj2 (Hl n (kind_of e))). exists e. auto.
Qed.

Lemma sim_remove t c p c' :
  Inv c -> sim t c -> c_remove c p = (c', RUnit) ->
  Inv c' /\ sim (keep t (remove_at t p)) c'.
Proof.
  intros I [W L] H. destruct (view_remove c p c' I H) as (Hp & I' & Hex & V & Hempty).
  split; [exact I'|].
  destruct (tree_remove t p W Hp) as (t' & Hr & W' & L').
  - rewrite L. exact Hex.
  - intros Hd n. rewrite L in *. apply Hempty. exact Hd.
  - rewrite Hr. cbn [keep]. split; [exact W'|]. intros q. rewrite L', V.
    apply remove_fn_ext. exact L.
Qed.

Lemma tree_remove_all t p :
  WF t -> p <> [] ->
  WF (keep t (remove_all_at t p)) /\
  forall q, lookup (keep t (remove_all_at t p)) q = remove_fn (lookup t) p q.
Proof.
  intros W Hp. unfold remove_all_at, remove_fn.
  assert (Habs : lookup t p = None -> forall q, lookup t q = if is_prefix p q then None else lookup t q).
  { intros Hn. apply lookup_same_when_absent; [exact Hp| |exact W]. unfold exists_at. rewrite Hn. reflexivity. }
  destruct (is_dir_at t (removelast p)) eqn:Hpar; cbn [negb].
  - destruct (lookup t p) as [e|] eqn:El; cbn [keep].
    + split; [apply WF_delete; assumption|]. intros q. apply lookup_delete. exact Hp.
    + split; [exact W|]. apply Habs. reflexivity.
  - cbn [keep]. split; [exact W|]. apply Habs.
    destruct (lookup t p) eqn:El; [|reflexivity]. exfalso.
    rewrite (tree_parent_dir t p W Hp) in Hpar; [discriminate|congruence].
Qed.

Lemma sim_remove_all t c p c' :
  Inv c -> sim t c -> c_remove_all c p = (c', RUnit) ->
  Inv c' /\ sim (keep t (remove_all_at t p)) c'.
Proof.
  intros I [W L] H.
  assert (Hp : p <> []) by (intros ->; cbn in H; discriminate).
  destruct (c_remove_all_spec c p c' I Hp H) as (I' & V).
  split; [exact I'|]. destruct (tree_remove_all t p W Hp) as [W' L'].
  split; [exact W'|]. intros q. rewrite L', V. apply remove_fn_ext. exact L.
Qed.

(** * Directory copy, cache side *)
(** nothing changes kind: directories stay directories, files stay files *)
Definition kindpres (f f' : path -> option entry) : Prop :=
  forall q e, f q = Some e -> exists e', f' q = Some e' /\ kind_of e' = kind_of e.

Lemma kindpres_trans f g h : kindpres f g -> kindpres g h -> kindpres f h.
Proof.
  intros A B q e Hq. destruct (A q e Hq) as (e1 & H1 & K1). destruct (B q e1 H1) as (e2 & H2 & K2).
  exists e2. split; [exact H2|congruence].
Qed.

Lemma not_file_is_dir c q e : vlookup c q = Some e -> v_file c q = false -> e = D.
Proof. unfold v_file. intros ->. destruct e; [discriminate|reflexivity]. Qed.

Lemma kindpres_write c p d c' :
  Inv c -> good_path p = true -> c_write c p d = (c', RUnit) -> kindpres (vlookup c) (vlookup c').
Proof.
  intros I Hg H. destruct (view_write c p d c' I Hg H) as (Hp & _ & V & Hanc & Hnd).
  intros q e Hq. rewrite V. unfold write_fn. destruct (path_eqb q p) eqn:E.
  - apply path_eqb_spec in E. subst q. exists (F d). split; [reflexivity|].
    unfold v_dir in Hnd. rewrite Hq in Hnd. destruct e; [reflexivity|discriminate].
  - apply path_eqb_false in E. destruct (is_prefix q p) eqn:Epre.
    + exists D. split; [reflexivity|]. apply is_prefix_spec in Epre as [x Hx].
      destruct q as [|n q]; [cbn in Hq; inversion Hq; reflexivity|].
      rewrite (not_file_is_dir c (n :: q) e Hq); [reflexivity|].
      apply (Hanc (n :: q) x); [discriminate| |exact Hx].
      intros ->. rewrite app_nil_r in Hx. congruence.
    + exists e. auto.
Qed.

Lemma kindpres_mkdir c p c' :
  Inv c -> good_path p = true -> c_mkdir c p = (c', RUnit) -> kindpres (vlookup c) (vlookup c').
Proof.
  intros I Hg H. destruct (view_mkdir c p c' I Hg H) as (_ & V & Hanc).
  intros q e Hq. rewrite V. unfold mkdir_fn. destruct (is_prefix q p) eqn:Epre; [|exists e; auto].
  exists D. split; [reflexivity|].
  destruct q as [|n q]; [cbn in Hq; inversion Hq; reflexivity|].
  rewrite (not_file_is_dir c (n :: q) e Hq); [reflexivity|].
  apply Hanc; [discriminate|exact Epre].
Qed.

Lemma new_write c p d c' q :
  Inv c -> good_path p = true -> c_write c p d = (c', RUnit) ->
  vlookup c q = None -> vlookup c' q <> None -> is_prefix q p = true.
Proof.
  intros I Hg H Hn Hs. destruct (view_write c p d c' I Hg H) as (_ & _ & V & _).
  rewrite V in Hs. unfold write_fn in Hs. destruct (path_eqb q p) eqn:E.
  - apply path_eqb_spec in E. subst. apply is_prefix_refl.
  - destruct (is_prefix q p); [reflexivity|congruence].
Qed.

Lemma new_mkdir c p c' q :
  Inv c -> good_path p = true -> c_mkdir c p = (c', RUnit) ->
  vlookup c q = None -> vlookup c' q <> None -> is_prefix q p = true.
Proof.
  intros I Hg H Hn Hs. destruct (view_mkdir c p c' I Hg H) as (_ & V & _).
  rewrite V in Hs. unfold mkdir_fn in Hs. destruct (is_prefix q p); [reflexivity|congruence].
Qed.

Lemma is_prefix_app_removelast (dst rel : path) : is_prefix (dst ++ removelast rel) (dst ++ rel) = true.
Proof.
  apply is_prefix_spec. destruct rel as [|n rel] using rev_ind; [exists []; cbn [removelast]; rewrite !app_nil_r; reflexivity|].
  rewrite removelast_last. exists [n]. rewrite app_assoc. reflexivity.
Qed.

Lemma copy_entries_more l : forall c dst c',
  Inv c -> good_path dst = true -> (forall rel e, In (rel, e) l -> good_path rel = true) ->
  copy_entries c dst l = (c', RUnit) ->
  kindpres (vlookup c) (vlookup c') /\
  forall q, vlookup c q = None -> vlookup c' q <> None ->
            exists rel e, In (rel, e) l /\ is_prefix q (dst ++ rel) = true.
Proof.
  induction l as [|[rel e] l IH]; intros c dst c' I Hd Hl H.
  - cbn in H. inversion H; subst c'. split; [intros q e Hq; exists e; auto|]. intros q A B. congruence.
  - cbn [copy_entries] in H.
    assert (Hr : good_path rel = true) by (apply (Hl rel e); left; reflexivity).
    assert (Hl' : forall rel0 e0, In (rel0, e0) l -> good_path rel0 = true)
      by (intros ? ? Hin; eapply Hl; right; exact Hin).
    assert (Hgp : good_path (dst ++ rel) = true) by (apply good_path_app; auto).
    assert (Hstep : exists c1, copy_entries c1 dst l = (c', RUnit) /\ Inv c1 /\
              kindpres (vlookup c) (vlookup c1) /\
              forall q, vlookup c q = None -> vlookup c1 q <> None -> is_prefix q (dst ++ rel) = true).
    { destruct e as [data|].
      - destruct (c_mkdir c (dst ++ removelast rel)) as [c0 r0] eqn:E0.
        destruct r0; try (inversion H; fail).
        assert (Hg0 : good_path (dst ++ removelast rel) = true)
          by (apply good_path_app; split; [exact Hd|apply good_path_removelast; exact Hr]).
        destruct (view_mkdir c _ c0 I Hg0 E0) as (I0 & _ & _).
        destruct (c_write c0 (dst ++ rel) data) as [c1 r1] eqn:E1.
        destruct r1; try (inversion H; fail).
        destruct (view_write c0 _ data c1 I0 Hgp E1) as (_ & I1 & _).
        exists c1. split; [exact H|]. split; [exact I1|]. split.
        + eapply kindpres_trans; [exact (kindpres_mkdir c _ c0 I Hg0 E0)|exact (kindpres_write c0 _ data c1 I0 Hgp E1)].
        + intros q Hn Hs. destruct (vlookup c0 q) eqn:Ev0.
          * eapply is_prefix_trans; [|apply is_prefix_app_removelast].
            eapply (new_mkdir c _ c0 q I Hg0 E0 Hn). congruence.
          * eapply (new_write c0 _ data c1 q I0 Hgp E1 Ev0 Hs).
      - destruct (c_mkdir c (dst ++ rel)) as [c1 r1] eqn:E1.
        destruct r1; try (inversion H; fail).
        destruct (view_mkdir c _ c1 I Hgp E1) as (I1 & _ & _).
        exists c1. split; [exact H|]. split; [exact I1|]. split.
        + exact (kindpres_mkdir c _ c1 I Hgp E1).
        + intros q Hn Hs. eapply (new_mkdir c _ c1 q I Hgp E1 Hn Hs). }
    destruct Hstep as (c1 & H1 & I1 & K1 & N1).
    destruct (IH c1 dst c' I1 Hd Hl' H1) as (K' & N').
    split; [eapply kindpres_trans; eassumption|].
    intros q Hn Hs. destruct (vlookup c1 q) eqn:Ev1.
    + exists rel, e. split; [left; reflexivity|]. apply N1; [exact Hn|congruence].
    + destruct (N' q Ev1 Hs) as (rel' & e' & Hin & Hp). exists rel', e'. split; [right; exact Hin|exact Hp].
Qed.

Lemma moved_In t src dst x e : x <> [] -> In (src ++ x, e) t -> In (dst ++ x, e) (subtree_moved t src dst).
Proof.
  intros Hx Hin. unfold subtree_moved. apply in_flat_map. exists (src ++ x, e). split; [exact Hin|].
  cbn [fst snd]. rewrite is_prefix_app, app_length.
  replace (Nat.eqb (length src + length x) (length src)) with false.
  2:{ symmetry. apply Nat.eqb_neq. destruct x; [congruence|simpl; lia]. }
  simpl andb. rewrite skipn_app_exact. left. reflexivity.
Qed.

Lemma In_view_subtree c src rel e : Inv c ->
  In (rel, e) (subtree_moved (cview c) src []) <-> rel <> [] /\ vlookup c (src ++ rel) = Some e.
Proof.
  intros I. split.
  - intros Hin. apply In_moved in Hin as (x & Hx & Hrel & Hin). cbn in Hrel. subst rel.
    split; [exact Hx|]. rewrite <- lookup_cview. apply In_lookup; [apply cview_WF; exact I|exact Hin].
  - intros [Hx Hv]. apply (moved_In (cview c) src [] rel e Hx).
    apply lookup_In; [destruct src; destruct rel; try discriminate; congruence|].
    rewrite lookup_cview. exact Hv.
Qed.

Lemma longer_not_prefix (dst rel : path) : rel <> [] -> is_prefix (dst ++ rel) dst = false.
Proof.
  intros Hr. destruct (is_prefix (dst ++ rel) dst) eqn:E; [|reflexivity]. exfalso.
  apply is_prefix_spec in E as [s Hs]. apply (f_equal (@length name)) in Hs.
  rewrite !app_length in Hs. destruct rel; [congruence|simpl in Hs; lia].
Qed.

Lemma view_copy_dir c src dst c' :
  Inv c -> good_path src = true -> good_path dst = true ->
  vlookup c src = Some D -> c_copy c src dst = (c', RUnit) ->
  src <> [] /\ is_prefix src dst = false /\ Inv c' /\
  (forall q, vlookup c' q = copy_fn (vlookup c) src dst q) /\
  kindpres (vlookup c) (vlookup c') /\
  (forall a, a <> [] -> is_prefix a dst = true -> v_file c a = false).
Proof.
  intros I Hs Hd Hsrc H. unfold c_copy in H. destruct src as [|n src]; [discriminate|].
  split; [discriminate|].
  destruct (is_prefix (n :: src) dst) eqn:Ep; [discriminate|]. split; [reflexivity|].
  rewrite Hsrc in H.
  destruct (c_mkdir c dst) as [c1 r1] eqn:E1. destruct r1; try (inversion H; fail).
  destruct (view_mkdir c dst c1 I Hd E1) as (I1 & V1 & Hanc).
  set (l := subtree_moved (cview c) (n :: src) []) in *.
  assert (Hinl : forall rel e, In (rel, e) l <-> rel <> [] /\ vlookup c ((n :: src) ++ rel) = Some e)
    by (intros rel e; apply In_view_subtree; exact I).
  assert (Hl : forall rel e, In (rel, e) l -> good_path rel = true /\ rel <> []).
  { intros rel e Hin. unfold l in Hin. apply In_moved in Hin as (x & Hx & Hrel & Hin). simpl in Hrel. subst rel.
    split; [|exact Hx]. apply (cview_entry_good c _ e I) in Hin. apply good_path_app in Hin. tauto. }
  assert (Hnd : NoDup (map fst l)) by (unfold l; apply NoDup_moved; apply (cview_WF c I)).
  destruct (copy_entries_spec l c1 dst c' I1 Hd Hl Hnd H) as (I' & All & Keep).
  destruct (copy_entries_more l c1 dst c' I1 Hd (fun rel e Hin => proj1 (Hl rel e Hin)) H) as (K & N).
  split; [exact I'|]. split; [|split; [|exact Hanc]].
  2:{ eapply kindpres_trans; [exact (kindpres_mkdir c dst c1 I Hd E1)|exact K]. }
  intros q. unfold copy_fn.
  assert (V1q : is_prefix q dst = false -> vlookup c1 q = vlookup c q).
  { intros E. rewrite V1. unfold mkdir_fn. rewrite E. reflexivity. }
  destruct (is_prefix q dst) eqn:Eqd.
  - assert (V1d : vlookup c1 q = Some D) by (rewrite V1; unfold mkdir_fn; rewrite Eqd; reflexivity).
    rewrite Keep; [exact V1d|congruence|].
    intros rel e Hin Heq. subst q. rewrite longer_not_prefix in Eqd; [discriminate|].
    exact (proj2 (Hl rel e Hin)).
  - specialize (V1q eq_refl). destruct (is_prefix dst q) eqn:Edq.
    + apply is_prefix_spec in Edq as [rel ->]. rewrite skipn_app_exact.
      assert (Hrel : rel <> []).
      { intros ->. rewrite app_nil_r, is_prefix_refl in Eqd. discriminate. }
      destruct (vlookup c ((n :: src) ++ rel)) as [e|] eqn:Es.
      * apply All. apply Hinl. auto.
      * assert (Hnot : forall rel' e', In (rel', e') l -> dst ++ rel <> dst ++ rel').
        { intros rel' e' Hin Heq. apply app_inv_head in Heq. subst rel'.
          apply Hinl in Hin as [_ Hv]. congruence. }
        destruct (vlookup c (dst ++ rel)) as [e0|] eqn:Ev.
        -- rewrite Keep; [exact V1q|congruence|exact Hnot].
        -- destruct (vlookup c' (dst ++ rel)) as [e1|] eqn:Ev'; [|reflexivity]. exfalso.
           destruct (N (dst ++ rel)) as (rel' & e' & Hin & Hp); [congruence|congruence|].
           apply is_prefix_spec in Hp as [s Hs0]. rewrite <- app_assoc in Hs0. apply app_inv_head in Hs0.
           apply Hinl in Hin as [_ Hv]. subst rel'. destruct s as [|m s].
           ++ rewrite app_nil_r in Hv. congruence.
           ++ rewrite app_assoc in Hv.
              rewrite (pclosed_view c I ((n :: src) ++ rel) (m :: s)) in Es; [discriminate|discriminate|].
              rewrite Hv. discriminate.
    + assert (Hnot : forall rel' e', In (rel', e') l -> q <> dst ++ rel').
      { intros rel' e' _ ->. rewrite is_prefix_app in Edq. discriminate. }
      destruct (vlookup c q) as [e0|] eqn:Ev.
      * rewrite Keep; [exact V1q|congruence|exact Hnot].
      * destruct (vlookup c' q) as [e1|] eqn:Ev'; [|reflexivity]. exfalso.
        destruct (N q) as (rel' & e' & Hin & Hp); [congruence|congruence|].
        destruct (is_prefix_comparable q dst (dst ++ rel') Hp (is_prefix_app dst rel')); congruence.
Qed.

(** * Directory copy, tree side *)
Lemma NoDup_keys_same (l : fs) p e1 e2 : NoDup (map fst l) -> In (p, e1) l -> In (p, e2) l -> e1 = e2.
Proof.
  intros Hnd H1 H2. pose proof (In_assoc l p e1 Hnd H1). pose proof (In_assoc l p e2 Hnd H2). congruence.
Qed.

Lemma kind_D e : kind_of e = kind_of D -> e = D.
Proof. destruct e; [discriminate|reflexivity]. Qed.

(** Materialising a list of nodes whose ancestors are listed directories or directories of the
    tree, on a tree that has nothing of the other kind at those paths: the list laid over the tree. *)
Lemma materialise_overlay l : forall t1,
  WF t1 -> NoDup (map fst l) ->
  (forall p e, In (p, e) l -> good_path p = true /\ p <> []) ->
  (forall p e a x, In (p, e) l -> a <> [] -> x <> [] -> p = a ++ x -> In (a, D) l \/ is_dir_at t1 a = true) ->
  (forall p e e1, In (p, e) l -> lookup t1 p = Some e1 -> kind_of e1 = kind_of e) ->
  exists t2, materialise t1 l = Some t2 /\ WF t2 /\
    forall q, lookup t2 q = match assoc l q with Some e => Some e | None => lookup t1 q end.
Proof.
  induction l as [|[p e] l IH]; intros t1 W Hnd Hg Hcl Hk.
  - exists t1. split; [reflexivity|]. split; [exact W|]. intros q. reflexivity.
  - inversion Hnd as [|? ? Hnotin Hnd']; subst.
    destruct (Hg p e (or_introl eq_refl)) as [Hgp Hp].
    assert (Hanc : forall a x, a <> [] -> x <> [] -> p = a ++ x -> is_file_at t1 a = false).
    { intros a x Ha Hx E. unfold is_file_at.
      destruct (Hcl p e a x (or_introl eq_refl) Ha Hx E) as [Hin|Hdir].
      - destruct (lookup t1 a) as [e1|] eqn:El; [|reflexivity].
        rewrite (kind_D e1 (Hk a D e1 Hin El)). reflexivity.
      - unfold is_dir_at in Hdir. destruct (lookup t1 a) as [[|]|]; try discriminate. reflexivity. }
    assert (Hstep : exists t1', (match e with D => mkdir_all t1 p | F data => write_at t1 p data end) = Some t1' /\
              WF t1' /\
              forall q, lookup t1' q = if path_eqb q p then Some e else if is_prefix q p then Some D else lookup t1 q).
    { destruct e as [data|].
      - destruct (tree_write t1 p data W Hgp Hp Hanc) as (t1' & Hw & W' & L').
        + unfold is_dir_at. destruct (lookup t1 p) as [e1|] eqn:El; [|reflexivity].
          pose proof (Hk p (F data) e1 (or_introl eq_refl) El) as K. destruct e1; [reflexivity|discriminate].
        + exists t1'. split; [exact Hw|]. split; [exact W'|exact L'].
      - destruct (tree_mkdir t1 p W Hgp) as (t1' & Hm & W' & L').
        + intros a Ha Hpre. apply is_prefix_spec in Hpre as [s Hs]. destruct s as [|m s].
          * rewrite app_nil_r in Hs. subst a. unfold is_file_at.
            destruct (lookup t1 p) as [e1|] eqn:El; [|reflexivity].
            rewrite (kind_D e1 (Hk p D e1 (or_introl eq_refl) El)). reflexivity.
          * apply (Hanc a (m :: s)); [exact Ha|discriminate|exact Hs].
        + exists t1'. split; [exact Hm|]. split; [exact W'|]. intros q. rewrite L'. unfold mkdir_fn.
          destruct (path_eqb q p) eqn:E; [|reflexivity].
          apply path_eqb_spec in E. subst q. rewrite is_prefix_refl. reflexivity. }
    destruct Hstep as (t1' & Hs1 & W' & L').
    assert (Lp : lookup t1' p = Some e) by (rewrite L', path_eqb_refl; reflexivity).
    destruct (IH t1' W' Hnd') as (t2 & Hm2 & W2 & L2).
    + intros p' e' Hin. apply (Hg p' e'). right. exact Hin.
    + intros p' e' a x Hin Ha Hx E.
      destruct (Hcl p' e' a x (or_intror Hin) Ha Hx E) as [[Heq|Hin']|Hdir].
      * inversion Heq; subst a e. right. unfold is_dir_at. rewrite Lp. reflexivity.
      * left. exact Hin'.
      * right. unfold is_dir_at in *. rewrite L'. destruct (path_eqb a p) eqn:Eap.
        -- apply path_eqb_spec in Eap. subst a. destruct (lookup t1 p) as [[|]|] eqn:El; try discriminate.
           rewrite (kind_D e (eq_sym (Hk p e D (or_introl eq_refl) El))). reflexivity.
        -- destruct (is_prefix a p); [reflexivity|exact Hdir].
    + intros p' e' e1 Hin Hl1.
      assert (Hne : p' <> p).
      { intros ->. apply Hnotin. apply in_map_iff. exists (p, e'). auto. }
      rewrite L' in Hl1. rewrite (proj2 (path_eqb_false p' p) Hne) in Hl1.
      destruct (is_prefix p' p) eqn:Epre.
      * inversion Hl1; subst e1. apply is_prefix_spec in Epre as [x Hx].
        assert (Hxne : x <> []) by (intros ->; rewrite app_nil_r in Hx; congruence).
        destruct (Hcl p e p' x (or_introl eq_refl) (proj2 (Hg p' e' (or_intror Hin))) Hxne Hx) as [[Heq|Hin']|Hdir].
        -- inversion Heq. congruence.
        -- rewrite (NoDup_keys_same l p' e' D Hnd' Hin Hin'). reflexivity.
        -- unfold is_dir_at in Hdir. destruct (lookup t1 p') as [[|]|] eqn:El; try discriminate.
           exact (Hk p' e' D (or_intror Hin) El).
      * exact (Hk p' e' e1 (or_intror Hin) Hl1).
    + exists t2. cbn [materialise]. rewrite Hs1. split; [exact Hm2|]. split; [exact W2|].
      intros q. rewrite L2. cbn [assoc]. rewrite (path_eqb_sym p q).
      destruct (path_eqb q p) eqn:Eqp.
      * apply path_eqb_spec in Eqp. subst q.
        rewrite (proj2 (assoc_None l p) Hnotin). exact Lp.
      * destruct (assoc l q) as [eq|] eqn:Eaq; [reflexivity|].
        rewrite L', Eqp. destruct (is_prefix q p) eqn:Epre; [|reflexivity].
        destruct q as [|m q]; [reflexivity|].
        apply is_prefix_spec in Epre as [x Hx].
        assert (Hxne : x <> []).
        { intros ->. rewrite app_nil_r in Hx. apply path_eqb_false in Eqp. congruence. }
        destruct (Hcl p e (m :: q) x (or_introl eq_refl) ltac:(discriminate) Hxne Hx) as [[Heq|Hin']|Hdir].
        -- inversion Heq. apply path_eqb_false in Eqp. congruence.
        -- rewrite (In_assoc l (m :: q) D Hnd' Hin') in Eaq. discriminate.
        -- unfold is_dir_at in Hdir. destruct (lookup t1 (m :: q)) as [[|]|]; try discriminate. reflexivity.
Qed.

Lemma tree_copy_dir t src dst :
  WF t -> good_path dst = true ->
  (forall a, a <> [] -> is_prefix a dst = true -> is_file_at t a = false) ->
  (forall rel e e1, rel <> [] -> lookup t (src ++ rel) = Some e -> lookup t (dst ++ rel) = Some e1 ->
                    kind_of e1 = kind_of e) ->
  exists t1 t2, mkdir_all t dst = Some t1 /\ materialise t1 (subtree_moved t src dst) = Some t2 /\ WF t2 /\
    forall q, lookup t2 q = copy_fn (lookup t) src dst q.
Proof.
  intros W Hd Hanc Hkind.
  destruct (tree_mkdir t dst W Hd Hanc) as (t1 & Hm & W1 & L1).
  set (l := subtree_moved t src dst).
  assert (L1below : forall x, x <> [] -> lookup t1 (dst ++ x) = lookup t (dst ++ x)).
  { intros x Hx. rewrite L1. unfold mkdir_fn. rewrite longer_not_prefix by exact Hx. reflexivity. }
  destruct (materialise_overlay l t1 W1) as (t2 & Hm2 & W2 & L2).
  - apply NoDup_moved. apply W.
  - intros p e Hin. apply In_moved in Hin as (x & Hx & -> & Hin).
    destruct (WF_entry_good _ _ _ W Hin) as [Hg _]. apply good_path_app in Hg as [_ Hgx].
    split; [apply good_path_app; auto|]. destruct dst; destruct x; try discriminate; congruence.
  - intros p e a x Hin Ha Hx E. apply In_moved in Hin as (x0 & Hx0 & -> & Hin).
    assert (Hpa : is_prefix a (dst ++ x0) = true) by (rewrite E; apply is_prefix_app).
    destruct (is_prefix_comparable a dst (dst ++ x0) Hpa (is_prefix_app dst x0)) as [Had|Hda].
    + right. unfold is_dir_at. rewrite L1. unfold mkdir_fn. rewrite Had. reflexivity.
    + apply is_prefix_spec in Hda as [y ->]. destruct y as [|m y].
      * right. unfold is_dir_at. rewrite L1. unfold mkdir_fn. rewrite app_nil_r, is_prefix_refl. reflexivity.
      * left. rewrite <- app_assoc in E. apply app_inv_head in E. subst x0.
        apply (moved_In t src dst (m :: y) D); [discriminate|].
        apply lookup_In; [destruct src; discriminate|].
        apply (pclosed_tree t W (src ++ m :: y) x Hx).
        rewrite <- app_assoc. rewrite (In_lookup t _ e W Hin). discriminate.
  - intros p e e1 Hin Hl1. apply In_moved in Hin as (x & Hx & -> & Hin).
    rewrite (L1below x Hx) in Hl1.
    exact (Hkind x e e1 Hx (In_lookup t _ e W Hin) Hl1).
  - exists t1, t2. split; [exact Hm|]. split; [exact Hm2|]. split; [exact W2|].
    intros q. rewrite L2. unfold copy_fn. destruct (is_prefix q dst) eqn:Eqd.
    + unfold l. rewrite assoc_moved_outside.
      * rewrite L1. unfold mkdir_fn. rewrite Eqd. reflexivity.
      * intros x Hx ->. rewrite longer_not_prefix in Eqd by exact Hx. discriminate.
    + assert (L1q : lookup t1 q = lookup t q) by (rewrite L1; unfold mkdir_fn; rewrite Eqd; reflexivity).
      destruct (is_prefix dst q) eqn:Edq.
      * apply is_prefix_spec in Edq as [rel ->]. rewrite skipn_app_exact.
        assert (Hrel : rel <> []) by (intros ->; rewrite app_nil_r, is_prefix_refl in Eqd; discriminate).
        unfold l. rewrite assoc_moved by exact Hrel.
        rewrite (lookup_nonroot t (src ++ rel)) by (destruct src; destruct rel; try discriminate; congruence).
        destruct (assoc t (src ++ rel)); [reflexivity|exact L1q].
      * unfold l. rewrite assoc_moved_outside; [exact L1q|].
        intros x _ ->. rewrite is_prefix_app in Edq. discriminate.
Qed.

(** * Copy: both sides together *)
Lemma sim_copy t c src dst c' :
  Inv c -> sim t c -> good_path src = true -> good_path dst = true ->
  c_copy c src dst = (c', RUnit) ->
  Inv c' /\ sim (direct_copy t src dst) c'.
Proof.
  intros I S Hs Hd H. pose proof S as [W L]. unfold direct_copy. rewrite L.
  destruct (vlookup c src) as [[data|]|] eqn:Esrc.
  - (* a file *)
    assert (Hw : c_write c dst data = (c', RUnit)).
    { unfold c_copy in H. destruct src as [|n src]; [discriminate|].
      destruct (is_prefix (n :: src) dst); [discriminate|]. rewrite Esrc in H. exact H. }
    exact (sim_write t c dst data c' I S Hd Hw).
  - (* a directory *)
    destruct (view_copy_dir c src dst c' I Hs Hd Esrc H) as (_ & _ & I' & V & K & Hanc).
    split; [exact I'|].
    destruct (tree_copy_dir t src dst W Hd) as (t1 & t2 & Hm & Hm2 & W2 & L2).
    + intros a Ha Hpre. rewrite (sim_file_at t c a S). exact (Hanc a Ha Hpre).
    + intros rel e e1 Hrel Hse Hde. rewrite L in Hse, Hde.
      destruct (K (dst ++ rel) e1 Hde) as (e' & He' & Kk).
      rewrite V in He'. unfold copy_fn in He'.
      rewrite longer_not_prefix, is_prefix_app, skipn_app_exact, Hse in He' by exact Hrel.
      inversion He'; subst e'. symmetry. exact Kk.
    + rewrite Hm, Hm2. cbn [keep]. split; [exact W2|]. intros q. rewrite L2, V.
      apply copy_fn_ext. exact L.
  - unfold c_copy in H. destruct src as [|n src]; [discriminate|].
    destruct (is_prefix (n :: src) dst); [discriminate|]. rewrite Esrc in H. discriminate.
Qed.

(** * One operation: a successful cache operation is the direct operation on the view *)
Theorem step_sim c t o c' :
  Inv c -> sim t c -> cache_step c (COp o) = (c', RUnit) -> Inv c' /\ sim (direct_step t o) c'.
Proof.
  intros I S H.
  assert (Same : (c, RUnit) = (c', RUnit) -> Inv c' /\ sim t c') by (intros E; inversion E; subst; auto).
  destruct o; cbn [cache_step direct_step] in H |- *; unfold on1 in H.
  - (* Copy *)
    destruct (cnorm src) as [sp|] eqn:Es; [|discriminate].
    destruct (cnorm dst) as [dp|] eqn:Ed; [|discriminate].
    exact (sim_copy t c sp dp c' I S (cnorm_good _ _ Es) (cnorm_good _ _ Ed) H).
  - (* CopyDirectory *)
    destruct (cnorm src) as [sp|] eqn:Es; [|discriminate].
    destruct (cnorm dst) as [dp|] eqn:Ed; [|discriminate].
    destruct (v_dir c sp); [|discriminate].
    exact (sim_copy t c sp dp c' I S (cnorm_good _ _ Es) (cnorm_good _ _ Ed) H).
  - (* CopyFile *)
    destruct (cnorm src) as [sp|] eqn:Es; [|discriminate].
    destruct (cnorm dst) as [dp|] eqn:Ed; [|discriminate].
    destruct (v_file c sp); [|discriminate].
    exact (sim_copy t c sp dp c' I S (cnorm_good _ _ Es) (cnorm_good _ _ Ed) H).
  - destruct (cnorm p) as [q|]; [|discriminate]. destruct (v_read_dir c q); discriminate.
  - destruct (cnorm p); discriminate.
  - destruct (cnorm p); discriminate.
  - destruct (cnorm p); discriminate.
  - (* MkdirAll *)
    destruct (cnorm p) as [q|] eqn:Ep; [|discriminate].
    exact (sim_mkdir t c q c' I S (cnorm_good _ _ Ep) H).
  - destruct (cnorm p) as [q|]; [|discriminate]. destruct (vlookup c q) as [[|]|]; discriminate.
  - (* WriteFile *)
    destruct (cnorm p) as [q|] eqn:Ep; [|discriminate].
    exact (sim_write t c q data c' I S (cnorm_good _ _ Ep) H).
  - exact (Same H).
  - destruct (cnorm p) as [q|]; [|discriminate]. destruct (vlookup c q) as [[|]|]; discriminate.
  - (* Writer *)
    destruct (cnorm p) as [q|] eqn:Ep; [|discriminate].
    exact (sim_write t c q (concat chunks) c' I S (cnorm_good _ _ Ep) H).
  - (* Remove *)
    destruct (cnorm p) as [q|] eqn:Ep; [|discriminate].
    exact (sim_remove t c q c' I S H).
  - (* RemoveAll *)
    destruct (cnorm p) as [q|] eqn:Ep; [|exact (Same H)].
    exact (sim_remove_all t c q c' I S H).
  - destruct (cnorm p) as [q|]; [|discriminate]. destruct (vlookup c q) as [[|]|]; discriminate.
Qed.

(** A failing operation leaves the cache exactly as it was - except a copy of a directory, whose
    loop may stop half way (see [failed_dircopy_changes_view]). *)
Lemma c_write_fail c p d : snd (c_write c p d) <> RUnit -> fst (c_write c p d) = c.
Proof.
  unfold c_write. destruct (check_dest c p false); [|reflexivity].
  destruct (write_at (cB c) p d); cbn; [congruence|reflexivity].
Qed.

Lemma c_mkdir_fail c p : snd (c_mkdir c p) <> RUnit -> fst (c_mkdir c p) = c.
Proof.
  unfold c_mkdir. destruct p as [|n p]; [reflexivity|]. destruct (check_dest c (n :: p) true); [|reflexivity].
  destruct (mkdir_all (cB c) (n :: p)); cbn; [congruence|reflexivity].
Qed.

Lemma c_remove_fail c p : snd (c_remove c p) <> RUnit -> fst (c_remove c p) = c.
Proof.
  unfold c_remove. destruct p as [|n p]; [reflexivity|].
  destruct (negb (v_exists c (n :: p))); [reflexivity|].
  destruct (v_dir c (n :: p) && _); [reflexivity|].
  destruct (exists_at (cB c) (n :: p)); [|cbn; congruence].
  destruct (remove_at (cB c) (n :: p)); cbn; [congruence|reflexivity].
Qed.

Lemma c_remove_all_fail c p : snd (c_remove_all c p) <> RUnit -> fst (c_remove_all c p) = c.
Proof.
  unfold c_remove_all. destruct p as [|n p]; [reflexivity|].
  destruct (exists_at (cB c) (n :: p)); [|cbn; congruence].
  destruct (remove_all_at (cB c) (n :: p)); cbn; [congruence|reflexivity].
Qed.

Lemma c_copy_fail c s d : v_dir c s = false -> snd (c_copy c s d) <> RUnit -> fst (c_copy c s d) = c.
Proof.
  intros Hnd. unfold c_copy. destruct s as [|n s]; [reflexivity|].
  destruct (is_prefix (n :: s) d); [reflexivity|].
  unfold v_dir in Hnd. destruct (vlookup c (n :: s)) as [[data|]|]; [apply c_write_fail|discriminate|reflexivity].
Qed.

Theorem step_fail_keeps c o :
  snd (cache_step c (COp o)) <> RUnit -> dircopy_src c o = false -> fst (cache_step c (COp o)) = c.
Proof.
  intros H Hd. destruct o; cbn [cache_step dircopy_src] in *; unfold on1 in *;
  repeat match goal with |- context [match cnorm ?s with _ => _ end] => destruct (cnorm s) end;
  try reflexivity;
  try (apply c_mkdir_fail; exact H); try (apply c_write_fail; exact H);
  try (apply c_remove_fail; exact H); try (apply c_remove_all_fail; exact H).
  - apply c_copy_fail; assumption.
  - rewrite Hd. reflexivity.
  - destruct (v_file c p) eqn:Ef; [|reflexivity]. apply c_copy_fail; [|exact H].
    unfold v_file in Ef. unfold v_dir. destruct (vlookup c p) as [[|]|]; try discriminate. reflexivity.
Qed.

(** * A Commit that failed: whatever it left on the remote, the view is what it was *)
Definition fault_ok (c : cache) (rp : fs) : Prop :=
  WF rp /\ G (cB c) (apply_tombs (cR c) (cT c)) (apply_tombs rp (cT c)).

Lemma partial_remote_fault_ok c rp : Inv c -> partial_remote c rp -> fault_ok c rp.
Proof. intros I H. split; [eapply partial_remote_WF; eassumption|apply partial_remote_G; assumption]. Qed.

Lemma partial_ok_fault_ok c rp : Inv c -> partial_ok c rp = true -> fault_ok c rp.
Proof.
  intros I H. split; [|apply partial_ok_G; assumption].
  unfold partial_ok in H. apply andb_true_iff in H as [Hw _]. apply wf_WF. exact Hw.
Qed.

Theorem fault_keeps_view c rp : Inv c -> fault_ok c rp ->
  Inv (mkCache (cB c) rp (cT c)) /\ forall q, vlookup (mkCache (cB c) rp (cT c)) q = vlookup c q.
Proof.
  intros I [Wp [Wr Hg]].
  destruct (apply_tombs_spec (cT c) (cR c) (inv_R c I) (inv_T c I)) as [_ L0].
  destruct (apply_tombs_spec (cT c) rp Wp (inv_T c I)) as [_ L1].
  set (c1 := mkCache (cB c) rp (cT c)).
  assert (V1 : forall q, vis c1 q = lookup (apply_tombs rp (cT c)) q) by (intros q; rewrite L1; reflexivity).
  assert (V0 : forall q, vis c q = lookup (apply_tombs (cR c) (cT c)) q) by (intros q; rewrite L0; reflexivity).
  assert (Hv : forall q, lookup (cB c) q = None -> vis c1 q = vis c q).
  { intros q Hn. specialize (Hg q). rewrite Hn in Hg. rewrite V1, V0. exact Hg. }
  split.
  - constructor.
    + exact (inv_B c I).
    + exact Wp.
    + exact (inv_T c I).
    + intros p Hp d. change (lookup (cB c) p = Some D) in Hp. rewrite V1.
      specialize (Hg p). rewrite Hp in Hg.
      destruct Hg as [E|[E|[[_ E]|(d1 & d2 & Ed & _)]]]; [rewrite E; discriminate| |rewrite E; discriminate|discriminate].
      rewrite E, <- V0. exact (inv_dir c I p Hp d).
    + intros p d Hp. change (lookup (cB c) p = Some (F d)) in Hp. split.
      * rewrite V1. specialize (Hg p). rewrite Hp in Hg.
        destruct Hg as [E|[E|[[E _]|(d1 & d2 & _ & E)]]]; [rewrite E; discriminate| |discriminate|rewrite E; discriminate].
        rewrite E, <- V0. exact (proj1 (inv_file c I p d Hp)).
      * intros x Hx. rewrite Hv; [exact (proj2 (inv_file c I p d Hp) x Hx)|].
        exact (WF_nothing_below_file (cB c) p d x (inv_B c I) Hp Hx).
  - intros q. unfold vlookup. change (cB c1) with (cB c).
    destruct (lookup (cB c) q) eqn:E; [reflexivity|apply Hv; exact E].
Qed.

(** * Whole histories *)
Definition hev_valid (c : cache) (h : hev) : Prop :=
  match h with
  | HOp o => dircopy_src c o = true -> snd (cache_step c (COp o)) = RUnit
  | HCommit => True
  | HFault rp => partial_remote c rp \/ partial_ok c rp = true
  end.

Fixpoint hist_valid (c : cache) (hs : list hev) : Prop :=
  match hs with
  | [] => True
  | h :: hs' => hev_valid c h /\ hist_valid (hev_step c h) hs'
  end.

Lemma is_unit_true o : is_unit o = true -> o = RUnit.
Proof. destruct o; try discriminate. reflexivity. Qed.

Lemma hist_ok_valid hs : forall c, hist_ok c hs = true -> hist_valid c hs.
Proof.
  induction hs as [|h hs IH]; intros c H; [exact Logic.I|].
  cbn [hist_ok] in H. apply andb_true_iff in H as [H1 H2]. split; [|apply IH; exact H2].
  destruct h as [o| |rp]; cbn [hev_ok hev_valid] in *.
  - intros Hd. rewrite Hd in H1. cbn in H1. apply is_unit_true. exact H1.
  - exact Logic.I.
  - right. exact H1.
Qed.

Lemma hist_sim hs : forall c t, Inv c -> sim t c -> hist_valid c hs ->
  Inv (hrun c hs) /\ sim (direct_run t (succ_ops c hs)) (hrun c hs).
Proof.
  induction hs as [|h hs IH]; intros c t I S Hv; [split; assumption|].
  destruct Hv as [Hh Hv]. unfold hrun, direct_run in *. cbn [fold_left succ_ops].
  destruct h as [o| |rp].
  - cbn [hev_step hev_valid] in *.
    destruct (is_unit (snd (cache_step c (COp o)))) eqn:Eu.
    + destruct (cache_step c (COp o)) as [c' out] eqn:E. cbn [fst snd] in *.
      apply is_unit_true in Eu. subst out.
      destruct (step_sim c t o c' I S E) as [I' S']. cbn [fold_left]. apply IH; assumption.
    + assert (Hk : fst (cache_step c (COp o)) = c).
      { apply step_fail_keeps.
        - intros E. rewrite E in Eu. discriminate.
        - destruct (dircopy_src c o) eqn:Ed; [|reflexivity]. rewrite (Hh eq_refl) in Eu. discriminate. }
      rewrite Hk in *. apply IH; assumption.
  - cbn [hev_step cache_step] in *.
    destruct (c_commit_spec c I) as (c' & E & I' & _ & _ & _ & V). rewrite E in *. cbn [fst] in *.
    apply IH; [exact I'| |exact Hv]. split; [apply S|]. intros q. rewrite V. apply S.
  - cbn [hev_step hev_valid] in *.
    assert (Hf : fault_ok c rp).
    { destruct Hh as [Hh|Hh]; [apply partial_remote_fault_ok|apply partial_ok_fault_ok]; assumption. }
    destruct (fault_keeps_view c rp I Hf) as [I' V].
    apply IH; [exact I'| |exact Hv]. split; [apply S|]. intros q. rewrite V. apply S.
Qed.

Lemma WF_NoDup (t : fs) : WF t -> NoDup t.
Proof. intros [H _]. apply (NoDup_map_inv fst). exact H. Qed.

Lemma same_lookup_perm t1 t2 : WF t1 -> WF t2 -> (forall q, lookup t1 q = lookup t2 q) -> Permutation t1 t2.
Proof.
  intros W1 W2 L. apply NoDup_Permutation; [apply WF_NoDup; exact W1|apply WF_NoDup; exact W2|].
  intros [q e]. split; intros Hin.
  - destruct (WF_entry_good _ _ _ W1 Hin) as [_ Hq]. apply lookup_In; [exact Hq|].
    rewrite <- L. apply In_lookup; assumption.
  - destruct (WF_entry_good _ _ _ W2 Hin) as [_ Hq]. apply lookup_In; [exact Hq|].
    rewrite L. apply In_lookup; assumption.
Qed.

Lemma sim_new r : WF r -> sim r (new_cache r).
Proof. intros W. split; [exact W|]. intros q. symmetry. apply vlookup_new_cache. Qed.

(** After ANY valid history - operations, Commits, Commits that failed any number of times and
    left any intermediate remote, more operations before the retry - the tree seen through the
    cache is the initial remote with the successful operations applied directly. *)
Theorem history_view_is_direct r hs :
  WF r -> hist_valid (new_cache r) hs ->
  Inv (hrun (new_cache r) hs) /\
  WF (direct_run r (succ_ops (new_cache r) hs)) /\
  forall q, vlookup (hrun (new_cache r) hs) q = lookup (direct_run r (succ_ops (new_cache r) hs)) q.
Proof.
  intros W Hv. destruct (hist_sim hs (new_cache r) r (Inv_new r W) (sim_new r W) Hv) as [I [W' L]].
  split; [exact I|]. split; [exact W'|]. intros q. symmetry. apply L.
Qed.

(** ... and the next Commit (during which the remote does not fail) succeeds and leaves on the
    remote exactly that tree: the same nodes with the same contents. *)
Theorem history_commit_is_direct r hs :
  WF r -> hist_valid (new_cache r) hs ->
  exists c', c_commit (hrun (new_cache r) hs) = (c', RUnit) /\ cT c' = [] /\
    (forall q, lookup (cR c') q = lookup (direct_run r (succ_ops (new_cache r) hs)) q) /\
    Permutation (cR c') (direct_run r (succ_ops (new_cache r) hs)).
Proof.
  intros W Hv. destruct (history_view_is_direct r hs W Hv) as (I & W' & L).
  destruct (c_commit_spec _ I) as (c' & E & I' & _ & HT & LR & _).
  exists c'. split; [exact E|]. split; [exact HT|].
  assert (LL : forall q, lookup (cR c') q = lookup (direct_run r (succ_ops (new_cache r) hs)) q)
    by (intros q; rewrite LR; apply L).
  split; [exact LL|]. apply same_lookup_perm; [exact (inv_R c' I')|exact W'|exact LL].
Qed.

(** The one exception, as a witness: a copy of a directory that FAILS half way (here: [e/b] is
    a file where the source has a directory [d/b]) has already copied [d/a]; the failure is
    reported, yet the view shows [e/a] and the next Commit sends it to the remote. *)
Theorem failed_dircopy_changes_view :
  let r := [([[100]], D); ([[100]; [97]], F [49]); ([[100]; [98]], D); ([[101]], D); ([[101]; [98]], F [50])] in
  let c := new_cache r in
  let c1 := fst (cache_step c (COp (OCopy [100] [101]))) in
  WF r /\ snd (cache_step c (COp (OCopy [100] [101]))) = RErr /\
  vlookup c [[101]; [97]] = None /\ vlookup c1 [[101]; [97]] = Some (F [49]) /\
  exists c', c_commit c1 = (c', RUnit) /\ lookup (cR c') [[101]; [97]] = Some (F [49]).
Proof.
  cbv zeta. split; [apply wf_WF; vm_compute; reflexivity|].
  split; [vm_compute; reflexivity|]. split; [vm_compute; reflexivity|]. split; [vm_compute; reflexivity|].
  eexists. split; vm_compute; reflexivity.
Qed.

(** * The statements as used in Props/C06.v *)
Theorem step_is_direct c t o c' :
  Inv c -> WF t -> (forall q, lookup t q = vlookup c q) -> cache_step c (COp o) = (c', RUnit) ->
  Inv c' /\ WF (direct_step t o) /\ forall q, lookup (direct_step t o) q = vlookup c' q.
Proof.
  intros I W L H. destruct (step_sim c t o c' I (conj W L) H) as [I' [W' L']]. auto.
Qed.

Theorem failed_commit_keeps_view c rp :
  Inv c -> partial_remote c rp \/ partial_ok c rp = true ->
  Inv (mkCache (cB c) rp (cT c)) /\ forall q, vlookup (mkCache (cB c) rp (cT c)) q = vlookup c q.
Proof.
  intros I H. apply fault_keeps_view; [exact I|].
  destruct H as [H|H]; [apply partial_remote_fault_ok|apply partial_ok_fault_ok]; assumption.
Qed.

(** Every position of a failure during Commit: whichever of the pending removals had been applied
    ([T1], any subset) or - after all removals - whichever buffer entries had been sent ([l]: any
    selection, any order), the sends so far succeeded and the remote is one that [partial_remote]
    describes. *)
Theorem commit_every_position c T1 l :
  Inv c -> incl T1 (cT c) -> (forall p e, In (p, e) l -> In (p, e) (cB c)) ->
  partial_remote c (apply_tombs (cR c) T1) /\
  exists rp, materialise (apply_tombs (cR c) (cT c)) l = Some rp /\ partial_remote c rp.
Proof.
  intros I HT Hl. split; [apply PR_tombs; exact HT|].
  destruct (apply_tombs_spec (cT c) (cR c) (inv_R c I) (inv_T c I)) as [W0 L0].
  set (r0 := apply_tombs (cR c) (cT c)) in *.
  assert (Lv : forall q, lookup r0 q = vis c q) by (intros q; rewrite L0; reflexivity).
  assert (C1 : forall q, lookup (cB c) q = Some D -> forall d, lookup r0 q <> Some (F d))
    by (intros q Hq d; rewrite Lv; exact (inv_dir c I q Hq d)).
  assert (C2 : forall q d, lookup (cB c) q = Some (F d) -> lookup r0 q <> Some D)
    by (intros q d Hq; rewrite Lv; exact (proj1 (inv_file c I q d Hq))).
  assert (HG0 : G (cB c) r0 r0).
  { split; [exact W0|]. intros q. destruct (lookup (cB c) q); auto. }
  destruct (G_materialise (cB c) r0 (inv_B c I) C1 C2 l r0 HG0 Hl) as (rp & Hm & _).
  exists rp. split; [exact Hm|]. exact (PR_buffer c l rp Hl Hm).
Qed.
