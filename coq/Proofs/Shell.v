(** Proofs about Model/Shell.v (C18). *)
From GC Require Import Common.Base Model.Shell.
From Coq Require Import Lia ZifyBool ZifyNat ZifyN.

(** * Character classes *)
Lemma letter_letter_us c : is_letter c = true -> is_letter_us c = true.
Proof. unfold is_letter_us. intros ->. reflexivity. Qed.
Lemma letter_us_name_char c : is_letter_us c = true -> is_name_char c = true.
Proof. unfold is_name_char. intros ->. reflexivity. Qed.

Lemma name_char_not_nl c : is_name_char c = true -> (c =? NL) = false.
Proof. intro H. destruct (N.eqb_spec c NL) as [->|]; [vm_compute in H; discriminate|reflexivity]. Qed.
Lemma name_char_not_eq c : is_name_char c = true -> (c =? EQS) = false.
Proof. intro H. destruct (N.eqb_spec c EQS) as [->|]; [vm_compute in H; discriminate|reflexivity]. Qed.
Lemma name_char_not_sq c : is_name_char c = true -> (c =? SQ) = false.
Proof. intro H. destruct (N.eqb_spec c SQ) as [->|]; [vm_compute in H; discriminate|reflexivity]. Qed.
Lemma upper_name_char c : is_upper c = true -> is_name_char c = true.
Proof. unfold is_name_char, is_letter_us, is_letter. intros ->. reflexivity. Qed.

Lemma forallb_imp {A} (P Q : A -> bool) l :
  (forall x, P x = true -> Q x = true) -> forallb P l = true -> forallb Q l = true.
Proof.
  intros HPQ. induction l as [|x l IH]; simpl; [reflexivity|].
  intro H. apply andb_true_iff in H as [H1 H2]. rewrite (HPQ _ H1), (IH H2). reflexivity.
Qed.

(** * Names *)
Lemma skip_letters_all r : forallb is_letter_us (skip_letters r) = true -> forallb is_letter_us r = true.
Proof.
  induction r as [|c r IH]; simpl; [reflexivity|].
  destruct (is_letter c) eqn:E.
  - intro H. rewrite (letter_letter_us _ E), (IH H). reflexivity.
  - simpl. exact (fun H => H).
Qed.
Lemma all_skip_letters r : forallb is_letter_us r = true -> forallb is_letter_us (skip_letters r) = true.
Proof.
  induction r as [|c r IH]; simpl; [reflexivity|].
  intro H. apply andb_true_iff in H as [H1 H2].
  destruct (is_letter c); [exact (IH H2)|]. simpl. rewrite H1, H2. reflexivity.
Qed.

Lemma valid_key_shape k :
  valid_key k = true <-> exists c r, k = c :: r /\ is_letter c = true /\ forallb is_letter_us r = true.
Proof.
  split.
  - destruct k as [|c r]; simpl; [discriminate|]. intro H. apply andb_true_iff in H as [H1 H2].
    exists c, r. repeat split; [exact H1|exact (skip_letters_all _ H2)].
  - intros (c & r & -> & H1 & H2). simpl. rewrite H1, (all_skip_letters _ H2). reflexivity.
Qed.

(** The boolean function decides the language of ^[a-zA-Z]+([_a-zA-Z]+)?$ *)
Lemma valid_key_regex k :
  valid_key k = true <->
  exists p q, k = p ++ q /\ p <> [] /\ forallb is_letter p = true /\ forallb is_letter_us q = true.
Proof.
  rewrite valid_key_shape. split.
  - intros (c & r & -> & H1 & H2). exists [c], r. simpl. rewrite H1. repeat split; [discriminate|exact H2].
  - intros (p & q & -> & Hp & H1 & H2). destruct p as [|c p]; [contradiction|].
    simpl in H1. apply andb_true_iff in H1 as [Hc H1].
    exists c, (p ++ q). repeat split; [exact Hc|].
    rewrite forallb_app, H2, (forallb_imp _ _ _ letter_letter_us H1). reflexivity.
Qed.

Lemma valid_key_is_name k : valid_key k = true -> is_name k = true.
Proof.
  intro H. apply valid_key_shape in H as (c & r & -> & H1 & H2). simpl.
  rewrite (letter_letter_us _ H1), (forallb_imp _ _ _ letter_us_name_char H2). reflexivity.
Qed.

Lemma is_name_chars k : is_name k = true -> k <> [] /\ forallb is_name_char k = true.
Proof.
  destruct k as [|c r]; simpl; [discriminate|]. intro H. apply andb_true_iff in H as [H1 H2].
  split; [discriminate|]. rewrite (letter_us_name_char _ H1), H2. reflexivity.
Qed.

(** The statement of C18_names: an accepted key is a non-empty string of ASCII letters and
    underscores that starts with a letter, and it is a shell Name. *)
Lemma valid_key_plain k :
  valid_key k = true ->
  k <> [] /\ (exists c r, k = c :: r /\ is_letter c = true) /\ forallb is_letter_us k = true /\ is_name k = true.
Proof.
  intro H. pose proof (valid_key_is_name _ H) as Hn.
  apply valid_key_shape in H as (c & r & -> & H1 & H2).
  repeat split; [discriminate|exists c, r; auto| |exact Hn].
  simpl. rewrite (letter_letter_us _ H1), H2. reflexivity.
Qed.

(** * The Environments store *)
Lemma lookup_remove_same k m : lookup k (remove_key k m) = None.
Proof.
  induction m as [|[k' v] m IH]; simpl; [reflexivity|].
  destruct (bytes_eqb k k') eqn:E; [exact IH|]. simpl. rewrite E. exact IH.
Qed.
Lemma lookup_remove_other k k' m : k <> k' -> lookup k (remove_key k' m) = lookup k m.
Proof.
  intro Hne. induction m as [|[k2 v] m IH]; simpl; [reflexivity|].
  destruct (bytes_eqb k' k2) eqn:E.
  - apply bytes_eqb_spec in E. subst k2.
    destruct (bytes_eqb k k') eqn:E2; [apply bytes_eqb_spec in E2; contradiction|exact IH].
  - simpl. destruct (bytes_eqb k k2); [reflexivity|exact IH].
Qed.
Lemma lookup_put_same k v m : lookup k (put k v m) = Some v.
Proof. unfold put. simpl. rewrite bytes_eqb_refl. reflexivity. Qed.
Lemma lookup_put_other k k' v m : k <> k' -> lookup k (put k' v m) = lookup k m.
Proof.
  intro Hne. unfold put. simpl.
  destruct (bytes_eqb k k') eqn:E; [apply bytes_eqb_spec in E; contradiction|].
  apply lookup_remove_other. exact Hne.
Qed.

Lemma lookup_put_all_other k kvs m : ~ In k (map fst kvs) -> lookup k (put_all kvs m) = lookup k m.
Proof.
  revert m. induction kvs as [|[k1 v1] kvs IH]; intros m Hni; [reflexivity|].
  unfold put_all in *. simpl in *. rewrite IH by tauto.
  apply lookup_put_other. intro; subst; tauto.
Qed.
Lemma lookup_put_all_in k v kvs m :
  NoDup (map fst kvs) -> In (k, v) kvs -> lookup k (put_all kvs m) = Some v.
Proof.
  revert m. induction kvs as [|[k1 v1] kvs IH]; intros m Hnd Hin; [destruct Hin|].
  simpl in Hnd. inversion Hnd as [|? ? Hni Hnd']; subst.
  destruct Hin as [Heq|Hin].
  - inversion Heq; subst. change (put_all ((k, v) :: kvs) m) with (put_all kvs (put k v m)).
    rewrite lookup_put_all_other by exact Hni. apply lookup_put_same.
  - change (put_all ((k1, v1) :: kvs) m) with (put_all kvs (put k1 v1 m)). apply IH; assumption.
Qed.

Lemma env_set_spec m k v :
  (valid_key k = true -> env_set m k v = Ok (put k v m)) /\
  (valid_key k = false -> env_set m k v = Err).
Proof. unfold env_set. split; intros ->; reflexivity. Qed.

Lemma forallb_false_exists {A} (P : A -> bool) l :
  forallb P l = false <-> exists x, In x l /\ P x = false.
Proof.
  induction l as [|a l IH]; simpl.
  - split; [discriminate|intros (x & [] & _)].
  - destruct (P a) eqn:E; simpl.
    + rewrite IH. split; intros (x & Hx & Hp); [exists x; auto|].
      destruct Hx as [->|Hx]; [congruence|exists x; auto].
    + split; [intros _; exists a; auto|reflexivity].
Qed.

(** SetAll is all-or-nothing: either every key is valid and every pair is stored, or the call
    fails and (the result being [Err]) no new store exists — nothing was inserted. *)
Lemma env_set_all_spec m kvs :
  (forallb (fun kv => valid_key (fst kv)) kvs = true -> env_set_all m kvs = Ok (put_all kvs m)) /\
  ((exists kv, In kv kvs /\ valid_key (fst kv) = false) <-> env_set_all m kvs = Err).
Proof.
  unfold env_set_all. split.
  - intros ->. reflexivity.
  - rewrite <- (forallb_false_exists (fun kv => valid_key (fst kv))).
    destruct (forallb _ kvs); split; congruence.
Qed.

(** * Lines *)
Lemma split_lines_nonempty s : split_lines s <> [].
Proof.
  destruct s as [|c s]; simpl; [discriminate|].
  destruct (c =? NL); [discriminate|]. destruct (split_lines s); discriminate.
Qed.

Lemma split_lines_app_nl a b : split_lines (a ++ NL :: b) = split_lines a ++ split_lines b.
Proof.
  induction a as [|c a IH]; [reflexivity|].
  cbn [app split_lines]. destruct (c =? NL); [rewrite IH; reflexivity|].
  rewrite IH. destruct (split_lines a) as [|l ls] eqn:E; [exfalso; exact (split_lines_nonempty _ E)|].
  reflexivity.
Qed.

Definition no_nl (l : bytes) : bool := forallb (fun c => negb (c =? NL)) l.

Lemma split_lines_no_nl l : no_nl l = true -> split_lines l = [l].
Proof.
  induction l as [|c l IH]; [reflexivity|]. unfold no_nl. simpl.
  intro H. apply andb_true_iff in H as [H1 H2]. apply negb_true_iff in H1. rewrite H1, (IH H2). reflexivity.
Qed.

Lemma join_split v : join_nl (split_lines v) = v ++ [NL].
Proof.
  induction v as [|c v IH]; [reflexivity|]. cbn [split_lines].
  destruct (N.eqb_spec c NL) as [->|Hne].
  - unfold join_nl in *. simpl. rewrite IH. reflexivity.
  - destruct (split_lines v) as [|l ls] eqn:E; [exfalso; exact (split_lines_nonempty _ E)|].
    unfold join_nl in *. simpl in *. rewrite IH. reflexivity.
Qed.

Lemma name_chars_no_nl l : forallb is_name_char l = true -> no_nl l = true.
Proof.
  apply forallb_imp. intros c H. rewrite (name_char_not_nl _ H). reflexivity.
Qed.

Lemma no_nl_app a b : no_nl (a ++ b) = no_nl a && no_nl b.
Proof. apply forallb_app. Qed.

(** Every line of a string is a contiguous piece of it. *)
Lemma split_lines_piece v l : In l (split_lines v) -> exists a b, v = a ++ l ++ b.
Proof.
  revert l. induction v as [|c v IH]; intros l Hin.
  - simpl in Hin. destruct Hin as [<-|[]]. exists [], []. reflexivity.
  - cbn [split_lines] in Hin. destruct (c =? NL).
    + destruct Hin as [<-|Hin]; [exists [], (c :: v); reflexivity|].
      destruct (IH _ Hin) as (a & b & ->). exists (c :: a), b. reflexivity.
    + destruct (split_lines v) as [|l0 ls] eqn:E; [exfalso; exact (split_lines_nonempty _ E)|].
      destruct Hin as [<-|Hin].
      * destruct (IH l0 (or_introl eq_refl)) as (a & b & Hv).
        (* l0 is the FIRST line of v, so it is a prefix of v *)
        clear Hv a b.
        assert (Hp : exists b, v = l0 ++ b).
        { clear IH. revert l0 ls E. induction v as [|d v IHv]; intros l0 ls E.
          - simpl in E. inversion E. exists []. reflexivity.
          - cbn [split_lines] in E. destruct (d =? NL).
            + inversion E; subst. exists (d :: v). reflexivity.
            + destruct (split_lines v) as [|l1 ls1] eqn:E1; [exfalso; exact (split_lines_nonempty _ E1)|].
              inversion E; subst. destruct (IHv _ _ eq_refl) as (b & Hb).
              exists b. simpl. rewrite <- Hb. reflexivity. }
        destruct Hp as (b & ->). exists [], b. reflexivity.
      * destruct (IH l (or_intror Hin)) as (a & b & ->). exists (c :: a), b. reflexivity.
Qed.

(** * strings.Contains *)
Lemma has_prefix_app t b : has_prefix (t ++ b) t = true.
Proof. induction t as [|x t IH]; simpl; [destruct b; reflexivity|]. rewrite N.eqb_refl, IH. reflexivity. Qed.
Lemma contains_prefix s t : has_prefix s t = true -> contains s t = true.
Proof. destruct s; cbn [contains]; intros ->; reflexivity. Qed.
Lemma contains_piece a t b : contains (a ++ t ++ b) t = true.
Proof.
  induction a as [|x a IH].
  - cbn [app]. apply contains_prefix. apply has_prefix_app.
  - cbn [app contains]. rewrite IH. apply orb_true_r.
Qed.

(** The guard of newEOFTag ("no value contains the tag") implies the hypothesis the here-document
    needs ("no line of a value equals the tag"). *)
Lemma not_contains_no_tag_line tag v : contains v tag = false -> no_tag_line tag v = true.
Proof.
  intro H. unfold no_tag_line. apply forallb_forall. intros l Hin.
  apply negb_true_iff. destruct (bytes_eqb l tag) eqn:E; [|reflexivity].
  apply bytes_eqb_spec in E. subst l. destruct (split_lines_piece _ _ Hin) as (a & b & ->).
  rewrite contains_piece in H. discriminate.
Qed.

Lemma tag_fresh_no_tag_line tag e :
  tag_fresh tag e = true -> Forall (fun kv => no_tag_line tag (snd kv) = true) e.
Proof.
  unfold tag_fresh, collides. intro H. apply negb_true_iff in H.
  apply Forall_forall. intros kv Hin. apply not_contains_no_tag_line.
  destruct (contains (snd kv) tag) eqn:E; [|reflexivity].
  assert (existsb (fun kv => contains (snd kv) tag) e = true) by (apply existsb_exists; exists kv; auto).
  congruence.
Qed.

(** Exit condition of the redraw loop. *)
Lemma new_eof_tag_fresh draws e tag :
  new_eof_tag draws e = Some tag -> In tag draws /\ tag_fresh tag e = true.
Proof.
  induction draws as [|t ds IH]; simpl; [discriminate|].
  destruct (collides t e) eqn:E.
  - intro H. destruct (IH H). auto.
  - intro H. inversion H; subst. unfold tag_fresh. rewrite E. auto.
Qed.

Lemma strip_prefix_some p l r : strip_prefix p l = Some r -> l = p ++ r.
Proof.
  revert l. induction p as [|x p IH]; intros l; simpl.
  - intro H. inversion H. reflexivity.
  - destruct l as [|y l]; [discriminate|]. destruct (N.eqb_spec x y) as [->|]; [|discriminate].
    intro H. rewrite (IH _ H). reflexivity.
Qed.
Lemma strip_prefix_app p r : strip_prefix p (p ++ r) = Some r.
Proof. induction p as [|x p IH]; simpl; [reflexivity|]. rewrite N.eqb_refl. exact IH. Qed.

Lemma go_tag_ok t : go_tag t = true -> tag_ok t = true.
Proof.
  unfold go_tag. destruct (strip_prefix EOF3 t) as [r|] eqn:E; [|discriminate].
  apply strip_prefix_some in E. subst t. intro H. apply andb_true_iff in H as [_ H].
  unfold tag_ok. simpl. apply (forallb_imp _ _ _ upper_name_char H).
Qed.

(** * The line machine on one environment block *)
Lemma tag_ok_chars t : tag_ok t = true -> t <> [] /\ forallb is_name_char t = true.
Proof.
  unfold tag_ok. intro H. apply andb_true_iff in H as [H1 H2]. split; [|exact H2].
  destruct t; [discriminate|discriminate].
Qed.

Lemma split_at_name k r : forallb is_name_char k = true -> split_at EQS (k ++ EQS :: r) = Some (k, r).
Proof.
  induction k as [|c k IH]; simpl.
  - intros _. reflexivity.
  - intro H. apply andb_true_iff in H as [H1 H2]. rewrite (name_char_not_eq _ H1), (IH H2). reflexivity.
Qed.
Lemma split_at_none c l : forallb (fun x => negb (x =? c)) l = true -> split_at c l = None.
Proof.
  induction l as [|x l IH]; simpl; [reflexivity|].
  intro H. apply andb_true_iff in H as [H1 H2]. apply negb_true_iff in H1. rewrite H1, (IH H2). reflexivity.
Qed.

Lemma parse_delim_quoted tag : tag_ok tag = true -> parse_delim (SQ :: tag ++ [SQ]) = Some (tag, true).
Proof.
  intro H. unfold parse_delim. rewrite N.eqb_refl, removelast_last, last_last, N.eqb_refl, H. reflexivity.
Qed.
Lemma parse_delim_unquoted tag : tag_ok tag = true -> parse_delim tag = Some (tag, false).
Proof.
  intro H. destruct (tag_ok_chars _ H) as [Hne Hc]. destruct tag as [|c r]; [contradiction|].
  unfold parse_delim. simpl in Hc. apply andb_true_iff in Hc as [Hc _].
  rewrite (name_char_not_sq _ Hc), H. reflexivity.
Qed.

Lemma parse_assign_block q k tag :
  is_name k = true -> tag_ok tag = true ->
  parse_assign (k ++ EQS :: CAT_OPEN ++ delim_word q tag) = Some (k, tag, q).
Proof.
  intros Hk Ht. unfold parse_assign. destruct (is_name_chars _ Hk) as [_ Hc].
  rewrite (split_at_name _ _ Hc), Hk, strip_prefix_app.
  destruct q; simpl delim_word; [rewrite (parse_delim_quoted _ Ht)|rewrite (parse_delim_unquoted _ Ht)]; reflexivity.
Qed.

Lemma step_top_assign q k tag s :
  is_name k = true -> tag_ok tag = true ->
  step_top s (k ++ EQS :: CAT_OPEN ++ delim_word q tag) = (InHere k tag q [], s).
Proof.
  intros Hk Ht. unfold step_top. rewrite (parse_assign_block q _ _ Hk Ht).
  destruct k; [discriminate Hk|reflexivity].
Qed.

Lemma step_top_export k s : is_name k = true -> step_top s (EXPORT_SP ++ k) = (Top, add_export k s).
Proof.
  intro Hk. unfold step_top. destruct (is_name_chars _ Hk) as [_ Hc].
  assert (Hpa : parse_assign (EXPORT_SP ++ k) = None).
  { unfold parse_assign. rewrite split_at_none; [reflexivity|].
    rewrite forallb_app. apply andb_true_iff. split; [reflexivity|].
    apply (forallb_imp _ _ _ (fun c H => eq_trans (f_equal negb (name_char_not_eq c H)) eq_refl) Hc). }
  rewrite Hpa, strip_prefix_app, Hk. reflexivity.
Qed.

(** C18_tag, general form: a here-document ends at the FIRST line equal to the delimiter and at no
    other place; with a quoted delimiter the lines before it are the body, byte for byte. *)
Lemma heredoc_quoted_scan k tag ls1 ls2 acc s :
  forallb (fun l => negb (bytes_eqb l tag)) ls1 = true ->
  run_lines (ls1 ++ tag :: ls2) (InHere k tag true acc, s)
  = run_lines ls2 (AfterHere k (join_nl (rev acc ++ ls1)), s).
Proof.
  revert acc. induction ls1 as [|l ls1 IH]; intros acc H.
  - simpl. rewrite bytes_eqb_refl, app_nil_r. unfold add_effects. rewrite app_nil_r. destruct s; reflexivity.
  - simpl in H. apply andb_true_iff in H as [H1 H2]. apply negb_true_iff in H1.
    simpl. rewrite H1. change (fold_left step (ls1 ++ tag :: ls2) (InHere k tag true (l :: acc), s))
      with (run_lines (ls1 ++ tag :: ls2) (InHere k tag true (l :: acc), s)).
    rewrite (IH _ H2). simpl. rewrite <- app_assoc. reflexivity.
Qed.

Lemma heredoc_value k tag v rest s :
  no_tag_line tag v = true ->
  run_lines (split_lines (v ++ NL :: tag ++ NL :: rest)) (InHere k tag true [], s)
  = run_lines (split_lines rest) (AfterHere k (v ++ [NL]), s) \/ no_nl tag = false.
Proof.
  intro H. destruct (no_nl tag) eqn:Ht; [left|right; reflexivity].
  rewrite split_lines_app_nl, split_lines_app_nl, (split_lines_no_nl _ Ht).
  change ([tag] ++ split_lines rest) with (tag :: split_lines rest).
  rewrite (heredoc_quoted_scan _ _ _ _ _ _ H). simpl. rewrite join_split. reflexivity.
Qed.

Lemma strip_nl_snoc v : strip_nl (v ++ [NL]) = strip_nl v.
Proof. unfold strip_nl. rewrite rev_app_distr. simpl. reflexivity. Qed.

Lemma env_block_run tag k v tail s :
  tag_ok tag = true -> valid_key k = true -> no_tag_line tag v = true ->
  run_lines (split_lines (env_block true tag (k, v) ++ tail)) (Top, s)
  = run_lines (split_lines tail) (Top, add_export k (bind k (strip_nl v) s)).
Proof.
  intros Ht Hk Hv.
  pose proof (valid_key_is_name _ Hk) as Hn.
  destruct (is_name_chars _ Hn) as [_ Hkc]. destruct (tag_ok_chars _ Ht) as [_ Htc].
  pose proof (name_chars_no_nl _ Hkc) as Hknl. pose proof (name_chars_no_nl _ Htc) as Htnl.
  unfold env_block. cbn [fst snd].
  set (line1 := k ++ EQS :: CAT_OPEN ++ delim_word true tag).
  assert (H1 : no_nl line1 = true).
  { unfold line1. rewrite no_nl_app, Hknl. cbn [andb]. change (EQS :: CAT_OPEN ++ delim_word true tag)
      with ((EQS :: CAT_OPEN ++ [SQ]) ++ tag ++ [SQ]).
    rewrite no_nl_app, no_nl_app, Htnl. reflexivity. }
  replace ((k ++ EQS :: CAT_OPEN ++ delim_word true tag ++ NL :: v ++ NL :: tag ++ NL :: RPAR :: NL :: EXPORT_SP ++ k ++ [NL]) ++ tail)
    with (line1 ++ NL :: v ++ NL :: tag ++ NL :: [RPAR] ++ NL :: (EXPORT_SP ++ k) ++ NL :: tail).
  2:{ unfold line1. repeat (rewrite <- ?app_assoc; cbn [app]). reflexivity. }
  rewrite split_lines_app_nl, (split_lines_no_nl _ H1).
  cbn [app run_lines fold_left step]. unfold line1. rewrite (step_top_assign true _ _ _ Hn Ht).
  change (fold_left step ?l ?m) with (run_lines l m).
  destruct (heredoc_value k tag v (RPAR :: NL :: (EXPORT_SP ++ k) ++ NL :: tail) s Hv) as [->|Hc]; [|congruence].
  change (RPAR :: NL :: (EXPORT_SP ++ k) ++ NL :: tail) with ([RPAR] ++ NL :: (EXPORT_SP ++ k) ++ NL :: tail).
  rewrite split_lines_app_nl. cbn [split_lines N.eqb RPAR NL Pos.eqb app run_lines fold_left step bytes_eqb andb].
  change (fold_left step ?l ?m) with (run_lines l m).
  rewrite split_lines_app_nl, split_lines_no_nl.
  2:{ rewrite no_nl_app, Hknl. reflexivity. }
  cbn [app run_lines fold_left step]. rewrite (step_top_export _ _ Hn), strip_nl_snoc. reflexivity.
Qed.

Lemma env_section_run tag e tail s :
  tag_ok tag = true ->
  Forall (fun kv => valid_key (fst kv) = true) e ->
  Forall (fun kv => no_tag_line tag (snd kv) = true) e ->
  run_lines (split_lines (env_section true tag e ++ tail)) (Top, s)
  = run_lines (split_lines tail) (Top, after_env e s).
Proof.
  intros Ht. revert s. induction e as [|[k v] e IH]; intros s Hk Hv; [reflexivity|].
  inversion Hk; inversion Hv; subst. unfold env_section in *. cbn [flat_map].
  rewrite <- app_assoc, env_block_run by assumption.
  rewrite IH by assumption. reflexivity.
Qed.

Lemma header_run rest s :
  run_lines (split_lines (HEADER ++ rest)) (Top, s) = run_lines (split_lines rest) (Top, s).
Proof.
  change (HEADER ++ rest) with ([] ++ NL :: [115;101;116;32;45;101] ++ NL :: [115;101;116;32;43;120] ++ NL :: rest).
  rewrite !split_lines_app_nl. reflexivity.
Qed.

(** * What [after_env] is *)
Lemma after_env_store e s : sh_store (after_env e s) = put_all (map (fun kv => (fst kv, strip_nl (snd kv))) e) (sh_store s).
Proof.
  revert s. induction e as [|[k v] e IH]; intros s; [reflexivity|].
  unfold after_env in *. cbn [fold_left map]. rewrite IH. reflexivity.
Qed.
Lemma after_env_effects e s : sh_effects (after_env e s) = sh_effects s.
Proof.
  revert s. induction e as [|[k v] e IH]; intros s; [reflexivity|].
  unfold after_env in *. cbn [fold_left]. rewrite IH. reflexivity.
Qed.
Lemma after_env_exported e s k : In k (sh_exported (after_env e s)) <-> In k (map fst e) \/ In k (sh_exported s).
Proof.
  revert s. induction e as [|[k1 v] e IH]; intros s; [simpl; tauto|].
  unfold after_env in *. cbn [fold_left map]. rewrite IH. simpl. tauto.
Qed.

Lemma map_fst_strip e : map fst (map (fun kv : bytes * bytes => (fst kv, strip_nl (snd kv))) e) = map fst e.
Proof. rewrite map_map. reflexivity. Qed.

Lemma after_env_spec e s :
  NoDup (map fst e) ->
  sh_effects (after_env e s) = sh_effects s /\
  (forall k v, In (k, v) e -> lookup k (sh_store (after_env e s)) = Some (strip_nl v) /\ In k (sh_exported (after_env e s))) /\
  (forall k, ~ In k (map fst e) ->
             lookup k (sh_store (after_env e s)) = lookup k (sh_store s) /\
             (In k (sh_exported (after_env e s)) <-> In k (sh_exported s))).
Proof.
  intro Hnd. split; [apply after_env_effects|]. split.
  - intros k v Hin. split.
    + rewrite after_env_store. apply lookup_put_all_in; [rewrite map_fst_strip; exact Hnd|].
      apply (in_map (fun kv => (fst kv, strip_nl (snd kv))) _ _ Hin).
    + apply after_env_exported. left. apply (in_map fst _ _ Hin).
  - intros k Hni. split.
    + rewrite after_env_store. apply lookup_put_all_other. rewrite map_fst_strip. exact Hni.
    + rewrite after_env_exported. tauto.
Qed.

(** * The two builders *)
Lemma ssh_script_run e tag entry s :
  tag_ok tag = true ->
  Forall (fun kv => valid_key (fst kv) = true) e ->
  Forall (fun kv => no_tag_line tag (snd kv) = true) e ->
  sh_run s (ssh_script e tag entry) = sh_run (after_env e s) (entry ++ [NL]).
Proof.
  intros Ht Hk Hv. unfold sh_run, ssh_script.
  rewrite (header_run (env_section true tag e ++ entry ++ [NL]) s).
  rewrite (env_section_run tag e (entry ++ [NL]) s Ht Hk Hv). reflexivity.
Qed.

Lemma dcmd_script_run e tag pub sec script s :
  tag_ok tag = true ->
  Forall (fun kv => valid_key (fst kv) = true) e ->
  Forall (fun kv => no_tag_line tag (snd kv) = true) e ->
  dcmd_script e tag pub sec = Ok script ->
  exists tail, cert_tail tag pub sec = Ok tail /\ sh_run s script = sh_run (after_env e s) tail.
Proof.
  intros Ht Hk Hv. unfold dcmd_script. destruct (cert_tail tag pub sec) as [t| |]; try discriminate.
  intro H. assert (Hs : script = HEADER ++ env_section true tag e ++ t) by congruence. clear H. subst script. exists t. split; [reflexivity|].
  unfold sh_run. rewrite (header_run (env_section true tag e ++ t) s).
  rewrite (env_section_run tag e t s Ht Hk Hv). reflexivity.
Qed.

(** Without an SSH certificate the dcmd script is header + environment section, and running it
    ends in exactly [after_env]. *)
Lemma sh_run_nil s : sh_run s [] = Done s.
Proof. reflexivity. Qed.

Theorem verbatim_ssh : forall (e : env) (draws : list bytes) (tag entry : bytes) (s : shst),
  Forall (fun kv => valid_key (fst kv) = true) e ->
  NoDup (map fst e) ->
  Forall (fun kv => no_nul (snd kv) = true) e ->
  Forall (fun t => go_tag t = true) draws ->
  new_eof_tag draws e = Some tag ->
  tag_fresh tag e = true /\
  sh_run s (ssh_script e tag entry) = sh_run (after_env e s) (entry ++ [NL]) /\
  sh_effects (after_env e s) = sh_effects s /\
  (forall k v, In (k, v) e -> lookup k (sh_store (after_env e s)) = Some (strip_nl v) /\ In k (sh_exported (after_env e s))) /\
  (forall k, ~ In k (map fst e) ->
             lookup k (sh_store (after_env e s)) = lookup k (sh_store s) /\
             (In k (sh_exported (after_env e s)) <-> In k (sh_exported s))).
Proof.
  intros e draws tag entry s Hk Hnd _ Hd Htag.
  destruct (new_eof_tag_fresh _ _ _ Htag) as [Hin Hf].
  assert (Ht : tag_ok tag = true) by (apply go_tag_ok; exact (proj1 (Forall_forall _ _) Hd _ Hin)).
  split; [exact Hf|]. split; [|apply after_env_spec; exact Hnd].
  apply ssh_script_run; [exact Ht|exact Hk|apply tag_fresh_no_tag_line; exact Hf].
Qed.

Theorem verbatim_dcmd : forall (e : env) (tag pub sec script : bytes) (s : shst),
  Forall (fun kv => valid_key (fst kv) = true) e ->
  NoDup (map fst e) ->
  Forall (fun kv => no_nul (snd kv) = true) e ->
  go_tag tag = true ->
  Forall (fun kv => no_tag_line tag (snd kv) = true) e ->
  dcmd_script e tag pub sec = Ok script ->
  (exists tail, cert_tail tag pub sec = Ok tail /\ sh_run s script = sh_run (after_env e s) tail) /\
  (is_nil pub && is_nil sec = true -> sh_run s script = Done (after_env e s)) /\
  sh_effects (after_env e s) = sh_effects s /\
  (forall k v, In (k, v) e -> lookup k (sh_store (after_env e s)) = Some (strip_nl v) /\ In k (sh_exported (after_env e s))) /\
  (forall k, ~ In k (map fst e) ->
             lookup k (sh_store (after_env e s)) = lookup k (sh_store s) /\
             (In k (sh_exported (after_env e s)) <-> In k (sh_exported s))).
Proof.
  intros e tag pub sec script s Hk Hnd _ Hg Hv Hs.
  pose proof (go_tag_ok _ Hg) as Ht.
  destruct (dcmd_script_run e tag pub sec script s Ht Hk Hv Hs) as (tail & Hc & Hr).
  split; [exists tail; auto|]. split; [|apply after_env_spec; exact Hnd].
  intro Hnil. unfold cert_tail in Hc. rewrite Hnil in Hc. inversion Hc; subst. rewrite Hr. reflexivity.
Qed.

(** C18_tag for values: the body of the quoted here-document is the value (plus its final
    newline), whenever no line of the value equals the tag ... *)
Theorem tag_roundtrip : forall k tag v rest s,
  tag_ok tag = true -> no_tag_line tag v = true ->
  run_lines (split_lines (v ++ NL :: tag ++ NL :: rest)) (InHere k tag true [], s)
  = run_lines (split_lines rest) (AfterHere k (v ++ [NL]), s).
Proof.
  intros k tag v rest s Ht Hv. destruct (heredoc_value k tag v rest s Hv) as [H|H]; [exact H|].
  destruct (tag_ok_chars _ Ht) as [_ Hc]. rewrite (name_chars_no_nl _ Hc) in H. discriminate.
Qed.

(** ... and a line equal to the tag is the only thing that ends the body early: then the body is
    what precedes that line and everything after it is executed inside the substitution. *)
Theorem tag_breakout : forall k tag pre post rest s,
  tag_ok tag = true -> no_tag_line tag pre = true ->
  run_lines (split_lines ((pre ++ NL :: tag ++ NL :: post) ++ NL :: tag ++ NL :: rest)) (InHere k tag true [], s)
  = run_lines (split_lines (post ++ NL :: tag ++ NL :: rest)) (AfterHere k (pre ++ [NL]), s).
Proof.
  intros k tag pre post rest s Ht Hv. rewrite <- app_assoc. cbn [app]. rewrite <- app_assoc. cbn [app].
  apply tag_roundtrip; assumption.
Qed.

(** * Witnesses (computed) *)
Definition TAGA : bytes := [69;79;70;65;65;65;65;65;65;65;65;65;65].           (* EOFAAAAAAAAAA *)
Definition KEY_A : bytes := [65].
Definition KEY_B : bytes := [66].
Definition HOME_K : bytes := [72;79;77;69].                                      (* HOME *)
Definition HOME_V : bytes := [47;118;101;114;105;102;45;104;111;109;101].        (* /verif-home *)
Definition V_DHOME : bytes := [36;72;79;77;69].                                  (* $HOME *)
Definition V_SUBST : bytes := [36;40;58;32;62;32;99;97;110;97;114;121;41].       (* $(: > canary) *)
Definition V_PWN : bytes := [58;32;62;32;99;97;110;97;114;121].                  (* : > canary *)
Definition sh0 : shst := mkSh [(HOME_K, HOME_V)] [] [].

(** dcmd.InitSequence does not compare its random tag with the values: a value with a line equal
    to the tag ends the here-document early and the rest of the value is executed. *)
Lemma collision_witness :
  let e := [(KEY_A, TAGA ++ NL :: V_PWN)] in
  go_tag TAGA = true /\
  Forall (fun kv => valid_key (fst kv) = true) e /\ NoDup (map fst e) /\
  Forall (fun kv => no_nul (snd kv) = true) e /\
  no_tag_line TAGA (TAGA ++ NL :: V_PWN) = false /\
  exists script s,
    dcmd_script e TAGA [] [] = Ok script /\ sh_run sh0 script = Done s /\
    In (Exec V_PWN) (sh_effects s) /\
    lookup KEY_A (sh_store s) = Some [] /\ strip_nl (TAGA ++ NL :: V_PWN) <> [].
Proof.
  cbv zeta. split; [vm_compute; reflexivity|].
  split; [repeat constructor|]. split; [repeat constructor; intros []|].
  split; [repeat constructor|]. split; [vm_compute; reflexivity|].
  eexists. eexists. split; [vm_compute; reflexivity|]. split; [vm_compute; reflexivity|].
  split; [left; reflexivity|]. split; [vm_compute; reflexivity|]. vm_compute. discriminate.
Qed.

(** The sshsb builder before the repair (delimiter not quoted): the remote shell expands $HOME and
    runs $(..) found in values, although the tag is fresh for the values. *)
Lemma unquoted_witness :
  let e := [(KEY_A, V_DHOME); (KEY_B, V_SUBST)] in
  Forall (fun kv => valid_key (fst kv) = true) e /\ NoDup (map fst e) /\
  Forall (fun kv => no_nul (snd kv) = true) e /\
  new_eof_tag [TAGA] e = Some TAGA /\
  exists s,
    sh_run sh0 (ssh_script_old e TAGA []) = Done s /\
    lookup KEY_A (sh_store s) = Some HOME_V /\ strip_nl V_DHOME <> HOME_V /\
    In (Exec V_PWN) (sh_effects s) /\
    lookup KEY_B (sh_store s) = Some [] /\ strip_nl V_SUBST <> [].
Proof.
  cbv zeta. split; [repeat constructor|].
  split; [repeat constructor; [intros [H|[]]; discriminate H|intros []]|].
  split; [repeat constructor|]. split; [vm_compute; reflexivity|].
  eexists. split; [vm_compute; reflexivity|].
  split; [vm_compute; reflexivity|]. split; [vm_compute; discriminate|].
  split; [left; reflexivity|]. split; [vm_compute; reflexivity|]. vm_compute. discriminate.
Qed.

(** The same environment through the repaired builder: verbatim (instance of [verbatim_ssh]). *)
Lemma quoted_example :
  let e := [(KEY_A, V_DHOME); (KEY_B, V_SUBST)] in
  exists s, sh_run sh0 (ssh_script e TAGA []) = Done s /\
            lookup KEY_A (sh_store s) = Some V_DHOME /\ lookup KEY_B (sh_store s) = Some V_SUBST /\
            existsb is_exec (sh_effects s) = false.
Proof. cbv zeta. eexists. split; [vm_compute; reflexivity|]. repeat split. Qed.

Lemma assignment_word k tag s :
  valid_key k = true -> tag_ok tag = true ->
  step_top s (k ++ EQS :: CAT_OPEN ++ delim_word true tag) = (InHere k tag true [], s).
Proof. intros Hk Ht. apply step_top_assign; [apply valid_key_is_name; exact Hk|exact Ht]. Qed.
