(** Proofs about Model/Data.v (C13). *)
From Coq Require Import Lia ZifyBool ZifyNat ZifyN.
From GC Require Import Common.Base Model.Data.
From GC Require Model.Locks Proofs.Locks.

Notation set_nth := GC.Model.Locks.set_nth.
Notation sumf := GC.Proofs.Locks.sumf.

(** * Maps and chains *)

Lemma lookup_dset_eq k v m : lookup k (dset k v m) = Some v.
Proof.
  induction m as [|[k' v'] m IH]; cbn; [rewrite N.eqb_refl; reflexivity|].
  destruct (N.eqb k k') eqn:E; cbn; rewrite ?N.eqb_refl, ?E; auto.
Qed.

Lemma lookup_dset_neq k k' v m : k <> k' -> lookup k' (dset k v m) = lookup k' m.
Proof.
  intro N. induction m as [|[k2 v2] m IH]; cbn.
  - destruct (N.eqb k' k) eqn:E; auto. apply N.eqb_eq in E. congruence.
  - destruct (N.eqb k k2) eqn:E; cbn.
    + apply N.eqb_eq in E. subst k2. destruct (N.eqb k' k) eqn:E2; auto.
      apply N.eqb_eq in E2. congruence.
    + destruct (N.eqb k' k2); auto.
Qed.

Lemma skipn_nth {A} (l : list A) : forall j a,
  nth_error l j = Some a -> skipn j l = a :: skipn (S j) l.
Proof.
  induction l as [|b l IH]; intros [|j] a H; cbn in *; try discriminate.
  - inversion H; reflexivity.
  - apply IH. exact H.
Qed.

Lemma value_at_unfold st j k m :
  nth_error st j = Some m ->
  value_at st j k = match lookup k m with Some v => v | None => value_at st (S j) k end.
Proof. intro H. unfold value_at. rewrite (skipn_nth _ _ _ H). reflexivity. Qed.

Lemma value_at_none st j k : nth_error st j = None -> value_at st j k = 0.
Proof.
  intro H. unfold value_at. rewrite skipn_all2; [reflexivity|]. apply nth_error_None. exact H.
Qed.

Lemma set_at_length st : forall j k v, length (set_at st j k v) = length st.
Proof. induction st as [|m st IH]; intros [|j] k v; cbn; auto. Qed.

Lemma skipn_set_at_gt st : forall i j k v, (j < i)%nat -> skipn i (set_at st j k v) = skipn i st.
Proof.
  induction st as [|m st IH]; intros [|i] [|j] k v H; cbn; auto; try lia.
  apply IH. lia.
Qed.

Lemma nth_error_set_at_neq st : forall i j k v,
  i <> j -> nth_error (set_at st j k v) i = nth_error st i.
Proof.
  induction st as [|m st IH]; intros [|i] [|j] k v H; cbn; auto; try congruence.
Qed.

Lemma nth_error_set_at_eq st : forall j k v m,
  nth_error st j = Some m -> nth_error (set_at st j k v) j = Some (dset k v m).
Proof.
  induction st as [|m0 st IH]; intros [|j] k v m H; cbn in *; try discriminate.
  - inversion H; reflexivity.
  - apply IH. exact H.
Qed.

Lemma value_at_set_same st j k v : (j < length st)%nat -> value_at (set_at st j k v) j k = v.
Proof.
  intro H. destruct (nth_error st j) as [m|] eqn:E; [|apply nth_error_None in E; lia].
  rewrite (value_at_unfold _ _ _ _ (nth_error_set_at_eq _ _ k v _ E)), lookup_dset_eq. reflexivity.
Qed.

Lemma value_at_set_other_key st j k v k' :
  k <> k' -> value_at (set_at st j k v) j k' = value_at st j k'.
Proof.
  intro N. destruct (nth_error st j) as [m|] eqn:E.
  - rewrite (value_at_unfold _ _ _ _ (nth_error_set_at_eq _ _ k v _ E)), (value_at_unfold _ _ _ _ E).
    rewrite lookup_dset_neq by exact N. unfold value_at. rewrite skipn_set_at_gt by lia. reflexivity.
  - rewrite !value_at_none; auto. apply nth_error_None. rewrite set_at_length.
    apply nth_error_None. exact E.
Qed.

Lemma value_at_set_ancestor st i j k v k' :
  (j < i)%nat -> value_at (set_at st j k v) i k' = value_at st i k'.
Proof. intro H. unfold value_at. rewrite skipn_set_at_gt by exact H. reflexivity. Qed.

Lemma keys_at_set_other st i j k v : i <> j -> keys_at (set_at st j k v) i = keys_at st i.
Proof.
  intro H. unfold keys_at. f_equal.
  pose proof (nth_error_set_at_neq st i j k v H) as E.
  destruct (nth_error st i) as [m|] eqn:E1.
  - rewrite (nth_error_nth _ _ _ E), (nth_error_nth _ _ _ E1). reflexivity.
  - rewrite !nth_overflow; auto; apply nth_error_None; auto.
Qed.

(** a child that has no own binding sees what its parent currently has, also right after the
    parent was written *)
Lemma child_sees_parent_write st j k v m :
  nth_error st j = Some m -> lookup k m = None -> (S j < length st)%nat ->
  value_at (set_at st (S j) k v) j k = v.
Proof.
  intros H L Hl.
  assert (E : nth_error (set_at st (S j) k v) j = Some m) by (rewrite nth_error_set_at_neq; auto).
  rewrite (value_at_unfold _ _ _ _ E), L. apply value_at_set_same. exact Hl.
Qed.

(** * Concurrent model: ownership invariant *)

Lemma read_level_held st l k t rest : held (read_level st l k t rest) = held t.
Proof.
  unfold read_level. destruct (nth_error st l); [|reflexivity]. destruct (lookup k d); reflexivity.
Qed.

Lemma tstep_own me st ow t st' ow' t' :
  tstep me st ow t = Some (st', ow', t') ->
  (ow' = ow /\ held t' = held t) \/
  (exists j, held t = None /\ ow j = None /\ ow' = oupd ow j (Some me) /\ held t' = Some j) \/
  (exists j, held t = Some j /\ ow' = oupd ow j None /\ held t' = None).
Proof.
  unfold tstep. destruct (prog t) as [|[j k|j k v|j k d|j k v|j|k|k v|k d|k v|] rest]; intro H;
    try discriminate.
  - destruct (free ow _); inversion H; subst. left. split; auto. apply read_level_held.
  - destruct (free ow j); inversion H; subst. left; auto.
  - destruct (free ow j); inversion H; subst. left; auto.
  - destruct (N.eqb (reg t) 0); [destruct (free ow j)|]; inversion H; subst; left; auto.
  - destruct (held t) eqn:Eh; [discriminate|]. unfold free in H.
    destruct (ow j) eqn:Eo; inversion H; subst. right. left. exists j. auto.
  - destruct (held t) as [j|] eqn:Eh; [|discriminate].
    destruct (_ || _); inversion H; subst. left. split; auto. rewrite read_level_held. auto.
  - destruct (held t) as [j|] eqn:Eh; inversion H; subst. left; auto.
  - destruct (held t) as [j|] eqn:Eh; inversion H; subst. left; auto.
  - destruct (held t) as [j|] eqn:Eh; [|discriminate].
    destruct (N.eqb (reg t) 0); inversion H; subst; left; auto.
  - destruct (held t) as [j|] eqn:Eh; inversion H; subst. right. right. exists j. auto.
Qed.

(** what a step can do to the maps: nothing, or one write at a level that the thread has locked
    or that is free *)
Lemma tstep_maps me st ow t st' ow' t' :
  tstep me st ow t = Some (st', ow', t') ->
  st' = st \/ exists j k v, st' = set_at st j k v /\ (held t = Some j \/ ow j = None).
Proof.
  unfold tstep. destruct (prog t) as [|[j k|j k v|j k d|j k v|j|k|k v|k d|k v|] rest]; intro H;
    try discriminate.
  - destruct (free ow _); inversion H; subst. left; auto.
  - unfold free in H. destruct (ow j) eqn:Eo; inversion H; subst. right. eauto 6.
  - unfold free in H. destruct (ow j) eqn:Eo; inversion H; subst. right. eauto 6.
  - unfold free in H. destruct (N.eqb (reg t) 0); [destruct (ow j) eqn:Eo|]; inversion H; subst;
      [right; eauto 6|left; auto].
  - destruct (held t); [discriminate|]. destruct (free ow j); inversion H; subst. left; auto.
  - destruct (held t) as [j|]; [|discriminate]. destruct (_ || _); inversion H; subst. left; auto.
  - destruct (held t) as [j|] eqn:Eh; inversion H; subst. right. eauto 6.
  - destruct (held t) as [j|] eqn:Eh; inversion H; subst. right. eauto 6.
  - destruct (held t) as [j|] eqn:Eh; [|discriminate].
    destruct (N.eqb (reg t) 0); inversion H; subst; [right; eauto 6|left; auto].
  - destruct (held t) as [j|]; inversion H; subst. left; auto.
Qed.

Definition Inv_own (s : cstate) : Prop :=
  (forall i t j, nth_error (ths s) i = Some t -> held t = Some j -> own s j = Some i) /\
  (forall j i, own s j = Some i -> exists t, nth_error (ths s) i = Some t /\ held t = Some j).

Lemma Inv_own_init st progs : Inv_own (init st progs).
Proof.
  split; cbn.
  - intros i t j H Hh. rewrite nth_error_map in H. destruct (nth_error progs i); cbn in H; [|discriminate].
    inversion H; subst. discriminate.
  - intros; discriminate.
Qed.

Lemma step_inv i s s' t :
  step i s = Some s' -> nth_error (ths s) i = Some t ->
  exists st' ow' t', tstep i (maps s) (own s) t = Some (st', ow', t') /\
                     s' = mkC st' ow' (set_nth i t' (ths s)).
Proof.
  intros H Ht. unfold step in H. rewrite Ht in H.
  destruct (tstep i (maps s) (own s) t) as [[[st' ow'] t']|]; [|discriminate].
  inversion H; subst. eauto.
Qed.

Lemma step_some_thread i s s' : step i s = Some s' -> exists t, nth_error (ths s) i = Some t.
Proof. unfold step. destruct (nth_error (ths s) i); [eauto|discriminate]. Qed.

Lemma step_Inv_own i s s' : Inv_own s -> step i s = Some s' -> Inv_own s'.
Proof.
  intros [A B] Hs. destruct (step_some_thread _ _ _ Hs) as [t Ht].
  destruct (step_inv _ _ _ _ Hs Ht) as (st' & ow' & t' & Hts & ->).
  pose proof (Locks.nth_error_lt _ _ _ Ht) as Hlt.
  destruct (tstep_own _ _ _ _ _ _ _ Hts) as [[-> Hh]|[(j & Hn & Hf & -> & Hh)|(j & Hj & -> & Hh)]];
    split; cbn [ths own]; intros.
  - destruct (Nat.eq_dec i i0) as [<-|N].
    + rewrite Locks.nth_set_nth_eq in H by exact Hlt. inversion H; subst. rewrite Hh in H0. eauto.
    + rewrite Locks.nth_set_nth_neq in H by exact N. eauto.
  - destruct (B _ _ H) as (u & Hu & Hhu). destruct (Nat.eq_dec i i0) as [<-|N].
    + exists t'. rewrite Locks.nth_set_nth_eq by exact Hlt. split; auto. rewrite Hh. congruence.
    + exists u. rewrite Locks.nth_set_nth_neq by exact N. auto.
  - unfold oupd. destruct (Nat.eq_dec i i0) as [<-|N].
    + rewrite Locks.nth_set_nth_eq in H by exact Hlt. inversion H; subst. rewrite Hh in H0.
      inversion H0; subst. rewrite Nat.eqb_refl. reflexivity.
    + rewrite Locks.nth_set_nth_neq in H by exact N. pose proof (A _ _ _ H H0) as Ho.
      destruct (Nat.eqb j0 j) eqn:E; auto. apply Nat.eqb_eq in E. subst. congruence.
  - unfold oupd in H. destruct (Nat.eqb j0 j) eqn:E.
    + inversion H; subst. apply Nat.eqb_eq in E. subst. exists t'.
      rewrite Locks.nth_set_nth_eq by exact Hlt. auto.
    + destruct (B _ _ H) as (u & Hu & Hhu). destruct (Nat.eq_dec i i0) as [<-|N].
      * rewrite Ht in Hu. inversion Hu; subst. congruence.
      * exists u. rewrite Locks.nth_set_nth_neq by exact N. auto.
  - unfold oupd. destruct (Nat.eq_dec i i0) as [<-|N].
    + rewrite Locks.nth_set_nth_eq in H by exact Hlt. inversion H; subst. congruence.
    + rewrite Locks.nth_set_nth_neq in H by exact N. pose proof (A _ _ _ H H0) as Ho.
      destruct (Nat.eqb j0 j) eqn:E; auto. apply Nat.eqb_eq in E. subst.
      pose proof (A _ _ _ Ht Hj). congruence.
  - unfold oupd in H. destruct (Nat.eqb j0 j) eqn:E; [discriminate|].
    destruct (B _ _ H) as (u & Hu & Hhu). destruct (Nat.eq_dec i i0) as [<-|N].
    + rewrite Ht in Hu. inversion Hu; subst. rewrite Hj in Hhu. inversion Hhu; subst.
      rewrite Nat.eqb_refl in E. discriminate.
    + exists u. rewrite Locks.nth_set_nth_neq by exact N. auto.
Qed.

Lemma run_inv (P : cstate -> Prop) :
  (forall i s s', P s -> step i s = Some s' -> P s') ->
  forall sched s, P s -> P (run sched s).
Proof.
  intros Hstep sched; induction sched as [|i r IH]; intros s Hs; cbn; auto.
  destruct (step i s) eqn:E; apply IH; eauto.
Qed.

(** * Exclusive access between LockData and Commit *)

(** a step that goes through the mutex of a locked scope is disabled (whoever tries) *)
Lemma locked_blocks s u th j o :
  own s j = Some o -> nth_error (ths s) u = Some th -> touches th = Some j -> step u s = None.
Proof.
  intros Ho Hu Ht. unfold step. rewrite Hu.
  assert (F : free (own s) j = false) by (unfold free; rewrite Ho; reflexivity).
  unfold touches in Ht. unfold tstep.
  destruct (prog th) as [|[j' k|j' k v|j' k d|j' k v|j'|k|k v|k d|k v|] rest]; try discriminate.
  - inversion Ht; subst. rewrite F. reflexivity.
  - inversion Ht; subst. rewrite F. reflexivity.
  - inversion Ht; subst. rewrite F. reflexivity.
  - destruct (N.eqb (reg th) 0); [|discriminate]. inversion Ht; subst. rewrite F. reflexivity.
  - inversion Ht; subst. rewrite F. destruct (held th); reflexivity.
  - destruct (held th) as [h|]; [|reflexivity]. destruct (walk th) as [l|]; [|discriminate].
    destruct (Nat.eqb l h) eqn:E; [discriminate|]. inversion Ht; subst. cbn. rewrite F. reflexivity.
Qed.

(** while [o] holds the lock of scope [j], steps of other threads leave scope [j]'s map and the
    ownership of [j] untouched *)
Lemma others_leave_locked_scope s s' u j o :
  Inv_own s -> own s j = Some o -> u <> o -> step u s = Some s' ->
  nth_error (maps s') j = nth_error (maps s) j /\ own s' j = Some o.
Proof.
  intros [A B] Ho N Hs. destruct (step_some_thread _ _ _ Hs) as [t Ht].
  destruct (step_inv _ _ _ _ Hs Ht) as (st' & ow' & t' & Hts & ->). cbn [maps own].
  split.
  - destruct (tstep_maps _ _ _ _ _ _ _ Hts) as [->|(j' & k & v & -> & Hj')]; auto.
    apply nth_error_set_at_neq. intros <-. destruct Hj' as [Hh|Hf]; [|congruence].
    pose proof (A _ _ _ Ht Hh). congruence.
  - destruct (tstep_own _ _ _ _ _ _ _ Hts) as [[-> _]|[(j' & _ & Hf & -> & _)|(j' & Hj' & -> & _)]]; auto;
      unfold oupd; destruct (Nat.eqb j j') eqn:E; auto; apply Nat.eqb_eq in E; subst j'.
    + congruence.
    + pose proof (A _ _ _ Ht Hj'). congruence.
Qed.

Lemma reach_Inv_own st progs sched : Inv_own (run sched (init st progs)).
Proof. apply run_inv; [intros; eapply step_Inv_own; eauto|apply Inv_own_init]. Qed.

(** * Shared helpers for the two locked idioms *)

Lemma sumf_all_one {A} (f : A -> nat) l : (forall t, In t l -> f t = 1%nat) -> sumf f l = length l.
Proof.
  induction l as [|a l IH]; cbn; intro H; auto. rewrite (H a), IH; auto.
Qed.

Lemma set_nth_cases {A} (P : A -> Prop) i (t' : A) l :
  (forall u tu, u <> i -> nth_error l u = Some tu -> P tu) -> P t' ->
  forall u tu, nth_error (set_nth i t' l) u = Some tu -> P tu.
Proof.
  intros Ho Hn u tu H. destruct (Nat.eq_dec i u) as [<-|N].
  - destruct (Nat.lt_ge_cases i (length l)) as [L|L].
    + rewrite Locks.nth_set_nth_eq in H by exact L. inversion H; subst; auto.
    + assert (nth_error (set_nth i t' l) i = None).
      { apply nth_error_None. rewrite Locks.set_nth_length. exact L. }
      congruence.
  - rewrite Locks.nth_set_nth_neq in H by exact N. eapply Ho; eauto.
Qed.

Lemma all_done_spec s : all_done s = true <-> forall i t, nth_error (ths s) i = Some t -> prog t = [].
Proof.
  unfold all_done. rewrite forallb_forall. split.
  - intros H i t Ht. apply nth_error_In in Ht. apply H in Ht. unfold done in Ht.
    destruct (prog t); [reflexivity|discriminate].
  - intros H t Ht. apply In_nth_error in Ht as [i Hi]. unfold done. rewrite (H _ _ Hi). reflexivity.
Qed.

(** the read of the locker, one level: the walk keeps "what is left to look at gives the answer" *)
Lemma read_level_walk st j l k t rest :
  (j < length st)%nat ->
  (l = j \/ ((j < l)%nat /\ value_at st l k = value_at st j k)) ->
  let t' := read_level st l k t rest in
  held t' = held t /\
  ((prog t' = rest /\ walk t' = None /\ reg t' = value_at st j k) \/
   (prog t' = prog t /\ reg t' = reg t /\ walk t' = Some (S l) /\ (j < S l)%nat /\
    value_at st (S l) k = value_at st j k)).
Proof.
  intros Hj Hl t'. split; [apply read_level_held|].
  assert (E : value_at st l k = value_at st j k) by (destruct Hl as [->|[_ ?]]; auto).
  assert (L : (j <= l)%nat) by (destruct Hl as [->|[? _]]; lia).
  subst t'. unfold read_level. destruct (nth_error st l) as [m|] eqn:En.
  - rewrite (value_at_unfold _ _ _ _ En) in E. destruct (lookup k m) as [v|]; cbn.
    + left. auto.
    + right. repeat split; auto. lia.
  - left. cbn. rewrite (value_at_none _ _ _ En) in E. auto.
Qed.

(** * Read-modify-write under the lock is never lost *)
Section Counter.
  Variables (st0 : chain) (j : nat) (k : N) (n : nat).
  Hypothesis Hj : (j < length st0)%nat.

  Definition walk_ok (st : chain) (t : thread) : Prop :=
    walk t = None \/ exists l, walk t = Some l /\ (j < l)%nat /\ value_at st l k = value_at st j k.

  Definition cphase (st : chain) (t : thread) : Prop :=
    (prog t = counter_prog j k /\ held t = None /\ walk t = None) \/
    (prog t = [OLRead k; OLAdd k 1; OCommit] /\ held t = Some j /\ walk_ok st t) \/
    (prog t = [OLAdd k 1; OCommit] /\ held t = Some j /\ reg t = value_at st j k) \/
    (prog t = [OCommit] /\ held t = Some j) \/
    (prog t = [] /\ held t = None).

  Definition ccnt (t : thread) : nat :=
    match prog t with [] => 1 | [OCommit] => 1 | _ => 0 end.

  Definition Inv_c (s : cstate) : Prop :=
    Inv_own s /\ length (maps s) = length st0 /\ length (ths s) = n /\
    (forall l, l <> j -> own s l = None) /\
    value_at (maps s) j k = value_at st0 j k + N.of_nat (sumf ccnt (ths s)) /\
    (forall i t, nth_error (ths s) i = Some t -> cphase (maps s) t).

  Lemma cphase_unlocked st st' t : held t = None -> cphase st t -> cphase st' t.
  Proof.
    intros Hh [H|[(_ & H & _)|[(_ & H & _)|[(_ & H)|H]]]]; try congruence.
    - left; auto.
    - right; right; right; right; auto.
  Qed.

  Lemma Inv_c_init : Inv_c (counter_sys st0 j k n).
  Proof.
    unfold counter_sys. split; [apply Inv_own_init|]. cbn.
    repeat split; auto.
    - rewrite map_length, repeat_length. reflexivity.
    - assert (E : sumf ccnt (map (fun p => mkThread p 0 None None) (repeat (counter_prog j k) n)) = 0%nat).
      { apply Locks.sumf_zero. intros t Ht. apply in_map_iff in Ht as (p & <- & Hp).
        apply repeat_spec in Hp. subst. reflexivity. }
      rewrite E. cbn. lia.
    - intros i t Ht. rewrite nth_error_map in Ht.
      destruct (nth_error (repeat (counter_prog j k) n) i) as [p|] eqn:E; [|discriminate].
      apply nth_error_In, repeat_spec in E. subst. inversion Ht; subst. left. auto.
  Qed.

  Lemma step_Inv_c i s s' : Inv_c s -> step i s = Some s' -> Inv_c s'.
  Proof.
    intros (IO & Hl & Hn & Hfree & Hv & Hph) Hs.
    pose proof (step_Inv_own _ _ _ IO Hs) as IO'.
    destruct (step_some_thread _ _ _ Hs) as [t Ht].
    destruct (step_inv _ _ _ _ Hs Ht) as (st' & ow' & t' & Hts & ->).
    pose proof (Locks.sumf_set_nth ccnt _ _ _ t' Ht) as Hsum.
    split; [exact IO'|]. cbn [maps own ths] in *. rewrite Locks.set_nth_length.
    destruct (Hph _ _ Ht) as [(Ep & Eh & Ew)|[(Ep & Eh & Ew)|[(Ep & Eh & Er)|[(Ep & Eh)|(Ep & Eh)]]]];
      unfold tstep in Hts; rewrite Ep in Hts; cbn [counter_prog] in Hts; rewrite ?Eh in Hts.
    - (* LockData *)
      destruct (free (own s) j) eqn:F; inversion Hts; subst; clear Hts.
      assert (C : ccnt t = 0%nat /\ ccnt (mkThread [OLRead k; OLAdd k 1; OCommit] (reg t) (Some j) None) = 0%nat)
        by (unfold ccnt; rewrite Ep; auto).
      repeat split; auto.
      + intros l Hne. unfold oupd. destruct (Nat.eqb l j) eqn:E; auto. apply Nat.eqb_eq in E. lia.
      + lia.
      + apply set_nth_cases; [intros; eapply Hph; eauto|]. right; left. cbn. unfold walk_ok. auto.
    - (* locker.Value, one level *)
      set (l := match walk t with Some l => l | None => j end) in *.
      destruct (Nat.eqb l j || free (own s) l); inversion Hts; subst st' ow' t'; clear Hts.
      assert (Hlev : l = j \/ ((j < l)%nat /\ value_at (maps s) l k = value_at (maps s) j k)).
      { subst l. destruct Ew as [->|(l' & -> & A & B)]; auto. }
      destruct (read_level_walk (maps s) j l k t [OLAdd k 1; OCommit] (ltac:(lia)) Hlev) as (Hh & Hr).
      set (t' := read_level (maps s) l k t [OLAdd k 1; OCommit]) in *.
      assert (C : ccnt t = 0%nat /\ ccnt t' = 0%nat).
      { unfold ccnt. rewrite Ep. destruct Hr as [(-> & _)|(-> & _)]; rewrite ?Ep; auto. }
      repeat split; auto; [lia|].
      apply set_nth_cases; [intros; eapply Hph; eauto|].
      destruct Hr as [(P & W & R)|(P & R & W & L & V)].
      + right; right; left. rewrite Hh. auto.
      + right; left. rewrite P, Hh. repeat split; auto. right. eauto.
    - (* locker.SetValue(k, reg + 1) *)
      inversion Hts; subst; clear Hts.
      assert (C : ccnt t = 0%nat /\ ccnt (mkThread [OCommit] (reg t) (Some j) None) = 1%nat)
        by (unfold ccnt; rewrite Ep; auto).
      repeat split; auto.
      + rewrite set_at_length. exact Hl.
      + rewrite value_at_set_same by lia. lia.
      + apply set_nth_cases; [|right; right; right; left; auto].
        intros u tu Hne Hu. eapply cphase_unlocked; [|eapply Hph; eauto].
        destruct (held tu) as [h|] eqn:Ehu; auto. exfalso.
        destruct IO as [A _]. pose proof (A _ _ _ Hu Ehu) as O1. pose proof (A _ _ _ Ht Eh) as O2.
        destruct (Nat.eq_dec h j) as [->|Nh]; [congruence|]. rewrite (Hfree _ Nh) in O1. discriminate.
    - (* Commit *)
      inversion Hts; subst; clear Hts.
      assert (C : ccnt t = 1%nat /\ ccnt (mkThread [] (reg t) None None) = 1%nat)
        by (unfold ccnt; rewrite Ep; auto).
      repeat split; auto.
      + intros l Hne. unfold oupd. destruct (Nat.eqb l j); auto.
      + lia.
      + apply set_nth_cases; [intros; eapply Hph; eauto|]. right; right; right; right. auto.
    - discriminate.
  Qed.

  Lemma reach_Inv_c sched : Inv_c (run sched (counter_sys st0 j k n)).
  Proof. apply run_inv; [intros; eapply step_Inv_c; eauto|apply Inv_c_init]. Qed.

  Theorem rmw_final sched :
    let s := run sched (counter_sys st0 j k n) in
    all_done s = true -> value_at (maps s) j k = value_at st0 j k + N.of_nat n.
  Proof.
    intros s Hd. destruct (reach_Inv_c sched) as (_ & _ & Hn & _ & Hv & _). fold s in Hn, Hv.
    rewrite Hv. f_equal. f_equal. rewrite <- Hn. apply sumf_all_one.
    intros t Ht. apply In_nth_error in Ht as [i Hi]. rewrite all_done_spec in Hd.
    unfold ccnt. rewrite (Hd _ _ Hi). reflexivity.
  Qed.

  (** at every moment the counter equals the initial value plus the number of sections whose
      write has been performed: no update is ever lost, also half-way *)
  Theorem rmw_progress_count sched :
    let s := run sched (counter_sys st0 j k n) in
    value_at (maps s) j k = value_at st0 j k + N.of_nat (sumf ccnt (ths s)).
  Proof. intro s. destruct (reach_Inv_c sched) as (_ & _ & _ & _ & Hv & _). exact Hv. Qed.

  Theorem rmw_no_deadlock sched :
    let s := run sched (counter_sys st0 j k n) in
    all_done s = false -> exists i, step i s <> None.
  Proof.
    intros s Hd. destruct (reach_Inv_c sched) as ((A & B) & _ & _ & Hfree & _ & Hph). fold s in A, B, Hfree, Hph.
    destruct (own s j) as [o|] eqn:Eo.
    - destruct (B _ _ Eo) as (t & Ht & Hh). exists o. unfold step. rewrite Ht.
      destruct (Hph _ _ Ht) as [(Ep & Eh & Ew)|[(Ep & Eh & Ew)|[(Ep & Eh & Er)|[(Ep & Eh)|(Ep & Eh)]]]];
        try congruence; unfold tstep; rewrite Ep, Eh; cbn; try discriminate.
      destruct Ew as [->|(l & -> & Hl & _)].
      + rewrite Nat.eqb_refl. cbn. discriminate.
      + unfold free. rewrite (Hfree l) by lia. rewrite orb_true_r. discriminate.
    - unfold all_done in Hd. destruct (Locks.forallb_false_nth _ _ Hd) as (i & t & Ht & Hnd).
      exists i. unfold step. rewrite Ht.
      destruct (Hph _ _ Ht) as [(Ep & Eh & Ew)|[(Ep & Eh & Ew)|[(Ep & Eh & Er)|[(Ep & Eh)|(Ep & Eh)]]]].
      + unfold tstep. rewrite Ep, Eh. cbn. unfold free. rewrite Eo. discriminate.
      + pose proof (A _ _ _ Ht Eh). congruence.
      + pose proof (A _ _ _ Ht Eh). congruence.
      + pose proof (A _ _ _ Ht Eh). congruence.
      + unfold done in Hnd. rewrite Ep in Hnd. discriminate.
  Qed.
End Counter.

(** * Get-or-create under the lock yields one instance *)
Section Goc.
  Variables (st0 : chain) (j : nat) (k : N) (vs : list N).
  Hypothesis Hj : (j < length st0)%nat.
  Hypothesis Hvs : Forall (fun v => v <> 0) vs.

  Definition gphase (st : chain) (t : thread) : Prop :=
    exists v, v <> 0 /\
    ((prog t = goc_prog j k v /\ held t = None /\ walk t = None) \/
     (prog t = [OLRead k; OLInit k v; OCommit] /\ held t = Some j /\ walk_ok j k st t) \/
     (prog t = [OLInit k v; OCommit] /\ held t = Some j /\ reg t = value_at st j k) \/
     (prog t = [OCommit] /\ held t = Some j /\ reg t = value_at st j k /\ reg t <> 0) \/
     (prog t = [] /\ held t = None /\ reg t = value_at st j k /\ reg t <> 0)).

  Definition Inv_g (s : cstate) : Prop :=
    Inv_own s /\ length (maps s) = length st0 /\
    (forall l, l <> j -> own s l = None) /\
    (forall i t, nth_error (ths s) i = Some t -> gphase (maps s) t).

  Lemma Inv_g_init : Inv_g (goc_sys st0 j k vs).
  Proof.
    unfold goc_sys. split; [apply Inv_own_init|]. cbn. repeat split; auto.
    intros i t Ht. rewrite !nth_error_map in Ht.
    destruct (nth_error vs i) as [v|] eqn:E; [|discriminate]. cbn in Ht. inversion Ht; subst.
    exists v. split; [|left; auto]. rewrite Forall_forall in Hvs. apply Hvs. eapply nth_error_In; eauto.
  Qed.

  Lemma step_Inv_g i s s' : Inv_g s -> step i s = Some s' -> Inv_g s'.
  Proof.
    intros (IO & Hl & Hfree & Hph) Hs.
    pose proof (step_Inv_own _ _ _ IO Hs) as IO'.
    destruct (step_some_thread _ _ _ Hs) as [t Ht].
    destruct (step_inv _ _ _ _ Hs Ht) as (st' & ow' & t' & Hts & ->).
    split; [exact IO'|]. cbn [maps own ths] in *.
    destruct (Hph _ _ Ht) as (v & Hv & [(Ep & Eh & Ew)|[(Ep & Eh & Ew)|[(Ep & Eh & Er)|[(Ep & Eh & Er)|(Ep & Eh & Er)]]]]);
      unfold tstep in Hts; rewrite Ep in Hts; cbn [goc_prog] in Hts; rewrite ?Eh in Hts.
    - destruct (free (own s) j) eqn:F; inversion Hts; subst; clear Hts.
      repeat split; auto.
      + intros l Hne. unfold oupd. destruct (Nat.eqb l j) eqn:E; auto. apply Nat.eqb_eq in E. lia.
      + apply set_nth_cases; [intros; eapply Hph; eauto|]. exists v. split; auto.
        right; left. cbn. unfold walk_ok. auto.
    - set (l := match walk t with Some l => l | None => j end) in *.
      destruct (Nat.eqb l j || free (own s) l); inversion Hts; subst st' ow' t'; clear Hts.
      assert (Hlev : l = j \/ ((j < l)%nat /\ value_at (maps s) l k = value_at (maps s) j k)).
      { subst l. destruct Ew as [->|(l' & -> & A & B)]; auto. }
      destruct (read_level_walk (maps s) j l k t [OLInit k v; OCommit] (ltac:(lia)) Hlev) as (Hh & Hr).
      repeat split; auto.
      apply set_nth_cases; [intros; eapply Hph; eauto|]. exists v. split; auto.
      destruct Hr as [(P & W & R)|(P & R & W & L & V)].
      + right; right; left. rewrite Hh. auto.
      + right; left. rewrite P, Hh. repeat split; auto. right. eauto.
    - assert (Hothers : forall u tu, u <> i -> nth_error (ths s) u = Some tu -> held tu = None).
      { intros u tu Hne Hu. destruct (held tu) as [h|] eqn:Ehu; auto. exfalso.
        destruct IO as [A _]. pose proof (A _ _ _ Hu Ehu) as O1. pose proof (A _ _ _ Ht Eh) as O2.
        destruct (Nat.eq_dec h j) as [->|Nh]; [congruence|]. rewrite (Hfree _ Nh) in O1. discriminate. }
      destruct (N.eqb (reg t) 0) eqn:E0; inversion Hts; subst; clear Hts.
      + apply N.eqb_eq in E0. repeat split; auto; [rewrite set_at_length; exact Hl|].
        apply set_nth_cases.
        * intros u tu Hne Hu. pose proof (Hothers _ _ Hne Hu) as Hhu.
          destruct (Hph _ _ Hu) as (w & Hw & [(P & H & W)|[(P & H & _)|[(P & H & _)|[(P & H & _)|(P & H & R & Rn)]]]]);
            try congruence.
          exists w. split; auto.
        * exists v. split; auto. right; right; right; left. cbn.
          rewrite value_at_set_same by lia. auto.
      + apply N.eqb_neq in E0. repeat split; auto.
        apply set_nth_cases; [intros; eapply Hph; eauto|].
        exists v. split; auto. right; right; right; left. cbn. auto.
    - inversion Hts; subst; clear Hts. repeat split; auto.
      + intros l Hne. unfold oupd. destruct (Nat.eqb l j); auto.
      + apply set_nth_cases; [intros; eapply Hph; eauto|]. exists v. split; auto.
        right; right; right; right. cbn. auto.
    - discriminate.
  Qed.

  Lemma reach_Inv_g sched : Inv_g (run sched (goc_sys st0 j k vs)).
  Proof. apply run_inv; [intros; eapply step_Inv_g; eauto|apply Inv_g_init]. Qed.

  Theorem goc_one_instance sched a b ta tb :
    let s := run sched (goc_sys st0 j k vs) in
    nth_error (ths s) a = Some ta -> prog ta = [] ->
    nth_error (ths s) b = Some tb -> prog tb = [] ->
    reg ta = reg tb /\ reg ta <> 0 /\ reg ta = value_at (maps s) j k.
  Proof.
    intros s Ha Pa Hb Pb. destruct (reach_Inv_g sched) as (_ & _ & _ & Hph). fold s in Hph.
    destruct (Hph _ _ Ha) as (v & _ & [(P & _)|[(P & _)|[(P & _)|[(P & _)|(_ & _ & Ra & Na)]]]]);
      try (rewrite Pa in P; discriminate).
    destruct (Hph _ _ Hb) as (w & _ & [(P & _)|[(P & _)|[(P & _)|[(P & _)|(_ & _ & Rb & Nb)]]]]);
      try (rewrite Pb in P; discriminate).
    repeat split; auto. congruence.
  Qed.

  Theorem goc_no_deadlock sched :
    let s := run sched (goc_sys st0 j k vs) in
    all_done s = false -> exists i, step i s <> None.
  Proof.
    intros s Hd. destruct (reach_Inv_g sched) as ((A & B) & _ & Hfree & Hph). fold s in A, B, Hfree, Hph.
    destruct (own s j) as [o|] eqn:Eo.
    - destruct (B _ _ Eo) as (t & Ht & Hh). exists o. unfold step. rewrite Ht.
      destruct (Hph _ _ Ht) as (v & _ & [(Ep & Eh & Ew)|[(Ep & Eh & Ew)|[(Ep & Eh & Er)|[(Ep & Eh & Er)|(Ep & Eh & Er)]]]]);
        try congruence; unfold tstep; rewrite Ep, Eh; cbn; try discriminate.
      + destruct Ew as [->|(l & -> & Hl & _)].
        * rewrite Nat.eqb_refl. cbn. discriminate.
        * unfold free. rewrite (Hfree l) by lia. rewrite orb_true_r. discriminate.
      + destruct (N.eqb (reg t) 0); discriminate.
    - unfold all_done in Hd. destruct (Locks.forallb_false_nth _ _ Hd) as (i & t & Ht & Hnd).
      exists i. unfold step. rewrite Ht.
      destruct (Hph _ _ Ht) as (v & _ & [(Ep & Eh & Ew)|[(Ep & Eh & Ew)|[(Ep & Eh & Er)|[(Ep & Eh & Er)|(Ep & Eh & Er)]]]]).
      + unfold tstep. rewrite Ep, Eh. cbn. unfold free. rewrite Eo. discriminate.
      + pose proof (A _ _ _ Ht Eh). congruence.
      + pose proof (A _ _ _ Ht Eh). congruence.
      + pose proof (A _ _ _ Ht Eh). congruence.
      + unfold done in Hnd. rewrite Ep in Hnd. discriminate.
  Qed.
End Goc.

(** * The same idioms without the lock fail (non-vacuity of the two theorems above) *)
Definition lost_update_sched : list nat := [0; 1; 0; 1]%nat.
Lemma unlocked_rmw_refuted :
  let s := run lost_update_sched (init [[(7, 10)]] [unlocked_counter 0 7; unlocked_counter 0 7]) in
  all_done s = true /\ value_at (maps s) 0 7 = 11.
Proof. vm_compute. split; reflexivity. Qed.

Lemma unlocked_goc_refuted :
  let s := run [0; 0; 1; 1; 0; 1]%nat (init [[]] [unlocked_goc 0 7 100; unlocked_goc 0 7 200]) in
  all_done s = true /\ map reg (ths s) = [100; 200].
Proof. vm_compute. split; reflexivity. Qed.

(** * Sequential statements over histories *)
Theorem overlay_hist st0 ops j m k :
  let st := final_chain st0 ops in
  nth_error st j = Some m ->
  value_at st j k = match lookup k m with Some v => v | None => value_at st (S j) k end.
Proof. intros st H. apply value_at_unfold. exact H. Qed.

Theorem root_miss_hist st0 ops j k :
  let st := final_chain st0 ops in nth_error st j = None -> value_at st j k = 0.
Proof. intros st H. apply value_at_none. exact H. Qed.

Theorem child_set_local st j k v :
  forall i k', (j < i)%nat ->
    value_at (set_at st j k v) i k' = value_at st i k' /\ keys_at (set_at st j k v) i = keys_at st i.
Proof.
  intros i k' H. split; [apply value_at_set_ancestor; exact H|apply keys_at_set_other; lia].
Qed.

Theorem set_then_value st j k v k' :
  (j < length st)%nat ->
  value_at (set_at st j k v) j k = v /\ (k <> k' -> value_at (set_at st j k v) j k' = value_at st j k').
Proof. intro H. split; [apply value_at_set_same; exact H|apply value_at_set_other_key]. Qed.

(** * Exclusive access, packaged for reachable states *)
Theorem exclusive st progs sched :
  let s := run sched (init st progs) in
  (forall o t j, nth_error (ths s) o = Some t -> held t = Some j -> own s j = Some o) /\
  (forall j o, own s j = Some o ->
     (exists t, nth_error (ths s) o = Some t /\ held t = Some j) /\
     (forall u th, nth_error (ths s) u = Some th -> touches th = Some j -> step u s = None) /\
     (forall u s', u <> o -> step u s = Some s' ->
        nth_error (maps s') j = nth_error (maps s) j /\ own s' j = Some o)).
Proof.
  intro s. pose proof (reach_Inv_own st progs sched) as I. fold s in I. split; [exact (proj1 I)|].
  intros j o Ho. split; [exact (proj2 I _ _ Ho)|]. split.
  - intros u th Hu Ht. eapply locked_blocks; eauto.
  - intros u s' Hne Hs. eapply others_leave_locked_scope; eauto.
Qed.
