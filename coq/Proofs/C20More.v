(** C20, proof audit: lemmas for the theorems added to Props/C20.v.

    Part 1  Go deep equality of nested maps.  [canon] (Model/PlainMap.v: children sorted by key at
            every level) is the observable the correspondence check compares.  For well-formed
            maps [canon a = canon b] holds exactly when both have the same leaf under every path,
            so the two round trips hold with deep equality as their conclusion.
    Part 2  The reader and the flattening: the leaves the reader returns are [flatten] of the
            nested map a standard decoder builds from the document.
    Part 3  The loader without the disjointness hypothesis: nothing but file entries is
            translatable, every key of every file is translatable, to the value of the file
            whose Set call came last; to ITS value when the files agree on the key.
    Part 4  The loader over the fsloop model of C08 (Model/Loop.v): every tree, every number of
            producers / consumers, every queue capacity, every schedule. *)
From GC Require Import Common.Base Model.PlainMap Model.Json Model.I18n Model.Loop Model.LoopLive Model.I18nLoad.
From GC Require Import Proofs.PlainMap Proofs.Json Proofs.I18n Proofs.Loop Proofs.LoopLive.
From Coq Require Import Lia ZifyBool ZifyNat ZifyN Permutation.

Local Open Scope N_scope.

(** * Part 1: sorted association lists and deep equality *)

Lemma bytes_ltb_irrefl a : bytes_ltb a a = false.
Proof.
  induction a as [|x a IH]; cbn [bytes_ltb]; [reflexivity|].
  rewrite N.ltb_irrefl. exact IH.
Qed.

Lemma bytes_ltb_trans : forall a b c, bytes_ltb a b = true -> bytes_ltb b c = true -> bytes_ltb a c = true.
Proof.
  induction a as [|x a IH]; intros [|y b] [|z c]; cbn [bytes_ltb]; intros H1 H2;
    try discriminate; try reflexivity.
  destruct (N.ltb x y) eqn:Exy.
  - destruct (N.ltb y z) eqn:Eyz.
    + replace (N.ltb x z) with true by lia. reflexivity.
    + destruct (N.ltb z y) eqn:Ezy; [discriminate|].
      replace (N.ltb x z) with true by lia. reflexivity.
  - destruct (N.ltb y x) eqn:Eyx; [discriminate|].
    destruct (N.ltb y z) eqn:Eyz.
    + replace (N.ltb x z) with true by lia. reflexivity.
    + destruct (N.ltb z y) eqn:Ezy; [discriminate|].
      replace (N.ltb x z) with false by lia. replace (N.ltb z x) with false by lia.
      eapply IH; eassumption.
Qed.

Lemma bytes_ltb_total : forall a b, bytes_ltb a b = false -> bytes_ltb b a = false -> a = b.
Proof.
  induction a as [|x a IH]; intros [|y b]; cbn [bytes_ltb]; intros H1 H2;
    try discriminate; try reflexivity.
  destruct (N.ltb x y) eqn:Exy; [discriminate|]. destruct (N.ltb y x) eqn:Eyx; [discriminate|].
  assert (x = y) by lia. subst y. f_equal. apply IH; assumption.
Qed.

Lemma bytes_ltb_asym a b : bytes_ltb a b = true -> bytes_ltb b a = false.
Proof.
  intro H. destruct (bytes_ltb b a) eqn:E; [|reflexivity].
  rewrite <- (bytes_ltb_irrefl a). symmetry. eapply bytes_ltb_trans; eassumption.
Qed.

Section Sorted.
  Context {V : Type}.
  Implicit Types l : list (bytes * V).

  (** strictly increasing keys *)
  Fixpoint ssorted l : Prop :=
    match l with
    | [] => True
    | (k, _) :: l' => (forall k' v', In (k', v') l' -> bytes_ltb k k' = true) /\ ssorted l'
    end.

  Lemma put_sorted_In k (v : V) l k' v' :
    In (k', v') (put_sorted k v l) -> (k', v') = (k, v) \/ In (k', v') l.
  Proof.
    induction l as [|[k1 v1] l IH]; cbn [put_sorted].
    - intros [H|[]]. left. symmetry. exact H.
    - destruct (bytes_eqb k k1).
      + intros [H|H]; [left; symmetry; exact H|right; right; exact H].
      + destruct (bytes_ltb k k1).
        * intros [H|H]; [left; symmetry; exact H|right; exact H].
        * intros [H|H]; [right; left; exact H|]. destruct (IH H) as [A|A]; [left; exact A|right; right; exact A].
  Qed.

  Lemma put_sorted_ssorted k (v : V) l : ssorted l -> ssorted (put_sorted k v l).
  Proof.
    induction l as [|[k1 v1] l IH]; cbn [put_sorted ssorted].
    - intros _. split; [intros ? ? []|exact I].
    - intros [H1 H2]. destruct (bytes_eqb k k1) eqn:E.
      + apply bytes_eqb_spec in E. subst k1. cbn [ssorted]. split; assumption.
      + destruct (bytes_ltb k k1) eqn:L.
        * cbn [ssorted]. split; [|split; assumption].
          intros k' v' [H|H]; [inversion H; subst; exact L|].
          eapply bytes_ltb_trans; [exact L|]. eapply H1; exact H.
        * assert (L' : bytes_ltb k1 k = true).
          { destruct (bytes_ltb k1 k) eqn:L'; [reflexivity|]. exfalso.
            apply bytes_eqb_false in E. apply E. apply bytes_ltb_total; assumption. }
          cbn [ssorted]. split; [|apply IH; exact H2].
          intros k' v' H. apply put_sorted_In in H as [H|H]; [inversion H; subst; exact L'|].
          eapply H1; exact H.
  Qed.

  Lemma lookup_put_sorted k' k (v : V) l :
    lookup k' (put_sorted k v l) = if bytes_eqb k' k then Some v else lookup k' l.
  Proof.
    induction l as [|[k1 v1] l IH]; cbn [put_sorted lookup]; [reflexivity|].
    destruct (bytes_eqb k k1) eqn:E.
    - apply bytes_eqb_spec in E. subst k1. cbn [lookup]. destruct (bytes_eqb k' k); reflexivity.
    - destruct (bytes_ltb k k1); cbn [lookup]; [reflexivity|].
      rewrite IH. destruct (bytes_eqb k' k1) eqn:E1; [|reflexivity].
      apply bytes_eqb_spec in E1. subst k1. rewrite bytes_eqb_sym, E. reflexivity.
  Qed.

  Lemma fold_put_ssorted (log : list (bytes * V)) : forall acc,
    ssorted acc -> ssorted (fold_left (fun a kv => put_sorted (fst kv) (snd kv) a) log acc).
  Proof.
    induction log as [|[k v] log IH]; intros acc H; cbn [fold_left fst snd]; [exact H|].
    apply IH. apply put_sorted_ssorted. exact H.
  Qed.

  Lemma lookup_fold_put k (log : list (bytes * V)) : forall acc,
    lookup k (fold_left (fun a kv => put_sorted (fst kv) (snd kv) a) log acc) =
    match lookup_last k log with Some x => Some x | None => lookup k acc end.
  Proof.
    induction log as [|[k1 v1] log IH]; intro acc; cbn [fold_left fst snd lookup_last]; [reflexivity|].
    rewrite IH. destruct (lookup_last k log); [reflexivity|]. rewrite lookup_put_sorted.
    destruct (bytes_eqb k k1); reflexivity.
  Qed.

  Lemma normalize_ssorted (log : list (bytes * V)) : ssorted (normalize log).
  Proof. unfold normalize. apply fold_put_ssorted. exact I. Qed.

  (** the sorted list denotes the Go map the log denotes *)
  Lemma lookup_normalize k (log : list (bytes * V)) : lookup k (normalize log) = lookup_last k log.
  Proof. unfold normalize. rewrite lookup_fold_put. destruct (lookup_last k log); reflexivity. Qed.

  Lemma ssorted_lookup_head_tail k (v : V) l : ssorted ((k, v) :: l) -> lookup k l = None.
  Proof.
    cbn [ssorted]. intros [H _]. destruct (lookup k l) as [w|] eqn:E; [|reflexivity].
    apply lookup_In in E. apply H in E. rewrite bytes_ltb_irrefl in E. discriminate.
  Qed.

  (** a Go map has ONE sorted listing *)
  Lemma ssorted_unique : forall a b : list (bytes * V),
    ssorted a -> ssorted b -> (forall k, lookup k a = lookup k b) -> a = b.
  Proof.
    induction a as [|[k1 v1] a IH]; intros [|[k2 v2] b] Sa Sb H.
    - reflexivity.
    - specialize (H k2). cbn [lookup] in H. rewrite bytes_eqb_refl in H. discriminate.
    - specialize (H k1). cbn [lookup] in H. rewrite bytes_eqb_refl in H. discriminate.
    - assert (Ek : k1 = k2).
      { destruct (bytes_eqb k1 k2) eqn:E; [apply bytes_eqb_spec; exact E|]. exfalso.
        pose proof (H k1) as A. cbn [lookup] in A. rewrite bytes_eqb_refl, E in A.
        pose proof (H k2) as B. cbn [lookup] in B. rewrite bytes_eqb_refl, bytes_eqb_sym, E in B.
        symmetry in A. apply lookup_In in A. apply lookup_In in B.
        destruct Sa as [Sa _]. destruct Sb as [Sb _]. apply Sb in A. apply Sa in B.
        apply bytes_ltb_asym in A. congruence. }
      subst k2.
      assert (Ev : v1 = v2).
      { specialize (H k1). cbn [lookup] in H. rewrite bytes_eqb_refl in H. congruence. }
      subst v2. f_equal. apply IH; [apply Sa|apply Sb|].
      intro k. destruct (bytes_eqb k k1) eqn:E.
      + apply bytes_eqb_spec in E. subst k.
        rewrite (ssorted_lookup_head_tail _ _ _ Sa), (ssorted_lookup_head_tail _ _ _ Sb). reflexivity.
      + specialize (H k). cbn [lookup] in H. rewrite E in H. exact H.
  Qed.

  Lemma nodup_lookup_last k l : nodup_keys l = true -> lookup_last k l = lookup k l.
  Proof.
    intro Hn. destruct (lookup k l) as [v|] eqn:E.
    - apply lookup_last_functional; [apply nodup_functional; exact Hn|apply lookup_In; exact E].
    - destruct (lookup_last k l) as [w|] eqn:E2; [|reflexivity]. exfalso.
      apply lookup_last_In in E2. eapply lookup_None_notin; eassumption.
  Qed.

  (** two logs denote the same Go map iff their sorted listings are equal *)
  Lemma normalize_eq_iff (a b : list (bytes * V)) :
    normalize a = normalize b <-> (forall k, lookup_last k a = lookup_last k b).
  Proof.
    split.
    - intros H k. rewrite <- !lookup_normalize, H. reflexivity.
    - intro H. apply ssorted_unique; [apply normalize_ssorted|apply normalize_ssorted|].
      intro k. rewrite !lookup_normalize. apply H.
  Qed.
End Sorted.

Lemma lookup_last_map {V W} (f : V -> W) k (l : list (bytes * V)) :
  lookup_last k (map (fun kc => (fst kc, f (snd kc))) l) =
  match lookup_last k l with Some x => Some (f x) | None => None end.
Proof.
  induction l as [|[k1 v1] l IH]; cbn [map lookup_last fst snd]; [reflexivity|].
  rewrite IH. destruct (lookup_last k l); [reflexivity|]. destruct (bytes_eqb k k1); reflexivity.
Qed.

Definition cf (kc : bytes * jt) : bytes * jt := (fst kc, canon_t (snd kc)).

Lemma canon_unfold l : canon l = normalize (map cf l).
Proof. reflexivity. Qed.

Lemma canon_t_obj l : canon_t (Obj l) = Obj (canon l).
Proof. reflexivity. Qed.

(** the children of the canonical form, key by key *)
Lemma lookup_canon k l : nodup_keys l = true ->
  lookup k (canon l) = match lookup k l with Some c => Some (canon_t c) | None => None end.
Proof.
  intro Hn. rewrite canon_unfold, lookup_normalize. unfold cf.
  rewrite (lookup_last_map canon_t), (nodup_lookup_last k l Hn). reflexivity.
Qed.

(** sorting the children does not change the leaf under any path *)
Lemma canon_t_leafat t : nodup_t t -> forall p, leafat_t p (canon_t t) = leafat_t p t.
Proof.
  induction t as [v|l IH] using jt_ind2; intros Hnd p; [reflexivity|].
  inversion Hnd as [|? Hn Hc]; subst. rewrite canon_t_obj.
  destruct p as [|k rest]; cbn [leafat_t]; [reflexivity|].
  rewrite (lookup_canon k l Hn). destruct (lookup k l) as [c|] eqn:E; [|reflexivity].
  apply lookup_In in E. rewrite Forall_forall in IH. apply (IH (k, c) E). apply (Hc k c E).
Qed.

Lemma canon_leafat l : wf_children l = true -> forall p, leafat p (canon l) = leafat p l.
Proof.
  intros Hwf p. unfold leafat. rewrite <- canon_t_obj. apply canon_t_leafat.
  apply wf_children_nodup_t. exact Hwf.
Qed.

(** a well-formed value holds at least one leaf (no empty sub-map) *)
Lemma wf_has_leaf t : wf_t t = true -> exists p v, leafat_t p t = Some v.
Proof.
  induction t as [v|l IH] using jt_ind2; intro Hwf.
  - exists [], v. reflexivity.
  - apply wf_t_obj in Hwf as (Hne & Hn & Hc). destruct l as [|[k c] l]; [contradiction|].
    inversion IH as [|? ? IHc _]; subst. cbn [snd] in IHc.
    destruct (IHc (proj2 (Hc k c (or_introl eq_refl)))) as (p & v & Hp).
    exists (k :: p), v. cbn [leafat_t lookup]. rewrite bytes_eqb_refl. exact Hp.
Qed.

Definition same_leaves (a b : jt) : Prop := forall p, leafat_t p a = leafat_t p b.

(** the key step, for one object: children lists with unique keys and well-formed values *)
Lemma canon_children_eq la lb :
  nodup_keys la = true -> nodup_keys lb = true ->
  (forall k c, In (k, c) la -> wf_t c = true) -> (forall k c, In (k, c) lb -> wf_t c = true) ->
  Forall (fun kc => forall b, wf_t (snd kc) = true -> wf_t b = true -> same_leaves (snd kc) b ->
                              canon_t (snd kc) = canon_t b) la ->
  same_leaves (Obj la) (Obj lb) -> canon la = canon lb.
Proof.
  intros Hna Hnb Hwa Hwb IH Hs. rewrite !canon_unfold.
  apply ssorted_unique; [apply normalize_ssorted|apply normalize_ssorted|].
  intro k. rewrite <- !canon_unfold, (lookup_canon k la Hna), (lookup_canon k lb Hnb).
  destruct (lookup k la) as [x|] eqn:Ea; destruct (lookup k lb) as [y|] eqn:Eb.
  - f_equal. rewrite Forall_forall in IH. apply lookup_In in Ea as Ia. apply lookup_In in Eb as Ib.
    apply (IH (k, x) Ia y); [apply (Hwa k x Ia)|apply (Hwb k y Ib)|].
    intro q. specialize (Hs (k :: q)). cbn [leafat_t] in Hs. rewrite Ea, Eb in Hs. exact Hs.
  - exfalso. apply lookup_In in Ea as Ia. destruct (wf_has_leaf x (Hwa k x Ia)) as (q & v & Hq).
    specialize (Hs (k :: q)). cbn [leafat_t] in Hs. rewrite Ea, Eb in Hs. congruence.
  - exfalso. apply lookup_In in Eb as Ib. destruct (wf_has_leaf y (Hwb k y Ib)) as (q & v & Hq).
    specialize (Hs (k :: q)). cbn [leafat_t] in Hs. rewrite Ea, Eb in Hs. congruence.
  - reflexivity.
Qed.

Lemma canon_t_eq a : forall b, wf_t a = true -> wf_t b = true -> same_leaves a b -> canon_t a = canon_t b.
Proof.
  induction a as [v|la IH] using jt_ind2; intros b Hwa Hwb Hs.
  - destruct b as [w|lb]; specialize (Hs []); cbn [leafat_t] in Hs; [inversion Hs; reflexivity|discriminate].
  - destruct b as [w|lb]; [specialize (Hs []); cbn [leafat_t] in Hs; discriminate|].
    rewrite !canon_t_obj. f_equal.
    apply wf_t_obj in Hwa as (_ & Hna & Hca). apply wf_t_obj in Hwb as (_ & Hnb & Hcb).
    apply canon_children_eq; try assumption.
    + intros k c Hin. apply (Hca k c Hin).
    + intros k c Hin. apply (Hcb k c Hin).
Qed.

(** DEEP EQUALITY: for well-formed nested maps, equal canonical forms (what reflect.DeepEqual
    decides on the Go maps, and what the correspondence check compares) = the same leaf under
    every path *)
Theorem deep_equal_iff a b : wf_children a = true -> wf_children b = true ->
  (canon a = canon b <-> forall p, leafat p a = leafat p b).
Proof.
  intros Hwa Hwb. split.
  - intros H p. rewrite <- (canon_leafat a Hwa), <- (canon_leafat b Hwb), H. reflexivity.
  - intro Hs. apply wf_children_spec in Hwa as [Hna Hca]. apply wf_children_spec in Hwb as [Hnb Hcb].
    apply canon_children_eq; try assumption.
    + intros k c Hin. apply (Hca k c Hin).
    + intros k c Hin. apply (Hcb k c Hin).
    + apply Forall_forall. intros [k c] _ b0 H1 H2 H3. cbn [snd] in *. apply canon_t_eq; assumption.
Qed.

(** flatten then unflatten, deep equality *)
Theorem flatten_unflatten_deep : forall (t : children) (m' : flatmap),
  wf_children t = true -> forallb (fun kc => nonempty (fst kc)) t = true ->
  Permutation m' (flatten t) ->
  exists t', unflatten m' = Ok t' /\ wf_children t' = true /\ canon t' = canon t.
Proof.
  intros t m' Hwf Hne P. destruct (flatten_unflatten t m' Hwf Hne P) as (t' & Hu & Hwf' & Hl).
  exists t'. split; [exact Hu|]. split; [exact Hwf'|]. apply deep_equal_iff; assumption.
Qed.

(** unflatten then flatten, for every iteration order of the rebuilt map (every well-formed t'
    deeply equal to the model's result), as equality of the sorted listings *)
Theorem unflatten_flatten_deep : forall m : flatmap, good_flat m = true ->
  exists t, unflatten m = Ok t /\ wf_children t = true /\
    forall t', wf_children t' = true -> canon t' = canon t ->
      normalize (flatten t') = normalize m /\ nodup_keys (normalize (flatten t')) = true.
Proof.
  intros m Hg. destruct (unflatten_flatten m Hg) as (t & Hu & Hwf & H).
  exists t. split; [exact Hu|]. split; [exact Hwf|]. intros t' Hwf' Hc.
  assert (E : normalize (flatten t') = normalize m).
  { apply normalize_eq_iff. apply (H t' Hwf'). apply deep_equal_iff; assumption. }
  split; [exact E|].
  (* a strictly sorted list has unique keys *)
  pose proof (normalize_ssorted (flatten t')) as S. clear - S.
  induction (normalize (flatten t')) as [|[k v] l IH]; [reflexivity|].
  cbn [nodup_keys]. rewrite (ssorted_lookup_head_tail _ _ _ S). apply IH. apply S.
Qed.

(** * Part 2: what the reader returns is [flatten] of the decoded nested map *)

Lemma leaves_tree :
  (forall v, match v with
             | JObj m _ => forall parent, leaves_m false parent m =
                             flat_map (fun kc => flat_t (parent ++ fst kc) (snd kc)) (tree_members m)
             | _ => True
             end) /\
  (forall e : elems, True) /\
  (forall m, forall parent, leaves_m false parent m =
                            flat_map (fun kc => flat_t (parent ++ fst kc) (snd kc)) (tree_members m)).
Proof.
  apply jv_mutind; try (intros; exact I).
  - intros m IHm wend. exact IHm.
  - intro parent. reflexivity.
  - intros w1 k w2 w3 v IHv w4 m' IHm parent.
    cbn [leaves_m tree_members]. rewrite flat_map_app, <- IHm. f_equal. unfold key_of.
    destruct v as [s|t| | | |e wend|m2 wend]; cbn [leaves_v flat_map fst snd flat_t app]; try reflexivity.
    rewrite app_nil_r. unfold child_of. rewrite IHv. apply flat_map_ext. intros [k2 c2]. cbn [fst snd].
    rewrite <- app_assoc. reflexivity.
Qed.

Lemma doc_leaves_flatten m : doc_leaves m = flatten (doc_tree m).
Proof.
  unfold doc_leaves, doc_tree, flatten. destruct leaves_tree as (_ & _ & H). rewrite H. reflexivity.
Qed.

(** the reader = a standard decoder (string and number leaves) followed by RecursiveMapToPlainMap *)
Theorem read_is_flatten : forall w m wend tail,
  all_ws w = true -> members_ok false m = true -> all_ws wend = true ->
  read_json (w ++ render (JObj m wend) ++ tail) = ROk (flatten (doc_tree m)).
Proof. intros. rewrite <- doc_leaves_flatten. apply read_leaf; assumption. Qed.

(** * Part 3: the loader without the disjointness hypothesis *)

Lemma lookup_last_concat_some k v : forall logs : list flatmap,
  lookup_last k (concat logs) = Some v -> exists log, In log logs /\ lookup_last k log = Some v.
Proof.
  induction logs as [|log logs IH]; cbn [concat]; [discriminate|].
  rewrite lookup_last_app. destruct (lookup_last k (concat logs)) as [x|] eqn:E.
  - intro H. inversion H; subst x. destruct (IH eq_refl) as (l & Hl & Hk). exists l. split; [right; exact Hl|exact Hk].
  - intro H. exists log. split; [left; reflexivity|exact H].
Qed.

Lemma lookup_last_concat_defined k : forall (logs : list flatmap) log v,
  In log logs -> lookup_last k log = Some v -> exists v', lookup_last k (concat logs) = Some v'.
Proof.
  induction logs as [|l logs IH]; intros log v Hin Hk; [contradiction|].
  cbn [concat]. rewrite lookup_last_app. destruct (lookup_last k (concat logs)) as [x|] eqn:E; [exists x; reflexivity|].
  destruct Hin as [->|Hin]; [exists v; exact Hk|].
  destruct (IH log v Hin Hk) as (v' & Hv'). discriminate.
Qed.

(** the Set call that came last decides *)
Lemma lookup_last_concat_last k v : forall (l1 l2 : list flatmap) log,
  lookup_last k log = Some v -> (forall log', In log' l2 -> lookup_last k log' = None) ->
  lookup_last k (concat (l1 ++ log :: l2)) = Some v.
Proof.
  intros l1 l2 log Hk Hn. rewrite concat_app. cbn [concat]. rewrite !lookup_last_app.
  assert (E : lookup_last k (concat l2) = None).
  { destruct (lookup_last k (concat l2)) as [x|] eqn:E; [|reflexivity].
    apply lookup_last_concat_some in E as (l & Hl & Hx). rewrite (Hn l Hl) in Hx. discriminate. }
  rewrite E, Hk. reflexivity.
Qed.

Lemma Forall2_In_l {A B} (R : A -> B -> Prop) l l' x : Forall2 R l l' -> In x l -> exists y, In y l' /\ R x y.
Proof.
  induction 1 as [|a b l l' Hab _ IH]; intro Hin; [contradiction|].
  destruct Hin as [->|Hin]; [exists b; split; [left; reflexivity|exact Hab]|].
  destruct (IH Hin) as (y & Hy & Hr). exists y. split; [right; exact Hy|exact Hr].
Qed.

Lemma Forall2_In_r {A B} (R : A -> B -> Prop) l l' y : Forall2 R l l' -> In y l' -> exists x, In x l /\ R x y.
Proof.
  induction 1 as [|a b l l' Hab _ IH]; intro Hin; [contradiction|].
  destruct Hin as [->|Hin]; [exists a; split; [left; reflexivity|exact Hab]|].
  destruct (IH Hin) as (x & Hx & Hr). exists x. split; [right; exact Hx|exact Hr].
Qed.

(** file [f] gives key [k] the value [v] *)
Definition fgives (f : file) (k v : bytes) : Prop :=
  exists log, file_log f = Some log /\ lookup_last k log = Some v.

(** C20_loader_exact: NO hypothesis on the keys.  The store holds nothing but entries of the
    selected files; every key of every selected file is translatable; it translates to the
    file's value whenever all selected files that define the key agree on it (disjoint key sets
    are the special case in which no second file defines it). *)
Theorem loader_exact : forall (files order : list file),
  Permutation order (filter selected files) ->
  (forall f, In f files -> selected f = true -> file_log f <> None) ->
  exists store, run_callbacks order [] = Some store /\
    (forall k v, translate k store = Some v ->
                 exists f, In f files /\ selected f = true /\ fgives f k v) /\
    (forall f k v, In f files -> selected f = true -> fgives f k v ->
       (exists v', translate k store = Some v') /\
       ((forall g v', In g files -> selected g = true -> fgives g k v' -> v' = v) ->
        translate k store = Some v)).
Proof.
  intros files order P Hparse.
  assert (Hin : forall f, In f order <-> In f files /\ selected f = true).
  { intro f. rewrite <- filter_In. split; apply Permutation_in; [exact P|apply Permutation_sym; exact P]. }
  destruct (run_callbacks_ok order []) as (logs & HF & Hr).
  { intros f Hf. apply Hin in Hf as [H1 H2]. apply Hparse; assumption. }
  cbn [app] in Hr. exists (concat logs). split; [exact Hr|].
  assert (J : forall k v, translate k (concat logs) = Some v ->
                          exists f, In f files /\ selected f = true /\ fgives f k v).
  { intros k v Hk. apply lookup_last_concat_some in Hk as (log & Hl & Hk).
    destruct (Forall2_In_r _ _ _ _ HF Hl) as (f & Hf & Hfl). apply Hin in Hf as [H1 H2].
    exists f. split; [exact H1|]. split; [exact H2|]. exists log. split; assumption. }
  split; [exact J|].
  intros f k v Hf Hs (log & Hl & Hk).
  assert (D : exists v', translate k (concat logs) = Some v').
  { destruct (Forall2_In_l _ _ _ _ HF (proj2 (Hin f) (conj Hf Hs))) as (log' & Hlog' & Hfl).
    assert (log' = log) by congruence. subst log'.
    eapply lookup_last_concat_defined; eassumption. }
  split; [exact D|]. intro Hagree. destruct D as (v' & Hv'). rewrite Hv'. f_equal.
  destruct (J k v' Hv') as (g & Hg & Hgs & Hgk). apply (Hagree g v' Hg Hgs Hgk).
Qed.

(** the older C20_loader is the special case of pairwise disjoint key sets *)
Lemma disjoint_agree files : ForallOrdPairs disjoint_files (filter selected files) ->
  forall f g k v v', In f files -> selected f = true -> In g files -> selected g = true ->
                     fgives f k v -> fgives g k v' -> v' = v.
Proof.
  intros HD f g k v v' Hf Hfs Hg Hgs Hfk Hgk.
  assert (If : In f (filter selected files)) by (apply filter_In; split; assumption).
  assert (Ig : In g (filter selected files)) by (apply filter_In; split; assumption).
  destruct (ForallOrdPairs_In HD f g If Ig) as [E|[D|D]].
  - subst g. destruct Hfk as (l1 & E1 & K1). destruct Hgk as (l2 & E2 & K2). congruence.
  - exfalso. apply (D k). split; [destruct Hfk as (l & A & B); exists l, v; split; assumption|
                                   destruct Hgk as (l & A & B); exists l, v'; split; assumption].
  - exfalso. apply (D k). split; [destruct Hgk as (l & A & B); exists l, v'; split; assumption|
                                   destruct Hfk as (l & A & B); exists l, v; split; assumption].
Qed.

(** * Part 4: the loader over the fsloop model (C08) *)

Local Close Scope N_scope.

Ltac brk H :=
  repeat match type of H with
         | context [match ?x with _ => _ end] => destruct x eqn:?; try discriminate H
         end.
Ltac inv_some H := inversion H; subst; clear H.

(** ** callbacks begun = callbacks returned + callbacks running (any configuration) *)
Section LogEnded.
  Variable cfg : config.

  Definition crun (c : cstate) : list item := match c with CRun it => [it] | _ => [] end.

  Definition InvL (s : state) : Prop :=
    forall x, cnt x (log s) = cnt x (ended s) + cnt x (flat_map crun (cons s)).

  Lemma crun_after it : crun (after it) = [].
  Proof. destruct it; reflexivity. Qed.

  Lemma InvL_init base root : InvL (init cfg base root).
  Proof.
    intro x. cbn [init log ended cons]. induction (cmax cfg) as [|n IH]; [reflexivity|].
    cbn [repeat flat_map crun app]. exact IH.
  Qed.

  Lemma InvL_step t s s' : InvL s -> step cfg t s = Some s' -> InvL s'.
  Proof.
    intros HL H. destruct t as [i|i| | |]; simpl in H.
    - destruct (nth_error (prods s) i) as [p|] eqn:E; [|discriminate].
      unfold pstep in H. brk H; inv_some H;
        try match goal with
            | Hs : send_f _ _ _ = Some _ |- _ => apply send_f_inv in Hs; destruct Hs as [[_ ->]|(_ & _ & ->)]
            | Hs : send_d _ _ _ = Some _ |- _ => apply send_d_inv in Hs; destruct Hs as [[_ ->]|(_ & _ & ->)]
            end; intro x; specialize (HL x); cbn; exact HL.
    - destruct (nth_error (cons s) i) as [c|] eqn:E; [|discriminate].
      unfold cstep in H. brk H; inv_some H; intro x; specialize (HL x); cbn;
        match goal with
        | |- context [flat_map crun (upd ?j ?c' (cons ?s0))] =>
          let Q := fresh "Q" in
          pose proof (cnt_flat_upd crun j _ c' (cons s0) x E) as Q; cbn [crun] in Q
        end; rewrite ?crun_after in *; autorewrite with cnt in *; lia.
    - unfold kstep in H. brk H; inv_some H; exact HL.
    - brk H; inv_some H; exact HL.
    - inv_some H. exact HL.
  Qed.

  Lemma InvL_run base root sched : InvL (run cfg sched (init cfg base root)).
  Proof. apply run_inv; [intros t s s' HL H; eapply InvL_step; eassumption|apply InvL_init]. Qed.

  (** a callback that has returned was begun, hence is a selected node *)
  Lemma ended_incl base root sched x :
    In x (ended (run cfg sched (init cfg base root))) -> In x (sel_list cfg base root).
  Proof.
    intro H. apply (log_incl cfg base root sched). pose proof (InvL_run base root sched x) as Q.
    apply (count_occ_In item_eq_dec). apply (count_occ_In item_eq_dec) in H.
    unfold cnt in Q. lia.
  Qed.

  (** when every consumer has exited, the callbacks that returned are the callbacks begun *)
  Lemma ended_perm_log base root sched :
    let s := run cfg sched (init cfg base root) in
    all_exited s = true -> Permutation (ended s) (log s).
  Proof.
    intros s AE. apply perm_cnt. intro x. pose proof (InvL_run base root sched x) as Q. fold s in Q.
    assert (Z : flat_map crun (cons s) = []).
    { apply forallb_exited in AE. clear - AE. induction AE as [|c l Hc _ IH]; [reflexivity|].
      subst c. cbn [flat_map crun app]. exact IH. }
    rewrite Z, cnt_nil in Q. subst s. lia.
  Qed.
End LogEnded.

(** ** the configuration of Load *)
Section LoadProofs.
  Variable content : path -> option bytes.
  Variable lserr : path -> bool.
  Variables pmax cmax dcap fcap : nat.

  Notation cfg := (load_cfg content lserr pmax cmax dcap fcap).

  (** the selected nodes are the files whose path ends in ".json" - all of them, at any depth *)
  Lemma load_sel t : forall base, sel cfg base t = map IFile (filter json_name (tree_files base t)).
  Proof.
    induction t as [n|n ch IH] using tree_ind'; intro base.
    - rewrite sel_file. cbn [tree_files filter]. unfold faccept. cbn [on_file ffilter load_cfg andb].
      destruct (json_name (base ++ n)); reflexivity.
    - rewrite sel_dir. unfold daccept. cbn [has_dfilter on_dir load_cfg negb orb app].
      cbn [tree_files]. generalize ((base ++ n) ++ [SLASH]). intro b.
      induction IH as [|t l Ht _ IHl]; [reflexivity|].
      rewrite sel_list_cons, IHl, Ht, filter_app, map_app. reflexivity.
  Qed.

  Lemma load_sel_list base root :
    sel_list cfg base root = map IFile (filter json_name (list_files base root)).
  Proof.
    unfold list_files. induction root as [|t l IH]; [reflexivity|].
    rewrite sel_list_cons, IH, load_sel. cbn [flat_map]. rewrite filter_app, map_app. reflexivity.
  Qed.

  Definition logs_of (order : list item) : list flatmap :=
    flat_map (fun it => match item_log content it with Some l => [l] | None => [] end) order.

  Lemma run_sets_concat order : forall store, run_sets content order store = store ++ concat (logs_of order).
  Proof.
    induction order as [|it r IH]; intro store; cbn [run_sets logs_of flat_map concat].
    - rewrite app_nil_r. reflexivity.
    - rewrite IH. fold (logs_of r). destruct (item_log content it) as [l|]; cbn [app].
      + unfold i18_set. cbn [concat]. rewrite <- app_assoc. reflexivity.
      + reflexivity.
  Qed.

  Lemma logs_of_In order log : In log (logs_of order) <-> exists it, In it order /\ item_log content it = Some log.
  Proof.
    unfold logs_of. rewrite in_flat_map. split.
    - intros (it & Hit & Hl). exists it. split; [exact Hit|].
      destruct (item_log content it) as [l|]; [destruct Hl as [->|[]]; reflexivity|contradiction].
    - intros (it & Hit & Hl). exists it. split; [exact Hit|]. rewrite Hl. left. reflexivity.
  Qed.

  Lemma load_sel_list' base root : sel_list cfg base root = map IFile (json_files base root).
  Proof. apply load_sel_list. Qed.

  (** SAFETY, at every moment of every run (killed or not, finished or not): whatever Set calls
      of returned callbacks have happened, in any order, the store holds nothing but entries of
      ".json" files of the tree *)
  Theorem load_no_junk base root sched order k v :
    let s := run cfg sched (init cfg base root) in
    (forall it, In it order -> In it (ended s)) ->
    translate k (run_sets content order []) = Some v ->
    exists p, In p (json_files base root) /\ gives content p k v.
  Proof.
    intros s Hsub Hk. rewrite run_sets_concat in Hk. cbn [app] in Hk.
    apply lookup_last_concat_some in Hk as (log & Hl & Hk). apply logs_of_In in Hl as (it & Hit & Hl).
    apply Hsub in Hit. apply ended_incl in Hit. rewrite load_sel_list' in Hit.
    apply in_map_iff in Hit as (p & <- & Hp). exists p. split; [exact Hp|]. exists log. split; assumption.
  Qed.

  (** END TO END: Load returned without error (all consumers have exited, so Wait returns, and
      the lifecycle was not killed, so Errors() is empty).  [order] = the order in which the
      callbacks held the store's mutex, any permutation of the callbacks that returned. *)
  Theorem load_end_to_end base root sched order :
    1 <= cmax ->
    let s := run cfg sched (init cfg base root) in
    all_exited s = true -> killed s = false ->
    Permutation order (ended s) ->
    Permutation order (map IFile (json_files base root)) /\
    loaded content base root (run_sets content order []).
  Proof.
    intros C1 s AE NK P. set (store := run_sets content order []). set (sel0 := json_files base root).
    destruct (exactly_once cfg base root sched eq_refl C1 AE NK) as (PL & _ & _ & EE). fold s in PL, EE.
    assert (PO : Permutation order (map IFile sel0)).
    { unfold sel0. rewrite <- load_sel_list'. eapply Permutation_trans; [exact P|].
      eapply Permutation_trans; [apply ended_perm_log; exact AE|exact PL]. }
    assert (OK : forall p, In p sel0 -> exists log, item_log content (IFile p) = Some log).
    { intros p Hp. assert (Hin : In (IFile p) (ended s)).
      { eapply Permutation_in; [exact P|]. eapply Permutation_in; [apply Permutation_sym; exact PO|].
        apply in_map. exact Hp. }
      destruct (item_log content (IFile p)) as [log|] eqn:E; [exists log; reflexivity|]. exfalso.
      pose proof (errors_exited cfg base root sched AE (IFile p) Hin) as Q. fold s in Q. rewrite EE in Q.
      apply Q. cbn [cberr load_cfg cb_fails]. rewrite E. reflexivity. }
    assert (J : forall k v, translate k store = Some v -> exists p, In p sel0 /\ gives content p k v).
    { intros k v Hk. apply (load_no_junk base root sched order k v); [|exact Hk].
      intros it Hit. eapply Permutation_in; [exact P|exact Hit]. }
    split; [exact PO|]. unfold loaded. fold sel0. split; [|split; [exact J|]].
    - intros p Hp. destruct (OK p Hp) as (log & Hl). cbn [item_log] in Hl.
      destruct (content p) as [d|]; [|discriminate]. unfold file_log in Hl. cbn [snd] in Hl.
      destruct (read_json d) as [l| |] eqn:E; try discriminate. exists d, l. split; [reflexivity|exact E].
    - intros p k v Hp (log & Hl & Hk).
      assert (D : exists v', translate k store = Some v').
      { unfold store. rewrite run_sets_concat. cbn [app]. eapply lookup_last_concat_defined; [|exact Hk].
        apply logs_of_In. exists (IFile p). split; [|exact Hl].
        eapply Permutation_in; [apply Permutation_sym; exact PO|]. apply in_map. exact Hp. }
      split; [exact D|]. intro Hagree. destruct D as (v' & Hv'). rewrite Hv'. f_equal.
      destruct (J k v' Hv') as (q & Hq & Hg). apply (Hagree q v' Hq Hg).
  Qed.

  (** LIVENESS + END TO END: from EVERY reachable state of a load (any errors, any kill so far)
      the round-robin continuation [rr_from] of C08 makes every consumer exit and Wait return;
      if the lifecycle is then not killed - Load returns nil - the tree is loaded, in whatever
      order the callbacks held the mutex. *)
  Theorem load_returns base root sched :
    1 <= cmax -> 1 <= dcap -> 1 <= fcap ->
    let s := run cfg sched (init cfg base root) in
    let s' := run cfg (sched ++ rr_from cfg s) (init cfg base root) in
    all_exited s' = true /\ waited s' = true /\
    (killed s' = false -> forall order, Permutation order (ended s') ->
       loaded content base root (run_sets content order [])).
  Proof.
    intros C1 D1 F1 s s'.
    destruct (wait_returns_full cfg base root sched C1 D1 F1) as (_ & AE & W & _). fold s s' in AE, W.
    split; [exact AE|]. split; [exact W|]. intros NK order P.
    apply (load_end_to_end base root (sched ++ rr_from cfg s) order C1 AE NK P).
  Qed.
End LoadProofs.

(** * Part 5: I18Mem.Set statement by statement - the mutex serialises the calls *)

Definition pend (t : setpc) : list flatmap := match t with SOut todo => todo | SIn _ todo => todo end.
Definition inside (t : setpc) : bool := match t with SIn _ _ => true | SOut _ => false end.

Record InvM (all : list flatmap) (s : mstate) : Prop := {
  m_acct : Permutation all (hist s ++ flat_map pend (thr s));
  m_free : mu s = false -> Forall (fun t => inside t = false) (thr s) /\ tr s = concat (hist s);
  m_held : mu s = true -> exists i rest todo,
             nth_error (thr s) i = Some (SIn rest todo) /\
             (forall j t, j <> i -> nth_error (thr s) j = Some t -> inside t = false) /\
             tr s ++ rest = concat (hist s)
}.

Lemma flat_map_pend_upd i t t' l : nth_error l i = Some t -> pend t = pend t' ->
  Permutation (flat_map pend l) (flat_map pend (upd i t' l)).
Proof.
  intros E H. apply (flat_map_upd_perm pend i t t' [] l E). rewrite H. apply Permutation_refl.
Qed.

Lemma Forall_nth {A} (P : A -> Prop) l : (forall j t, nth_error l j = Some t -> P t) -> Forall P l.
Proof.
  intro H. apply Forall_forall. intros t Hin. apply In_nth_error in Hin as (j & Hj). eapply H; exact Hj.
Qed.

Lemma InvM_init todos : InvM (concat todos) (minit todos).
Proof.
  split; cbn [minit mu tr thr hist app concat].
  - rewrite flat_map_concat_map, map_map. cbn [pend]. rewrite map_id. apply Permutation_refl.
  - intros _. split; [|reflexivity]. apply Forall_forall. intros t Hin. apply in_map_iff in Hin as (x & <- & _). reflexivity.
  - discriminate.
Qed.

Lemma InvM_step all i s s' : InvM all s -> mstep true i s = Some s' -> InvM all s'.
Proof.
  intros [HA HF HH] H. unfold mstep in H.
  destruct (nth_error (thr s) i) as [[[|l todo]|[|kv rest] todo]|] eqn:E; try discriminate.
  - (* Lock *)
    cbn [andb] in H. destruct (mu s) eqn:M; [discriminate|]. inv_some H.
    destruct (HF eq_refl) as [Hout Htr]. split; cbn [mu tr thr hist].
    + rewrite <- app_assoc. eapply Permutation_trans; [exact HA|]. apply Permutation_app_head.
      apply (flat_map_upd_perm pend i _ (SIn l todo) [l] (thr s) E). apply Permutation_refl.
    + discriminate.
    + intros _. exists i, l, todo. split; [eapply nth_error_upd_eq; exact E|]. split.
      * intros j t Hj Hn. rewrite nth_error_upd_neq in Hn by congruence.
        apply (nth_error_Forall _ _ _ _ Hout Hn).
      * rewrite concat_app. cbn [concat]. rewrite app_nil_r, Htr. reflexivity.
  - (* Unlock *)
    inv_some H. destruct (mu s) eqn:M.
    2:{ exfalso. destruct (HF eq_refl) as [Hout _]. pose proof (nth_error_Forall _ _ _ _ Hout E) as Q. discriminate. }
    destruct (HH eq_refl) as (i0 & rest0 & todo0 & E0 & Hoth & Htr).
    assert (i = i0).
    { destruct (Nat.eq_dec i i0) as [->|N]; [reflexivity|]. pose proof (Hoth i _ N E) as Q. discriminate. }
    subst i0. rewrite E in E0. inversion E0; subst rest0 todo0. rewrite app_nil_r in Htr.
    split; cbn [mu tr thr hist].
    + eapply Permutation_trans; [exact HA|]. apply Permutation_app_head.
      apply (flat_map_pend_upd i _ _ _ E). reflexivity.
    + intros _. split; [|exact Htr]. apply Forall_nth. intros j t Hn.
      destruct (Nat.eq_dec j i) as [->|N].
      * rewrite (nth_error_upd_eq _ _ _ _ E) in Hn. inversion Hn. reflexivity.
      * rewrite nth_error_upd_neq in Hn by congruence. apply (Hoth j t N Hn).
    + discriminate.
  - (* one assignment *)
    inv_some H. destruct (mu s) eqn:M.
    2:{ exfalso. destruct (HF eq_refl) as [Hout _]. pose proof (nth_error_Forall _ _ _ _ Hout E) as Q. discriminate. }
    destruct (HH eq_refl) as (i0 & rest0 & todo0 & E0 & Hoth & Htr).
    assert (i = i0).
    { destruct (Nat.eq_dec i i0) as [->|N]; [reflexivity|]. pose proof (Hoth i _ N E) as Q. discriminate. }
    subst i0. rewrite E in E0. inversion E0; subst rest0 todo0.
    split; cbn [mu tr thr hist].
    + eapply Permutation_trans; [exact HA|]. apply Permutation_app_head.
      apply (flat_map_pend_upd i _ _ _ E). reflexivity.
    + discriminate.
    + intros _. exists i, rest, todo. split; [eapply nth_error_upd_eq; exact E|]. split.
      * intros j t Hj Hn. rewrite nth_error_upd_neq in Hn by congruence. apply (Hoth j t Hj Hn).
      * rewrite <- app_assoc. exact Htr.
Qed.

Lemma InvM_run todos sched : InvM (concat todos) (mrun true sched (minit todos)).
Proof.
  unfold mrun. generalize (InvM_init todos). generalize (minit todos).
  induction sched as [|i sched IH]; intros s HI; cbn [fold_left]; [exact HI|].
  apply IH. unfold mexec. destruct (mstep true i s) as [s'|] eqn:E; [eapply InvM_step; eassumption|exact HI].
Qed.

Lemma fold_i18_set (h : list flatmap) : forall acc, fold_left i18_set h acc = acc ++ concat h.
Proof.
  induction h as [|l h IH]; intro acc; cbn [fold_left concat]; [rewrite app_nil_r; reflexivity|].
  rewrite IH. unfold i18_set. rewrite app_assoc. reflexivity.
Qed.

(** Every number of goroutines, every list of maps per goroutine, EVERY interleaving of Lock /
    single assignments / Unlock: the store is at each moment a prefix of what the Set calls
    executed ONE AFTER THE OTHER in lock order leave, it is exactly that whenever the mutex is
    free, the calls that took the mutex plus the calls still to come are the calls there were
    (none lost, none twice), and when every goroutine is done the store is the sequential result
    of all calls in some order. *)
Theorem set_serial : forall (todos : list (list flatmap)) (sched : list nat),
  let s := mrun true sched (minit todos) in
  (exists rest, tr s ++ rest = fold_left i18_set (hist s) []) /\
  (mu s = false -> tr s = fold_left i18_set (hist s) []) /\
  Permutation (concat todos) (hist s ++ flat_map pend (thr s)) /\
  (mdone s = true -> tr s = fold_left i18_set (hist s) [] /\ Permutation (hist s) (concat todos)).
Proof.
  intros todos sched s. destruct (InvM_run todos sched) as [HA HF HH]. fold s in HA, HF, HH.
  rewrite fold_i18_set. cbn [app].
  split; [|split; [|split]].
  - destruct (mu s) eqn:M.
    + destruct (HH eq_refl) as (i & rest & todo & _ & _ & Htr). exists rest. exact Htr.
    + exists []. rewrite app_nil_r. apply (HF eq_refl).
  - intro M. apply (HF M).
  - exact HA.
  - intro D. unfold mdone in D. rewrite forallb_forall in D.
    assert (M : mu s = false).
    { destruct (mu s) eqn:M; [|reflexivity]. exfalso.
      destruct (HH eq_refl) as (i & rest & todo & E & _). apply nth_error_In in E. apply D in E. discriminate. }
    split; [apply (HF M)|].
    assert (Z : flat_map pend (thr s) = []).
    { clear - D. induction (thr s) as [|t l IH]; [reflexivity|]. cbn [flat_map].
      pose proof (D t (or_introl eq_refl)) as Q. destruct t as [[|x todo]|r todo]; try discriminate.
      cbn [pend app]. apply IH. intros y Hy. apply D. right. exact Hy. }
    rewrite Z, app_nil_r in HA. apply Permutation_sym. exact HA.
Qed.
