(** Proofs about the Close protocol of Model/Scope.v (C11). *)
From GC Require Import Common.Base Model.Scope Proofs.Scope.
From Coq Require Import ZArith Lia ZifyBool ZifyNat Permutation.
Local Open Scope nat_scope.

(** * Grammar invariant: the close events fired by a scope are determined by its program counter *)
Definition isNone {A} (o : option A) : bool := match o with None => true | _ => false end.
Definition isSome {A} (o : option A) : bool := match o with None => false | _ => true end.
Definition ev_branch (e : cev) (br : option bool) : bool :=
  match e with
  | BC => isNone br
  | BCo | Co | ACo => match br with Some true => true | _ => false end
  | BR | Ro | AR => match br with Some false => true | _ => false end
  | AC => isSome br
  end.
Definition branch_ok (p : cpc) (br : option bool) : bool :=
  match p with
  | CNone | CWait | CDecide => isNone br
  | CFire e | CErrA e _ | CErrS e | CErrT e | CErr2A e _ | CErr2S e => ev_branch e br
  | CMark | CSignOff | CRet | CFinished => isSome br
  end.

Definition gramL (l : list scoperec) (lg : list trec) : Prop :=
  (forall r, In r lg -> tr_by r < length l) /\
  forall s, s < length l ->
    close_word lg s = word_of (s_pc (nth s l dscope)) (s_branch (nth s l dscope)) /\
    branch_ok (s_pc (nth s l dscope)) (s_branch (nth s l dscope)) = true.
Definition gramI (sh : shared) : Prop := gramL (scopes sh) (log sh).

Lemma close_word_app lg r s :
  close_word (lg ++ [r]) s =
  close_word lg s ++ (if Nat.eqb (tr_by r) s then match cev_of (tr_ev r) with Some e => [e] | None => [] end else []).
Proof. unfold close_word. rewrite flat_map_app. simpl. now rewrite app_nil_r. Qed.

Lemma close_word_none lg s : (forall r, In r lg -> tr_by r <> s) -> close_word lg s = [].
Proof.
  induction lg as [|r lg IH]; simpl; auto. intros H.
  destruct (Nat.eqb_spec (tr_by r) s) as [E|N]. exfalso. apply (H r); auto.
  simpl. apply IH. intros; apply H; auto.
Qed.

Lemma gramL_upd_same l lg n f : gramL l lg ->
  (forall x, s_pc (f x) = s_pc x /\ s_branch (f x) = s_branch x) -> gramL (upd n f l) lg.
Proof.
  intros [B G] H. split. intros; rewrite upd_length; auto.
  intros s Hs. rewrite upd_length in Hs. rewrite nth_upd. destruct (_ && _); auto.
  destruct (H (nth s l dscope)) as [-> ->]. auto.
Qed.

Lemma gramL_app l lg x : gramL l lg -> s_pc x = CNone -> s_branch x = None -> gramL (l ++ [x]) lg.
Proof.
  intros [B G] P R. split. intros r Hr. rewrite app_length. specialize (B r Hr). simpl. lia.
  intros s Hs. rewrite app_length in Hs. simpl in Hs.
  destruct (Nat.eq_dec s (length l)) as [->|N].
  - rewrite nth_middle, P, R. simpl. split; auto. apply close_word_none.
    intros r Hr. specialize (B r Hr). lia.
  - rewrite app_nth1 by lia. apply G. lia.
Qed.

Lemma gramL_log_other l lg e s calls : gramL l lg -> cev_of e = None -> s < length l ->
  gramL l (lg ++ [{| tr_ev := e; tr_by := s; tr_calls := calls |}]).
Proof.
  intros [B G] E Hs. split.
  - intros r Hr. apply in_app_or in Hr as [Hr|[<-|[]]]; auto.
  - intros s' Hs'. rewrite close_word_app. simpl. rewrite E. destruct (Nat.eqb s s'); rewrite app_nil_r; auto.
Qed.

(** a Close step of scope s that fires close event e and moves to (p', br') *)
Lemma gramL_fire l lg s e calls p' :
  gramL l lg -> s < length l ->
  word_of p' (s_branch (nth s l dscope)) =
    word_of (s_pc (nth s l dscope)) (s_branch (nth s l dscope)) ++ [e] ->
  branch_ok p' (s_branch (nth s l dscope)) = true ->
  gramL (upd s (s_set_pc p') l) (lg ++ [{| tr_ev := ev_of e; tr_by := s; tr_calls := calls |}]).
Proof.
  intros [B G] Hs W K. split.
  - intros r Hr. rewrite upd_length. apply in_app_or in Hr as [Hr|[<-|[]]]; auto.
  - intros s' Hs'. rewrite upd_length in Hs'. rewrite close_word_app, nth_upd. simpl.
    destruct (Nat.eqb_spec s s') as [<-|N]; simpl.
    + destruct (Nat.ltb_spec s (length l)); [|lia]. simpl.
      assert (C : cev_of (ev_of e) = Some e) by (destruct e; reflexivity). rewrite C.
      destruct (G s Hs) as [-> _]. auto.
    + rewrite app_nil_r. auto.
Qed.

Lemma gramL_pc l lg s p' br' :
  gramL l lg -> s < length l ->
  word_of p' br' = word_of (s_pc (nth s l dscope)) (s_branch (nth s l dscope)) ->
  branch_ok p' br' = true ->
  gramL (upd s (fun x => s_set_pc p' (s_set_branch br' x)) l) lg.
Proof.
  intros [B G] Hs W K. split. intros; rewrite upd_length; auto.
  intros s' Hs'. rewrite upd_length in Hs'. rewrite nth_upd.
  destruct (Nat.eqb_spec s s') as [<-|N]; simpl; auto.
  destruct (Nat.ltb_spec s (length l)); [|lia]. simpl. destruct (G s Hs) as [-> _]. auto.
Qed.

Lemma gramL_pc1 l lg s p' :
  gramL l lg -> s < length l ->
  word_of p' (s_branch (nth s l dscope)) = word_of (s_pc (nth s l dscope)) (s_branch (nth s l dscope)) ->
  branch_ok p' (s_branch (nth s l dscope)) = true ->
  gramL (upd s (s_set_pc p') l) lg.
Proof.
  intros [B G] Hs W K. split. intros; rewrite upd_length; auto.
  intros s' Hs'. rewrite upd_length in Hs'. rewrite nth_upd.
  destruct (Nat.eqb_spec s s') as [<-|N]; simpl; auto.
  destruct (Nat.ltb_spec s (length l)); [|lia]. simpl. destruct (G s Hs) as [-> _]. auto.
Qed.

Lemma nth_upd_pc n f l s : (forall x, s_pc (f x) = s_pc x /\ s_branch (f x) = s_branch x) ->
  s_pc (nth s (upd n f l) dscope) = s_pc (nth s l dscope) /\
  s_branch (nth s (upd n f l) dscope) = s_branch (nth s l dscope).
Proof. intros H. rewrite nth_upd. destruct (_ && _); auto. Qed.

Lemma upd_upd {A} n (f g : A -> A) l : upd n f (upd n g l) = upd n (fun x => f (g x)) l.
Proof. revert n; induction l; intros [|n]; simpl; auto. now rewrite IHl. Qed.

Ltac brk PC e sh s := rewrite ?PC; destruct e, (s_branch (nth s (scopes sh) dscope)) as [[]|]; simpl in *; auto; discriminate.

Lemma close_step_gram cf sh s sh' p o a sp :
  gramI sh -> close_step cf sh s = XOk sh' p o a sp -> gramI sh'.
Proof.
  unfold gramI. intros G H.
  destruct (Nat.lt_ge_cases s (length (scopes sh))) as [Hs|Hs].
  2:{ unfold close_step, gets in H. rewrite nth_overflow in H by lia. simpl in H. unfold xok in H. inv_x. auto. }
  destruct G as [B G0]. pose proof (G0 s Hs) as [W K]. pose proof (conj B G0) as G.
  unfold close_step, xok, set_pc, gets in *.
  destruct (s_pc (nth s (scopes sh) dscope)) eqn:PC; try des_trig; repeat des_if; try inv_x; simpl;
    rewrite ?H0; auto.
  (* CFire *)
  - unfold trigger in T. destruct (run_listeners _) as [calls r']. inversion T; subst. simpl.
    apply gramL_fire; auto; brk PC e sh s.
  - unfold trigger in T. destruct (run_listeners _) as [calls r']. inversion T; subst. simpl.
    apply gramL_fire; auto; brk PC e sh s.
  (* CErrA, CErrS *)
  - apply gramL_pc1; auto; rewrite ?PC; auto.
  - apply gramL_pc1; auto; rewrite ?PC; auto.
  (* CErrT *)
  - unfold trigger in T. destruct (run_listeners _) as [calls r']. inversion T; subst. simpl.
    apply gramL_pc1; auto. apply gramL_log_other; auto. all: rewrite ?PC; auto.
  - unfold trigger in T. destruct (run_listeners _) as [calls r']. inversion T; subst. simpl.
    apply gramL_pc1; auto. apply gramL_log_other; auto. all: brk PC e sh s.
  (* CErr2A, CErr2S *)
  - apply gramL_pc1; auto; rewrite ?PC; auto.
  - apply gramL_pc1; auto; brk PC e sh s.
  (* CWait *)
  - apply gramL_pc1; auto; rewrite ?PC; auto.
  (* CDecide *)
  - rewrite upd_upd. apply gramL_pc; auto; rewrite ?PC; auto.
  (* CMark *)
  - apply gramL_pc1; auto; rewrite ?PC;
      destruct (s_branch (nth s (scopes sh) dscope)) as [[]|]; simpl in *; auto; discriminate.
  - apply gramL_pc1; auto; rewrite ?PC;
      destruct (s_branch (nth s (scopes sh) dscope)) as [[]|]; simpl in *; auto; discriminate.
  (* CSignOff *)
  - destruct (s_reg (nth s (scopes sh) dscope)) eqn:R; repeat des_if; inv_x; simpl.
    + assert (G2 : gramL (upd s s_clear_reg (upd n (s_add_wg (-1) 0) (scopes sh))) (log sh)).
      { apply gramL_upd_same; [apply gramL_upd_same|]; auto. }
      assert (E : s_pc (nth s (upd s s_clear_reg (upd n (s_add_wg (-1) 0) (scopes sh))) dscope) = CSignOff /\
                  s_branch (nth s (upd s s_clear_reg (upd n (s_add_wg (-1) 0) (scopes sh))) dscope)
                  = s_branch (nth s (scopes sh) dscope)).
      { destruct (nth_upd_pc s s_clear_reg (upd n (s_add_wg (-1) 0) (scopes sh)) s) as [-> ->]; auto.
        destruct (nth_upd_pc n (s_add_wg (-1) 0) (scopes sh) s) as [-> ->]; auto. }
      destruct E as [E1 E2].
      apply gramL_pc1; auto; rewrite ?upd_length; auto; rewrite ?E1, ?E2; auto.
    + apply gramL_pc1; auto; rewrite ?PC; auto.
  (* CRet *)
  - apply gramL_pc1; auto; rewrite ?PC; auto.
Qed.

Lemma exec_gram cf b i sh sh' p o a sp :
  gramI sh -> exec cf b i sh = XOk sh' p o a sp -> gramI sh'.
Proof.
  intros G H. destruct i; unfold exec, xok, xpush in H;
    try (destruct (close_step cf sh s) eqn:CS; try discriminate; inv_x; eapply close_step_gram; eauto; fail);
    try des_trig; repeat des_if; try inv_x; unfold gramI, set_pc in *; simpl; rewrite ?H0, ?H1; auto.
  all: try (destruct (c_iso (getc sh c)); repeat des_if; inv_x; auto; fail).
  all: try (apply gramL_upd_same; auto; fail).
  all: try (apply gramL_app; auto; fail).
  (* ITrig, ITrigErr *)
  all: try (unfold trigger in T; destruct (run_listeners _) as [calls r']; inversion T; subst; simpl;
            apply gramL_log_other; auto; [destruct kill; reflexivity| unfold valids in *; lia]; fail).
  all: try (unfold trigger in T; destruct (run_listeners _) as [calls r']; inversion T; subst; simpl;
            apply gramL_log_other; auto; unfold valids in *; lia).
  (* INewChild *)
  - destruct (negb (c_done _)); simpl; apply gramL_app; auto; apply gramL_upd_same; auto.
  - destruct (negb (c_done _)); simpl; apply gramL_app; auto; apply gramL_upd_same; auto.
  - apply gramL_app; auto; apply gramL_upd_same; auto.
  - apply gramL_app; auto; apply gramL_upd_same; auto.
  (* IC0 *)
  - unfold valids, closing, gets in *. assert (Hs : s < length (scopes sh)) by lia.
    destruct G as [B G0]. destruct (G0 s Hs) as [W K].
    destruct (s_pc (nth s (scopes sh) dscope)) eqn:PC; try discriminate.
    apply gramL_pc1; auto; try (split; auto); rewrite ?PC; auto.
Qed.

Lemma gramI_init progs : gramI (sh (init progs)).
Proof. split; simpl. tauto. intros; lia. Qed.

Lemma gram_reach progs sched : gramI (sh (run cfg_current sched (init progs))).
Proof. apply (run_shared_inv cfg_current gramI). intros; eapply exec_gram; eauto. apply gramI_init. Qed.

(** the word of a program counter is a prefix of the full word of its branch, without repetition *)
Definition is_prefix {A} (a b : list A) : Prop := exists c, b = a ++ c.

Lemma word_prefix p br : branch_ok p br = true -> is_prefix (word_of p br) (full_word (br_default br)).
Proof.
  unfold is_prefix. destruct p as [|e|e x|e|e|e x|e| | | | | |]; try destruct e; destruct br as [[]|]; simpl; intros H;
    try discriminate; eauto.
  all: try (eexists; reflexivity).
Qed.

Lemma word_nodup p br : NoDup (word_of p br).
Proof.
  destruct p as [|e|e x|e|e|e x|e| | | | | |]; try destruct e; destruct br as [[]|]; simpl;
    repeat constructor; simpl; intuition discriminate.
Qed.

Lemma event_grammar progs sched s :
  let st := run cfg_current sched (init progs) in
  s < length (scopes (sh st)) ->
  let w := close_word (log (sh st)) s in
  let sc := gets (sh st) s in
  w = word_of (s_pc sc) (s_branch sc) /\
  is_prefix w (full_word (br_default (s_branch sc))) /\ NoDup w /\
  (s_pc sc = CNone -> w = []) /\
  (s_pc sc = CFinished -> exists b, s_branch sc = Some b /\ w = full_word b).
Proof.
  intros st Hs w sc. destruct (gram_reach progs sched) as [_ G]. destruct (G s Hs) as [W K].
  fold st in W, K. unfold w, sc, gets. rewrite W. split; auto. split. apply word_prefix; auto.
  split. apply word_nodup. split. intros ->. reflexivity.
  intros E. rewrite E in *. simpl in K. destruct (s_branch (nth s (scopes (sh st)) dscope)) as [b|]; [|discriminate].
  exists b. auto.
Qed.

(** * Listener order inside one Trigger *)
Lemma run_listeners_all l :
  Forall (fun x => snd x = None) l -> run_listeners l = (map fst l, None).
Proof.
  induction 1 as [|[[o lid] f] l H F IH]; simpl in *; auto. subst. rewrite IH. reflexivity.
Qed.
Lemma run_listeners_first l1 o lid x l2 :
  Forall (fun y => snd y = None) l1 ->
  run_listeners (l1 ++ (o, lid, Some x) :: l2) = (map fst l1 ++ [(o, lid)], Some x).
Proof.
  induction 1 as [|[[o' lid'] f] l H F IH]; simpl in *; auto. subst. rewrite IH. reflexivity.
Qed.
Lemma chain_order f sh s e :
  chain (S f) sh s e =
  (match s_parent (gets sh s) with Some p => chain f sh p e | None => [] end) ++ table (gets sh s) s e.
Proof. reflexivity. Qed.
Lemma table_order sc owner e l1 l2 ev lid f :
  s_tabs sc = l1 ++ (ev, lid, f) :: l2 ->
  table sc owner e = table {| s_ctx := 0; s_wg := 0; s_tasks := 0; s_pc := CNone; s_branch := None;
                              s_parent := None; s_reg := None; s_tabs := l1 |} owner e
                     ++ (if event_eqb e ev then [(owner, lid, f)] else [])
                     ++ table {| s_ctx := 0; s_wg := 0; s_tasks := 0; s_pc := CNone; s_branch := None;
                              s_parent := None; s_reg := None; s_tabs := l2 |} owner e.
Proof. unfold table. intros ->. simpl. rewrite flat_map_app. simpl. reflexivity. Qed.

(** * Commit xor rollback *)
Lemma decide_step cf sh s :
  s_pc (gets sh s) = CDecide ->
  close_step cf sh s =
  xok (set_pc (upd_scope sh s (s_set_branch (Some (isnil (errs_of sh s))))) s CMark).
Proof. intros H. unfold close_step. rewrite H. reflexivity. Qed.

Lemma close_step_branch cf sh s sh' p o a sp s' b :
  gramI sh -> close_step cf sh s = XOk sh' p o a sp ->
  s_branch (gets sh s') = Some b -> s_branch (gets sh' s') = Some b.
Proof.
  intros G H.
  destruct (Nat.lt_ge_cases s (length (scopes sh))) as [Hs|Hs].
  2:{ unfold close_step, gets in H. rewrite nth_overflow in H by lia. simpl in H. unfold xok in H. inv_x. auto. }
  destruct G as [_ G]. destruct (G s Hs) as [_ K].
  unfold close_step, xok, set_pc in H. fold (gets sh s) in K.
  destruct (s_pc (gets sh s)) eqn:PC; try des_trig; repeat des_if; try inv_x; simpl; auto;
    unfold gets in *; simpl; rewrite ?H0, ?H1; rewrite ?nth_upd; repeat des_if; simpl; auto.
  - intros E. apply andb_prop in Heqb1 as [E1 _]. apply Nat.eqb_eq in E1. subst s'.
    rewrite E in K. discriminate.
  - intros E. apply andb_prop in Heqb1 as [E1 _]. apply Nat.eqb_eq in E1. subst s'.
    rewrite E in K. discriminate.
  - destruct (s_reg (nth s (scopes sh) dscope)); repeat des_if; inv_x; simpl; rewrite ?nth_upd; repeat des_if; simpl; auto.
Qed.

Lemma exec_branch cf b i sh sh' p o a sp s' br :
  gramI sh -> exec cf b i sh = XOk sh' p o a sp ->
  s_branch (gets sh s') = Some br -> s_branch (gets sh' s') = Some br.
Proof.
  intros G H. destruct i; unfold exec, xok, xpush in H;
    try (destruct (close_step cf sh s) eqn:CS; try discriminate; inv_x; eapply close_step_branch; eauto; fail);
    try des_trig; repeat des_if; try inv_x; unfold set_pc, gets in *; simpl; rewrite ?H0, ?H1; auto;
    rewrite ?nth_upd; repeat des_if; simpl; auto.
  all: try (destruct (c_iso (getc sh c)); repeat des_if; inv_x; auto; fail).
  all: intros E; destruct (Nat.lt_ge_cases s' (length (scopes sh))) as [Hs|Hs];
    try (rewrite nth_overflow in E by lia; discriminate).
  all: try (rewrite app_nth1 by (rewrite ?upd_length; lia); rewrite ?nth_upd; repeat des_if; simpl; auto).
Qed.

Lemma branch_stable progs s1 s2 s b :
  s_branch (gets (sh (run cfg_current s1 (init progs))) s) = Some b ->
  s_branch (gets (sh (run cfg_current (s1 ++ s2) (init progs))) s) = Some b.
Proof.
  rewrite run_app. intros H.
  pose proof (gram_reach progs s1) as G. revert G H.
  generalize (run cfg_current s1 (init progs)) as st. induction s2 as [|t s2 IH]; intros st G H; simpl; auto.
  unfold step_or_skip. destruct (step cfg_current t st) as [st'|] eqn:E; auto.
  apply IH.
  - eapply (shared_inv_step cfg_current gramI); eauto. intros; eapply exec_gram; eauto.
  - destruct t as [n b0].
    apply step_inv in E as (th & i & rest & todo & _ & _ & [(k & _ & ->)|(sh1 & p & o & a & sp & X & ->)]);
      simpl; auto. eapply exec_branch; eauto.
Qed.

(** * Close waits: when the wait returns the counter is zero, and the counter is exactly the
    outstanding accepted tasks plus the registered children that have not signed off *)
Lemma wg_reach progs sched : wgI (sh (run cfg_current sched (init progs))).
Proof. apply (run_shared_inv cfg_current wgI). intros; eapply exec_wg; eauto; reflexivity. apply wgI_init. Qed.

Lemma waits progs sched s :
  let st := run cfg_current sched (init progs) in
  s < length (scopes (sh st)) ->
  s_wg (gets (sh st) s) = (s_tasks (gets (sh st) s) + Z.of_nat (open_children (scopes (sh st)) s))%Z /\
  (s_pc (gets (sh st) s) = CWait ->
   (close_step cfg_current (sh st) s <> XBlocked <-> s_wg (gets (sh st) s) = 0%Z) /\
   (close_step cfg_current (sh st) s <> XBlocked -> (0 <= s_tasks (gets (sh st) s))%Z ->
    s_tasks (gets (sh st) s) = 0%Z /\ forall c, s_reg (gets (sh st) c) <> Some s)).
Proof.
  intros st Hs. destruct (wg_reach progs sched s Hs) as [E _]. fold st in E. split; auto.
  intros PC. unfold close_step. rewrite PC. unfold gets in *.
  assert (A : (if (s_wg (nth s (scopes (sh st)) dscope) =? 0)%Z then xok (set_pc (sh st) s CDecide) else XBlocked) <> XBlocked
              <-> s_wg (nth s (scopes (sh st)) dscope) = 0%Z).
  { destruct (Z.eqb_spec (s_wg (nth s (scopes (sh st)) dscope)) 0); split; auto; try discriminate; try tauto. }
  split; auto. intros NB T. apply A in NB. split. lia.
  assert (O : open_children (scopes (sh st)) s = 0) by lia.
  intros c R. unfold open_children in O.
  destruct (Nat.lt_ge_cases c (length (scopes (sh st)))) as [Hc|Hc].
  - assert (In (nth c (scopes (sh st)) dscope) (filter (reg_on s) (scopes (sh st)))).
    { apply filter_In. split. apply nth_In; auto. unfold reg_on. rewrite R. apply Nat.eqb_refl. }
    destruct (filter (reg_on s) (scopes (sh st))); simpl in *; auto; discriminate.
  - rewrite nth_overflow in R by lia. discriminate.
Qed.

(** a registration is cleared only by the child's own CSignOff step (after its AfterClose) *)
Lemma reg_cleared_by_signoff cf b i sh sh' p o a sp c q :
  exec cf b i sh = XOk sh' p o a sp -> c < length (scopes sh) ->
  s_reg (gets sh c) = Some q -> s_reg (gets sh' c) <> Some q ->
  i = IRunClose c /\ s_pc (gets sh c) = CSignOff.
Proof.
  intros H Hc R N. destruct i; unfold exec, xok, xpush in H;
    try des_trig; repeat des_if; try inv_x; unfold set_pc, gets in *; simpl in *;
    rewrite ?H0, ?H1 in *; try tauto;
    try (rewrite ?nth_upd in N; repeat des_if; simpl in *; tauto).
  all: try (destruct (c_iso (getc sh c0)); repeat des_if; inv_x; tauto).
  all: try (rewrite app_nth1 in N by (rewrite ?upd_length; lia); rewrite ?nth_upd in N; repeat des_if; simpl in *; tauto).
  (* IRunClose *)
  destruct (close_step cf sh s) eqn:CS; try discriminate. inv_x.
  unfold close_step, xok, set_pc, gets in CS.
  destruct (s_pc (nth s (scopes sh) dscope)) eqn:PC; try des_trig; repeat des_if; try inv_x; simpl in *;
    rewrite ?H0, ?H1 in *; try tauto;
    try (rewrite ?nth_upd in N; repeat des_if; simpl in *; tauto).
  destruct (s_reg (nth s (scopes sh) dscope)) eqn:R'; repeat des_if; inv_x; simpl in *;
    try (rewrite ?nth_upd in N; repeat des_if; simpl in *; tauto).
  rewrite !nth_upd, !upd_length in N.
  destruct (Nat.eqb_spec s c) as [->|Ne]; simpl in N. split; auto.
  repeat des_if; simpl in *; tauto.
Qed.

(** * Result, double close *)
Lemma close_result cf sh s :
  s_pc (gets sh s) = CRet ->
  close_step cf sh s = XOk (set_pc sh s CFinished) [] [OClosed s (negb (isnil (errs_of sh s)))] [] [].
Proof. intros H. unfold close_step. rewrite H. reflexivity. Qed.

Lemma double_close cf b sh s :
  valids sh s = true -> closing (gets sh s) = true -> exec cf b (IC0 s) sh = XPanic PDouble.
Proof. intros V C. simpl. rewrite V, C. reflexivity. Qed.

Lemma panic_keeps_shared cf t st st' :
  step cf t st = Some st' ->
  length (all_panics st') > length (all_panics st) -> sh st' = sh st.
Proof.
  destruct t as [n b]. intros H.
  apply step_inv in H as (th & i & rest & todo & Hn & _ & [(k & _ & ->)|(sh1 & p & o & a & sp & X & ->)]); simpl; auto.
  intros L. exfalso. revert L. unfold all_panics. simpl.
  destruct (upd_split' n (ths st) th Hn) as (l1 & l2 & E1 & E2). rewrite E2, E1.
  rewrite !flat_map_app. simpl.
  assert (Z : flat_map panics_of (map spawned sp) = []).
  { clear. induction sp as [|x sp IH]; simpl; auto. }
  rewrite Z, app_nil_r. fold panics_of. unfold panics_of at 2 5. simpl. rewrite filter_app.
  assert (F : filter is_panic o = []).
  { pose proof (exec_out_nopanic _ _ _ _ _ _ _ _ _ X) as F. clear -F. induction F as [|x l Hx F IH]; simpl; auto. rewrite Hx. auto. }
  rewrite F, app_nil_r. unfold panics_of. lia.
Qed.

(** * Shared context: an error or a kill in any scope on a context is seen by all scopes on it *)
Lemma acked_in_completed c es st th :
  In th (ths st) -> In (c, es) (t_acks th) -> incl es (completed c st).
Proof.
  intros Hin Ha e He. unfold completed. apply in_flat_map. exists th. split; auto.
  unfold acked. apply in_flat_map. exists (c, es). split; auto. simpl. rewrite Nat.eqb_refl. auto.
Qed.

Lemma shared_error progs sched th c es e s :
  let st := run cfg_current sched (init progs) in
  In th (ths st) -> In (c, es) (t_acks th) -> In e es ->
  s_ctx (gets (sh st) s) = c -> In e (errs_of (sh st) s).
Proof.
  intros st Hin Ha He Hc. unfold errs_of. rewrite Hc.
  pose proof (retained cfg_current progs sched c eq_refl) as P. fold st in P.
  eapply Permutation_in. symmetry. exact P.
  apply in_or_app. right. apply in_or_app. left. eapply acked_in_completed; eauto.
Qed.

(** * Frame: which contexts a micro-step can append to *)
Definition targets (sh : shared) (i : instr) : list nat :=
  match i with
  | ICAppend c _ => [c]
  | IRunClose s => [s_ctx (gets sh s)]
  | _ => []
  end.

Lemma close_step_frame cf sh s sh' p o a sp c :
  close_step cf sh s = XOk sh' p o a sp -> c <> s_ctx (gets sh s) ->
  c_errors (getc sh' c) = c_errors (getc sh c).
Proof.
  unfold close_step, xok, set_pc. intros H N.
  destruct (s_pc (gets sh s)) eqn:PC; try des_trig; repeat des_if; try inv_x; unfold getc in *; simpl;
    rewrite ?H0; auto; rewrite ?nth_upd; repeat des_if; simpl; auto;
    try (match goal with HH : (_ =? _) && _ = true |- _ => apply andb_prop in HH as [E _]; apply Nat.eqb_eq in E; congruence end).
  destruct (s_reg (gets sh s)); repeat des_if; inv_x; simpl; auto.
Qed.

Lemma exec_frame cf b i sh sh' p o a sp c :
  exec cf b i sh = XOk sh' p o a sp -> ~ In c (targets sh i) ->
  validc sh c = true -> c_errors (getc sh' c) = c_errors (getc sh c).
Proof.
  intros H N V. destruct i; unfold exec, xok, xpush in H; simpl in N;
    try (destruct (close_step cf sh s) eqn:CS; try discriminate; inv_x; eapply close_step_frame; eauto; fail);
    try des_trig; repeat des_if; try inv_x; unfold getc, validc in *; simpl; rewrite ?H0; auto;
    rewrite ?nth_upd; repeat des_if; simpl; auto;
    try (match goal with HH : (_ =? _) && _ = true |- _ => apply andb_prop in HH as [E _]; apply Nat.eqb_eq in E; tauto end);
    try (rewrite app_nth1 by lia; auto).
  all: try (destruct (c_iso (nth c0 (ctxs sh) dctx)); repeat des_if; inv_x; auto; fail).
  all: try (destruct (negb _); simpl; rewrite app_nth1 by lia; auto).
Qed.

(** * The watcher of an isolated context *)
Lemma watcher_steps cf b sh c p :
  c_iso (getc sh c) = Some p -> c_done (getc sh p) = true -> c_done (getc sh c) = false ->
  exec cf b (IWatch c) sh = xpush sh [IWatchRead c] /\
  exec cf b (IWatchRead c) sh =
    xpush sh [if isnil (c_errors (getc sh p)) then ICStop c [] else ICAppend c [Canceled]].
Proof.
  intros I P S. simpl. rewrite I, P, S. simpl. split; auto. destruct (isnil _); auto.
Qed.

Lemma watcher_kills sh c :
  validc sh c = true ->
  exec cfg_current true (ICAppend c [Canceled]) sh = xpush (upd_ctx sh c (c_append [Canceled])) [ICStop c [Canceled]] /\
  (forall es, exec cfg_current true (ICStop c es) sh = XOk (upd_ctx sh c c_close) [] [] [(c, es)] []) /\
  c_done (getc (upd_ctx sh c c_close) c) = true /\
  c_errors (getc (upd_ctx sh c (c_append [Canceled])) c) = c_errors (getc sh c) ++ [Canceled].
Proof.
  intros V. simpl. rewrite V. repeat split; auto.
  - rewrite getc_upd_ctx, Nat.eqb_refl, V. reflexivity.
  - rewrite getc_upd_ctx, Nat.eqb_refl, V. reflexivity.
Qed.

(** * No stuck state other than waiting *)
Lemma watch_blocked cf b c sh : exec cf b (IWatch c) sh = XBlocked ->
  exists p, c_iso (getc sh c) = Some p /\ c_done (getc sh p) = false /\ c_done (getc sh c) = false.
Proof.
  simpl. unfold xok, xpush. destruct (c_iso (getc sh c)) as [p|] eqn:I; try discriminate.
  destruct (c_done (getc sh p)) eqn:P; destruct (c_done (getc sh c)) eqn:S; destruct b; simpl;
    try discriminate; eauto.
Qed.

Lemma blocked_only cf b i sh :
  exec cf b i sh = XBlocked ->
  (exists s, i = IRunClose s /\ s_pc (gets sh s) = CWait /\ s_wg (gets sh s) <> 0%Z) \/
  (exists s, i = IWait s /\ s_wg (gets sh s) <> 0%Z) \/
  (exists c p, i = IWatch c /\ c_iso (getc sh c) = Some p /\
               c_done (getc sh p) = false /\ c_done (getc sh c) = false).
Proof.
  intros H. destruct i; try (apply watch_blocked in H as (p & A & B & C); right; right; eauto 10; fail);
    unfold exec, xok, xpush in H; try des_trig; repeat des_if; try discriminate.
  - left. exists s. split; auto.
    destruct (close_step cf sh s) eqn:CS; try discriminate.
    unfold close_step, xok in CS. destruct (s_pc (gets sh s)) eqn:PC; try des_trig; repeat des_if; try discriminate.
    + split; auto. lia.
    + destruct (s_reg (gets sh s)); repeat des_if; discriminate.
  - right. left. exists s. split; auto. lia.
  - destruct (c_iso (getc sh c)); repeat des_if; discriminate.
Qed.

Lemma commit_xor_rollback :
  (forall cf sh s, s_pc (gets sh s) = CDecide ->
     close_step cf sh s = xok (set_pc (upd_scope sh s (s_set_branch (Some (isnil (errs_of sh s))))) s CMark)) /\
  (forall progs s1 s2 s b,
     s_branch (gets (sh (run cfg_current s1 (init progs))) s) = Some b ->
     s_branch (gets (sh (run cfg_current (s1 ++ s2) (init progs))) s) = Some b) /\
  (forall progs sched s, let st := run cfg_current sched (init progs) in
     s < length (scopes (sh st)) -> s_pc (gets (sh st) s) = CFinished ->
     exists b, s_branch (gets (sh st) s) = Some b /\
       close_word (log (sh st)) s = BC :: (if b then [BCo; Co; ACo] else [BR; Ro; AR]) ++ [AC]).
Proof.
  split. exact decide_step. split. exact branch_stable.
  intros progs sched s st Hs F. destruct (event_grammar progs sched s Hs) as (_ & _ & _ & _ & G).
  destruct (G F) as (b & E & W). exists b. split; auto. fold st in W. rewrite W. destruct b; reflexivity.
Qed.
