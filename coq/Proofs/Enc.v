(** Proofs about Model/Enc.v (encrypted filespace, C05). *)
From GC Require Import Common.Base Model.Enc.
From Coq Require Import ZArith Lia ZifyBool ZifyNat ZifyN.

(** * List helpers *)
Lemma firstn_app_len {A} (a b : list A) : firstn (length a) (a ++ b) = a.
Proof. induction a; simpl; congruence. Qed.
Lemma skipn_app_len {A} (a b : list A) : skipn (length a) (a ++ b) = b.
Proof. induction a; simpl; congruence. Qed.
Lemma firstn_app_n {A} n (a b : list A) : length a = n -> firstn n (a ++ b) = a.
Proof. intros <-. apply firstn_app_len. Qed.
Lemma skipn_app_n {A} n (a b : list A) : length a = n -> skipn n (a ++ b) = b.
Proof. intros <-. apply skipn_app_len. Qed.
Lemma app_eq_len {A} (a b c d : list A) : length a = length c -> a ++ b = c ++ d -> a = c /\ b = d.
Proof.
  revert c; induction a as [|x a IH]; intros [|y c] L E; simpl in *; try discriminate.
  - auto.
  - inversion E; subst. destruct (IH c) as [-> ->]; auto.
Qed.

Lemma cipher_tag_eq : cipher_tag = [0; 0; 0; 0].
Proof. reflexivity. Qed.
Lemma header_len c : length (header c) = match c with Raw => 0%nat | Tagged => 4%nat end.
Proof. destruct c; reflexivity. Qed.

Lemma known_cipher_zero b0 b1 b2 b3 :
  known_cipher (b0 + 256 * b1 + 65536 * b2 + 16777216 * b3) = true <-> (b0 = 0 /\ b1 = 0 /\ b2 = 0 /\ b3 = 0).
Proof. unfold known_cipher, AESGCM256CFS. rewrite N.eqb_eq. lia. Qed.

Lemma has_prefix_tag b0 b1 b2 b3 r :
  has_prefix (b0 :: b1 :: b2 :: b3 :: r) [0; 0; 0; 0]
  = known_cipher (b0 + 256 * b1 + 65536 * b2 + 16777216 * b3).
Proof.
  destruct (known_cipher _) eqn:K.
  - apply known_cipher_zero in K as (-> & -> & -> & ->). destruct r; reflexivity.
  - cbn [has_prefix]. destruct (N.eqb_spec 0 b0), (N.eqb_spec 0 b1), (N.eqb_spec 0 b2), (N.eqb_spec 0 b3);
      try reflexivity. subst. vm_compute in K. discriminate K.
Qed.

Lemma has_prefix_nil (l : bytes) : has_prefix l [] = true.
Proof. destruct l; reflexivity. Qed.

Lemma has_prefix_app (a b : bytes) : has_prefix (a ++ b) a = true.
Proof.
  induction a; cbn [app]; [destruct b; reflexivity|]. cbn [has_prefix]. rewrite N.eqb_refl. auto.
Qed.

Lemma has_prefix_split (s h : bytes) : has_prefix s h = true -> s = h ++ skipn (length h) s.
Proof.
  revert s; induction h as [|x h IH]; intros s H; [reflexivity|].
  destruct s as [|y s]; [discriminate|]. cbn [has_prefix] in H. apply andb_true_iff in H as [H1 H2].
  apply N.eqb_eq in H1. subst. cbn [length skipn app]. f_equal. auto.
Qed.

Section Proofs.
  Variable key : Type.
  Variable seal : key -> nonce -> bytes -> bytes.
  Variable open : key -> nonce -> bytes -> option bytes.
  Variable hash : bytes -> key.
  Variable hostid : bytes.

  Notation raw_encrypt := (raw_encrypt key seal hash).
  Notation raw_decrypt := (raw_decrypt key open hash).
  Notation ext_encrypt := (ext_encrypt key seal hash).
  Notation ext_decrypt := (ext_decrypt key open hash).
  Notation encrypt := (encrypt key seal hash).
  Notation decrypt := (decrypt key open hash).
  Notation stream_write := (stream_write key seal hash).
  Notation store := (store key seal hash).
  Notation raw_reader := (raw_reader key open hash).
  Notation ext_reader := (ext_reader key open hash).
  Notation decrypt_reader := (decrypt_reader key open hash).
  Notation read_stored := (read_stored key open hash).
  Notation fs_write := (fs_write key seal hash hostid).
  Notation fs_read := (fs_read key open hash hostid).
  Notation keymat := (keymat hostid).

  (** * Characterisation of Decrypt: the slice expressions are always in range. *)
  Lemma raw_decrypt_spec km d :
    raw_decrypt km d =
    if Nat.ltb (length d) NONCE_SIZE then Err
    else match open (hash km) (firstn NONCE_SIZE d) (skipn NONCE_SIZE d) with Some p => Ok p | None => Err end.
  Proof.
    unfold Enc.raw_decrypt, slice_to, slice_from.
    destruct (Nat.ltb_spec (length d) NONCE_SIZE) as [L|L]; [reflexivity|].
    destruct (Nat.leb_spec NONCE_SIZE (length d)) as [_|L']; [reflexivity|lia].
  Qed.

  Lemma ext_decrypt_short km d : (length d < 4)%nat -> ext_decrypt km d = Err.
  Proof.
    intros L. unfold Enc.ext_decrypt, TAG_SIZE.
    destruct (Nat.ltb_spec (length d) 4); [reflexivity|lia].
  Qed.

  Lemma ext_decrypt_cons km b0 b1 b2 b3 r :
    ext_decrypt km (b0 :: b1 :: b2 :: b3 :: r) =
    if known_cipher (b0 + 256 * b1 + 65536 * b2 + 16777216 * b3) then raw_decrypt km r else Err.
  Proof. reflexivity. Qed.

  Lemma decrypt_spec c km s :
    decrypt c km s =
    if Nat.ltb (length s) (length (header c) + NONCE_SIZE) then Err
    else if negb (has_prefix s (header c)) then Err
    else match open (hash km) (nonce_field c s) (sealed_field c s) with Some p => Ok p | None => Err end.
  Proof.
    destruct c.
    - cbn [Enc.decrypt header length Nat.add has_prefix negb]. unfold nonce_field, sealed_field.
      cbn [header length skipn]. rewrite has_prefix_nil. cbn [negb]. apply raw_decrypt_spec.
    - cbn [Enc.decrypt]. unfold nonce_field, sealed_field. rewrite header_len.
      cbn [header]. rewrite cipher_tag_eq.
      destruct (Nat.ltb_spec (length s) 4) as [L|L].
      + rewrite ext_decrypt_short by assumption.
        destruct (Nat.ltb_spec (length s) (4 + NONCE_SIZE)); [reflexivity|unfold NONCE_SIZE in *; lia].
      + destruct s as [|b0 [|b1 [|b2 [|b3 r]]]]; simpl in L; try lia.
        rewrite ext_decrypt_cons, has_prefix_tag.
        destruct (known_cipher _).
        * cbn [negb skipn]. rewrite raw_decrypt_spec. unfold NONCE_SIZE. cbn [length].
          destruct (Nat.ltb_spec (length r) 12), (Nat.ltb_spec (S (S (S (S (length r))))) (4 + 12)); try lia; reflexivity.
        * cbn [negb]. destruct (Nat.ltb _ _); reflexivity.
  Qed.

  Lemma decrypt_no_panic c km s : decrypt c km s <> Panic.
  Proof.
    rewrite decrypt_spec. destruct (Nat.ltb _ _); [discriminate|].
    destruct (negb _); [discriminate|]. destruct (open _ _ _); discriminate.
  Qed.

  (** * Structure of what Encrypt / the stream writer produce. *)
  Lemma encrypt_structure c km n p : encrypt c km n p = header c ++ n ++ seal (hash km) n p.
  Proof. destruct c; reflexivity. Qed.

  Lemma fold_writer chunks st :
    fold_left writer_write chunks st = {| w_out := w_out st; w_buf := w_buf st ++ concat chunks |}.
  Proof.
    revert st; induction chunks as [|x l IH]; intros [o b]; simpl.
    - rewrite app_nil_r. reflexivity.
    - rewrite IH. simpl. rewrite app_assoc. reflexivity.
  Qed.

  Lemma stream_write_eq c km n chunks : stream_write c km n chunks = encrypt c km n (concat chunks).
  Proof.
    unfold Enc.stream_write. rewrite fold_writer. unfold writer_close, writer_open. simpl.
    rewrite encrypt_structure. reflexivity.
  Qed.

  Lemma store_eq c km n w : store c km n w = encrypt c km n (wreq_data w).
  Proof. destruct w; simpl; [reflexivity|apply stream_write_eq]. Qed.

  Lemma store_structure c km n w : store c km n w = header c ++ n ++ seal (hash km) n (wreq_data w).
  Proof. rewrite store_eq. apply encrypt_structure. Qed.

  Lemma store_only_through_seal c km n w1 w2 :
    seal (hash km) n (wreq_data w1) = seal (hash km) n (wreq_data w2) -> store c km n w1 = store c km n w2.
  Proof. intros E. rewrite !store_structure, E. reflexivity. Qed.

  (** Fields of a well-formed stored value. *)
  Lemma fields_of_frame c n x :
    length n = NONCE_SIZE ->
    has_prefix (header c ++ n ++ x) (header c) = true /\
    nonce_field c (header c ++ n ++ x) = n /\ sealed_field c (header c ++ n ++ x) = x /\
    Nat.ltb (length (header c ++ n ++ x)) (length (header c) + NONCE_SIZE) = false.
  Proof.
    intros L. unfold nonce_field, sealed_field. rewrite skipn_app_len.
    rewrite firstn_app_n, skipn_app_n by assumption. rewrite has_prefix_app.
    repeat split; try reflexivity. rewrite !app_length. apply Nat.ltb_ge. lia.
  Qed.

  Lemma decrypt_frame c km n x :
    length n = NONCE_SIZE ->
    decrypt c km (header c ++ n ++ x) = match open (hash km) n x with Some p => Ok p | None => Err end.
  Proof.
    intros L. rewrite decrypt_spec. destruct (fields_of_frame c n x L) as (P & N & S & G).
    rewrite G, P, N, S. reflexivity.
  Qed.

  (** * The stream reader: equals Decrypt on a fault-free stream, closes the base exactly once always. *)
  Lemma raw_reader_closes km st : s_closes (snd (raw_reader km st)) = S (s_closes st).
  Proof.
    unfold Enc.raw_reader, read_all, close. destruct st as [d f ce n]; simpl.
    destruct f; simpl; [reflexivity|]. destruct ce; reflexivity.
  Qed.

  Lemma raw_reader_no_panic km st : fst (raw_reader km st) <> Panic.
  Proof.
    unfold Enc.raw_reader, read_all, close. destruct st as [d f ce n]; simpl.
    destruct f; simpl; [discriminate|]. destruct ce; simpl; [discriminate|].
    apply (decrypt_no_panic Raw).
  Qed.

  Lemma le32_firstn4 d : (4 <= length d)%nat -> exists id, le32 (firstn 4 d) = Ok id.
  Proof.
    intros L. destruct d as [|b0 [|b1 [|b2 [|b3 r]]]]; simpl in L; try lia. eexists; reflexivity.
  Qed.

  Lemma ext_reader_closes km st : s_closes (snd (ext_reader km st)) = S (s_closes st).
  Proof.
    unfold Enc.ext_reader, read_full, TAG_SIZE.
    destruct (Nat.ltb_spec (length (s_data st)) 4) as [L|L]; [reflexivity|].
    destruct (le32_firstn4 _ L) as [id ->].
    destruct (known_cipher id); [|reflexivity]. rewrite raw_reader_closes. reflexivity.
  Qed.

  Lemma ext_reader_no_panic km st : fst (ext_reader km st) <> Panic.
  Proof.
    unfold Enc.ext_reader, read_full, TAG_SIZE.
    destruct (Nat.ltb_spec (length (s_data st)) 4) as [L|L]; [discriminate|].
    destruct (le32_firstn4 _ L) as [id ->].
    destruct (known_cipher id); [apply raw_reader_no_panic|discriminate].
  Qed.

  Lemma decrypt_reader_closes c km st : s_closes (snd (decrypt_reader c km st)) = S (s_closes st).
  Proof. destruct c; [apply raw_reader_closes|apply ext_reader_closes]. Qed.

  Lemma decrypt_reader_no_panic c km st : fst (decrypt_reader c km st) <> Panic.
  Proof. destruct c; [apply raw_reader_no_panic|apply ext_reader_no_panic]. Qed.

  Lemma decrypt_reader_handles c km d :
    open_handles (snd (decrypt_reader c km (mkstream d))) = 0%Z.
  Proof. unfold open_handles. rewrite decrypt_reader_closes. reflexivity. Qed.

  Lemma raw_reader_ok km d n : fst (raw_reader km {| s_data := d; s_fail := false; s_close_err := false; s_closes := n |}) = raw_decrypt km d.
  Proof. reflexivity. Qed.

  Lemma reader_eq_decrypt c km s : fst (decrypt_reader c km (mkstream s)) = decrypt c km s.
  Proof.
    destruct c; [reflexivity|].
    cbn [Enc.decrypt_reader Enc.decrypt]. unfold Enc.ext_reader, read_full, TAG_SIZE, mkstream. cbn [s_data].
    destruct (Nat.ltb_spec (length s) 4) as [L|L].
    - rewrite ext_decrypt_short by assumption. reflexivity.
    - destruct s as [|b0 [|b1 [|b2 [|b3 r]]]]; simpl in L; try lia.
      rewrite ext_decrypt_cons. cbn [firstn skipn le32 s_fail s_close_err s_closes].
      destruct (known_cipher _); reflexivity.
  Qed.

  Lemma read_stored_eq rp c km s : read_stored rp c km s = decrypt c km s.
  Proof. destruct rp; [reflexivity|apply reader_eq_decrypt]. Qed.

  (** * No panic (no premise about the primitives). *)
  Lemma read_stored_no_panic rp c km s : read_stored rp c km s <> Panic.
  Proof. rewrite read_stored_eq. apply decrypt_no_panic. Qed.

  (** * The filespace level in terms of read_stored. *)
  Lemma upd_same f p d : upd f p d p = Some d.
  Proof. unfold upd. rewrite bytes_eqb_refl. reflexivity. Qed.

  Lemma fs_read_fst rp c s st p :
    fst (fs_read rp c s st p) =
    match files st p with None => Err | Some d => read_stored rp c (keymat s) d end.
  Proof.
    unfold Enc.fs_read. destruct (files st p); [|reflexivity].
    destruct rp; [reflexivity|]. cbn [Enc.read_stored].
    destruct (Enc.decrypt_reader _ _ _ _ _ _); reflexivity.
  Qed.

  Lemma fs_read_after_write rp c s2 c1 s1 n st p w :
    fst (fs_read rp c s2 (fs_write c1 s1 n st p w) p) = read_stored rp c (keymat s2) (store c1 (keymat s1) n w).
  Proof. rewrite fs_read_fst. cbn [Enc.fs_write files]. rewrite upd_same. reflexivity. Qed.

  Lemma fs_read_handles rp c s st p : handles (snd (fs_read rp c s st p)) = handles st.
  Proof.
    unfold Enc.fs_read. destruct (files st p); [|reflexivity].
    destruct rp; [reflexivity|].
    pose proof (decrypt_reader_closes c (keymat s) (mkstream b)) as C.
    destruct (Enc.decrypt_reader _ _ _ _ _ _) as [r sm]. cbn [snd handles] in *.
    rewrite C. cbn [mkstream s_closes]. lia.
  Qed.

  Lemma fs_read_files rp c s st p : files (snd (fs_read rp c s st p)) = files st.
  Proof.
    unfold Enc.fs_read. destruct (files st p); [|reflexivity].
    destruct rp; [reflexivity|]. destruct (Enc.decrypt_reader _ _ _ _ _ _); reflexivity.
  Qed.

  Lemma fs_read_no_leak rp c s st p :
    handles (snd (fs_read rp c s st p)) = handles st /\ files (snd (fs_read rp c s st p)) = files st.
  Proof. split; [apply fs_read_handles|apply fs_read_files]. Qed.

  (** * Round trip (H1). *)
  Section WithH1.
    Hypothesis H1 : aead_correct seal open.

    Lemma roundtrip_stored rp c km n w :
      length n = NONCE_SIZE -> read_stored rp c km (store c km n w) = Ok (wreq_data w).
    Proof.
      intros L. rewrite read_stored_eq, store_structure, decrypt_frame by assumption.
      rewrite H1. reflexivity.
    Qed.

    Lemma roundtrip_fs rp c s n st p w :
      length n = NONCE_SIZE -> fst (fs_read rp c s (fs_write c s n st p w) p) = Ok (wreq_data w).
    Proof. intros L. rewrite fs_read_after_write. apply roundtrip_stored; assumption. Qed.

    Lemma not_sealed_of_open_none k n c : open k n c = None -> ~ sealed_under seal k n c.
    Proof. intros O [p ->]. rewrite H1 in O. discriminate. Qed.
  End WithH1.

  (** * Tampering (H2, H4, H5). *)
  Lemma decrypt_ok_fields c km s p :
    decrypt c km s = Ok p ->
    s = header c ++ nonce_field c s ++ sealed_field c s /\ length (nonce_field c s) = NONCE_SIZE /\
    open (hash km) (nonce_field c s) (sealed_field c s) = Some p.
  Proof.
    rewrite decrypt_spec.
    destruct (Nat.ltb_spec (length s) (length (header c) + NONCE_SIZE)) as [L|L]; [discriminate|].
    destruct (has_prefix s (header c)) eqn:P; cbn [negb]; [|discriminate].
    destruct (open _ _ _) eqn:O; [|discriminate]. intros E; inversion E; subst.
    unfold nonce_field, sealed_field in *. rewrite firstn_skipn.
    split; [apply has_prefix_split; assumption|]. split; [|reflexivity].
    rewrite firstn_length, skipn_length. lia.
  Qed.

  Section WithH2.
    Hypothesis H2 : aead_ideal seal open.

    Lemma tamper_main rp c km s p :
      read_stored rp c km s = Ok p ->
      s = encrypt c km (nonce_field c s) p /\ length (nonce_field c s) = NONCE_SIZE.
    Proof.
      rewrite read_stored_eq. intros D. apply decrypt_ok_fields in D as (E & L & O).
      apply H2 in O. split; [|assumption]. rewrite encrypt_structure, <- O. assumption.
    Qed.

    (** Changing only the sealed part into something that is not itself a sealed message. *)
    Lemma tamper_sealed rp c km n c' :
      length n = NONCE_SIZE -> ~ sealed_under seal (hash km) n c' ->
      read_stored rp c km (header c ++ n ++ c') = Err.
    Proof.
      intros L NS. rewrite read_stored_eq, decrypt_frame by assumption.
      destruct (open _ _ _) eqn:O; [|reflexivity]. apply H2 in O. exfalso. apply NS. eexists; eassumption.
    Qed.

    Section WithH4.
      Hypothesis H4 : aead_len seal.

      Lemma tamper_short rp c km s :
        (length s < length (header c) + NONCE_SIZE + OVERHEAD)%nat -> read_stored rp c km s = Err.
      Proof.
        intros L. destruct (read_stored rp c km s) eqn:R; [|reflexivity|].
        - apply tamper_main in R as [E Ln]. exfalso. rewrite E, encrypt_structure in L.
          rewrite !app_length, H4, Ln in L. lia.
        - exfalso. revert R. apply read_stored_no_panic.
      Qed.

      Lemma not_sealed_short k n c : (length c < OVERHEAD)%nat -> ~ sealed_under seal k n c.
      Proof. intros L [p ->]. rewrite H4 in L. lia. Qed.

      (** Every truncation of a stored value. *)
      Lemma tamper_trunc rp c km n p m :
        length n = NONCE_SIZE ->
        (m < length (encrypt c km n p))%nat ->
        (let j := (m - length (header c) - NONCE_SIZE)%nat in
         (OVERHEAD <= j)%nat -> ~ sealed_under seal (hash km) n (firstn j (seal (hash km) n p))) ->
        read_stored rp c km (firstn m (encrypt c km n p)) = Err.
      Proof.
        intros L M NS.
        destruct (Nat.lt_ge_cases m (length (header c) + NONCE_SIZE + OVERHEAD)) as [S|S].
        - apply tamper_short. rewrite firstn_length. lia.
        - rewrite encrypt_structure in *. rewrite !app_length in M.
          assert (E : firstn m (header c ++ n ++ seal (hash km) n p)
                      = header c ++ n ++ firstn (m - length (header c) - NONCE_SIZE) (seal (hash km) n p)).
          { rewrite firstn_app. rewrite firstn_all2 by lia. f_equal.
            rewrite firstn_app. rewrite firstn_all2 by lia. rewrite L. reflexivity. }
          rewrite E. apply tamper_sealed; [assumption|]. apply NS. cbv zeta. lia.
      Qed.
    End WithH4.

    (** A change of one byte of the sealed part never yields the original data, and yields an
        error unless the changed string is itself a sealed message (a forgery of the primitive). *)
    Lemma tamper_byte_not_original rp c km n p i b :
      length n = NONCE_SIZE ->
      (i < length (seal (hash km) n p))%nat -> b <> nth i (seal (hash km) n p) 0 ->
      read_stored rp c km (header c ++ n ++ firstn i (seal (hash km) n p) ++ b :: skipn (S i) (seal (hash km) n p)) <> Ok p.
    Proof.
      intros L I B R. rewrite read_stored_eq, decrypt_frame in R by assumption.
      destruct (open _ _ _) eqn:O; [|discriminate]. inversion R; subst. apply H2 in O.
      apply B. set (c0 := seal (hash km) n p) in *.
      assert (N : nth i (firstn i c0 ++ b :: skipn (S i) c0) 0 = b).
      { rewrite app_nth2; rewrite firstn_length; [|lia].
        replace (i - Nat.min i (length c0))%nat with 0%nat by lia. reflexivity. }
      rewrite O in N. symmetry. exact N.
    Qed.
  End WithH2.

  (** The tag field (extcfs): any tag other than 00 00 00 00 is an unknown cipher. *)
  Lemma tamper_tag rp km b0 b1 b2 b3 r :
    [b0; b1; b2; b3] <> cipher_tag -> read_stored rp Tagged km (b0 :: b1 :: b2 :: b3 :: r) = Err.
  Proof.
    intros T. rewrite read_stored_eq. cbn [Enc.decrypt]. rewrite ext_decrypt_cons.
    destruct (known_cipher _) eqn:K; [|reflexivity].
    apply known_cipher_zero in K as (-> & -> & -> & ->). exfalso. apply T. reflexivity.
  Qed.

  Lemma tamper_empty rp c km : read_stored rp c km [] = Err.
  Proof. rewrite read_stored_eq, decrypt_spec. destruct c; reflexivity. Qed.

  Section WithH5.
    Hypothesis H5 : aead_separated seal open.

    (** The nonce field. *)
    Lemma tamper_nonce rp c km n n' p :
      length n = NONCE_SIZE -> length n' = NONCE_SIZE -> n' <> n ->
      read_stored rp c km (header c ++ n' ++ seal (hash km) n p) = Err.
    Proof.
      intros L L' D. rewrite read_stored_eq, decrypt_frame by assumption.
      destruct (open _ _ _) eqn:O; [|reflexivity]. apply H5 in O as [_ E]; try assumption. contradiction.
    Qed.

    (** Another key. *)
    Lemma wrong_key_stored rp c km1 km2 n w :
      length n = NONCE_SIZE -> hash km1 <> hash km2 ->
      read_stored rp c km2 (store c km1 n w) = Err.
    Proof.
      intros L D. rewrite read_stored_eq, store_structure, decrypt_frame by assumption.
      destruct (open _ _ _) eqn:O; [|reflexivity]. apply H5 in O as [E _]; try assumption.
      exfalso. apply D. symmetry. assumption.
    Qed.

    Lemma wrong_key_fs rp c s1 s2 n st p w :
      length n = NONCE_SIZE -> keymat s1 <> keymat s2 ->
      (hash (keymat s1) = hash (keymat s2) -> keymat s1 = keymat s2) ->
      fst (fs_read rp c s2 (fs_write c s1 n st p w) p) = Err.
    Proof.
      intros L D Inj. rewrite fs_read_after_write. apply wrong_key_stored; [assumption|].
      intros E. apply D, Inj, E.
    Qed.
  End WithH5.

  (** * Freshness: different nonces, different stored bytes (whatever the data). *)
  Lemma fresh_store c km n1 n2 w1 w2 :
    length n1 = NONCE_SIZE -> length n2 = NONCE_SIZE -> n1 <> n2 -> store c km n1 w1 <> store c km n2 w2.
  Proof.
    intros L1 L2 D E. rewrite !store_structure in E. apply app_inv_head in E.
    apply app_eq_len in E as [E _]; [contradiction|congruence].
  Qed.

  (** Same data under the same key: the stored bytes repeat exactly when the nonce repeats.  So
      a nonce source that returns to a value it had before - because the generator, the clock, the
      counter or the process it reads were in the same state - repeats the stored bytes, and
      nothing else does. *)
  Lemma same_store_iff_same_nonce c km n1 n2 w :
    length n1 = NONCE_SIZE -> length n2 = NONCE_SIZE ->
    (store c km n1 w = store c km n2 w <-> n1 = n2).
  Proof.
    intros L1 L2. split.
    - intros E. destruct (list_eq_dec N.eq_dec n1 n2) as [|D]; [assumption|].
      exfalso. exact (fresh_store c km n1 n2 w w L1 L2 D E).
    - intros ->. reflexivity.
  Qed.
End Proofs.

(** * Name space: pass-through. *)
Lemma fs_ns_passthrough nsop nsres (base_ns : nsop -> (path -> option bytes) -> nsres * (path -> option bytes)) op st :
  fs_ns nsop nsres base_ns op st =
  (fst (base_ns op (files st)), {| files := snd (base_ns op (files st)); handles := handles st |}).
Proof. unfold fs_ns. destruct (base_ns op (files st)); reflexivity. Qed.

(** * F30: the key material is an unseparated concatenation. *)
Definition f30_s1 : settings := {| secret := [97; 98]; salt := [99]; hostonly := false |}.   (* "ab","c" *)
Definition f30_s2 : settings := {| secret := [97]; salt := [98; 99]; hostonly := false |}.   (* "a","bc" *)

Lemma f30_same_keymat hostid : keymat hostid f30_s1 = keymat hostid f30_s2.
Proof. reflexivity. Qed.

Lemma f30_refuted :
  exists s1 s2 : settings,
    secret s1 <> secret s2 /\ salt s1 <> salt s2 /\ hostonly s1 = hostonly s2 /\
    forall key seal open hash hostid, aead_correct seal open ->
    forall rp c n st p w, length n = NONCE_SIZE ->
      fst (fs_read key open hash hostid rp c s2 (fs_write key seal hash hostid c s1 n st p w) p) = Ok (wreq_data w).
Proof.
  exists f30_s1, f30_s2. repeat split; try discriminate.
  intros key seal open hash hostid H1 rp c n st p w L.
  rewrite fs_read_after_write. rewrite <- f30_same_keymat. apply roundtrip_stored; assumption.
Qed.

(** * The toy AEAD satisfies H1, H2, H4, H5. *)
Lemma toy_mac_len k n p : length (toy_mac k n p) = 16%nat.
Proof.
  unfold toy_mac, pad12. cbn [length]. rewrite app_length, firstn_length, app_length, repeat_length.
  cbn [length]. lia.
Qed.

Lemma toy_H4 : aead_len toy_seal.
Proof. intros k n p. unfold toy_seal. rewrite app_length, toy_mac_len. reflexivity. Qed.

Lemma toy_front k n p : firstn (length (toy_seal k n p) - 16) (toy_seal k n p) = p.
Proof.
  rewrite toy_H4. unfold OVERHEAD. replace (length p + 16 - 16)%nat with (length p) by lia.
  apply firstn_app_len.
Qed.

Lemma toy_H1 : aead_correct toy_seal toy_open.
Proof.
  intros k n p. unfold toy_open. rewrite toy_front, bytes_eqb_refl, toy_H4.
  unfold OVERHEAD. destruct (Nat.leb_spec 16 (length p + 16)); [reflexivity|lia].
Qed.

Lemma toy_H2 : aead_ideal toy_seal toy_open.
Proof.
  intros k n c p. unfold toy_open.
  destruct (Nat.leb 16 (length c)); cbn [andb]; [|discriminate].
  destruct (bytes_eqb c _) eqn:E; [|discriminate].
  intros I; injection I as <-. apply bytes_eqb_spec in E. exact E.
Qed.

Lemma pad12_id n : length n = 12%nat -> pad12 n = n.
Proof. intros L. unfold pad12. apply firstn_app_n. assumption. Qed.

Lemma toy_H5 : aead_separated toy_seal toy_open.
Proof.
  intros k n p k' n' p' L L'. unfold toy_open. rewrite toy_front.
  destruct (Nat.leb 16 _); cbn [andb]; [|discriminate].
  destruct (bytes_eqb _ _) eqn:E; [|discriminate]. intros _.
  apply bytes_eqb_spec in E. unfold toy_seal in E. apply app_inv_head in E.
  unfold toy_mac in E. inversion E as [[K P]]. split; [reflexivity|].
  apply app_eq_len in P as [P _].
  - rewrite !pad12_id in P by assumption. congruence.
  - unfold pad12. rewrite !firstn_length, !app_length, !repeat_length. unfold NONCE_SIZE in *. lia.
Qed.

(** * Statements freed of section variables that only the arithmetic automation captured
      (instantiated with dummies: the statements do not mention them). *)
Definition nil_seal {key} : key -> nonce -> bytes -> bytes := fun _ _ _ => [].

Lemma tamper_empty_c key open (hash : bytes -> key) rp c km : read_stored key open hash rp c km [] = Err.
Proof. exact (tamper_empty key nil_seal open hash rp c km). Qed.

Lemma tamper_tag_c key open (hash : bytes -> key) rp km b0 b1 b2 b3 r :
  [b0; b1; b2; b3] <> cipher_tag -> read_stored key open hash rp Tagged km (b0 :: b1 :: b2 :: b3 :: r) = Err.
Proof. exact (tamper_tag key nil_seal open hash rp km b0 b1 b2 b3 r). Qed.

Lemma read_stored_no_panic_c key open (hash : bytes -> key) rp c km s : read_stored key open hash rp c km s <> Panic.
Proof. exact (read_stored_no_panic key nil_seal open hash rp c km s). Qed.

Lemma decrypt_reader_no_panic_c key open (hash : bytes -> key) c km st : fst (decrypt_reader key open hash c km st) <> Panic.
Proof. exact (decrypt_reader_no_panic key nil_seal open hash [] c km st). Qed.

Lemma decrypt_reader_closes_c key open (hash : bytes -> key) c km st :
  s_closes (snd (decrypt_reader key open hash c km st)) = S (s_closes st).
Proof. exact (decrypt_reader_closes key nil_seal open hash [] c km st). Qed.

Lemma decrypt_reader_handles_c key open (hash : bytes -> key) c km d :
  open_handles (snd (decrypt_reader key open hash c km (mkstream d))) = 0%Z.
Proof. exact (decrypt_reader_handles key nil_seal open hash [] c km d). Qed.

Lemma fs_read_no_leak_c key open (hash : bytes -> key) hostid rp c s st p :
  handles (snd (fs_read key open hash hostid rp c s st p)) = handles st /\
  files (snd (fs_read key open hash hostid rp c s st p)) = files st.
Proof. exact (fs_read_no_leak key nil_seal open hash hostid rp c s st p). Qed.
