(** C03 at TREE level for the write-back cache (Model/Cache.v): what an operation through the
    cache does NOT change.  Seen through the cache (the view [vlookup]), an operation whose
    destination arguments all normalise to paths at or below [b] leaves every node that is not at
    or below [b] exactly as it was; the only thing that may appear outside is a directory on the
    way down to [b].  The same holds along whole histories with Commits and failed Commits, for
    the view and for the remote tree, and every operation that comes through a sub-path view of
    the cache (fshelper.SubFS over fscache.Cache) meets the premise with [b] the view root. *)
From GC Require Import Common.Base Model.Paths Model.Fs Model.Cache Model.Views Model.ViewsCache
  Proofs.Paths Proofs.Fs Proofs.Clean Proofs.Views Proofs.Cache.

(** * Frames between two lookup functions *)

(** [g] differs from [f] outside [b] at most by new directories on the way down to [b]. *)
Definition frame_fn (b : path) (f g : path -> option entry) : Prop :=
  forall q, is_prefix b q = false ->
    (forall e, f q = Some e -> g q = Some e) /\
    (f q = None -> g q <> None -> g q = Some D /\ is_prefix q b = true).

Lemma frame_refl b f g : (forall q, g q = f q) -> frame_fn b f g.
Proof.
  intros H q _. rewrite H. split; [auto|]. intros A B. congruence.
Qed.

Lemma frame_trans b f g h : frame_fn b f g -> frame_fn b g h -> frame_fn b f h.
Proof.
  intros H1 H2 q Hq. destruct (H1 q Hq) as [P1 N1]. destruct (H2 q Hq) as [P2 N2]. split.
  - intros e He. apply P2. apply P1. exact He.
  - intros Hn Hex. destruct (g q) as [e|] eqn:Eg.
    + destruct N1 as [A B]; [exact Hn|discriminate|]. split; [|exact B].
      apply P2. exact A.
    + apply N2; [reflexivity|exact Hex].
Qed.

Lemma frame_mono b p f g : is_prefix b p = true -> frame_fn p f g -> frame_fn b f g.
Proof.
  intros Hbp H q Hq.
  assert (Hpq : is_prefix p q = false).
  { destruct (is_prefix p q) eqn:E; [|reflexivity].
    rewrite (is_prefix_trans b p q Hbp E) in Hq. discriminate. }
  destruct (H q Hpq) as [P N]. split; [exact P|].
  intros Hn Hex. destruct (N Hn Hex) as [A B]. split; [exact A|].
  destruct (is_prefix_comparable q b p B Hbp) as [C|C]; [exact C|congruence].
Qed.

Lemma frame_ext_r b f g g' : (forall q, g' q = g q) -> frame_fn b f g -> frame_fn b f g'.
Proof. intros E H q Hq. rewrite !E. exact (H q Hq). Qed.

Lemma frame_ext_l b f f' g : (forall q, f' q = f q) -> frame_fn b f g -> frame_fn b f' g.
Proof. intros E H q Hq. rewrite !E. exact (H q Hq). Qed.

(** The frame between the views of two cache states. *)
Definition vframe (b : path) (c c' : cache) : Prop := frame_fn b (vlookup c) (vlookup c').

Lemma vframe_same b c : vframe b c c.
Proof. apply frame_refl. reflexivity. Qed.

(** * One frame lemma per cache primitive, whatever it returns *)

Lemma c_write_frame c p d : Inv c -> good_path p = true -> vframe p c (fst (c_write c p d)).
Proof.
  intros I Hg. unfold c_write. destruct (check_dest c p false) eqn:Hcd; [|apply vframe_same].
  destruct p as [|n p]; [unfold check_dest in Hcd; simpl in Hcd; discriminate|].
  destruct (c_write_spec c (n :: p) d I Hg ltac:(discriminate) Hcd) as (c' & H & _ & _ & Fr & Nw).
  unfold c_write in H. rewrite Hcd in H. rewrite H. cbn [fst].
  intros q Hq.
  assert (Hne : q <> n :: p) by (intros ->; rewrite is_prefix_refl in Hq; discriminate).
  split.
  - intros e He. rewrite Fr; [exact He|exact Hne|congruence].
  - intros Hn Hex. destruct (Nw q Hne Hn Hex) as [A B]. split; [exact A|].
    apply is_prefix_removelast_l; [discriminate|exact B].
Qed.

Lemma c_mkdir_frame c p : Inv c -> good_path p = true -> vframe p c (fst (c_mkdir c p)).
Proof.
  intros I Hg. destruct p as [|n p]; [apply vframe_same|].
  destruct (check_dest c (n :: p) true) eqn:Hcd.
  - destruct (c_mkdir_spec c (n :: p) I Hg ltac:(discriminate) Hcd) as (c' & H & _ & _ & Fr & Nw).
    rewrite H. cbn [fst]. intros q Hq. split.
    + intros e He. rewrite Fr; [exact He|congruence].
    + intros Hn Hex. exact (Nw q Hn Hex).
  - unfold c_mkdir. rewrite Hcd. apply vframe_same.
Qed.

Lemma c_remove_cases c p : fst (c_remove c p) = c \/ exists c', c_remove c p = (c', RUnit).
Proof.
  unfold c_remove. destruct p as [|n p]; [left; reflexivity|].
  destruct (negb (v_exists c (n :: p))); [left; reflexivity|].
  destruct (v_dir c (n :: p) && _); [left; reflexivity|].
  destruct (exists_at (cB c) (n :: p)); [|right; eexists; reflexivity].
  destruct (remove_at (cB c) (n :: p)); [right; eexists; reflexivity|left; reflexivity].
Qed.

Lemma c_remove_all_cases c p : fst (c_remove_all c p) = c \/ exists c', c_remove_all c p = (c', RUnit).
Proof.
  unfold c_remove_all. destruct p as [|n p]; [left; reflexivity|].
  destruct (exists_at (cB c) (n :: p)); [|right; eexists; reflexivity].
  destruct (remove_all_at (cB c) (n :: p)); [right; eexists; reflexivity|left; reflexivity].
Qed.

Lemma removed_frame p (f g : path -> option entry) :
  (forall q, g q = if is_prefix p q then None else f q) -> frame_fn p f g.
Proof.
  intros L q Hq. rewrite L, Hq. split; [auto|]. intros A B. congruence.
Qed.

Lemma c_remove_frame c p : Inv c -> vframe p c (fst (c_remove c p)).
Proof.
  intros I. destruct (c_remove_cases c p) as [->|[c' H]]; [apply vframe_same|].
  rewrite H. cbn [fst]. destruct p as [|n p]; [simpl in H; discriminate|].
  destruct (c_remove_spec c (n :: p) c' I ltac:(discriminate) H) as (_ & _ & L).
  apply removed_frame. exact L.
Qed.

Lemma c_remove_all_frame c p : Inv c -> vframe p c (fst (c_remove_all c p)).
Proof.
  intros I. destruct (c_remove_all_cases c p) as [->|[c' H]]; [apply vframe_same|].
  rewrite H. cbn [fst]. destruct p as [|n p]; [simpl in H; discriminate|].
  destruct (c_remove_all_spec c (n :: p) c' I ltac:(discriminate) H) as (_ & L).
  apply removed_frame. exact L.
Qed.


(** * The buffer and the tombstones (the part of the state that a Commit replays) *)

(** Outside [p] the buffer gains at most directories on the way down to [p]; every new tombstone
    is at or below [p]. *)
Definition sframe (p : path) (c c' : cache) : Prop :=
  frame_fn p (lookup (cB c)) (lookup (cB c')) /\
  (forall t, In t (cT c') -> In t (cT c) \/ is_prefix p t = true).

Lemma sframe_same p c : sframe p c c.
Proof. split; [apply frame_refl; reflexivity|auto]. Qed.

Lemma sframe_trans p c1 c2 c3 : sframe p c1 c2 -> sframe p c2 c3 -> sframe p c1 c3.
Proof.
  intros [F1 T1] [F2 T2]. split; [eapply frame_trans; eassumption|].
  intros t Ht. destruct (T2 t Ht) as [H|H]; [apply T1; exact H|right; exact H].
Qed.

Lemma sframe_mono b p c c' : is_prefix b p = true -> sframe p c c' -> sframe b c c'.
Proof.
  intros Hbp [F T]. split; [eapply frame_mono; eassumption|].
  intros t Ht. destruct (T t Ht) as [H|H]; [left; exact H|right].
  exact (is_prefix_trans b p t Hbp H).
Qed.

Lemma c_write_sframe c p d : Inv c -> good_path p = true -> sframe p c (fst (c_write c p d)).
Proof.
  intros I Hg. unfold c_write. destruct (check_dest c p false) eqn:Hcd; [|apply sframe_same].
  destruct p as [|n p]; [unfold check_dest in Hcd; simpl in Hcd; discriminate|].
  destruct (write_at (cB c) (n :: p) d) as [b'|] eqn:Hw; [|apply sframe_same].
  destruct (write_at_spec (cB c) (n :: p) d b' (inv_B c I) Hg ltac:(discriminate) Hw) as (_ & _ & _ & Fr & Nw).
  cbn [updB fst]. split; [|intros t Ht; left; exact Ht]. cbn [set_B cB].
  intros q Hq.
  assert (Hne : q <> n :: p) by (intros ->; rewrite is_prefix_refl in Hq; discriminate).
  split.
  - intros e He. rewrite Fr; [exact He|exact Hne|congruence].
  - intros Hn Hex. destruct (Nw q Hne Hn Hex) as [A B]. split; [exact A|].
    apply is_prefix_removelast_l; [discriminate|exact B].
Qed.

Lemma c_mkdir_sframe c p : Inv c -> good_path p = true -> sframe p c (fst (c_mkdir c p)).
Proof.
  intros I Hg. unfold c_mkdir. destruct p as [|n p]; [apply sframe_same|].
  destruct (check_dest c (n :: p) true); [|apply sframe_same].
  destruct (mkdir_all (cB c) (n :: p)) as [b'|] eqn:Hm; [|apply sframe_same].
  destruct (mkdir_all_spec _ _ _ (inv_B c I) Hg Hm) as (_ & _ & P1 & N1).
  cbn [updB fst]. split; [|intros t Ht; left; exact Ht]. cbn [set_B cB].
  intros q Hq. split; [intros e He; apply P1; exact He|exact (N1 q)].
Qed.

Lemma removed_sframe c p b' :
  (forall q, lookup b' q = if is_prefix p q then None else lookup (cB c) q) ->
  sframe p c (add_T (set_B c b') p).
Proof.
  intros L. split; [apply removed_frame; exact L|].
  intros t [<-|Ht]; [right; apply is_prefix_refl|left; exact Ht].
Qed.

Lemma add_T_sframe c p : sframe p c (add_T c p).
Proof.
  split; [apply frame_refl; reflexivity|].
  intros t [<-|Ht]; [right; apply is_prefix_refl|left; exact Ht].
Qed.

Lemma c_remove_sframe c p : Inv c -> sframe p c (fst (c_remove c p)).
Proof.
  intros I. unfold c_remove. destruct p as [|n p]; [apply sframe_same|].
  destruct (negb (v_exists c (n :: p))); [apply sframe_same|].
  destruct (v_dir c (n :: p) && _); [apply sframe_same|].
  destruct (exists_at (cB c) (n :: p)); [|apply add_T_sframe].
  destruct (remove_at (cB c) (n :: p)) as [b'|] eqn:Er; [|apply sframe_same].
  destruct (remove_at_spec (cB c) (n :: p) b' (inv_B c I) ltac:(discriminate) Er) as (_ & _ & L).
  apply removed_sframe. exact L.
Qed.

Lemma c_remove_all_sframe c p : Inv c -> sframe p c (fst (c_remove_all c p)).
Proof.
  intros I. unfold c_remove_all. destruct p as [|n p]; [apply sframe_same|].
  destruct (exists_at (cB c) (n :: p)); [|apply add_T_sframe].
  destruct (remove_all_at (cB c) (n :: p)) as [b'|] eqn:Er; [|apply sframe_same].
  destruct (remove_all_at_spec (cB c) (n :: p) b' (inv_B c I) ltac:(discriminate) Er) as (_ & _ & L).
  apply removed_sframe. exact L.
Qed.

(** * (3) The link to views: a sub-path view of a cache *)

(** fshelper.SubFS with base string [base] (ending in a slash) over a cache: an accepted raw
    argument [s] reaches the cache as [base ++ join (reduce s)], which the cache normalises to
    [cred base ++ reduce s] - or rejects, exactly when it rejects the base alone. *)
Theorem sub_cache_arg nn base s s' :
  base_ok base -> transform1 nn (LSub base) s = Some s' ->
  exists r, reduce s = Some r /\ good_path r = true /\ s' = base ++ join r /\
            cnorm s' = match cred base with Some y => Some (y ++ r) | None => None end.
Proof.
  intros [X ->] H. unfold transform1 in H. destruct (reduce s) as [r|] eqn:Es; [|discriminate].
  inversion H; subst s'. exists r. pose proof (reduce_good _ _ Es) as Hg.
  split; [reflexivity|]. split; [exact Hg|]. split; [reflexivity|].
  rewrite <- app_assoc. cbn [app]. exact (cred_prefix_join X r Hg).
Qed.

(** Every argument of an operation that got through the view normalises at or below the view
    root [cred base]. *)
Theorem sub_cache_args_under base o o' b :
  base_ok base -> cred base = Some b ->
  map_args (fun nn s => transform1 nn (LSub base) s) o = Some o' ->
  forall s p, In s (targets o') -> cnorm s = Some p -> is_prefix b p = true.
Proof.
  intros Hb Hc Hm s p Hs Hp.
  assert (Hone : forall nn s0 s1, transform1 nn (LSub base) s0 = Some s1 -> cnorm s1 = Some p ->
                                  is_prefix b p = true).
  { intros nn s0 s1 Ht Hn. destruct (sub_cache_arg nn base s0 s1 Hb Ht) as (r & _ & _ & _ & E).
    rewrite Hc, Hn in E. inversion E; subst p. apply is_prefix_app. }
  destruct o; cbv beta iota zeta delta [map_args] in Hm;
  repeat match type of Hm with
  | context [match transform1 ?nn (LSub base) ?x with _ => _ end] =>
    destruct (transform1 nn (LSub base) x) eqn:?; [|discriminate]
  end; inversion Hm; subst o'; simpl in Hs;
  repeat match goal with H : _ \/ _ |- _ => destruct H | H : False |- _ => destruct H end;
  subst; eapply Hone; eassumption.
Qed.

(** ... and when the base itself climbs out ([cred base = None]) the cache rejects every
    argument. *)
Theorem sub_cache_args_rejected base o o' :
  base_ok base -> cred base = None ->
  map_args (fun nn s => transform1 nn (LSub base) s) o = Some o' ->
  forall s, In s (targets o') -> cnorm s = None.
Proof.
  intros Hb Hc Hm s Hs.
  assert (Hone : forall nn s0 s1, transform1 nn (LSub base) s0 = Some s1 -> cnorm s1 = None).
  { intros nn s0 s1 Ht. destruct (sub_cache_arg nn base s0 s1 Hb Ht) as (r & _ & _ & _ & E).
    rewrite Hc in E. exact E. }
  destruct o; cbv beta iota zeta delta [map_args] in Hm;
  repeat match type of Hm with
  | context [match transform1 ?nn (LSub base) ?x with _ => _ end] =>
    destruct (transform1 nn (LSub base) x) eqn:?; [|discriminate]
  end; inversion Hm; subst o'; simpl in Hs;
  repeat match goal with H : _ \/ _ |- _ => destruct H | H : False |- _ => destruct H end;
  subst; eapply Hone; eassumption.
Qed.

(** Arguments that the cache rejects have no effect at all. *)
Theorem cache_step_rejected c o :
  (forall s, In s (targets o) -> cnorm s = None) -> fst (cache_step c (COp o)) = c.
Proof.
  intros H. destruct o; simpl in H |- *; unfold on1;
  try (rewrite (H _ (or_introl eq_refl)));
  repeat match goal with |- context [match cnorm ?s with _ => _ end] => destruct (cnorm s) end;
  reflexivity.
Qed.

Theorem sub_cache_step_no_root base c o :
  base_ok base -> cred base = None -> fst (sub_cache_step base c o) = c.
Proof.
  intros Hb Hc. unfold sub_cache_step.
  destruct (map_args (fun nn s => transform1 nn (LSub base) s) o) as [o'|] eqn:Hm.
  - assert (F : fst (cache_step c (COp o')) = c).
    { apply cache_step_rejected. eapply sub_cache_args_rejected; eassumption. }
    destruct o; try exact F. reflexivity.
  - destruct o; reflexivity.
Qed.

Lemma sub_cache_step_Inv base c o : Inv c -> Inv (fst (sub_cache_step base c o)).
Proof.
  intros I. unfold sub_cache_step.
  destruct (map_args (fun nn s => transform1 nn (LSub base) s) o) as [o'|].
  - pose proof (cache_step_Inv c (COp o') I) as I'. destruct o; try exact I'. exact I.
  - destruct o; exact I.
Qed.

Lemma sub_cache_step_R base c o : cR (fst (sub_cache_step base c o)) = cR c.
Proof.
  unfold sub_cache_step.
  destruct (map_args (fun nn s => transform1 nn (LSub base) s) o) as [o'|].
  - pose proof (cache_op_remote_untouched c o') as E. destruct o; try exact E. reflexivity.
  - destruct o; reflexivity.
Qed.


(** * Histories *)

(** what a step of a history may address: the cache used directly with destination arguments
    that normalise at or below [b] (any source arguments), Commits and failed Commits, and ANY
    operation through a child view whose root is at or below [b] or whose base climbs out *)
Definition cop_under (b : path) (co : cop) : Prop :=
  match co with
  | COp o => forall s p, In s (targets o) -> cnorm s = Some p -> is_prefix b p = true
  | CCommit | CCommitFault => True
  end.

Definition vcop_under (b : path) (v : vcop) : Prop :=
  match v with
  | VDirect co => cop_under b co
  | VSub base o =>
    base_ok base /\ match cred base with Some y => is_prefix b y = true | None => True end
  end.

Lemma vcache_step_Inv c v : Inv c -> Inv (fst (vcache_step c v)).
Proof. destruct v; [apply cache_step_Inv|apply sub_cache_step_Inv]. Qed.

Lemma run_vcache_cons c v l : run_vcache c (v :: l) = run_vcache (fst (vcache_step c v)) l.
Proof. reflexivity. Qed.

Lemma run_cache_cons c co l : run_cache c (co :: l) = run_cache (fst (cache_step c co)) l.
Proof. reflexivity. Qed.

Theorem run_vcache_Inv l : forall c, Inv c -> Inv (run_vcache c l).
Proof.
  induction l as [|v l IH]; intros c I; [exact I|]. rewrite run_vcache_cons. apply IH.
  apply vcache_step_Inv. exact I.
Qed.

Lemma run_cache_as_vcache l : forall c, run_cache c l = run_vcache c (map VDirect l).
Proof.
  induction l as [|co l IH]; intros c; [reflexivity|].
  rewrite run_cache_cons. cbn [map]. rewrite run_vcache_cons. apply IH.
Qed.

Lemma cop_under_vcop b l : Forall (cop_under b) l -> Forall (vcop_under b) (map VDirect l).
Proof. induction 1; constructor; assumption. Qed.

(** * From the primitives to operations, views and histories - once, for any relation between
    states that is reflexive, transitive, monotone in the path, and holds of the five
    primitives at their own path and of Commit *)
Section Generic.
Variable R : path -> cache -> cache -> Prop.
Hypothesis R_same : forall p c, R p c c.
Hypothesis R_trans : forall p c1 c2 c3, R p c1 c2 -> R p c2 c3 -> R p c1 c3.
Hypothesis R_mono : forall b p c c', is_prefix b p = true -> R p c c' -> R b c c'.
Hypothesis R_write : forall c p d, Inv c -> good_path p = true -> R p c (fst (c_write c p d)).
Hypothesis R_mkdir : forall c p, Inv c -> good_path p = true -> R p c (fst (c_mkdir c p)).
Hypothesis R_remove : forall c p, Inv c -> R p c (fst (c_remove c p)).
Hypothesis R_remove_all : forall c p, Inv c -> R p c (fst (c_remove_all c p)).
Hypothesis R_commit : forall p c, Inv c -> R p c (fst (c_commit c)).

(** The loop of a directory copy: every entry is created at or below [dst]; the relation holds
    for the state the loop stops in, also when it stops half way with an error. *)
Lemma copy_entries_gen l : forall c dst,
  Inv c -> good_path dst = true -> (forall rel e, In (rel, e) l -> good_path rel = true) ->
  R dst c (fst (copy_entries c dst l)).
Proof.
  induction l as [|[rel e] l IH]; intros c dst I Hd Hl; [apply R_same|].
  assert (Hr : good_path rel = true) by (apply (Hl rel e); left; reflexivity).
  assert (Hl' : forall rel0 e0, In (rel0, e0) l -> good_path rel0 = true)
    by (intros ? ? H; eapply Hl; right; exact H).
  assert (Hg1 : good_path (dst ++ rel) = true) by (apply good_path_app; auto).
  cbn [copy_entries]. destruct e as [data|].
  - assert (Hg0 : good_path (dst ++ removelast rel) = true)
      by (apply good_path_app; split; [exact Hd|apply good_path_removelast; exact Hr]).
    pose proof (c_mkdir_Inv c (dst ++ removelast rel) I Hg0) as I0.
    pose proof (R_mono dst _ _ _ (is_prefix_app dst (removelast rel))
                  (R_mkdir c (dst ++ removelast rel) I Hg0)) as F0.
    destruct (c_mkdir c (dst ++ removelast rel)) as [c0 r0]. cbn [fst] in I0, F0.
    destruct r0; try (cbn [fst]; exact F0).
    pose proof (c_write_Inv c0 (dst ++ rel) data I0 Hg1) as I1.
    pose proof (R_mono dst _ _ _ (is_prefix_app dst rel)
                  (R_write c0 (dst ++ rel) data I0 Hg1)) as F1.
    destruct (c_write c0 (dst ++ rel) data) as [c1 r1]. cbn [fst] in I1, F1.
    assert (F01 : R dst c c1) by (eapply R_trans; [exact F0|exact F1]).
    destruct r1; try (cbn [fst]; exact F01).
    eapply R_trans; [exact F01|]. apply IH; assumption.
  - pose proof (c_mkdir_Inv c (dst ++ rel) I Hg1) as I1.
    pose proof (R_mono dst _ _ _ (is_prefix_app dst rel)
                  (R_mkdir c (dst ++ rel) I Hg1)) as F1.
    destruct (c_mkdir c (dst ++ rel)) as [c1 r1]. cbn [fst] in I1, F1.
    destruct r1; try (cbn [fst]; exact F1).
    eapply R_trans; [exact F1|]. apply IH; assumption.
Qed.

Lemma c_copy_gen c s d : Inv c -> good_path d = true -> R d c (fst (c_copy c s d)).
Proof.
  intros I Hd. unfold c_copy. destruct s as [|n s]; [apply R_same|].
  destruct (is_prefix (n :: s) d); [apply R_same|].
  destruct (vlookup c (n :: s)) as [[data|]|]; [apply R_write; assumption| |apply R_same].
  pose proof (c_mkdir_Inv c d I Hd) as I1. pose proof (R_mkdir c d I Hd) as F1.
  destruct (c_mkdir c d) as [c1 r1]. cbn [fst] in I1, F1.
  destruct r1; try (cbn [fst]; exact F1).
  eapply R_trans; [exact F1|]. apply copy_entries_gen; [exact I1|exact Hd|].
  intros rel e Hin. apply In_moved in Hin as (x & _ & Hx & Hin). simpl in Hx. subst rel.
  apply (cview_entry_good c _ e I) in Hin. apply good_path_app in Hin. tauto.
Qed.

(** one operation on the cache, all 16, whatever it returns *)
Theorem cache_step_gen c o b :
  Inv c ->
  (forall s p, In s (targets o) -> cnorm s = Some p -> is_prefix b p = true) ->
  R b c (fst (cache_step c (COp o))).
Proof.
  intros I Ht. destruct o; simpl in Ht |- *; unfold on1;
  repeat match goal with |- context [match cnorm ?s with _ => _ end] => destruct (cnorm s) eqn:? end;
  try apply R_same;
  try match goal with |- context [if ?x then _ else _] => destruct x; [|apply R_same] end;
  match goal with
  | |- R b c (fst (c_copy c ?sp ?dp)) =>
    apply (R_mono b dp); [eapply Ht; [left; reflexivity|eassumption]|];
    apply c_copy_gen; [exact I|eapply cnorm_good; eassumption]
  | |- R b c (fst (c_mkdir c ?p)) =>
    apply (R_mono b p); [eapply Ht; [left; reflexivity|eassumption]|];
    apply R_mkdir; [exact I|eapply cnorm_good; eassumption]
  | |- R b c (fst (c_write c ?p ?d)) =>
    apply (R_mono b p); [eapply Ht; [left; reflexivity|eassumption]|];
    apply R_write; [exact I|eapply cnorm_good; eassumption]
  | |- R b c (fst (c_remove c ?p)) =>
    apply (R_mono b p); [eapply Ht; [left; reflexivity|eassumption]|];
    apply R_remove; exact I
  | |- R b c (fst (c_remove_all c ?p)) =>
    apply (R_mono b p); [eapply Ht; [left; reflexivity|eassumption]|];
    apply R_remove_all; exact I
  end.
Qed.

(** one operation through a child view with root [b] *)
Theorem sub_cache_step_gen base c o b :
  Inv c -> base_ok base -> cred base = Some b -> R b c (fst (sub_cache_step base c o)).
Proof.
  intros I Hb Hc. unfold sub_cache_step.
  destruct (map_args (fun nn s => transform1 nn (LSub base) s) o) as [o'|] eqn:Hm.
  - assert (F : R b c (fst (cache_step c (COp o')))).
    { apply cache_step_gen; [exact I|]. eapply sub_cache_args_under; eassumption. }
    destruct o; try exact F. apply R_same.
  - destruct o; apply R_same.
Qed.

Lemma vcache_step_gen c v b : Inv c -> vcop_under b v -> R b c (fst (vcache_step c v)).
Proof.
  intros I H. destruct v as [[o| |]|base o]; cbn [vcache_step].
  - apply cache_step_gen; assumption.
  - apply R_commit. exact I.
  - apply R_same.
  - destruct H as [Hb Hy]. destruct (cred base) as [y|] eqn:Ec.
    + apply (R_mono b y); [exact Hy|]. apply sub_cache_step_gen; assumption.
    + rewrite sub_cache_step_no_root by assumption. apply R_same.
Qed.

Theorem run_vcache_gen b l : forall c, Inv c -> Forall (vcop_under b) l -> R b c (run_vcache c l).
Proof.
  induction l as [|v l IH]; intros c I Hl; [apply R_same|].
  inversion Hl as [|? ? Hv Hl']; subst. rewrite run_vcache_cons.
  eapply R_trans; [apply vcache_step_gen; eassumption|].
  apply IH; [apply vcache_step_Inv; exact I|exact Hl'].
Qed.
End Generic.

(** * Instance 1: the view *)
Lemma vframe_trans p c1 c2 c3 : vframe p c1 c2 -> vframe p c2 c3 -> vframe p c1 c3.
Proof. apply frame_trans. Qed.

Lemma vframe_mono b p c c' : is_prefix b p = true -> vframe p c c' -> vframe b c c'.
Proof. apply frame_mono. Qed.

Lemma c_commit_vframe p c : Inv c -> vframe p c (fst (c_commit c)).
Proof.
  intros I. destruct (c_commit_spec c I) as (c' & E & _ & _ & _ & _ & V). rewrite E. cbn [fst].
  apply frame_refl. exact V.
Qed.

Theorem cache_step_frame c o b :
  Inv c ->
  (forall s p, In s (targets o) -> cnorm s = Some p -> is_prefix b p = true) ->
  vframe b c (fst (cache_step c (COp o))).
Proof.
  exact (cache_step_gen vframe vframe_same vframe_trans vframe_mono c_write_frame c_mkdir_frame
           c_remove_frame c_remove_all_frame c o b).
Qed.

(** (1) in full: nothing outside [b] changes in the view; only directories on the way down to
    [b] may appear. *)
Theorem cache_step_outside c o b q :
  Inv c ->
  (forall s p, In s (targets o) -> cnorm s = Some p -> is_prefix b p = true) ->
  is_prefix b q = false ->
  (forall e, vlookup c q = Some e -> vlookup (fst (cache_step c (COp o))) q = Some e) /\
  (vlookup c q = None -> vlookup (fst (cache_step c (COp o))) q <> None ->
   vlookup (fst (cache_step c (COp o))) q = Some D /\ is_prefix q b = true).
Proof. intros I Ht Hq. exact (cache_step_frame c o b I Ht q Hq). Qed.

Theorem sub_cache_step_frame base c o b :
  Inv c -> base_ok base -> cred base = Some b -> vframe b c (fst (sub_cache_step base c o)).
Proof.
  exact (sub_cache_step_gen vframe vframe_same vframe_trans vframe_mono c_write_frame c_mkdir_frame
           c_remove_frame c_remove_all_frame base c o b).
Qed.

Theorem run_vcache_vframe b l c : Inv c -> Forall (vcop_under b) l -> vframe b c (run_vcache c l).
Proof.
  exact (run_vcache_gen vframe vframe_same vframe_trans vframe_mono c_write_frame c_mkdir_frame
           c_remove_frame c_remove_all_frame c_commit_vframe b l c).
Qed.

Theorem run_cache_vframe b l c : Inv c -> Forall (cop_under b) l -> vframe b c (run_cache c l).
Proof.
  intros I Hl. rewrite run_cache_as_vcache. apply run_vcache_vframe; [exact I|].
  apply cop_under_vcop. exact Hl.
Qed.

(** * Instance 2: buffer and tombstones *)
Lemma c_commit_sframe p c : Inv c -> sframe p c (fst (c_commit c)).
Proof.
  intros I. destruct (c_commit_spec c I) as (c' & E & _ & EB & ET & _). rewrite E. cbn [fst].
  split; [rewrite EB; apply frame_refl; reflexivity|]. rewrite ET. intros t [].
Qed.

Theorem run_vcache_sframe b l c : Inv c -> Forall (vcop_under b) l -> sframe b c (run_vcache c l).
Proof.
  exact (run_vcache_gen sframe sframe_same sframe_trans sframe_mono c_write_sframe c_mkdir_sframe
           c_remove_sframe c_remove_all_sframe c_commit_sframe b l c).
Qed.

(** * The remote along a history *)

(** whatever reference [f] the view and the remote both frame, the remote still frames it after
    any history: a Commit copies the view to the remote, nothing else touches it *)
Theorem run_vcache_rframe b l : forall c f, Inv c -> Forall (vcop_under b) l ->
  frame_fn b f (vlookup c) -> frame_fn b f (lookup (cR c)) ->
  frame_fn b f (lookup (cR (run_vcache c l))).
Proof.
  induction l as [|v l IH]; intros c f I Hl Fv Fr; [exact Fr|].
  inversion Hl as [|? ? Hv Hl']; subst. rewrite run_vcache_cons.
  apply IH; [apply vcache_step_Inv; exact I|exact Hl'| |].
  - eapply frame_trans; [exact Fv|].
    apply (run_vcache_vframe b [v] c I). constructor; [exact Hv|constructor].
  - destruct v as [[o| |]|base o]; cbn [vcache_step].
    + rewrite cache_op_remote_untouched. exact Fr.
    + destruct (c_commit_spec c I) as (c' & E & _ & _ & _ & L & _). simpl. rewrite E. cbn [fst].
      eapply frame_ext_r; [exact L|exact Fv].
    + exact Fr.
    + rewrite sub_cache_step_R. exact Fr.
Qed.

Lemma vlookup_new_cache r q : vlookup (new_cache r) q = lookup r q.
Proof. destruct q; reflexivity. Qed.

(** (2) A cache that starts empty over [r0], used directly with arguments confined to [b] and
    through any number of child views rooted at or below [b] (or with a climbing base), with
    Commits and failed Commits anywhere: the view and the remote outside [b] are those of [r0],
    up to directories on the way down to [b]. *)
Theorem new_cache_views_history_outside b r0 l :
  WF r0 -> Forall (vcop_under b) l ->
  frame_fn b (lookup r0) (vlookup (run_vcache (new_cache r0) l)) /\
  frame_fn b (lookup r0) (lookup (cR (run_vcache (new_cache r0) l))).
Proof.
  intros W Hl. pose proof (Inv_new r0 W) as I. split.
  - eapply frame_ext_l; [|apply (run_vcache_vframe b l _ I Hl)].
    intros q. symmetry. apply vlookup_new_cache.
  - apply (run_vcache_rframe b l (new_cache r0) (lookup r0) I Hl).
    + apply frame_refl. apply vlookup_new_cache.
    + apply frame_refl. reflexivity.
Qed.

Theorem new_cache_history_outside b r0 l :
  WF r0 -> Forall (cop_under b) l ->
  frame_fn b (lookup r0) (vlookup (run_cache (new_cache r0) l)) /\
  frame_fn b (lookup r0) (lookup (cR (run_cache (new_cache r0) l))).
Proof.
  intros W Hl. rewrite run_cache_as_vcache. apply new_cache_views_history_outside; [exact W|].
  apply cop_under_vcop. exact Hl.
Qed.

(** Before any successful Commit the remote is not touched at all (no premise on the
    arguments; failed Commits included). *)
Definition no_commit (l : list cop) : bool :=
  forallb (fun co => match co with CCommit => false | _ => true end) l.

Theorem run_cache_no_commit_remote l : forall c, no_commit l = true -> cR (run_cache c l) = cR c.
Proof.
  induction l as [|co l IH]; intros c H; [reflexivity|].
  simpl in H. apply andb_true_iff in H as [Hco Hl]. rewrite run_cache_cons, IH by exact Hl.
  destruct co as [o| |]; [apply cache_op_remote_untouched|discriminate|reflexivity].
Qed.

(** * What a FAILED Commit leaves behind in the remote is confined too *)

(** the replayed part of the state is confined to [b]: the buffer holds nothing outside [b] but
    directories on the way down to [b], every tombstone is at or below [b] *)
Definition confined_state (b : path) (c : cache) : Prop :=
  frame_fn b (lookup []) (lookup (cB c)) /\ (forall t, In t (cT c) -> is_prefix b t = true).

Lemma confined_new b r : confined_state b (new_cache r).
Proof. split; [apply frame_refl; reflexivity|intros t []]. Qed.

Lemma confined_sframe b c c' : confined_state b c -> sframe b c c' -> confined_state b c'.
Proof.
  intros [F T] [F' T']. split; [eapply frame_trans; eassumption|].
  intros t Ht. destruct (T' t Ht) as [H|H]; [apply T; exact H|exact H].
Qed.

Theorem run_vcache_confined_state b r0 l :
  WF r0 -> Forall (vcop_under b) l -> confined_state b (run_vcache (new_cache r0) l).
Proof.
  intros W Hl. eapply confined_sframe; [apply confined_new|].
  apply run_vcache_sframe; [apply Inv_new; exact W|exact Hl].
Qed.

Lemma unmasked_outside b T q :
  (forall t, In t T -> is_prefix b t = true) -> is_prefix b q = false -> masked T q = false.
Proof.
  intros HT Hq. destruct (masked T q) eqn:E; [|reflexivity].
  apply masked_spec in E as (t & Ht & Hp).
  rewrite (is_prefix_trans b t q (HT t Ht) Hp) in Hq. discriminate.
Qed.

(** Any remote [rp] in relation [G] (C06: what a Commit that failed half way may have left) with a
    confined state differs from the model's remote outside [b] at most by directories on the
    way down to [b]. *)
Lemma G_outside b c rp :
  Inv c -> confined_state b c -> WF rp ->
  G (cB c) (apply_tombs (cR c) (cT c)) (apply_tombs rp (cT c)) ->
  frame_fn b (lookup (cR c)) (lookup rp).
Proof.
  intros I [HB HT] Wp [_ Hg] q Hq.
  destruct (apply_tombs_spec (cT c) (cR c) (inv_R c I) (inv_T c I)) as [_ L0].
  destruct (apply_tombs_spec (cT c) rp Wp (inv_T c I)) as [_ L1].
  pose proof (unmasked_outside b (cT c) q HT Hq) as Hm.
  specialize (Hg q). rewrite L0, L1, Hm in Hg.
  destruct (lookup (cB c) q) as [e|] eqn:Eb.
  - assert (He : e = D /\ is_prefix q b = true).
    { destruct q as [|n q]; [simpl in Eb; split; [congruence|reflexivity]|].
      destruct (HB (n :: q) Hq) as [_ N]. destruct N as [A B]; [reflexivity|congruence|].
      split; [congruence|exact B]. }
    destruct He as [-> Hqb].
    assert (Hvis : forall d, lookup (cR c) q <> Some (F d)).
    { intros d. pose proof (inv_dir c I q Eb d) as Hv. unfold vis in Hv. rewrite Hm in Hv. exact Hv. }
    assert (HD : lookup rp q = Some D ->
                 (forall e, lookup (cR c) q = Some e -> lookup rp q = Some e) /\
                 (lookup (cR c) q = None -> lookup rp q <> None -> lookup rp q = Some D /\ is_prefix q b = true)).
    { intros E. split.
      - intros e He. destruct e as [d|]; [exfalso; exact (Hvis d He)|exact E].
      - intros _ _. split; [exact E|exact Hqb]. }
    destruct Hg as [E|[E|[[_ E]|(d & d' & Ed & _)]]]; [exact (HD E)| |exact (HD E)|discriminate].
    rewrite E. split; [auto|]. intros A B. congruence.
  - rewrite Hg. split; [auto|]. intros A B. congruence.
Qed.

Lemma partial_remote_WF c rp : Inv c -> partial_remote c rp -> WF rp.
Proof.
  intros I Hp.
  destruct (apply_tombs_spec (cT c) (cR c) (inv_R c I) (inv_T c I)) as [W0 L0].
  set (r0 := apply_tombs (cR c) (cT c)) in *.
  assert (Lv : forall q, lookup r0 q = vis c q) by (intros q; rewrite L0; reflexivity).
  assert (C1 : forall q, lookup (cB c) q = Some D -> forall d, lookup r0 q <> Some (F d))
    by (intros q Hq d; rewrite Lv; exact (inv_dir c I q Hq d)).
  assert (C2 : forall q d, lookup (cB c) q = Some (F d) -> lookup r0 q <> Some D)
    by (intros q d Hq; rewrite Lv; exact (proj1 (inv_file c I q d Hq))).
  assert (HG0 : G (cB c) r0 r0).
  { split; [exact W0|]. intros q. destruct (lookup (cB c) q); auto. }
  destruct Hp as [T1 Hincl|l r Hl Hm|l r p d w r' Hl Hm Hin Hw].
  - apply (apply_tombs_spec T1 (cR c) (inv_R c I) (fun t H => inv_T c I t (Hincl t H))).
  - destruct (G_materialise (cB c) r0 (inv_B c I) C1 C2 l r0 HG0 Hl) as (r' & Hm' & [Wr _] & _).
    change (materialise r0 l = Some r) in Hm. rewrite Hm in Hm'. inversion Hm'; subst r'. exact Wr.
  - destruct (G_materialise (cB c) r0 (inv_B c I) C1 C2 l r0 HG0 Hl) as (r1 & Hm' & HGr & _).
    change (materialise r0 l = Some r) in Hm. rewrite Hm in Hm'. inversion Hm'; subst r1.
    destruct (G_step_gen (cB c) r0 (inv_B c I) C1 C2 r p (F d) w HGr Hin) as (r2 & Hw2 & [W2 _] & _).
    simpl in Hw2. rewrite Hw in Hw2. inversion Hw2; subst r2. exact W2.
Qed.

(** After any history confined to [b] on a cache that started empty over [r0]: if a Commit now
    fails half way - some of the removals applied, some of the buffer sent, a streamed file cut
    short - the remote it leaves behind still differs from [r0] outside [b] at most by
    directories on the way down to [b]. *)
Theorem failed_commit_remote_outside b r0 l rp :
  WF r0 -> Forall (vcop_under b) l ->
  partial_remote (run_vcache (new_cache r0) l) rp ->
  frame_fn b (lookup r0) (lookup rp).
Proof.
  intros W Hl Hp. pose proof (run_vcache_Inv l _ (Inv_new r0 W)) as I.
  eapply frame_trans; [exact (proj2 (new_cache_views_history_outside b r0 l W Hl))|].
  apply G_outside; [exact I|apply run_vcache_confined_state; assumption| |].
  - eapply partial_remote_WF; eassumption.
  - apply partial_remote_G; assumption.
Qed.

(** The same from the executable predicate that the correspondence check evaluates on every
    remote it observes after an injected failure. *)
Theorem failed_commit_observed_outside b r0 l rp :
  WF r0 -> Forall (vcop_under b) l ->
  partial_ok (run_vcache (new_cache r0) l) rp = true ->
  frame_fn b (lookup r0) (lookup rp).
Proof.
  intros W Hl Hp. pose proof (run_vcache_Inv l _ (Inv_new r0 W)) as I.
  eapply frame_trans; [exact (proj2 (new_cache_views_history_outside b r0 l W Hl))|].
  apply G_outside; [exact I|apply run_vcache_confined_state; assumption| |].
  - unfold partial_ok in Hp. apply andb_true_iff in Hp as [Hw _]. apply wf_WF. exact Hw.
  - apply partial_ok_G; assumption.
Qed.
