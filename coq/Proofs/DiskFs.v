(** Proofs about the disk filespace model (Model/DiskFs.v): agreement with the in-memory
    filespace under [pre], on histories and behind a child view; frame and well-formedness for
    every operation. *)
From Coq Require Import Permutation.
From GC Require Import Common.Base Model.Paths Model.Fs Model.DiskFs Proofs.Paths Proofs.Fs.

(** * The memfs step on reduced, prefixed paths (proof device): [mem_step] is [m_step []] and a
    memfs child view with base [b] is [m_step b]. *)
Definition m_step (b : path) (t : fs) (o : op) : fs * out :=
  match o with
  | OCopy s d =>
    match reduce s, reduce d with
    | Some sr, Some (n :: dr) => upd t (copy_at CAny t (b ++ sr) (b ++ n :: dr))
    | _, _ => (t, RErr)
    end
  | OCopyDir s d =>
    match reduce s, reduce d with
    | Some sr, Some (n :: dr) => upd t (copy_at CDirOnly t (b ++ sr) (b ++ n :: dr))
    | _, _ => (t, RErr)
    end
  | OCopyFile s d =>
    match reduce s, reduce d with
    | Some (m :: sr), Some (n :: dr) => upd t (copy_at CFileOnly t (b ++ m :: sr) (b ++ n :: dr))
    | _, _ => (t, RErr)
    end
  | OReadDir s =>
    match reduce s with
    | Some r => if is_dir_at t (b ++ r) then (t, RList (children t (b ++ r))) else (t, RErr)
    | None => (t, RErr)
    end
  | OIsExist s =>
    match reduce s with Some r => (t, RBool (exists_at t (b ++ r))) | None => (t, RBool false) end
  | OIsFile s =>
    match reduce s with Some (n :: r) => (t, RBool (is_file_at t (b ++ n :: r))) | _ => (t, RBool false) end
  | OIsDir s =>
    match reduce s with Some r => (t, RBool (is_dir_at t (b ++ r))) | None => (t, RBool false) end
  | OMkdirAll s =>
    match reduce s with Some r => upd t (mkdir_all t (b ++ r)) | None => (t, RErr) end
  | OReadFile s =>
    match reduce s with
    | Some (n :: r) => match lookup t (b ++ n :: r) with Some (F d) => (t, RData d) | _ => (t, RErr) end
    | _ => (t, RErr)
    end
  | OWriteFile s data =>
    match reduce s with Some (n :: r) => upd t (write_at t (b ++ n :: r) data) | _ => (t, RErr) end
  | OFilespace s =>
    match reduce s with Some _ => (t, RUnit) | None => (t, RErr) end
  | OReader s bufs =>
    match reduce s with
    | Some (n :: r) =>
      match lookup t (b ++ n :: r) with Some (F d) => (t, RChunks (read_seq d bufs)) | _ => (t, RErr) end
    | _ => (t, RErr)
    end
  | OWriter s chunks =>
    match reduce s with Some (n :: r) => upd t (write_at t (b ++ n :: r) (concat chunks)) | _ => (t, RErr) end
  | ORemove s =>
    match reduce s with Some (n :: r) => upd t (remove_at t (b ++ n :: r)) | _ => (t, RErr) end
  | ORemoveAll s =>
    match reduce s with Some (n :: r) => upd t (remove_all_at t (b ++ n :: r)) | _ => (t, RErr) end
  | OLstat s =>
    match reduce s with
    | Some r =>
      match lookup t (b ++ r) with
      | Some D => (t, RStat true 0)
      | Some (F d) => (t, RStat false (N.of_nat (length d)))
      | None => (t, RErr)
      end
    | None => (t, RErr)
    end
  end.

Lemma mem_step_m t o : mem_step t o = m_step [] t o.
Proof.
  destruct o; unfold mem_step, m_step, reduce_node; simpl;
    repeat match goal with
    | |- context [match reduce ?s with _ => _ end] => destruct (reduce s) as [[|? ?]|]
    end; reflexivity.
Qed.

Lemma cons_not_nil {A} (x : A) l : x :: l <> [].
Proof. discriminate. Qed.

Lemma view_step_m b t o : good_path b = true -> view_step (view_base b) t o = m_step b t o.
Proof.
  intros Hb.
  destruct o; unfold view_step, m_step, reduce_node;
    repeat match goal with
    | |- context [match reduce ?s with _ => _ end] => destruct (reduce s) as [[|? ?]|] eqn:?
    end; try reflexivity; unfold mem_step;
    repeat match goal with
    | H : reduce _ = Some ?r |- _ => apply reduce_good in H
    end;
    repeat first
      [ rewrite (reduce_node_wrap_view b (_ :: _)) by (assumption || apply cons_not_nil)
      | rewrite reduce_wrap_view by (assumption || reflexivity) ];
    try reflexivity.
Qed.

(** * Small facts *)
Lemma out_equiv_refl o : out_equiv o o.
Proof. destruct o; simpl; auto. Qed.

Lemma mkdir_all_noop t p : WF t -> is_dir_at t p = true -> mkdir_all t p = Some t.
Proof.
  intros HWF Hd. unfold mkdir_all, prefixes. apply mkdir_chain_noop. intros q Hq.
  apply prefixes_from_In in Hq as (a & c & -> & Ha & ->). simpl.
  destruct c as [|x c]; [rewrite app_nil_r in Hd; exact Hd|].
  apply (WF_prefix_dir t HWF (x :: c) a); [discriminate|].
  unfold exists_at. unfold is_dir_at in Hd. destruct (lookup t (a ++ x :: c)); [reflexivity|discriminate].
Qed.

Lemma exists_parent_dir t p : WF t -> p <> [] -> lookup t p <> None -> is_dir_at t (removelast p) = true.
Proof.
  intros HWF Hne Hex.
  apply (WF_prefix_dir t HWF [last p []] (removelast p)); [discriminate|].
  rewrite <- app_removelast_last by exact Hne. unfold exists_at.
  destruct (lookup t p); [reflexivity|congruence].
Qed.

Lemma d_remove_eq t p : WF t -> p <> [] -> d_remove t p = upd t (remove_at t p).
Proof.
  intros HWF Hne. unfold d_remove, remove_at.
  destruct (lookup t p) as [e|] eqn:El.
  - rewrite (exists_parent_dir t p HWF Hne) by congruence. simpl.
    destruct e; [reflexivity|]. destruct (has_children t p); reflexivity.
  - destruct (negb (is_dir_at t (removelast p))); reflexivity.
Qed.

Lemma d_remove_all_eq t p : WF t -> p <> [] -> exists_at t p = true ->
  d_remove_all t p = upd t (remove_all_at t p).
Proof.
  intros HWF Hne Hex. unfold d_remove_all, remove_all_at, exists_at in *.
  destruct (lookup t p) as [e|] eqn:El; [|discriminate].
  rewrite (exists_parent_dir t p HWF Hne) by congruence. reflexivity.
Qed.

Lemma chunks_data_nil bufs : chunks_data (disk_read_seq [] bufs) = [].
Proof.
  induction bufs as [|n bufs IH]; [reflexivity|]. destruct n; simpl; [exact IH|reflexivity].
Qed.

Lemma chunks_data_cons c e l : chunks_data ((c, e) :: l) = c ++ chunks_data l.
Proof. reflexivity. Qed.

Lemma read_seq_same_bytes bufs : forall d, chunks_data (disk_read_seq d bufs) = chunks_data (read_seq d bufs).
Proof.
  induction bufs as [|n bufs IH]; intros d; [reflexivity|].
  destruct n as [|n].
  - cbn [disk_read_seq read_seq firstn skipn]. destruct d as [|x d].
    + rewrite chunks_data_cons, chunks_data_nil. reflexivity.
    + rewrite !chunks_data_cons. rewrite IH. reflexivity.
  - cbn [disk_read_seq read_seq]. destruct d as [|x d]; [reflexivity|].
    destruct (skipn (S n) (x :: d)) eqn:Es.
    + rewrite !chunks_data_cons, chunks_data_nil. reflexivity.
    + rewrite !chunks_data_cons, IH. reflexivity.
Qed.

Lemma file_not_dir t p : is_file_at t p = true -> is_dir_at t p = false.
Proof. unfold is_file_at, is_dir_at. destruct (lookup t p) as [[|]|]; congruence. Qed.

Lemma dir_not_file t p : is_dir_at t p = true -> is_file_at t p = false.
Proof. unfold is_file_at, is_dir_at. destruct (lookup t p) as [[|]|]; congruence. Qed.

Lemma write_fresh t p data : WF t -> is_dir_at t (removelast p) = true -> lookup t p = None ->
  write_at t p data = Some (t ++ [(p, F data)]).
Proof.
  intros HWF Hd Hn. unfold write_at. rewrite (mkdir_all_noop t _ HWF Hd), Hn. reflexivity.
Qed.

Lemma copy_file_fresh k t s d data : WF t -> lookup t s = Some (F data) -> k <> CDirOnly ->
  is_dir_at t (removelast d) = true -> lookup t d = None ->
  copy_at k t s d = Some (t ++ [(d, F data)]).
Proof.
  intros HWF Hs Hk Hd Hn. unfold copy_at. rewrite Hs.
  destruct k; try congruence; simpl; rewrite (mkdir_all_noop t _ HWF Hd), Hn; reflexivity.
Qed.

Lemma copy_dir_any t s d : lookup t s = Some D -> copy_at CAny t s d = copy_at CDirOnly t s d.
Proof. intros Hs. unfold copy_at. rewrite Hs. reflexivity. Qed.

(** * Agreement of one step under [pre_at], for the root ([b = []]) and for a child whose base is
    an existing directory. *)
Lemma d_copy_file_pre k t s d dr data : WF t -> k <> CDirOnly ->
  lookup t s = Some (F data) -> pre_copy_file t s d dr = true ->
  d_copy_file t s d dr = upd t (copy_at k t s d).
Proof.
  intros HWF Hk Hs Hp. unfold pre_copy_file in Hp.
  apply andb_true_iff in Hp as [Hp Hpar]. apply andb_true_iff in Hp as [Hp Hex].
  apply andb_true_iff in Hp as [_ Hroot].
  apply negb_true_iff in Hroot, Hex. unfold exists_at in Hex.
  destruct (lookup t d) as [e|] eqn:Ed; [discriminate|].
  unfold d_copy_file. rewrite Hs, Hroot, Hpar. unfold is_dir_at at 1. rewrite Ed. simpl.
  assert (Hne : path_eqb s d = false).
  { apply path_eqb_false. intros ->. congruence. }
  rewrite Hne, (write_fresh t d data HWF Hpar Ed), (copy_file_fresh k t s d data HWF Hs Hk Hpar Ed).
  reflexivity.
Qed.

Lemma d_copy_dir_pre t s d dr : lookup t s = Some D -> pre_copy_dir t s d dr = true ->
  d_copy_dir t s d = upd t (copy_at CDirOnly t s d).
Proof.
  intros Hs Hp. unfold pre_copy_dir in Hp.
  apply andb_true_iff in Hp as [Hp Hpre]. apply andb_true_iff in Hp as [_ Hex].
  apply negb_true_iff in Hpre, Hex. unfold exists_at in Hex.
  destruct (lookup t d) as [e|] eqn:Ed; [discriminate|].
  unfold d_copy_dir. rewrite Hs, Hpre, Ed. reflexivity.
Qed.

Lemma is_file_lookup t p : is_file_at t p = true -> exists d, lookup t p = Some (F d).
Proof. unfold is_file_at. destruct (lookup t p) as [[d|]|]; try discriminate. eauto. Qed.

Lemma is_dir_lookup t p : is_dir_at t p = true -> lookup t p = Some D.
Proof. unfold is_dir_at. destruct (lookup t p) as [[d|]|]; try discriminate. reflexivity. Qed.

Lemma is_nil_false {A} (x : A) l : is_nil (x :: l) = false.
Proof. reflexivity. Qed.

Theorem d_m_equiv b t o :
  WF t -> good_path b = true -> is_dir_at t b = true -> pre_at b t o = true ->
  fst (d_step b t o) = fst (m_step b t o) /\ out_equiv (snd (d_step b t o)) (snd (m_step b t o)).
Proof.
  intros HWF Hb Hbd Hpre.
  assert (Hbl : lookup t b = Some D) by (apply is_dir_lookup; exact Hbd).
  assert (Hsame : forall x : fs * out, fst x = fst x /\ out_equiv (snd x) (snd x))
    by (intros x; split; [reflexivity|apply out_equiv_refl]).
  destruct o; unfold d_step, m_step, pre_at in *.
  - (* Copy *)
    destruct (reduce src) as [sr|]; [|apply Hsame].
    destruct (reduce dst) as [[|n dr]|]; [| |apply Hsame].
    + simpl in Hpre. unfold pre_copy_file, pre_copy_dir in Hpre. simpl in Hpre.
      rewrite !andb_false_r in Hpre. discriminate.
    + rewrite is_nil_false in *. unfold d_copy.
      apply orb_true_iff in Hpre as [Hp|Hp].
      * pose proof Hp as Hp'. unfold pre_copy_file in Hp'.
        apply andb_true_iff in Hp' as [Hp' _]. apply andb_true_iff in Hp' as [Hp' _].
        apply andb_true_iff in Hp' as [Hf _].
        rewrite (file_not_dir _ _ Hf). destruct (is_file_lookup _ _ Hf) as [data Hs].
        rewrite (d_copy_file_pre CAny t _ _ _ data HWF ltac:(discriminate) Hs Hp). apply Hsame.
      * pose proof Hp as Hp'. unfold pre_copy_dir in Hp'.
        apply andb_true_iff in Hp' as [Hp' _]. apply andb_true_iff in Hp' as [Hp' _].
        apply andb_true_iff in Hp' as [Hd _].
        rewrite Hd. rewrite (d_copy_dir_pre t _ _ _ (is_dir_lookup _ _ Hd) Hp).
        rewrite (copy_dir_any t _ _ (is_dir_lookup _ _ Hd)). apply Hsame.
  - (* CopyDir *)
    destruct (reduce src) as [sr|]; [|apply Hsame].
    destruct (reduce dst) as [[|n dr]|]; [| |apply Hsame].
    + unfold pre_copy_dir in Hpre. simpl in Hpre. rewrite !andb_false_r in Hpre. discriminate.
    + pose proof Hpre as Hp'. unfold pre_copy_dir in Hp'.
      apply andb_true_iff in Hp' as [Hp' _]. apply andb_true_iff in Hp' as [Hp' _].
      apply andb_true_iff in Hp' as [Hd _].
      rewrite (d_copy_dir_pre t _ _ _ (is_dir_lookup _ _ Hd) Hpre). apply Hsame.
  - (* CopyFile *)
    destruct (reduce src) as [sr|]; [|apply Hsame].
    destruct (reduce dst) as [[|n dr]|]; [| |destruct sr; apply Hsame].
    + unfold pre_copy_file in Hpre. simpl in Hpre. rewrite !andb_false_r in Hpre. discriminate.
    + pose proof Hpre as Hp'. unfold pre_copy_file in Hp'.
      apply andb_true_iff in Hp' as [Hp' _]. apply andb_true_iff in Hp' as [Hp' _].
      apply andb_true_iff in Hp' as [Hf _].
      destruct sr as [|m sr].
      * rewrite app_nil_r in Hf. rewrite (dir_not_file _ _ Hbd) in Hf. discriminate.
      * destruct (is_file_lookup _ _ Hf) as [data Hs].
        rewrite (d_copy_file_pre CFileOnly t _ _ _ data HWF ltac:(discriminate) Hs Hpre). apply Hsame.
  - (* ReadDir *) apply Hsame.
  - (* IsExist *) apply Hsame.
  - (* IsFile *)
    destruct (reduce p) as [[|n r]|]; try apply Hsame.
    rewrite app_nil_r, (dir_not_file _ _ Hbd). apply Hsame.
  - (* IsDir *) apply Hsame.
  - (* MkdirAll *) apply Hsame.
  - (* ReadFile *)
    destruct (reduce p) as [[|n r]|]; try apply Hsame.
    rewrite app_nil_r, Hbl. apply Hsame.
  - (* WriteFile *)
    destruct (reduce p) as [[|n r]|]; try apply Hsame.
    unfold d_write_file. rewrite (mkdir_all_noop t b HWF Hbd). apply Hsame.
  - (* Filespace *)
    destruct (reduce p) as [r|]; [|apply Hsame]. rewrite Hpre. apply Hsame.
  - (* Reader *)
    destruct (reduce p) as [[|n r]|]; [| |apply Hsame].
    + rewrite app_nil_r, Hbd in Hpre. discriminate.
    + unfold d_reader. destruct (lookup t (b ++ n :: r)) as [[d|]|] eqn:El; simpl.
      * split; [reflexivity|]. apply read_seq_same_bytes.
      * unfold is_dir_at in Hpre. rewrite El in Hpre. discriminate.
      * auto.
  - (* Writer *)
    destruct (reduce p) as [[|n r]|]; try apply Hsame.
    unfold d_writer. rewrite Hpre. apply Hsame.
  - (* Remove *)
    destruct (reduce p) as [[|n r]|]; [discriminate| |apply Hsame].
    rewrite d_remove_eq; [apply Hsame|exact HWF|]. intros E. apply app_eq_nil in E as [_ E]. discriminate.
  - (* RemoveAll *)
    destruct (reduce p) as [[|n r]|]; [discriminate| |apply Hsame].
    rewrite d_remove_all_eq; [apply Hsame|exact HWF| |exact Hpre].
    intros E. apply app_eq_nil in E as [_ E]. discriminate.
  - (* Lstat *) apply Hsame.
Qed.

(** * Histories *)
Theorem step_equiv_root t o : WF t -> pre t o = true ->
  fst (disk_step t o) = fst (mem_step t o) /\ out_equiv (snd (disk_step t o)) (snd (mem_step t o)).
Proof.
  intros HWF Hp. unfold disk_step. rewrite mem_step_m. apply d_m_equiv; auto.
Qed.

Theorem equiv_history h : forall t, WF t -> pre_hist t h = true ->
  fst (fst (run_both t t h)) = snd (fst (run_both t t h)) /\
  WF (fst (fst (run_both t t h))) /\
  Forall (fun p => out_equiv (fst p) (snd p)) (snd (run_both t t h)).
Proof.
  induction h as [|o h IH]; intros t HWF Hp; simpl.
  - split; [reflexivity|]. split; [exact HWF|constructor].
  - simpl in Hp. apply andb_true_iff in Hp as [Hp Hh].
    destruct (step_equiv_root t o HWF Hp) as [Ht Ho].
    rewrite Ht in *.
    specialize (IH (fst (mem_step t o)) (mem_step_WF t o HWF) Hh).
    destruct (run_both (fst (mem_step t o)) (fst (mem_step t o)) h) as [[td tm] outs]. simpl in *.
    destruct IH as (A & B & C). split; [exact A|]. split; [exact B|]. constructor; [exact Ho|exact C].
Qed.

(** * The property's literal preconditions imply [pre_at] *)
Lemma prop_pre_implies_pre b t o : prop_pre_at b t o = true -> pre_at b t o = true.
Proof.
  destruct o; unfold prop_pre_at, pre_at, pre_copy_file, pre_copy_dir, exists_at, is_file_at, is_dir_at;
    repeat match goal with
    | |- context [match reduce ?s with _ => _ end] => destruct (reduce s) as [[|? ?]|]
    end; simpl; try reflexivity; try discriminate;
    repeat match goal with
    | |- context [lookup ?tt ?x] => destruct (lookup tt x) as [[|]|]
    end; simpl; try reflexivity; try discriminate;
    repeat match goal with
    | |- context [is_prefix ?a ?c] => destruct (is_prefix a c)
    end; simpl; try reflexivity; try discriminate;
    rewrite ?andb_false_r; simpl; try reflexivity; try discriminate.
Qed.

(** * Well-formedness is preserved by every disk operation *)
Lemma delete_root t : delete_subtree t [] = [].
Proof. unfold delete_subtree. induction t as [|[q e] t IH]; simpl; auto. Qed.

Lemma WF_delete_any t p : WF t -> WF (delete_subtree t p).
Proof.
  intros H. destruct p as [|n p]; [rewrite delete_root; apply WF_nil|].
  apply WF_delete; [exact H|discriminate].
Qed.

Lemma d_remove_WF t p : WF t -> WF (fst (d_remove t p)).
Proof.
  intros H. unfold d_remove. destruct (lookup t p) as [[|]|]; simpl; auto using WF_delete_any.
  destruct (has_children t p); simpl; auto using WF_delete_any.
Qed.

Lemma d_remove_all_WF t p : WF t -> WF (fst (d_remove_all t p)).
Proof.
  intros H. unfold d_remove_all. destruct (lookup t p); simpl; auto using WF_delete_any.
  destruct (existsb _ _); exact H.
Qed.

Lemma write_WF t p data : WF t -> good_path p = true -> p <> [] -> WF (fst (upd t (write_at t p data))).
Proof.
  intros H G N. apply upd_WF; [exact H|]. intros t' Ht'.
  destruct (write_at_spec _ _ _ _ H G N Ht') as (W & _). exact W.
Qed.

Lemma mkdir_WF t p : WF t -> good_path p = true -> WF (fst (upd t (mkdir_all t p))).
Proof.
  intros H G. apply upd_WF; [exact H|]. intros t' Ht'.
  destruct (mkdir_all_spec _ _ _ H G Ht') as (W & _). exact W.
Qed.

Lemma not_dir_not_root t d : is_dir_at t d = false -> d <> [].
Proof. intros H ->. discriminate. Qed.

Lemma d_copy_file_WF t s d dr : WF t -> good_path d = true -> WF (fst (d_copy_file t s d dr)).
Proof.
  intros H G. unfold d_copy_file. destruct (lookup t s) as [e|]; [|exact H].
  destruct dr; [exact H|]. simpl.
  destruct (is_dir_at t (removelast d)); [|exact H]. simpl.
  destruct (is_dir_at t d) eqn:Ed; [exact H|]. apply not_dir_not_root in Ed.
  destruct e; cbn [fst]; apply write_WF; auto.
Qed.

Lemma insert_name_In x y l : In x (insert_name y l) -> x = y \/ In x l.
Proof.
  induction l as [|z l IH]; simpl; [intros [->|[]]; auto|].
  destruct (name_leb y z); simpl.
  - intros [->|[->|H]]; auto.
  - intros [->|H]; auto. destruct (IH H); auto.
Qed.

Lemma sort_names_In x l : In x (sort_names l) -> In x l.
Proof.
  induction l as [|y l IH]; simpl; [auto|]. intros H. apply insert_name_In in H as [->|H]; auto.
Qed.

Lemma walk_names_good t p nm : WF t -> In nm (sort_names (map fst (children t p))) -> good_name nm = true.
Proof.
  intros H Hin. apply sort_names_In in Hin. apply in_map_iff in Hin as [[n d] [<- Hin]].
  simpl. eapply listing_names_good; eauto.
Qed.

Lemma good_path_snoc p nm : good_path p = true -> good_name nm = true -> good_path (p ++ [nm]) = true.
Proof. intros A B. apply good_path_app. split; [exact A|]. simpl. rewrite B. reflexivity. Qed.

Lemma dwalk_WF n : forall t s d rel, WF t -> good_path (s ++ rel) = true -> good_path (d ++ rel) = true ->
  WF (fst (dwalk n t s d rel)).
Proof.
  induction n as [|n IH]; intros t s d rel H Gs Gd; [exact H|]. cbn [dwalk].
  destruct (lookup t (s ++ rel)) as [[data|]|]; [| |exact H].
  - cbn [fst]. apply d_copy_file_WF; assumption.
  - destruct (mkdir_all t (d ++ rel)) as [t1|] eqn:Em; [|exact H].
    destruct (mkdir_all_spec _ _ _ H Gd Em) as (W1 & _).
    assert (Hnames : forall nm, In nm (sort_names (map fst (children t1 (s ++ rel)))) -> good_name nm = true)
      by (intros nm; apply walk_names_good; exact W1).
    revert Hnames. generalize (sort_names (map fst (children t1 (s ++ rel)))). intros names.
    assert (Hacc : WF (fst (t1, true))) by exact W1. revert Hacc. generalize (t1, true).
    induction names as [|nm names IHn]; intros acc Hacc Hnames; [exact Hacc|]. cbn [fold_left].
    apply IHn; [|intros x Hx; apply Hnames; right; exact Hx].
    destruct (snd acc); [|exact Hacc].
    assert (Gn : good_name nm = true) by (apply Hnames; left; reflexivity).
    apply IH; [exact Hacc| |]; rewrite app_assoc; apply good_path_snoc; assumption.
Qed.

Lemma lookup_none_not_root t d : lookup t d = None -> d <> [].
Proof. intros H ->. discriminate. Qed.

Lemma d_copy_dir_WF t s d : WF t -> good_path s = true -> good_path d = true -> WF (fst (d_copy_dir t s d)).
Proof.
  intros H Gs Gd. unfold d_copy_dir. destruct (lookup t s) as [[|]|]; try exact H.
  destruct (is_prefix s d); [exact H|].
  destruct (lookup t d) as [[|]|] eqn:Ed; [exact H| |].
  - cbn [fst]. apply dwalk_WF; rewrite ?app_nil_r; assumption.
  - apply upd_WF; [exact H|]. intros t' Ht'.
    destruct (copy_at_spec _ _ _ _ _ H Gd (lookup_none_not_root _ _ Ed) Ht') as (? & _ & _ & _ & W & _).
    exact W.
Qed.

Lemma d_copy_WF t s d dr : WF t -> good_path s = true -> good_path d = true -> WF (fst (d_copy t s d dr)).
Proof.
  intros. unfold d_copy. destruct (is_dir_at t s); [apply d_copy_dir_WF|apply d_copy_file_WF]; assumption.
Qed.

Lemma good_app b r : good_path b = true -> good_path r = true -> good_path (b ++ r) = true.
Proof. intros. apply good_path_app. auto. Qed.

Theorem d_step_WF b t o : WF t -> good_path b = true -> WF (fst (d_step b t o)).
Proof.
  intros H Gb. destruct o; unfold d_step;
    repeat match goal with
    | |- context [match reduce ?s with _ => _ end] => destruct (reduce s) as [?r|] eqn:?
    end; try exact H;
    repeat match goal with
    | E : reduce _ = Some _ |- _ => apply reduce_good in E
    end.
  - apply d_copy_WF; auto using good_app.
  - apply d_copy_dir_WF; auto using good_app.
  - apply d_copy_file_WF; auto using good_app.
  - destruct (is_dir_at t (b ++ r)); exact H.
  - apply mkdir_WF; auto using good_app.
  - destruct (lookup t (b ++ r)) as [[|]|]; exact H.
  - unfold d_write_file. destruct r as [|n r].
    + destruct (mkdir_all t b) as [t1|] eqn:Em; [|exact H].
      destruct (mkdir_all_spec _ _ _ H Gb Em) as (W & _). exact W.
    + apply write_WF; auto using good_app. intros E. apply app_eq_nil in E as [_ E]. discriminate.
  - destruct (is_dir_at t (b ++ r)); exact H.
  - unfold d_writer. destruct r as [|n r]; [exact H|].
    destruct (is_dir_at t (removelast (b ++ n :: r))); [|exact H].
    apply write_WF; auto using good_app. intros E. apply app_eq_nil in E as [_ E]. discriminate.
  - apply d_remove_WF; exact H.
  - apply d_remove_all_WF; exact H.
  - destruct (lookup t (b ++ r)) as [[|]|]; exact H.
Qed.

Theorem disk_step_WF t o : WF t -> WF (fst (disk_step t o)).
Proof. intros H. apply d_step_WF; auto. Qed.

(** * Frame: nothing outside the addressed path changes *)
Definition frame (t t' : fs) (d q : path) : Prop :=
  (forall e, lookup t q = Some e -> lookup t' q = Some e) /\
  (lookup t q = None -> lookup t' q <> None -> lookup t' q = Some D /\ is_prefix q d = true).

Lemma frame_refl t d q : frame t t d q.
Proof. split; [auto|]. intros A B. congruence. Qed.

Lemma frame_trans t1 t2 t3 d q : frame t1 t2 d q -> frame t2 t3 d q -> frame t1 t3 d q.
Proof.
  intros [A1 B1] [A2 B2]. split.
  - intros e He. apply A2, A1, He.
  - intros Hn Hex. destruct (lookup t2 q) as [e|] eqn:E2.
    + destruct (B1 Hn ltac:(congruence)) as [C Dp]. inversion C; subst.
      rewrite (A2 _ eq_refl). auto.
    + apply B2; auto.
Qed.

Lemma frame_mkdir t p t' d q : WF t -> good_path p = true -> mkdir_all t p = Some t' ->
  (is_prefix q p = true -> is_prefix q d = true) -> frame t t' d q.
Proof.
  intros H G Em Hq. destruct (mkdir_all_spec _ _ _ H G Em) as (_ & _ & P1 & N1). split.
  - apply P1.
  - intros A B. destruct (N1 q A B) as [C Dp]. auto.
Qed.

Lemma under_or_above d p q : is_prefix d p = true -> is_prefix d q = false ->
  is_prefix q p = true -> is_prefix q d = true.
Proof.
  intros Hdp Hdq Hqp. destruct (is_prefix_comparable q d p Hqp Hdp) as [A|A]; [exact A|congruence].
Qed.

Lemma frame_write t p data d q : WF t -> good_path p = true -> p <> [] ->
  is_prefix d p = true -> is_prefix d q = false -> frame t (fst (upd t (write_at t p data))) d q.
Proof.
  intros H G N Hdp Hdq. destruct (write_at t p data) as [t'|] eqn:Ew; [|apply frame_refl]. simpl.
  destruct (write_at_spec _ _ _ _ H G N Ew) as (_ & _ & _ & P1 & N1).
  assert (Hne : q <> p) by (intros ->; congruence). split.
  - intros e He. rewrite (P1 q Hne) by congruence. exact He.
  - intros A B. destruct (N1 q Hne A B) as [C Dp]. split; [exact C|].
    apply (under_or_above d p q Hdp Hdq). apply is_prefix_removelast_l; assumption.
Qed.

Lemma frame_copy_file t s d dr dd q : WF t -> good_path d = true ->
  is_prefix dd d = true -> is_prefix dd q = false -> frame t (fst (d_copy_file t s d dr)) dd q.
Proof.
  intros H G Hdp Hdq. unfold d_copy_file. destruct (lookup t s) as [e|]; [|apply frame_refl].
  destruct dr; [apply frame_refl|]. simpl.
  destruct (is_dir_at t (removelast d)); [|apply frame_refl]. simpl.
  destruct (is_dir_at t d) eqn:Ed; [apply frame_refl|]. apply not_dir_not_root in Ed.
  destruct e; cbn [fst]; apply frame_write; auto.
Qed.

Lemma dwalk_frame n : forall t s d rel q, WF t -> good_path (s ++ rel) = true -> good_path (d ++ rel) = true ->
  is_prefix d q = false -> frame t (fst (dwalk n t s d rel)) d q.
Proof.
  induction n as [|n IH]; intros t s d rel q H Gs Gd Hdq; [apply frame_refl|]. cbn [dwalk].
  destruct (lookup t (s ++ rel)) as [[data|]|]; [| |apply frame_refl].
  - cbn [fst]. apply frame_copy_file; auto. apply is_prefix_app.
  - destruct (mkdir_all t (d ++ rel)) as [t1|] eqn:Em; [|apply frame_refl].
    destruct (mkdir_all_spec _ _ _ H Gd Em) as (W1 & _).
    assert (F1 : frame t t1 d q).
    { eapply frame_mkdir; eauto. apply under_or_above; auto. apply is_prefix_app. }
    assert (Hnames : forall nm, In nm (sort_names (map fst (children t1 (s ++ rel)))) -> good_name nm = true)
      by (intros nm; apply walk_names_good; exact W1).
    revert Hnames. generalize (sort_names (map fst (children t1 (s ++ rel)))). intros names.
    assert (Hacc : WF (fst (t1, true)) /\ frame t (fst (t1, true)) d q) by (split; [exact W1|exact F1]).
    revert Hacc. generalize (t1, true).
    induction names as [|nm names IHn]; intros acc [Hacc Facc] Hnames; [exact Facc|]. cbn [fold_left].
    apply IHn; [|intros x Hx; apply Hnames; right; exact Hx].
    destruct (snd acc); [|split; assumption].
    assert (Gn : good_name nm = true) by (apply Hnames; left; reflexivity).
    assert (G1 : good_path (s ++ rel ++ [nm]) = true) by (rewrite app_assoc; apply good_path_snoc; assumption).
    assert (G2 : good_path (d ++ rel ++ [nm]) = true) by (rewrite app_assoc; apply good_path_snoc; assumption).
    split; [apply dwalk_WF; assumption|].
    eapply frame_trans; [exact Facc|]. apply IH; assumption.
Qed.

Lemma good_removelast p : good_path p = true -> good_path (removelast p) = true.
Proof.
  intros G. destruct p as [|n p]; [reflexivity|].
  rewrite (app_removelast_last [] (cons_not_nil n p)) in G. apply good_path_app in G. tauto.
Qed.

Lemma frame_copy_dir t s d q : WF t -> good_path s = true -> good_path d = true ->
  is_prefix d q = false -> frame t (fst (d_copy_dir t s d)) d q.
Proof.
  intros H Gs Gd Hdq. unfold d_copy_dir. destruct (lookup t s) as [[|]|]; try apply frame_refl.
  destruct (is_prefix s d); [apply frame_refl|].
  destruct (lookup t d) as [[|]|] eqn:Ed; [apply frame_refl| |].
  - cbn [fst]. apply dwalk_frame; rewrite ?app_nil_r; assumption.
  - destruct (copy_at CDirOnly t s d) as [t'|] eqn:Ec; [|apply frame_refl]. simpl.
    pose proof (lookup_none_not_root _ _ Ed) as Hne.
    destruct (copy_at_spec _ _ _ _ _ H Gd Hne Ec) as (t1 & Em & _ & _ & _ & _ & Hfr).
    assert (F1 : frame t t1 d q).
    { apply (frame_mkdir t (removelast d) t1 d q H (good_removelast _ Gd) Em).
      intros A. apply is_prefix_removelast_l; assumption. }
    destruct F1 as [A B]. split; rewrite (Hfr q Hdq); assumption.
Qed.

Lemma frame_delete t p q : p <> [] -> is_prefix p q = false -> frame t (delete_subtree t p) p q.
Proof.
  intros N Hq. split; rewrite lookup_delete, Hq by exact N; [auto|]. intros A B. congruence.
Qed.

(** For every operation issued on the filespace with host directory [b] and every path [q] of
    the tree that is neither a target of the operation nor below one: what was at [q] stays, and
    the only thing that can newly appear at [q] is a directory on the way down to a target. *)
Theorem d_step_outside b t o q :
  WF t -> good_path b = true ->
  (forall s p, In s (targets o) -> reduce s = Some p -> is_prefix (b ++ p) q = false) ->
  (forall e, lookup t q = Some e -> lookup (fst (d_step b t o)) q = Some e) /\
  (lookup t q = None -> lookup (fst (d_step b t o)) q <> None ->
   lookup (fst (d_step b t o)) q = Some D /\
   exists s p, In s (targets o) /\ reduce s = Some p /\ is_prefix q (b ++ p) = true).
Proof.
  intros H Gb Hout.
  assert (Hsame : fst (d_step b t o) = t ->
          (forall e, lookup t q = Some e -> lookup (fst (d_step b t o)) q = Some e) /\
          (lookup t q = None -> lookup (fst (d_step b t o)) q <> None ->
           lookup (fst (d_step b t o)) q = Some D /\
           exists s p, In s (targets o) /\ reduce s = Some p /\ is_prefix q (b ++ p) = true)).
  { intros ->. split; [auto|]. intros A B. congruence. }
  assert (Hframe : forall s p, In s (targets o) -> reduce s = Some p ->
          frame t (fst (d_step b t o)) (b ++ p) q ->
          (forall e, lookup t q = Some e -> lookup (fst (d_step b t o)) q = Some e) /\
          (lookup t q = None -> lookup (fst (d_step b t o)) q <> None ->
           lookup (fst (d_step b t o)) q = Some D /\
           exists s p, In s (targets o) /\ reduce s = Some p /\ is_prefix q (b ++ p) = true)).
  { intros s p Hin Hr [A B]. split; [exact A|]. intros X Y. destruct (B X Y) as [C Dp].
    split; [exact C|]. exists s, p. auto. }
  destruct o; simpl in Hout.
  - (* Copy *)
    unfold d_step in *. destruct (reduce src) as [sr|] eqn:Es; [|apply Hsame; reflexivity].
    destruct (reduce dst) as [dr|] eqn:Ed; [|apply Hsame; reflexivity].
    apply (Hframe dst dr); [left; reflexivity|exact Ed|].
    assert (Hq : is_prefix (b ++ dr) q = false) by (eapply Hout; [left; reflexivity|exact Ed]).
    apply reduce_good in Es, Ed. unfold d_copy. destruct (is_dir_at t (b ++ sr)).
    + apply frame_copy_dir; auto using good_app.
    + apply frame_copy_file; auto using good_app, is_prefix_refl.
  - (* CopyDir *)
    unfold d_step in *. destruct (reduce src) as [sr|] eqn:Es; [|apply Hsame; reflexivity].
    destruct (reduce dst) as [dr|] eqn:Ed; [|apply Hsame; reflexivity].
    apply (Hframe dst dr); [left; reflexivity|exact Ed|].
    assert (Hq : is_prefix (b ++ dr) q = false) by (eapply Hout; [left; reflexivity|exact Ed]).
    apply reduce_good in Es, Ed. apply frame_copy_dir; auto using good_app.
  - (* CopyFile *)
    unfold d_step in *. destruct (reduce src) as [sr|] eqn:Es; [|apply Hsame; reflexivity].
    destruct (reduce dst) as [dr|] eqn:Ed; [|apply Hsame; reflexivity].
    apply (Hframe dst dr); [left; reflexivity|exact Ed|].
    assert (Hq : is_prefix (b ++ dr) q = false) by (eapply Hout; [left; reflexivity|exact Ed]).
    apply reduce_good in Es, Ed. apply frame_copy_file; auto using good_app, is_prefix_refl.
  - apply Hsame. unfold d_step. destruct (reduce p) as [r|]; [|reflexivity]. destruct (is_dir_at t (b ++ r)); reflexivity.
  - apply Hsame. unfold d_step. destruct (reduce p); reflexivity.
  - apply Hsame. unfold d_step. destruct (reduce p); reflexivity.
  - apply Hsame. unfold d_step. destruct (reduce p); reflexivity.
  - (* MkdirAll *)
    unfold d_step in *. destruct (reduce p) as [r|] eqn:Er; [|apply Hsame; reflexivity].
    apply (Hframe p r); [left; reflexivity|exact Er|].
    assert (Hq : is_prefix (b ++ r) q = false) by (eapply Hout; [left; reflexivity|exact Er]).
    apply reduce_good in Er. destruct (mkdir_all t (b ++ r)) as [t'|] eqn:Em; [|apply frame_refl]. simpl.
    apply (frame_mkdir t (b ++ r) t' (b ++ r) q H (good_app _ _ Gb Er) Em). auto.
  - apply Hsame. unfold d_step. destruct (reduce p) as [r|]; [|reflexivity]. destruct (lookup t (b ++ r)) as [[|]|]; reflexivity.
  - (* WriteFile *)
    unfold d_step in *. destruct (reduce p) as [r|] eqn:Er; [|apply Hsame; reflexivity].
    apply (Hframe p r); [left; reflexivity|exact Er|].
    assert (Hq : is_prefix (b ++ r) q = false) by (eapply Hout; [left; reflexivity|exact Er]).
    apply reduce_good in Er. unfold d_write_file. destruct r as [|n r].
    + destruct (mkdir_all t b) as [t1|] eqn:Em; [|apply frame_refl]. simpl.
      rewrite app_nil_r. apply (frame_mkdir t b t1 b q H Gb Em). auto.
    + apply frame_write; auto using good_app, is_prefix_refl.
      intros E. apply app_eq_nil in E as [_ E]. discriminate.
  - apply Hsame. unfold d_step. destruct (reduce p) as [r|]; [|reflexivity]. destruct (is_dir_at t (b ++ r)); reflexivity.
  - apply Hsame. unfold d_step. destruct (reduce p); reflexivity.
  - (* Writer *)
    unfold d_step in *. destruct (reduce p) as [r|] eqn:Er; [|apply Hsame; reflexivity].
    apply (Hframe p r); [left; reflexivity|exact Er|].
    assert (Hq : is_prefix (b ++ r) q = false) by (eapply Hout; [left; reflexivity|exact Er]).
    apply reduce_good in Er. unfold d_writer. destruct r as [|n r]; [apply frame_refl|].
    destruct (is_dir_at t (removelast (b ++ n :: r))); [|apply frame_refl].
    apply frame_write; auto using good_app, is_prefix_refl.
    intros E. apply app_eq_nil in E as [_ E]. discriminate.
  - (* Remove *)
    unfold d_step in *. destruct (reduce p) as [r|] eqn:Er; [|apply Hsame; reflexivity].
    apply (Hframe p r); [left; reflexivity|exact Er|].
    assert (Hq : is_prefix (b ++ r) q = false) by (eapply Hout; [left; reflexivity|exact Er]).
    assert (Hne : b ++ r <> []) by (intros E; rewrite E in Hq; discriminate).
    unfold d_remove. destruct (lookup t (b ++ r)) as [[|]|]; cbn [fst]; try apply frame_refl.
    + apply frame_delete; assumption.
    + destruct (has_children t (b ++ r)); cbn [fst]; [apply frame_refl|apply frame_delete; assumption].
  - (* RemoveAll *)
    unfold d_step in *. destruct (reduce p) as [r|] eqn:Er; [|apply Hsame; reflexivity].
    apply (Hframe p r); [left; reflexivity|exact Er|].
    assert (Hq : is_prefix (b ++ r) q = false) by (eapply Hout; [left; reflexivity|exact Er]).
    assert (Hne : b ++ r <> []) by (intros E; rewrite E in Hq; discriminate).
    unfold d_remove_all. destruct (lookup t (b ++ r)) as [e|]; cbn [fst].
    + apply frame_delete; assumption.
    + destruct (existsb _ _); apply frame_refl.
  - apply Hsame. unfold d_step. destruct (reduce p) as [r|]; [|reflexivity]. destruct (lookup t (b ++ r)) as [[|]|]; reflexivity.
Qed.

Theorem disk_step_outside t o q :
  WF t ->
  (forall s p, In s (targets o) -> reduce s = Some p -> is_prefix p q = false) ->
  (forall e, lookup t q = Some e -> lookup (fst (disk_step t o)) q = Some e) /\
  (lookup t q = None -> lookup (fst (disk_step t o)) q <> None ->
   lookup (fst (disk_step t o)) q = Some D /\
   exists s p, In s (targets o) /\ reduce s = Some p /\ is_prefix q p = true).
Proof. intros H Hout. exact (d_step_outside [] t o q H eq_refl Hout). Qed.

(** A child of the disk root never touches anything outside its base directory. *)
Theorem disk_view_confined b t o q :
  WF t -> good_path b = true -> is_prefix b q = false ->
  (forall e, lookup t q = Some e -> lookup (fst (disk_view_step b t o)) q = Some e) /\
  (lookup t q = None -> lookup (fst (disk_view_step b t o)) q <> None ->
   lookup (fst (disk_view_step b t o)) q = Some D /\ is_prefix q b = true).
Proof.
  intros H Gb Hq.
  destruct (d_step_outside b t o q H Gb) as [A B].
  { intros s p _ _. apply is_prefix_app_false. exact Hq. }
  split; [exact A|]. intros X Y. destruct (B X Y) as (C & s & p & _ & _ & Hp). split; [exact C|].
  destruct (is_prefix_comparable q b (b ++ p) Hp (is_prefix_app b p)) as [Z|Z]; [exact Z|congruence].
Qed.
