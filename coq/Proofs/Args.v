(** Proofs about Model/Args.v (all inputs, no bound). *)
From GC Require Import Common.Base Model.Args.

(** * Totality: the repaired splitter never panics. *)

Definition inv (s : st) : Prop :=
  match s_mode s with
  | Main => s_sep s = true \/ s_args s <> []
  | _ => s_args s <> []
  end.

Lemma inv_init : inv init_st.
Proof. left. reflexivity. Qed.

Lemma step_no_crash s c : inv s -> step false s c <> Crash.
Proof.
  unfold inv, step. destruct s as [args esc sep m]; simpl.
  destruct m as [| |base mk|base e v]; intros Hinv.
  - destruct (N.eqb c NL); [destruct esc; discriminate|].
    destruct (is_blank c); [discriminate|].
    destruct (negb esc && N.eqb c BSL); [discriminate|].
    destruct sep.
    + destruct (negb esc && N.eqb c QUOTE); [discriminate|].
      destruct (negb esc && N.eqb c LT && has_suffix [] [EQS; LT]); discriminate.
    + destruct Hinv as [H|H]; [discriminate|].
      destruct args as [|cur rest]; [congruence|].
      destruct (negb esc && N.eqb c QUOTE); [discriminate|].
      destruct (negb esc && N.eqb c LT && has_suffix cur [EQS; LT]); discriminate.
  - destruct args as [|cur rest]; [congruence|].
    destruct (negb esc && N.eqb c QUOTE); [discriminate|].
    destruct (N.eqb c BSL); discriminate.
  - destruct (N.eqb c NL); [destruct mk; discriminate|].
    destruct (is_marker_char c); [discriminate|].
    destruct (is_blank c); discriminate.
  - destruct (has_suffix (v ++ [c]) e); [|discriminate].
    destruct args; [congruence|discriminate].
Qed.

Lemma step_inv s c s' : inv s -> step false s c = Cont s' -> inv s'.
Proof.
  unfold inv, step. destruct s as [args esc sep m]; simpl.
  destruct m as [| |base mk|base e v]; intros Hinv.
  - destruct (N.eqb c NL).
    { destruct esc; [|discriminate]. intros H; inversion H; subst; simpl. exact Hinv. }
    destruct (is_blank c).
    { intros H; inversion H; subst; simpl. left; reflexivity. }
    destruct (negb esc && N.eqb c BSL).
    { intros H; inversion H; subst; simpl. exact Hinv. }
    destruct sep.
    + destruct (negb esc && N.eqb c QUOTE).
      { intros H; inversion H; subst; simpl. discriminate. }
      destruct (negb esc && N.eqb c LT && has_suffix [] [EQS; LT]);
        intros H; inversion H; subst; simpl; try discriminate. right; discriminate.
    + destruct Hinv as [H|H]; [discriminate|].
      destruct args as [|cur rest]; [congruence|].
      destruct (negb esc && N.eqb c QUOTE).
      { intros H'; inversion H'; subst; simpl. discriminate. }
      destruct (negb esc && N.eqb c LT && has_suffix cur [EQS; LT]);
        intros H'; inversion H'; subst; simpl; try discriminate. right; discriminate.
  - destruct args as [|cur rest]; [congruence|].
    destruct (negb esc && N.eqb c QUOTE).
    { intros H; inversion H; subst; simpl. right; discriminate. }
    destruct (N.eqb c BSL); intros H; inversion H; subst; simpl; discriminate.
  - destruct (N.eqb c NL).
    { destruct mk; [discriminate|]. intros H; inversion H; subst; simpl. exact Hinv. }
    destruct (is_marker_char c).
    { intros H; inversion H; subst; simpl. exact Hinv. }
    destruct (is_blank c); [|discriminate].
    intros H; inversion H; subst; simpl. exact Hinv.
  - destruct (has_suffix (v ++ [c]) e).
    + destruct args; [congruence|]. intros H; inversion H; subst; simpl. right; discriminate.
    + intros H; inversion H; subst; simpl. exact Hinv.
Qed.

Lemma run_no_panic input : forall s, inv s -> run false s input <> RPanic.
Proof.
  induction input as [|c input IH]; intros s Hinv; simpl.
  - destruct (s_mode s); discriminate.
  - destruct (step false s c) as [s'| | |] eqn:E.
    + apply IH. eapply step_inv; eauto.
    + discriminate.
    + discriminate.
    + exfalso. eapply step_no_crash; eauto.
Qed.

Theorem read_args_total input : read_args input <> RPanic.
Proof. apply run_no_panic, inv_init. Qed.

(** The code before the repair does panic (kept as a machine-checked regression witness). *)
Theorem read_args_old_panics : read_args_old [BSL; 97] = RPanic.
Proof. vm_compute. reflexivity. Qed.
Theorem read_args_old_glues : read_args_old [120; SP; BSL; 97; NL] = ROk [[120; 97]] false [].
Proof. vm_compute. reflexivity. Qed.

(** * Reading stops exactly at the command's newline, and the consumed prefix alone decides
      the arguments. *)

Lemma run_rest q input : forall s args rest,
  run q s input = ROk args false rest ->
  exists pre, input = pre ++ NL :: rest /\
              forall rest', run q s (pre ++ NL :: rest') = ROk args false rest'.
Proof.
  induction input as [|c input IH]; intros s args rest H; simpl in H.
  - destruct (s_mode s); discriminate.
  - destruct (step q s c) as [s'|a| |] eqn:E; try discriminate.
    + destruct (IH _ _ _ H) as [pre [Hp Hr]]. exists (c :: pre). split.
      * simpl. f_equal. exact Hp.
      * intros rest'. cbn [app run]. rewrite E. apply Hr.
    + inversion H; subst.
      assert (Hc : c = NL).
      { unfold step in E. destruct (s_mode s) as [| |b m|b e v].
        -- destruct (N.eqb c NL) eqn:En; [apply N.eqb_eq in En; exact En|].
           destruct (is_blank c); [discriminate|].
           destruct (negb (s_esc s) && N.eqb c BSL); [discriminate|].
           destruct (if s_sep s then [] :: s_args s else s_args s); [discriminate|].
           destruct (negb (s_esc s) && N.eqb c QUOTE); [discriminate|].
           destruct (negb (s_esc s) && N.eqb c LT && has_suffix l [EQS; LT]); discriminate.
        -- destruct (s_args s); [discriminate|].
           destruct (negb (s_esc s) && N.eqb c QUOTE); [discriminate|].
           destruct (N.eqb c BSL); discriminate.
        -- destruct (N.eqb c NL); [destruct m; discriminate|].
           destruct (is_marker_char c); [discriminate|].
           destruct (is_blank c); discriminate.
        -- destruct (has_suffix (v ++ [c]) e); [|discriminate].
           destruct (s_args s); discriminate. }
      subst c. exists []. split; [reflexivity|].
      intros rest'. cbn [app run]. rewrite E. reflexivity.
Qed.

Theorem read_args_stops_at_newline input args rest :
  read_args input = ROk args false rest ->
  exists pre, input = pre ++ NL :: rest /\
              forall rest', read_args (pre ++ NL :: rest') = ROk args false rest'.
Proof. apply run_rest. Qed.

Lemma run_eof q input : forall s args rest,
  run q s input = ROk args true rest -> rest = [].
Proof.
  induction input as [|c input IH]; intros s args rest H; simpl in H.
  - destruct (s_mode s); try discriminate. inversion H; reflexivity.
  - destruct (step q s c) as [s'|a| |]; try discriminate. eauto.
Qed.

(** * Plain words *)

Definition plain (c : byte) : bool :=
  negb (N.eqb c NL || is_blank c || N.eqb c QUOTE || N.eqb c BSL).

(** A word is heredoc-free when no '<' in it is preceded by "=<". *)
Fixpoint no_heredoc_from (cur w : bytes) : bool :=
  match w with
  | [] => true
  | c :: w' => negb (N.eqb c LT && has_suffix cur [EQS; LT]) && no_heredoc_from (cur ++ [c]) w'
  end.
Definition good_word (w : bytes) : bool :=
  match w with [] => false | _ => forallb plain w && no_heredoc_from [] w end.

Lemma plain_facts c : plain c = true ->
  N.eqb c NL = false /\ is_blank c = false /\ N.eqb c QUOTE = false /\ N.eqb c BSL = false.
Proof.
  unfold plain. intros H. apply negb_true_iff in H.
  repeat (apply orb_false_iff in H; destruct H as [H ?]). auto.
Qed.

(** Feeding the characters of a plain word in Main mode appends them to the current argument. *)
Lemma run_word q w : forall cur rest tail,
  forallb plain w = true -> no_heredoc_from cur w = true ->
  run q (mkSt (cur :: rest) false false Main) (w ++ tail)
  = run q (mkSt ((cur ++ w) :: rest) false false Main) tail.
Proof.
  induction w as [|c w IH]; intros cur rest tail Hp Hh.
  - rewrite app_nil_r. reflexivity.
  - cbn [forallb no_heredoc_from] in Hp, Hh.
    apply andb_true_iff in Hp as [Hc Hp]. apply andb_true_iff in Hh as [Hh1 Hh].
    destruct (plain_facts _ Hc) as (E1 & E2 & E3 & E4).
    apply negb_true_iff in Hh1.
    cbn [app run]. unfold step; cbn [s_mode s_esc s_sep s_args negb andb].
    rewrite E1, E2, E4, E3, Hh1.
    rewrite IH by assumption. rewrite <- app_assoc. reflexivity.
Qed.

(** A *token* [t] denotes the argument [a] when, fed at a point where a new argument may start,
    it leaves exactly [a] as the newest argument and the machine ready for a separator. *)
Definition token (q : bool) (t a : bytes) : Prop :=
  forall args tail,
    run q (mkSt args false true Main) (t ++ tail) = run q (mkSt (a :: args) false false Main) tail.

Lemma token_word q w : good_word w = true -> token q w w.
Proof.
  intros Hg args tail. destruct w as [|c w]; [discriminate|].
  unfold good_word in Hg. apply andb_true_iff in Hg as [Hp Hh].
  cbn [forallb no_heredoc_from] in Hp, Hh.
  apply andb_true_iff in Hp as [Hc Hp]. apply andb_true_iff in Hh as [_ Hh].
  destruct (plain_facts _ Hc) as (E1 & E2 & E3 & E4).
  cbn [app run]. unfold step; cbn [s_mode s_esc s_sep s_args negb andb].
  rewrite E1, E2, E4, E3.
  replace (has_suffix [] [EQS; LT]) with false by reflexivity. rewrite andb_false_r.
  change ([] ++ [c]) with [c]. change (c :: w) with ([c] ++ w).
  apply run_word; assumption.
Qed.

Lemma step_blank q args esc sep c :
  is_blank c = true ->
  step q (mkSt args esc sep Main) c = Cont (mkSt args false true Main).
Proof.
  intros Hb. unfold step; cbn [s_mode s_esc s_sep s_args].
  assert (N.eqb c NL = false) as ->.
  { unfold is_blank in Hb. apply orb_true_iff in Hb as [H|H]; apply N.eqb_eq in H; subst; reflexivity. }
  rewrite Hb. reflexivity.
Qed.

Lemma join_sp_cons2 a b l : join_sp (a :: b :: l) = a ++ SP :: join_sp (b :: l).
Proof. reflexivity. Qed.

(** Blank-separated tokens followed by a newline: exactly the denoted arguments, not at EOF,
    and the reader is left right after the newline. *)
Lemma run_tokens q ts : forall as_ args r,
  Forall2 (token q) ts as_ ->
  run q (mkSt args false true Main) (join_sp ts ++ NL :: r) = ROk (rev args ++ as_) false r.
Proof.
  induction ts as [|t ts IH]; intros as_ args r HF; inversion HF as [|t' a ts' as' Ht HF']; subst.
  - cbn. rewrite app_nil_r. reflexivity.
  - destruct ts as [|t2 ts].
    + inversion HF'; subst. cbn [join_sp]. rewrite Ht. reflexivity.
    + rewrite join_sp_cons2. rewrite <- app_assoc. rewrite Ht.
      cbn [app run]. rewrite step_blank by reflexivity.
      rewrite (IH as' (a :: args) r HF'). cbn [rev]. rewrite <- app_assoc. reflexivity.
Qed.

Lemma run_tokens_eof q ts : forall as_ args,
  Forall2 (token q) ts as_ ->
  run q (mkSt args false true Main) (join_sp ts) = ROk (rev args ++ as_) true [].
Proof.
  induction ts as [|t ts IH]; intros as_ args HF; inversion HF as [|t' a ts' as' Ht HF']; subst.
  - cbn. rewrite app_nil_r. reflexivity.
  - destruct ts as [|t2 ts].
    + inversion HF'; subst. cbn [join_sp]. rewrite <- (app_nil_r t). rewrite Ht. reflexivity.
    + rewrite join_sp_cons2. rewrite Ht.
      cbn [app run]. rewrite step_blank by reflexivity.
      rewrite (IH as' (a :: args) HF'). cbn [rev]. rewrite <- app_assoc. reflexivity.
Qed.

Theorem read_args_tokens ts as_ r :
  Forall2 (token false) ts as_ ->
  read_args (join_sp ts ++ NL :: r) = ROk as_ false r.
Proof. intros H. unfold read_args, init_st. rewrite (run_tokens false ts as_ [] r H). reflexivity. Qed.

Theorem read_args_tokens_eof ts as_ :
  Forall2 (token false) ts as_ -> read_args (join_sp ts) = ROk as_ true [].
Proof. intros H. unfold read_args, init_st. rewrite (run_tokens_eof false ts as_ [] H). reflexivity. Qed.

Lemma Forall2_same {A} (P : A -> A -> Prop) l : Forall (fun x => P x x) l -> Forall2 P l l.
Proof. induction 1; constructor; auto. Qed.

Lemma Forall2_map_l {A B} (P : B -> A -> Prop) (f : A -> B) l :
  Forall (fun x => P (f x) x) l -> Forall2 P (map f l) l.
Proof. induction 1; simpl; constructor; auto. Qed.

Theorem read_args_words ws r :
  forallb good_word ws = true ->
  read_args (join_sp ws ++ NL :: r) = ROk ws false r.
Proof.
  intros H. apply read_args_tokens. apply Forall2_same.
  apply Forall_forall. intros w Hw. apply token_word.
  rewrite forallb_forall in H. auto.
Qed.

(** * Quoted arguments: the reference quoting function round-trips every argument list. *)

Lemma run_quoted_body q a : forall cur rest sp tail,
  run q (mkSt (cur :: rest) false sp InQuote) (flat_map quote_byte a ++ QUOTE :: tail)
  = run q (mkSt ((cur ++ a) :: rest) false false Main) tail.
Proof.
  induction a as [|c a IH]; intros cur rest sp tail.
  - cbn. rewrite app_nil_r. reflexivity.
  - cbn [flat_map]. rewrite <- app_assoc. unfold quote_byte at 1.
    destruct (N.eqb c QUOTE) eqn:Eq.
    + apply N.eqb_eq in Eq; subst c. cbn [app run].
      unfold step; cbn [s_mode s_esc s_sep s_args negb andb].
      change (N.eqb BSL QUOTE) with false. change (N.eqb BSL BSL) with true.
      cbn [andb]. cbn [run]. unfold step; cbn [s_mode s_esc s_sep s_args negb andb].
      change (N.eqb QUOTE BSL) with false. cbn [andb].
      rewrite IH. rewrite <- app_assoc. reflexivity.
    + destruct (N.eqb c BSL) eqn:Eb.
      * apply N.eqb_eq in Eb; subst c. cbn [app run].
        unfold step; cbn [s_mode s_esc s_sep s_args negb andb].
        change (N.eqb QUOTE QUOTE) with true. cbn [andb run].
        unfold step; cbn [s_mode s_esc s_sep s_args negb andb].
        change (N.eqb BSL NL) with false. change (is_blank BSL) with false.
        change (N.eqb BSL BSL) with true. cbn [andb run].
        unfold step; cbn [s_mode s_esc s_sep s_args negb andb].
        change (N.eqb BSL NL) with false. change (is_blank BSL) with false. cbn [andb run].
        destruct q; cbn [run]; unfold step; cbn [s_mode s_esc s_sep s_args negb andb];
          change (N.eqb QUOTE NL) with false; change (is_blank QUOTE) with false;
          change (N.eqb QUOTE BSL) with false; change (N.eqb QUOTE QUOTE) with true; cbn [andb];
          rewrite IH; rewrite <- app_assoc; reflexivity.
      * cbn [app run]. unfold step; cbn [s_mode s_esc s_sep s_args negb andb].
        rewrite Eq, Eb. cbn [andb]. rewrite IH. rewrite <- app_assoc. reflexivity.
Qed.

Lemma token_quote1 q a : token q (quote1 a) a.
Proof.
  intros args tail. unfold quote1. cbn [app run].
  unfold step; cbn [s_mode s_esc s_sep s_args negb andb].
  change (N.eqb QUOTE NL) with false. change (is_blank QUOTE) with false.
  change (N.eqb QUOTE BSL) with false. change (N.eqb QUOTE QUOTE) with true. cbn [andb].
  rewrite <- app_assoc. cbn [app]. rewrite run_quoted_body. reflexivity.
Qed.

Theorem read_args_quote_roundtrip args r :
  read_args (quote args ++ NL :: r) = ROk args false r.
Proof.
  apply read_args_tokens. unfold quote. apply Forall2_map_l.
  apply Forall_forall. intros a _. apply token_quote1.
Qed.

Theorem read_args_quote_roundtrip_eof args :
  read_args (quote args) = ROk args true [].
Proof.
  apply read_args_tokens_eof. unfold quote. apply Forall2_map_l.
  apply Forall_forall. intros a _. apply token_quote1.
Qed.

(** * Backslash-newline continues the line. *)
Lemma token_continuation q w1 w2 :
  w1 <> [] -> good_word (w1 ++ w2) = true -> token q (w1 ++ BSL :: NL :: w2) (w1 ++ w2).
Proof.
  intros Hne Hg args tail.
  destruct w1 as [|c w1]; [congruence|].
  unfold good_word in Hg. cbn [app] in Hg. apply andb_true_iff in Hg as [Hp Hh].
  cbn [forallb no_heredoc_from] in Hp, Hh.
  apply andb_true_iff in Hp as [Hc Hp]. apply andb_true_iff in Hh as [_ Hh].
  rewrite forallb_app in Hp. apply andb_true_iff in Hp as [Hp1 Hp2].
  destruct (plain_facts _ Hc) as (E1 & E2 & E3 & E4).
  cbn [app run]. unfold step at 1; cbn [s_mode s_esc s_sep s_args negb andb].
  rewrite E1, E2, E4, E3.
  replace (has_suffix [] [EQS; LT]) with false by reflexivity. rewrite andb_false_r.
  change ([] ++ [c]) with [c].
  assert (Hh1 : no_heredoc_from [c] w1 = true /\ no_heredoc_from ([c] ++ w1) w2 = true).
  { clear -Hh. change ([] ++ [c]) with [c] in Hh. revert Hh. generalize [c] as cur.
    induction w1 as [|d w1 IH]; intros cur Hh.
    - rewrite app_nil_r. split; [reflexivity|exact Hh].
    - cbn [app no_heredoc_from] in *. apply andb_true_iff in Hh as [H1 H2].
      destruct (IH _ H2) as [A B]. rewrite H1, A. split; [reflexivity|].
      rewrite <- app_assoc in B. exact B. }
  destruct Hh1 as [Ha Hb].
  rewrite <- app_assoc. rewrite run_word by assumption.
  cbn [app run]. unfold step at 1; cbn [s_mode s_esc s_sep s_args negb andb].
  change (N.eqb BSL NL) with false. change (is_blank BSL) with false.
  change (N.eqb BSL BSL) with true. cbn [andb].
  replace (if q then false else false) with false by (destruct q; reflexivity).
  cbn [run]. unfold step at 1; cbn [s_mode s_esc s_sep s_args negb andb].
  change (N.eqb NL NL) with true. cbn iota.
  rewrite run_word by assumption. reflexivity.
Qed.

(** * Heredoc arguments. *)

(** The terminator [e] occurs in [d] for the first time at the very end. *)
Definition first_match_at_end (e d : bytes) : bool :=
  has_suffix d e &&
  forallb (fun n => negb (has_suffix (firstn n d) e)) (seq 1 (length d - 1)).

Lemma run_heredata q base cur e : forall x v rest esc sep tail,
  x <> [] ->
  has_suffix (v ++ x) e = true ->
  (forall n, (1 <= n < length x)%nat -> has_suffix (v ++ firstn n x) e = false) ->
  run q (mkSt (cur :: rest) esc sep (HereData base e v)) (x ++ tail)
  = run q (mkSt ((base ++ trim (firstn (length (v ++ x) - length e) (v ++ x))) :: rest) esc sep Main) tail.
Proof.
  induction x as [|c x IH]; intros v rest esc sep tail Hne Hend Hnot; [congruence|].
  cbn [app run]. unfold step; cbn [s_mode s_esc s_sep s_args].
  destruct (list_eq_dec N.eq_dec x []) as [Ex|Ex].
  - subst x. replace (has_suffix (v ++ [c]) e) with true by (symmetry; exact Hend). reflexivity.
  - assert (H1 : has_suffix (v ++ [c]) e = false).
    { specialize (Hnot 1%nat). cbn [firstn] in Hnot. apply Hnot.
      destruct x; [exfalso; apply Ex; reflexivity|]. simpl. lia. }
    rewrite H1.
    specialize (IH (v ++ [c]) rest esc sep tail).
    rewrite <- app_assoc in IH. cbn [app] in IH.
    rewrite IH; [reflexivity|exact Ex|exact Hend|].
    intros n Hn. specialize (Hnot (S n)). cbn [firstn] in Hnot.
    rewrite <- app_assoc. cbn [app]. apply Hnot. simpl in *. lia.
Qed.

Lemma has_suffix_app a s : has_suffix (a ++ s) s = true.
Proof.
  unfold has_suffix. rewrite app_length.
  destruct (Nat.ltb_spec (length a + length s) (length s)) as [H|H]; [lia|].
  replace (length a + length s - length s)%nat with (length a) by lia.
  rewrite skipn_app, skipn_all, Nat.sub_diag. simpl. apply bytes_eqb_refl.
Qed.

Lemma marker_not_nl c : is_marker_char c = true -> N.eqb c NL = false.
Proof.
  intros H. destruct (N.eqb_spec c NL) as [E|E]; [|reflexivity]. subst. discriminate.
Qed.

Lemma run_marker q base M : forall m args esc sep tail,
  forallb is_marker_char M = true ->
  run q (mkSt args esc sep (HereMarker base m)) (M ++ tail)
  = run q (mkSt args esc sep (HereMarker base (m ++ M))) tail.
Proof.
  induction M as [|c M IH]; intros m args esc sep tail HM.
  - rewrite app_nil_r. reflexivity.
  - cbn [forallb] in HM. apply andb_true_iff in HM as [Hc HM].
    cbn [app run]. unfold step; cbn [s_mode s_esc s_sep s_args].
    rewrite (marker_not_nl _ Hc), Hc. rewrite IH by assumption.
    rewrite <- app_assoc. reflexivity.
Qed.

Lemma token_heredoc q k M t :
  good_word (k ++ [EQS; LT]) = true ->
  M <> [] -> forallb is_marker_char M = true ->
  first_match_at_end (NL :: M) (t ++ NL :: M) = true ->
  token q (k ++ [EQS; LT; LT] ++ M ++ NL :: t ++ NL :: M) (k ++ EQS :: trim t).
Proof.
  intros Hk HMne HM Hfirst args tail.
  replace ((k ++ [EQS; LT; LT] ++ M ++ NL :: t ++ NL :: M) ++ tail)
    with ((k ++ [EQS; LT]) ++ LT :: M ++ NL :: (t ++ NL :: M) ++ tail).
  2:{ rewrite <- !app_assoc. cbn [app]. rewrite <- !app_assoc. reflexivity. }
  rewrite (token_word q _ Hk).
  cbn [run]. unfold step at 1; cbn [s_mode s_esc s_sep s_args negb andb].
  change (N.eqb LT NL) with false. change (is_blank LT) with false.
  change (N.eqb LT BSL) with false. change (N.eqb LT QUOTE) with false.
  change (N.eqb LT LT) with true. rewrite has_suffix_app. cbn [andb].
  rewrite run_marker by assumption. cbn [app].
  cbn [run]. unfold step at 1; cbn [s_mode s_esc s_sep s_args].
  change (N.eqb NL NL) with true. cbn iota.
  destruct M as [|m0 M']; [congruence|].
  unfold first_match_at_end in Hfirst. apply andb_true_iff in Hfirst as [Hend Hnot].
  rewrite (run_heredata q (removelast (k ++ [EQS; LT])) (k ++ [EQS; LT]) (NL :: m0 :: M')
             (t ++ NL :: m0 :: M') [] args false false tail).
  - cbn [app]. f_equal. f_equal. f_equal.
    replace (k ++ [EQS; LT]) with ((k ++ [EQS]) ++ [LT]) by (rewrite <- app_assoc; reflexivity).
    rewrite removelast_last. rewrite <- app_assoc. cbn [app]. f_equal. f_equal. f_equal.
    rewrite app_length.
    replace (length t + length (NL :: m0 :: M') - length (NL :: m0 :: M'))%nat with (length t) by lia.
    rewrite firstn_app, firstn_all, Nat.sub_diag. cbn [firstn]. apply app_nil_r.
  - destruct t; discriminate.
  - exact Hend.
  - intros n Hn. cbn [app]. rewrite forallb_forall in Hnot.
    specialize (Hnot n). rewrite in_seq in Hnot.
    apply negb_true_iff. apply Hnot. lia.
Qed.

(** * argscope: positional arguments are numbered in order, named ones keep their key. *)

Definition is_named (a : bytes) : bool :=
  match split_eq (trim_dash (trim_dash a)) with Some _ => true | None => false end.

Definition is_pos_entry (e : key * bytes) : bool := match fst e with KPos _ => true | KName _ => false end.
Definition named_kv (a : bytes) : key * bytes :=
  match split_eq (trim_dash (trim_dash a)) with Some (k, v) => (KName k, v) | None => (KName [], []) end.

(** Positional arguments (those without '=') are bound to $i, $(i+1), ... in their order. *)
Lemma inject_from_positional args : forall i,
  map snd (filter is_pos_entry (inject_from i args)) = filter (fun a => negb (is_named a)) args /\
  map fst (filter is_pos_entry (inject_from i args))
  = map KPos (seq i (length (filter (fun a => negb (is_named a)) args))).
Proof.
  induction args as [|a l IH]; intros i; [split; reflexivity|].
  cbn [inject_from filter].
  destruct (split_eq (trim_dash (trim_dash a))) as [[k v]|] eqn:E.
  - assert (Hn : is_named a = true) by (unfold is_named; rewrite E; reflexivity).
    rewrite Hn. cbn [filter is_pos_entry fst negb]. apply IH.
  - assert (Hn : is_named a = false) by (unfold is_named; rewrite E; reflexivity).
    rewrite Hn. cbn [filter is_pos_entry fst negb map snd length seq]. destruct (IH (S i)) as [A B].
    rewrite A, B. split; reflexivity.
Qed.

(** Named arguments keep their order and are bound key := text before the first '=' (after up to
    two leading dashes are dropped), value := text after it. *)
Lemma inject_from_named args : forall i,
  filter (fun e => negb (is_pos_entry e)) (inject_from i args) = map named_kv (filter is_named args).
Proof.
  induction args as [|a l IH]; intros i; [reflexivity|].
  cbn [inject_from filter].
  destruct (split_eq (trim_dash (trim_dash a))) as [[k v]|] eqn:E.
  - assert (Hn : is_named a = true) by (unfold is_named; rewrite E; reflexivity).
    rewrite Hn. cbn [filter is_pos_entry fst negb map]. unfold named_kv at 1. rewrite E. f_equal. apply IH.
  - assert (Hn : is_named a = false) by (unfold is_named; rewrite E; reflexivity).
    rewrite Hn. cbn [filter is_pos_entry fst negb]. apply IH.
Qed.

Lemma separate_args_spec all :
  let (args, sep) := separate_args all in
  forallb (fun a => negb (is_sep_arg a)) args = true /\
  (all = args /\ sep = [] \/ all = args ++ [DASH; DASH] :: sep).
Proof.
  induction all as [|a l IH]; [simpl; auto|].
  cbn [separate_args]. destruct (is_sep_arg a) eqn:E.
  - split; [reflexivity|]. right. apply bytes_eqb_spec in E. subst. reflexivity.
  - destruct (separate_args l) as [x y]. destruct IH as [H1 H2]. split.
    + cbn [forallb]. rewrite E. exact H1.
    + destruct H2 as [[Ha Hs]|Ha]; subst; [left|right]; auto.
Qed.
