(** Proofs about Model/Args.v (all inputs, no bound). *)
From GC Require Import Common.Base Model.Args.

(** * Totality: the repaired splitter never panics. *)

Definition inv (s : st) : Prop :=
  match s_mode s with
  | Main => s_sep s = true \/ s_args s <> []
  | _ => s_args s <> []
  end.

Lemma inv_init : inv init_st.
Proof. left. reflexivity. Qed.

Lemma step_no_crash s c : inv s -> step false s c <> Crash.
Proof.
  unfold inv, step. destruct s as [args esc sep m]; simpl.
  destruct m as [| |base mk|base e v]; intros Hinv.
  - destruct (N.eqb c NL); [destruct esc; discriminate|].
    destruct (is_blank c); [discriminate|].
    destruct (negb esc && N.eqb c BSL); [discriminate|].
    destruct sep.
    + destruct (negb esc && N.eqb c QUOTE); [discriminate|].
      destruct (negb esc && N.eqb c LT && has_suffix [] [EQS; LT]); discriminate.
    + destruct Hinv as [H|H]; [discriminate|].
      destruct args as [|cur rest]; [congruence|].
      destruct (negb esc && N.eqb c QUOTE); [discriminate|].
      destruct (negb esc && N.eqb c LT && has_suffix cur [EQS; LT]); discriminate.
  - destruct args as [|cur rest]; [congruence|].
    destruct (negb esc && N.eqb c QUOTE); [discriminate|].
    destruct (N.eqb c BSL); discriminate.
  - destruct (N.eqb c NL); [destruct mk; discriminate|].
    destruct (is_marker_char c); [discriminate|].
    destruct (is_blank c); discriminate.
  - destruct (has_suffix v e && (is_blank c || N.eqb c NL)); [|discriminate].
    destruct args; [congruence|]. destruct (N.eqb c NL); discriminate.
Qed.

Lemma step_inv s c s' : inv s -> step false s c = Cont s' -> inv s'.
Proof.
  unfold inv, step. destruct s as [args esc sep m]; simpl.
  destruct m as [| |base mk|base e v]; intros Hinv.
  - destruct (N.eqb c NL).
    { destruct esc; [|discriminate]. intros H; inversion H; subst; simpl. exact Hinv. }
    destruct (is_blank c).
    { intros H; inversion H; subst; simpl. left; reflexivity. }
    destruct (negb esc && N.eqb c BSL).
    { intros H; inversion H; subst; simpl. exact Hinv. }
    destruct sep.
    + destruct (negb esc && N.eqb c QUOTE).
      { intros H; inversion H; subst; simpl. discriminate. }
      destruct (negb esc && N.eqb c LT && has_suffix [] [EQS; LT]);
        intros H; inversion H; subst; simpl; try discriminate. right; discriminate.
    + destruct Hinv as [H|H]; [discriminate|].
      destruct args as [|cur rest]; [congruence|].
      destruct (negb esc && N.eqb c QUOTE).
      { intros H'; inversion H'; subst; simpl. discriminate. }
      destruct (negb esc && N.eqb c LT && has_suffix cur [EQS; LT]);
        intros H'; inversion H'; subst; simpl; try discriminate. right; discriminate.
  - destruct args as [|cur rest]; [congruence|].
    destruct (negb esc && N.eqb c QUOTE).
    { intros H; inversion H; subst; simpl. right; discriminate. }
    destruct (N.eqb c BSL); intros H; inversion H; subst; simpl; discriminate.
  - destruct (N.eqb c NL).
    { destruct mk; [discriminate|]. intros H; inversion H; subst; simpl. exact Hinv. }
    destruct (is_marker_char c).
    { intros H; inversion H; subst; simpl. exact Hinv. }
    destruct (is_blank c); [|discriminate].
    intros H; inversion H; subst; simpl. exact Hinv.
  - destruct (has_suffix v e && (is_blank c || N.eqb c NL)).
    + destruct args; [congruence|]. destruct (N.eqb c NL); [discriminate|].
      intros H; inversion H; subst; simpl. right; discriminate.
    + intros H; inversion H; subst; simpl. exact Hinv.
Qed.

Lemma run_no_panic input : forall s, inv s -> run false s input <> RPanic.
Proof.
  induction input as [|c input IH]; intros s Hinv; simpl.
  - unfold inv in Hinv. destruct (s_mode s); try discriminate.
    destruct (has_suffix value eofseq); [|discriminate].
    destruct (s_args s); [congruence|discriminate].
  - destruct (step false s c) as [s'| | |] eqn:E.
    + apply IH. eapply step_inv; eauto.
    + discriminate.
    + discriminate.
    + exfalso. eapply step_no_crash; eauto.
Qed.

Theorem read_args_total input : read_args input <> RPanic.
Proof. apply run_no_panic, inv_init. Qed.

(** The code before the repair does panic (kept as a machine-checked regression witness). *)
Theorem read_args_old_panics : read_args_old [BSL; 97] = RPanic.
Proof. vm_compute. reflexivity. Qed.
Theorem read_args_old_glues : read_args_old [120; SP; BSL; 97; NL] = ROk [[120; 97]] false [].
Proof. vm_compute. reflexivity. Qed.

(** * Reading stops exactly at the command's newline, and the consumed prefix alone decides
      the arguments. *)

Lemma run_rest q input : forall s args rest,
  run q s input = ROk args false rest ->
  exists pre, input = pre ++ NL :: rest /\
              forall rest', run q s (pre ++ NL :: rest') = ROk args false rest'.
Proof.
  induction input as [|c input IH]; intros s args rest H; simpl in H.
  - destruct (s_mode s); try discriminate.
    destruct (has_suffix value eofseq); [|discriminate]. destruct (s_args s); discriminate.
  - destruct (step q s c) as [s'|a| |] eqn:E; try discriminate.
    + destruct (IH _ _ _ H) as [pre [Hp Hr]]. exists (c :: pre). split.
      * simpl. f_equal. exact Hp.
      * intros rest'. cbn [app run]. rewrite E. apply Hr.
    + inversion H; subst.
      assert (Hc : c = NL).
      { unfold step in E. destruct (s_mode s) as [| |b m|b e v].
        -- destruct (N.eqb c NL) eqn:En; [apply N.eqb_eq in En; exact En|].
           destruct (is_blank c); [discriminate|].
           destruct (negb (s_esc s) && N.eqb c BSL); [discriminate|].
           destruct (if s_sep s then [] :: s_args s else s_args s); [discriminate|].
           destruct (negb (s_esc s) && N.eqb c QUOTE); [discriminate|].
           destruct (negb (s_esc s) && N.eqb c LT && has_suffix l [EQS; LT]); discriminate.
        -- destruct (s_args s); [discriminate|].
           destruct (negb (s_esc s) && N.eqb c QUOTE); [discriminate|].
           destruct (N.eqb c BSL); discriminate.
        -- destruct (N.eqb c NL); [destruct m; discriminate|].
           destruct (is_marker_char c); [discriminate|].
           destruct (is_blank c); discriminate.
        -- destruct (has_suffix v e && (is_blank c || N.eqb c NL)); [|discriminate].
           destruct (s_args s); [discriminate|].
           destruct (N.eqb c NL) eqn:En; [apply N.eqb_eq in En; exact En|discriminate]. }
      subst c. exists []. split; [reflexivity|].
      intros rest'. cbn [app run]. rewrite E. reflexivity.
Qed.

Theorem read_args_stops_at_newline input args rest :
  read_args input = ROk args false rest ->
  exists pre, input = pre ++ NL :: rest /\
              forall rest', read_args (pre ++ NL :: rest') = ROk args false rest'.
Proof. apply run_rest. Qed.

Lemma run_eof q input : forall s args rest,
  run q s input = ROk args true rest -> rest = [].
Proof.
  induction input as [|c input IH]; intros s args rest H; simpl in H.
  - destruct (s_mode s); try discriminate.
    + inversion H; reflexivity.
    + destruct (has_suffix value eofseq); [|discriminate].
      destruct (s_args s); [discriminate|]. inversion H; reflexivity.
  - destruct (step q s c) as [s'|a| |]; try discriminate. eauto.
Qed.

(** * Plain words *)

Definition plain (c : byte) : bool :=
  negb (N.eqb c NL || is_blank c || N.eqb c QUOTE || N.eqb c BSL).

(** A word is heredoc-free when no '<' in it is preceded by "=<". *)
Fixpoint no_heredoc_from (cur w : bytes) : bool :=
  match w with
  | [] => true
  | c :: w' => negb (N.eqb c LT && has_suffix cur [EQS; LT]) && no_heredoc_from (cur ++ [c]) w'
  end.
Definition good_word (w : bytes) : bool :=
  match w with [] => false | _ => forallb plain w && no_heredoc_from [] w end.

Lemma plain_facts c : plain c = true ->
  N.eqb c NL = false /\ is_blank c = false /\ N.eqb c QUOTE = false /\ N.eqb c BSL = false.
Proof.
  unfold plain. intros H. apply negb_true_iff in H.
  repeat (apply orb_false_iff in H; destruct H as [H ?]). auto.
Qed.

(** Feeding the characters of a plain word in Main mode appends them to the current argument. *)
Lemma run_word q w : forall cur rest tail,
  forallb plain w = true -> no_heredoc_from cur w = true ->
  run q (mkSt (cur :: rest) false false Main) (w ++ tail)
  = run q (mkSt ((cur ++ w) :: rest) false false Main) tail.
Proof.
  induction w as [|c w IH]; intros cur rest tail Hp Hh.
  - rewrite app_nil_r. reflexivity.
  - cbn [forallb no_heredoc_from] in Hp, Hh.
    apply andb_true_iff in Hp as [Hc Hp]. apply andb_true_iff in Hh as [Hh1 Hh].
    destruct (plain_facts _ Hc) as (E1 & E2 & E3 & E4).
    apply negb_true_iff in Hh1.
    cbn [app run]. unfold step; cbn [s_mode s_esc s_sep s_args negb andb].
    rewrite E1, E2, E4, E3, Hh1.
    rewrite IH by assumption. rewrite <- app_assoc. reflexivity.
Qed.

(** A *token* [t] denotes the argument [a] when, fed at a point where a new argument may start,
    it leaves exactly [a] as the newest argument and the machine ready for a separator. *)
Definition token (q : bool) (t a : bytes) : Prop :=
  forall args tail,
    run q (mkSt args false true Main) (t ++ tail) = run q (mkSt (a :: args) false false Main) tail.

(** A heredoc ends only where a blank, a tab, a newline or the end of the input follows its
    marker, so it is a token in the weaker sense: for every continuation that starts so. *)
Definition is_sepb (c : byte) : bool := is_blank c || N.eqb c NL.
Definition starts_sep (tail : bytes) : bool :=
  match tail with [] => true | c :: _ => is_sepb c end.
Definition wtoken (q : bool) (t a : bytes) : Prop :=
  forall args tail, starts_sep tail = true ->
    run q (mkSt args false true Main) (t ++ tail) = run q (mkSt (a :: args) false false Main) tail.

Lemma token_wtoken q t a : token q t a -> wtoken q t a.
Proof. intros H args tail _. apply H. Qed.

Lemma token_word q w : good_word w = true -> token q w w.
Proof.
  intros Hg args tail. destruct w as [|c w]; [discriminate|].
  unfold good_word in Hg. apply andb_true_iff in Hg as [Hp Hh].
  cbn [forallb no_heredoc_from] in Hp, Hh.
  apply andb_true_iff in Hp as [Hc Hp]. apply andb_true_iff in Hh as [_ Hh].
  destruct (plain_facts _ Hc) as (E1 & E2 & E3 & E4).
  cbn [app run]. unfold step; cbn [s_mode s_esc s_sep s_args negb andb].
  rewrite E1, E2, E4, E3.
  replace (has_suffix [] [EQS; LT]) with false by reflexivity. rewrite andb_false_r.
  change ([] ++ [c]) with [c]. change (c :: w) with ([c] ++ w).
  apply run_word; assumption.
Qed.

Lemma step_blank q args esc sep c :
  is_blank c = true ->
  step q (mkSt args esc sep Main) c = Cont (mkSt args false true Main).
Proof.
  intros Hb. unfold step; cbn [s_mode s_esc s_sep s_args].
  assert (N.eqb c NL = false) as ->.
  { unfold is_blank in Hb. apply orb_true_iff in Hb as [H|H]; apply N.eqb_eq in H; subst; reflexivity. }
  rewrite Hb. reflexivity.
Qed.

Lemma join_sp_cons2 a b l : join_sp (a :: b :: l) = a ++ SP :: join_sp (b :: l).
Proof. reflexivity. Qed.

(** Blank-separated tokens followed by a newline: exactly the denoted arguments, not at EOF,
    and the reader is left right after the newline. *)
Lemma run_tokens q ts : forall as_ args r,
  Forall2 (wtoken q) ts as_ ->
  run q (mkSt args false true Main) (join_sp ts ++ NL :: r) = ROk (rev args ++ as_) false r.
Proof.
  induction ts as [|t ts IH]; intros as_ args r HF; inversion HF as [|t' a ts' as' Ht HF']; subst.
  - cbn. rewrite app_nil_r. reflexivity.
  - destruct ts as [|t2 ts].
    + inversion HF'; subst. cbn [join_sp]. rewrite Ht by reflexivity. reflexivity.
    + rewrite join_sp_cons2. rewrite <- app_assoc. rewrite Ht by reflexivity.
      cbn [app run]. rewrite step_blank by reflexivity.
      rewrite (IH as' (a :: args) r HF'). cbn [rev]. rewrite <- app_assoc. reflexivity.
Qed.

Lemma run_tokens_eof q ts : forall as_ args,
  Forall2 (wtoken q) ts as_ ->
  run q (mkSt args false true Main) (join_sp ts) = ROk (rev args ++ as_) true [].
Proof.
  induction ts as [|t ts IH]; intros as_ args HF; inversion HF as [|t' a ts' as' Ht HF']; subst.
  - cbn. rewrite app_nil_r. reflexivity.
  - destruct ts as [|t2 ts].
    + inversion HF'; subst. cbn [join_sp]. rewrite <- (app_nil_r t). rewrite Ht by reflexivity.
      reflexivity.
    + rewrite join_sp_cons2. rewrite Ht by reflexivity.
      cbn [app run]. rewrite step_blank by reflexivity.
      rewrite (IH as' (a :: args) HF'). cbn [rev]. rewrite <- app_assoc. reflexivity.
Qed.

Theorem read_args_tokens ts as_ r :
  Forall2 (wtoken false) ts as_ ->
  read_args (join_sp ts ++ NL :: r) = ROk as_ false r.
Proof. intros H. unfold read_args, init_st. rewrite (run_tokens false ts as_ [] r H). reflexivity. Qed.

Theorem read_args_tokens_eof ts as_ :
  Forall2 (wtoken false) ts as_ -> read_args (join_sp ts) = ROk as_ true [].
Proof. intros H. unfold read_args, init_st. rewrite (run_tokens_eof false ts as_ [] H). reflexivity. Qed.

Lemma Forall2_same {A} (P : A -> A -> Prop) l : Forall (fun x => P x x) l -> Forall2 P l l.
Proof. induction 1; constructor; auto. Qed.

Lemma Forall2_map_l {A B} (P : B -> A -> Prop) (f : A -> B) l :
  Forall (fun x => P (f x) x) l -> Forall2 P (map f l) l.
Proof. induction 1; simpl; constructor; auto. Qed.

Theorem read_args_words ws r :
  forallb good_word ws = true ->
  read_args (join_sp ws ++ NL :: r) = ROk ws false r.
Proof.
  intros H. apply read_args_tokens. apply Forall2_same.
  apply Forall_forall. intros w Hw. apply token_wtoken, token_word.
  rewrite forallb_forall in H. auto.
Qed.

(** * Quoted arguments: the reference quoting function round-trips every argument list. *)

Lemma run_quoted_body q a : forall cur rest sp tail,
  run q (mkSt (cur :: rest) false sp InQuote) (flat_map quote_byte a ++ QUOTE :: tail)
  = run q (mkSt ((cur ++ a) :: rest) false false Main) tail.
Proof.
  induction a as [|c a IH]; intros cur rest sp tail.
  - cbn. rewrite app_nil_r. reflexivity.
  - cbn [flat_map]. rewrite <- app_assoc. unfold quote_byte at 1.
    destruct (N.eqb c QUOTE) eqn:Eq.
    + apply N.eqb_eq in Eq; subst c. cbn [app run].
      unfold step; cbn [s_mode s_esc s_sep s_args negb andb].
      change (N.eqb BSL QUOTE) with false. change (N.eqb BSL BSL) with true.
      cbn [andb]. cbn [run]. unfold step; cbn [s_mode s_esc s_sep s_args negb andb].
      change (N.eqb QUOTE BSL) with false. cbn [andb].
      rewrite IH. rewrite <- app_assoc. reflexivity.
    + destruct (N.eqb c BSL) eqn:Eb.
      * apply N.eqb_eq in Eb; subst c. cbn [app run].
        unfold step; cbn [s_mode s_esc s_sep s_args negb andb].
        change (N.eqb QUOTE QUOTE) with true. cbn [andb run].
        unfold step; cbn [s_mode s_esc s_sep s_args negb andb].
        change (N.eqb BSL NL) with false. change (is_blank BSL) with false.
        change (N.eqb BSL BSL) with true. cbn [andb run].
        unfold step; cbn [s_mode s_esc s_sep s_args negb andb].
        change (N.eqb BSL NL) with false. change (is_blank BSL) with false. cbn [andb run].
        destruct q; cbn [run]; unfold step; cbn [s_mode s_esc s_sep s_args negb andb];
          change (N.eqb QUOTE NL) with false; change (is_blank QUOTE) with false;
          change (N.eqb QUOTE BSL) with false; change (N.eqb QUOTE QUOTE) with true; cbn [andb];
          rewrite IH; rewrite <- app_assoc; reflexivity.
      * cbn [app run]. unfold step; cbn [s_mode s_esc s_sep s_args negb andb].
        rewrite Eq, Eb. cbn [andb]. rewrite IH. rewrite <- app_assoc. reflexivity.
Qed.

Lemma token_quote1 q a : token q (quote1 a) a.
Proof.
  intros args tail. unfold quote1. cbn [app run].
  unfold step; cbn [s_mode s_esc s_sep s_args negb andb].
  change (N.eqb QUOTE NL) with false. change (is_blank QUOTE) with false.
  change (N.eqb QUOTE BSL) with false. change (N.eqb QUOTE QUOTE) with true. cbn [andb].
  rewrite <- app_assoc. cbn [app]. rewrite run_quoted_body. reflexivity.
Qed.

Theorem read_args_quote_roundtrip args r :
  read_args (quote args ++ NL :: r) = ROk args false r.
Proof.
  apply read_args_tokens. unfold quote. apply Forall2_map_l.
  apply Forall_forall. intros a _. apply token_wtoken, token_quote1.
Qed.

Theorem read_args_quote_roundtrip_eof args :
  read_args (quote args) = ROk args true [].
Proof.
  apply read_args_tokens_eof. unfold quote. apply Forall2_map_l.
  apply Forall_forall. intros a _. apply token_wtoken, token_quote1.
Qed.

(** * Backslash-newline continues the line. *)
Lemma token_continuation q w1 w2 :
  w1 <> [] -> good_word (w1 ++ w2) = true -> token q (w1 ++ BSL :: NL :: w2) (w1 ++ w2).
Proof.
  intros Hne Hg args tail.
  destruct w1 as [|c w1]; [congruence|].
  unfold good_word in Hg. cbn [app] in Hg. apply andb_true_iff in Hg as [Hp Hh].
  cbn [forallb no_heredoc_from] in Hp, Hh.
  apply andb_true_iff in Hp as [Hc Hp]. apply andb_true_iff in Hh as [_ Hh].
  rewrite forallb_app in Hp. apply andb_true_iff in Hp as [Hp1 Hp2].
  destruct (plain_facts _ Hc) as (E1 & E2 & E3 & E4).
  cbn [app run]. unfold step at 1; cbn [s_mode s_esc s_sep s_args negb andb].
  rewrite E1, E2, E4, E3.
  replace (has_suffix [] [EQS; LT]) with false by reflexivity. rewrite andb_false_r.
  change ([] ++ [c]) with [c].
  assert (Hh1 : no_heredoc_from [c] w1 = true /\ no_heredoc_from ([c] ++ w1) w2 = true).
  { clear -Hh. change ([] ++ [c]) with [c] in Hh. revert Hh. generalize [c] as cur.
    induction w1 as [|d w1 IH]; intros cur Hh.
    - rewrite app_nil_r. split; [reflexivity|exact Hh].
    - cbn [app no_heredoc_from] in *. apply andb_true_iff in Hh as [H1 H2].
      destruct (IH _ H2) as [A B]. rewrite H1, A. split; [reflexivity|].
      rewrite <- app_assoc in B. exact B. }
  destruct Hh1 as [Ha Hb].
  rewrite <- app_assoc. rewrite run_word by assumption.
  cbn [app run]. unfold step at 1; cbn [s_mode s_esc s_sep s_args negb andb].
  change (N.eqb BSL NL) with false. change (is_blank BSL) with false.
  change (N.eqb BSL BSL) with true. cbn [andb].
  replace (if q then false else false) with false by (destruct q; reflexivity).
  cbn [run]. unfold step at 1; cbn [s_mode s_esc s_sep s_args negb andb].
  change (N.eqb NL NL) with true. cbn iota.
  rewrite run_word by assumption. reflexivity.
Qed.

(** * Heredoc arguments. *)

(** Scanning condition: fed [x] from the value [v], the data loop does not stop before the end
    of [x] (it stops where the value ends in the terminator [e] AND a separator byte comes). *)
Fixpoint no_early (e v x : bytes) : bool :=
  match x with
  | [] => true
  | c :: x' => negb (has_suffix v e && is_sepb c) && no_early e (v ++ [c]) x'
  end.

Lemma run_heredata q base cur e : forall x v rest esc sep tail,
  no_early e v x = true ->
  has_suffix (v ++ x) e = true ->
  starts_sep tail = true ->
  run q (mkSt (cur :: rest) esc sep (HereData base e v)) (x ++ tail)
  = run q (mkSt (here_value base e (v ++ x) :: rest) false false Main) tail.
Proof.
  induction x as [|c x IH]; intros v rest esc sep tail Hne Hend Hs.
  - rewrite app_nil_r in *. cbn [app]. destruct tail as [|c tl].
    + cbn [run s_mode s_args]. rewrite Hend. reflexivity.
    + cbn [starts_sep] in Hs. unfold is_sepb in Hs.
      cbn [run]. unfold step at 1; cbn [s_mode s_esc s_sep s_args].
      rewrite Hend, Hs. cbn [andb]. destruct (N.eqb c NL) eqn:En.
      * apply N.eqb_eq in En. subst c. reflexivity.
      * rewrite orb_false_r in Hs. rewrite step_blank by exact Hs. reflexivity.
  - cbn [no_early] in Hne. apply andb_true_iff in Hne as [H1 H2]. apply negb_true_iff in H1.
    unfold is_sepb in H1.
    cbn [app run]. unfold step at 1; cbn [s_mode s_esc s_sep s_args]. rewrite H1.
    rewrite (IH (v ++ [c]) rest esc sep tail H2).
    + rewrite <- app_assoc. reflexivity.
    + rewrite <- app_assoc. exact Hend.
    + exact Hs.
Qed.

Lemma has_suffix_app a s : has_suffix (a ++ s) s = true.
Proof.
  unfold has_suffix. rewrite app_length.
  destruct (Nat.ltb_spec (length a + length s) (length s)) as [H|H]; [lia|].
  replace (length a + length s - length s)%nat with (length a) by lia.
  rewrite skipn_app, skipn_all, Nat.sub_diag. simpl. apply bytes_eqb_refl.
Qed.

Lemma marker_not_nl c : is_marker_char c = true -> N.eqb c NL = false.
Proof.
  intros H. destruct (N.eqb_spec c NL) as [E|E]; [|reflexivity]. subst. discriminate.
Qed.

Lemma run_marker q base M : forall m args esc sep tail,
  forallb is_marker_char M = true ->
  run q (mkSt args esc sep (HereMarker base m)) (M ++ tail)
  = run q (mkSt args esc sep (HereMarker base (m ++ M))) tail.
Proof.
  induction M as [|c M IH]; intros m args esc sep tail HM.
  - rewrite app_nil_r. reflexivity.
  - cbn [forallb] in HM. apply andb_true_iff in HM as [Hc HM].
    cbn [app run]. unfold step; cbn [s_mode s_esc s_sep s_args].
    rewrite (marker_not_nl _ Hc), Hc. rewrite IH by assumption.
    rewrite <- app_assoc. reflexivity.
Qed.

(** The general form: [u] is everything between the newline of the opening line and the closing
    marker (empty, or lines each ended by a newline). *)
Lemma token_heredoc_gen q k M u :
  good_word (k ++ [EQS; LT]) = true ->
  M <> [] -> forallb is_marker_char M = true ->
  no_early (NL :: M) [NL] (u ++ M) = true ->
  has_suffix (NL :: u ++ M) (NL :: M) = true ->
  wtoken q (k ++ [EQS; LT; LT] ++ M ++ NL :: u ++ M)
           (here_value (k ++ [EQS]) (NL :: M) (NL :: u ++ M)).
Proof.
  intros Hk HMne HM Hne Hend args tail Hs.
  replace ((k ++ [EQS; LT; LT] ++ M ++ NL :: u ++ M) ++ tail)
    with ((k ++ [EQS; LT]) ++ LT :: M ++ NL :: (u ++ M) ++ tail).
  2:{ rewrite <- !app_assoc. cbn [app]. rewrite <- !app_assoc. reflexivity. }
  rewrite (token_word q _ Hk).
  cbn [run]. unfold step at 1; cbn [s_mode s_esc s_sep s_args negb andb].
  change (N.eqb LT NL) with false. change (is_blank LT) with false.
  change (N.eqb LT BSL) with false. change (N.eqb LT QUOTE) with false.
  change (N.eqb LT LT) with true. rewrite has_suffix_app. cbn [andb].
  rewrite run_marker by assumption. cbn [app].
  cbn [run]. unfold step at 1; cbn [s_mode s_esc s_sep s_args].
  change (N.eqb NL NL) with true. cbn iota.
  destruct M as [|m0 M']; [congruence|].
  rewrite (run_heredata q (removelast (k ++ [EQS; LT])) (k ++ [EQS; LT]) (NL :: m0 :: M')
             (u ++ m0 :: M') [NL] args false false tail Hne Hend Hs).
  cbn [app].
  replace (k ++ [EQS; LT]) with ((k ++ [EQS]) ++ [LT]) by (rewrite <- app_assoc; reflexivity).
  rewrite removelast_last. reflexivity.
Qed.

Lemma here_value_text base M t :
  here_value base (NL :: M) (NL :: (t ++ [NL]) ++ M) = base ++ trim t.
Proof.
  unfold here_value. f_equal. f_equal.
  replace (NL :: (t ++ [NL]) ++ M) with ((NL :: t) ++ (NL :: M))
    by (cbn [app]; rewrite <- app_assoc; reflexivity).
  rewrite app_length.
  replace (length (NL :: t) + length (NL :: M) - length (NL :: M))%nat with (length (NL :: t)) by lia.
  rewrite firstn_app, firstn_all, Nat.sub_diag. cbn [firstn]. rewrite app_nil_r. reflexivity.
Qed.

Lemma here_value_empty base M : here_value base (NL :: M) (NL :: M) = base.
Proof.
  unfold here_value. rewrite Nat.sub_diag. cbn [firstn strip_nl]. apply app_nil_r.
Qed.

(** A heredoc with the text [t] (its lines, the last one without its newline). *)
Lemma token_heredoc q k M t :
  good_word (k ++ [EQS; LT]) = true ->
  M <> [] -> forallb is_marker_char M = true ->
  no_early (NL :: M) [NL] (t ++ NL :: M) = true ->
  wtoken q (k ++ [EQS; LT; LT] ++ M ++ NL :: t ++ NL :: M) (k ++ EQS :: trim t).
Proof.
  intros Hk HMne HM Hne.
  pose proof (token_heredoc_gen q k M (t ++ [NL]) Hk HMne HM) as H.
  rewrite here_value_text in H. rewrite <- !app_assoc in H. cbn [app] in H.
  apply H; [exact Hne|].
  replace (NL :: t ++ NL :: M) with ((NL :: t) ++ NL :: M) by reflexivity. apply has_suffix_app.
Qed.

(** * argscope: positional arguments are numbered in order, named ones keep their key. *)

Definition is_named (a : bytes) : bool :=
  match split_eq (trim_dash (trim_dash a)) with Some _ => true | None => false end.

Definition is_pos_entry (e : key * bytes) : bool := match fst e with KPos _ => true | KName _ => false end.
Definition named_kv (a : bytes) : key * bytes :=
  match split_eq (trim_dash (trim_dash a)) with Some (k, v) => (KName k, v) | None => (KName [], []) end.

(** Positional arguments (those without '=') are bound to $i, $(i+1), ... in their order. *)
Lemma inject_from_positional args : forall i,
  map snd (filter is_pos_entry (inject_from i args)) = filter (fun a => negb (is_named a)) args /\
  map fst (filter is_pos_entry (inject_from i args))
  = map KPos (seq i (length (filter (fun a => negb (is_named a)) args))).
Proof.
  induction args as [|a l IH]; intros i; [split; reflexivity|].
  cbn [inject_from filter].
  destruct (split_eq (trim_dash (trim_dash a))) as [[k v]|] eqn:E.
  - assert (Hn : is_named a = true) by (unfold is_named; rewrite E; reflexivity).
    rewrite Hn. cbn [filter is_pos_entry fst negb]. apply IH.
  - assert (Hn : is_named a = false) by (unfold is_named; rewrite E; reflexivity).
    rewrite Hn. cbn [filter is_pos_entry fst negb map snd length seq]. destruct (IH (S i)) as [A B].
    rewrite A, B. split; reflexivity.
Qed.

(** Named arguments keep their order and are bound key := text before the first '=' (after up to
    two leading dashes are dropped), value := text after it. *)
Lemma inject_from_named args : forall i,
  filter (fun e => negb (is_pos_entry e)) (inject_from i args) = map named_kv (filter is_named args).
Proof.
  induction args as [|a l IH]; intros i; [reflexivity|].
  cbn [inject_from filter].
  destruct (split_eq (trim_dash (trim_dash a))) as [[k v]|] eqn:E.
  - assert (Hn : is_named a = true) by (unfold is_named; rewrite E; reflexivity).
    rewrite Hn. cbn [filter is_pos_entry fst negb map]. unfold named_kv at 1. rewrite E. f_equal. apply IH.
  - assert (Hn : is_named a = false) by (unfold is_named; rewrite E; reflexivity).
    rewrite Hn. cbn [filter is_pos_entry fst negb]. apply IH.
Qed.

Lemma separate_args_spec all :
  let (args, sep) := separate_args all in
  forallb (fun a => negb (is_sep_arg a)) args = true /\
  (all = args /\ sep = [] \/ all = args ++ [DASH; DASH] :: sep).
Proof.
  induction all as [|a l IH]; [simpl; auto|].
  cbn [separate_args]. destruct (is_sep_arg a) eqn:E.
  - split; [reflexivity|]. right. apply bytes_eqb_spec in E. subst. reflexivity.
  - destruct (separate_args l) as [x y]. destruct IH as [H1 H2]. split.
    + cbn [forallb]. rewrite E. exact H1.
    + destruct H2 as [[Ha Hs]|Ha]; subst; [left|right]; auto.
Qed.
