(** Proof audit of C03: what the first round left open.

    1. The READ half (nothing outside the root can be read or listed) was proved for the memfs
       child view only, and for trees in which the view root exists as a directory.  Here: for
       EVERY cache-free stack (memfs child views, sub-path views, read-only masks, encrypted
       layers, in any order and depth), for any number of such views used in one history, and
       under the weakest relation between the two parent trees that can work at all
       ([vagree]: same subtree at the root of the view, same KIND - missing / directory / file -
       of every strict ancestor of the root; the root itself may be missing, or be removed
       through a sub-path view on the way).
    2. The WRITE half over whole histories issued through any number of views of one backend,
       and the rejection clause at the level of RESULTS: an argument that climbs is answered
       with the failure value of the operation and the tree is returned as it was.
    3. The disk filespace: the same two statements for histories through any child views of a
       disk root (the disk model is tied to the code by the C02 correspondence check). *)
From GC Require Import Common.Base Model.Paths Model.Fs Model.Views Model.DiskFs Model.DiskHist
  Proofs.Paths Proofs.Fs Proofs.Views Proofs.Clean Proofs.DiskFs Proofs.DiskFrame Proofs.NonInterf.

(** * The relation between two parent trees *)
Definition kind (x : option entry) : option bool :=
  match x with None => None | Some D => Some true | Some (F _) => Some false end.

(** every strict ancestor of [b] (every prefix of [removelast b]) has the same kind *)
Definition anc_same (b : path) (t1 t2 : fs) : Prop :=
  forall a x, removelast b = a ++ x -> kind (lookup t1 a) = kind (lookup t2 a).

Definition vagree (b : path) (t1 t2 : fs) : Prop :=
  NonInterf.sub t1 b = NonInterf.sub t2 b /\ anc_same b t1 t2.

Definition vragree (b : path) (o1 o2 : option fs) : Prop :=
  match o1, o2 with
  | Some a, Some c => vagree b a c
  | None, None => True
  | _, _ => False
  end.

(** the relation of the first round implies this one *)
Lemma agree_vagree b t1 t2 : agree b t1 t2 -> vagree b t1 t2.
Proof.
  intros (Hs & A1 & A2). split; [exact Hs|]. intros a x Hb.
  destruct b as [|n b'].
  - destruct a; [reflexivity|discriminate].
  - remember (n :: b') as bb eqn:Ebb.
    assert (Hne : bb <> []) by (subst bb; discriminate).
    pose proof (@app_removelast_last name bb [] Hne) as Hl. rewrite Hb, <- app_assoc in Hl.
    pose proof (A1 a _ Hl) as H1. pose proof (A2 a _ Hl) as H2. unfold is_dir_at in *.
    destruct (lookup t1 a) as [[|]|]; try discriminate. destruct (lookup t2 a) as [[|]|]; try discriminate.
    reflexivity.
Qed.

Lemma vagree_refl b t : vagree b t t.
Proof. split; [reflexivity|]. intros a x _. reflexivity. Qed.

Lemma lookup_vagree b t1 t2 p : vagree b t1 t2 -> is_prefix b p = true -> lookup t1 p = lookup t2 p.
Proof.
  intros [Hs _] Hp. destruct p as [|n p]; [reflexivity|]. simpl.
  rewrite <- (assoc_sub t1 b (n :: p) Hp), <- (assoc_sub t2 b (n :: p) Hp), Hs. reflexivity.
Qed.

(** paths at which the two trees are known to have the same kind *)
Definition cmp (b q : path) : Prop := is_prefix b q = true \/ is_prefix q (removelast b) = true.

Lemma kind_vagree b t1 t2 q : vagree b t1 t2 -> cmp b q -> kind (lookup t1 q) = kind (lookup t2 q).
Proof.
  intros Ha [H|H].
  - rewrite (lookup_vagree b t1 t2 q Ha H). reflexivity.
  - apply is_prefix_spec in H as [x Hx]. exact (proj2 Ha q x Hx).
Qed.

Lemma is_dir_kind t p : is_dir_at t p = match kind (lookup t p) with Some true => true | _ => false end.
Proof. unfold is_dir_at. destruct (lookup t p) as [[|]|]; reflexivity. Qed.

Lemma kind_app t1 t2 l a : kind (lookup t1 a) = kind (lookup t2 a) ->
  kind (lookup (t1 ++ l) a) = kind (lookup (t2 ++ l) a).
Proof.
  intros H. rewrite !lookup_app.
  destruct (lookup t1 a) as [[|]|], (lookup t2 a) as [[|]|]; simpl in *; try discriminate; reflexivity.
Qed.

(** appending the same entries to both trees keeps them related *)
Lemma vagree_app b t1 t2 l : vagree b t1 t2 -> vagree b (t1 ++ l) (t2 ++ l).
Proof.
  intros [Hs Ha]. split.
  - rewrite !sub_app, Hs. reflexivity.
  - intros a x Hb. apply kind_app. exact (Ha a x Hb).
Qed.

(** ... and so does deleting the same subtree from both *)
Lemma vagree_delete b t1 t2 p : vagree b t1 t2 -> p <> [] ->
  vagree b (delete_subtree t1 p) (delete_subtree t2 p).
Proof.
  intros [Hs Hk] Hp. split.
  - rewrite !sub_delete, Hs. reflexivity.
  - intros a x Hb. rewrite !lookup_delete by exact Hp.
    destruct (is_prefix p a); [reflexivity|exact (Hk a x Hb)].
Qed.

Lemma strict_prefix (q b : path) : is_prefix q b = true -> q = b \/ is_prefix q (removelast b) = true.
Proof.
  intros H. apply is_prefix_spec in H as [s Hs].
  destruct s as [|x s IHs] using rev_ind.
  - left. rewrite app_nil_r in Hs. auto.
  - right. subst b. rewrite app_assoc, removelast_last. apply is_prefix_app.
Qed.

Lemma cmp_removelast b p : is_prefix b p = true -> cmp b (removelast p).
Proof.
  intros H. apply is_prefix_spec in H as [r ->].
  destruct r as [|x r IHr] using rev_ind.
  - rewrite app_nil_r. right. apply is_prefix_refl.
  - left. rewrite app_assoc, removelast_last. apply is_prefix_app.
Qed.

Lemma prefixes_cmp b p q : cmp b p -> In q (prefixes p) -> cmp b q.
Proof.
  intros Hc Hin. unfold prefixes in Hin.
  destruct (prefixes_from_In _ _ _ Hin) as (a & x & Hp & _ & Hq). simpl in Hq. subst q p.
  destruct Hc as [Hc|Hc].
  - destruct (is_prefix_comparable b a (a ++ x) Hc (is_prefix_app a x)) as [H|H]; [left; exact H|].
    destruct (strict_prefix a b H) as [->|H']; [left; apply is_prefix_refl|right; exact H'].
  - right. eapply is_prefix_trans; [apply is_prefix_app|exact Hc].
Qed.

(** * The tree operations on related trees *)
Lemma mkdir_chain_vagree b l : forall t1 t2, vagree b t1 t2 -> (forall q, In q l -> cmp b q) ->
  vragree b (mkdir_chain t1 l) (mkdir_chain t2 l).
Proof.
  induction l as [|q l IH]; intros t1 t2 Ha Hl; simpl; [exact Ha|].
  pose proof (kind_vagree b t1 t2 q Ha (Hl q (or_introl eq_refl))) as Hk.
  assert (Hl' : forall q', In q' l -> cmp b q') by (intros q' H; apply Hl; right; exact H).
  destruct (lookup t1 q) as [[d1|]|], (lookup t2 q) as [[d2|]|]; simpl in Hk; try discriminate.
  - exact I.
  - apply IH; assumption.
  - apply IH; [apply vagree_app; exact Ha|exact Hl'].
Qed.

Lemma mkdir_all_vagree b t1 t2 p : vagree b t1 t2 -> cmp b p ->
  vragree b (mkdir_all t1 p) (mkdir_all t2 p).
Proof.
  intros Ha Hc. unfold mkdir_all. apply mkdir_chain_vagree; [exact Ha|].
  intros q Hin. exact (prefixes_cmp b p q Hc Hin).
Qed.

Lemma kind_replace_file t p d0 d a : lookup t p = Some (F d0) ->
  kind (lookup (replace_entry t p (F d)) a) = kind (lookup t a).
Proof.
  intros Hp. destruct a as [|n a]; [reflexivity|]. simpl. rewrite assoc_replace.
  destruct (path_eqb p (n :: a)) eqn:E; [|reflexivity].
  apply path_eqb_spec in E. subst p. simpl in Hp. rewrite Hp. reflexivity.
Qed.

Lemma write_at_vagree b t1 t2 p data : vagree b t1 t2 -> is_prefix b p = true ->
  vragree b (write_at t1 p data) (write_at t2 p data).
Proof.
  intros Ha Hp. unfold write_at.
  pose proof (mkdir_all_vagree b t1 t2 (removelast p) Ha (cmp_removelast b p Hp)) as Hm.
  destruct (mkdir_all t1 (removelast p)) as [u1|], (mkdir_all t2 (removelast p)) as [u2|];
    simpl in Hm; try contradiction; [|exact I].
  pose proof (lookup_vagree b u1 u2 p Hm Hp) as Hl. rewrite Hl.
  destruct (lookup u2 p) as [[d0|]|] eqn:E2; simpl.
  - destruct Hm as [Hs Hk]. split.
    + rewrite !sub_replace by exact Hp. rewrite Hs. reflexivity.
    + intros a x Hb. rewrite (kind_replace_file u1 p d0 data a Hl), (kind_replace_file u2 p d0 data a E2).
      exact (Hk a x Hb).
  - exact I.
  - apply vagree_app. exact Hm.
Qed.

Lemma remove_at_vagree b t1 t2 p : vagree b t1 t2 -> is_prefix b p = true -> p <> [] ->
  vragree b (remove_at t1 p) (remove_at t2 p).
Proof.
  intros Ha Hp Hne. unfold remove_at. rewrite !is_dir_kind.
  rewrite (kind_vagree b t1 t2 _ Ha (cmp_removelast b p Hp)).
  destruct (negb match kind (lookup t2 (removelast p)) with Some true => true | _ => false end); [exact I|].
  rewrite (lookup_vagree b t1 t2 p Ha Hp).
  rewrite <- (has_children_sub t1 b p Hp), <- (has_children_sub t2 b p Hp), (proj1 Ha).
  destruct (lookup t2 p) as [[d|]|]; simpl; [apply vagree_delete; assumption| |exact I].
  destruct (has_children (NonInterf.sub t2 b) p); [exact I|apply vagree_delete; assumption].
Qed.

Lemma remove_all_at_vagree b t1 t2 p : vagree b t1 t2 -> is_prefix b p = true -> p <> [] ->
  vragree b (remove_all_at t1 p) (remove_all_at t2 p).
Proof.
  intros Ha Hp Hne. unfold remove_all_at. rewrite !is_dir_kind.
  rewrite (kind_vagree b t1 t2 _ Ha (cmp_removelast b p Hp)).
  destruct (negb match kind (lookup t2 (removelast p)) with Some true => true | _ => false end); [exact I|].
  rewrite (lookup_vagree b t1 t2 p Ha Hp).
  destruct (lookup t2 p); simpl; [apply vagree_delete; assumption|exact I].
Qed.

Lemma copy_at_vagree k b t1 t2 s d : vagree b t1 t2 -> is_prefix b s = true -> is_prefix b d = true ->
  vragree b (copy_at k t1 s d) (copy_at k t2 s d).
Proof.
  intros Ha Hs Hd. unfold copy_at. rewrite (lookup_vagree b t1 t2 s Ha Hs).
  destruct (lookup t2 s) as [e|]; [|exact I].
  match goal with |- context [negb ?c] => destruct (negb c) end; [exact I|].
  pose proof (mkdir_all_vagree b t1 t2 (removelast d) Ha (cmp_removelast b d Hd)) as Hm.
  destruct (mkdir_all t1 (removelast d)) as [u1|], (mkdir_all t2 (removelast d)) as [u2|];
    simpl in Hm; try contradiction; [|exact I].
  rewrite (lookup_vagree b u1 u2 d Hm Hd).
  destruct (lookup u2 d); [exact I|].
  destruct e as [data|]; simpl.
  - apply vagree_app. exact Hm.
  - assert (Hmv : subtree_moved u1 s d = subtree_moved u2 s d).
    { rewrite <- (moved_sub u1 b s d Hs), <- (moved_sub u2 b s d Hs), (proj1 Hm). reflexivity. }
    rewrite Hmv. apply vagree_app. exact Hm.
Qed.

Lemma upd_vagree b t1 t2 r1 r2 : vagree b t1 t2 -> vragree b r1 r2 ->
  snd (upd t1 r1) = snd (upd t2 r2) /\ vagree b (fst (upd t1 r1)) (fst (upd t2 r2)).
Proof. intros Ha Hr. destruct r1, r2; simpl in *; try contradiction; auto. Qed.

(** * The 16 memfs operations on raw strings *)

(** every path argument of an operation, sources included *)
Definition args (o : op) : list bytes :=
  match o with
  | OCopy a d | OCopyDir a d | OCopyFile a d => [a; d]
  | OReadDir p | OIsExist p | OIsFile p | OIsDir p | OMkdirAll p | OReadFile p
  | OWriteFile p _ | OFilespace p | OReader p _ | OWriter p _ | ORemove p
  | ORemoveAll p | OLstat p => [p]
  end.

Lemma reduce_node_some s p : reduce_node s = Some p -> reduce s = Some p /\ p <> [].
Proof.
  unfold reduce_node. destruct (reduce s) as [[|n r]|]; intros H; inversion H; subst.
  split; [reflexivity|discriminate].
Qed.

(** Whatever is asked of a memfs tree with arguments that all resolve at or below [b] - any of
    the 16 operations - the answer and the tree at [b] afterwards are functions of the tree at
    [b] and of the kinds of the ancestors of [b]. *)
Theorem mem_step_vagree b t1 t2 o : vagree b t1 t2 ->
  (forall s p, In s (args o) -> reduce s = Some p -> is_prefix b p = true) ->
  snd (mem_step t1 o) = snd (mem_step t2 o) /\ vagree b (fst (mem_step t1 o)) (fst (mem_step t2 o)).
Proof.
  intros Ha Hin.
  destruct o; cbn [args] in Hin; cbn [mem_step];
  repeat match goal with
  | |- context [match reduce ?s with _ => _ end] => destruct (reduce s) eqn:?
  | |- context [match reduce_node ?s with _ => _ end] => destruct (reduce_node s) eqn:?
  end; try (split; [reflexivity|exact Ha]);
  repeat match goal with
  | H : reduce_node _ = Some _ |- _ => apply reduce_node_some in H; destruct H
  end;
  repeat match goal with
  | H : reduce ?s = Some ?p |- _ =>
    lazymatch goal with
    | _ : is_prefix ?bb p = true |- _ => fail
    | _ => assert (is_prefix b p = true) by (apply (Hin s p); [simpl; tauto|exact H])
    end
  end;
  try (apply upd_vagree; [exact Ha|]);
  try (apply copy_at_vagree; assumption);
  try (apply mkdir_all_vagree; [exact Ha|left; assumption]);
  try (apply write_at_vagree; assumption);
  try (apply remove_at_vagree; assumption);
  try (apply remove_all_at_vagree; assumption).
  all: unfold exists_at, is_file_at, is_dir_at;
       repeat match goal with
       | Hp : is_prefix ?bb ?p = true |- context [lookup ?u ?p] =>
         constr_eq u t1; rewrite (lookup_vagree b t1 t2 p Ha Hp)
       | Hp : is_prefix ?bb ?p = true |- context [children ?u ?p] =>
         constr_eq u t1; rewrite <- (children_sub t1 b p Hp), (proj1 Ha), (children_sub t2 b p Hp)
       end;
       repeat match goal with |- context [lookup ?u ?x] => destruct (lookup u x) as [[|]|] end;
       split; try reflexivity; exact Ha.
Qed.

(** An argument that does not reduce (it climbs above the root) makes the operation fail with
    its failure value; the tree is returned as it was. *)
Lemma mem_step_climb t o s : In s (args o) -> reduce s = None -> mem_step t o = (t, fail_out o).
Proof.
  intros Hin Hr.
  destruct o; cbn [args] in Hin; cbn [mem_step fail_out]; unfold reduce_node;
  repeat destruct Hin as [Hin|Hin]; try contradiction; subst; rewrite ?Hr; cbn iota;
  repeat match goal with
  | |- context [match reduce ?x with _ => _ end] => destruct (reduce x) as [[|]|]
  end; reflexivity.
Qed.

Lemma args_nonempty o : exists s, In s (args o).
Proof. destruct o; eexists; left; reflexivity. Qed.

(** * Stacks of views *)
Lemma map_args_args f o o' : map_args f o = Some o' ->
  fail_out o' = fail_out o /\
  (forall s, In s (args o) -> exists nn s', f nn s = Some s' /\ In s' (args o')) /\
  (forall s', In s' (args o') -> exists nn s, f nn s = Some s' /\ In s (args o)).
Proof.
  intros H. destruct o; cbv beta iota zeta delta [map_args] in H;
  repeat match type of H with
  | context [match f ?nn ?s with _ => _ end] => destruct (f nn s) eqn:?
  end; inversion H; subst; cbn [fail_out args]; (split; [reflexivity|]); split; intros x Hx; simpl in Hx;
  repeat match goal with
  | Hx : _ \/ _ |- _ => destruct Hx
  | Hx : False |- _ => destruct Hx
  end; subst; do 2 eexists; (split; [eassumption|simpl; auto]).
Qed.

(** One operation through a cache-free stack either answers without looking at the tree, or is
    ONE memfs operation whose every argument resolves below the stack's root. *)
Lemma chain_step_cases c o : no_cache c = true -> bases_ok c ->
  (exists r, forall t, chain_step c t o = (t, r)) \/
  (exists o', (forall t, chain_step c t o = mem_step t o') /\
     (forall s' p, In s' (args o') -> reduce s' = Some p ->
                   exists b r, root_of c = Some b /\ p = b ++ r)).
Proof.
  intros Hnc Hb. unfold chain_step.
  destruct (has_ro c && is_mutating o); [left; eexists; intros; reflexivity|].
  destruct o; try (left; eexists; intros; reflexivity);
  match goal with
  | |- context [map_args ?f ?oo] => destruct (map_args f oo) as [o'|] eqn:E
  end; try (left; eexists; intros; reflexivity);
  right; exists o'; (split; [intros; reflexivity|]);
  apply map_args_args in E; destruct E as (_ & _ & Hbw);
  intros s' pp Hs' Hpp; destruct (Hbw s' Hs') as (nn & s & Ht & _);
  assert (Hres : resolve nn c s = Some pp) by (unfold resolve; rewrite Ht; exact Hpp);
  destruct (resolve_confined nn c s pp Hnc Hb Hres) as (b' & r' & Hroot & _ & _ & Heq');
  exists b', r'; auto.
Qed.

(** The views a theorem below speaks about: cache-free, bases well formed (every stack the API
    builds, [C03_api_stacks]), and the stack's own root is at or below [b] - or the stack has no
    root at all (a base that climbs out of the backend). *)
Definition chain_under (b : path) (c : chain) : Prop :=
  no_cache c = true /\ bases_ok c /\
  (root_of c = None \/ exists b', root_of c = Some b' /\ is_prefix b b' = true).

Lemma api_chain_under ks c b' : build [] ks = Some c -> root_of c = Some b' -> chain_under b' c.
Proof.
  intros H Hr. split; [|split].
  - apply (build_no_cache ks [] c); [reflexivity|exact H].
  - apply (build_bases_ok ks [] c); [exact I|exact H].
  - right. exists b'. split; [exact Hr|apply is_prefix_refl].
Qed.

(** READ half, one operation through any stack rooted at or below [b]. *)
Theorem chain_step_vagree b c t1 t2 o : chain_under b c -> vagree b t1 t2 ->
  snd (chain_step c t1 o) = snd (chain_step c t2 o) /\
  vagree b (fst (chain_step c t1 o)) (fst (chain_step c t2 o)).
Proof.
  intros (Hnc & Hb & Hroot) Ha.
  destruct (chain_step_cases c o Hnc Hb) as [(r & Hr)|(o' & Ho' & Hargs)].
  - rewrite !Hr. split; [reflexivity|exact Ha].
  - rewrite !Ho'. apply mem_step_vagree; [exact Ha|].
    intros s p Hs Hp. destruct (Hargs s p Hs Hp) as (b1 & r & Hb1 & ->).
    destruct Hroot as [Hn|(b' & Hb' & Hpre)]; [congruence|].
    rewrite Hb' in Hb1. inversion Hb1; subst b1.
    eapply is_prefix_trans; [exact Hpre|apply is_prefix_app].
Qed.

(** A stack without a root answers every operation without looking at the tree. *)
Theorem chain_step_no_root_blind c o : no_cache c = true -> bases_ok c -> root_of c = None ->
  forall t1 t2, snd (chain_step c t1 o) = snd (chain_step c t2 o).
Proof.
  intros Hnc Hb Hroot t1 t2.
  destruct (chain_step_cases c o Hnc Hb) as [(r & Hr)|(o' & Ho' & Hargs)].
  - rewrite !Hr. reflexivity.
  - rewrite !Ho'.
    assert (Hnone : forall s, In s (args o') -> reduce s = None).
    { intros s Hs. destruct (reduce s) as [p|] eqn:Ep; [|reflexivity].
      destruct (Hargs s p Hs Ep) as (b1 & r & Hb1 & _). congruence. }
    destruct (args_nonempty o') as [s Hs].
    rewrite !(mem_step_climb _ o' s Hs (Hnone s Hs)). reflexivity.
Qed.

(** * Rejection at the level of results *)
Lemma child_climb c : forall p, no_cache c = true -> reduce p = None -> child c p = None.
Proof.
  induction c as [|l c IH]; intros p Hn Hr; simpl; [rewrite Hr; reflexivity|].
  simpl in Hn. apply andb_true_iff in Hn as [Hl Hn].
  destruct l as [b|b| | |]; try discriminate; rewrite ?Hr; try reflexivity.
  rewrite (IH p Hn Hr). reflexivity.
Qed.

Lemma mutating_fail_out o : is_mutating o = true -> fail_out o = RErr.
Proof. destruct o; simpl; intros H; try discriminate; reflexivity. Qed.

(** Through any cache-free stack, an operation with an argument (source or destination) that
    climbs above the view root is REJECTED: the result is the operation's failure value (an
    error; [false] for the three predicates) and the tree is returned unchanged. *)
Theorem chain_step_climb_rejected c t o s : no_cache c = true -> bases_ok c ->
  In s (args o) -> reduce s = None -> chain_step c t o = (t, fail_out o).
Proof.
  intros Hnc Hb Hin Hr. unfold chain_step.
  destruct (has_ro c && is_mutating o) eqn:Ero.
  - apply andb_true_iff in Ero as [_ Hm]. rewrite (mutating_fail_out o Hm). reflexivity.
  - destruct o;
    try (match goal with
         | |- context [map_args ?f ?oo] => destruct (map_args f oo) as [o'|] eqn:E
         end; [|reflexivity];
         apply map_args_args in E; destruct E as (Hf & Hfw & _);
         destruct (Hfw s Hin) as (nn & s' & Ht & Hin'); rewrite <- Hf;
         apply (mem_step_climb t o' s' Hin');
         pose proof (resolve_climb_rejected nn c s Hnc Hb Hr) as Hres;
         unfold resolve in Hres; rewrite Ht in Hres; exact Hres).
    (* Filespace *)
    simpl in Hin. destruct Hin as [<-|[]]. rewrite (child_climb c p Hnc Hr). reflexivity.
Qed.

(** * Histories through any number of views of one backend *)
Fixpoint run_chains (t : fs) (h : list (chain * op)) : fs * list out :=
  match h with
  | [] => (t, [])
  | co :: h' =>
    let r := chain_step (fst co) t (snd co) in
    let r' := run_chains (fst r) h' in
    (fst r', snd r :: snd r')
  end.

(** READ half over histories: any operations, issued in any order through any views rooted at
    or below [b], give the same answers on two parent trees that agree at [b], and the trees
    still agree at [b] afterwards. *)
Theorem chains_noninterference b h : Forall (fun co => chain_under b (fst co)) h ->
  forall t1 t2, vagree b t1 t2 ->
  snd (run_chains t1 h) = snd (run_chains t2 h) /\
  vagree b (fst (run_chains t1 h)) (fst (run_chains t2 h)).
Proof.
  induction h as [|co h IH]; intros Hall t1 t2 Ha; cbn [run_chains fst snd].
  - split; [reflexivity|exact Ha].
  - inversion Hall as [|x l Hco Hrest]; subst.
    destruct (chain_step_vagree b (fst co) t1 t2 (snd co) Hco Ha) as [Ho Ha'].
    destruct (IH Hrest _ _ Ha') as [Hos Ha'']. split; [rewrite Ho, Hos; reflexivity|exact Ha''].
Qed.

Lemma chain_step_WF c t o : no_cache c = true -> bases_ok c -> WF t -> WF (fst (chain_step c t o)).
Proof.
  intros Hnc Hb HWF. destruct (chain_step_forward c t o Hnc Hb) as [->|(o' & -> & _)]; [exact HWF|].
  apply mem_step_WF. exact HWF.
Qed.

Lemma chain_step_frame b c t o q : chain_under b c -> WF t -> is_prefix b q = false ->
  frame t (fst (chain_step c t o)) b q.
Proof.
  intros (Hnc & Hb & Hroot) HWF Hq.
  destruct Hroot as [Hn|(b' & Hb' & Hpre)].
  - rewrite (chain_step_no_root c t o Hnc Hb Hn). apply frame_refl.
  - assert (Hq' : is_prefix b' q = false).
    { destruct (is_prefix b' q) eqn:E; [|reflexivity].
      rewrite (is_prefix_trans b b' q Hpre E) in Hq. discriminate. }
    destruct (chain_step_outside c t o b' q Hnc Hb HWF Hb' Hq') as [P N]. split; [exact P|].
    intros A B. destruct (N A B) as [C Hqb]. split; [exact C|].
    destruct (is_prefix_comparable q b b' Hqb Hpre) as [H|H]; [exact H|congruence].
Qed.

(** WRITE half over histories: whatever is done through any views rooted at or below [b], a node
    of the parent that is not at or below [b] keeps its entry; the only thing that can appear
    outside is a directory on the way down to [b]. *)
Theorem chains_outside b h q : Forall (fun co => chain_under b (fst co)) h ->
  forall t, WF t -> is_prefix b q = false ->
  frame t (fst (run_chains t h)) b q /\ WF (fst (run_chains t h)).
Proof.
  induction h as [|co h IH]; intros Hall t HWF Hq; cbn [run_chains fst snd].
  - split; [apply frame_refl|exact HWF].
  - inversion Hall as [|x l Hco Hrest]; subst.
    pose proof (chain_step_frame b (fst co) t (snd co) q Hco HWF Hq) as F1.
    destruct Hco as (Hnc & Hb & _).
    pose proof (chain_step_WF (fst co) t (snd co) Hnc Hb HWF) as HWF1.
    destruct (IH Hrest _ HWF1 Hq) as [F2 HWF2]. split; [|exact HWF2].
    eapply frame_trans; eassumption.
Qed.

(** * The disk filespace *)

(** rejection at the level of results, disk *)
Theorem d_step_climb b t o s : In s (args o) -> reduce s = None -> d_step b t o = (t, fail_out o).
Proof.
  intros Hin Hr.
  destruct o; cbn [args] in Hin; cbn [d_step fail_out];
  repeat destruct Hin as [Hin|Hin]; try contradiction; subst; rewrite ?Hr;
  repeat match goal with
  | |- context [match reduce ?x with _ => _ end] => destruct (reduce x)
  end; reflexivity.
Qed.

(** A chain of Filespace calls on a disk filespace whose host directory is [b] yields a
    filespace whose host directory is at or below [b] (views of views). *)
Lemma d_resolve_under t chain : forall b b', good_path b = true -> d_resolve t b chain = Some b' ->
  good_path b' = true /\ is_prefix b b' = true.
Proof.
  induction chain as [|s chain IH]; intros b b' Gb H; simpl in H.
  - inversion H; subst. split; [exact Gb|apply is_prefix_refl].
  - destruct (reduce s) as [r|] eqn:Er; [|discriminate].
    destruct (is_dir_at t (b ++ r)); [|discriminate].
    destruct (IH (b ++ r) b') as [G P]; [|exact H|].
    + apply good_path_app. split; [exact Gb|]. eapply reduce_good; eauto.
    + split; [exact G|]. eapply is_prefix_trans; [apply is_prefix_app|exact P].
Qed.

(** WRITE half on disk over histories through any number of child filespaces (named by their
    host directories relative to the root, all at or below [b]). *)
Theorem disk_history_outside b h t q :
  WF t -> (forall bo, In bo h -> good_path (fst bo) = true /\ is_prefix b (fst bo) = true) ->
  is_prefix b q = false ->
  frame t (run_disk_at t h) b q /\ WF (run_disk_at t h).
Proof.
  intros HWF Hh Hq.
  destruct (fold_frame d_step d_step_WF d_step_outside q h t HWF) as [[P N] HWF'].
  - intros bo Hin. exact (proj1 (Hh bo Hin)).
  - intros bo s p Hin _ _. destruct (Hh bo Hin) as [_ Hpre].
    destruct (is_prefix (fst bo ++ p) q) eqn:E; [|reflexivity].
    rewrite (is_prefix_trans b (fst bo ++ p) q) in Hq; [discriminate| |exact E].
    eapply is_prefix_trans; [exact Hpre|apply is_prefix_app].
  - unfold run_disk_at. split; [|exact HWF']. split; [exact P|].
    intros A B. destruct (N A B) as (C & bo & s & p & Hin & _ & _ & Hqp). split; [exact C|].
    destruct (Hh bo Hin) as [_ Hpre].
    assert (Hb : is_prefix b (fst bo ++ p) = true) by (eapply is_prefix_trans; [exact Hpre|apply is_prefix_app]).
    destruct (is_prefix_comparable q b (fst bo ++ p) Hqp Hb) as [H|H]; [exact H|congruence].
Qed.

(** * Views of views: where the root of a child view lies

    The first round proved that a stack is confined to ITS OWN root [root_of c], for every stack
    the API can build.  It did not say where the root of [Filespace(p)] of a view lies relative
    to the root of the view it was obtained from.  It is the parent's root extended by the
    canonical reduction of [p] (so: at or below it); a child of a rootless view is rootless.
    For sub-path views this needs path.Clean to be harmless on the strings SubFS builds. *)
Lemma reduce_lead_slash x : reduce (SLASH :: x) = reduce x.
Proof. reflexivity. Qed.

Lemma reduce_go_clean W : reduce (go_clean W) = cred W.
Proof.
  unfold cred, clean_path. destruct (go_clean W) as [|c x]; [reflexivity|].
  destruct (N.eqb c SLASH) eqn:E; [|reflexivity].
  apply N.eqb_eq in E. subst c. apply reduce_lead_slash.
Qed.

Lemma clean_comps_trailing rooted s :
  clean_comps rooted [] (split_slash (s ++ [SLASH])) = clean_comps rooted [] (split_slash s).
Proof.
  change (s ++ [SLASH]) with (s ++ SLASH :: []).
  rewrite split_slash_app, !clean_comps_stack, clean_stack_app. reflexivity.
Qed.

Lemma go_clean_trailing s : s <> [] -> go_clean (s ++ [SLASH]) = go_clean s.
Proof.
  destruct s as [|c s']; [congruence|]. intros _.
  assert (E1 : go_clean ((c :: s') ++ [SLASH]) =
               (let comps := clean_comps (N.eqb c SLASH) [] (split_slash ((c :: s') ++ [SLASH])) in
                if N.eqb c SLASH then SLASH :: join comps
                else match comps with [] => [DOT] | _ => join comps end)) by reflexivity.
  rewrite E1. cbv zeta. rewrite clean_comps_trailing. reflexivity.
Qed.

Lemma cred_trailing s : s <> [] -> cred (s ++ [SLASH]) = cred s.
Proof. intros H. unfold cred, clean_path. rewrite go_clean_trailing by exact H. reflexivity. Qed.

(** a rooted result of path.Clean has no ".." left *)
Lemma go_clean_rooted_shape W x : go_clean W = SLASH :: x -> exists g, good_path g = true /\ x = join g.
Proof.
  unfold go_clean. destruct W as [|c s']; [intros H; unfold DOT, SLASH in H; discriminate|].
  cbv zeta. set (rooted := N.eqb c SLASH). rewrite clean_comps_stack.
  assert (HA : cs_shape rooted (clean_stack rooted [] (split_slash (c :: s')))).
  { apply clean_stack_shape; [apply split_slash_no_slash|]. exists [], []. repeat split; auto. }
  destruct HA as (g & dd & EA & Hg & Hdd & Hroot). rewrite EA, rev_app_distr.
  assert (Hg' : forallb good_name (rev g) = true).
  { rewrite forallb_forall in *. intros y Hy. apply Hg. apply in_rev. exact Hy. }
  assert (Hdd' : forallb is_dotdot (rev dd) = true).
  { rewrite forallb_forall in *. intros y Hy. apply Hdd. apply in_rev. exact Hy. }
  destruct rooted eqn:Er.
  - rewrite (Hroot eq_refl). simpl rev. simpl app. intros H. inversion H.
    exists (rev g). split; [exact Hg'|reflexivity].
  - intros H. exfalso. destruct (rev dd ++ rev g) as [|a l] eqn:El.
    + unfold DOT, SLASH in H. discriminate.
    + rewrite <- El in H. destruct (rev dd) as [|d rd].
      * simpl in H. pose proof (join_first_not_slash _ _ _ Hg' H) as Hc.
        unfold SLASH in Hc. discriminate.
      * simpl in Hdd'. apply andb_true_iff in Hdd' as [Hd _]. apply bytes_eqb_spec in Hd. subst d.
        simpl in H. destruct (rd ++ rev g); unfold DOT, SLASH in H; discriminate.
Qed.

Lemma cred_slash : cred [SLASH] = Some [].
Proof. reflexivity. Qed.

Lemma cred_go_clean W : cred (go_clean W) = cred W.
Proof.
  destruct (go_clean W) as [|c x] eqn:E.
  - unfold cred at 2, clean_path. rewrite E. reflexivity.
  - destruct (N.eqb c SLASH) eqn:Ec.
    + apply N.eqb_eq in Ec. subst c. destruct (go_clean_rooted_shape W x E) as (g & Hg & ->).
      assert (HW : cred W = Some g).
      { unfold cred, clean_path. rewrite E. change (N.eqb SLASH SLASH) with true. cbn iota.
        apply reduce_join. exact Hg. }
      rewrite HW. pose proof (cred_prefix_join [] g Hg) as K.
      change ([] ++ SLASH :: join g) with (SLASH :: join g) in K.
      change ([] ++ [SLASH]) with [SLASH] in K. rewrite cred_slash in K. exact K.
    + assert (H : clean_path W = c :: x) by (unfold clean_path; rewrite E, Ec; reflexivity).
      rewrite <- H. apply cred_clean_path.
Qed.

Lemma cred_go_clean_slash W : cred (go_clean W ++ [SLASH]) = cred W.
Proof.
  destruct (go_clean W) as [|c x] eqn:E.
  - unfold cred at 2, clean_path. rewrite E. reflexivity.
  - rewrite <- E. rewrite cred_trailing by (rewrite E; discriminate). apply cred_go_clean.
Qed.

Lemma reduce_go_clean_slash W : reduce (go_clean W ++ [SLASH]) = cred W.
Proof. rewrite reduce_trailing_slash. apply reduce_go_clean. Qed.

Lemma cred_join r : good_path r = true -> cred (join r) = Some r.
Proof.
  intros Hr. destruct r as [|a r']; [reflexivity|]. unfold cred.
  assert (K : clean_path (join (a :: r')) = join (a :: r')).
  { apply (clean_path_join_fixed [] (a :: r') eq_refl Hr). discriminate. }
  rewrite K. apply reduce_join. exact Hr.
Qed.

(** the bases the API produces: a memfs wrapper holds [join canonical ++ "/"], SubFS holds
    [path.Clean(anything) ++ "/"] *)
Fixpoint bases_clean (c : chain) : Prop :=
  match c with
  | [] => True
  | LWrap b :: c' => (exists comps, good_path comps = true /\ b = join comps ++ [SLASH]) /\ bases_clean c'
  | LSub b :: c' => (exists W, b = go_clean W ++ [SLASH]) /\ bases_clean c'
  | _ :: c' => bases_clean c'
  end.

Lemma bases_clean_ok c : bases_clean c -> bases_ok c.
Proof.
  induction c as [|l c IH]; intros H; [exact I|].
  destruct l as [b|b| | |]; simpl in *; try (apply IH; exact H).
  - destruct H as [(comps & _ & ->) H]. split; [apply base_ok_snoc|apply IH; exact H].
  - destruct H as [(W & ->) H]. split; [apply base_ok_snoc|apply IH; exact H].
Qed.

(** Filespace(p) of a view: the new view has clean bases again, and its root is the root of the
    view it came from, extended by the reduction of [p]. *)
Lemma child_cbase c : forall p c', no_cache c = true -> bases_clean c -> child c p = Some c' ->
  bases_clean c' /\
  exists r, reduce p = Some r /\
            cbase c' = match cbase c with Some b => Some (b ++ r) | None => None end.
Proof.
  induction c as [|l c IH]; intros p c' Hn Hb H; simpl in H.
  - destruct (reduce p) as [r|] eqn:Er; [|discriminate]. inversion H; subst c'.
    assert (Hg : good_path r = true) by (eapply reduce_good; eauto).
    split.
    + simpl. split; [exists r; auto|exact I].
    + exists r. split; [reflexivity|]. simpl. rewrite reduce_trailing_slash, (reduce_join r Hg). reflexivity.
  - simpl in Hn. apply andb_true_iff in Hn as [Hl Hn]. destruct l as [b|b| | |]; try discriminate.
    + (* memfs wrapper *)
      destruct Hb as [(comps0 & Hg0 & Eb) Hb].
      destruct (reduce p) as [r|] eqn:Er; [|discriminate].
      assert (Hg : good_path r = true) by (eapply reduce_good; eauto).
      destruct (reduce (b ++ join r)) as [comps|] eqn:Ec; [|discriminate]. inversion H; subst c'.
      assert (Hgc : good_path comps = true) by (eapply reduce_good; eauto).
      rewrite (reduce_base_join b r) in Ec by (subst b; auto using base_ok_snoc).
      destruct (reduce b) as [y|] eqn:Ey; [|discriminate]. inversion Ec; subst comps.
      split.
      * simpl. split; [exists (y ++ r); auto|exact Hb].
      * exists r. split; [reflexivity|]. simpl.
        rewrite reduce_trailing_slash, (reduce_join (y ++ r) Hgc), Ey.
        destruct (cbase c) as [b1|]; [rewrite app_assoc|]; reflexivity.
    + (* sub-path view *)
      destruct Hb as [(W & Eb) Hb].
      destruct (reduce p) as [r|] eqn:Er; [|discriminate]. inversion H; subst c'.
      assert (Hg : good_path r = true) by (eapply reduce_good; eauto).
      split.
      * simpl. split; [eexists; reflexivity|exact Hb].
      * exists r. split; [reflexivity|]. simpl. rewrite reduce_go_clean_slash.
        assert (Hb' : reduce b = cred b) by (subst b; rewrite reduce_go_clean_slash, cred_go_clean_slash; reflexivity).
        assert (Hc : cred (b ++ join r) = match cred b with Some y => Some (y ++ r) | None => None end).
        { subst b. rewrite <- app_assoc. simpl. apply cred_prefix_join. exact Hg. }
        rewrite Hc, Hb'. destruct (cred b) as [y|]; [|reflexivity].
        destruct (cbase c) as [b1|]; [rewrite app_assoc|]; reflexivity.
    + (* read-only mask *)
      destruct (reduce p) as [r|] eqn:Er; [|discriminate]. inversion H; subst c'.
      assert (Hg : good_path r = true) by (eapply reduce_good; eauto).
      split.
      * simpl. split; [eexists; reflexivity|exact Hb].
      * exists r. split; [reflexivity|]. simpl. rewrite reduce_go_clean_slash, (cred_join r Hg).
        destruct (cbase c); reflexivity.
    + (* encrypted layer *)
      destruct (child c p) as [c''|] eqn:Ech; [|discriminate]. inversion H; subst c'.
      destruct (IH p c'' Hn Hb Ech) as [Hb'' Hr]. split; [exact Hb''|exact Hr].
Qed.

Lemma build_bases_clean ks : forall c c', no_cache c = true -> bases_clean c -> build c ks = Some c' ->
  bases_clean c'.
Proof.
  induction ks as [|k ks IH]; intros c c' Hn Hb H; simpl in H.
  - inversion H; subst. exact Hb.
  - destruct k.
    + destruct (child c p) as [c1|] eqn:E; [|discriminate].
      apply (IH c1 c'); [eapply child_no_cache; eauto|exact (proj1 (child_cbase c p c1 Hn Hb E))|exact H].
    + apply (IH (new_sub c b) c'); [exact Hn| |exact H]. simpl. split; [eexists; reflexivity|exact Hb].
    + apply (IH (LRO :: c) c'); [exact Hn|exact Hb|exact H].
    + apply (IH (LEnc :: c) c'); [exact Hn|exact Hb|exact H].
Qed.

(** The views the theorems below speak about: cache-free, bases as the API leaves them, rooted
    at or below [b] or rootless.  Every stack built from the memfs root is one ([api_view]). *)
Definition view_under (b : path) (c : chain) : Prop :=
  no_cache c = true /\ bases_clean c /\
  (root_of c = None \/ exists b', root_of c = Some b' /\ is_prefix b b' = true).

Lemma view_chain_under b c : view_under b c -> chain_under b c.
Proof. intros (Hn & Hb & Hr). split; [exact Hn|]. split; [apply bases_clean_ok; exact Hb|exact Hr]. Qed.

Lemma api_view ks c b : build [] ks = Some c -> root_of c = Some b -> view_under b c.
Proof.
  intros H Hr. split; [|split].
  - apply (build_no_cache ks [] c); [reflexivity|exact H].
  - apply (build_bases_clean ks [] c); [reflexivity|exact I|exact H].
  - right. exists b. split; [exact Hr|apply is_prefix_refl].
Qed.

(** Where the child's root lies. *)
Theorem child_root c p c' : no_cache c = true -> bases_clean c -> child c p = Some c' ->
  exists r, reduce p = Some r /\ good_path r = true /\
            root_of c' = match root_of c with Some b => Some (b ++ r) | None => None end.
Proof.
  intros Hn Hb H. destruct (child_cbase c p c' Hn Hb H) as [Hb' (r & Hr & Hc)].
  exists r. split; [exact Hr|]. split; [eapply reduce_good; eauto|].
  rewrite (root_of_cbase c' (child_no_cache c p c' Hn H) (bases_clean_ok c' Hb')).
  rewrite (root_of_cbase c Hn (bases_clean_ok c Hb)). exact Hc.
Qed.

(** ... hence views of views stay at or below the root of the view they descend from. *)
Theorem child_view_under b c p c' : view_under b c -> child c p = Some c' -> view_under b c'.
Proof.
  intros (Hn & Hb & Hroot) H.
  destruct (child_root c p c' Hn Hb H) as (r & _ & _ & Hr).
  split; [eapply child_no_cache; eauto|]. split; [exact (proj1 (child_cbase c p c' Hn Hb H))|].
  destruct Hroot as [Hnone|(b' & Hb' & Hpre)].
  - left. rewrite Hr, Hnone. reflexivity.
  - right. exists (b' ++ r). rewrite Hr, Hb'. split; [reflexivity|].
    eapply is_prefix_trans; [exact Hpre|apply is_prefix_app].
Qed.

(** * Histories in which views are obtained from views on the way
    A step names the view by the Filespace arguments that lead to it from the starting view
    [c0] (none: the starting view itself), then the operation.  A view that cannot be obtained
    makes the step a no-op reporting an error. *)
Fixpoint descend (c : chain) (ps : list bytes) : option chain :=
  match ps with
  | [] => Some c
  | p :: ps' => match child c p with Some c' => descend c' ps' | None => None end
  end.

Definition vv_step (c0 : chain) (t : fs) (vo : list bytes * op) : fs * out :=
  match descend c0 (fst vo) with
  | Some c => chain_step c t (snd vo)
  | None => (t, RErr)
  end.

Fixpoint run_vv (c0 : chain) (t : fs) (h : list (list bytes * op)) : fs * list out :=
  match h with
  | [] => (t, [])
  | vo :: h' =>
    let r := vv_step c0 t vo in
    let r' := run_vv c0 (fst r) h' in
    (fst r', snd r :: snd r')
  end.

Lemma descend_view_under b ps : forall c c', view_under b c -> descend c ps = Some c' -> view_under b c'.
Proof.
  induction ps as [|p ps IH]; intros c c' Hv H; simpl in H.
  - inversion H; subst. exact Hv.
  - destruct (child c p) as [c1|] eqn:E; [|discriminate].
    apply (IH c1 c'); [eapply child_view_under; eauto|exact H].
Qed.

Theorem vv_noninterference b c0 h : view_under b c0 -> forall t1 t2, vagree b t1 t2 ->
  snd (run_vv c0 t1 h) = snd (run_vv c0 t2 h) /\
  vagree b (fst (run_vv c0 t1 h)) (fst (run_vv c0 t2 h)).
Proof.
  intros Hv. induction h as [|vo h IH]; intros t1 t2 Ha; cbn [run_vv fst snd].
  - split; [reflexivity|exact Ha].
  - assert (Hstep : snd (vv_step c0 t1 vo) = snd (vv_step c0 t2 vo) /\
                    vagree b (fst (vv_step c0 t1 vo)) (fst (vv_step c0 t2 vo))).
    { unfold vv_step. destruct (descend c0 (fst vo)) as [c|] eqn:E; [|split; [reflexivity|exact Ha]].
      apply chain_step_vagree; [|exact Ha]. apply view_chain_under. eapply descend_view_under; eauto. }
    destruct Hstep as [Ho Ha']. destruct (IH _ _ Ha') as [Hos Ha''].
    split; [rewrite Ho, Hos; reflexivity|exact Ha''].
Qed.

Theorem vv_outside b c0 h q : view_under b c0 -> forall t, WF t -> is_prefix b q = false ->
  frame t (fst (run_vv c0 t h)) b q /\ WF (fst (run_vv c0 t h)).
Proof.
  intros Hv. induction h as [|vo h IH]; intros t HWF Hq; cbn [run_vv fst snd].
  - split; [apply frame_refl|exact HWF].
  - assert (Hstep : frame t (fst (vv_step c0 t vo)) b q /\ WF (fst (vv_step c0 t vo))).
    { unfold vv_step. destruct (descend c0 (fst vo)) as [c|] eqn:E; [|split; [apply frame_refl|exact HWF]].
      pose proof (view_chain_under b c (descend_view_under b _ _ _ Hv E)) as Hc. split.
      - apply chain_step_frame; assumption.
      - destruct Hc as (Hnc & Hb & _). apply chain_step_WF; assumption. }
    destruct Hstep as [F1 HWF1]. destruct (IH _ HWF1 Hq) as [F2 HWF2].
    split; [eapply frame_trans; eassumption|exact HWF2].
Qed.

(** * An executable test for the ancestor half of [vagree] (for examples) *)
Definition kind_eqb (x y : option bool) : bool :=
  match x, y with
  | None, None => true
  | Some a, Some b => Bool.eqb a b
  | _, _ => false
  end.

Definition anc_sameb (b : path) (t1 t2 : fs) : bool :=
  forallb (fun a => kind_eqb (kind (lookup t1 a)) (kind (lookup t2 a))) (prefixes (removelast b)).

Lemma prefixes_from_complete (a : path) : forall pre x, a <> [] -> In (pre ++ a) (prefixes_from pre (a ++ x)).
Proof.
  induction a as [|n a IH]; intros pre x Hne; [congruence|]. simpl.
  destruct a as [|m a']; [left; reflexivity|]. right.
  replace (pre ++ n :: m :: a') with ((pre ++ [n]) ++ m :: a') by (rewrite <- app_assoc; reflexivity).
  apply IH. discriminate.
Qed.

Lemma anc_sameb_sound b t1 t2 : anc_sameb b t1 t2 = true -> anc_same b t1 t2.
Proof.
  intros H a x Hb. destruct a as [|n a']; [reflexivity|].
  unfold anc_sameb in H. rewrite forallb_forall in H.
  assert (Hin : In (n :: a') (prefixes (removelast b))).
  { rewrite Hb. apply (prefixes_from_complete (n :: a') [] x). discriminate. }
  specialize (H _ Hin). unfold kind_eqb in H.
  destruct (kind (lookup t1 (n :: a'))) as [[|]|], (kind (lookup t2 (n :: a'))) as [[|]|];
    simpl in H; try discriminate; reflexivity.
Qed.

(** * The ancestor half of [vagree] cannot be dropped
    A view whose root is [a/v] is asked to create a directory below its root.  In one parent
    [a] is a directory, in the other a file; the two parents have the same (empty) subtree at
    the root of the view, yet the answers differ: whether the root of a view can exist at all
    is visible through the view.  This is the only thing about the outside that is. *)
Lemma read_half_sub_only_refuted :
  exists ks c b t1 t2 o,
    build [] ks = Some c /\ root_of c = Some b /\ wf t1 = true /\ wf t2 = true /\
    NonInterf.sub t1 b = NonInterf.sub t2 b /\
    snd (chain_step c t1 o) <> snd (chain_step c t2 o).
Proof.
  exists [KChild [97;47;118]], [LWrap [97;47;118;47]], [[97];[118]], [([[97]], D)], [([[97]], F [1])], (OMkdirAll [120]).
  vm_compute. repeat split; discriminate.
Qed.
