(** Proofs about Model/Views.v: whatever stack of views a path argument goes through, it is
    either rejected or resolved to [root ++ r] where [root] is the stack's own root and [r] a
    canonical relative path — nothing outside the root can be addressed (property C03). *)
From GC Require Import Common.Base Model.Paths Model.Fs Model.Views Proofs.Paths Proofs.Fs.

(** * reduce of [X ++ "/" ++ canonical path] *)
Lemma reduce_comps_app l1 : forall acc l2,
  reduce_comps acc (l1 ++ l2) =
  match reduce_comps acc l1 with
  | Some p => reduce_comps (rev p) l2
  | None => None
  end.
Proof.
  induction l1 as [|v l1 IH]; intros acc l2; simpl.
  - rewrite rev_involutive. reflexivity.
  - destruct (is_empty v || is_dot v); [apply IH|].
    destruct (is_dotdot v); [destruct acc; [reflexivity|apply IH]|apply IH].
Qed.

(** For ANY string [X]: appending "/" and a canonical relative path appends its components to
    whatever [X] reduces to — and fails exactly when [X] alone fails. *)
Theorem reduce_prefix_join X r : good_path r = true ->
  reduce (X ++ SLASH :: join r) =
  match reduce X with Some b => Some (b ++ r) | None => None end.
Proof.
  intros Hr. unfold reduce. rewrite split_slash_app, reduce_comps_app.
  destruct (reduce_comps [] (split_slash X)) as [b|]; [|reflexivity].
  destruct (split_join_harmless r Hr) as [H1 H2].
  rewrite reduce_comps_harmless by exact H1. rewrite rev_involutive, H2. reflexivity.
Qed.

Corollary reduce_trailing_slash X : reduce (X ++ [SLASH]) = reduce X.
Proof.
  pose proof (reduce_prefix_join X [] eq_refl) as H. simpl in H. rewrite H.
  destruct (reduce X); [rewrite app_nil_r|]; reflexivity.
Qed.

(** * Stacks without a cache layer: component-level semantics *)
Definition no_cache (c : chain) : bool := forallb (fun l => match l with LCache => false | _ => true end) c.

(** every base string ends with "/" (true for every stack built by [child]/[new_sub]) *)
Definition base_ok (b : bytes) : Prop := exists X, b = X ++ [SLASH].
Fixpoint bases_ok (c : chain) : Prop :=
  match c with
  | [] => True
  | LWrap b :: c' | LSub b :: c' => base_ok b /\ bases_ok c'
  | _ :: c' => bases_ok c'
  end.

(** The stack's own root: the concatenation of what the bases reduce to, innermost first. *)
Fixpoint cbase (c : chain) : option path :=
  match c with
  | [] => Some []
  | LWrap b :: c' | LSub b :: c' =>
    match reduce b, cbase c' with
    | Some y, Some b1 => Some (b1 ++ y)
    | _, _ => None
    end
  | _ :: c' => cbase c'
  end.

(** What a reduced argument [r] resolves to. *)
Fixpoint cres (nn : bool) (c : chain) (r : path) : option path :=
  match c with
  | [] => Some r
  | LWrap b :: c' =>
    if nn && match r with [] => true | _ => false end then None
    else match reduce b with Some y => cres nn c' (y ++ r) | None => None end
  | LSub b :: c' =>
    match reduce b with Some y => cres nn c' (y ++ r) | None => None end
  | _ :: c' => cres nn c' r
  end.

Lemma reduce_base_join b r : base_ok b -> good_path r = true ->
  reduce (b ++ join r) = match reduce b with Some y => Some (y ++ r) | None => None end.
Proof.
  intros [X ->] Hr. rewrite <- app_assoc. simpl. rewrite reduce_prefix_join by exact Hr.
  rewrite reduce_trailing_slash. reflexivity.
Qed.

Lemma reduce_node_as_reduce s : reduce_node s = match reduce s with Some [] => None | x => x end.
Proof. reflexivity. Qed.

Lemma resolve_cons nn l c s :
  resolve nn (l :: c) s = match transform1 nn l s with Some s' => resolve nn c s' | None => None end.
Proof. unfold resolve. simpl. destruct (transform1 nn l s); reflexivity. Qed.

Theorem resolve_cres nn c : no_cache c = true -> bases_ok c -> forall s,
  resolve nn c s = match reduce s with Some r => cres nn c r | None => None end.
Proof.
  induction c as [|l c IH]; intros Hnc Hb s.
  - unfold resolve. simpl. destruct (reduce s); reflexivity.
  - simpl in Hnc. apply andb_true_iff in Hnc as [Hl Hnc]. rewrite resolve_cons.
    destruct l as [b|b| | |]; try discriminate.
    + (* LWrap *)
      destruct Hb as [Hbase Hb]. unfold transform1. destruct nn.
      * rewrite reduce_node_as_reduce. destruct (reduce s) as [[|n r]|] eqn:Es; try reflexivity.
        rewrite (IH Hnc Hb).
        rewrite (reduce_base_join b (n :: r) Hbase) by (eapply reduce_good; eauto).
        cbn [cres andb]. destruct (reduce b); reflexivity.
      * destruct (reduce s) as [r|] eqn:Es; [|reflexivity].
        rewrite (IH Hnc Hb). rewrite (reduce_base_join b r Hbase) by (eapply reduce_good; eauto).
        cbn [cres andb]. destruct (reduce b); reflexivity.
    + (* LSub *)
      destruct Hb as [Hbase Hb]. unfold transform1.
      destruct (reduce s) as [r|] eqn:Es; [|reflexivity].
      rewrite (IH Hnc Hb). rewrite (reduce_base_join b r Hbase) by (eapply reduce_good; eauto).
      cbn [cres]. destruct (reduce b); reflexivity.
    + unfold transform1. rewrite (IH Hnc Hb). reflexivity.
    + unfold transform1. rewrite (IH Hnc Hb). reflexivity.
Qed.

Lemma cres_false c : forall r,
  cres false c r = match cbase c with Some b => Some (b ++ r) | None => None end.
Proof.
  induction c as [|l c IH]; intros r; simpl; [reflexivity|].
  destruct l as [b|b| | |]; simpl; try apply IH.
  - destruct (reduce b) as [y|]; [|reflexivity]. rewrite IH.
    destruct (cbase c); [rewrite app_assoc|]; reflexivity.
  - destruct (reduce b) as [y|]; [|reflexivity]. rewrite IH.
    destruct (cbase c); [rewrite app_assoc|]; reflexivity.
Qed.

Lemma cres_true c : forall r, cres true c r = None \/ cres true c r = cres false c r.
Proof.
  induction c as [|l c IH]; intros r; simpl; [right; reflexivity|].
  destruct l as [b|b| | |]; simpl; try apply IH.
  - destruct r; simpl; [left; reflexivity|]. destruct (reduce b); [apply IH|left; reflexivity].
  - destruct (reduce b); [apply IH|left; reflexivity].
Qed.

Lemma root_of_cbase c : no_cache c = true -> bases_ok c -> root_of c = cbase c.
Proof.
  intros Hnc Hb. unfold root_of. rewrite resolve_cres by assumption.
  assert (H0 : reduce [] = Some []) by reflexivity. rewrite H0. rewrite cres_false.
  destruct (cbase c); [rewrite app_nil_r|]; reflexivity.
Qed.

(** C03 at path level: through any stack of memfs-wrapper / sub-path / read-only / encrypted
    views, a raw argument is rejected or addresses [root ++ r] with [r] canonical. *)
Theorem resolve_confined nn c s p :
  no_cache c = true -> bases_ok c -> resolve nn c s = Some p ->
  exists b r, root_of c = Some b /\ reduce s = Some r /\ good_path r = true /\ p = b ++ r.
Proof.
  intros Hnc Hb H. rewrite resolve_cres in H by assumption.
  destruct (reduce s) as [r|] eqn:Es; [|discriminate].
  assert (Hf : cres false c r = Some p).
  { destruct nn; [|exact H]. destruct (cres_true c r) as [E|E]; congruence. }
  rewrite cres_false in Hf. destruct (cbase c) as [b|] eqn:Ec; [|discriminate].
  inversion Hf; subst p. exists b, r. rewrite root_of_cbase by assumption.
  repeat split; auto. eapply reduce_good; eauto.
Qed.

(** A climbing argument is rejected by any stack that has at least one reducing layer — and by
    the root backend otherwise. *)
Theorem resolve_climb_rejected nn c s :
  no_cache c = true -> bases_ok c -> reduce s = None -> resolve nn c s = None.
Proof. intros Hnc Hb H. rewrite resolve_cres by assumption. rewrite H. reflexivity. Qed.

(** * Stacks built by the API have well-formed bases *)
Lemma base_ok_snoc X : base_ok (X ++ [SLASH]).
Proof. exists X. reflexivity. Qed.

Lemma child_bases_ok c : forall p c', bases_ok c -> child c p = Some c' -> bases_ok c'.
Proof.
  induction c as [|l c IH]; intros p c' Hb H; simpl in H.
  - destruct (reduce p); inversion H; subst. simpl. split; [apply base_ok_snoc|exact I].
  - destruct l as [b|b| | |].
    + destruct (reduce p); [|discriminate]. destruct (reduce (b ++ join p0)); inversion H; subst.
      simpl in *. split; [apply base_ok_snoc|tauto].
    + destruct (reduce p); inversion H; subst. simpl in *. split; [apply base_ok_snoc|tauto].
    + destruct (reduce p); inversion H; subst. simpl in *. split; [apply base_ok_snoc|exact Hb].
    + destruct (child c p) as [c''|] eqn:E; inversion H; subst. simpl in *. eapply IH; eauto.
    + inversion H; subst. simpl in *. split; [apply base_ok_snoc|exact Hb].
Qed.

Lemma build_bases_ok ks : forall c c', bases_ok c -> build c ks = Some c' -> bases_ok c'.
Proof.
  induction ks as [|k ks IH]; intros c c' Hb H; simpl in H.
  - inversion H; subst. exact Hb.
  - destruct k.
    + destruct (child c p) as [c1|] eqn:E; [|discriminate]. eapply IH; [|exact H]. eapply child_bases_ok; eauto.
    + eapply IH; [|exact H]. simpl. split; [apply base_ok_snoc|exact Hb].
    + eapply IH; [|exact H]. exact Hb.
    + eapply IH; [|exact H]. exact Hb.
Qed.

Lemma child_no_cache c : forall p c', no_cache c = true -> child c p = Some c' -> no_cache c' = true.
Proof.
  induction c as [|l c IH]; intros p c' Hn H; simpl in H.
  - destruct (reduce p); inversion H; reflexivity.
  - simpl in Hn. apply andb_true_iff in Hn as [Hl Hn]. destruct l as [b|b| | |]; try discriminate.
    + destruct (reduce p); [|discriminate]. destruct (reduce (b ++ join p0)); inversion H; subst. simpl. exact Hn.
    + destruct (reduce p); inversion H; subst. simpl. exact Hn.
    + destruct (reduce p); inversion H; subst. simpl. exact Hn.
    + destruct (child c p) as [c''|] eqn:E; inversion H; subst. simpl. eapply IH; eauto.
Qed.

Lemma build_no_cache ks : forall c c', no_cache c = true -> build c ks = Some c' -> no_cache c' = true.
Proof.
  induction ks as [|k ks IH]; intros c c' Hn H; simpl in H.
  - inversion H; subst. exact Hn.
  - destruct k.
    + destruct (child c p) as [c1|] eqn:E; [|discriminate]. eapply IH; [|exact H]. eapply child_no_cache; eauto.
    + eapply IH; [|exact H]. exact Hn.
    + eapply IH; [|exact H]. exact Hn.
    + eapply IH; [|exact H]. exact Hn.
Qed.

(** * Tree level: operations through a stack over the in-memory filespace are confined *)
Lemma chain_step_forward c t o :
  no_cache c = true -> bases_ok c ->
  fst (chain_step c t o) = t \/
  exists o', chain_step c t o = mem_step t o' /\
             forall s p, In s (targets o') -> reduce s = Some p ->
                         exists b r, root_of c = Some b /\ p = b ++ r.
Proof.
  intros Hnc Hb. unfold chain_step. destruct (has_ro c && is_mutating o); [left; reflexivity|].
  destruct o; try (left; reflexivity);
  cbv beta iota zeta delta [map_args];
  repeat match goal with
  | |- context [match transform ?nn c ?s with _ => _ end] => destruct (transform nn c s) eqn:?
  end; try (left; reflexivity); right; eexists; (split; [reflexivity|]); simpl;
  intros s0 p0 Hs Hp;
  repeat match goal with H : _ \/ _ |- _ => destruct H | H : False |- _ => destruct H end;
  match goal with
  | Heq : ?x = s0, H : transform ?nn c ?s = Some ?x |- _ =>
    rewrite <- Heq in Hp;
    assert (Hres : resolve nn c s = Some p0) by (unfold resolve; rewrite H; exact Hp);
    destruct (resolve_confined nn c s p0 Hnc Hb Hres) as (b' & r' & Hroot & _ & _ & Heq');
    exists b', r'; auto
  end.
Qed.

(** For a stack whose own root is [b]: every node that is not at or below [b] is untouched by
    any operation through the stack, and the only thing that may appear outside is a directory
    on the way down to [b]. *)
Theorem chain_step_outside c t o b q :
  no_cache c = true -> bases_ok c -> WF t -> root_of c = Some b -> is_prefix b q = false ->
  (forall e, lookup t q = Some e -> lookup (fst (chain_step c t o)) q = Some e) /\
  (lookup t q = None -> lookup (fst (chain_step c t o)) q <> None ->
   lookup (fst (chain_step c t o)) q = Some D /\ is_prefix q b = true).
Proof.
  intros Hnc Hb HWF Hroot Hq.
  destruct (chain_step_forward c t o Hnc Hb) as [->|(o' & -> & Ht)].
  - split; [auto|]. intros A B. congruence.
  - assert (Hout : forall s p, In s (targets o') -> reduce s = Some p -> is_prefix p q = false).
    { intros s p Hs Hp. destruct (Ht s p Hs Hp) as (b' & r & Hb' & ->).
      rewrite Hroot in Hb'. inversion Hb'; subst b'. apply is_prefix_app_false. exact Hq. }
    destruct (mem_step_outside t o' q HWF Hout) as [P N]. split; [exact P|].
    intros A B. destruct (N A B) as (C & s & p & Hs & Hp & Hqp). split; [exact C|].
    destruct (Ht s p Hs Hp) as (b' & r & Hb' & ->). rewrite Hroot in Hb'. inversion Hb'; subst b'.
    destruct (is_prefix_comparable q b (b ++ r) Hqp (is_prefix_app b r)) as [H|H]; [exact H|congruence].
Qed.

(** When the stack has no root inside the backend (some base climbs out), every operation is
    refused or answered without effect: nothing changes anywhere. *)
Lemma reduce_node_none s : reduce s = None -> reduce_node s = None.
Proof. intros H. unfold reduce_node. rewrite H. reflexivity. Qed.

Lemma mem_step_targets_unresolved t o :
  (forall s, In s (targets o) -> reduce s = None) -> fst (mem_step t o) = t.
Proof.
  intros H. destruct o; simpl in H |- *;
  try (rewrite (reduce_node_none _ (H _ (or_introl eq_refl))));
  try (rewrite (H _ (or_introl eq_refl)));
  repeat match goal with
  | |- context [match reduce ?s with _ => _ end] => destruct (reduce s)
  | |- context [match reduce_node ?s with _ => _ end] => destruct (reduce_node s)
  | |- context [is_dir_at ?tt ?x] => destruct (is_dir_at tt x)
  | |- context [lookup ?tt ?x] => destruct (lookup tt x) as [[|]|]
  end; reflexivity.
Qed.

Theorem chain_step_no_root c t o :
  no_cache c = true -> bases_ok c -> root_of c = None -> fst (chain_step c t o) = t.
Proof.
  intros Hnc Hb Hroot.
  destruct (chain_step_forward c t o Hnc Hb) as [H|(o' & E & Ht)]; [exact H|].
  rewrite E. apply mem_step_targets_unresolved. intros s Hs.
  destruct (reduce s) as [p|] eqn:Ep; [|reflexivity].
  destruct (Ht s p Hs Ep) as (b & r & Hb' & _). congruence.
Qed.
