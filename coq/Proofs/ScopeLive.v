(** Liveness of the close protocol of Model/Scope.v (C11_close_returns): from every state that
    satisfies [live_ok] there is a schedule that runs every program thread to its end.
    The proof is a measure ([mu]: what is left of the programs, in micro-steps, plus the distance of
    every Close program counter from its end), an invariant ([LI]) kept by every step of a program
    thread, and a progress lemma (the thread that waits for the scope with the largest number
    cannot be waiting for a thread that waits). *)
From GC Require Import Common.Base Model.Scope Model.ScopeLive Proofs.Scope Proofs.ScopeClose.
From Coq Require Import ZArith Lia ZifyBool ZifyNat.
Local Open Scope nat_scope.

(** * Lists *)
Lemma firstn_upd {A} k n (f : A -> A) l : firstn k (upd n f l) = upd n f (firstn k l).
Proof.
  revert k n; induction l as [|x l IH]; intros [|k] [|n]; simpl; auto. now rewrite IH.
Qed.

Lemma nth_error_firstn_lt {A} k n (l : list A) : n < k -> nth_error (firstn k l) n = nth_error l n.
Proof.
  revert k n; induction l as [|x l IH]; intros [|k] [|n] H; simpl; auto; try lia. apply IH. lia.
Qed.

Lemma in_firstn {A} k (l : list A) x : In x (firstn k l) -> In x l.
Proof. revert k; induction l as [|y l IH]; intros [|k]; simpl; auto; try tauto. intros [->|H]; eauto. Qed.

Lemma firstn_app_le {A} k (l l2 : list A) : k <= length l -> firstn k (l ++ l2) = firstn k l.
Proof.
  intros H. rewrite firstn_app. replace (k - length l) with 0 by lia. simpl. apply app_nil_r.
Qed.

Lemma list_sum_mid (f : thread -> nat) l1 x l2 :
  list_sum (map f (l1 ++ x :: l2)) = list_sum (map f l1) + f x + list_sum (map f l2).
Proof. rewrite map_app, list_sum_app. simpl. lia. Qed.

Lemma in_mid {A} (y : A) l1 x l2 : In y (l1 ++ x :: l2) <-> y = x \/ In y (l1 ++ l2).
Proof. rewrite !in_app_iff. simpl. intuition auto. Qed.

Lemma map_upd {A B} (g : A -> B) (f : A -> A) (f' : B -> B) n l :
  (forall x, g (f x) = f' (g x)) -> map g (upd n f l) = upd n f' (map g l).
Proof.
  intros H. revert n; induction l as [|x l IH]; intros [|n]; simpl; auto. now rewrite H. now rewrite IH.
Qed.

Lemma upd_id {A} n (f : A -> A) l : (forall x, f x = x) -> upd n f l = l.
Proof. intros H. revert n; induction l as [|x l IH]; intros [|n]; simpl; auto. now rewrite H. now rewrite IH. Qed.

(** * The measure *)
Definition rkb (e : cev) : nat :=
  match e with AC => 2 | ACo | AR => 8 | Co | Ro => 14 | BCo | BR => 20 | BC => 29 end.
Definition rk (p : cpc) : nat :=
  match p with
  | CNone | CFinished => 0
  | CRet => 1
  | CSignOff => 2
  | CFire e => rkb e + 6
  | CErrA e _ => rkb e + 5
  | CErrS e => rkb e + 4
  | CErrT e => rkb e + 3
  | CErr2A e _ => rkb e + 2
  | CErr2S e => rkb e + 1
  | CMark => 27
  | CDecide => 28
  | CWait => 29
  end.

Lemma rk_next e : rk (next_pc e) = rkb e.
Proof. destruct e; reflexivity. Qed.

Definition wi (i : instr) : nat :=
  match i with
  | ICClose _ _ => 1
  | ICStop _ _ => 2
  | ICAppend _ _ => 3
  | ITrigErr _ => 4
  | ITrig _ _ => 8
  | IC0 _ => 37
  | IWait _ => 2
  | IWatchRead _ => 4
  | IWatch _ => 5
  | _ => 1
  end.
Definition wo (o : op) : nat :=
  match o with
  | OClose _ => 37
  | OAppendError _ _ => 8
  | OKill _ => 12
  | OStop _ => 11
  | OWait _ => 2
  | OCAppend _ _ | OCKill _ => 3
  | OCStop _ => 2
  | _ => 1
  end.
Definition wsum (l : list instr) : nat := list_sum (map wi l).
Definition osum (l : list op) : nat := list_sum (map wo l).
Definition thw (th : thread) : nat := wsum (t_cur th) + osum (t_todo th).

Definition pcs (sh : shared) : list cpc := map s_pc (scopes sh).
Definition pcsum (sh : shared) : nat := list_sum (map rk (pcs sh)).
Definition mu (k : nat) (st : state) : nat := list_sum (map thw (pthreads k st)) + pcsum (sh st).

Lemma wsum_app a b : wsum (a ++ b) = wsum a + wsum b.
Proof. unfold wsum. now rewrite map_app, list_sum_app. Qed.

Lemma wi_pos i : 1 <= wi i.
Proof. destruct i; simpl; lia. Qed.
Lemma wo_pos o : 1 <= wo o.
Proof. destruct o; simpl; lia. Qed.

Lemma expand_weight sh o : wsum (expand sh o) <= wo o /\ expand sh o <> [].
Proof.
  unfold wsum. destruct o; simpl; repeat des_if; simpl; try (split; [lia|discriminate]).
  destruct (nonnil es); simpl; (split; [lia|discriminate]).
Qed.

Lemma pc_gets sh s : s_pc (gets sh s) = nth s (pcs sh) CNone.
Proof. unfold gets, pcs. change CNone with (s_pc dscope). now rewrite map_nth. Qed.

Lemma pc_valid sh s : s_pc (gets sh s) <> CNone -> valids sh s = true.
Proof.
  intros H. unfold valids. destruct (Nat.ltb_spec s (length (scopes sh))); auto.
  unfold gets in H. rewrite nth_overflow in H by lia. now elim H.
Qed.

Lemma reg_valid sh s q : s_reg (gets sh s) = Some q -> valids sh s = true.
Proof.
  intros H. unfold valids. destruct (Nat.ltb_spec s (length (scopes sh))); auto.
  unfold gets in H. rewrite nth_overflow in H by lia. discriminate.
Qed.

Lemma pcs_upd_scope sh s f : (forall x, s_pc (f x) = s_pc x) -> pcs (upd_scope sh s f) = pcs sh.
Proof.
  intros H. unfold pcs, upd_scope. simpl. rewrite (map_upd s_pc f (fun x => x)) by auto. now apply upd_id.
Qed.

Lemma pcs_set_pc sh s p : pcs (set_pc sh s p) = upd s (fun _ => p) (pcs sh).
Proof. unfold pcs, set_pc, upd_scope. simpl. now apply map_upd. Qed.

Lemma rksum_upd l s p : s < length l ->
  list_sum (map rk (upd s (fun _ => p) l)) + rk (nth s l CNone) = list_sum (map rk l) + rk p.
Proof.
  revert s; induction l as [|x l IH]; intros [|s] H; simpl in *; try lia.
  specialize (IH s). lia.
Qed.

Lemma pcsum_set_pc sh0 sh s p :
  valids sh s = true -> pcs sh0 = pcs sh ->
  pcsum (set_pc sh0 s p) + rk (s_pc (gets sh s)) = pcsum sh + rk p.
Proof.
  intros V E. unfold pcsum. rewrite pcs_set_pc, E, pc_gets. apply rksum_upd.
  unfold valids, pcs in *. rewrite map_length. lia.
Qed.

(** * What one micro-step of a Close does to the scope table *)
Lemma close_step_idle cf sh s sh' p o a sp :
  close_step cf sh s = XOk sh' p o a sp -> in_progress (s_pc (gets sh s)) = false -> sh' = sh.
Proof.
  unfold close_step, xok. destruct (s_pc (gets sh s)); simpl; intros H E; try discriminate; inv_x; auto.
Qed.

Lemma close_step_shape cf sh s sh' p o a sp :
  close_step cf sh s = XOk sh' p o a sp -> in_progress (s_pc (gets sh s)) = true ->
  exists p', rk p' < rk (s_pc (gets sh s)) /\ p' <> CNone /\ (p' = CFinished -> s_pc (gets sh s) = CRet) /\
    ((scopes sh' = upd s (s_set_pc p') (scopes sh) /\ (p' = CRet -> s_reg (gets sh s) = None))
     \/ (exists b, scopes sh' = upd s (s_set_pc p') (upd s (s_set_branch b) (scopes sh)) /\ p' = CMark)
     \/ (exists q, s_reg (gets sh s) = Some q /\ p' = CRet /\ (0 < s_wg (gets sh q))%Z /\
           scopes sh' = upd s (s_set_pc CRet) (upd s s_clear_reg (upd q (s_add_wg (-1) 0) (scopes sh))))).
Proof.
  unfold close_step, xok, set_pc. intros H IP.
  destruct (s_pc (gets sh s)) eqn:PC; try discriminate IP; try des_trig; repeat des_if; try inv_x.
  all: try (match goal with |- context [upd_scope _ _ (s_set_pc ?p)] => exists p end;
            split; [simpl; rewrite ?rk_next; lia|];
            split; [try (destruct e); discriminate|];
            split; [try (destruct e); try discriminate; auto|];
            left; split; [simpl; rewrite ?H1; reflexivity|try (destruct e); discriminate]; fail).
  - exists CMark. split; [simpl; lia|]. split; [discriminate|]. split; [discriminate|].
    right; left. eexists. split; reflexivity.
  - destruct (s_reg (gets sh s)) as [q|] eqn:R; repeat des_if; inv_x; exists CRet;
      (split; [simpl; lia|]); (split; [discriminate|]); (split; [discriminate|]).
    + right; right. exists q. repeat split; auto. lia.
    + left. split; auto.
Qed.

Lemma pcsum_shape sh sh' s p' L :
  scopes sh' = upd s (s_set_pc p') L -> map s_pc L = pcs sh -> valids sh s = true ->
  rk p' < rk (s_pc (gets sh s)) -> pcsum sh' < pcsum sh.
Proof.
  intros E M V R. unfold pcsum at 1. unfold pcs at 1.
  rewrite E, (map_upd s_pc (s_set_pc p') (fun _ => p')), M by reflexivity.
  assert (Hs : s < length (pcs sh)) by (unfold valids, pcs in *; rewrite map_length; lia).
  pose proof (rksum_upd (pcs sh) s p' Hs) as X. rewrite <- pc_gets in X. unfold pcsum. lia.
Qed.

Lemma map_pc_upd n f l : (forall x, s_pc (f x) = s_pc x) -> map s_pc (upd n f l) = map s_pc l.
Proof. intros H. rewrite (map_upd s_pc f (fun x => x)) by auto. now apply upd_id. Qed.

Lemma in_progress_not_none p : in_progress p = true -> p <> CNone.
Proof. destruct p; simpl; congruence. Qed.

Lemma close_eff cf sh s sh' p o a sp :
  close_step cf sh s = XOk sh' p o a sp -> in_progress (s_pc (gets sh s)) = true ->
  valids sh s = true /\
  s_pc (gets sh' s) <> CNone /\
  (s_pc (gets sh' s) = CFinished -> s_pc (gets sh s) = CRet) /\
  (s_pc (gets sh' s) = CRet -> s_reg (gets sh' s) = None) /\
  (forall s', s' <> s -> s_pc (gets sh' s') = s_pc (gets sh s')) /\
  (forall s', s_tasks (gets sh' s') = s_tasks (gets sh s')) /\
  (forall s', busy sh' s' = true -> busy sh s' = true) /\
  (forall s' q, s_reg (gets sh' s') = Some q -> s_reg (gets sh s') = Some q) /\
  pcsum sh' < pcsum sh.
Proof.
  intros H IP. pose proof (pc_valid sh s (in_progress_not_none _ IP)) as V.
  destruct (close_step_shape _ _ _ _ _ _ _ _ H IP) as (p' & R & N0 & NF & [[E NR]|[(b & E & ->)|(q & Rq & -> & Wq & E)]]).
  all: split; auto.
  all: assert (Hs : s < length (scopes sh)) by (unfold valids in V; lia).
  - assert (G : forall s', gets sh' s' = if Nat.eqb s s' then s_set_pc p' (gets sh s') else gets sh s').
    { intros s'. unfold gets. rewrite E, nth_upd. destruct (Nat.eqb_spec s s') as [<-|]; simpl; auto.
      destruct (Nat.ltb_spec s (length (scopes sh))); auto; lia. }
    repeat split.
    + rewrite G, Nat.eqb_refl. auto.
    + rewrite G, Nat.eqb_refl. simpl. auto.
    + rewrite G, Nat.eqb_refl. simpl. auto.
    + intros s' Ne. rewrite G. destruct (Nat.eqb_spec s s'); auto. congruence.
    + intros s'. rewrite G. destruct (Nat.eqb s s'); auto.
    + intros s'. unfold busy. rewrite G. destruct (Nat.eqb s s'); auto.
    + intros s' q. rewrite G. destruct (Nat.eqb s s'); auto.
    + eapply pcsum_shape; eauto.
  - assert (G : forall s', gets sh' s' = if Nat.eqb s s' then s_set_pc CMark (s_set_branch b (gets sh s')) else gets sh s').
    { intros s'. unfold gets. rewrite E, !nth_upd, upd_length. destruct (Nat.eqb_spec s s') as [<-|]; simpl; auto.
      destruct (Nat.ltb_spec s (length (scopes sh))); auto; lia. }
    repeat split.
    + rewrite G, Nat.eqb_refl. discriminate.
    + rewrite G, Nat.eqb_refl. discriminate.
    + rewrite G, Nat.eqb_refl. discriminate.
    + intros s' Ne. rewrite G. destruct (Nat.eqb_spec s s'); auto. congruence.
    + intros s'. rewrite G. destruct (Nat.eqb s s'); auto.
    + intros s'. unfold busy. rewrite G. destruct (Nat.eqb s s'); auto.
    + intros s' q. rewrite G. destruct (Nat.eqb s s'); auto.
    + eapply pcsum_shape; eauto. apply map_pc_upd. reflexivity.
  - assert (G : forall s', gets sh' s' =
        let x := if Nat.eqb q s' && Nat.ltb s' (length (scopes sh)) then s_add_wg (-1) 0 (gets sh s') else gets sh s' in
        if Nat.eqb s s' then s_set_pc CRet (s_clear_reg x) else x).
    { intros s'. unfold gets. rewrite E, !nth_upd, !upd_length. destruct (Nat.eqb_spec s s') as [<-|]; simpl; auto.
      destruct (Nat.ltb_spec s (length (scopes sh))); auto; lia. }
    repeat split.
    + rewrite G, Nat.eqb_refl. discriminate.
    + rewrite G, Nat.eqb_refl. discriminate.
    + rewrite G, Nat.eqb_refl. simpl. auto.
    + intros s' Ne. rewrite G. simpl. destruct (Nat.eqb_spec s s'); [congruence|]. destruct (_ && _); auto.
    + intros s'. rewrite G. simpl. destruct (Nat.eqb s s'); destruct (_ && _); simpl; auto; lia.
    + intros s'. unfold busy. rewrite G. simpl.
      destruct (Nat.eqb_spec q s') as [<-|]; simpl; [|destruct (Nat.eqb s s'); auto].
      destruct (Nat.ltb q (length (scopes sh))); simpl; [|destruct (Nat.eqb s q); auto].
      intros _. lia.
    + intros s' q'. rewrite G. simpl. destruct (Nat.eqb s s'); simpl; [discriminate|]. destruct (_ && _); auto.
    + eapply pcsum_shape; eauto. rewrite !map_pc_upd; auto.
Qed.

(** * What the other micro-steps do *)
Definition cur_ok (i : instr) : bool :=
  match i with
  | ICAppend _ _ | ICStop _ _ | ICClose _ _ | ITrig _ _ | ITrigErr _ | IRunClose _ | IErr _ | IWatchRead _ => true
  | _ => false
  end.
Definition plain (i : instr) : bool :=
  match i with IAddTasks _ | IDoneTask _ | INewChild _ _ | IC0 _ | IRunClose _ => false | _ => true end.
Definition same_core (sh sh' : shared) : Prop :=
  forall s, s_wg (gets sh' s) = s_wg (gets sh s) /\ s_tasks (gets sh' s) = s_tasks (gets sh s) /\
            s_pc (gets sh' s) = s_pc (gets sh s) /\ s_reg (gets sh' s) = s_reg (gets sh s).

Lemma same_core_refl sh : same_core sh sh.
Proof. intros s. auto. Qed.

Lemma exec_push_cur cf b i sh sh' p o a sp :
  exec cf b i sh = XOk sh' p o a sp -> Forall (fun j => cur_ok j = true) p.
Proof.
  intros H. destruct i; unfold exec, xok, xpush in H;
    try (destruct (close_step cf sh s) eqn:CS; try discriminate; inv_x;
         destruct (s_pc (gets sh' s)); repeat constructor; fail);
    try des_trig; repeat des_if; try inv_x; repeat constructor.
  all: destruct (c_iso (getc sh c)); repeat des_if; inv_x; repeat constructor.
Qed.

Lemma exec_push_blk cf b i sh sh' p o a sp j s :
  exec cf b i sh = XOk sh' p o a sp -> In j p -> blk_instr j = Some s -> i = IC0 s \/ i = IRunClose s.
Proof.
  intros H. destruct i; unfold exec, xok, xpush in H;
    try des_trig; repeat des_if; try inv_x; simpl; try tauto;
    try (intros [<-|[<-|[]]]; discriminate); try (intros [<-|[]]; simpl; intros E; inversion E; auto; fail).
  - destruct (close_step cf sh s0) eqn:CS; try discriminate; inv_x.
    destruct (s_pc (gets sh' s0)); simpl; try tauto; intros [<-|[]]; simpl; intros E; inversion E; auto.
  - destruct (c_iso (getc sh c)); repeat des_if; inv_x; simpl; try tauto; intros [<-|[]]; discriminate.
  - destruct (c_iso (getc sh c)); repeat des_if; inv_x; simpl; try tauto; intros [<-|[]]; discriminate.
  - destruct (c_iso (getc sh c)); repeat des_if; inv_x; simpl; try tauto; intros [<-|[]]; discriminate.
Qed.

Lemma gets_app_new sh0 l x s :
  scopes sh0 = l ++ [x] -> s_wg x = 0%Z -> s_tasks x = 0%Z -> s_pc x = CNone -> s_reg x = None ->
  s_wg (gets sh0 s) = s_wg (nth s l dscope) /\ s_tasks (gets sh0 s) = s_tasks (nth s l dscope) /\
  s_pc (gets sh0 s) = s_pc (nth s l dscope) /\ s_reg (gets sh0 s) = s_reg (nth s l dscope).
Proof.
  intros E W T P R. unfold gets. rewrite E.
  destruct (Nat.lt_ge_cases s (length l)).
  - rewrite app_nth1; auto.
  - rewrite (nth_overflow l) by lia. destruct (Nat.eq_dec s (length l)) as [->|].
    + rewrite nth_middle. simpl. auto.
    + rewrite nth_overflow; auto. rewrite app_length; simpl; lia.
Qed.

Lemma exec_plain cf b i sh sh' p o a sp :
  exec cf b i sh = XOk sh' p o a sp -> plain i = true -> same_core sh sh'.
Proof.
  intros H PL. destruct i; simpl in PL; try discriminate; unfold exec, xok, xpush in H;
    try des_trig; repeat des_if; try inv_x; try apply same_core_refl;
    try (intros s0; unfold gets; simpl; rewrite ?H1; auto; fail).
  - intros s0. eapply gets_app_new; simpl; eauto.
  - intros s0. rewrite gets_upd_scope. destruct (_ && _); auto.
  - destruct (c_iso (getc sh c)); repeat des_if; inv_x; apply same_core_refl.
  - destruct (c_iso (getc sh c)); repeat des_if; inv_x; apply same_core_refl.
  - destruct (c_iso (getc sh c)); repeat des_if; inv_x; apply same_core_refl.
Qed.

Lemma exec_done cf b s sh sh' p o a sp :
  exec cf b (IDoneTask s) sh = XOk sh' p o a sp ->
  p = [] /\ ((valids sh s = false /\ sh' = sh) \/
             (valids sh s = true /\ (0 < s_wg (gets sh s))%Z /\ sh' = upd_scope sh s (s_add_wg (-1) (-1)))).
Proof.
  unfold exec, xok. intros H. repeat des_if; inv_x; split; auto. right. repeat split; auto. lia.
Qed.

Lemma exec_done_panic cf b s sh k :
  exec cf b (IDoneTask s) sh = XPanic k -> valids sh s = true /\ (s_wg (gets sh s) <= 0)%Z.
Proof. unfold exec, xok. intros H. repeat des_if; inv_x. split; auto. lia. Qed.

Lemma exec_c0 cf b s sh sh' p o a sp :
  exec cf b (IC0 s) sh = XOk sh' p o a sp ->
  (valids sh s = false /\ sh' = sh /\ p = []) \/
  (valids sh s = true /\ s_pc (gets sh s) = CNone /\ sh' = set_pc sh s (CFire BC) /\ p = [IRunClose s]).
Proof.
  unfold exec, xok, xpush. intros H. repeat des_if; inv_x; auto. right. repeat split; auto.
  unfold closing in *. destruct (s_pc (gets sh s)); auto; discriminate.
Qed.

Lemma exec_c0_panic cf b s sh k :
  exec cf b (IC0 s) sh = XPanic k -> s_pc (gets sh s) <> CNone.
Proof.
  unfold exec, xok, xpush. intros H. repeat des_if; inv_x. unfold closing in *.
  destruct (s_pc (gets sh s)); congruence.
Qed.

Lemma exec_runclose cf b s sh sh' p o a sp :
  exec cf b (IRunClose s) sh = XOk sh' p o a sp ->
  close_step cf sh s = XOk sh' [] o [] [] /\
  p = (if in_progress (s_pc (gets sh' s)) then [IRunClose s] else []).
Proof.
  unfold exec. intros H. destruct (close_step cf sh s) eqn:CS; try discriminate. inv_x.
  split.
  - unfold close_step, xok in CS |- *. destruct (s_pc (gets sh s)); try des_trig; repeat des_if; try inv_x; auto.
    destruct (s_reg (gets sh s)); repeat des_if; inv_x; auto.
  - destruct (s_pc (gets sh' s)); reflexivity.
Qed.

Lemma exec_runclose_panic cf b s sh k :
  exec cf b (IRunClose s) sh = XPanic k ->
  exists q, s_reg (gets sh s) = Some q /\ valids sh s = true /\ (s_wg (gets sh q) <= 0)%Z.
Proof.
  unfold exec. intros H. destruct (close_step cf sh s) eqn:CS; try discriminate. inv_x.
  unfold close_step, xok in CS. destruct (s_pc (gets sh s)) eqn:PC; try des_trig; repeat des_if; try inv_x.
  destruct (s_reg (gets sh s)) as [q|] eqn:R; repeat des_if; try inv_x.
  exists q. repeat split; auto. eapply reg_valid; eauto. lia.
Qed.

(** every successful micro-step brings the measure down *)
Lemma pcsum_same sh sh' : pcs sh' = pcs sh -> pcsum sh' = pcsum sh.
Proof. unfold pcsum. now intros ->. Qed.

Lemma exec_measure cf b i sh sh' p o a sp :
  exec cf b i sh = XOk sh' p o a sp -> wsum p + pcsum sh' < wi i + pcsum sh.
Proof.
  intros H. destruct i.
  16: { apply exec_runclose in H as [CS ->].
        destruct (in_progress (s_pc (gets sh s))) eqn:IP.
        - pose proof (close_eff _ _ _ _ _ _ _ _ CS IP) as X. destruct X as (_ & _ & _ & _ & _ & _ & _ & _ & X).
          destruct (in_progress (s_pc (gets sh' s))); unfold wsum; simpl; lia.
        - apply close_step_idle in CS; auto. subst. rewrite IP. unfold wsum; simpl. lia. }
  15: { apply exec_c0 in H as [(V & -> & ->)|(V & PC & -> & ->)]; unfold wsum; simpl; try lia.
        pose proof (pcsum_set_pc sh sh s (CFire BC) V eq_refl) as X. rewrite PC in X. simpl in X. lia. }
  all: unfold exec, xok, xpush in H; try des_trig; repeat des_if; try inv_x; unfold wsum; simpl; try lia.
  all: unfold pcsum, pcs; cbn [scopes upd_ctx set_ctxs set_scopes upd_scope]; rewrite ?H1;
    rewrite ?map_app, ?list_sum_app; rewrite ?map_pc_upd by reflexivity; simpl; try lia.
  all: destruct (c_iso (getc sh c)); repeat des_if; inv_x; simpl; lia.
Qed.

(** * The next micro-step of a thread *)
Lemma view_inv sh th i rest todo :
  view sh th = Some (i, rest, todo) ->
  (t_cur th = i :: rest /\ t_todo th = todo) \/
  (t_cur th = [] /\ exists o, t_todo th = o :: todo /\ expand sh o = i :: rest).
Proof.
  unfold view. destruct (t_cur th) as [|j r].
  - destruct (t_todo th) as [|o os]; [discriminate|].
    destruct (expand_weight sh o) as [_ NE].
    destruct (expand sh o) as [|j r] eqn:E; [now elim NE|].
    intros H; inversion H; subst. right. split; auto. exists o. auto.
  - intros H; inversion H; subst. auto.
Qed.

Lemma expand_rest sh o :
  Forall (fun j => cur_ok j = true /\ blk_instr j = None) (tl (expand sh o)).
Proof.
  destruct o; simpl; repeat des_if; simpl; repeat constructor.
  destruct (nonnil es); simpl; repeat constructor.
Qed.

Lemma expand_hd sh o i rest :
  op_noinc o = true -> expand sh o = i :: rest ->
  (plain i = true /\ (forall c, i <> IWatch c) /\ (forall s, is_done s o = false) /\
   (forall s, is_close s o = false) /\ (forall s, blk_instr i = Some s -> blk_op o = Some s)) \/
  (exists s, o = ODoneTask s /\ i = IDoneTask s /\ rest = []) \/
  (exists s, o = OClose s /\ i = IC0 s /\ rest = []).
Proof.
  destruct o; simpl; intros N; try discriminate; repeat des_if; intros E;
    try (destruct (nonnil es)); inversion E; subst; simpl;
    first [ right; left; eexists; repeat split; reflexivity
          | right; right; eexists; repeat split; reflexivity
          | left; repeat split; auto; try discriminate; intros s0 X; inversion X; auto ].
Qed.

Lemma step_kind sh th i rest todo :
  Forall (fun j => cur_ok j = true) (t_cur th) -> Forall (fun o => op_noinc o = true) (t_todo th) ->
  view sh th = Some (i, rest, todo) ->
  Forall (fun j => cur_ok j = true) rest /\ Forall (fun o => op_noinc o = true) todo /\
  ((t_cur th = i :: rest /\ t_todo th = todo /\ (plain i = true \/ exists s, i = IRunClose s) /\
    (forall c, i <> IWatch c)) \/
   (t_cur th = [] /\ exists o, t_todo th = o :: todo /\ (forall j, In j rest -> blk_instr j = None) /\
      ((plain i = true /\ (forall c, i <> IWatch c) /\ (forall s, is_done s o = false) /\
        (forall s, is_close s o = false) /\ (forall s, blk_instr i = Some s -> blk_op o = Some s)) \/
       (exists s, o = ODoneTask s /\ i = IDoneTask s /\ rest = []) \/
       (exists s, o = OClose s /\ i = IC0 s /\ rest = [])))).
Proof.
  intros FC FT V. apply view_inv in V as [[E1 E2]|[E1 (o & E2 & E3)]].
  - rewrite E1 in FC. inversion FC; subst. repeat split; auto. left. repeat split; auto.
    + destruct i; simpl in *; try discriminate; eauto.
    + intros c ->. discriminate.
  - rewrite E2 in FT. inversion FT; subst.
    pose proof (expand_rest sh o) as R. rewrite E3 in R. simpl in R.
    split. { eapply Forall_impl; [|exact R]. simpl. tauto. }
    split; auto. right. split; auto. exists o. split; auto. split.
    + intros j Hj. rewrite Forall_forall in R. apply R; auto.
    + eapply expand_hd; eauto.
Qed.

(** * The invariant *)
Definition LI (sh : shared) (P : list thread) : Prop :=
  wgI sh /\
  (forall th, In th P -> Forall (fun i => cur_ok i = true) (t_cur th) /\
                         Forall (fun o => op_noinc o = true) (t_todo th)) /\
  (forall s, s_tasks (gets sh s) = Z.of_nat (total_done s P)) /\
  (forall s, in_progress (s_pc (gets sh s)) = true -> exists th, In th P /\ holds_token s th = true) /\
  (forall c q, s_reg (gets sh c) = Some q ->
     s_pc (gets sh c) <> CRet /\ s_pc (gets sh c) <> CFinished /\
     (s_pc (gets sh c) = CNone -> exists th, In th P /\ will_close c th = true)) /\
  (forall th, In th P -> ordered_thread sh th = true).

Lemma total_done_mid s l1 x l2 :
  total_done s (l1 ++ x :: l2) = total_done s l1 + done_count s (t_todo x) + total_done s l2.
Proof. unfold total_done. apply list_sum_mid. Qed.

Lemma done_count_cons s o l : done_count s (o :: l) = (if is_done s o then 1 else 0) + done_count s l.
Proof. unfold done_count. simpl. destruct (is_done s o); reflexivity. Qed.

Lemma holder_keep (f : thread -> bool) l1 th th' l2 :
  (exists th0, In th0 (l1 ++ th :: l2) /\ f th0 = true) -> (f th = true -> f th' = true) ->
  exists th0, In th0 (l1 ++ th' :: l2) /\ f th0 = true.
Proof.
  intros (th0 & Hin & F) K. apply in_mid in Hin as [->|Hin].
  - exists th'. split; auto. apply in_mid. auto.
  - exists th0. split; auto. apply in_mid. auto.
Qed.

Lemma may_wait_mono sh sh' ob l :
  (forall s, busy sh' s = true -> busy sh s = true) -> may_wait sh ob l = true -> may_wait sh' ob l = true.
Proof.
  intros M. destruct ob as [s|]; simpl; auto. specialize (M s).
  destruct (busy sh' s); auto. rewrite M; auto.
Qed.

Lemma ordered_ops_mono sh sh' l :
  (forall s, busy sh' s = true -> busy sh s = true) -> ordered_ops sh l = true -> ordered_ops sh' l = true.
Proof.
  intros M. induction l as [|o l IH]; simpl; auto. rewrite !andb_true_iff. intros [A B].
  split; auto. eapply may_wait_mono; eauto.
Qed.

Lemma ordered_mono sh sh' th :
  (forall s, busy sh' s = true -> busy sh s = true) -> ordered_thread sh th = true -> ordered_thread sh' th = true.
Proof.
  intros M. unfold ordered_thread. rewrite !andb_true_iff, !forallb_forall. intros [A B].
  split. intros x Hx. eapply may_wait_mono; eauto. eapply ordered_ops_mono; eauto.
Qed.

Lemma total_done_pos s P : 0 < total_done s P -> exists th, In th P /\ In (ODoneTask s) (t_todo th).
Proof.
  induction P as [|th P IH]; unfold total_done; simpl; [lia|]. intros H.
  destruct (done_count s (t_todo th)) eqn:D.
  - destruct IH as (th0 & A & B). unfold total_done. lia. exists th0. auto.
  - exists th. split; auto. unfold done_count in D.
    destruct (filter (is_done s) (t_todo th)) as [|o l] eqn:F; [discriminate|].
    assert (Ho : In o (filter (is_done s) (t_todo th))) by (rewrite F; left; auto).
    apply filter_In in Ho as [Ho X]. destruct o; simpl in X; try discriminate.
    apply Nat.eqb_eq in X. subst. auto.
Qed.

Lemma same_core_busy sh sh' : same_core sh sh' -> forall s, busy sh' s = true -> busy sh s = true.
Proof. intros C s. unfold busy. destruct (C s) as (-> & _). auto. Qed.

(** the counter of a parent with a registered child is positive *)
Lemma reg_wg_pos sh c q :
  wgI sh -> (forall s, (0 <= s_tasks (gets sh s))%Z) -> s_reg (gets sh c) = Some q -> (0 < s_wg (gets sh q))%Z.
Proof.
  intros W T R. pose proof (reg_valid _ _ _ R) as V. unfold valids in V.
  assert (Hc : c < length (scopes sh)) by lia.
  destruct (wgL_signoff _ _ _ W Hc R) as [G _]. specialize (T q). unfold gets in *. lia.
Qed.

(** * One step of a program thread keeps the invariant *)
Section Step.
  Variables (b : bool) (sh sh' : shared) (l1 l2 : list thread) (th th' : thread).
  Variables (i : instr) (rest : list instr) (todo : list op).
  Variables (p : list instr) (o : list obs) (a : list (nat * list err)) (sp : list (list instr)).
  Hypothesis HLI : LI sh (l1 ++ th :: l2).
  Hypothesis HV : view sh th = Some (i, rest, todo).
  Hypothesis HX : exec cfg_current b i sh = XOk sh' p o a sp.
  Hypothesis Hcur : t_cur th' = p ++ rest.
  Hypothesis Htodo : t_todo th' = todo.

  Let Hth : In th (l1 ++ th :: l2).
  Proof. apply in_mid. auto. Qed.

  Lemma ok_kind :
    Forall (fun j => cur_ok j = true) rest /\ Forall (fun o => op_noinc o = true) todo /\
    ((t_cur th = i :: rest /\ t_todo th = todo /\ (plain i = true \/ exists s, i = IRunClose s) /\
      (forall c, i <> IWatch c)) \/
     (t_cur th = [] /\ exists o, t_todo th = o :: todo /\ (forall j, In j rest -> blk_instr j = None) /\
        ((plain i = true /\ (forall c, i <> IWatch c) /\ (forall s, is_done s o = false) /\
          (forall s, is_close s o = false) /\ (forall s, blk_instr i = Some s -> blk_op o = Some s)) \/
         (exists s, o = ODoneTask s /\ i = IDoneTask s /\ rest = []) \/
         (exists s, o = OClose s /\ i = IC0 s /\ rest = [])))).
  Proof.
    destruct HLI as (_ & C & _). destruct (C th Hth) as [A B]. eapply step_kind; eauto.
  Qed.

  Lemma tasks_nonneg : forall s, (0 <= s_tasks (gets sh s))%Z.
  Proof. destruct HLI as (_ & _ & T & _). intros s. rewrite T. lia. Qed.

  (** the four shapes of the effect on the scope table *)
  Lemma ok_effect :
    (same_core sh sh' /\ (forall s, i = IRunClose s -> p = [])) \/
    (exists s, i = IDoneTask s /\ valids sh s = true /\ (0 < s_wg (gets sh s))%Z /\
               sh' = upd_scope sh s (s_add_wg (-1) (-1)) /\ p = []) \/
    (exists s, i = IC0 s /\ valids sh s = true /\ s_pc (gets sh s) = CNone /\
               sh' = set_pc sh s (CFire BC) /\ p = [IRunClose s]) \/
    (exists s, i = IRunClose s /\ in_progress (s_pc (gets sh s)) = true /\
               close_step cfg_current sh s = XOk sh' [] o [] [] /\
               p = (if in_progress (s_pc (gets sh' s)) then [IRunClose s] else [])).
  Proof.
    destruct ok_kind as (_ & _ & K).
    assert (PL : plain i = true -> same_core sh sh' /\ (forall s, i = IRunClose s -> p = [])).
    { intros PL. split. eapply exec_plain; eauto. intros s ->. discriminate. }
    assert (RC : forall s, i = IRunClose s ->
      (same_core sh sh' /\ (forall s, i = IRunClose s -> p = [])) \/
      (exists s, i = IRunClose s /\ in_progress (s_pc (gets sh s)) = true /\
               close_step cfg_current sh s = XOk sh' [] o [] [] /\
               p = (if in_progress (s_pc (gets sh' s)) then [IRunClose s] else []))).
    { intros s E. pose proof HX as X. rewrite E in X. apply exec_runclose in X as [CS Ep].
      destruct (in_progress (s_pc (gets sh s))) eqn:IP.
      - right. exists s. auto.
      - left. pose proof (close_step_idle _ _ _ _ _ _ _ _ CS IP) as ->. split. apply same_core_refl.
        intros s0 E0. rewrite E in E0. inversion E0; subst s0. rewrite Ep, IP. reflexivity. }
    destruct K as [(E1 & E2 & [PL'|(s & E)] & NW)|(E1 & o0 & E2 & NB & [(PL' & _)|[(s & Eo & Ei & Er)|(s & Eo & Ei & Er)]])]; auto.
    - destruct (RC s E) as [|]; auto.
    - pose proof HX as X. rewrite Ei in X. apply exec_done in X as [Ep [[V E]|(V & W & E)]].
      + exfalso. destruct HLI as (_ & _ & T & _). specialize (T s).
        assert (Hd : 0 < total_done s (l1 ++ th :: l2)).
        { rewrite total_done_mid, E2, Eo, done_count_cons. simpl. rewrite Nat.eqb_refl. lia. }
        unfold gets, valids in *. rewrite nth_overflow in T by lia. simpl in T. lia.
      + right; left. exists s. auto.
    - pose proof HX as X. rewrite Ei in X. apply exec_c0 in X as [(V & -> & ->)|(V & PC & -> & ->)].
      + left. split. apply same_core_refl. intros s0 E0. congruence.
      + right; right; left. exists s. auto.
  Qed.

  Lemma gets_set_pc s q s' :
    gets (set_pc sh s q) s' = if Nat.eqb s s' && valids sh s' then s_set_pc q (gets sh s') else gets sh s'.
  Proof. unfold set_pc. apply gets_upd_scope. Qed.

  Lemma ok_busy : forall s, busy sh' s = true -> busy sh s = true.
  Proof.
    destruct ok_effect as [[C _]|[(s0 & _ & V & W & -> & _)|[(s0 & _ & V & PC & -> & _)|(s0 & _ & IP & CS & _)]]].
    - apply same_core_busy; auto.
    - intros s. unfold busy. rewrite gets_upd_scope.
      destruct (Nat.eqb_spec s0 s) as [<-|]; simpl; auto. rewrite V. simpl. intros _. lia.
    - intros s. unfold busy. rewrite gets_set_pc. destruct (_ && _); auto.
    - apply (close_eff _ _ _ _ _ _ _ _ CS IP).
  Qed.

  Lemma ok_tasks : forall s, s_tasks (gets sh' s) = Z.of_nat (total_done s (l1 ++ th' :: l2)).
  Proof.
    intros s. destruct HLI as (_ & _ & T & _). specialize (T s).
    rewrite total_done_mid in *. rewrite Htodo.
    destruct ok_kind as (_ & _ & K).
    destruct ok_effect as [[C _]|[(s0 & Ei & V & W & -> & _)|[(s0 & Ei & V & PC & -> & _)|(s0 & Ei & IP & CS & _)]]].
    - destruct (C s) as (_ & -> & _).
      destruct K as [(E1 & E2 & _)|(E1 & o0 & E2 & NB & [(PL' & _ & ND & _)|[(s1 & Eo & Ei & Er)|(s1 & Eo & Ei & Er)]])].
      + rewrite <- E2. auto.
      + rewrite E2, done_count_cons, ND in T. auto.
      + exfalso. pose proof HX as X. rewrite Ei in X. apply exec_done in X as [_ [[V E]|(V & W & E)]].
        * assert (Hd : 0 < total_done s1 (l1 ++ th :: l2)).
          { rewrite total_done_mid, E2, Eo, done_count_cons. simpl. rewrite Nat.eqb_refl. lia. }
          destruct HLI as (_ & _ & T' & _). specialize (T' s1).
          unfold gets, valids in *. rewrite nth_overflow in T' by lia. simpl in T'. lia.
        * subst sh'. specialize (C s1). rewrite gets_upd_scope, Nat.eqb_refl, V in C. simpl in C. lia.
      + rewrite E2, Eo, done_count_cons in T. simpl in T. auto.
    - destruct K as [(E1 & E2 & [PL|(s1 & E)] & _)|(E1 & o0 & E2 & NB & [(PL' & _)|[(s1 & Eo & Ei' & Er)|(s1 & Eo & Ei' & Er)]])];
        try (rewrite Ei in *; discriminate).
      rewrite Ei in Ei'. inversion Ei'; subst s1.
      rewrite E2, Eo, done_count_cons in T. simpl in T. rewrite gets_upd_scope.
      destruct (Nat.eqb_spec s0 s) as [<-|]; simpl.
      + rewrite V. simpl. lia.
      + auto.
    - destruct K as [(E1 & E2 & [PL|(s1 & E)] & _)|(E1 & o0 & E2 & NB & [(PL' & _)|[(s1 & Eo & Ei' & Er)|(s1 & Eo & Ei' & Er)]])];
        try (rewrite Ei in *; discriminate).
      rewrite E2, Eo, done_count_cons in T. simpl in T. rewrite gets_set_pc. destruct (_ && _); auto.
    - destruct (close_eff _ _ _ _ _ _ _ _ CS IP) as (_ & _ & _ & _ & _ & TS & _). rewrite TS.
      destruct K as [(E1 & E2 & _)|(E1 & o0 & E2 & NB & [(PL' & _)|[(s1 & Eo & Ei' & Er)|(s1 & Eo & Ei' & Er)]])];
        try (rewrite Ei in *; discriminate).
      rewrite <- E2. auto.
  Qed.

  Lemma token_head s : holds_token s th = true -> exists r, t_cur th = IRunClose s :: r.
  Proof.
    unfold holds_token. destruct (t_cur th) as [|[] r]; try discriminate.
    intros E. apply Nat.eqb_eq in E. subst. eauto.
  Qed.

  Lemma token_i s : holds_token s th = true -> i = IRunClose s.
  Proof.
    intros H. apply token_head in H as [r E].
    destruct (view_inv _ _ _ _ _ HV) as [[E1 _]|[E1 _]]; congruence.
  Qed.

  Lemma ok_tok : forall s, in_progress (s_pc (gets sh' s)) = true ->
    exists th0, In th0 (l1 ++ th' :: l2) /\ holds_token s th0 = true.
  Proof.
    intros s IP'. destruct HLI as (_ & _ & _ & TK & _).
    assert (KEEP : in_progress (s_pc (gets sh s)) = true -> i <> IRunClose s ->
                   exists th0, In th0 (l1 ++ th' :: l2) /\ holds_token s th0 = true).
    { intros IP NE. apply (holder_keep (holds_token s) l1 th th' l2); auto.
      intros H. elim NE. apply token_i; auto. }
    assert (MINE : p = [IRunClose s] -> exists th0, In th0 (l1 ++ th' :: l2) /\ holds_token s th0 = true).
    { intros E. exists th'. split. apply in_mid; auto. unfold holds_token. rewrite Hcur, E. simpl.
      apply Nat.eqb_refl. }
    destruct ok_effect as [[C PE]|[(s0 & Ei & V & W & -> & _)|[(s0 & Ei & V & PC & -> & Ep)|(s0 & Ei & IP & CS & Ep)]]].
    - destruct (C s) as (_ & _ & E & _). apply KEEP; [rewrite <- E; auto|].
      intros Ei. pose proof (PE _ Ei) as Ep. clear KEEP MINE.
      pose proof HX as X. rewrite Ei in X. apply exec_runclose in X as [CS Ep'].
      rewrite IP' in Ep'. congruence.
    - rewrite gets_upd_scope in IP'. apply KEEP. destruct (_ && _); auto. rewrite Ei. discriminate.
    - rewrite gets_set_pc in IP'. destruct (Nat.eqb_spec s0 s) as [E0|Ne]; simpl in IP'.
      + apply MINE. rewrite <- E0. auto.
      + apply KEEP; auto. rewrite Ei. discriminate.
    - destruct (Nat.eq_dec s s0) as [->|Ne].
      + apply MINE. rewrite Ep, IP'. auto.
      + destruct (close_eff _ _ _ _ _ _ _ _ CS IP) as (_ & _ & _ & _ & PS & _).
        rewrite PS in IP' by auto. apply KEEP; auto. rewrite Ei. intros E; inversion E; congruence.
  Qed.

  Lemma will_close_th' c :
    will_close c th = true -> (forall s, i = IC0 s -> s <> c) -> will_close c th' = true.
  Proof.
    unfold will_close. rewrite Htodo. intros H NE.
    destruct ok_kind as (_ & _ & [(E1 & E2 & _)|(E1 & o0 & E2 & NB & [(_ & _ & _ & NC & _)|[(s1 & Eo & Ei' & Er)|(s1 & Eo & Ei' & Er)]])]).
    - rewrite <- E2. auto.
    - rewrite E2 in H. simpl in H. rewrite NC in H. auto.
    - rewrite E2, Eo in H. simpl in H. auto.
    - rewrite E2, Eo in H. simpl in H. destruct (Nat.eqb_spec s1 c) as [E0|]; auto.
      elim (NE s1); auto.
  Qed.

  Lemma ok_child : forall c q, s_reg (gets sh' c) = Some q ->
    s_pc (gets sh' c) <> CRet /\ s_pc (gets sh' c) <> CFinished /\
    (s_pc (gets sh' c) = CNone -> exists th0, In th0 (l1 ++ th' :: l2) /\ will_close c th0 = true).
  Proof.
    intros c q R'. destruct HLI as (_ & _ & _ & _ & CH & _).
    assert (KEEP : forall q0, s_reg (gets sh c) = Some q0 -> s_pc (gets sh c) = CNone ->
                   (forall s, i = IC0 s -> s <> c) ->
                   exists th0, In th0 (l1 ++ th' :: l2) /\ will_close c th0 = true).
    { intros q0 R PC NE. destruct (CH c q0 R) as (_ & _ & W).
      apply (holder_keep (will_close c) l1 th th' l2); auto. intros H. apply will_close_th'; auto. }
    destruct ok_effect as [[C PE]|[(s0 & Ei & V & W & -> & _)|[(s0 & Ei & V & PC & -> & Ep)|(s0 & Ei & IP & CS & Ep)]]].
    - destruct (C c) as (_ & _ & E & ER). rewrite E. rewrite ER in R'.
      destruct (CH c q R') as (A & B & _). repeat split; auto. intros PC. apply (KEEP q); auto.
      intros s Ei ->. pose proof HX as X. rewrite Ei in X.
      apply exec_c0 in X as [(V & _)|(V & _ & -> & _)].
      + pose proof (reg_valid _ _ _ R'). congruence.
      + specialize (C c). rewrite gets_set_pc, Nat.eqb_refl, V in C. simpl in C.
        destruct C as (_ & _ & C & _). congruence.
    - rewrite gets_upd_scope in *. assert (R : s_reg (gets sh c) = Some q) by (destruct (_ && _); auto).
      assert (E : forall x, s_pc (if Nat.eqb s0 c && valids sh c then s_add_wg (-1) (-1) x else x) = s_pc x)
        by (intros; destruct (_ && _); auto).
      rewrite E. destruct (CH c q R) as (A & B & _). repeat split; auto. intros PC. apply (KEEP q); auto.
      intros s Ei'. congruence.
    - rewrite gets_set_pc in *. assert (R : s_reg (gets sh c) = Some q) by (destruct (_ && _); auto).
      destruct (CH c q R) as (A & B & _).
      destruct (Nat.eqb_spec s0 c) as [E0|Ne]; simpl.
      + rewrite <- E0, V. simpl. repeat split; discriminate.
      + repeat split; auto. intros PC'. apply (KEEP q); auto. intros s Ei'. congruence.
    - destruct (close_eff _ _ _ _ _ _ _ _ CS IP) as (_ & N0 & NF & NR & PS & _ & _ & RS & _).
      pose proof (RS _ _ R') as R. destruct (CH c q R) as (A & B & _).
      destruct (Nat.eq_dec c s0) as [->|Ne].
      + split. { intros E. rewrite (NR E) in R'. discriminate. }
        split. { intros E. apply A. auto. }
        intros E. elim N0; auto.
      + rewrite PS by auto. repeat split; auto. intros PC. apply (KEEP q); auto. intros s Ei'. congruence.
  Qed.

  Lemma ok_class :
    Forall (fun j => cur_ok j = true) (t_cur th') /\ Forall (fun o => op_noinc o = true) (t_todo th').
  Proof.
    destruct ok_kind as (A & B & _). rewrite Hcur, Htodo. split; auto.
    apply Forall_app. split; auto. eapply exec_push_cur; eauto.
  Qed.

  Lemma ok_ord : ordered_thread sh' th' = true.
  Proof.
    apply (ordered_mono sh); [exact ok_busy|].
    destruct HLI as (_ & _ & _ & _ & _ & OR). specialize (OR th Hth).
    unfold ordered_thread in *. rewrite Hcur, Htodo. apply andb_true_iff in OR as [O1 O2].
    rewrite forallb_forall in O1.
    destruct ok_kind as (_ & _ & [(E1 & E2 & KI & _)|(E1 & o0 & E2 & NB & KI)]).
    - rewrite E2 in *. rewrite O2, andb_true_r. apply forallb_forall. intros j Hj.
      apply in_app_or in Hj as [Hj|Hj].
      + destruct (blk_instr j) as [s|] eqn:Bj; auto.
        destruct (exec_push_blk _ _ _ _ _ _ _ _ _ _ _ HX Hj Bj) as [E|E].
        * destruct KI as [PL|(s1 & E')]; rewrite E in *; discriminate.
        * specialize (O1 i). rewrite E1 in O1. specialize (O1 (or_introl eq_refl)). rewrite E in O1. auto.
      + apply O1. rewrite E1. right; auto.
    - rewrite E2 in O2. simpl in O2. apply andb_true_iff in O2 as [O2 O3]. rewrite O3, andb_true_r.
      apply forallb_forall. intros j Hj. apply in_app_or in Hj as [Hj|Hj].
      + destruct (blk_instr j) as [s|] eqn:Bj; auto.
        destruct (exec_push_blk _ _ _ _ _ _ _ _ _ _ _ HX Hj Bj) as [E|E].
        * destruct KI as [(PL & _)|[(s1 & Eo & Ei' & Er)|(s1 & Eo & Ei' & Er)]]; rewrite E in *; try discriminate.
          inversion Ei'; subst s1. rewrite Eo in O2. auto.
        * destruct KI as [(PL & _)|[(s1 & Eo & Ei' & Er)|(s1 & Eo & Ei' & Er)]]; rewrite E in *; discriminate.
      + rewrite (NB j Hj). auto.
  Qed.

  Lemma LI_ok : LI sh' (l1 ++ th' :: l2).
  Proof.
    pose proof HLI as (W & C & _ & _ & _ & OR).
    split. { eapply exec_wg; eauto. reflexivity. }
    split. { intros th0 Hin. apply in_mid in Hin as [->|Hin]. apply ok_class. apply C. apply in_mid; auto. }
    split. exact ok_tasks. split. exact ok_tok. split. exact ok_child.
    intros th0 Hin. apply in_mid in Hin as [->|Hin]. apply ok_ord.
    apply (ordered_mono sh); [exact ok_busy|]. apply OR. apply in_mid; auto.
  Qed.
End Step.

(** ... also when the micro-step panics (only by-design panics are possible: no task counter goes
    negative under the invariant) *)
Section Panic.
  Variables (b : bool) (sh : shared) (l1 l2 : list thread) (th th' : thread).
  Variables (i : instr) (rest : list instr) (todo : list op) (k : pkind).
  Hypothesis HLI : LI sh (l1 ++ th :: l2).
  Hypothesis HV : view sh th = Some (i, rest, todo).
  Hypothesis HX : exec cfg_current b i sh = XPanic k.
  Hypothesis Hcur : t_cur th' = [].
  Hypothesis Htodo : t_todo th' = todo.

  Let Hth : In th (l1 ++ th :: l2).
  Proof. apply in_mid. auto. Qed.

  Lemma pn_kind :
    Forall (fun o => op_noinc o = true) todo /\
    ((t_cur th = i :: rest /\ t_todo th = todo /\ (plain i = true \/ exists s, i = IRunClose s)) \/
     (t_cur th = [] /\ exists o, t_todo th = o :: todo /\
        (((forall s, i <> IRunClose s) /\ (forall s, is_done s o = false) /\ (forall s, is_close s o = false)) \/
         (exists s, o = ODoneTask s /\ i = IDoneTask s) \/
         (exists s, o = OClose s /\ i = IC0 s)))).
  Proof.
    destruct HLI as (_ & C & _). destruct (C th Hth) as [A B].
    destruct (step_kind _ _ _ _ _ A B HV) as (_ & T & [(E1 & E2 & K & _)|(E1 & o0 & E2 & _ & K)]).
    - split; auto.
    - split; auto. right. split; auto. exists o0. split; auto.
      destruct K as [(PL & _ & D & CL & _)|[(s & Eo & Ei & _)|(s & Eo & Ei & _)]]; eauto 6.
      left. repeat split; auto. intros s ->. discriminate.
  Qed.

  Lemma pn_tasks_nonneg : forall s, (0 <= s_tasks (gets sh s))%Z.
  Proof. destruct HLI as (_ & _ & T & _). intros s. rewrite T. lia. Qed.

  Lemma pn_not_runclose s : i <> IRunClose s.
  Proof.
    intros ->. apply exec_runclose_panic in HX as (q & R & V & W).
    destruct HLI as (WG & _). pose proof (reg_wg_pos _ _ _ WG pn_tasks_nonneg R). lia.
  Qed.

  Lemma pn_not_done s : i = IDoneTask s -> In (ODoneTask s) (t_todo th) -> False.
  Proof.
    intros Ei Hin. pose proof HX as X. rewrite Ei in X. apply exec_done_panic in X as [V W].
    destruct HLI as (WG & _ & T & _). specialize (T s).
    assert (Hd : 0 < total_done s (l1 ++ th :: l2)).
    { rewrite total_done_mid. unfold done_count.
      assert (In (ODoneTask s) (filter (is_done s) (t_todo th))).
      { apply filter_In. split; auto. simpl. apply Nat.eqb_refl. }
      destruct (filter (is_done s) (t_todo th)); simpl in *; [tauto|lia]. }
    unfold valids in V. destruct (WG s) as [E _]; [lia|]. unfold gets in *. lia.
  Qed.

  Lemma LI_panic : LI sh (l1 ++ th' :: l2).
  Proof.
    pose proof HLI as (W & C & T & TK & CH & OR). destruct pn_kind as (NT & K).
    split; auto.
    split. { intros th0 Hin. apply in_mid in Hin as [->|Hin]. rewrite Hcur, Htodo. split; auto. apply C. apply in_mid; auto. }
    split.
    { intros s. rewrite (T s), !total_done_mid, Htodo.
      destruct K as [(E1 & E2 & _)|(E1 & o0 & E2 & [(_ & D & _)|[(s0 & Eo & Ei)|(s0 & Eo & Ei)]])].
      - rewrite E2. auto.
      - rewrite E2, done_count_cons, D. auto.
      - exfalso. apply (pn_not_done s0); auto. rewrite E2, Eo. left; auto.
      - rewrite E2, Eo, done_count_cons. simpl. auto. }
    split.
    { intros s IP. apply (holder_keep (holds_token s) l1 th th' l2); auto.
      unfold holds_token at 1. intros H. exfalso.
      destruct (t_cur th) as [|[] r] eqn:E; try discriminate. apply Nat.eqb_eq in H. rewrite H in E.
      destruct (view_inv _ _ _ _ _ HV) as [[E1 _]|[E1 _]]; [|congruence].
      apply (pn_not_runclose s). congruence. }
    split.
    { intros c q R. destruct (CH c q R) as (A & B & WC). repeat split; auto. intros PC.
      apply (holder_keep (will_close c) l1 th th' l2); auto. unfold will_close. rewrite Htodo.
      destruct K as [(E1 & E2 & _)|(E1 & o0 & E2 & [(_ & _ & D)|[(s0 & Eo & Ei)|(s0 & Eo & Ei)]])].
      - rewrite E2. auto.
      - rewrite E2. simpl. rewrite D. auto.
      - rewrite E2, Eo. simpl. auto.
      - rewrite E2, Eo. simpl. destruct (Nat.eqb_spec s0 c) as [E0|]; auto.
        exfalso. pose proof HX as X. rewrite Ei in X. apply exec_c0_panic in X. congruence. }
    intros th0 Hin. apply in_mid in Hin as [->|Hin]; [|apply OR; apply in_mid; auto].
    specialize (OR th Hth). unfold ordered_thread in *. rewrite Hcur, Htodo. simpl.
    apply andb_true_iff in OR as [_ O2].
    destruct K as [(E1 & E2 & _)|(E1 & o0 & E2 & _)].
    - rewrite <- E2. auto.
    - rewrite E2 in O2. simpl in O2. apply andb_true_iff in O2 as [_ O3]. auto.
  Qed.
End Panic.

(** * States: the invariant and the measure along a step of a program thread *)
Definition LInv (k : nat) (st : state) : Prop := k <= length (ths st) /\ LI (sh st) (pthreads k st).

Lemma pstep_split {A} k n (l : list A) x extra :
  n < k -> k <= length l -> nth_error l n = Some x ->
  exists l1 l2, firstn k l = l1 ++ x :: l2 /\
                forall y, firstn k (upd n (fun _ => y) l ++ extra) = l1 ++ y :: l2.
Proof.
  intros Hn Hk E.
  assert (E' : nth_error (firstn k l) n = Some x) by (rewrite nth_error_firstn_lt; auto).
  destruct (upd_split' n (firstn k l) x E') as (l1 & l2 & E1 & E2).
  exists l1, l2. split; auto. intros y.
  rewrite firstn_app_le by (rewrite upd_length; auto). rewrite firstn_upd. apply E2.
Qed.

Lemma thw_view sh th i rest todo :
  view sh th = Some (i, rest, todo) -> wi i + wsum rest + osum todo <= thw th.
Proof.
  intros V. apply view_inv in V as [[E1 E2]|[E1 (o & E2 & E3)]]; unfold thw; rewrite E1, E2.
  - unfold wsum. simpl. lia.
  - destruct (expand_weight sh o) as [W _]. rewrite E3 in W. unfold wsum, osum in *. simpl in *. lia.
Qed.

Lemma linv_step k st n b st' :
  LInv k st -> n < k -> step cfg_current (n, b) st = Some st' -> LInv k st' /\ mu k st' < mu k st.
Proof.
  intros [Hk HL] Hn H.
  apply step_inv in H as (th & i & rest & todo & En & V & [(kk & X & ->)|(sh1 & p & o & a & sp & X & ->)]).
  - destruct (pstep_split k n (ths st) th [] Hn Hk En) as (l1 & l2 & E1 & E2).
    unfold LInv, mu, pthreads in *. simpl. specialize (E2 {| t_cur := []; t_todo := todo; t_out := t_out th ++ [OPanic kk]; t_acks := t_acks th |}).
    rewrite app_nil_r in E2. rewrite E2, E1 in *. split.
    + split. rewrite upd_length; auto. eapply LI_panic; eauto.
    + rewrite !list_sum_mid. pose proof (thw_view _ _ _ _ _ V). pose proof (wi_pos i).
      unfold thw at 2. cbn [t_cur t_todo]. change (wsum []) with 0. lia.
  - destruct (pstep_split k n (ths st) th (map spawned sp) Hn Hk En) as (l1 & l2 & E1 & E2).
    unfold LInv, mu, pthreads in *. simpl. rewrite E2, E1 in *. split.
    + split. rewrite app_length, upd_length; lia. eapply LI_ok; eauto.
    + rewrite !list_sum_mid. pose proof (thw_view _ _ _ _ _ V). pose proof (exec_measure _ _ _ _ _ _ _ _ _ X).
      unfold thw at 2. cbn [t_cur t_todo]. rewrite wsum_app. lia.
Qed.

(** * Progress: some program thread can move unless all of them have finished *)
Definition can_step (sh : shared) (th : thread) : Prop :=
  exists i rest todo, view sh th = Some (i, rest, todo) /\ exec cfg_current true i sh <> XBlocked.
Definition blocked_on (sh : shared) (th : thread) (s : nat) : Prop :=
  exists i rest todo, view sh th = Some (i, rest, todo) /\ exec cfg_current true i sh = XBlocked /\
                      blk_instr i = Some s.

Lemma view_some sh th : finished th = false -> exists i rest todo, view sh th = Some (i, rest, todo).
Proof.
  unfold finished, view. destruct (t_cur th) as [|j r]; simpl; eauto.
  destruct (t_todo th) as [|o os]; simpl; [discriminate|]. intros _. destruct (expand sh o); eauto.
Qed.

Lemma no_obl o : (forall s, is_done s o = false) -> (forall s, is_close s o = false) -> obl_op o = None.
Proof.
  intros D C. destruct o; simpl; auto.
  - specialize (D s). simpl in D. rewrite Nat.eqb_refl in D. discriminate.
  - specialize (C s). simpl in C. rewrite Nat.eqb_refl in C. discriminate.
Qed.

Lemma busy_valid sh s : busy sh s = true -> valids sh s = true.
Proof.
  unfold busy, valids, gets. intros H. destruct (Nat.ltb_spec s (length (scopes sh))); auto.
  rewrite nth_overflow in H by lia. discriminate.
Qed.

Lemma blocked_head sh P th i rest todo :
  LI sh P -> In th P -> view sh th = Some (i, rest, todo) -> exec cfg_current true i sh = XBlocked ->
  exists s, blk_instr i = Some s /\ busy sh s = true /\ forall o, In o (t_todo th) -> below s o = true.
Proof.
  intros (_ & C & _ & _ & _ & OR) Hin V X. destruct (C th Hin) as [A B]. specialize (OR th Hin).
  unfold ordered_thread in OR. apply andb_true_iff in OR as [O1 O2]. rewrite forallb_forall in O1.
  destruct (step_kind _ _ _ _ _ A B V) as (_ & _ & K).
  apply blocked_only in X as [(s & Ei & _ & W)|[(s & Ei & W)|(c & q & Ei & _)]].
  3: { exfalso. destruct K as [(_ & _ & _ & NW)|(_ & o0 & _ & _ & [(_ & NW & _)|[(s & _ & E & _)|(s & _ & E & _)]])];
         try congruence; eapply NW; eauto. }
  all: exists s; rewrite Ei; split; auto.
  all: assert (Bs : busy sh s = true) by (unfold busy; destruct (Z.eqb_spec (s_wg (gets sh s)) 0); auto; congruence).
  all: split; auto.
  all: destruct K as [(E1 & E2 & _)|(E1 & o0 & E2 & _ & [(_ & _ & D & CL & BO)|[(s1 & _ & E & _)|(s1 & _ & E & _)]])];
    try congruence.
  all: try (specialize (O1 i); rewrite E1 in O1; specialize (O1 (or_introl eq_refl)); rewrite Ei in O1;
            simpl in O1; rewrite Bs in O1; rewrite forallb_forall in O1; exact O1).
  all: rewrite E2 in *; simpl in O2; apply andb_true_iff in O2 as [O2 _].
  all: rewrite Ei in BO; rewrite (BO s eq_refl) in O2; simpl in O2; rewrite Bs in O2; rewrite forallb_forall in O2.
  all: intros o [<-|Ho]; auto; unfold below; rewrite (no_obl _ D CL); auto.
Qed.

Lemma oc_pos l p : 0 < open_children l p -> exists c, c < length l /\ s_reg (nth c l dscope) = Some p.
Proof.
  unfold open_children. intros H.
  destruct (filter (reg_on p) l) as [|x r] eqn:F; simpl in H; [lia|].
  assert (Hx : In x (filter (reg_on p) l)) by (rewrite F; left; auto).
  apply filter_In in Hx as [Hx R]. apply (In_nth _ _ dscope) in Hx as (c & Hc & <-).
  exists c. split; auto. unfold reg_on in R. destruct (s_reg (nth c l dscope)); [|discriminate].
  apply Nat.eqb_eq in R. congruence.
Qed.

Lemma will_close_in c th : will_close c th = true -> In (OClose c) (t_todo th).
Proof.
  unfold will_close. intros H. apply existsb_exists in H as (o & Ho & E).
  destruct o; simpl in E; try discriminate. apply Nat.eqb_eq in E. subst. auto.
Qed.

Lemma find_enabled sh P : LI sh P ->
  forall d th s, In th P -> blocked_on sh th s -> length (scopes sh) - s <= d ->
  exists th', In th' P /\ can_step sh th'.
Proof.
  intros HL. pose proof HL as (WG & _ & T & TK & CH & _).
  induction d as [|d IH]; intros th s Hin (i & rest & todo & V & X & Bi) Hd.
  - exfalso. destruct (blocked_head _ _ _ _ _ _ HL Hin V X) as (s' & Bi' & Bs & _).
    assert (s' = s) by congruence. subst s'. apply busy_valid in Bs. unfold valids in Bs. lia.
  - destruct (blocked_head _ _ _ _ _ _ HL Hin V X) as (s' & Bi' & Bs & _).
    assert (s' = s) by congruence. subst s'. pose proof (busy_valid _ _ Bs) as Vs. unfold valids in Vs.
    assert (Hs : s < length (scopes sh)) by lia.
    (* a thread that owes something to s: if it cannot move it waits for a larger scope *)
    assert (NEXT : forall th1 o1 a, In th1 P -> In o1 (t_todo th1) -> obl_op o1 = Some a -> s <= a ->
                   exists th', In th' P /\ can_step sh th').
    { intros th1 o1 a Hin1 Ho1 Ob Le.
      destruct (view_some sh th1) as (i1 & r1 & t1 & V1).
      { unfold finished. destruct (t_todo th1); [elim Ho1|]. now rewrite andb_false_r. }
      destruct (exec cfg_current true i1 sh) eqn:X1.
      2,3: exists th1; split; auto; exists i1, r1, t1; split; auto; rewrite X1; discriminate.
      destruct (blocked_head _ _ _ _ _ _ HL Hin1 V1 X1) as (s1 & B1 & Bs1 & BL).
      specialize (BL o1 Ho1). unfold below in BL. rewrite Ob in BL. apply Nat.ltb_lt in BL.
      pose proof (busy_valid _ _ Bs1) as V1'. unfold valids in V1'.
      apply (IH th1 s1); auto. exists i1, r1, t1. auto. lia. }
    destruct (WG s Hs) as [E _]. fold (gets sh s) in E. rewrite (T s) in E.
    assert (W : s_wg (gets sh s) <> 0%Z) by (unfold busy in Bs; destruct (Z.eqb_spec (s_wg (gets sh s)) 0); auto; discriminate).
    destruct (total_done s P) eqn:TD.
    + assert (OC : 0 < open_children (scopes sh) s) by lia.
      apply oc_pos in OC as (c & Hc & R). fold (gets sh c) in R.
      destruct (WG c Hc) as [_ LT]. specialize (LT s R).
      destruct (CH c s R) as (A & B & WC).
      destruct (s_pc (gets sh c)) eqn:PC; try congruence.
      1: { destruct (WC eq_refl) as (th1 & Hin1 & W1). apply will_close_in in W1.
           apply (NEXT th1 (OClose c) c); auto. lia. }
      all: destruct (TK c) as (th1 & Hin1 & H1); [rewrite PC; reflexivity|].
      all: unfold holds_token in H1; destruct (t_cur th1) as [|[] r1] eqn:E1; try discriminate.
      all: apply Nat.eqb_eq in H1; subst s0.
      all: assert (V1 : view sh th1 = Some (IRunClose c, r1, t_todo th1)) by (unfold view; rewrite E1; auto).
      all: destruct (exec cfg_current true (IRunClose c) sh) eqn:X1.
      all: try (exists th1; split; auto; exists (IRunClose c), r1, (t_todo th1); split; auto; rewrite X1; discriminate).
      all: apply (IH th1 c); auto; [exists (IRunClose c), r1, (t_todo th1); auto|lia].
    + destruct (total_done_pos s P) as (th1 & Hin1 & Ho1); [lia|].
      apply (NEXT th1 (ODoneTask s) s); auto.
Qed.

Lemma can_step_step st n th :
  nth_error (ths st) n = Some th -> can_step (sh st) th -> exists st', step cfg_current (n, true) st = Some st'.
Proof.
  intros E (i & rest & todo & V & X). unfold step. rewrite E, V.
  destruct (exec cfg_current true i (sh st)); eauto. now elim X.
Qed.

Lemma progress k st :
  LInv k st -> forallb finished (pthreads k st) = false ->
  exists n st', n < k /\ step cfg_current (n, true) st = Some st'.
Proof.
  intros [Hk HL] NF.
  assert (EX : exists th, In th (pthreads k st) /\ can_step (sh st) th).
  { assert (U : exists th, In th (pthreads k st) /\ finished th = false).
    { clear HL. induction (pthreads k st) as [|x l IH]; simpl in NF; [discriminate|].
      destruct (finished x) eqn:F; simpl in NF.
      - destruct (IH NF) as (th & A & B). exists th. split; auto. right; auto.
      - exists x. split; auto. left; auto. }
    destruct U as (th & Hin & F). destruct (view_some (sh st) th F) as (i & rest & todo & V).
    destruct (exec cfg_current true i (sh st)) eqn:X.
    2,3: exists th; split; auto; exists i, rest, todo; split; auto; rewrite X; discriminate.
    destruct (blocked_head _ _ _ _ _ _ HL Hin V X) as (s & Bi & _).
    apply (find_enabled _ _ HL (length (scopes (sh st))) th s); auto. exists i, rest, todo. auto. lia. }
  destruct EX as (th & Hin & CS). apply In_nth_error in Hin as [n En].
  assert (Hn : n < k).
  { assert (n < length (pthreads k st)) by (apply nth_error_Some; congruence).
    unfold pthreads in *. rewrite firstn_length in *. lia. }
  unfold pthreads in En. rewrite nth_error_firstn_lt in En by auto.
  destruct (can_step_step st n th En CS) as [st' S]. eauto.
Qed.

(** * The continuation: run program threads until all of them have finished *)
Lemma drain k (J : state -> Prop) :
  (forall n b st st', n < k -> LInv k st -> J st -> step cfg_current (n, b) st = Some st' -> J st') ->
  forall m st, mu k st < m -> LInv k st -> J st ->
  exists sched, let st' := run cfg_current sched st in
    LInv k st' /\ J st' /\ forallb finished (pthreads k st') = true.
Proof.
  intros HJ. induction m as [|m IH]; intros st Hm HL Hj; [lia|].
  destruct (forallb finished (pthreads k st)) eqn:F.
  - exists []. simpl. auto.
  - destruct (progress k st HL F) as (n & st1 & Hn & Hs).
    destruct (linv_step k st n true st1 HL Hn Hs) as [HL1 M1].
    assert (J1 : J st1) by (apply (HJ n true st st1 Hn HL Hj Hs)).
    assert (M : mu k st1 < m) by lia.
    destruct (IH st1 M HL1 J1) as (sched & R).
    exists ((n, true) :: sched).
    change (run cfg_current ((n, true) :: sched) st)
      with (run cfg_current sched (step_or_skip cfg_current st (n, true))).
    unfold step_or_skip. rewrite Hs. exact R.
Qed.

Lemma finished_idle k st :
  LInv k st -> forallb finished (pthreads k st) = true ->
  forall s, in_progress (s_pc (gets (sh st) s)) = false.
Proof.
  intros [_ (_ & _ & _ & TK & _)] F s. destruct (in_progress (s_pc (gets (sh st) s))) eqn:IP; auto.
  destruct (TK s IP) as (th & Hin & H). rewrite forallb_forall in F. specialize (F th Hin).
  unfold finished, holds_token in *. destruct (t_cur th); simpl in *; discriminate.
Qed.

(** * The executable premise implies the invariant *)
Lemma total_done_zero s P :
  (forall th, In th P -> ~ In (ODoneTask s) (t_todo th)) -> total_done s P = 0.
Proof.
  intros H. destruct (total_done s P) eqn:E; auto.
  destruct (total_done_pos s P) as (th & A & B); [lia|]. elim (H th A B).
Qed.

Lemma live_ok_sound k st :
  live_ok k st = true -> wgI (sh st) ->
  (forall th, In th (pthreads k st) -> Forall (fun i => cur_ok i = true) (t_cur th)) ->
  LI (sh st) (pthreads k st).
Proof.
  unfold live_ok. set (P := pthreads k st). rewrite !andb_true_iff. intros [[[A B] C] D] W CU.
  rewrite forallb_forall in A, C, D. unfold tasks_ok in B. apply andb_true_iff in B as [B1 B2].
  rewrite forallb_forall in B1, B2.
  split; auto. split.
  { intros th Hin. split; auto. specialize (A th Hin). rewrite forallb_forall in A.
    apply Forall_forall. auto. }
  split.
  { intros s. destruct (Nat.lt_ge_cases s (length (scopes (sh st)))) as [Hs|Hs].
    - specialize (B1 s). rewrite in_seq in B1. apply Z.eqb_eq. apply B1. lia.
    - unfold gets. rewrite nth_overflow by lia. simpl. rewrite total_done_zero; auto.
      intros th Hin Ho. specialize (B2 th Hin). rewrite forallb_forall in B2. specialize (B2 _ Ho).
      simpl in B2. unfold valids in B2. lia. }
  assert (SC : forall s, s < length (scopes (sh st)) -> scope_ok (sh st) P s = true).
  { intros s Hs. apply C. apply in_seq. lia. }
  split.
  { intros s IP. assert (Hs : s < length (scopes (sh st))).
    { pose proof (pc_valid (sh st) s (in_progress_not_none _ IP)) as V. unfold valids in V. lia. }
    specialize (SC s Hs). unfold scope_ok in SC. apply andb_true_iff in SC as [S1 _]. rewrite IP in S1.
    apply existsb_exists in S1. exact S1. }
  split.
  { intros c q R. assert (Hc : c < length (scopes (sh st))).
    { pose proof (reg_valid _ _ _ R) as V. unfold valids in V. lia. }
    specialize (SC c Hc). unfold scope_ok in SC. apply andb_true_iff in SC as [_ S2]. rewrite R in S2.
    destruct (s_pc (gets (sh st) c)); try discriminate; repeat split; try discriminate.
    intros _. apply existsb_exists in S2. exact S2. }
  intros th Hin. apply D; auto.
Qed.

(** * Reachable states: the program threads only hold continuation micro-steps *)
Definition curI (k : nat) (st : state) : Prop :=
  k <= length (ths st) /\
  forall th, In th (pthreads k st) -> Forall (fun i => cur_ok i = true) (t_cur th).

Lemma curI_step k t st st' : curI k st -> step cfg_current t st = Some st' -> curI k st'.
Proof.
  destruct t as [n b]. intros [Hk C] H.
  apply step_inv in H as (th & i & rest & todo & En & V & H).
  destruct (Nat.lt_ge_cases n k) as [Hn|Hn].
  - assert (Hth : In th (pthreads k st)).
    { unfold pthreads. eapply nth_error_In. rewrite nth_error_firstn_lt; eauto. }
    assert (R : Forall (fun j => cur_ok j = true) rest).
    { apply view_inv in V as [[E1 E2]|[E1 (o & E2 & E3)]].
      - specialize (C th Hth). rewrite E1 in C. inversion C; auto.
      - pose proof (expand_rest (sh st) o) as X. rewrite E3 in X. simpl in X.
        eapply Forall_impl; [|exact X]. simpl. tauto. }
    destruct H as [(kk & X & ->)|(sh1 & p & o & a & sp & X & ->)].
    + destruct (pstep_split k n (ths st) th [] Hn Hk En) as (l1 & l2 & E1 & E2).
      unfold curI, pthreads in *. simpl. split. rewrite upd_length; auto.
      specialize (E2 {| t_cur := []; t_todo := todo; t_out := t_out th ++ [OPanic kk]; t_acks := t_acks th |}).
      rewrite app_nil_r in E2. rewrite E2. rewrite E1 in C. intros th0 Hin.
      apply in_mid in Hin as [->|Hin]. simpl; auto. apply C. apply in_mid; auto.
    + destruct (pstep_split k n (ths st) th (map spawned sp) Hn Hk En) as (l1 & l2 & E1 & E2).
      unfold curI, pthreads in *. simpl. split. rewrite app_length, upd_length; lia.
      rewrite E2. rewrite E1 in C. intros th0 Hin.
      apply in_mid in Hin as [->|Hin]. simpl. apply Forall_app. split; auto. eapply exec_push_cur; eauto.
      apply C. apply in_mid; auto.
  - assert (E : forall f extra, firstn k (upd n f (ths st) ++ extra) = firstn k (ths st)).
    { intros f extra. rewrite firstn_app_le by (rewrite upd_length; auto). rewrite firstn_upd.
      apply upd_oob. rewrite firstn_length. lia. }
    destruct H as [(kk & X & ->)|(sh1 & p & o & a & sp & X & ->)]; unfold curI, pthreads in *; simpl.
    + split. rewrite upd_length; auto. specialize (E (fun _ => {| t_cur := []; t_todo := todo; t_out := t_out th ++ [OPanic kk]; t_acks := t_acks th |}) []).
      rewrite app_nil_r in E. rewrite E. auto.
    + split. rewrite app_length, upd_length; lia. rewrite E. auto.
Qed.

Lemma curI_reach progs sched : curI (length progs) (run cfg_current sched (init progs)).
Proof.
  apply (run_inv cfg_current (curI (length progs))).
  - intros t st st'. apply curI_step.
  - split; simpl. rewrite map_length; auto.
    intros th Hin. unfold pthreads in Hin. simpl in Hin. apply in_firstn in Hin.
    apply in_map_iff in Hin as (ops & <- & _). simpl. auto.
Qed.

(** * What the continuation keeps: started Closes stay started, scopes stay, announced Closes are issued *)
Lemma close_step_len cf sh s sh' p o a sp :
  close_step cf sh s = XOk sh' p o a sp -> length (scopes sh') = length (scopes sh).
Proof.
  intros H. destruct (in_progress (s_pc (gets sh s))) eqn:IP.
  - destruct (close_step_shape _ _ _ _ _ _ _ _ H IP) as (p' & _ & _ & _ & [[E _]|[(b & E & _)|(q & _ & _ & _ & E)]]);
      rewrite E, !upd_length; auto.
  - apply close_step_idle in H; auto. now subst.
Qed.

Lemma exec_scopes_len cf b i sh sh' p o a sp :
  exec cf b i sh = XOk sh' p o a sp -> length (scopes sh) <= length (scopes sh').
Proof.
  intros H. destruct i; unfold exec, xok, xpush in H;
    try (destruct (close_step cf sh s) eqn:CS; try discriminate; inv_x;
         apply close_step_len in CS; lia);
    try des_trig; repeat des_if; try inv_x; unfold set_pc; simpl;
    rewrite ?H1, ?app_length, ?upd_length; simpl; try lia.
  all: destruct (c_iso (getc sh c)); repeat des_if; inv_x; lia.
Qed.

Lemma nth_app_cnone (l : list cpc) s : nth s (l ++ [CNone]) CNone = nth s l CNone.
Proof.
  destruct (Nat.lt_ge_cases s (length l)).
  - rewrite app_nth1; auto.
  - rewrite (nth_overflow l) by lia. destruct (Nat.eq_dec s (length l)) as [->|].
    + apply nth_middle.
    + apply nth_overflow. rewrite app_length; simpl; lia.
Qed.

Lemma exec_pc_change cf b i sh sh' p o a sp s :
  exec cf b i sh = XOk sh' p o a sp -> s_pc (gets sh' s) <> s_pc (gets sh s) ->
  (i = IC0 s /\ s_pc (gets sh s) = CNone) \/ (i = IRunClose s /\ in_progress (s_pc (gets sh s)) = true).
Proof.
  intros H N. destruct (plain i) eqn:PL.
  - exfalso. apply N. apply (exec_plain _ _ _ _ _ _ _ _ _ H PL).
  - destruct i; try discriminate PL.
    + exfalso. apply N. unfold exec, xok in H. repeat des_if; inv_x; auto.
      rewrite gets_upd_scope. destruct (_ && _); auto.
    + exfalso. apply N. apply exec_done in H as [_ [[_ ->]|(_ & _ & ->)]]; auto.
      rewrite gets_upd_scope. destruct (_ && _); auto.
    + exfalso. apply N. rewrite !pc_gets. unfold exec, xok in H. repeat des_if; inv_x; auto;
        unfold pcs; simpl; rewrite ?map_app, ?map_pc_upd by reflexivity; simpl; apply nth_app_cnone.
    + apply exec_c0 in H as [(_ & -> & _)|(V & PC & -> & _)]; [now elim N|].
      unfold set_pc in N. rewrite gets_upd_scope in N. destruct (Nat.eqb_spec s0 s) as [->|]; simpl in N; auto.
      now elim N.
    + apply exec_runclose in H as [CS _]. destruct (in_progress (s_pc (gets sh s0))) eqn:IP.
      * destruct (close_eff _ _ _ _ _ _ _ _ CS IP) as (_ & _ & _ & _ & PS & _).
        destruct (Nat.eq_dec s s0) as [->|Ne]; auto. elim N; auto.
      * apply close_step_idle in CS; auto. subst. now elim N.
Qed.

Lemma cpc_eq_dec (x y : cpc) : {x = y} + {x <> y}.
Proof. decide equality; try apply N.eq_dec; decide equality. Qed.

Lemma exec_closing cf b i sh sh' p o a sp s :
  exec cf b i sh = XOk sh' p o a sp -> s_pc (gets sh s) <> CNone -> s_pc (gets sh' s) <> CNone.
Proof.
  intros H N. destruct (cpc_eq_dec (s_pc (gets sh' s)) (s_pc (gets sh s))) as [E|E]; [congruence|].
  destruct (exec_pc_change _ _ _ _ _ _ _ _ _ _ H E) as [[_ PC]|[Ei IP]]; [congruence|].
  subst i. apply exec_runclose in H as [CS _]. apply (close_eff _ _ _ _ _ _ _ _ CS IP).
Qed.

Definition keeps (k : nat) (st0 st : state) : Prop :=
  (forall s, s_pc (gets (sh st0) s) <> CNone -> s_pc (gets (sh st) s) <> CNone) /\
  (forall s, valids (sh st0) s = true -> valids (sh st) s = true) /\
  (forall s, valids (sh st0) s = true ->
     (exists th0, In th0 (pthreads k st0) /\ will_close s th0 = true) ->
     s_pc (gets (sh st) s) <> CNone \/ exists th, In th (pthreads k st) /\ will_close s th = true).

Lemma keeps_refl k st : keeps k st st.
Proof. repeat split; auto. Qed.

Lemma keeps_step k st0 n b st st' :
  n < k -> k <= length (ths st) -> keeps k st0 st -> step cfg_current (n, b) st = Some st' -> keeps k st0 st'.
Proof.
  intros Hn Hk (K1 & K2 & K3) H.
  apply step_inv in H as (th & i & rest & todo & En & V & H).
  assert (WC : forall s th', t_todo th' = todo -> will_close s th = true ->
               will_close s th' = true \/ i = IC0 s).
  { intros s th' Et W. unfold will_close in *. rewrite Et.
    apply view_inv in V as [[E1 E2]|[E1 (o & E2 & E3)]].
    - rewrite <- E2. auto.
    - rewrite E2 in W. simpl in W. apply orb_true_iff in W as [W|W]; auto.
      destruct o; simpl in W; try discriminate. apply Nat.eqb_eq in W. subst.
      simpl in E3. inversion E3. auto. }
  destruct H as [(kk & X & ->)|(sh1 & p & o & a & sp & X & ->)].
  - destruct (pstep_split k n (ths st) th [] Hn Hk En) as (l1 & l2 & E1 & E2).
    specialize (E2 {| t_cur := []; t_todo := todo; t_out := t_out th ++ [OPanic kk]; t_acks := t_acks th |}).
    rewrite app_nil_r in E2.
    unfold keeps, pthreads in *. simpl. repeat split; auto.
    intros s Vs Ex. destruct (K3 s Vs Ex) as [L|(thA & Hin & W)]; auto.
    rewrite E2. rewrite E1 in Hin. apply in_mid in Hin as [->|Hin].
    + destruct (WC s {| t_cur := []; t_todo := todo; t_out := t_out th ++ [OPanic kk]; t_acks := t_acks th |} eq_refl W) as [W'|Ei].
      * right. eexists. split; [apply in_mid; left; reflexivity|]. auto.
      * left. subst i. eapply exec_c0_panic; eauto.
    + right. exists thA. split; auto. apply in_mid; auto.
  - destruct (pstep_split k n (ths st) th (map spawned sp) Hn Hk En) as (l1 & l2 & E1 & E2).
    unfold keeps, pthreads in *. simpl. split; [|split].
    + intros s N. eapply exec_closing; eauto.
    + intros s Vs. specialize (K2 s Vs). pose proof (exec_scopes_len _ _ _ _ _ _ _ _ _ X). unfold valids in *. lia.
    + intros s Vs Ex. destruct (K3 s Vs Ex) as [L|(thA & Hin & W)].
      * left. eapply exec_closing; eauto.
      * rewrite E2. rewrite E1 in Hin. apply in_mid in Hin as [->|Hin].
        -- destruct (WC s {| t_cur := p ++ rest; t_todo := todo; t_out := t_out th ++ o; t_acks := t_acks th ++ a |} eq_refl W) as [W'|Ei].
           ++ right. eexists. split; [apply in_mid; left; reflexivity|]. auto.
           ++ left. subst i. apply exec_c0 in X as [(V0 & _)|(_ & _ & -> & _)].
              ** rewrite (K2 s Vs) in V0. discriminate.
              ** unfold set_pc. rewrite gets_upd_scope, Nat.eqb_refl, (K2 s Vs). simpl. discriminate.
        -- right. exists thA. split; auto. apply in_mid; auto.
Qed.

(** * Every finished Close has returned to its caller (all reachable states) *)
Definition is_closed_obs (s : nat) (o : obs) : bool :=
  match o with OClosed s' _ => Nat.eqb s' s | _ => false end.
Definition retI (st : state) : Prop :=
  forall s, s_pc (gets (sh st) s) = CFinished -> returned s st = true.

Lemma returned_iff s st :
  returned s st = true <-> exists th, In th (ths st) /\ existsb (is_closed_obs s) (t_out th) = true.
Proof. unfold returned. rewrite existsb_exists. reflexivity. Qed.

Lemma retI_step t st st' : retI st -> step cfg_current t st = Some st' -> retI st'.
Proof.
  destruct t as [n b]. intros R H s F.
  apply step_inv in H as (th & i & rest & todo & En & V & H).
  destruct (upd_split' n (ths st) th En) as (l1 & l2 & E1 & E2).
  assert (OLD : s_pc (gets (sh st) s) = CFinished -> forall th' extra,
          (existsb (is_closed_obs s) (t_out th) = true -> existsb (is_closed_obs s) (t_out th') = true) ->
          exists th0, In th0 ((l1 ++ th' :: l2) ++ extra) /\ existsb (is_closed_obs s) (t_out th0) = true).
  { intros F0 th' extra M. apply R in F0. apply returned_iff in F0 as (th0 & Hin & Ex).
    rewrite E1 in Hin. apply in_mid in Hin as [->|Hin].
    - exists th'. split. apply in_or_app. left. apply in_mid; auto. apply M; auto.
    - exists th0. split; auto. apply in_or_app. left. apply in_mid; auto. }
  apply returned_iff.
  destruct H as [(kk & X & ->)|(sh1 & p & o & a & sp & X & ->)]; simpl in *; rewrite E2.
  - destruct (OLD F {| t_cur := []; t_todo := todo; t_out := t_out th ++ [OPanic kk]; t_acks := t_acks th |} []) as (th0 & Hin & Ex).
    + simpl. intros Ex. rewrite existsb_app, Ex. auto.
    + rewrite app_nil_r in Hin. eauto.
  - destruct (cpc_eq_dec (s_pc (gets sh1 s)) (s_pc (gets (sh st) s))) as [E|E].
    + rewrite E in F.
      destruct (OLD F {| t_cur := p ++ rest; t_todo := todo; t_out := t_out th ++ o; t_acks := t_acks th ++ a |} (map spawned sp)) as (th0 & Hin & Ex); eauto.
      simpl. intros Ex. rewrite existsb_app, Ex. auto.
    + destruct (exec_pc_change _ _ _ _ _ _ _ _ _ _ X E) as [[Ei PC]|[Ei IP]].
      * subst i. apply exec_c0 in X as [(_ & -> & _)|(Vs & _ & -> & _)]; [now elim E|].
        unfold set_pc in F. rewrite gets_upd_scope, Nat.eqb_refl, Vs in F. discriminate.
      * subst i. apply exec_runclose in X as [CS _].
        destruct (close_eff _ _ _ _ _ _ _ _ CS IP) as (_ & _ & NF & _). specialize (NF F).
        rewrite (close_result cfg_current (sh st) s NF) in CS. inversion CS; subst.
        eexists. split. apply in_or_app. left. apply in_mid. left. reflexivity.
        simpl. rewrite existsb_app. simpl. rewrite Nat.eqb_refl. apply orb_true_r.
Qed.

Lemma retI_reach progs sched : retI (run cfg_current sched (init progs)).
Proof.
  apply (run_inv cfg_current retI). intros t st st'. apply retI_step.
  intros s F. unfold gets in F. simpl in F. destruct s; discriminate.
Qed.

(** * The liveness theorem *)
Lemma finished_nil th : finished th = true -> t_cur th = [] /\ t_todo th = [].
Proof. unfold finished. destruct (t_cur th), (t_todo th); simpl; try discriminate; auto. Qed.

Theorem close_returns progs sched :
  let k := length progs in
  let st := run cfg_current sched (init progs) in
  live_ok k st = true ->
  exists sched',
    let st' := run cfg_current sched' st in
    (forall th, In th (pthreads k st') -> t_cur th = [] /\ t_todo th = []) /\
    (forall s, s < length (scopes (sh st')) ->
       s_pc (gets (sh st') s) = CNone \/
       (s_pc (gets (sh st') s) = CFinished /\ returned s st' = true /\
        exists b, close_word (log (sh st')) s = full_word b)) /\
    (forall s, s_pc (gets (sh st) s) <> CNone -> s_pc (gets (sh st') s) = CFinished) /\
    (forall s th, valids (sh st) s = true -> In th (pthreads k st) -> In (OClose s) (t_todo th) ->
       s_pc (gets (sh st') s) = CFinished).
Proof.
  intros k st OK.
  assert (HL : LInv k st).
  { destruct (curI_reach progs sched) as [Hk C]. split; auto.
    apply live_ok_sound; auto. apply wg_reach. }
  destruct (drain k (keeps k st)) with (m := S (mu k st)) (st := st) as (sched' & HL' & KP & FIN); auto.
  { intros n b st1 st2 Hn [Hk _] K S. eapply keeps_step; eauto. }
  { apply keeps_refl. }
  exists sched'. cbv zeta.
  set (st' := run cfg_current sched' st) in *.
  pose proof (finished_idle k st' HL' FIN) as IDLE.
  rewrite forallb_forall in FIN.
  assert (DONE : forall s, s_pc (gets (sh st') s) <> CNone -> s_pc (gets (sh st') s) = CFinished).
  { intros s N. specialize (IDLE s). destruct (s_pc (gets (sh st') s)); simpl in IDLE; try discriminate; auto.
    now elim N. }
  destruct KP as (K1 & K2 & K3).
  split. { intros th Hin. apply finished_nil. auto. }
  split.
  { intros s Hs. destruct (cpc_eq_dec (s_pc (gets (sh st') s)) CNone) as [E|N]; auto.
    right. pose proof (DONE s N) as F. split; auto.
    unfold st', st in *. rewrite <- run_app in *. split.
    - apply (retI_reach progs (sched ++ sched')). auto.
    - destruct (event_grammar progs (sched ++ sched') s Hs) as (_ & _ & _ & _ & G).
      destruct (G F) as (b & _ & W). eauto. }
  split. { intros s N. apply DONE. auto. }
  intros s th Vs Hin Ho. apply DONE.
  destruct (K3 s Vs) as [N|(th1 & Hin1 & W)]; auto.
  - exists th. split; auto. unfold will_close. apply existsb_exists. exists (OClose s). split; auto.
    simpl. apply Nat.eqb_refl.
  - exfalso. destruct (finished_nil th1 (FIN th1 Hin1)) as [_ E]. unfold will_close in W. rewrite E in W.
    discriminate.
Qed.

(** * The premise is necessary: a task that nobody finishes blocks Close for ever *)
Definition nodoneI (st : state) : Prop := forall th, In th (ths st) -> Forall i_nodone (t_cur th).

Lemma nodoneI_step cf t st st' : nodoneI st -> step cf t st = Some st' -> nodoneI st'.
Proof.
  destruct t as [n b]. intros I H.
  apply step_inv in H as (th & i & rest & todo & En & V & H).
  assert (R : Forall i_nodone rest).
  { apply view_inv in V as [[E1 E2]|[E1 (o & E2 & E3)]].
    - specialize (I th (nth_error_In _ _ En)). rewrite E1 in I. inversion I; auto.
    - pose proof (expand_rest (sh st) o) as X. rewrite E3 in X. simpl in X.
      eapply Forall_impl; [|exact X]. intros j [C _]. destruct j; simpl in *; auto; discriminate. }
  destruct H as [(kk & X & ->)|(sh1 & p & o & a & sp & X & ->)]; intros th0 Hin; simpl in Hin.
  - apply in_upd in Hin as [Hin|(x & _ & ->)]; auto. simpl. auto.
  - destruct (exec_push_nodone _ _ _ _ _ _ _ _ _ X) as [P1 P2].
    apply in_app_or in Hin as [Hin|Hin].
    + apply in_upd in Hin as [Hin|(x & _ & ->)]; auto. simpl. apply Forall_app; auto.
    + apply in_map_iff in Hin as (cur & <- & Hc). simpl. rewrite Forall_forall in P2. auto.
Qed.

Lemma nodoneI_reach cf progs sched : nodoneI (run cf sched (init progs)).
Proof.
  apply (run_inv cf nodoneI). intros t st st'. apply nodoneI_step.
  intros th Hin. apply in_map_iff in Hin as (ops & <- & _). simpl. auto.
Qed.

Lemma gets_app_tasks sh0 l x s :
  scopes sh0 = l ++ [x] -> s_tasks x = 0%Z -> s_tasks (gets sh0 s) = s_tasks (nth s l dscope).
Proof.
  intros E T. unfold gets. rewrite E.
  destruct (Nat.lt_ge_cases s (length l)).
  - rewrite app_nth1; auto.
  - rewrite (nth_overflow l) by lia. destruct (Nat.eq_dec s (length l)) as [->|].
    + rewrite nth_middle. simpl. auto.
    + rewrite nth_overflow; auto. rewrite app_length; simpl; lia.
Qed.

Lemma exec_tasks_mono cf b i sh sh' p o a sp s :
  exec cf b i sh = XOk sh' p o a sp -> i <> IDoneTask s ->
  (s_tasks (gets sh s) <= s_tasks (gets sh' s))%Z.
Proof.
  intros H N. destruct (plain i) eqn:PL.
  - destruct (exec_plain _ _ _ _ _ _ _ _ _ H PL s) as (_ & -> & _). lia.
  - destruct i; try discriminate PL.
    + unfold exec, xok in H. repeat des_if; inv_x; try lia.
      rewrite gets_upd_scope. destruct (_ && _); simpl; lia.
    + apply exec_done in H as [_ [[_ ->]|(_ & _ & ->)]]; try lia.
      rewrite gets_upd_scope. destruct (Nat.eqb_spec s0 s) as [->|]; simpl; try lia. now elim N.
    + unfold exec, xok in H. repeat des_if; inv_x; try lia.
      all: match goal with |- context [set_scopes ?sh0 (?l ++ [?x])] =>
             rewrite (gets_app_tasks (set_scopes sh0 (l ++ [x])) l x s eq_refl eq_refl)
           end.
      all: unfold gets; simpl; rewrite ?nth_upd; repeat des_if; simpl; lia.
    + apply exec_c0 in H as [(_ & -> & _)|(_ & _ & -> & _)]; try lia.
      unfold set_pc. rewrite gets_upd_scope. destruct (_ && _); simpl; lia.
    + apply exec_runclose in H as [CS _]. destruct (in_progress (s_pc (gets sh s0))) eqn:IP.
      * destruct (close_eff _ _ _ _ _ _ _ _ CS IP) as (_ & _ & _ & _ & _ & TS & _). rewrite TS. lia.
      * apply close_step_idle in CS; auto. subst. lia.
Qed.

Definition stuckI (s : nat) (st : state) : Prop :=
  wgI (sh st) /\ nodoneI st /\
  s_pc (gets (sh st) s) = CWait /\ (0 < s_tasks (gets (sh st) s))%Z /\
  (forall th, In th (ths st) -> ~ In (ODoneTask s) (t_todo th)).

Lemma close_wait_blocked sh s :
  wgI sh -> s_pc (gets sh s) = CWait -> (0 < s_tasks (gets sh s))%Z -> close_step cfg_current sh s = XBlocked.
Proof.
  intros W PC T. unfold close_step. rewrite PC.
  assert (V : valids sh s = true) by (apply pc_valid; rewrite PC; discriminate).
  unfold valids in V. destruct (W s) as [E _]; [lia|]. fold (gets sh s) in E.
  destruct (Z.eqb_spec (s_wg (gets sh s)) 0); auto. lia.
Qed.

Lemma stuckI_step s t st st' : stuckI s st -> step cfg_current t st = Some st' -> stuckI s st'.
Proof.
  destruct t as [n b]. intros (W & ND & PC & T & NT) H.
  pose proof (nodoneI_step _ _ _ _ ND H) as ND'.
  apply step_inv in H as (th & i & rest & todo & En & V & H).
  pose proof (nth_error_In _ _ En) as Hth.
  assert (Ni : i <> IDoneTask s).
  { intros ->. apply view_inv in V as [[E1 E2]|[E1 (o & E2 & E3)]].
    - specialize (ND th Hth). rewrite E1 in ND. inversion ND; subst. simpl in *. tauto.
    - apply (NT th Hth). rewrite E2. left. destruct o; simpl in E3; repeat des_if; try discriminate; try congruence.
      destruct (nonnil es); discriminate. }
  assert (Ntodo : ~ In (ODoneTask s) todo).
  { intros Hin. apply (NT th Hth). apply view_inv in V as [[E1 E2]|[E1 (o & E2 & E3)]].
    - rewrite E2. auto.
    - rewrite E2. right. auto. }
  destruct H as [(kk & X & ->)|(sh1 & p & o & a & sp & X & ->)]; unfold stuckI; cbn [sh ths] in *.
  - split; [auto|]. split; [auto|]. split; [auto|]. split; [auto|].
    intros th0 Hin. apply in_upd in Hin as [Hin|(x & _ & ->)]; auto.
  - split. { eapply exec_wg; eauto. reflexivity. }
    split; auto.
    assert (PC' : s_pc (gets sh1 s) = CWait).
    { destruct (cpc_eq_dec (s_pc (gets sh1 s)) (s_pc (gets (sh st) s))) as [E|E]; [congruence|].
      destruct (exec_pc_change _ _ _ _ _ _ _ _ _ _ X E) as [[_ PC0]|[Ei _]]; [congruence|].
      subst i. simpl in X. rewrite (close_wait_blocked _ _ W PC T) in X. discriminate. }
    split; auto. split.
    { pose proof (exec_tasks_mono _ _ _ _ _ _ _ _ _ s X Ni). lia. }
    intros th0 Hin. apply in_app_or in Hin as [Hin|Hin].
    + apply in_upd in Hin as [Hin|(x & _ & ->)]; auto.
    + apply in_map_iff in Hin as (cur & <- & _). simpl. tauto.
Qed.

Theorem close_blocks_forever progs sched s :
  let st := run cfg_current sched (init progs) in
  s_pc (gets (sh st) s) = CWait -> (0 < s_tasks (gets (sh st) s))%Z ->
  (forall th, In th (ths st) -> ~ In (ODoneTask s) (t_todo th)) ->
  forall sched', let st' := run cfg_current sched' st in
    s_pc (gets (sh st') s) = CWait /\ close_step cfg_current (sh st') s = XBlocked /\
    close_word (log (sh st')) s = [BC].
Proof.
  intros st PC T NT sched' st'.
  assert (I : stuckI s st').
  { apply (run_inv cfg_current (stuckI s)). intros t x y. apply stuckI_step.
    split. apply wg_reach. split. apply nodoneI_reach. auto. }
  destruct I as (W & _ & PC' & T' & _). split; auto. split. apply close_wait_blocked; auto.
  assert (V : valids (sh st') s = true) by (apply pc_valid; rewrite PC'; discriminate).
  unfold st', st in *. rewrite <- run_app in *.
  destruct (event_grammar progs (sched ++ sched') s) as (E & _). unfold valids in V; lia.
  rewrite E, PC'. reflexivity.
Qed.

(** * A state in which no thread can move stays as it is under every schedule *)
Lemma deadlocked_stuck st : deadlocked st = true -> forall sched, run cfg_current sched st = st.
Proof.
  intros D. assert (N : forall t, step cfg_current t st = None).
  { intros [n b]. destruct (Nat.lt_ge_cases n (length (ths st))) as [Hn|Hn].
    - unfold deadlocked in D. rewrite forallb_forall in D. specialize (D n). rewrite in_seq in D.
      unfold no_step in D.
      destruct (step cfg_current (n, true) st) eqn:E1; destruct (step cfg_current (n, false) st) eqn:E2;
        try (discriminate D; lia); try (assert (false = true) by (apply D; lia); discriminate).
      destruct b; auto.
    - unfold step. apply nth_error_None in Hn. rewrite Hn. reflexivity. }
  induction sched as [|t sched IH]; auto.
  change (run cfg_current (t :: sched) st) with (run cfg_current sched (step_or_skip cfg_current st t)).
  unfold step_or_skip. rewrite N. exact IH.
Qed.

(** * Every continuation: watcher steps change nothing that matters *)
Definition watch_ok (i : instr) : bool :=
  match i with IWatch _ | IWatchRead _ | ICStop _ _ | ICAppend _ _ | ICClose _ _ => true | _ => false end.
Definition watchI (k : nat) (st : state) : Prop :=
  forall th, In th (skipn k (ths st)) -> t_todo th = [] /\ Forall (fun i => watch_ok i = true) (t_cur th).

Lemma skipn_upd_lt {A} k n (f : A -> A) l : n < k -> skipn k (upd n f l) = skipn k l.
Proof.
  revert k n; induction l as [|x l IH]; intros [|k] [|n] H; simpl; auto; try lia. apply IH. lia.
Qed.
Lemma skipn_upd_ge {A} k n (f : A -> A) l : k <= n -> skipn k (upd n f l) = upd (n - k) f (skipn k l).
Proof.
  revert k n; induction l as [|x l IH]; intros [|k] [|n] H; simpl; auto; try lia.
  - destruct (n - k); reflexivity.
  - apply IH. lia.
Qed.
Lemma skipn_app_le {A} k (l l2 : list A) : k <= length l -> skipn k (l ++ l2) = skipn k l ++ l2.
Proof.
  intros H. rewrite skipn_app. replace (k - length l) with 0 by lia. reflexivity.
Qed.
Lemma nth_error_skipn {A} k n (l : list A) : nth_error (skipn k l) n = nth_error l (k + n).
Proof. revert l; induction k as [|k IH]; intros [|x l]; simpl; auto. destruct n; auto. Qed.

Lemma exec_spawn_watch cf b i sh sh' p o a sp :
  exec cf b i sh = XOk sh' p o a sp -> Forall (fun cur => exists c, cur = [IWatch c]) sp.
Proof.
  intros H. destruct i; unfold exec, xok, xpush in H;
    try (destruct (close_step cf sh s) eqn:CS; try discriminate; inv_x; constructor);
    try des_trig; repeat des_if; try inv_x; repeat constructor; eauto.
  all: destruct (c_iso (getc sh c)); repeat des_if; inv_x; constructor.
Qed.

Lemma exec_watch cf b i sh sh' p o a sp :
  watch_ok i = true -> exec cf b i sh = XOk sh' p o a sp ->
  scopes sh' = scopes sh /\ Forall (fun j => watch_ok j = true) p /\ plain i = true.
Proof.
  intros WO H. destruct i; try discriminate WO; unfold exec, xok, xpush in H; repeat des_if; try inv_x;
    repeat split; repeat constructor.
  all: destruct (c_iso (getc sh c)); repeat des_if; inv_x; repeat split; repeat constructor.
Qed.

Lemma watchI_step k t st st' :
  k <= length (ths st) -> watchI k st -> step cfg_current t st = Some st' -> watchI k st'.
Proof.
  destruct t as [n b]. intros Hk WI H.
  apply step_inv in H as (th & i & rest & todo & En & V & H).
  assert (SPW : forall sp, Forall (fun cur => exists c, cur = [IWatch c]) sp ->
                forall th0, In th0 (map spawned sp) -> t_todo th0 = [] /\ Forall (fun i => watch_ok i = true) (t_cur th0)).
  { intros sp F th0 Hin. apply in_map_iff in Hin as (cur & <- & Hc). rewrite Forall_forall in F.
    destruct (F cur Hc) as [c ->]. simpl. repeat constructor. }
  destruct (Nat.lt_ge_cases n k) as [Hn|Hn].
  - destruct H as [(kk & X & ->)|(sh1 & p & o & a & sp & X & ->)]; unfold watchI; simpl.
    + rewrite skipn_upd_lt by auto. auto.
    + rewrite skipn_app_le by (rewrite upd_length; auto). rewrite skipn_upd_lt by auto.
      intros th0 Hin. apply in_app_or in Hin as [Hin|Hin]; auto.
      apply (SPW sp); auto. eapply exec_spawn_watch; eauto.
  - assert (Eth : nth_error (skipn k (ths st)) (n - k) = Some th).
    { rewrite nth_error_skipn. replace (k + (n - k)) with n by lia. auto. }
    destruct (WI th (nth_error_In _ _ Eth)) as [T C].
    assert (VV : t_cur th = i :: rest /\ todo = []).
    { apply view_inv in V as [[E1 E2]|[E1 (o & E2 & _)]]; [split; congruence|congruence]. }
    destruct VV as [E1 ->]. rewrite E1 in C. inversion C as [|? ? Ci Cr]; subst.
    destruct H as [(kk & X & ->)|(sh1 & p & o & a & sp & X & ->)]; unfold watchI; simpl.
    + rewrite skipn_upd_ge by auto. intros th0 Hin.
      apply in_upd in Hin as [Hin|(x & _ & ->)]; auto. simpl. auto.
    + rewrite skipn_app_le by (rewrite upd_length; auto). rewrite skipn_upd_ge by auto.
      intros th0 Hin. apply in_app_or in Hin as [Hin|Hin].
      * apply in_upd in Hin as [Hin|(x & _ & ->)]; auto. simpl. split; auto.
        apply Forall_app. split; auto. eapply exec_watch; eauto.
      * apply (SPW sp); auto. eapply exec_spawn_watch; eauto.
Qed.

Lemma watchI_reach progs sched : watchI (length progs) (run cfg_current sched (init progs)).
Proof.
  assert (I : curI (length progs) (run cfg_current sched (init progs)) /\
              watchI (length progs) (run cfg_current sched (init progs))).
  { apply (run_inv cfg_current (fun st => curI (length progs) st /\ watchI (length progs) st)).
    - intros t st st' [C W] H. split. eapply curI_step; eauto. eapply watchI_step; eauto. apply C.
    - split. apply (curI_reach progs []). intros th Hin. simpl in Hin.
      rewrite skipn_all2 in Hin by (rewrite map_length; auto). elim Hin. }
  apply I.
Qed.

Lemma LI_same_core sh sh' P : same_core sh sh' -> wgI sh' -> LI sh P -> LI sh' P.
Proof.
  intros C W (_ & CL & T & TK & CH & OR). split; auto. split; auto.
  split. { intros s. destruct (C s) as (_ & -> & _). auto. }
  split. { intros s. destruct (C s) as (_ & _ & -> & _). auto. }
  split. { intros c q. destruct (C c) as (_ & _ & -> & ->). apply CH. }
  intros th Hin. apply (ordered_mono sh); auto. apply same_core_busy; auto.
Qed.

Lemma linv_step_any k st t st' :
  LInv k st -> watchI k st -> step cfg_current t st = Some st' ->
  LInv k st' /\ mu k st' + (if Nat.ltb (fst t) k then 1 else 0) <= mu k st.
Proof.
  destruct t as [n b]. intros HL WI H. simpl fst. destruct (Nat.ltb_spec n k) as [Hn|Hn].
  - destruct (linv_step k st n b st' HL Hn H). split; auto. lia.
  - destruct HL as [Hk HL].
    apply step_inv in H as (th & i & rest & todo & En & V & H).
    assert (Eth : nth_error (skipn k (ths st)) (n - k) = Some th).
    { rewrite nth_error_skipn. replace (k + (n - k)) with n by lia. auto. }
    destruct (WI th (nth_error_In _ _ Eth)) as [T C].
    assert (Ci : watch_ok i = true).
    { apply view_inv in V as [[E1 E2]|[E1 (o & E2 & _)]]; [|congruence]. rewrite E1 in C. inversion C; auto. }
    assert (E : forall f extra, firstn k (upd n f (ths st) ++ extra) = firstn k (ths st)).
    { intros f extra. rewrite firstn_app_le by (rewrite upd_length; auto). rewrite firstn_upd.
      apply upd_oob. rewrite firstn_length. lia. }
    destruct H as [(kk & X & ->)|(sh1 & p & o & a & sp & X & ->)]; unfold LInv, mu, pthreads in *; simpl.
    + specialize (E (fun _ => {| t_cur := []; t_todo := todo; t_out := t_out th ++ [OPanic kk]; t_acks := t_acks th |}) []).
      rewrite app_nil_r in E. rewrite E, upd_length. split; auto. lia.
    + rewrite E, app_length, upd_length. destruct (exec_watch _ _ _ _ _ _ _ _ _ Ci X) as (ES & _ & PL).
      split. split. lia.
      * apply (LI_same_core (sh st)); auto. eapply exec_plain; eauto. eapply exec_wg; eauto. reflexivity. apply HL.
      * unfold pcsum, pcs. rewrite ES. lia.
Qed.

(** In EVERY continuation the program threads take at most [mu] steps, the invariant holds, and
    (by [progress]) they are never all stuck before they have all finished. *)
Lemma bounded k sched : forall st,
  LInv k st -> watchI k st ->
  let st' := run cfg_current sched st in
  LInv k st' /\ watchI k st' /\ psteps k sched st + mu k st' <= mu k st.
Proof.
  induction sched as [|t sched IH]; intros st HL WI.
  - simpl. split; auto.
  - change (run cfg_current (t :: sched) st) with (run cfg_current sched (step_or_skip cfg_current st t)).
    unfold step_or_skip. cbn [psteps]. destruct (step cfg_current t st) as [st1|] eqn:Hs.
    + destruct (linv_step_any k st t st1 HL WI Hs) as [HL1 M].
      assert (WI1 : watchI k st1) by (eapply watchI_step; eauto; apply HL).
      destruct (IH st1 HL1 WI1) as (A & B & C). split; [exact A|]. split; [exact B|]. lia.
    + apply IH; auto.
Qed.

Lemma keeps_step_any k st0 t st st' :
  k <= length (ths st) -> keeps k st0 st -> step cfg_current t st = Some st' -> keeps k st0 st'.
Proof.
  destruct t as [n b]. intros Hk K H. destruct (Nat.lt_ge_cases n k) as [Hn|Hn].
  - eapply keeps_step; eauto.
  - destruct K as (K1 & K2 & K3).
    apply step_inv in H as (th & i & rest & todo & En & V & H).
    assert (E : forall f extra, firstn k (upd n f (ths st) ++ extra) = firstn k (ths st)).
    { intros f extra. rewrite firstn_app_le by (rewrite upd_length; auto). rewrite firstn_upd.
      apply upd_oob. rewrite firstn_length. lia. }
    destruct H as [(kk & X & ->)|(sh1 & p & o & a & sp & X & ->)]; unfold keeps, pthreads in *; simpl.
    + specialize (E (fun _ => {| t_cur := []; t_todo := todo; t_out := t_out th ++ [OPanic kk]; t_acks := t_acks th |}) []).
      rewrite app_nil_r in E. rewrite E. auto.
    + rewrite E. split; [|split].
      * intros s N. eapply exec_closing; eauto.
      * intros s Vs. specialize (K2 s Vs). pose proof (exec_scopes_len _ _ _ _ _ _ _ _ _ X). unfold valids in *. lia.
      * intros s Vs Ex. destruct (K3 s Vs Ex) as [L|R]; auto. left. eapply exec_closing; eauto.
Qed.

Lemma final_facts progs sched k st0 :
  let st := run cfg_current sched (init progs) in
  LInv k st -> keeps k st0 st -> forallb finished (pthreads k st) = true ->
  (forall th, In th (pthreads k st) -> t_cur th = [] /\ t_todo th = []) /\
  (forall s, s < length (scopes (sh st)) ->
     s_pc (gets (sh st) s) = CNone \/
     (s_pc (gets (sh st) s) = CFinished /\ returned s st = true /\
      exists b, close_word (log (sh st)) s = full_word b)) /\
  (forall s, s_pc (gets (sh st0) s) <> CNone -> s_pc (gets (sh st) s) = CFinished) /\
  (forall s th, valids (sh st0) s = true -> In th (pthreads k st0) -> In (OClose s) (t_todo th) ->
     s_pc (gets (sh st) s) = CFinished).
Proof.
  intros st HL KP FIN.
  pose proof (finished_idle k st HL FIN) as IDLE.
  rewrite forallb_forall in FIN.
  assert (DONE : forall s, s_pc (gets (sh st) s) <> CNone -> s_pc (gets (sh st) s) = CFinished).
  { intros s N. specialize (IDLE s). destruct (s_pc (gets (sh st) s)); simpl in IDLE; try discriminate; auto.
    now elim N. }
  destruct KP as (K1 & K2 & K3).
  split. { intros th Hin. apply finished_nil. auto. }
  split.
  { intros s Hs. destruct (cpc_eq_dec (s_pc (gets (sh st) s)) CNone) as [E|N]; auto.
    right. pose proof (DONE s N) as F. split; auto. split.
    - apply (retI_reach progs sched). auto.
    - destruct (event_grammar progs sched s Hs) as (_ & _ & _ & _ & G).
      destruct (G F) as (b & _ & W). eauto. }
  split. { intros s N. apply DONE. auto. }
  intros s th Vs Hin Ho. apply DONE.
  destruct (K3 s Vs) as [N|(th1 & Hin1 & W)]; auto.
  - exists th. split; auto. unfold will_close. apply existsb_exists. exists (OClose s). split; auto.
    simpl. apply Nat.eqb_refl.
  - exfalso. destruct (finished_nil th1 (FIN th1 Hin1)) as [_ E]. unfold will_close in W. rewrite E in W.
    discriminate.
Qed.

Lemma keeps_run k st0 sched1 : forall x,
  keeps k st0 x -> LInv k x -> watchI k x -> keeps k st0 (run cfg_current sched1 x).
Proof.
  induction sched1 as [|t r IH]; intros x K HLx WIx; auto.
  change (run cfg_current (t :: r) x) with (run cfg_current r (step_or_skip cfg_current x t)).
  unfold step_or_skip. destruct (step cfg_current t x) as [x1|] eqn:Hs; auto.
  destruct (linv_step_any k x t x1 HLx WIx Hs) as [HL1 _].
  apply IH; auto. eapply keeps_step_any; eauto. apply HLx. eapply watchI_step; eauto. apply HLx.
Qed.

(** The strong form: under EVERY continuation [sched1] (any interleaving, watchers included) the
    program threads take at most [mu k st] steps; as long as one of them has not finished one of them
    can step; and when all have finished every Close has returned.  So Close returns under every
    schedule that does not stop scheduling a thread that can move. *)
Theorem close_inevitable progs sched :
  let k := length progs in
  let st := run cfg_current sched (init progs) in
  live_ok k st = true ->
  forall sched1, let st1 := run cfg_current sched1 st in
    psteps k sched1 st <= mu k st /\
    (forallb finished (pthreads k st1) = false ->
     exists n st2, n < k /\ step cfg_current (n, true) st1 = Some st2) /\
    (forallb finished (pthreads k st1) = true ->
     (forall th, In th (pthreads k st1) -> t_cur th = [] /\ t_todo th = []) /\
     (forall s, s < length (scopes (sh st1)) ->
        s_pc (gets (sh st1) s) = CNone \/
        (s_pc (gets (sh st1) s) = CFinished /\ returned s st1 = true /\
         exists b, close_word (log (sh st1)) s = full_word b)) /\
     (forall s, s_pc (gets (sh st) s) <> CNone -> s_pc (gets (sh st1) s) = CFinished) /\
     (forall s th, valids (sh st) s = true -> In th (pthreads k st) -> In (OClose s) (t_todo th) ->
        s_pc (gets (sh st1) s) = CFinished)).
Proof.
  intros k st OK sched1 st1.
  assert (HL : LInv k st).
  { destruct (curI_reach progs sched) as [Hk C]. split; auto.
    apply live_ok_sound; auto. apply wg_reach. }
  pose proof (watchI_reach progs sched) as WI. fold k st in WI.
  destruct (bounded k sched1 st HL WI) as (HL1 & _ & B). fold st1 in HL1, B.
  assert (KP : keeps k st st1) by (apply keeps_run; auto; apply keeps_refl).
  split. lia. split. apply progress; auto.
  intros FIN. unfold st1, st in *. rewrite <- run_app in *.
  apply (final_facts progs (sched ++ sched1) k); auto.
Qed.

Theorem close_inevitable_ex progs sched :
  let k := length progs in
  let st := run cfg_current sched (init progs) in
  live_ok k st = true ->
  exists N, forall sched1, let st1 := run cfg_current sched1 st in
    psteps k sched1 st <= N /\
    (forallb finished (pthreads k st1) = false ->
     exists n st2, n < k /\ step cfg_current (n, true) st1 = Some st2) /\
    (forallb finished (pthreads k st1) = true ->
     (forall th, In th (pthreads k st1) -> t_cur th = [] /\ t_todo th = []) /\
     (forall s, s < length (scopes (sh st1)) ->
        s_pc (gets (sh st1) s) = CNone \/
        (s_pc (gets (sh st1) s) = CFinished /\ returned s st1 = true /\
         exists b, close_word (log (sh st1)) s = full_word b)) /\
     (forall s, s_pc (gets (sh st) s) <> CNone -> s_pc (gets (sh st1) s) = CFinished) /\
     (forall s th, valids (sh st) s = true -> In th (pthreads k st) -> In (OClose s) (t_todo th) ->
        s_pc (gets (sh st1) s) = CFinished)).
Proof.
  intros k st OK. exists (mu k st). intros sched1. apply close_inevitable; auto.
Qed.
