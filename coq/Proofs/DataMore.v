(** Further proofs about Model/Data.v (C13): histories, whole locked sections, invisibility of a
    locked scope, locked increments among arbitrary other goroutines. *)
From Coq Require Import Lia ZifyBool ZifyNat ZifyN.
From GC Require Import Common.Base Model.Data Model.DataMore Proofs.Data.
From GC Require Model.Locks Proofs.Locks.

Notation set_nth := GC.Model.Locks.set_nth.
Notation sumf := GC.Proofs.Locks.sumf.

(** * Histories *)

Lemma final_chain_cons st o ops : final_chain st (o :: ops) = final_chain (fst (sexec st o)) ops.
Proof.
  unfold final_chain. cbn [sexec_all]. destruct (sexec st o) as [st1 ob]. cbn [fst].
  destruct (sexec_all st1 ops) as [st2 obs]. reflexivity.
Qed.

Lemma final_chain_app st ops1 ops2 :
  final_chain st (ops1 ++ ops2) = final_chain (final_chain st ops1) ops2.
Proof.
  revert st. induction ops1 as [|o r IH]; intro st; [reflexivity|].
  cbn [app]. rewrite !final_chain_cons. apply IH.
Qed.

Lemma final_chain_length st ops : length (final_chain st ops) = length st.
Proof.
  revert st. induction ops as [|o r IH]; intro st; [reflexivity|].
  rewrite final_chain_cons, IH. destruct o; cbn [sexec fst]; auto using set_at_length.
Qed.

(** what the implementation is asked at position [length ops1] of a history is answered from the
    chain left by the operations before it *)
Lemma obs_at_prefix st ops1 o ops2 :
  nth_error (snd (sexec_all st (ops1 ++ o :: ops2))) (length ops1)
  = Some (snd (sexec (final_chain st ops1) o)).
Proof.
  revert st. induction ops1 as [|a r IH]; intro st.
  - cbn [app length sexec_all final_chain fst]. destruct (sexec st o) as [st1 ob].
    destruct (sexec_all st1 ops2) as [st2 obs]. reflexivity.
  - cbn [app length]. rewrite final_chain_cons. cbn [sexec_all].
    specialize (IH (fst (sexec st a))). destruct (sexec st a) as [st1 ob]. cbn [fst] in *.
    destruct (sexec_all st1 (r ++ o :: ops2)) as [st2 obs]. exact IH.
Qed.

(** the own binding of every scope after a history = the last store into it, else the initial one *)
Lemma lookup_level_set_at st : forall j k v l k',
  match nth_error (set_at st j k v) l with
  | Some m' => match nth_error st l with
               | Some m => lookup k' m' = if Nat.eqb j l && N.eqb k k' then Some v else lookup k' m
               | None => False
               end
  | None => nth_error st l = None
  end.
Proof.
  induction st as [|m st IH]; intros j k v l k'.
  - destruct j, l; cbn; auto.
  - destruct j as [|j], l as [|l]; cbn [set_at nth_error Nat.eqb andb].
    + destruct (N.eqb k k') eqn:E.
      * apply N.eqb_eq in E. subst. apply lookup_dset_eq.
      * apply lookup_dset_neq. intros ->. rewrite N.eqb_refl in E. discriminate.
    + destruct (nth_error st l); auto.
    + reflexivity.
    + apply IH.
Qed.

Lemma last_set_app l k ops1 ops2 :
  last_set l k (ops1 ++ ops2) =
  match last_set l k ops2 with Some v => Some v | None => last_set l k ops1 end.
Proof.
  induction ops1 as [|o r IH]; cbn [app last_set].
  - destruct (last_set l k ops2); reflexivity.
  - rewrite IH. destruct (last_set l k ops2); reflexivity.
Qed.

Theorem history_binding st0 ops l k :
  match nth_error (final_chain st0 ops) l with
  | Some m => lookup k m
  | None => None
  end = bound_after st0 ops l k.
Proof.
  unfold bound_after. revert st0. induction ops as [|o r IH]; intro st0.
  - cbn. destruct (nth_error st0 l); reflexivity.
  - rewrite final_chain_cons, IH. cbn [last_set].
    assert (S : forall j' k' v', 
      match nth_error (set_at st0 j' k' v') l with
      | Some m => match last_set l k r with Some v => Some v | None => lookup k m end
      | None => None
      end =
      match nth_error st0 l with
      | Some m => match match last_set l k r with Some v => Some v
                        | None => if Nat.eqb j' l && N.eqb k' k then Some v' else None end
                  with Some v => Some v | None => lookup k m end
      | None => None
      end).
    { intros j' k' v'. pose proof (lookup_level_set_at st0 j' k' v' l k) as H.
      destruct (nth_error (set_at st0 j' k' v') l), (nth_error st0 l); try tauto; try discriminate.
      destruct (last_set l k r); [reflexivity|]. rewrite H.
      destruct (Nat.eqb j' l && N.eqb k' k); reflexivity. }
    destruct o as [j' k' v'|j' k'|j'|j' k' v'|j' k'|j']; cbn [sexec fst writes_to];
      try apply S; destruct (nth_error st0 l); try reflexivity; destruct (last_set l k r); reflexivity.
Qed.

Lemma value_first_bound st k : forall j n,
  (length st <= j + n)%nat ->
  value_at st j k =
  first_bound (fun l => match nth_error st l with Some m => lookup k m | None => None end) j n.
Proof.
  intros j n. revert j. induction n as [|n IH]; intros j H; cbn [first_bound].
  - apply value_at_none. apply nth_error_None. lia.
  - destruct (nth_error st j) as [m|] eqn:E.
    + rewrite (value_at_unfold _ _ _ _ E). destruct (lookup k m); [reflexivity|]. apply IH. lia.
    + rewrite (value_at_none _ _ _ E). clear IH.
      assert (G : forall n j, (length st <= j)%nat ->
        first_bound (fun l => match nth_error st l with Some m => lookup k m | None => None end) j n = 0).
      { clear. induction n as [|n IH]; intros j H; cbn [first_bound]; [reflexivity|].
        assert (E : nth_error st j = None) by (apply nth_error_None; exact H).
        rewrite E. apply IH. lia. }
      symmetry. apply G. apply nth_error_None in E. lia.
Qed.

Lemma first_bound_ext f g : (forall l, f l = g l) -> forall n j, first_bound f j n = first_bound g j n.
Proof.
  intros H n. induction n as [|n IH]; intro j; cbn [first_bound]; [reflexivity|].
  rewrite H, IH. reflexivity.
Qed.

(** Value after any history, any depth: the most recent store on the nearest scope (own first,
    then towards the root) that has the key at all, nil when none has *)
Theorem history_value st0 ops j k :
  value_at (final_chain st0 ops) j k
  = first_bound (fun l => bound_after st0 ops l k) j (length st0 - j).
Proof.
  rewrite (value_first_bound _ k j (length st0 - j)) by (rewrite final_chain_length; lia).
  apply first_bound_ext. intro l. apply history_binding.
Qed.

(** what scope [i] and its ancestors hold does not depend on anything done to descendants *)
Lemma skipn_set_at_ge st : forall i j k v,
  (i <= j)%nat -> skipn i (set_at st j k v) = set_at (skipn i st) (j - i) k v.
Proof.
  induction st as [|m st IH]; intros i j k v H.
  - destruct i, j; reflexivity.
  - destruct i as [|i].
    + rewrite Nat.sub_0_r. reflexivity.
    + destruct j as [|j]; [lia|]. cbn [set_at skipn Nat.sub]. apply IH. lia.
Qed.

Lemma skipn_sexec i st st' o :
  skipn i st = skipn i st' -> (i <= sop_level o)%nat ->
  skipn i (fst (sexec st o)) = skipn i (fst (sexec st' o)).
Proof.
  intros E H. destruct o; cbn [sexec fst sop_level] in *; auto;
    rewrite !skipn_set_at_ge by exact H; rewrite E; reflexivity.
Qed.

Lemma skipn_sexec_below i st o :
  (sop_level o < i)%nat -> skipn i (fst (sexec st o)) = skipn i st.
Proof.
  intro H. destruct o; cbn [sexec fst sop_level] in *; auto; apply skipn_set_at_gt; exact H.
Qed.

Lemma ancestors_unaffected_gen i ops : forall st st',
  skipn i st = skipn i st' ->
  skipn i (final_chain st ops) = skipn i (final_chain st' (filter (on_or_above i) ops)).
Proof.
  induction ops as [|o r IH]; intros st st' E; [exact E|].
  cbn [filter]. unfold on_or_above at 1. destruct (Nat.leb i (sop_level o)) eqn:L.
  - rewrite !final_chain_cons. apply IH. apply skipn_sexec; [exact E|]. apply Nat.leb_le. exact L.
  - rewrite final_chain_cons. apply IH. rewrite skipn_sexec_below; [exact E|].
    apply Nat.leb_gt. exact L.
Qed.

Lemma skipn_plus {A} i x : forall (l : list A), skipn (i + x) l = skipn x (skipn i l).
Proof.
  induction i as [|i IH]; intro l; [reflexivity|]. destruct l as [|a l]; cbn [plus skipn].
  - destruct x; reflexivity.
  - apply IH.
Qed.

Lemma value_at_skipn st st' i x k :
  skipn i st = skipn i st' -> (i <= x)%nat -> value_at st x k = value_at st' x k.
Proof.
  intros E H. unfold value_at. replace x with (i + (x - i))%nat by lia.
  rewrite !skipn_plus, E. reflexivity.
Qed.

Lemma keys_at_skipn st st' i x :
  skipn i st = skipn i st' -> (i <= x)%nat -> keys_at st x = keys_at st' x.
Proof.
  intros E H. unfold keys_at. f_equal.
  assert (G0 : forall i y (c : chain), nth (i + y) c [] = nth y (skipn i c) []).
  { clear. induction i as [|i IH]; intros y c; [reflexivity|]. destruct c as [|m c]; cbn [skipn plus nth].
    - destruct y; reflexivity.
    - apply IH. }
  assert (G : forall (c : chain), nth x c [] = nth (x - i) (skipn i c) []).
  { intro c. rewrite <- G0. f_equal. lia. }
  rewrite !G, E. reflexivity.
Qed.

(** every observation made on scope [x >= i] at any point of any history is what it would have been
    had no descendant of [i] ever been touched *)
Theorem history_ancestors_unaffected st0 ops i o :
  (i <= sop_level o)%nat ->
  snd (sexec (final_chain st0 ops) o) = snd (sexec (final_chain st0 (filter (on_or_above i) ops)) o).
Proof.
  intro H. pose proof (ancestors_unaffected_gen i ops st0 st0 eq_refl) as E.
  destruct o; cbn [sexec snd sop_level] in *; try reflexivity; f_equal;
    solve [eapply value_at_skipn; eauto | eapply keys_at_skipn; eauto].
Qed.

(** * A whole locked section: however long the others run, the scope stays as the holder left it *)

Lemma step_other_thread u o s s' : u <> o -> step u s = Some s' -> nth_error (ths s') o = nth_error (ths s) o.
Proof.
  intros N Hs. destruct (step_some_thread _ _ _ Hs) as [t Ht].
  destruct (step_inv _ _ _ _ Hs Ht) as (st' & ow' & t' & _ & ->). cbn [ths].
  apply Locks.nth_set_nth_neq. exact N.
Qed.

Lemma section_isolated_gen j o sched' : forall s,
  Inv_own s -> own s j = Some o -> ~ In o sched' ->
  let s' := run sched' s in
  nth_error (maps s') j = nth_error (maps s) j /\ own s' j = Some o /\
  nth_error (ths s') o = nth_error (ths s) o.
Proof.
  induction sched' as [|u r IH]; intros s I Ho Hn; cbn [run]; [auto|].
  assert (Nu : u <> o) by (intros ->; apply Hn; left; reflexivity).
  assert (Hr : ~ In o r) by (intro; apply Hn; right; assumption).
  destruct (step u s) as [s1|] eqn:E; [|apply IH; auto].
  destruct (others_leave_locked_scope _ _ _ _ _ I Ho Nu E) as [M O].
  pose proof (step_other_thread _ _ _ _ Nu E) as T.
  destruct (IH s1 (step_Inv_own _ _ _ I E) O Hr) as (A & B & C).
  rewrite A, B, C, M, T. auto.
Qed.

Theorem section_isolated st progs sched sched' j o :
  let s := run sched (init st progs) in
  own s j = Some o -> ~ In o sched' ->
  let s' := run sched' s in
  nth_error (maps s') j = nth_error (maps s) j /\ own s' j = Some o /\
  nth_error (ths s') o = nth_error (ths s) o.
Proof. intros s Ho Hn. apply section_isolated_gen; auto. apply reach_Inv_own. Qed.

(** the holder is never kept from using its locker: SetValue, the own level of Value, Commit *)
Definition locker_own_op (t : thread) : bool :=
  match prog t with
  | OLWrite _ _ :: _ | OLAdd _ _ :: _ | OLInit _ _ :: _ | OCommit :: _ => true
  | OLRead _ :: _ => match walk t with None => true | Some _ => false end
  | _ => false
  end.

Theorem holder_enabled s o t j :
  nth_error (ths s) o = Some t -> held t = Some j -> locker_own_op t = true -> step o s <> None.
Proof.
  intros Ht Hh Hop. unfold step. rewrite Ht. unfold locker_own_op in Hop. unfold tstep.
  destruct (prog t) as [|[j' k|j' k v|j' k d|j' k v|j'|k|k v|k d|k v|] rest]; try discriminate;
    rewrite Hh; try discriminate.
  - destruct (walk t); [discriminate|]. rewrite Nat.eqb_refl. cbn. discriminate.
  - destruct (N.eqb (reg t) 0); discriminate.
Qed.

(** * What a locked scope holds is invisible to the others: their steps neither read nor write it *)

Lemma nth_error_put_level_neq st : forall j m l, l <> j -> nth_error (put_level st j m) l = nth_error st l.
Proof.
  induction st as [|x st IH]; intros [|j] m [|l] H; cbn; auto; try congruence.
Qed.

Lemma set_at_put_level st : forall j m l k v,
  l <> j -> set_at (put_level st j m) l k v = put_level (set_at st l k v) j m.
Proof.
  induction st as [|x st IH]; intros [|j] m [|l] k v H; cbn; auto; try congruence.
  f_equal. apply IH. congruence.
Qed.

Lemma read_level_put_level st j m l k t rest :
  l <> j -> read_level (put_level st j m) l k t rest = read_level st l k t rest.
Proof. intro H. unfold read_level. rewrite nth_error_put_level_neq by exact H. reflexivity. Qed.

Definition lift3 (j : nat) (m : dmap) (r : chain * owners * thread) : chain * owners * thread :=
  match r with (st', ow', t') => (put_level st' j m, ow', t') end.

Lemma tstep_put_level me st ow t j m :
  free ow j = false -> held t <> Some j ->
  tstep me (put_level st j m) ow t = option_map (lift3 j m) (tstep me st ow t).
Proof.
  intros F Hh. unfold tstep.
  assert (NF : forall l, free ow l = true -> l <> j) by (intros l Hl ->; congruence).
  destruct (prog t) as [|[l k|l k v|l k d|l k v|l|k|k v|k d|k v|] rest]; [reflexivity|..].
  - set (l' := match walk t with Some l' => l' | None => l end).
    destruct (free ow l') eqn:E; [|reflexivity]. cbn [option_map lift3].
    rewrite read_level_put_level by (apply NF; exact E). reflexivity.
  - destruct (free ow l) eqn:E; [|reflexivity]. cbn [option_map lift3].
    rewrite set_at_put_level by (apply NF; exact E). reflexivity.
  - destruct (free ow l) eqn:E; [|reflexivity]. cbn [option_map lift3].
    rewrite set_at_put_level by (apply NF; exact E). reflexivity.
  - destruct (N.eqb (reg t) 0); [|reflexivity]. destruct (free ow l) eqn:E; [|reflexivity].
    cbn [option_map lift3]. rewrite set_at_put_level by (apply NF; exact E). reflexivity.
  - destruct (held t); [reflexivity|]. destruct (free ow l); reflexivity.
  - destruct (held t) as [h|] eqn:Eh; [|reflexivity].
    set (l := match walk t with Some l => l | None => h end).
    destruct (Nat.eqb l h || free ow l) eqn:E; [|reflexivity]. cbn [option_map lift3].
    rewrite read_level_put_level; [reflexivity|].
    apply orb_true_iff in E as [E|E]; [|apply NF; exact E].
    apply Nat.eqb_eq in E. rewrite E. congruence.
  - destruct (held t) as [h|] eqn:Eh; [|reflexivity]. cbn [option_map lift3].
    rewrite set_at_put_level by congruence. reflexivity.
  - destruct (held t) as [h|] eqn:Eh; [|reflexivity]. cbn [option_map lift3].
    rewrite set_at_put_level by congruence. reflexivity.
  - destruct (held t) as [h|] eqn:Eh; [|reflexivity]. destruct (N.eqb (reg t) 0); [|reflexivity].
    cbn [option_map lift3]. rewrite set_at_put_level by congruence. reflexivity.
  - destruct (held t); reflexivity.
Qed.

Theorem locked_scope_invisible st progs sched j o u m :
  let s := run sched (init st progs) in
  own s j = Some o -> u <> o ->
  step u (with_level s j m) = option_map (fun s' => with_level s' j m) (step u s).
Proof.
  intros s Ho Nu. destruct (reach_Inv_own st progs sched) as [A _]. fold s in A.
  unfold step, with_level. cbn [maps own ths].
  destruct (nth_error (ths s) u) as [t|] eqn:Ht; [|reflexivity].
  rewrite tstep_put_level.
  - destruct (tstep u (maps s) (own s) t) as [[[st' ow'] t']|]; reflexivity.
  - unfold free. rewrite Ho. reflexivity.
  - intro Hh. pose proof (A _ _ _ Ht Hh). congruence.
Qed.

(** * Locked increments among arbitrary other goroutines *)

Lemma value_set_other_key c : forall l k' v k, k' <> k -> value (set_at c l k' v) k = value c k.
Proof.
  induction c as [|m c IH]; intros [|l] k' v k H; cbn [set_at value]; auto.
  - rewrite lookup_dset_neq by exact H. reflexivity.
  - rewrite IH by exact H. reflexivity.
Qed.

Lemma value_at_set_any_other_key st l k' v x k :
  k' <> k -> value_at (set_at st l k' v) x k = value_at st x k.
Proof.
  intro H. unfold value_at. destruct (Nat.le_gt_cases x l) as [L|L].
  - rewrite skipn_set_at_ge by exact L. apply value_set_other_key. exact H.
  - rewrite skipn_set_at_gt by exact L. reflexivity.
Qed.

Lemma quiet_write j k st l k' v x :
  negb (N.eqb k' k) || Nat.ltb l j = true -> (j <= x)%nat ->
  value_at (set_at st l k' v) x k = value_at st x k.
Proof.
  intros H Hx. apply orb_true_iff in H as [H|H].
  - apply value_at_set_any_other_key. intros ->. rewrite N.eqb_refl in H. discriminate.
  - apply Nat.ltb_lt in H. apply value_at_set_ancestor. lia.
Qed.

Lemma quiet_cons j k o r : quiet j k (o :: r) = true -> quiet_op j k o = true /\ quiet j k r = true.
Proof. unfold quiet. cbn [forallb]. intro H. apply andb_true_iff in H. exact H. Qed.

Lemma read_level_prog st l k t rest :
  prog (read_level st l k t rest) = rest \/ prog (read_level st l k t rest) = prog t.
Proof.
  unfold read_level. destruct (nth_error st l); [|left; reflexivity].
  destruct (lookup k d); [left|right]; reflexivity.
Qed.

Lemma quiet_tstep j k me st ow t st' ow' t' :
  tstep me st ow t = Some (st', ow', t') -> quiet j k (prog t) = true ->
  (forall x, (j <= x)%nat -> value_at st' x k = value_at st x k) /\
  length st' = length st /\ quiet j k (prog t') = true.
Proof.
  unfold tstep. intros H Q.
  destruct (prog t) as [|[l k'|l k' v|l k' d|l k' v|l|k'|k' v|k' d|k' v|] rest] eqn:Ep; [discriminate|..];
    apply quiet_cons in Q as [Qo Qr]; cbn [quiet_op] in Qo.
  - set (l' := match walk t with Some l0 => l0 | None => l end) in *.
    pose proof (read_level_prog st l' k' t rest) as RP.
    destruct (free ow l'); inversion H; subst. repeat split; auto.
    destruct RP as [->| ->]; auto.
    rewrite Ep. unfold quiet in *. cbn [forallb quiet_op andb]. exact Qr.
  - destruct (free ow l); inversion H; subst. cbn [prog].
    repeat split; auto using set_at_length. intros x Hx. apply (quiet_write j); auto.
  - destruct (free ow l); inversion H; subst. cbn [prog].
    repeat split; auto using set_at_length. intros x Hx. apply (quiet_write j); auto.
  - destruct (N.eqb (reg t) 0); [destruct (free ow l)|]; inversion H; subst; cbn [prog];
      repeat split; auto using set_at_length. intros x Hx. apply (quiet_write j); auto.
  - destruct (held t); [discriminate|]. destruct (free ow l); inversion H; subst. cbn [prog]. auto.
  - destruct (held t) as [h|]; [|discriminate].
    set (l' := match walk t with Some l0 => l0 | None => h end) in *.
    pose proof (read_level_prog st l' k' t rest) as RP.
    destruct (_ || _); inversion H; subst. repeat split; auto.
    destruct RP as [->| ->]; auto.
    rewrite Ep. unfold quiet in *. cbn [forallb quiet_op andb]. exact Qr.
  - destruct (held t) as [h|]; inversion H; subst. cbn [prog].
    repeat split; auto using set_at_length. intros x Hx. apply (quiet_write j); auto. rewrite Qo. reflexivity.
  - destruct (held t) as [h|]; inversion H; subst. cbn [prog].
    repeat split; auto using set_at_length. intros x Hx. apply (quiet_write j); auto. rewrite Qo. reflexivity.
  - destruct (held t) as [h|]; [|discriminate].
    destruct (N.eqb (reg t) 0); inversion H; subst; cbn [prog]; repeat split; auto using set_at_length.
    intros x Hx. apply (quiet_write j); auto. rewrite Qo. reflexivity.
  - destruct (held t) as [h|]; inversion H; subst. cbn [prog]. auto.
Qed.

Lemma quiet_no_adds j k p : quiet j k p = true -> filter (is_add k) p = [].
Proof.
  induction p as [|o r IH]; intro H; [reflexivity|]. apply quiet_cons in H as [Ho Hr].
  cbn [filter]. rewrite (IH Hr). destruct o; cbn [is_add]; auto.
  cbn [quiet_op] in Ho. destruct (N.eqb k0 k); [discriminate|reflexivity].
Qed.

Lemma sumf_app {A} (f : A -> nat) a b : sumf f (a ++ b) = (sumf f a + sumf f b)%nat.
Proof. induction a as [|x a IH]; cbn; [reflexivity|]. rewrite IH. lia. Qed.

Lemma set_nth_cases_ix {A} (P : nat -> A -> Prop) i (t' : A) l :
  (forall u tu, u <> i -> nth_error l u = Some tu -> P u tu) -> P i t' ->
  forall u tu, nth_error (set_nth i t' l) u = Some tu -> P u tu.
Proof.
  intros Ho Hn u tu H. destruct (Nat.eq_dec i u) as [<-|N].
  - destruct (Nat.lt_ge_cases i (length l)) as [L|L].
    + rewrite Locks.nth_set_nth_eq in H by exact L. inversion H; subst; auto.
    + assert (nth_error (set_nth i t' l) i = None).
      { apply nth_error_None. rewrite Locks.set_nth_length. exact L. }
      congruence.
  - rewrite Locks.nth_set_nth_neq in H by exact N. eapply Ho; eauto.
Qed.

Lemma counter_loop_S j k c :
  counter_loop j k (S c) = OLock j :: OLRead k :: OLAdd k 1 :: OCommit :: counter_loop j k c.
Proof. reflexivity. Qed.

Lemma adds_loop j k c : length (filter (is_add k) (counter_loop j k c)) = c.
Proof.
  induction c as [|c IH]; [reflexivity|]. rewrite counter_loop_S. cbn [filter is_add].
  rewrite N.eqb_refl. cbn [length]. rewrite IH. reflexivity.
Qed.

Ltac split5 := split; [|split; [|split; [|split]]].

Section Mixed.
  Variables (st0 : chain) (j : nat) (k : N) (cs : list nat) (others : list (list op)).
  Hypothesis Hj : (j < length st0)%nat.
  Hypothesis Hq : forallb (quiet j k) others = true.

  Definition lphase (st : chain) (t : thread) : Prop :=
    exists r,
    (prog t = counter_loop j k r /\ held t = None /\ walk t = None) \/
    (prog t = OLRead k :: OLAdd k 1 :: OCommit :: counter_loop j k r /\ held t = Some j /\ walk_ok j k st t) \/
    (prog t = OLAdd k 1 :: OCommit :: counter_loop j k r /\ held t = Some j /\ reg t = value_at st j k) \/
    (prog t = OCommit :: counter_loop j k r /\ held t = Some j).

  Definition tinv (st : chain) (u : nat) (t : thread) : Prop :=
    ((u < length cs)%nat -> lphase st t) /\ ((length cs <= u)%nat -> quiet j k (prog t) = true).

  Definition Inv_m (s : cstate) : Prop :=
    Inv_own s /\ length (maps s) = length st0 /\
    length (ths s) = (length cs + length others)%nat /\
    (forall l o, own s l = Some o -> l = j \/ (length cs <= o)%nat) /\
    value_at (maps s) j k + N.of_nat (sumf (adds_left k) (ths s)) = value_at st0 j k + N.of_nat (list_sum cs) /\
    (forall i t, nth_error (ths s) i = Some t -> tinv (maps s) i t).

  Lemma lphase_transfer st st' t :
    (forall x, (j <= x)%nat -> value_at st' x k = value_at st x k) -> lphase st t -> lphase st' t.
  Proof.
    intros E (r & [H|[(P & H & W)|[(P & H & R)|H]]]); exists r; auto.
    - right; left. repeat split; auto. destruct W as [W|(l & W & L & V)]; [left; auto|].
      right. exists l. repeat split; auto. rewrite !E by lia. exact V.
    - right; right; left. repeat split; auto. rewrite E by lia. exact R.
  Qed.

  Lemma lphase_unlocked st st' t : held t = None -> lphase st t -> lphase st' t.
  Proof.
    intros Hh (r & [H|[(_ & H & _)|[(_ & H & _)|(_ & H)]]]); try congruence. exists r. auto.
  Qed.

  Lemma sumf_init_loops :
    sumf (adds_left k) (map (fun p => mkThread p 0 None None) (map (counter_loop j k) cs ++ others)) = list_sum cs.
  Proof.
    rewrite map_app, sumf_app.
    assert (E2 : sumf (adds_left k) (map (fun p => mkThread p 0 None None) others) = 0%nat).
    { apply Locks.sumf_zero. intros t Ht. apply in_map_iff in Ht as (p & <- & Hp).
      unfold adds_left. cbn [prog]. rewrite forallb_forall in Hq. rewrite (quiet_no_adds j k p (Hq _ Hp)).
      reflexivity. }
    rewrite E2, Nat.add_0_r. clear. induction cs as [|c r IH]; [reflexivity|].
    cbn [map sumf list_sum fold_right]. unfold list_sum in IH. rewrite IH.
    unfold adds_left at 1. cbn [prog]. rewrite adds_loop. reflexivity.
  Qed.

  Lemma Inv_m_init : Inv_m (mixed_sys st0 j k cs others).
  Proof.
    unfold mixed_sys. split; [apply Inv_own_init|]. cbn [init maps own ths].
    split; [reflexivity|]. split; [rewrite map_length, app_length, map_length; reflexivity|].
    split; [intros; discriminate|]. split; [rewrite sumf_init_loops; reflexivity|].
    intros i t Ht. rewrite nth_error_map in Ht.
    destruct (nth_error (map (counter_loop j k) cs ++ others) i) as [p|] eqn:E; [|discriminate].
    inversion Ht; subst; clear Ht. split; intro Hi; cbn [prog].
    - rewrite nth_error_app1 in E by (rewrite map_length; exact Hi). rewrite nth_error_map in E.
      destruct (nth_error cs i) as [c|]; [|discriminate]. inversion E; subst. exists c. left. auto.
    - rewrite nth_error_app2 in E by (rewrite map_length; exact Hi). apply nth_error_In in E.
      rewrite forallb_forall in Hq. apply Hq. exact E.
  Qed.

  Lemma step_Inv_m i s s' : Inv_m s -> step i s = Some s' -> Inv_m s'.
  Proof.
    intros (IO & Hl & Hn & Hown & Hv & Hph) Hs.
    pose proof (step_Inv_own _ _ _ IO Hs) as IO'.
    destruct (step_some_thread _ _ _ Hs) as [t Ht].
    destruct (step_inv _ _ _ _ Hs Ht) as (st' & ow' & t' & Hts & ->).
    pose proof (Locks.sumf_set_nth (adds_left k) _ _ _ t' Ht) as Hsum.
    split; [exact IO'|]. cbn [maps own ths] in *. rewrite Locks.set_nth_length.
    destruct (Nat.lt_ge_cases i (length cs)) as [Hi|Hi].
    - (* a counter *)
      destruct (proj1 (Hph _ _ Ht) Hi) as (r & [(Ep & Eh & Ew)|[(Ep & Eh & Ew)|[(Ep & Eh & Er)|(Ep & Eh)]]]).
      + destruct r as [|r]; [unfold tstep in Hts; rewrite Ep in Hts; discriminate|].
        rewrite counter_loop_S in Ep. unfold tstep in Hts. rewrite Ep, Eh in Hts.
        destruct (free (own s) j) eqn:F; inversion Hts; subst; clear Hts.
        assert (C : adds_left k t = S r /\
                    adds_left k (mkThread (OLRead k :: OLAdd k 1 :: OCommit :: counter_loop j k r) (reg t) (Some j) None) = S r).
        { unfold adds_left. rewrite Ep. cbn [prog filter is_add]. rewrite N.eqb_refl. cbn [length].
          rewrite adds_loop. auto. }
        split5; auto.
        * intros l o. unfold oupd. destruct (Nat.eqb l j) eqn:E; [apply Nat.eqb_eq in E; auto|apply Hown].
        * lia.
        * apply (set_nth_cases_ix (tinv (maps s))); [intros; eapply Hph; eauto|].
          split; [|lia]. intros _. exists r. right; left. cbn. unfold walk_ok. auto.
      + unfold tstep in Hts. rewrite Ep, Eh in Hts.
        set (l := match walk t with Some l => l | None => j end) in *.
        destruct (Nat.eqb l j || free (own s) l); inversion Hts; subst st' ow' t'; clear Hts.
        assert (Hlev : l = j \/ ((j < l)%nat /\ value_at (maps s) l k = value_at (maps s) j k)).
        { subst l. destruct Ew as [->|(l' & -> & A & B)]; auto. }
        destruct (read_level_walk (maps s) j l k t (OLAdd k 1 :: OCommit :: counter_loop j k r) (ltac:(lia)) Hlev) as (Hh & Hr).
        set (t' := read_level (maps s) l k t (OLAdd k 1 :: OCommit :: counter_loop j k r)) in *.
        assert (C : adds_left k t = adds_left k t').
        { unfold adds_left. destruct Hr as [(-> & _)|(-> & _)]; [|reflexivity]. rewrite Ep.
          cbn [filter is_add]. reflexivity. }
        split5; auto; [lia|].
        apply (set_nth_cases_ix (tinv (maps s))); [intros; eapply Hph; eauto|].
        split; [|lia]. intros _. exists r.
        destruct Hr as [(P & W & R)|(P & R & W & L & V)].
        * right; right; left. rewrite Hh. auto.
        * right; left. rewrite P, Hh. repeat split; auto. right. eauto.
      + unfold tstep in Hts. rewrite Ep, Eh in Hts. inversion Hts; subst; clear Hts.
        assert (C : adds_left k t = S (adds_left k (mkThread (OCommit :: counter_loop j k r) (reg t) (Some j) None))).
        { unfold adds_left. rewrite Ep. cbn [prog filter is_add]. rewrite N.eqb_refl. reflexivity. }
        split5; auto.
        * rewrite set_at_length. exact Hl.
        * rewrite value_at_set_same by lia. lia.
        * apply (set_nth_cases_ix (tinv (set_at (maps s) j k (reg t + 1)))).
          -- intros u tu Hne Hu. destruct (Hph _ _ Hu) as [P1 P2]. split; [|exact P2].
             intro Hlt. eapply lphase_unlocked; [|apply P1; exact Hlt].
             destruct (held tu) as [h|] eqn:Ehu; auto. exfalso.
             destruct (P1 Hlt) as (r' & [(_ & H & _)|[(_ & H & _)|[(_ & H & _)|(_ & H)]]]); try congruence;
               assert (h = j) by congruence; subst h;
               destruct IO as [A _]; pose proof (A _ _ _ Hu Ehu); pose proof (A _ _ _ Ht Eh); congruence.
          -- split; [|lia]. intros _. exists r. right; right; right. auto.
      + unfold tstep in Hts. rewrite Ep, Eh in Hts. inversion Hts; subst; clear Hts.
        assert (C : adds_left k t = adds_left k (mkThread (counter_loop j k r) (reg t) None None)).
        { unfold adds_left. rewrite Ep. reflexivity. }
        split5; auto.
        * intros l o. unfold oupd. destruct (Nat.eqb l j); [discriminate|apply Hown].
        * lia.
        * apply (set_nth_cases_ix (tinv (maps s))); [intros; eapply Hph; eauto|].
          split; [|lia]. intros _. exists r. left. auto.
    - (* another goroutine *)
      pose proof (proj2 (Hph _ _ Ht) Hi) as Q.
      destruct (quiet_tstep _ _ _ _ _ _ _ _ _ Hts Q) as (V & L & Q').
      assert (C : adds_left k t = 0%nat /\ adds_left k t' = 0%nat).
      { unfold adds_left. rewrite (quiet_no_adds _ _ _ Q), (quiet_no_adds _ _ _ Q'). auto. }
      split5; auto.
      + congruence.
      + destruct (tstep_own _ _ _ _ _ _ _ Hts) as [[-> _]|[(l' & _ & _ & -> & _)|(l' & _ & -> & _)]]; auto;
          intros l o; unfold oupd; destruct (Nat.eqb l l'); auto; try discriminate.
        intro E. inversion E; subst. auto.
      + rewrite V by lia. lia.
      + apply (set_nth_cases_ix (tinv st')).
        * intros u tu Hne Hu. destruct (Hph _ _ Hu) as [P1 P2]. split; [|exact P2].
          intro Hlt. eapply lphase_transfer; [exact V|apply P1; exact Hlt].
        * split; [lia|auto].
  Qed.

  Lemma reach_Inv_m sched : Inv_m (run sched (mixed_sys st0 j k cs others)).
  Proof. apply run_inv; [intros; eapply step_Inv_m; eauto|apply Inv_m_init]. Qed.

  (** at every moment: what the scope answers plus the increments still to come is constant *)
  Theorem rmw_mixed_every_moment sched :
    let s := run sched (mixed_sys st0 j k cs others) in
    value_at (maps s) j k + N.of_nat (sumf (adds_left k) (ths s)) = value_at st0 j k + N.of_nat (list_sum cs).
  Proof. intro s. destruct (reach_Inv_m sched) as (_ & _ & _ & _ & Hv & _). exact Hv. Qed.

  (** once the counters are done (the others need not be): initial value plus all increments *)
  Theorem rmw_mixed_final sched :
    let s := run sched (mixed_sys st0 j k cs others) in
    (forall i t, (i < length cs)%nat -> nth_error (ths s) i = Some t -> prog t = []) ->
    value_at (maps s) j k = value_at st0 j k + N.of_nat (list_sum cs).
  Proof.
    intros s Hd. destruct (reach_Inv_m sched) as (_ & _ & _ & _ & Hv & Hph). fold s in Hv, Hph.
    assert (Z : sumf (adds_left k) (ths s) = 0%nat).
    { apply Locks.sumf_zero. intros t Ht. apply In_nth_error in Ht as [i Hi].
      destruct (Nat.lt_ge_cases i (length cs)) as [L|L].
      - unfold adds_left. rewrite (Hd _ _ L Hi). reflexivity.
      - unfold adds_left. rewrite (quiet_no_adds j k _ (proj2 (Hph _ _ Hi) L)). reflexivity. }
    rewrite Z in Hv. lia.
  Qed.
End Mixed.

(** counters alone (any number of increments each): never stuck before everybody is done *)
Theorem rmw_loops_no_deadlock st0 j k cs sched :
  (j < length st0)%nat ->
  let s := run sched (mixed_sys st0 j k cs []) in
  all_done s = false -> exists i, step i s <> None.
Proof.
  intros Hj s Hd.
  destruct (reach_Inv_m st0 j k cs [] Hj eq_refl sched) as ((A & B) & _ & Hn & Hown & _ & Hph).
  fold s in A, B, Hn, Hown, Hph. cbn [length] in Hn. rewrite Nat.add_0_r in Hn.
  assert (Hfree : forall l, l <> j -> own s l = None).
  { intros l Hl. destruct (own s l) as [o|] eqn:E; auto. exfalso.
    destruct (Hown _ _ E) as [->|Ho]; [congruence|].
    destruct (B _ _ E) as (t & Ht & _). apply Locks.nth_error_lt in Ht. lia. }
  assert (Hlt : forall i t, nth_error (ths s) i = Some t -> lphase j k (maps s) t).
  { intros i t Ht. apply (proj1 (Hph _ _ Ht)). apply Locks.nth_error_lt in Ht. lia. }
  destruct (own s j) as [o|] eqn:Eo.
  - destruct (B _ _ Eo) as (t & Ht & Hh). exists o. unfold step. rewrite Ht.
    destruct (Hlt _ _ Ht) as (r & [(Ep & Eh & Ew)|[(Ep & Eh & Ew)|[(Ep & Eh & Er)|(Ep & Eh)]]]);
      try congruence; unfold tstep; rewrite Ep, Eh; cbn; try discriminate.
    destruct Ew as [->|(l & -> & Hl & _)].
    + rewrite Nat.eqb_refl. cbn. discriminate.
    + unfold free. rewrite (Hfree l) by lia. rewrite orb_true_r. discriminate.
  - unfold all_done in Hd. destruct (Locks.forallb_false_nth _ _ Hd) as (i & t & Ht & Hnd).
    exists i. unfold step. rewrite Ht.
    destruct (Hlt _ _ Ht) as (r & [(Ep & Eh & Ew)|[(Ep & Eh & Ew)|[(Ep & Eh & Er)|(Ep & Eh)]]]).
    + destruct r as [|r]; [unfold done in Hnd; rewrite Ep in Hnd; discriminate|].
      rewrite counter_loop_S in Ep. unfold tstep. rewrite Ep, Eh. unfold free. rewrite Eo. discriminate.
    + pose proof (A _ _ _ Ht Eh). congruence.
    + pose proof (A _ _ _ Ht Eh). congruence.
    + pose proof (A _ _ _ Ht Eh). congruence.
Qed.

(** * Get-or-create among arbitrary other goroutines *)
Section GocMixed.
  Variables (st0 : chain) (j : nat) (k : N) (vs : list N) (others : list (list op)).
  Hypothesis Hj : (j < length st0)%nat.
  Hypothesis Hvs : Forall (fun v => v <> 0) vs.
  Hypothesis Hq : forallb (quiet j k) others = true.

  Definition ginv (st : chain) (u : nat) (t : thread) : Prop :=
    ((u < length vs)%nat -> gphase j k st t) /\ ((length vs <= u)%nat -> quiet j k (prog t) = true).

  Definition Inv_gm (s : cstate) : Prop :=
    Inv_own s /\ length (maps s) = length st0 /\
    (forall i t, nth_error (ths s) i = Some t -> ginv (maps s) i t).

  Lemma gphase_transfer st st' t :
    (forall x, (j <= x)%nat -> value_at st' x k = value_at st x k) -> gphase j k st t -> gphase j k st' t.
  Proof.
    intros E (v & Hv & [H|[(P & H & W)|[(P & H & R)|[(P & H & R & Rn)|(P & H & R & Rn)]]]]);
      exists v; (split; [exact Hv|]); auto.
    - right; left. repeat split; auto. destruct W as [W|(l & W & L & V)]; [left; auto|].
      right. exists l. repeat split; auto. rewrite !E by lia. exact V.
    - right; right; left. repeat split; auto. rewrite E by lia. exact R.
    - right; right; right; left. repeat split; auto. rewrite E by lia. exact R.
    - right; right; right; right. repeat split; auto. rewrite E by lia. exact R.
  Qed.

  Lemma Inv_gm_init : Inv_gm (goc_mixed_sys st0 j k vs others).
  Proof.
    unfold goc_mixed_sys. split; [apply Inv_own_init|]. cbn [init maps own ths]. split; [reflexivity|].
    intros i t Ht. rewrite nth_error_map in Ht.
    destruct (nth_error (map (goc_prog j k) vs ++ others) i) as [p|] eqn:E; [|discriminate].
    inversion Ht; subst; clear Ht. split; intro Hi; cbn [prog].
    - rewrite nth_error_app1 in E by (rewrite map_length; exact Hi). rewrite nth_error_map in E.
      destruct (nth_error vs i) as [v|] eqn:Ev; [|discriminate]. inversion E; subst. exists v.
      split; [|left; auto]. rewrite Forall_forall in Hvs. apply Hvs. eapply nth_error_In; eauto.
    - rewrite nth_error_app2 in E by (rewrite map_length; exact Hi). apply nth_error_In in E.
      rewrite forallb_forall in Hq. apply Hq. exact E.
  Qed.

  Lemma step_Inv_gm i s s' : Inv_gm s -> step i s = Some s' -> Inv_gm s'.
  Proof.
    intros (IO & Hl & Hph) Hs.
    pose proof (step_Inv_own _ _ _ IO Hs) as IO'.
    destruct (step_some_thread _ _ _ Hs) as [t Ht].
    destruct (step_inv _ _ _ _ Hs Ht) as (st' & ow' & t' & Hts & ->).
    split; [exact IO'|]. cbn [maps own ths] in *.
    destruct (Nat.lt_ge_cases i (length vs)) as [Hi|Hi].
    - destruct (proj1 (Hph _ _ Ht) Hi) as (v & Hv & [(Ep & Eh & Ew)|[(Ep & Eh & Ew)|[(Ep & Eh & Er)|[(Ep & Eh & Er)|(Ep & Eh & Er)]]]]);
        unfold tstep in Hts; rewrite Ep in Hts; cbn [goc_prog] in Hts; rewrite ?Eh in Hts.
      + destruct (free (own s) j) eqn:F; inversion Hts; subst; clear Hts. split; [exact Hl|].
        apply (set_nth_cases_ix (ginv (maps s))); [intros; eapply Hph; eauto|].
        split; [|lia]. intros _. exists v. split; auto. right; left. cbn. unfold walk_ok. auto.
      + set (l := match walk t with Some l => l | None => j end) in *.
        destruct (Nat.eqb l j || free (own s) l); inversion Hts; subst st' ow' t'; clear Hts.
        assert (Hlev : l = j \/ ((j < l)%nat /\ value_at (maps s) l k = value_at (maps s) j k)).
        { subst l. destruct Ew as [->|(l' & -> & A & B)]; auto. }
        destruct (read_level_walk (maps s) j l k t [OLInit k v; OCommit] (ltac:(lia)) Hlev) as (Hh & Hr).
        split; [exact Hl|].
        apply (set_nth_cases_ix (ginv (maps s))); [intros; eapply Hph; eauto|].
        split; [|lia]. intros _. exists v. split; auto.
        destruct Hr as [(P & W & R)|(P & R & W & L & V)].
        * right; right; left. rewrite Hh. auto.
        * right; left. rewrite P, Hh. repeat split; auto. right. eauto.
      + destruct (N.eqb (reg t) 0) eqn:E0; inversion Hts; subst; clear Hts.
        * apply N.eqb_eq in E0. split; [rewrite set_at_length; exact Hl|].
          apply (set_nth_cases_ix (ginv (set_at (maps s) j k v))).
          -- intros u tu Hne Hu. destruct (Hph _ _ Hu) as [P1 P2]. split; [|exact P2].
             intro Hlt. destruct IO as [A _]. pose proof (A _ _ _ Ht Eh) as O2.
             destruct (P1 Hlt) as (w & Hw & [(P & H & W)|[(P & H & _)|[(P & H & _)|[(P & H & _)|(P & H & R & Rn)]]]]);
               try (pose proof (A _ _ _ Hu H); congruence); try congruence.
             exists w. split; auto.
          -- split; [|lia]. intros _. exists v. split; auto. right; right; right; left. cbn.
             rewrite value_at_set_same by lia. auto.
        * apply N.eqb_neq in E0. split; [exact Hl|].
          apply (set_nth_cases_ix (ginv (maps s))); [intros; eapply Hph; eauto|].
          split; [|lia]. intros _. exists v. split; auto. right; right; right; left. cbn. auto.
      + inversion Hts; subst; clear Hts. split; [exact Hl|].
        apply (set_nth_cases_ix (ginv (maps s))); [intros; eapply Hph; eauto|].
        split; [|lia]. intros _. exists v. split; auto. right; right; right; right. cbn. auto.
      + discriminate.
    - pose proof (proj2 (Hph _ _ Ht) Hi) as Q.
      destruct (quiet_tstep _ _ _ _ _ _ _ _ _ Hts Q) as (V & L & Q').
      split; [congruence|].
      apply (set_nth_cases_ix (ginv st')).
      + intros u tu Hne Hu. destruct (Hph _ _ Hu) as [P1 P2]. split; [|exact P2].
        intro Hlt. eapply gphase_transfer; [exact V|apply P1; exact Hlt].
      + split; [lia|auto].
  Qed.

  Lemma reach_Inv_gm sched : Inv_gm (run sched (goc_mixed_sys st0 j k vs others)).
  Proof. apply run_inv; [intros; eapply step_Inv_gm; eauto|apply Inv_gm_init]. Qed.

  Theorem goc_mixed_one_instance sched a b ta tb :
    let s := run sched (goc_mixed_sys st0 j k vs others) in
    (a < length vs)%nat -> nth_error (ths s) a = Some ta -> prog ta = [] ->
    (b < length vs)%nat -> nth_error (ths s) b = Some tb -> prog tb = [] ->
    reg ta = reg tb /\ reg ta <> 0 /\ reg ta = value_at (maps s) j k.
  Proof.
    intros s La Ha Pa Lb Hb Pb. destruct (reach_Inv_gm sched) as (_ & _ & Hph). fold s in Hph.
    destruct (proj1 (Hph _ _ Ha) La) as (v & _ & [(P & _)|[(P & _)|[(P & _)|[(P & _)|(_ & _ & Ra & Na)]]]]);
      try (rewrite Pa in P; discriminate).
    destruct (proj1 (Hph _ _ Hb) Lb) as (w & _ & [(P & _)|[(P & _)|[(P & _)|[(P & _)|(_ & _ & Rb & Nb)]]]]);
      try (rewrite Pb in P; discriminate).
    repeat split; auto. congruence.
  Qed.
End GocMixed.

(** * Lock order: lockers taken one at a time and used only towards the root never deadlock *)

Definition uwf (t : thread) : Prop :=
  upward_from (held t) (prog t) = true /\
  (forall j l, held t = Some j -> walk t = Some l -> (j < l)%nat).

Lemma read_level_uwf st l k t rest :
  (forall j, held t = Some j -> (j <= l)%nat) ->
  upward_from (held t) (prog t) = true -> upward_from (held t) rest = true ->
  uwf (read_level st l k t rest).
Proof.
  intros Hl U1 U2. unfold read_level.
  destruct (nth_error st l) as [m|]; [destruct (lookup k m)|]; split; cbn [prog held walk]; auto;
    try (intros; discriminate).
  intros j l' Hh E. inversion E; subst. specialize (Hl _ Hh). lia.
Qed.

Lemma tstep_uwf me st ow t st' ow' t' :
  tstep me st ow t = Some (st', ow', t') -> uwf t -> uwf t'.
Proof.
  unfold tstep. intros H [U W].
  destruct (prog t) as [|[l k|l k v|l k d|l k v|l|k|k v|k d|k v|] rest] eqn:Ep; [discriminate|..];
    cbn [upward_from] in U.
  - set (lc := match walk t with Some l0 => l0 | None => l end) in *.
    destruct (free ow lc); inversion H; subst; clear H. apply read_level_uwf.
    + intros j Hh. rewrite Hh in U. apply andb_true_iff in U as [U _]. apply Nat.ltb_lt in U.
      subst lc. destruct (walk t) as [l'|] eqn:Ew; [specialize (W _ _ Hh eq_refl)|]; lia.
    + rewrite Ep. cbn [upward_from]. exact U.
    + destruct (held t); [apply andb_true_iff in U as [_ U]|]; exact U.
  - destruct (free ow l); inversion H; subst; clear H. split; cbn [prog held walk]; [|intros; discriminate].
    destruct (held t); [apply andb_true_iff in U as [_ U]|]; exact U.
  - destruct (free ow l); inversion H; subst; clear H. split; cbn [prog held walk]; [|intros; discriminate].
    destruct (held t); [apply andb_true_iff in U as [_ U]|]; exact U.
  - assert (U' : upward_from (held t) rest = true)
      by (destruct (held t); [apply andb_true_iff in U as [_ U]|]; exact U).
    destruct (N.eqb (reg t) 0); [destruct (free ow l)|]; inversion H; subst; clear H;
      split; cbn [prog held walk]; auto; intros; discriminate.
  - destruct (held t); [discriminate|]. destruct (free ow l); inversion H; subst; clear H.
    split; cbn [prog held walk]; auto; intros; discriminate.
  - destruct (held t) as [h|] eqn:Eh; [|discriminate].
    set (lc := match walk t with Some l0 => l0 | None => h end) in *.
    destruct (Nat.eqb lc h || free ow lc); inversion H; subst; clear H. apply read_level_uwf.
    + intros j Hh. rewrite Eh in Hh. inversion Hh; subst j.
      subst lc. destruct (walk t) as [l'|] eqn:Ew; [specialize (W _ _ eq_refl eq_refl)|]; lia.
    + rewrite Ep, Eh. cbn [upward_from]. exact U.
    + rewrite Eh. exact U.
  - destruct (held t) as [h|] eqn:Eh; inversion H; subst; clear H.
    split; cbn [prog held walk]; auto; intros; discriminate.
  - destruct (held t) as [h|] eqn:Eh; inversion H; subst; clear H.
    split; cbn [prog held walk]; auto; intros; discriminate.
  - destruct (held t) as [h|] eqn:Eh; [|discriminate].
    destruct (N.eqb (reg t) 0); inversion H; subst; clear H;
      split; cbn [prog held walk]; auto; intros; discriminate.
  - destruct (held t) as [h|] eqn:Eh; inversion H; subst; clear H.
    split; cbn [prog held walk]; auto; intros; discriminate.
Qed.

(** a thread that obeys the order and cannot move is waiting for a locked scope above its own *)
Lemma blocked_wants me st ow t :
  uwf t -> prog t <> [] -> tstep me st ow t = None ->
  exists l, free ow l = false /\ (forall j, held t = Some j -> (j < l)%nat).
Proof.
  unfold tstep. intros [U W] Hp H.
  destruct (prog t) as [|[l k|l k v|l k d|l k v|l|k|k v|k d|k v|] rest] eqn:Ep; [congruence|..];
    cbn [upward_from] in U.
  - set (lc := match walk t with Some l0 => l0 | None => l end) in *.
    destruct (free ow lc) eqn:F; [discriminate|]. exists lc. split; auto.
    intros j Hh. rewrite Hh in U. apply andb_true_iff in U as [U _]. apply Nat.ltb_lt in U.
    subst lc. destruct (walk t) as [l'|] eqn:Ew; [specialize (W _ _ Hh eq_refl)|]; lia.
  - destruct (free ow l) eqn:F; [discriminate|]. exists l. split; auto.
    intros j Hh. rewrite Hh in U. apply andb_true_iff in U as [U _]. apply Nat.ltb_lt in U. exact U.
  - destruct (free ow l) eqn:F; [discriminate|]. exists l. split; auto.
    intros j Hh. rewrite Hh in U. apply andb_true_iff in U as [U _]. apply Nat.ltb_lt in U. exact U.
  - destruct (N.eqb (reg t) 0); [|discriminate].
    destruct (free ow l) eqn:F; [discriminate|]. exists l. split; auto.
    intros j Hh. rewrite Hh in U. apply andb_true_iff in U as [U _]. apply Nat.ltb_lt in U. exact U.
  - destruct (held t); [discriminate|]. destruct (free ow l) eqn:F; [discriminate|].
    exists l. split; auto. intros; discriminate.
  - destruct (held t) as [h|] eqn:Eh; [|discriminate].
    set (lc := match walk t with Some l0 => l0 | None => h end) in *.
    destruct (Nat.eqb lc h || free ow lc) eqn:F; [discriminate|].
    apply orb_false_iff in F as [F1 F2]. exists lc. split; auto.
    intros j Hh. inversion Hh; subst j. apply Nat.eqb_neq in F1.
    subst lc. destruct (walk t) as [l'|] eqn:Ew; [specialize (W _ _ eq_refl eq_refl); lia|congruence].
  - destruct (held t); discriminate.
  - destruct (held t); discriminate.
  - destruct (held t); [|discriminate]. destruct (N.eqb (reg t) 0); discriminate.
  - destruct (held t); discriminate.
Qed.

Definition Inv_up (s : cstate) : Prop :=
  Inv_own s /\ forall i t, nth_error (ths s) i = Some t -> uwf t.

Lemma Inv_up_init st progs : forallb upward progs = true -> Inv_up (init st progs).
Proof.
  intro H. split; [apply Inv_own_init|]. cbn [init ths]. intros i t Ht. rewrite nth_error_map in Ht.
  destruct (nth_error progs i) as [p|] eqn:E; [|discriminate]. inversion Ht; subst.
  split; cbn [held prog walk]; [|intros; discriminate].
  rewrite forallb_forall in H. apply H. eapply nth_error_In; eauto.
Qed.

Lemma step_Inv_up i s s' : Inv_up s -> step i s = Some s' -> Inv_up s'.
Proof.
  intros [IO Hu] Hs. split; [eapply step_Inv_own; eauto|].
  destruct (step_some_thread _ _ _ Hs) as [t Ht].
  destruct (step_inv _ _ _ _ Hs Ht) as (st' & ow' & t' & Hts & ->). cbn [ths].
  apply set_nth_cases; [intros; eapply Hu; eauto|]. eapply tstep_uwf; eauto.
Qed.

Fixpoint maxheld (l : list thread) : nat :=
  match l with
  | [] => 0
  | t :: r => Nat.max (match held t with Some j => j | None => 0 end) (maxheld r)
  end.

Lemma maxheld_ge l : forall i t j, nth_error l i = Some t -> held t = Some j -> (j <= maxheld l)%nat.
Proof.
  induction l as [|a l IH]; intros [|i] t j H Hh; cbn in *; try discriminate.
  - inversion H; subst. rewrite Hh. lia.
  - specialize (IH _ _ _ H Hh). lia.
Qed.

Lemma owner_chain_enabled s : Inv_up s ->
  forall n l o, own s l = Some o -> (maxheld (ths s) - l <= n)%nat -> exists i, step i s <> None.
Proof.
  intros [[A B] Hu] n. induction n as [|n IH]; intros l o Ho Hn.
  - destruct (B _ _ Ho) as (t & Ht & Hh).
    destruct (step o s) eqn:E; [exists o; congruence|]. exfalso.
    unfold step in E. rewrite Ht in E.
    destruct (tstep o (maps s) (own s) t) as [[[? ?] ?]|] eqn:Et; [discriminate|].
    assert (Hp : prog t <> []).
    { intro P. destruct (Hu _ _ Ht) as [U _]. rewrite P, Hh in U. discriminate. }
    destruct (blocked_wants _ _ _ _ (Hu _ _ Ht) Hp Et) as (l2 & F & L). specialize (L _ Hh).
    unfold free in F. destruct (own s l2) as [o2|] eqn:E2; [|discriminate].
    destruct (B _ _ E2) as (t2 & Ht2 & Hh2). pose proof (maxheld_ge _ _ _ _ Ht2 Hh2). lia.
  - destruct (B _ _ Ho) as (t & Ht & Hh).
    destruct (step o s) eqn:E; [exists o; congruence|].
    unfold step in E. rewrite Ht in E.
    destruct (tstep o (maps s) (own s) t) as [[[? ?] ?]|] eqn:Et; [discriminate|].
    assert (Hp : prog t <> []).
    { intro P. destruct (Hu _ _ Ht) as [U _]. rewrite P, Hh in U. discriminate. }
    destruct (blocked_wants _ _ _ _ (Hu _ _ Ht) Hp Et) as (l2 & F & L). specialize (L _ Hh).
    unfold free in F. destruct (own s l2) as [o2|] eqn:E2; [|discriminate].
    apply (IH l2 o2 E2). lia.
Qed.

Theorem upward_no_deadlock st progs sched :
  forallb upward progs = true ->
  let s := run sched (init st progs) in
  all_done s = false -> exists i, step i s <> None.
Proof.
  intros Hup s Hd.
  assert (I : Inv_up s).
  { apply run_inv; [intros; eapply step_Inv_up; eauto|apply Inv_up_init; exact Hup]. }
  unfold all_done in Hd. destruct (Locks.forallb_false_nth _ _ Hd) as (i & t & Ht & Hnd).
  destruct (step i s) eqn:E; [exists i; congruence|].
  unfold step in E. rewrite Ht in E.
  destruct (tstep i (maps s) (own s) t) as [[[? ?] ?]|] eqn:Et; [discriminate|].
  assert (Hp : prog t <> []) by (intro P; unfold done in Hnd; rewrite P in Hnd; discriminate).
  destruct (blocked_wants _ _ _ _ (proj2 I _ _ Ht) Hp Et) as (l2 & F & _).
  unfold free in F. destruct (own s l2) as [o2|] eqn:E2; [|discriminate].
  eapply (owner_chain_enabled s I _ l2 o2 E2). apply Nat.le_refl.
Qed.

(** the order matters: a holder of the parent's locker that reads the child, against a holder of
    the child's locker whose Value falls back to the parent *)
Lemma lock_order_deadlock :
  let s := run [0; 1; 0]%nat (init [[]; [(9, 1)]] [[OLock 0; OLRead 7; OCommit]; [OLock 1; ORead 0 7; OCommit]]) in
  all_done s = false /\ step 0%nat s = None /\ step 1%nat s = None.
Proof. vm_compute. auto. Qed.
