(** Proofs about Model/Copy.v: a tree copy, for EVERY order of the callbacks and EVERY fault plan,
    either reports an error or leaves a complete byte-for-byte copy; without faults and without
    file/directory conflicts it succeeds. *)
From GC Require Import Common.Base Model.Paths Model.Fs Model.Stream Model.Copy
     Proofs.Paths Proofs.Fs Proofs.Stream.
From Coq Require Import Lia Permutation.

(** * Paths *)

(** The walk hands "./a/b" to the callbacks; every filespace reduces it to [a; b]. *)
Lemma reduce_dot_slash x : good_path x = true -> reduce ([DOT; SLASH] ++ join x) = Some x.
Proof.
  intros Hg. unfold reduce. change ([DOT; SLASH] ++ join x) with ([DOT] ++ SLASH :: join x).
  rewrite split_slash_app. change (split_slash [DOT]) with [[DOT]]. simpl app.
  cbn [reduce_comps]. change (is_empty [DOT] || is_dot [DOT]) with true. cbn iota.
  apply (reduce_join x Hg).
Qed.

Lemma good_path_removelast p : good_path p = true -> good_path (removelast p) = true.
Proof.
  intros H. destruct p as [|a p']; [reflexivity|].
  assert (Hne : a :: p' <> []) by discriminate.
  destruct (exists_last Hne) as (l & z & E). rewrite E in *. rewrite removelast_last.
  apply good_path_app in H. tauto.
Qed.

Lemma removelast_app_ne {A} (d x : list A) : x <> [] -> removelast (d ++ x) = d ++ removelast x.
Proof. intros H. apply removelast_app. exact H. Qed.

Lemma app_ne_self {A} (d x : list A) : x <> [] -> d <> d ++ x.
Proof.
  intros Hx E. apply (f_equal (@length A)) in E. rewrite app_length in E.
  destruct x; [congruence|simpl in E; lia].
Qed.

Lemma is_prefix_app_inv d a b : is_prefix (d ++ a) (d ++ b) = is_prefix a b.
Proof. induction d as [|n d IH]; simpl; [reflexivity|]. rewrite bytes_eqb_refl. exact IH. Qed.

Lemma is_prefix_removelast_r q p : is_prefix q (removelast p) = true -> is_prefix q p = true.
Proof.
  destruct p as [|a p']; [auto|]. intros H. apply is_prefix_removelast_l; [discriminate|exact H].
Qed.

Lemma is_prefix_len p q : is_prefix p q = true -> (length p <= length q)%nat.
Proof. intros H. apply is_prefix_spec in H as [s ->]. rewrite app_length. lia. Qed.

Lemma removelast_length {A} (p : list A) : p <> [] -> length p = S (length (removelast p)).
Proof.
  intros H. destruct (exists_last H) as (l & z & ->). rewrite removelast_last, app_length. simpl. lia.
Qed.

(** * Source entries *)

Lemma src_entries_In src s x e : WF src ->
  In (x, e) (src_entries src s) -> x <> [] /\ lookup src (s ++ x) = Some e.
Proof.
  intros HWF Hin. apply In_moved in Hin as (y & Hy & Hq & Hin). simpl in Hq. subst y.
  split; [exact Hy|]. apply In_lookup; assumption.
Qed.

Lemma src_entries_complete src s x e :
  x <> [] -> lookup src (s ++ x) = Some e -> In (x, e) (src_entries src s).
Proof.
  intros Hx Hl. unfold src_entries. apply assoc_In.
  change x with ([] ++ x) at 1. rewrite assoc_moved by exact Hx.
  rewrite lookup_nonroot in Hl; [exact Hl|]. destruct s; [exact Hx|discriminate].
Qed.

Lemma src_good src s x e : WF src -> x <> [] -> lookup src (s ++ x) = Some e -> good_path x = true.
Proof.
  intros HWF Hx Hl. apply lookup_In in Hl; [|destruct s; [exact Hx|discriminate]].
  destruct (WF_entry_good _ _ _ HWF Hl) as [Hg _]. apply good_path_app in Hg. tauto.
Qed.

(** a proper prefix of a source node is a source directory *)
Lemma src_prefix_dir src s y y' e : WF src -> lookup src (s ++ y) = Some e ->
  is_prefix y' y = true -> y' <> y -> lookup src (s ++ y') = Some D.
Proof.
  intros HWF Hl Hp Hne. apply is_prefix_spec in Hp as [sfx ->].
  destruct sfx as [|z sfx]; [rewrite app_nil_r in Hne; congruence|].
  assert (Hd : is_dir_at src (s ++ y') = true).
  { apply (WF_prefix_dir src HWF (z :: sfx) (s ++ y')); [discriminate|].
    unfold exists_at. rewrite <- app_assoc, Hl. reflexivity. }
  unfold is_dir_at in Hd. destruct (lookup src (s ++ y')) as [[|]|]; try discriminate. reflexivity.
Qed.

(** * One MkdirAll *)
Lemma mkdir_step_ok pl dst p c t c' :
  WF dst -> good_path p = true -> mkdir_step pl dst p c = (COk, t, c') ->
  WF t /\ is_dir_at t p = true /\
  (forall q e, lookup dst q = Some e -> lookup t q = Some e) /\
  (forall q, lookup dst q = None -> lookup t q <> None -> lookup t q = Some D /\ is_prefix q p = true).
Proof.
  intros HWF Hg H. unfold mkdir_step in H. destruct (pl _); [discriminate|].
  destruct (mkdir_all dst p) as [t1|] eqn:E; [|discriminate]. inversion H; subst.
  apply (mkdir_all_spec _ _ _ HWF Hg E).
Qed.

Lemma mkdir_chain_ok l : forall t,
  (forall q, In q l -> q <> []) ->
  (forall q, In q l -> lookup t q = None \/ lookup t q = Some D) ->
  exists t', mkdir_chain t l = Some t'.
Proof.
  induction l as [|q l IH]; intros t Hne Hok; simpl; [eauto|].
  destruct (Hok q (or_introl eq_refl)) as [E|E]; rewrite E.
  - apply IH; [intros q' Hin; apply Hne; right; exact Hin|].
    intros q' Hin. rewrite lookup_snoc; [|apply Hne; left; reflexivity|exact E].
    destruct (path_eqb q q'); [right; reflexivity|apply Hok; right; exact Hin].
  - apply IH; [intros q' Hin; apply Hne; right; exact Hin|intros q' Hin; apply Hok; right; exact Hin].
Qed.

Lemma mkdir_all_ok t p :
  (forall q, q <> [] -> is_prefix q p = true -> lookup t q = None \/ lookup t q = Some D) ->
  exists t', mkdir_all t p = Some t'.
Proof.
  intros H. unfold mkdir_all, prefixes. apply mkdir_chain_ok.
  - intros q Hin. destruct (prefixes_from_In _ _ _ Hin) as (a & b & _ & Ha & ->). simpl.
    destruct a; [congruence|discriminate].
  - intros q Hin. destruct (prefixes_from_In _ _ _ Hin) as (a & b & -> & Ha & ->). simpl.
    apply H; [destruct a; [congruence|discriminate]|apply is_prefix_app].
Qed.

(** * One callback *)
Section Tree.
  Variable k : copy_cfg.
  Variable src : fs.
  Variable s d : path.
  Hypothesis HB : (1 <= cc_buf k)%nat.
  Hypothesis HWFs : WF src.
  Hypothesis Hgd : good_path d = true.

  (** a callback that is an entry of the source subtree *)
  Definition sound_cb (c : cb) : Prop :=
    exists x e, c = cb_of (x, e) /\ x <> [] /\ lookup src (s ++ x) = Some e.

  Lemma sound_good c : sound_cb c -> cb_path c <> [] /\ good_path (d ++ cb_path c) = true.
  Proof using All.
    intros (x & e & -> & Hx & Hl). assert (cb_path (cb_of (x, e)) = x) by (destruct e; reflexivity).
    rewrite H. split; [exact Hx|]. apply good_path_app. split; [exact Hgd|]. eapply src_good; eauto.
  Qed.

  Lemma cb_step_ok dst c x t c' :
    WF dst -> cb_path x <> [] -> good_path (d ++ cb_path x) = true ->
    cb_step k src s d dst c x = (COk, t, c') ->
    WF t /\
    match x with
    | CbDir y => lookup t (d ++ y) = Some D
    | CbFile y => exists data, lookup src (s ++ y) = Some (F data) /\ lookup t (d ++ y) = Some (F data)
    end /\
    (forall q e, lookup dst q = Some e ->
                 match x with CbFile y => q <> d ++ y | CbDir _ => True end -> lookup t q = Some e) /\
    (forall q, lookup dst q = None -> lookup t q <> None ->
               is_prefix q (d ++ cb_path x) = true /\ (q <> d ++ cb_path x -> lookup t q = Some D)).
  Proof using All.
    intros HWF Hne Hg H. destruct x as [y|y]; cbn [cb_step cb_path] in *.
    - destruct (mkdir_step_ok _ _ _ _ _ _ HWF Hg H) as (W & Dd & P & N).
      split; [exact W|]. split.
      { unfold is_dir_at in Dd. destruct (lookup t (d ++ y)) as [[|]|]; try discriminate. reflexivity. }
      split; [intros q e Hl _; apply P; exact Hl|].
      intros q Hn Hs. destruct (N q Hn Hs) as [A Bq]. split; [exact Bq|intros _; exact A].
    - assert (Hpar : removelast (d ++ y) = d ++ removelast y) by (apply removelast_app_ne; exact Hne).
      assert (Hnd : d ++ y <> []) by (destruct d; [exact Hne|discriminate]).
      destruct (cc_file_mkdir k).
      + destruct (mkdir_step (cc_plan k) dst (d ++ removelast y) c) as [[r1 t1] c1] eqn:E1.
        destruct r1; try discriminate.
        assert (Hg1 : good_path (d ++ removelast y) = true).
        { rewrite <- Hpar. apply good_path_removelast. exact Hg. }
        destruct (mkdir_step_ok _ _ _ _ _ _ HWF Hg1 E1) as (W1 & D1 & P1 & N1).
        destruct (stream_copy_ok _ _ _ _ _ _ _ _ _ _ _ HB W1 Hg Hnd H) as (data & Sd & W2 & L2 & K2 & N2).
        split; [exact W2|]. split; [exists data; auto|]. split.
        * intros q e Hl Hq. rewrite K2; [apply P1; exact Hl|exact Hq|]. rewrite (P1 _ _ Hl). discriminate.
        * intros q Hn Hs. destruct (path_eqb q (d ++ y)) eqn:Eq.
          { apply path_eqb_spec in Eq. subst q. split; [apply is_prefix_refl|congruence]. }
          apply path_eqb_false in Eq.
          destruct (lookup t1 q) eqn:El1.
          -- assert (E2 : lookup t q = lookup t1 q) by (apply K2; [exact Eq|rewrite El1; discriminate]).
             destruct (N1 q Hn) as [A Bq]; [rewrite El1; discriminate|].
             split; [|intros _; rewrite E2; exact A].
             rewrite <- Hpar in Bq. apply is_prefix_removelast_r. exact Bq.
          -- destruct (N2 q Eq El1 Hs) as [A Bq]. split; [|intros _; exact A].
             apply is_prefix_removelast_r. exact Bq.
      + destruct (stream_copy_ok _ _ _ _ _ _ _ _ _ _ _ HB HWF Hg Hnd H) as (data & Sd & W2 & L2 & K2 & N2).
        split; [exact W2|]. split; [exists data; auto|]. split.
        * intros q e Hl Hq. rewrite K2; [exact Hl|exact Hq|rewrite Hl; discriminate].
        * intros q Hn Hs. destruct (path_eqb q (d ++ y)) eqn:Eq.
          { apply path_eqb_spec in Eq. subst q. split; [apply is_prefix_refl|congruence]. }
          apply path_eqb_false in Eq. destruct (N2 q Eq Hn Hs) as [A Bq]. split; [|intros _; exact A].
          apply is_prefix_removelast_r. exact Bq.
  Qed.

  (** what one callback establishes, for a callback that is a source entry *)
  Lemma cb_step_establishes dst c x e t c' :
    WF dst -> x <> [] -> lookup src (s ++ x) = Some e ->
    cb_step k src s d dst c (cb_of (x, e)) = (COk, t, c') -> lookup t (d ++ x) = Some e.
  Proof using All.
    intros HWF Hx Hl H.
    assert (Hs : sound_cb (cb_of (x, e))) by (exists x, e; auto).
    destruct (sound_good _ Hs) as [Hne Hg].
    destruct (cb_step_ok _ _ _ _ _ HWF Hne Hg H) as (_ & Est & _).
    destruct e as [data|]; cbn [cb_of snd fst] in Est.
    - destruct Est as (data' & A & Bq). rewrite Hl in A. inversion A; subst. exact Bq.
    - exact Est.
  Qed.

  (** a copied node stays copied *)
  Lemma cb_step_persists dst c cb0 t c' x e :
    WF dst -> sound_cb cb0 -> cb_step k src s d dst c cb0 = (COk, t, c') ->
    lookup src (s ++ x) = Some e -> lookup dst (d ++ x) = Some e -> lookup t (d ++ x) = Some e.
  Proof using All.
    intros HWF Hs H Hl Hd. destruct (sound_good _ Hs) as [Hne Hg].
    destruct (cb_step_ok _ _ _ _ _ HWF Hne Hg H) as (_ & Est & P & _).
    destruct cb0 as [y|y].
    - apply P; [exact Hd|exact I].
    - destruct (path_eqb (d ++ x) (d ++ y)) eqn:E.
      + apply path_eqb_spec in E. apply app_inv_head in E. subst y.
        destruct Est as (data & A & Bq). rewrite Hl in A. inversion A; subst. exact Bq.
      + apply path_eqb_false in E. apply P; [exact Hd|exact E].
  Qed.

  (** ** Ok => complete copy, for every callback order and every plan *)
  Theorem run_cbs_ok l : forall dst c t c',
    WF dst -> (forall x, In x l -> sound_cb x) ->
    run_cbs k src s d dst c l = (COk, t, c') ->
    WF t /\
    (forall x e, lookup src (s ++ x) = Some e -> lookup dst (d ++ x) = Some e -> lookup t (d ++ x) = Some e) /\
    (forall x e, In (cb_of (x, e)) l -> x <> [] -> lookup src (s ++ x) = Some e -> lookup t (d ++ x) = Some e) /\
    (forall q e, lookup dst q = Some e -> (forall y, In (CbFile y) l -> q <> d ++ y) -> lookup t q = Some e) /\
    (forall q, lookup dst q = None -> lookup t q <> None ->
               exists x, In x l /\ is_prefix q (d ++ cb_path x) = true).
  Proof using All.
    induction l as [|x l IH]; intros dst c t c' HWF Hs H; cbn [run_cbs] in H.
    - inversion H; subst. split; [exact HWF|]. split; [auto|]. split; [intros ? ? []|]. split; [auto|].
      intros q Hn Hs'. congruence.
    - destruct (cb_step k src s d dst c x) as [[r1 t1] c1] eqn:E1. destruct r1; try discriminate.
      assert (Hsx : sound_cb x) by (apply Hs; left; reflexivity).
      destruct (sound_good _ Hsx) as [Hne Hg].
      destruct (cb_step_ok _ _ _ _ _ HWF Hne Hg E1) as (W1 & Est & P1 & N1).
      destruct (IH t1 c1 t c' W1 (fun y Hy => Hs y (or_intror Hy)) H) as (W & Per & Est' & Fr & New).
      split; [exact W|]. split; [|split; [|split]].
      + intros y e Hl Hd. apply Per; [exact Hl|]. exact (cb_step_persists dst c x t1 c1 y e HWF Hsx E1 Hl Hd).
      + intros y e [Hin|Hin] Hy Hl.
        * subst x. apply Per; [exact Hl|]. exact (cb_step_establishes dst c y e t1 c1 HWF Hy Hl E1).
        * apply Est'; assumption.
      + intros q e Hl Hq. apply Fr.
        * apply P1; [exact Hl|]. destruct x as [y|y]; [exact I|]. apply Hq. left; reflexivity.
        * intros y Hy. apply Hq. right; exact Hy.
      + intros q Hn Hsq. destruct (lookup t1 q) eqn:El1.
        * exists x. split; [left; reflexivity|]. apply N1; [exact Hn|rewrite El1; discriminate].
        * destruct (New q El1 Hsq) as (y & Hy & Hp). exists y. split; [right; exact Hy|exact Hp].
  Qed.
End Tree.

(** * Progress: no fault, no file/directory conflict => every callback succeeds *)
Section Progress.
  Variable k : copy_cfg.
  Variable src : fs.
  Variable s d : path.
  Hypothesis HB : (1 <= cc_buf k)%nat.
  Hypothesis HWFs : WF src.
  Hypothesis Hgd : good_path d = true.
  Hypothesis Hnf : forall f, cc_plan k f = false.
  Hypothesis Hmk : cc_file_mkdir k = true.

  Definition Inv (dst : fs) : Prop :=
    WF dst /\ lookup dst d = Some D /\ no_conflict src s dst d.

  Lemma chain_free dst y' : Inv dst ->
    (forall y'', y'' <> [] -> is_prefix y'' y' = true -> lookup src (s ++ y'') = Some D) ->
    forall q, q <> [] -> is_prefix q (d ++ y') = true -> lookup dst q = None \/ lookup dst q = Some D.
  Proof using All.
    intros (HWF & Hd & Hnc) Hsrc q Hq Hp.
    destruct (is_prefix_comparable q d (d ++ y') Hp (is_prefix_app d y')) as [Hqd|Hdq].
    - right. apply is_prefix_spec in Hqd as [sfx E]. destruct sfx as [|z sfx].
      + rewrite app_nil_r in E. subst q. exact Hd.
      + assert (Hdir : is_dir_at dst q = true).
        { apply (WF_prefix_dir dst HWF (z :: sfx) q); [discriminate|]. unfold exists_at.
          rewrite <- E, Hd. reflexivity. }
        unfold is_dir_at in Hdir. destruct (lookup dst q) as [[|]|]; try discriminate. reflexivity.
    - apply is_prefix_spec in Hdq as [y'' E]. subst q. rewrite is_prefix_app_inv in Hp.
      destruct y'' as [|z y''].
      + rewrite app_nil_r. right. exact Hd.
      + destruct (lookup dst (d ++ z :: y'')) as [e'|] eqn:El; [|left; reflexivity]. right.
        assert (Hzn : z :: y'' <> []) by discriminate.
        pose proof (Hnc (z :: y'') D e' Hzn (Hsrc _ Hzn Hp) El) as Hk.
        destruct e'; [discriminate|reflexivity].
  Qed.

  Lemma step_progress dst c x : Inv dst -> sound_cb src s x ->
    exists t c', cb_step k src s d dst c x = (COk, t, c') /\ Inv t.
  Proof using All.
    intros HI Hs. pose proof HI as (HWF & Hd & Hnc).
    destruct (sound_good k src s d HB HWFs Hgd _ Hs) as [Hne Hg].
    destruct Hs as (y & e & Hx & Hy & Hl).
    (* the step succeeds *)
    assert (Hstep : exists t c', cb_step k src s d dst c x = (COk, t, c')).
    { subst x. destruct e as [data|]; cbn [cb_of snd fst cb_step cb_path] in *.
      - rewrite Hmk.
        assert (Hpar : removelast (d ++ y) = d ++ removelast y) by (apply removelast_app_ne; exact Hy).
        assert (Hg1 : good_path (d ++ removelast y) = true) by (rewrite <- Hpar; apply good_path_removelast; exact Hg).
        assert (Hnd : d ++ y <> []) by (destruct d; [exact Hy|discriminate]).
        destruct (mkdir_all_ok dst (d ++ removelast y)) as [t1 Em].
        { apply (chain_free dst (removelast y) HI). intros y'' Hy'' Hp.
          apply (src_prefix_dir src s y y'' (F data) HWFs Hl); [apply is_prefix_removelast_r; exact Hp|].
          intros ->. apply is_prefix_len in Hp. rewrite (removelast_length y Hy) in Hp. lia. }
        unfold mkdir_step. rewrite Hnf, Em.
        destruct (mkdir_all_spec _ _ _ HWF Hg1 Em) as (W1 & D1 & P1 & N1).
        assert (Hopen : exists d1, writer_open (cc_mkpar k) t1 (d ++ y) = Some d1).
        { unfold writer_open. rewrite Hpar, D1, orb_true_r. unfold write_at. rewrite Hpar.
          rewrite (mkdir_all_idempotent _ _ _ HWF Hg1 Em).
          destruct (lookup dst (d ++ y)) as [e'|] eqn:El.
          - pose proof (Hnc y (F data) e' Hy Hl El) as Hk. destruct e' as [old|]; [|discriminate].
            rewrite (P1 _ _ El). eauto.
          - destruct (lookup t1 (d ++ y)) as [e1|] eqn:E1; [|eauto]. exfalso.
            destruct (N1 (d ++ y) El) as [_ Hp]; [rewrite E1; discriminate|].
            rewrite is_prefix_app_inv in Hp. apply is_prefix_len in Hp.
            rewrite (removelast_length y Hy) in Hp. lia. }
        destruct Hopen as [d1 Ho].
        pose proof (stream_copy_nofault (cc_plan k) (cc_eof k) (cc_mkpar k) (cc_buf k) src t1 (s ++ y) (d ++ y)
                      (bump_mkdir c) data d1 HB Hnf Hl Ho) as Hok.
        destruct (stream_copy_at (cc_plan k) (cc_eof k) (cc_mkpar k) (cc_buf k) src t1 (s ++ y) (d ++ y) (bump_mkdir c))
          as [[r t2] c2]. simpl in Hok. subst r. eauto.
      - destruct (mkdir_all_ok dst (d ++ y)) as [t1 Em].
        { apply (chain_free dst y HI). intros y'' Hy'' Hp.
          destruct (path_eqb y'' y) eqn:E; [apply path_eqb_spec in E; subst; exact Hl|].
          apply path_eqb_false in E. apply (src_prefix_dir src s y y'' D HWFs Hl Hp E). }
        unfold mkdir_step. rewrite Hnf, Em. eauto. }
    destruct Hstep as (t & c' & Hstep). exists t, c'. split; [exact Hstep|].
    assert (Hcp : cb_path x = y) by (subst x; destruct e; reflexivity).
    destruct (cb_step_ok k src s d HB HWFs Hgd dst c x t c' HWF Hne Hg Hstep) as (W & Est & P & N).
    split; [exact W|]. split.
    - apply P; [exact Hd|]. destruct x as [z|z]; [exact I|]. apply app_ne_self. exact Hne.
    - intros x0 e0 e' Hx0 Hl0 Ht.
      assert (Hest : lookup t (d ++ y) = Some e).
      { subst x. exact (cb_step_establishes k src s d HB HWFs Hgd dst c y e t c' HWF Hy Hl Hstep). }
      destruct (path_eqb x0 y) eqn:Exy.
      { apply path_eqb_spec in Exy. subst x0. rewrite Hl in Hl0. inversion Hl0; subst e0.
        rewrite Hest in Ht. inversion Ht; subst. destruct e'; reflexivity. }
      apply path_eqb_false in Exy.
      assert (Hneq : d ++ x0 <> d ++ y) by (intros E; apply app_inv_head in E; contradiction).
      destruct (lookup dst (d ++ x0)) as [e''|] eqn:El.
      + rewrite (P _ _ El) in Ht.
        * inversion Ht; subst. exact (Hnc x0 e0 e' Hx0 Hl0 El).
        * destruct x as [z|z]; [exact I|]. cbn [cb_path] in Hcp. subst z. exact Hneq.
      + destruct (N _ El) as [Hp HD]; [rewrite Ht; discriminate|].
        rewrite Hcp in *. rewrite (HD Hneq) in Ht. inversion Ht; subst e'.
        rewrite is_prefix_app_inv in Hp.
        rewrite (src_prefix_dir src s y x0 e HWFs Hl Hp Exy) in Hl0. inversion Hl0. reflexivity.
  Qed.

  Theorem run_cbs_progress l : forall dst c, Inv dst -> (forall x, In x l -> sound_cb src s x) ->
    exists t c', run_cbs k src s d dst c l = (COk, t, c').
  Proof using All.
    induction l as [|x l IH]; intros dst c HI Hs; cbn [run_cbs]; [eauto|].
    destruct (step_progress dst c x HI (Hs x (or_introl eq_refl))) as (t1 & c1 & E & HI1).
    rewrite E. apply IH; [exact HI1|]. intros y Hy. apply Hs. right. exact Hy.
  Qed.
End Progress.

(** * The callback lists delivered by the walk: permutations of the source entries *)
Lemma perm_sound src s cbs : WF src -> Permutation cbs (cbs_of src s) ->
  forall x, In x cbs -> sound_cb src s x.
Proof.
  intros HWF Hp x Hin. apply (Permutation_in _ Hp) in Hin. unfold cbs_of in Hin.
  apply in_map_iff in Hin as ([y e] & <- & Hin). destruct (src_entries_In src s y e HWF Hin) as [A Bq].
  exists y, e. auto.
Qed.

Lemma perm_complete src s cbs x e : Permutation cbs (cbs_of src s) ->
  x <> [] -> lookup src (s ++ x) = Some e -> In (cb_of (x, e)) cbs.
Proof.
  intros Hp Hx Hl. apply (Permutation_in _ (Permutation_sym Hp)). unfold cbs_of.
  apply in_map. apply src_entries_complete; assumption.
Qed.

Lemma tree_copy_inv k src s d dst l t :
  tree_copy k src s d dst l = (COk, t) ->
  exists c', run_cbs k src s d dst ctr0 l = (COk, t, c') /\
             forall i, (i < n_readdirs l)%nat -> cc_plan k (FReadDir i) = false.
Proof.
  unfold tree_copy. destruct (run_cbs k src s d dst ctr0 l) as [[r t1] c1].
  destruct (existsb _ _) eqn:E; [discriminate|]. intros H. inversion H; subst. exists c1. split; [reflexivity|].
  intros i Hi. destruct (cc_plan k (FReadDir i)) eqn:Ei; [|reflexivity].
  assert (existsb (fun i => cc_plan k (FReadDir i)) (seq 0 (n_readdirs l)) = true).
  { apply existsb_exists. exists i. split; [apply in_seq; lia|exact Ei]. }
  congruence.
Qed.

Theorem treecopy_ok_complete k src s d dst cbs t :
  (1 <= cc_buf k)%nat -> WF src -> WF dst -> good_path d = true ->
  Permutation cbs (cbs_of src s) ->
  tree_copy k src s d dst cbs = (COk, t) ->
  WF t /\
  (forall x e, x <> [] -> lookup src (s ++ x) = Some e -> lookup t (d ++ x) = Some e) /\
  (forall q e, lookup dst q = Some e ->
               (forall y data, lookup src (s ++ y) = Some (F data) -> q <> d ++ y) -> lookup t q = Some e) /\
  (lookup dst d = Some D -> forall q, is_prefix d q = false -> lookup t q = lookup dst q).
Proof.
  intros HB HWFs HWF Hgd Hp H. destruct (tree_copy_inv _ _ _ _ _ _ _ H) as (c' & Hr & _).
  pose proof (perm_sound src s cbs HWFs Hp) as Hs.
  destruct (run_cbs_ok k src s d HB HWFs Hgd cbs dst ctr0 t c' HWF Hs Hr) as (W & _ & Est & Fr & New).
  split; [exact W|]. split; [|split].
  - intros x e Hx Hl. apply Est; [|exact Hx|exact Hl]. apply (perm_complete src s cbs x e Hp Hx Hl).
  - intros q e Hl Hq. apply Fr; [exact Hl|]. intros y Hy.
    destruct (Hs _ Hy) as (y' & e' & Hc & Hy' & Hl'). destruct e' as [data|]; cbn in Hc; inversion Hc; subst.
    apply (Hq y' data Hl').
  - intros Hd q Hq. destruct (lookup dst q) as [e|] eqn:El.
    + apply Fr; [exact El|]. intros y _ ->. rewrite is_prefix_app in Hq. discriminate.
    + destruct (lookup t q) eqn:Et; [|reflexivity]. exfalso.
      destruct (New q El) as (x & Hx & Hpx); [rewrite Et; discriminate|].
      destruct (is_prefix_comparable q d _ Hpx (is_prefix_app d (cb_path x))) as [Hqd|Hdq]; [|congruence].
      apply is_prefix_spec in Hqd as [sfx E]. destruct sfx as [|z sfx].
      * rewrite app_nil_r in E. subst q. congruence.
      * assert (Hdir : is_dir_at dst q = true).
        { apply (WF_prefix_dir dst HWF (z :: sfx) q); [discriminate|]. unfold exists_at. rewrite <- E, Hd. reflexivity. }
        unfold is_dir_at in Hdir. rewrite El in Hdir. discriminate.
Qed.

Theorem treecopy_nofault k src s d dst cbs :
  (1 <= cc_buf k)%nat -> WF src -> WF dst -> good_path d = true ->
  (forall f, cc_plan k f = false) -> cc_file_mkdir k = true ->
  lookup dst d = Some D -> no_conflict src s dst d ->
  Permutation cbs (cbs_of src s) ->
  exists t, tree_copy k src s d dst cbs = (COk, t).
Proof.
  intros HB HWFs HWF Hgd Hnf Hmk Hd Hnc Hp.
  destruct (run_cbs_progress k src s d HB HWFs Hgd Hnf Hmk cbs dst ctr0 (conj HWF (conj Hd Hnc))
              (perm_sound src s cbs HWFs Hp)) as (t & c' & E).
  exists t. unfold tree_copy. rewrite E.
  replace (existsb _ _) with false; [reflexivity|]. symmetry.
  apply not_true_is_false. intros Hex. apply existsb_exists in Hex as (i & _ & Hi). rewrite Hnf in Hi. discriminate.
Qed.

(** * Statements as used by Props/C04.v *)
Lemma writer_exact_full :
  (forall old chunks, writer_result Truncate old chunks = concat chunks) /\
  (forall t s chunks p, WF t -> reduce_node s = Some p -> snd (mem_step t (OWriter s chunks)) = RUnit ->
     let t' := fst (mem_step t (OWriter s chunks)) in
     WF t' /\ lookup t' p = Some (F (concat chunks)) /\
     (forall q, q <> p -> lookup t q <> None -> lookup t' q = lookup t q)).
Proof. split; [exact writer_truncate_exact|exact writer_step_exact]. Qed.

Lemma streamcopy_full :
  (forall pl st mkpar B src dst ps pd c r_dst c',
     (1 <= B)%nat -> WF dst -> good_path pd = true -> pd <> [] ->
     stream_copy_at pl st mkpar B src dst ps pd c = (COk, r_dst, c') ->
     exists data, lookup src ps = Some (F data) /\ WF r_dst /\ lookup r_dst pd = Some (F data) /\
       (forall q, q <> pd -> lookup dst q <> None -> lookup r_dst q = lookup dst q) /\
       (forall q, q <> pd -> lookup dst q = None -> lookup r_dst q <> None ->
                  lookup r_dst q = Some D /\ is_prefix q (removelast pd) = true)) /\
  (forall pl st mkpar B src dst ps pd c data d1,
     (1 <= B)%nat -> (forall f, pl f = false) ->
     lookup src ps = Some (F data) -> writer_open mkpar dst pd = Some d1 ->
     fst (fst (stream_copy_at pl st mkpar B src dst ps pd c)) = COk) /\
  (forall st mkpar B src dst ps pd data f,
     (1 <= B)%nat -> lookup src ps = Some (F data) -> reached data st B f ->
     fst (fst (stream_copy_at (single f) st mkpar B src dst ps pd ctr0)) = CErr).
Proof. split; [exact stream_copy_ok|split; [exact stream_copy_nofault|exact stream_copy_single_fault]]. Qed.

Lemma treecopy_full :
  (forall k src s d dst cbs t,
     (1 <= cc_buf k)%nat -> WF src -> WF dst -> good_path d = true ->
     Permutation cbs (cbs_of src s) ->
     tree_copy k src s d dst cbs = (COk, t) ->
     WF t /\
     (forall x e, x <> [] -> lookup src (s ++ x) = Some e -> lookup t (d ++ x) = Some e) /\
     (forall q e, lookup dst q = Some e ->
                  (forall y data, lookup src (s ++ y) = Some (F data) -> q <> d ++ y) -> lookup t q = Some e) /\
     (lookup dst d = Some D -> forall q, is_prefix d q = false -> lookup t q = lookup dst q)) /\
  (forall k src s d dst cbs,
     (1 <= cc_buf k)%nat -> WF src -> WF dst -> good_path d = true ->
     (forall f, cc_plan k f = false) -> cc_file_mkdir k = true ->
     lookup dst d = Some D -> no_conflict src s dst d ->
     Permutation cbs (cbs_of src s) ->
     exists t, tree_copy k src s d dst cbs = (COk, t)).
Proof. split; [exact treecopy_ok_complete|exact treecopy_nofault]. Qed.
