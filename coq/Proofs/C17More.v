(** C17 proof audit: more theorems about Model/Args.v (all inputs, no bound).

    1. separators: tokens may be separated by ANY run of blanks, tabs and backslash-newline
       pairs (at least one blank between two tokens), with such runs before the first and after
       the last token  (Proofs/Args.v had exactly one space and nothing around);
    2. backslash-newline is a no-op at EVERY point of ANY input at which the splitter is outside
       quotes / heredocs and not behind another backslash  (Proofs/Args.v: only inside a word);
    3. the next call returns the next command: whole scripts through [read_all];
    4. InjectArgs: the pass-through separator, and the entry made for the j-th argument in terms
       of the argument text alone (contains '=' or not), keeping the interleaving;
    5. byte provenance for ALL inputs: every returned argument list, concatenated, is a
       subsequence of the bytes consumed (nothing invented, re-encoded or reordered). *)
From GC Require Import Common.Base Model.Args Proofs.Args.

(** * 1. Separators *)

(** A filler is a run of blanks, tabs and backslash-newline pairs. *)
Fixpoint is_filler (f : bytes) : bool :=
  match f with
  | [] => true
  | c :: f' =>
    if is_blank c then is_filler f'
    else if N.eqb c BSL then
      match f' with
      | d :: f'' => N.eqb d NL && is_filler f''
      | [] => false
      end
    else false
  end.
Definition has_blank (f : bytes) : bool := existsb is_blank f.

Lemma run_bsl_nl s tail :
  s_mode s = Main -> s_esc s = false ->
  run false s (BSL :: NL :: tail) = run false s tail.
Proof.
  destruct s as [args esc sep m]. cbn [s_mode s_esc]. intros Hm He. subst m esc.
  cbn [run]. unfold step at 1; cbn [s_mode s_esc s_sep s_args negb andb].
  change (N.eqb BSL NL) with false. change (is_blank BSL) with false.
  change (N.eqb BSL BSL) with true. cbn iota.
  cbn [run]. unfold step at 1; cbn [s_mode s_esc s_sep s_args negb andb].
  change (N.eqb NL NL) with true. cbn iota. reflexivity.
Qed.

Lemma run_filler_len n : forall f args sep tail,
  (length f <= n)%nat -> is_filler f = true ->
  run false (mkSt args false sep Main) (f ++ tail)
  = run false (mkSt args false (sep || has_blank f) Main) tail.
Proof.
  induction n as [|n IH]; intros f args sep tail Hl Hf.
  - destruct f; [|simpl in Hl; lia]. cbn [app has_blank existsb]. rewrite orb_false_r. reflexivity.
  - destruct f as [|c f].
    { cbn [app has_blank existsb]. rewrite orb_false_r. reflexivity. }
    cbn [is_filler] in Hf. cbn [length] in Hl. destruct (is_blank c) eqn:Eb.
    + cbn [app run]. rewrite step_blank by exact Eb.
      rewrite IH by (assumption || lia).
      cbn [has_blank existsb]. rewrite Eb. cbn [orb]. rewrite orb_true_r. reflexivity.
    + destruct (N.eqb c BSL) eqn:E; [|discriminate]. apply N.eqb_eq in E. subst c.
      destruct f as [|d f]; [discriminate|].
      apply andb_true_iff in Hf as [Hd Hf]. apply N.eqb_eq in Hd. subst d.
      cbn [app]. rewrite run_bsl_nl by reflexivity.
      cbn [length] in Hl. rewrite IH by (assumption || lia).
      cbn [has_blank existsb]. change (is_blank BSL) with false. change (is_blank NL) with false.
      cbn [orb]. reflexivity.
Qed.

Lemma run_filler f args sep tail :
  is_filler f = true ->
  run false (mkSt args false sep Main) (f ++ tail)
  = run false (mkSt args false (sep || has_blank f) Main) tail.
Proof. apply (run_filler_len (length f)). lia. Qed.

(** A command line as a list of (token, filler after it). *)
Fixpoint join_gaps (l : list (bytes * bytes)) : bytes :=
  match l with
  | [] => []
  | (t, g) :: l' => t ++ g ++ join_gaps l'
  end.

(** Every gap is a filler; every gap that is followed by another token contains a blank. *)
Fixpoint gaps_ok (l : list (bytes * bytes)) : bool :=
  match l with
  | [] => true
  | (t, g) :: l' =>
    is_filler g && (match l' with [] => true | _ => has_blank g end) && gaps_ok l'
  end.

(** A token with the gap behind it: a token in the strong sense with any gap, or one in the weak
    sense (a heredoc) whose gap, if not empty, begins with a blank or a tab. *)
Definition gtoken (p : bytes * bytes) (a : bytes) : Prop :=
  token false (fst p) a \/ (wtoken false (fst p) a /\ starts_sep (snd p) = true).

Lemma Forall2_token_gtoken l : forall as_,
  Forall2 (token false) (map fst l) as_ -> Forall2 gtoken l as_.
Proof.
  induction l as [|p l IH]; intros as_ HF; cbn [map] in HF; inversion HF; subst; constructor.
  - left. assumption.
  - apply IH. assumption.
Qed.

Lemma run_tokens_gaps l : forall as_ args x,
  gaps_ok l = true ->
  Forall2 gtoken l as_ ->
  starts_sep x = true ->
  exists sp,
    run false (mkSt args false true Main) (join_gaps l ++ x)
    = run false (mkSt (rev as_ ++ args) false sp Main) x.
Proof.
  induction l as [|[t g] l IH]; intros as_ args x Hok HF Hx.
  - inversion HF; subst. exists true. reflexivity.
  - inversion HF as [|p' a ts' as' Ht HF']; subst.
    cbn [gaps_ok] in Hok. apply andb_true_iff in Hok as [Hok Hok'].
    apply andb_true_iff in Hok as [Hg Hb].
    cbn [join_gaps]. rewrite <- !app_assoc.
    assert (Hrun : forall args0,
      run false (mkSt args0 false true Main) (t ++ g ++ join_gaps l ++ x)
      = run false (mkSt (a :: args0) false false Main) (g ++ join_gaps l ++ x)).
    { intros args0. destruct Ht as [Ht|[Ht Hs]]; cbn [fst snd] in *; [apply Ht|].
      apply Ht. destruct g as [|c g]; [|exact Hs].
      destruct l; [exact Hx|discriminate]. }
    rewrite Hrun.
    rewrite run_filler by exact Hg. cbn [orb].
    destruct l as [|p l].
    + inversion HF'; subst. cbn [join_gaps app rev]. exists (has_blank g). reflexivity.
    + rewrite Hb. destruct (IH as' (a :: args) x Hok' HF' Hx) as [sp Hsp].
      exists sp. rewrite Hsp. cbn [rev]. rewrite <- app_assoc. reflexivity.
Qed.

Lemma run_main_nl args sp r :
  run false (mkSt args false sp Main) (NL :: r) = ROk (rev args) false r.
Proof. reflexivity. Qed.

Theorem read_args_tokens_gaps g0 l as_ r :
  is_filler g0 = true -> gaps_ok l = true ->
  Forall2 gtoken l as_ ->
  read_args (g0 ++ join_gaps l ++ NL :: r) = ROk as_ false r.
Proof.
  intros Hg Hok HF. unfold read_args, init_st.
  rewrite run_filler by exact Hg. cbn [orb].
  destruct (run_tokens_gaps l as_ [] (NL :: r) Hok HF eq_refl) as [sp Hsp].
  rewrite Hsp. rewrite run_main_nl. rewrite app_nil_r, rev_involutive. reflexivity.
Qed.

Theorem read_args_tokens_gaps_eof g0 l as_ :
  is_filler g0 = true -> gaps_ok l = true ->
  Forall2 gtoken l as_ ->
  read_args (g0 ++ join_gaps l) = ROk as_ true [].
Proof.
  intros Hg Hok HF. unfold read_args, init_st.
  rewrite run_filler by exact Hg. cbn [orb].
  destruct (run_tokens_gaps l as_ [] [] Hok HF eq_refl) as [sp Hsp].
  rewrite app_nil_r in Hsp. rewrite Hsp. cbn [run s_mode s_args].
  rewrite app_nil_r, rev_involutive. reflexivity.
Qed.

(** In the property's words: words separated by blanks. *)
Theorem read_args_words_gaps g0 l r :
  is_filler g0 = true -> gaps_ok l = true ->
  forallb good_word (map fst l) = true ->
  read_args (g0 ++ join_gaps l ++ NL :: r) = ROk (map fst l) false r.
Proof.
  intros Hg Hok Hw. apply read_args_tokens_gaps; try assumption.
  apply Forall2_token_gtoken.
  apply Forall2_same. apply Forall_forall. intros w Hin. apply token_word.
  rewrite forallb_forall in Hw. auto.
Qed.

(** The older single-space statement is the special case of one-space gaps. *)
Definition sp_gaps (ts : list bytes) : list (bytes * bytes) :=
  map (fun t => (t, [SP])) ts.
Lemma sp_gaps_ok ts : gaps_ok (sp_gaps ts) = true.
Proof.
  induction ts as [|t ts IH]; [reflexivity|].
  cbn [sp_gaps map gaps_ok]. fold (sp_gaps ts). rewrite IH.
  destruct (sp_gaps ts); reflexivity.
Qed.
Lemma sp_gaps_fst ts : map fst (sp_gaps ts) = ts.
Proof. unfold sp_gaps. rewrite map_map. cbn [fst]. apply map_id. Qed.

(** * 2. Backslash-newline continues the line wherever the splitter is in its main mode *)

(** The state after the splitter consumed [pre] without returning. *)
Fixpoint feed (s : st) (pre : bytes) : option st :=
  match pre with
  | [] => Some s
  | c :: p => match step false s c with Cont s' => feed s' p | _ => None end
  end.

Lemma run_feed pre : forall s s' x,
  feed s pre = Some s' -> run false s (pre ++ x) = run false s' x.
Proof.
  induction pre as [|c pre IH]; intros s s' x H; cbn [feed] in H.
  - inversion H; subst. reflexivity.
  - cbn [app run]. destruct (step false s c) as [s1| | |]; try discriminate. apply IH. exact H.
Qed.

Theorem continuation_anywhere pre s post :
  feed init_st pre = Some s -> s_mode s = Main -> s_esc s = false ->
  read_args (pre ++ BSL :: NL :: post) = read_args (pre ++ post).
Proof.
  intros Hf Hm He. unfold read_args.
  rewrite (run_feed pre _ _ _ Hf). rewrite (run_feed pre _ _ _ Hf).
  apply run_bsl_nl; assumption.
Qed.

(** After a token, and after a token and a filler, the splitter is at such a point. *)
Lemma feed_app pre1 : forall s s1 pre2,
  feed s pre1 = Some s1 -> feed s (pre1 ++ pre2) = feed s1 pre2.
Proof.
  induction pre1 as [|c p IH]; intros s s1 pre2 H; cbn [feed] in H.
  - inversion H; subst. reflexivity.
  - cbn [app feed]. destruct (step false s c) as [s'| | |]; try discriminate. apply IH. exact H.
Qed.

(** * 3. The next call returns the next command *)

(** [cl] is one complete command denoting [args]. *)
Definition is_command (cl : bytes) (args : list bytes) : Prop :=
  read_args (cl ++ [NL]) = ROk args false [].

Lemma app_inv_last_nl (a b : bytes) : a ++ [NL] = b ++ [NL] -> a = b.
Proof. intros H. apply app_inj_tail in H. tauto. Qed.

Theorem command_then_rest cl args :
  is_command cl args -> forall rest, read_args (cl ++ NL :: rest) = ROk args false rest.
Proof.
  intros H rest. destruct (read_args_stops_at_newline _ _ _ H) as [pre [Hp Hr]].
  apply app_inv_last_nl in Hp. subst pre. apply Hr.
Qed.

Definition script (cls : list bytes) : bytes := flat_map (fun cl => cl ++ [NL]) cls.

Theorem read_all_script cls : forall argss last lastargs n,
  Forall2 is_command cls argss ->
  read_args last = ROk lastargs true [] ->
  (length cls < n)%nat ->
  read_all n (script cls ++ last)
  = map (fun a => ROk a false []) argss ++ [ROk lastargs true []].
Proof.
  induction cls as [|cl cls IH]; intros argss last lastargs n HF Hl Hn;
    inversion HF as [|cl' a cls' argss' Hc HF']; subst.
  - destruct n as [|n]; [cbn [length] in Hn; lia|].
    cbn [script flat_map app map read_all]. rewrite Hl. reflexivity.
  - destruct n as [|n]; [lia|]. cbn [length] in Hn.
    cbn [script flat_map]. fold (script cls). rewrite <- !app_assoc. cbn [app read_all].
    rewrite (command_then_rest cl a Hc). cbn [map app]. f_equal.
    apply IH; try assumption. lia.
Qed.

Lemma tokens_is_command g0 l as_ :
  is_filler g0 = true -> gaps_ok l = true ->
  Forall2 gtoken l as_ ->
  is_command (g0 ++ join_gaps l) as_.
Proof.
  intros Hg Hok HF. unfold is_command. rewrite <- app_assoc.
  apply read_args_tokens_gaps; assumption.
Qed.

(** A result with eof leaves nothing; a result is arguments or an error. *)
Theorem read_args_outcome input :
  (exists args eof rest, read_args input = ROk args eof rest /\ (eof = true -> rest = []))
  \/ read_args input = RErr.
Proof.
  destruct (read_args input) as [args eof rest| |] eqn:E.
  - left. exists args, eof, rest. split; [reflexivity|].
    intros He. subst eof. eapply run_eof. exact E.
  - right. reflexivity.
  - exfalso. exact (read_args_total input E).
Qed.

(** * 4. InjectArgs in terms of the argument text *)

Definition has_eq (a : bytes) : bool := existsb (N.eqb EQS) a.

Lemma has_eq_cons c a : has_eq (c :: a) = N.eqb EQS c || has_eq a.
Proof. reflexivity. Qed.

Lemma split_eq_has_eq a :
  match split_eq a with Some _ => true | None => false end = has_eq a.
Proof.
  induction a as [|c a IH]; [reflexivity|].
  cbn [split_eq]. rewrite has_eq_cons. rewrite (N.eqb_sym EQS c).
  destruct (N.eqb c EQS); [reflexivity|]. cbn [orb].
  destruct (split_eq a) as [[k v]|]; exact IH.
Qed.

Lemma has_eq_trim_dash a : has_eq (trim_dash a) = has_eq a.
Proof.
  destruct a as [|c a]; [reflexivity|]. cbn [trim_dash].
  destruct (N.eqb c DASH) eqn:E; [|reflexivity].
  apply N.eqb_eq in E. subst c. reflexivity.
Qed.

(** strings.Contains(arg, '=') *)
Lemma is_named_has_eq a : is_named a = has_eq a.
Proof.
  unfold is_named. rewrite split_eq_has_eq. rewrite !has_eq_trim_dash. reflexivity.
Qed.

Lemma split_eq_app k v : has_eq k = false -> split_eq (k ++ EQS :: v) = Some (k, v).
Proof.
  induction k as [|c k IH]; intros H.
  - reflexivity.
  - rewrite has_eq_cons in H. apply orb_false_iff in H as [H1 H2].
    cbn [app split_eq]. rewrite N.eqb_sym, H1. rewrite IH by exact H2. reflexivity.
Qed.

Lemma trim_dash_app k v : trim_dash (k ++ EQS :: v) = trim_dash k ++ EQS :: v.
Proof.
  destruct k as [|c k]; [reflexivity|]. cbn [app trim_dash]. destruct (N.eqb c DASH); reflexivity.
Qed.

(** key := text before the first '=' without up to two leading dashes; value := text after. *)
Lemma named_kv_spec k v :
  has_eq k = false ->
  named_kv (k ++ EQS :: v) = (KName (trim_dash (trim_dash k)), v).
Proof.
  intros H. unfold named_kv. rewrite !trim_dash_app.
  rewrite split_eq_app; [reflexivity|]. rewrite !has_eq_trim_dash. exact H.
Qed.

Definition count_pos (l : list bytes) : nat := length (filter (fun a => negb (has_eq a)) l).

Lemma inject_from_length args : forall i, length (inject_from i args) = length args.
Proof.
  induction args as [|a l IH]; intros i; [reflexivity|]. cbn [inject_from].
  destruct (split_eq (trim_dash (trim_dash a))) as [[k v]|]; cbn [length]; rewrite IH; reflexivity.
Qed.

(** The j-th argument makes the j-th SetValue call: a named one under its key, a positional one
    under $n where n counts the positional arguments before it. *)
Theorem inject_from_nth args : forall i j a,
  nth_error args j = Some a ->
  nth_error (inject_from i args) j
  = Some (if has_eq a then named_kv a else (KPos (i + count_pos (firstn j args)), a)).
Proof.
  induction args as [|a0 l IH]; intros i j a H.
  - destruct j; discriminate.
  - cbn [inject_from]. pose proof (is_named_has_eq a0) as Hn. unfold is_named in Hn.
    destruct j as [|j].
    + cbn [nth_error] in H. inversion H; subst a0. cbn [firstn count_pos filter length].
      unfold named_kv.
      destruct (split_eq (trim_dash (trim_dash a))) as [[k v]|]; rewrite <- Hn; cbn [nth_error].
      * reflexivity.
      * rewrite Nat.add_0_r. reflexivity.
    + cbn [nth_error] in H. cbn [firstn]. unfold count_pos. cbn [filter]. rewrite <- Hn.
      destruct (split_eq (trim_dash (trim_dash a0))) as [[k v]|]; cbn [negb nth_error].
      * apply IH. exact H.
      * rewrite (IH (S i) j a H). cbn [length]. fold (count_pos (firstn j l)).
        destruct (has_eq a); [reflexivity|]. do 3 f_equal. lia.
Qed.

Lemma separate_args_sep args : forall rest,
  forallb (fun a => negb (is_sep_arg a)) args = true ->
  separate_args (args ++ [DASH; DASH] :: rest) = (args, rest).
Proof.
  induction args as [|a l IH]; intros rest H.
  - reflexivity.
  - cbn [forallb] in H. apply andb_true_iff in H as [Ha H]. apply negb_true_iff in Ha.
    cbn [app separate_args]. rewrite Ha. rewrite IH by exact H. reflexivity.
Qed.

Lemma separate_args_nosep args :
  forallb (fun a => negb (is_sep_arg a)) args = true -> separate_args args = (args, []).
Proof.
  induction args as [|a l IH]; intros H.
  - reflexivity.
  - cbn [forallb] in H. apply andb_true_iff in H as [Ha H]. apply negb_true_iff in Ha.
    cbn [separate_args]. rewrite Ha. rewrite IH by exact H. reflexivity.
Qed.

(** Everything after the FIRST bare -- is passed through untouched, and does not take part in
    the numbering. *)
Theorem inject_args_sep args rest :
  forallb (fun a => negb (is_sep_arg a)) args = true ->
  inject_args (args ++ [DASH; DASH] :: rest) = (inject_from 0 args, rest).
Proof. intros H. unfold inject_args. rewrite separate_args_sep by exact H. reflexivity. Qed.

Theorem inject_args_nosep args :
  forallb (fun a => negb (is_sep_arg a)) args = true ->
  inject_args args = (inject_from 0 args, []).
Proof. intros H. unfold inject_args. rewrite separate_args_nosep by exact H. reflexivity. Qed.

(** * 5. Byte provenance for all inputs *)

Inductive subseq : bytes -> bytes -> Prop :=
| ss_nil b : subseq [] b
| ss_skip c a b : subseq a b -> subseq a (c :: b)
| ss_take c a b : subseq a b -> subseq (c :: a) (c :: b).

Lemma subseq_refl a : subseq a a.
Proof. induction a; constructor; assumption. Qed.

Lemma subseq_trans a b c : subseq a b -> subseq b c -> subseq a c.
Proof.
  intros H1 H2. revert a H1.
  induction H2 as [c|x b c H2 IH|x b c H2 IH]; intros a H1.
  - inversion H1; subst. constructor.
  - apply ss_skip. apply IH. exact H1.
  - inversion H1 as [|y a' b' H|y a' b' H]; subst.
    + constructor.
    + apply ss_skip. apply IH. exact H.
    + apply ss_take. apply IH. exact H.
Qed.

Lemma subseq_skip_l p : forall c d, subseq c d -> subseq c (p ++ d).
Proof. induction p as [|x p IH]; intros c d H; [exact H|]. cbn [app]. apply ss_skip. auto. Qed.

Lemma subseq_app a b c d : subseq a b -> subseq c d -> subseq (a ++ c) (b ++ d).
Proof.
  intros H1 H2. induction H1 as [b|x a b H1 IH|x a b H1 IH]; cbn [app].
  - apply subseq_skip_l. exact H2.
  - apply ss_skip. exact IH.
  - apply ss_take. exact IH.
Qed.

Lemma subseq_app_r a b : subseq a (a ++ b).
Proof.
  rewrite <- (app_nil_r a) at 1. apply subseq_app; [apply subseq_refl|constructor].
Qed.

Lemma subseq_rev a b : subseq a b -> subseq (rev a) (rev b).
Proof.
  induction 1 as [b|x a b H IH|x a b H IH]; cbn [rev].
  - constructor.
  - rewrite <- (app_nil_r (rev a)). apply subseq_app; [exact IH|constructor].
  - apply subseq_app; [exact IH|apply subseq_refl].
Qed.

Lemma subseq_In a b c : subseq a b -> In c a -> In c b.
Proof.
  induction 1 as [b|x a b H IH|x a b H IH]; intros Hin.
  - destruct Hin.
  - right. auto.
  - destruct Hin as [E|Hin]; [left; exact E|right; auto].
Qed.

Lemma subseq_firstn n : forall l : bytes, subseq (firstn n l) l.
Proof.
  induction n as [|n IH]; intros l; [constructor|].
  destruct l as [|x l]; [constructor|]. cbn [firstn]. apply ss_take. apply IH.
Qed.

Lemma subseq_removelast (l : bytes) : subseq (removelast l) l.
Proof.
  induction l as [|x l IH]; [constructor|]. cbn [removelast].
  destruct l as [|y l]; [constructor|]. apply ss_take. exact IH.
Qed.

Lemma subseq_trim_left l : subseq (trim_left l) l.
Proof.
  induction l as [|x l IH]; [constructor|]. cbn [trim_left].
  destruct (is_blank x); [apply ss_skip; exact IH|apply subseq_refl].
Qed.

Lemma subseq_strip_nl l : subseq (strip_nl l) l.
Proof.
  destruct l as [|c l]; [constructor|]. cbn [strip_nl].
  destruct (N.eqb c NL); [apply ss_skip|]; apply subseq_refl.
Qed.

Lemma subseq_trim l : subseq (trim l) l.
Proof.
  unfold trim. rewrite <- (rev_involutive l) at 2. apply subseq_rev.
  eapply subseq_trans; [apply subseq_trim_left|].
  apply subseq_rev. apply subseq_trim_left.
Qed.

(** What the state holds of the bytes consumed so far. *)
Definition flat (s : st) : bytes :=
  match s_mode s with
  | Main | InQuote => concat (rev (s_args s))
  | HereMarker base _ => concat (rev (tl (s_args s))) ++ base
  | HereData base _ v => concat (rev (tl (s_args s))) ++ base ++ v
  end.

Lemma concat_rev_cons (cur : bytes) rest : concat (rev (cur :: rest)) = concat (rev rest) ++ cur.
Proof. cbn [rev]. rewrite concat_app. cbn [concat]. rewrite app_nil_r. reflexivity. Qed.

Lemma here_value_subseq base e v : subseq (here_value base e v) (base ++ v).
Proof.
  unfold here_value. apply subseq_app; [apply subseq_refl|].
  eapply subseq_trans; [apply subseq_trim|].
  eapply subseq_trans; [apply subseq_strip_nl|apply subseq_firstn].
Qed.

Lemma step_flat s c s' : step false s c = Cont s' -> subseq (flat s') (flat s ++ [c]).
Proof.
  unfold step, flat. destruct s as [args esc sep m]; cbn [s_mode s_args s_esc s_sep].
  destruct m as [| |base mk|base e v].
  - destruct (N.eqb c NL).
    { destruct esc; [|discriminate]. intros H; inversion H; subst; cbn [s_mode s_args].
      apply subseq_app_r. }
    destruct (is_blank c).
    { intros H; inversion H; subst; cbn [s_mode s_args]. apply subseq_app_r. }
    destruct (negb esc && N.eqb c BSL).
    { intros H; inversion H; subst; cbn [s_mode s_args]. apply subseq_app_r. }
    assert (Hc : exists cur rest, (if sep then [] :: args else args) = cur :: rest
                                  /\ concat (rev args) = concat (rev rest) ++ cur
                 \/ (if sep then [] :: args else args) = []).
    { destruct sep.
      - exists [], args. left. split; [reflexivity|]. rewrite app_nil_r. reflexivity.
      - destruct args as [|cur rest]; [exists [], []; right; reflexivity|].
        exists cur, rest. left. split; [reflexivity|apply concat_rev_cons]. }
    destruct Hc as (cur & rest & [[Ha Hcat]|Ha]); rewrite Ha; [|discriminate].
    rewrite Hcat.
    destruct (negb esc && N.eqb c QUOTE).
    { intros H; inversion H; subst; cbn [s_mode s_args]. rewrite concat_rev_cons.
      apply subseq_app_r. }
    destruct (negb esc && N.eqb c LT && has_suffix cur [EQS; LT]).
    { intros H; inversion H; subst; cbn [s_mode s_args tl].
      rewrite <- app_assoc. apply subseq_app; [apply subseq_refl|].
      eapply subseq_trans; [apply subseq_removelast|apply subseq_app_r]. }
    intros H; inversion H; subst; cbn [s_mode s_args]. rewrite concat_rev_cons.
    rewrite app_assoc. apply subseq_refl.
  - destruct args as [|cur rest]; [discriminate|].
    destruct (negb esc && N.eqb c QUOTE).
    { intros H; inversion H; subst; cbn [s_mode s_args]. apply subseq_app_r. }
    destruct (N.eqb c BSL).
    { intros H; inversion H; subst; cbn [s_mode s_args]. apply subseq_app_r. }
    intros H; inversion H; subst; cbn [s_mode s_args]. rewrite !concat_rev_cons.
    rewrite app_assoc. apply subseq_refl.
  - destruct (N.eqb c NL) eqn:En.
    { destruct mk; [discriminate|]. apply N.eqb_eq in En. subst c.
      intros H; inversion H; subst; cbn [s_mode s_args].
      rewrite <- app_assoc. apply subseq_refl. }
    destruct (is_marker_char c).
    { intros H; inversion H; subst; cbn [s_mode s_args]. apply subseq_app_r. }
    destruct (is_blank c); [|discriminate].
    intros H; inversion H; subst; cbn [s_mode s_args]. apply subseq_app_r.
  - destruct (has_suffix v e && (is_blank c || N.eqb c NL)).
    + destruct args as [|cur rest]; [discriminate|]. destruct (N.eqb c NL); [discriminate|].
      intros H; inversion H; subst; cbn [s_mode s_args tl]. rewrite concat_rev_cons.
      eapply subseq_trans; [|apply subseq_app_r].
      apply subseq_app; [apply subseq_refl|]. apply here_value_subseq.
    + intros H; inversion H; subst; cbn [s_mode s_args].
      rewrite <- !app_assoc. apply subseq_refl.
Qed.

Lemma step_return_flat s c args :
  step false s c = Return args -> subseq (concat args) (flat s).
Proof.
  unfold step, flat. destruct s as [a esc sep m]; cbn [s_mode s_args s_esc s_sep].
  destruct m as [| |base mk|base e v].
  - destruct (N.eqb c NL).
    { destruct esc; [discriminate|]. intros H; inversion H. apply subseq_refl. }
    destruct (is_blank c); [discriminate|].
    destruct (negb esc && N.eqb c BSL); [discriminate|].
    destruct (if sep then [] :: a else a); [discriminate|].
    destruct (negb esc && N.eqb c QUOTE); [discriminate|].
    destruct (negb esc && N.eqb c LT && has_suffix l [EQS; LT]); discriminate.
  - destruct a; [discriminate|].
    destruct (negb esc && N.eqb c QUOTE); [discriminate|].
    destruct (N.eqb c BSL); discriminate.
  - destruct (N.eqb c NL); [destruct mk; discriminate|].
    destruct (is_marker_char c); [discriminate|].
    destruct (is_blank c); discriminate.
  - destruct (has_suffix v e && (is_blank c || N.eqb c NL)); [|discriminate].
    destruct a as [|cur rest]; [discriminate|]. destruct (N.eqb c NL); [|discriminate].
    intros H; injection H as <-. cbn [tl]. rewrite concat_app. cbn [concat]. rewrite app_nil_r.
    apply subseq_app; [apply subseq_refl|]. apply here_value_subseq.
Qed.

Lemma run_provenance input : forall s acc args eof rest,
  subseq (flat s) acc ->
  run false s input = ROk args eof rest ->
  exists pre, input = pre ++ rest /\ subseq (concat args) (acc ++ pre).
Proof.
  induction input as [|c input IH]; intros s acc args eof rest Hs H; cbn [run] in H.
  - unfold flat in Hs. destruct (s_mode s); try discriminate.
    + inversion H; subst. exists []. split; [reflexivity|]. rewrite app_nil_r. exact Hs.
    + destruct (has_suffix value eofseq); [|discriminate].
      destruct (s_args s) as [|cur rest0]; [discriminate|]. inversion H; subst.
      exists []. split; [reflexivity|]. rewrite app_nil_r.
      eapply subseq_trans; [|exact Hs]. cbn [tl rev]. rewrite concat_app. cbn [concat].
      rewrite app_nil_r.
      apply subseq_app; [apply subseq_refl|]. apply here_value_subseq.
  - destruct (step false s c) as [s'|a| |] eqn:E; try discriminate.
    + destruct (IH s' (acc ++ [c]) args eof rest) as [pre [Hp Hq]].
      * eapply subseq_trans; [apply (step_flat _ _ _ E)|].
        apply subseq_app; [exact Hs|apply subseq_refl].
      * exact H.
      * exists (c :: pre). split; [cbn [app]; f_equal; exact Hp|].
        rewrite <- app_assoc in Hq. exact Hq.
    + inversion H; subst. exists [c]. split; [reflexivity|].
      eapply subseq_trans; [apply (step_return_flat _ _ _ E)|].
      eapply subseq_trans; [exact Hs|apply subseq_app_r].
Qed.

(** Whatever the input: the returned arguments, concatenated in order, are a subsequence of
    the bytes consumed - no byte is invented, re-encoded, duplicated or reordered. *)
Theorem read_args_provenance input args eof rest :
  read_args input = ROk args eof rest ->
  exists pre, input = pre ++ rest /\ subseq (concat args) pre.
Proof.
  intros H. destruct (run_provenance input init_st [] args eof rest) as [pre [Hp Hq]].
  - constructor.
  - exact H.
  - exists pre. split; assumption.
Qed.

Theorem read_args_bytes_from_input input args eof rest a c :
  read_args input = ROk args eof rest -> In a args -> In c a -> In c input.
Proof.
  intros H Ha Hc. destruct (read_args_provenance _ _ _ _ H) as [pre [Hp Hq]].
  subst input. apply in_or_app. left. eapply subseq_In; [exact Hq|].
  apply in_concat. exists a. split; assumption.
Qed.

(** * 6. Heredocs: the terminator in terms of the text (repair F40) *)

(** [term_prefix M w]: [w] begins with the marker followed by a blank, a tab or a newline. *)
Definition term_prefix (M w : bytes) : bool :=
  has_prefix w M && match skipn (length M) w with c :: _ => is_sepb c | [] => false end.

(** No newline of [w] is directly followed by the marker and a separator byte. *)
Fixpoint no_term (M w : bytes) : bool :=
  match w with
  | [] => true
  | c :: w' => (if N.eqb c NL then negb (term_prefix M w') else true) && no_term M w'
  end.

Lemma has_suffix_inv l s : has_suffix l s = true -> exists p, l = p ++ s.
Proof.
  unfold has_suffix. destruct (Nat.ltb (length l) (length s)); [discriminate|].
  intros H. apply bytes_eqb_spec in H. exists (firstn (length l - length s) l).
  rewrite <- H at 2. symmetry. apply firstn_skipn.
Qed.

Lemma sepb_not_marker c : is_sepb c = true -> is_marker_char c = false.
Proof.
  unfold is_sepb, is_blank. intros H.
  apply orb_true_iff in H as [H|H]; [apply orb_true_iff in H as [H|H]|];
    apply N.eqb_eq in H; subst c; reflexivity.
Qed.

Lemma marker_In M c : forallb is_marker_char M = true -> In c M -> is_marker_char c = true.
Proof. intros HM Hin. rewrite forallb_forall in HM. auto. Qed.

(** If the marker and a separator byte stand in front of [w ++ X], X made of marker bytes, they
    stand in front of [w]. *)
Lemma term_prefix_from_eq M : forall w X c r,
  forallb is_marker_char X = true -> is_sepb c = true ->
  w ++ X = M ++ c :: r -> term_prefix M w = true.
Proof.
  induction M as [|m M IH]; intros w X c r HX Hc H.
  - cbn [app] in H. destruct w as [|c' w]; cbn [app] in H.
    + subst X. cbn [forallb] in HX. apply andb_true_iff in HX as [HX _].
      rewrite (sepb_not_marker _ Hc) in HX. discriminate.
    + injection H as Hc' _. subst c'. unfold term_prefix. cbn [has_prefix length skipn andb].
      exact Hc.
  - destruct w as [|c' w]; cbn [app] in H.
    + exfalso. assert (Hin : In c X) by (rewrite H; right; apply in_or_app; right; left; reflexivity).
      pose proof (marker_In X c HX Hin) as Hm. rewrite (sepb_not_marker _ Hc) in Hm. discriminate.
    + injection H as Hc' H. subst c'.
      specialize (IH w X c r HX Hc H). unfold term_prefix in *.
      cbn [has_prefix length skipn]. rewrite N.eqb_refl. cbn [andb]. exact IH.
Qed.

Lemma no_term_occurrence M p1 : forall w c r,
  forallb is_marker_char M = true -> no_term M w = true ->
  w ++ M = p1 ++ NL :: M ++ c :: r -> is_sepb c = false.
Proof.
  induction p1 as [|x p1 IH]; intros w c r HM Hn H.
  - cbn [app] in H. destruct w as [|c0 w]; cbn [app] in H.
    + exfalso. assert (Hin : In NL M) by (rewrite H; left; reflexivity).
      pose proof (marker_In M NL HM Hin) as Hm. discriminate.
    + injection H as Hc0 H. subst c0. cbn [no_term] in Hn. rewrite N.eqb_refl in Hn.
      apply andb_true_iff in Hn as [Hn _]. apply negb_true_iff in Hn.
      destruct (is_sepb c) eqn:Hc; [|reflexivity].
      rewrite (term_prefix_from_eq M w M c r HM Hc H) in Hn. discriminate.
  - destruct w as [|c0 w]; cbn [app] in H.
    + exfalso. assert (Hin : In NL M).
      { rewrite H. right. apply in_or_app. right. left. reflexivity. }
      pose proof (marker_In M NL HM Hin) as Hm. discriminate.
    + injection H as _ H. cbn [no_term] in Hn. apply andb_true_iff in Hn as [_ Hn].
      exact (IH w c r HM Hn H).
Qed.

Lemma no_early_from_occurrences M : forall x p,
  (forall p1 c r, NL :: p ++ x = p1 ++ NL :: M ++ c :: r -> is_sepb c = false) ->
  no_early (NL :: M) (NL :: p) x = true.
Proof.
  induction x as [|c x IH]; intros p Hocc; [reflexivity|].
  cbn [no_early]. apply andb_true_iff. split.
  - apply negb_true_iff. destruct (has_suffix (NL :: p) (NL :: M)) eqn:E; [|reflexivity].
    cbn [andb]. apply has_suffix_inv in E as [p1 Hp].
    apply (Hocc p1 c x). change (NL :: p ++ c :: x) with ((NL :: p) ++ c :: x). rewrite Hp.
    rewrite <- app_assoc. reflexivity.
  - change (NL :: p ++ [c]) with (NL :: (p ++ [c])). apply IH. intros p1 c1 r H.
    apply (Hocc p1 c1 r). rewrite <- H. rewrite <- app_assoc. reflexivity.
Qed.

Lemma no_term_no_early M u :
  forallb is_marker_char M = true -> no_term M (NL :: u) = true ->
  no_early (NL :: M) [NL] (u ++ M) = true.
Proof.
  intros HM Hn. apply (no_early_from_occurrences M (u ++ M) []). intros p1 c r H.
  apply (no_term_occurrence M p1 (NL :: u) c r HM Hn). exact H.
Qed.

(** A heredoc argument comes back as the text between the marker lines, trimmed, for EVERY text
    in which no newline - the one before the text included - is directly followed by the marker
    and a blank, a tab or a newline. *)
Theorem token_heredoc_text q k M t :
  good_word (k ++ [EQS; LT]) = true ->
  M <> [] -> forallb is_marker_char M = true ->
  no_term M (NL :: t ++ [NL]) = true ->
  wtoken q (k ++ [EQS; LT; LT] ++ M ++ NL :: t ++ NL :: M) (k ++ EQS :: trim t).
Proof.
  intros Hk Hne HM Hn. apply token_heredoc; try assumption.
  replace (t ++ NL :: M) with ((t ++ [NL]) ++ M) by (rewrite <- app_assoc; reflexivity).
  apply no_term_no_early; assumption.
Qed.

(** The empty heredoc: the marker line directly behind the opening line. *)
Theorem token_heredoc_empty q k M :
  good_word (k ++ [EQS; LT]) = true ->
  M <> [] -> forallb is_marker_char M = true ->
  wtoken q (k ++ [EQS; LT; LT] ++ M ++ NL :: M) (k ++ [EQS]).
Proof.
  intros Hk Hne HM.
  pose proof (token_heredoc_gen q k M [] Hk Hne HM) as H. cbn [app] in H.
  rewrite here_value_empty in H. apply H.
  - apply (no_term_no_early M [] HM). destruct M; [congruence|reflexivity].
  - apply (has_suffix_app [] (NL :: M)).
Qed.

(** ** The same condition line by line *)

Fixpoint lines (s : bytes) : list bytes :=
  match s with
  | [] => [[]]
  | c :: s' =>
    if N.eqb c NL then [] :: lines s'
    else match lines s' with
         | l :: ls => (c :: l) :: ls
         | [] => [[c]]
         end
  end.

(** A terminator line: the marker, then nothing or a blank or a tab. *)
Definition term_line (M l : bytes) : bool :=
  has_prefix l M && match skipn (length M) l with [] => true | c :: _ => is_blank c end.

Lemma lines_nonempty t : exists l ls, lines t = l :: ls.
Proof.
  induction t as [|c t [l [ls IH]]]; cbn [lines]; [eauto|].
  destruct (N.eqb c NL); [eauto|]. rewrite IH. eauto.
Qed.

Lemma term_prefix_hd_line M : forall t,
  forallb is_marker_char M = true ->
  term_prefix M (t ++ [NL]) = term_line M (hd [] (lines t)).
Proof.
  induction M as [|m M IH]; intros t HM.
  - unfold term_prefix, term_line. cbn [has_prefix length skipn andb].
    destruct t as [|c t]; [reflexivity|]. cbn [app lines]. unfold is_sepb.
    destruct (N.eqb c NL) eqn:En.
    + cbn [hd]. rewrite orb_true_r. destruct (lines t); reflexivity.
    + rewrite orb_false_r. destruct (lines_nonempty t) as [l [ls E]]. rewrite E. reflexivity.
  - cbn [forallb] in HM. apply andb_true_iff in HM as [Hm HM].
    pose proof (marker_not_nl _ Hm) as Hmn.
    destruct t as [|c t]; cbn [app lines].
    + unfold term_prefix, term_line. cbn [has_prefix hd]. rewrite Hmn. reflexivity.
    + destruct (N.eqb c NL) eqn:En.
      * apply N.eqb_eq in En. subst c. unfold term_prefix, term_line. cbn [has_prefix hd].
        rewrite Hmn. reflexivity.
      * destruct (lines_nonempty t) as [l [ls E]]. rewrite E. cbn [hd].
        specialize (IH t HM). rewrite E in IH. cbn [hd] in IH.
        unfold term_prefix, term_line in *. cbn [has_prefix length skipn].
        rewrite <- !andb_assoc. rewrite IH. reflexivity.
Qed.

Lemma no_term_tl_lines M : forall t,
  forallb is_marker_char M = true ->
  no_term M (t ++ [NL]) = forallb (fun l => negb (term_line M l)) (tl (lines t)).
Proof.
  intros t HM. induction t as [|c t IH].
  - cbn [app no_term lines tl forallb]. change (N.eqb NL NL) with true. cbn iota.
    unfold term_prefix. destruct M; reflexivity.
  - cbn [app no_term lines]. destruct (N.eqb c NL) eqn:En.
    + cbn [tl]. rewrite IH. rewrite (term_prefix_hd_line M t HM).
      destruct (lines_nonempty t) as [l [ls E]]. rewrite E. reflexivity.
    + cbn [andb]. rewrite IH. destruct (lines_nonempty t) as [l [ls E]]. rewrite E. reflexivity.
Qed.

Theorem no_term_lines M t :
  forallb is_marker_char M = true ->
  no_term M (NL :: t ++ [NL]) = forallb (fun l => negb (term_line M l)) (lines t).
Proof.
  intros HM. cbn [no_term]. change (N.eqb NL NL) with true. cbn iota.
  rewrite (term_prefix_hd_line M t HM), (no_term_tl_lines M t HM).
  destruct (lines_nonempty t) as [l [ls E]]. rewrite E. reflexivity.
Qed.

(** The clause in the property's words, now a theorem: the text between the marker lines comes
    back (trimmed) for every text none of whose lines is the marker followed by nothing, a
    blank or a tab. *)
Theorem token_heredoc_lines q k M t :
  good_word (k ++ [EQS; LT]) = true ->
  M <> [] -> forallb is_marker_char M = true ->
  forallb (fun l => negb (term_line M l)) (lines t) = true ->
  wtoken q (k ++ [EQS; LT; LT] ++ M ++ NL :: t ++ NL :: M) (k ++ EQS :: trim t).
Proof.
  intros Hk Hne HM Hl. apply token_heredoc_text; try assumption.
  rewrite no_term_lines by exact HM. exact Hl.
Qed.

(** ** Regression witnesses for the scanner before the repair F40 ([run_hd_old]) and their
       counterparts on the repaired one.  Before: a line that merely begins with the marker ended
       the heredoc, the rest of that line was glued to the value and the real marker line was read
       as the next command; an empty heredoc swallowed the commands behind it. *)
Definition heredoc_by_lines_old : Prop :=
  forall k M t,
    good_word (k ++ [EQS; LT]) = true ->
    M <> [] -> forallb is_marker_char M = true ->
    ~ In M (lines t) ->
    forall args tail,
      run_hd_old (mkSt args false true Main) ((k ++ [EQS; LT; LT] ++ M ++ NL :: t ++ NL :: M) ++ tail)
      = run_hd_old (mkSt ((k ++ EQS :: trim t) :: args) false false Main) tail.

Theorem heredoc_by_lines_old_refuted : ~ heredoc_by_lines_old.
Proof.
  intros H.
  specialize (H [107] [69; 79; 70] [97; 10; 69; 79; 70; 88] eq_refl).
  assert (H' := H ltac:(discriminate) eq_refl).
  assert (Hl : ~ In [69; 79; 70] (lines [97; 10; 69; 79; 70; 88])).
  { cbn. intros [E|[E|[]]]; discriminate. }
  specialize (H' Hl [] [NL]). vm_compute in H'. discriminate.
Qed.

(** k=<<EOF NL a NL EOFX NL EOF NL  was read as the commands  [k=aX]  and  [EOF] ... *)
Theorem heredoc_marker_prefix_old_witness :
  read_all_hd_old 3 [107; 61; 60; 60; 69; 79; 70; 10; 97; 10; 69; 79; 70; 88; 10; 69; 79; 70; 10]
  = [ROk [[107; 61; 97; 88]] false []; ROk [[69; 79; 70]] false []; ROk [] true []].
Proof. vm_compute. reflexivity. Qed.
(** ... and is now the one command  [k=a NL EOFX]. *)
Theorem heredoc_marker_prefix_fixed :
  read_all 3 [107; 61; 60; 60; 69; 79; 70; 10; 97; 10; 69; 79; 70; 88; 10; 69; 79; 70; 10]
  = [ROk [[107; 61; 97; 10; 69; 79; 70; 88]] false []; ROk [] true []].
Proof. vm_compute. reflexivity. Qed.

(** k=<<EOF NL EOF NL next NL  was an error at the end of the input ... *)
Theorem heredoc_empty_old_witness :
  read_args_hd_old [107; 61; 60; 60; 69; 79; 70; 10; 69; 79; 70; 10; 110; 101; 120; 116; 10] = RErr.
Proof. vm_compute. reflexivity. Qed.
(** ... and is now the commands  [k=]  and  [next]. *)
Theorem heredoc_empty_fixed :
  read_all 3 [107; 61; 60; 60; 69; 79; 70; 10; 69; 79; 70; 10; 110; 101; 120; 116; 10]
  = [ROk [[107; 61]] false []; ROk [[110; 101; 120; 116]] false []; ROk [] true []].
Proof. vm_compute. reflexivity. Qed.

(** A heredoc is a token only in the weak sense: behind the marker the text goes on unless a
    blank, a tab, a newline or the end of the input follows. *)
Theorem heredoc_not_strong_token :
  ~ token false [107; 61; 60; 60; 69; 10; 97; 10; 69] [107; 61; 97].
Proof. intros H. specialize (H [] [88; 10]). vm_compute in H. discriminate. Qed.

(** Inside a double-quoted section a backslash is never delivered: quoting that escapes the
    backslash INSIDE the quotes loses it (which is why the reference quoting function emits it
    outside). *)
Definition quote1_naive (a : bytes) : bytes :=
  QUOTE :: flat_map (fun c => if N.eqb c QUOTE || N.eqb c BSL then [BSL; c] else [c]) a ++ [QUOTE].

Theorem quote1_naive_refuted : ~ (forall a, token false (quote1_naive a) a).
Proof.
  intros H. specialize (H [97; BSL; 98] [] [NL]). vm_compute in H. discriminate.
Qed.
