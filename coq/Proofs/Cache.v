(** Proofs about Model/Cache.v: the write-back cache behaves as a plain tree on top of the
    remote (read-your-writes), never touches the remote before Commit, and Commit makes the
    remote equal to the view. *)
From GC Require Import Common.Base Model.Paths Model.Fs Model.Cache Proofs.Paths Proofs.Fs.

(** * The remote is untouched by every operation other than Commit *)
Lemma c_write_R c p d : cR (fst (c_write c p d)) = cR c.
Proof. unfold c_write. destruct (check_dest c p false); [|reflexivity]. destruct (write_at (cB c) p d); reflexivity. Qed.

Lemma c_mkdir_R c p : cR (fst (c_mkdir c p)) = cR c.
Proof.
  unfold c_mkdir. destruct p; [reflexivity|]. destruct (check_dest c (n :: p) true); [|reflexivity].
  destruct (mkdir_all (cB c) (n :: p)); reflexivity.
Qed.

Lemma copy_entries_R l : forall c dst, cR (fst (copy_entries c dst l)) = cR c.
Proof.
  induction l as [|[rel e] l IH]; intros c dst; simpl; [reflexivity|].
  destruct e as [data|].
  - destruct (c_mkdir c (dst ++ removelast rel)) as [c0 r0] eqn:E0.
    assert (H0 : cR c0 = cR c) by (rewrite <- (c_mkdir_R c (dst ++ removelast rel)), E0; reflexivity).
    destruct r0; try (simpl; exact H0).
    destruct (c_write c0 (dst ++ rel) data) as [c1 r1] eqn:E1.
    assert (H1 : cR c1 = cR c) by (rewrite <- H0, <- (c_write_R c0 (dst ++ rel) data), E1; reflexivity).
    destruct r1; try (simpl; exact H1). rewrite IH. exact H1.
  - destruct (c_mkdir c (dst ++ rel)) as [c1 r1] eqn:E1.
    assert (H1 : cR c1 = cR c) by (rewrite <- (c_mkdir_R c (dst ++ rel)), E1; reflexivity).
    destruct r1; try (simpl; exact H1). rewrite IH. exact H1.
Qed.

Lemma c_copy_R c s d : cR (fst (c_copy c s d)) = cR c.
Proof.
  unfold c_copy. destruct s as [|n s]; [reflexivity|].
  destruct (is_prefix (n :: s) d); [reflexivity|].
  destruct (vlookup c (n :: s)) as [[data|]|]; [apply c_write_R| |reflexivity].
  destruct (c_mkdir c d) as [c1 r1] eqn:E1.
  assert (H1 : cR c1 = cR c) by (rewrite <- (c_mkdir_R c d), E1; reflexivity).
  destruct r1; try (simpl; exact H1). rewrite copy_entries_R. exact H1.
Qed.

Lemma c_remove_R c p : cR (fst (c_remove c p)) = cR c.
Proof.
  unfold c_remove. destruct p; [reflexivity|].
  destruct (negb (v_exists c (n :: p))); [reflexivity|].
  destruct (v_dir c (n :: p) && _); [reflexivity|].
  destruct (exists_at (cB c) (n :: p)); [|reflexivity].
  destruct (remove_at (cB c) (n :: p)); reflexivity.
Qed.

Lemma c_remove_all_R c p : cR (fst (c_remove_all c p)) = cR c.
Proof.
  unfold c_remove_all. destruct p; [reflexivity|].
  destruct (exists_at (cB c) (n :: p)); [|reflexivity].
  destruct (remove_all_at (cB c) (n :: p)); reflexivity.
Qed.

(** While operations are applied to a cache, the remote filespace is not modified at all. *)
Theorem cache_op_remote_untouched c o : cR (fst (cache_step c (COp o))) = cR c.
Proof.
  destruct o; simpl; unfold on1;
  repeat match goal with |- context [match cnorm ?s with _ => _ end] => destruct (cnorm s) end;
  try reflexivity;
  try apply c_copy_R; try apply c_mkdir_R; try apply c_write_R; try apply c_remove_R; try apply c_remove_all_R.
  - destruct (v_dir c p); [apply c_copy_R|reflexivity].
  - destruct (v_file c p); [apply c_copy_R|reflexivity].
Qed.

Theorem cache_fault_remote_kept c : fst (cache_step c CCommitFault) = c.
Proof. reflexivity. Qed.

Theorem run_ops_remote_untouched l : forall c,
  cR (run_cache c (map COp l)) = cR c.
Proof.
  induction l as [|o l IH]; intros c; simpl; [reflexivity|].
  rewrite IH. apply cache_op_remote_untouched.
Qed.

(** * The invariant that makes the view a plain tree *)
Record Inv (c : cache) : Prop := mkInv {
  inv_B : WF (cB c);
  inv_R : WF (cR c);
  inv_T : forall t, In t (cT c) -> t <> [];
  inv_dir : forall p, lookup (cB c) p = Some D -> forall d, vis c p <> Some (F d);
  inv_file : forall p d, lookup (cB c) p = Some (F d) ->
             vis c p <> Some D /\ forall x, x <> [] -> vis c (p ++ x) = None
}.

Lemma masked_spec T p : masked T p = true <-> exists t, In t T /\ is_prefix t p = true.
Proof. unfold masked. rewrite existsb_exists. tauto. Qed.

Lemma masked_app T a x : masked T a = true -> masked T (a ++ x) = true.
Proof.
  rewrite !masked_spec. intros (t & Ht & Hp). exists t. split; [exact Ht|].
  eapply is_prefix_trans; [exact Hp|apply is_prefix_app].
Qed.

Lemma masked_root T : (forall t, In t T -> t <> []) -> masked T [] = false.
Proof.
  intros H. destruct (masked T []) eqn:E; [|reflexivity].
  apply masked_spec in E as (t & Ht & Hp). destruct t; [exfalso; exact (H [] Ht eq_refl)|discriminate].
Qed.

Lemma Inv_new r : WF r -> Inv (new_cache r).
Proof.
  intros H. constructor; simpl; try exact H; try exact WF_nil.
  - intros t [].
  - intros p Hp. destruct p; simpl in Hp; discriminate || (unfold vis; simpl; discriminate).
  - intros p d Hp. destruct p; simpl in Hp; discriminate.
Qed.

(** A visible remote node has a visible remote directory as parent chain. *)
Lemma vis_prefix_dir c a x : WF (cR c) -> x <> [] -> vis c (a ++ x) <> None -> vis c a = Some D.
Proof.
  unfold vis. intros HWF Hx H.
  destruct (masked (cT c) (a ++ x)) eqn:Em; [congruence|].
  destruct (masked (cT c) a) eqn:Ea; [rewrite (masked_app _ a x Ea) in Em; discriminate|].
  pose proof (WF_prefix_dir (cR c) HWF x a Hx) as Hd.
  unfold exists_at, is_dir_at in Hd. destruct (lookup (cR c) (a ++ x)); [|congruence].
  specialize (Hd eq_refl). destruct (lookup (cR c) a) as [[|]|]; try discriminate. reflexivity.
Qed.

(** The view is prefix closed: whatever is visible lives in visible directories. *)
Theorem view_prefix_dir c a x : Inv c -> x <> [] -> vlookup c (a ++ x) <> None -> vlookup c a = Some D.
Proof.
  intros I Hx H. unfold vlookup in *.
  destruct (lookup (cB c) (a ++ x)) eqn:Eb.
  - (* buffered: its ancestors are buffered directories *)
    pose proof (WF_prefix_dir (cB c) (inv_B c I) x a Hx) as Hd.
    unfold exists_at, is_dir_at in Hd. rewrite Eb in Hd. specialize (Hd eq_refl).
    destruct (lookup (cB c) a) as [[|]|]; try discriminate. reflexivity.
  - (* visible in the remote *)
    pose proof (vis_prefix_dir c a x (inv_R c I) Hx H) as Hv.
    destruct (lookup (cB c) a) as [[d|]|] eqn:Ea; [|reflexivity|exact Hv].
    destruct (inv_file c I a d Ea) as [_ Hbelow]. rewrite (Hbelow x Hx) in H. congruence.
Qed.

Lemma vlookup_root c : vlookup c [] = Some D.
Proof. reflexivity. Qed.

(** * Removals *)
Lemma vis_add_T c p q : vis (add_T c p) q = if is_prefix p q then None else vis c q.
Proof. unfold vis, add_T, masked. simpl. destruct (is_prefix p q); reflexivity. Qed.

Lemma vis_set_B c b q : vis (set_B c b) q = vis c q.
Proof. reflexivity. Qed.

Lemma Inv_remove c p b :
  Inv c -> p <> [] -> WF b ->
  (forall q, lookup b q = if is_prefix p q then None else lookup (cB c) q) ->
  Inv (add_T (set_B c b) p).
Proof.
  intros I Hp Wb Hl. constructor; simpl.
  - exact Wb.
  - exact (inv_R c I).
  - intros t [<-|Ht]; [exact Hp|exact (inv_T c I t Ht)].
  - intros q Hq d. rewrite Hl in Hq. destruct (is_prefix p q) eqn:E; [discriminate|].
    rewrite vis_add_T, E. exact (inv_dir c I q Hq d).
  - intros q d Hq. rewrite Hl in Hq. destruct (is_prefix p q) eqn:E; [discriminate|].
    destruct (inv_file c I q d Hq) as [A B]. split.
    + rewrite vis_add_T, E. exact A.
    + intros x Hx. rewrite vis_add_T. destruct (is_prefix p (q ++ x)); [reflexivity|]. rewrite vis_set_B. auto.
Qed.

Lemma vlookup_remove c p b q :
  (forall q, lookup b q = if is_prefix p q then None else lookup (cB c) q) ->
  vlookup (add_T (set_B c b) p) q = if is_prefix p q then None else vlookup c q.
Proof.
  intros Hl. unfold vlookup. simpl. rewrite Hl, vis_add_T.
  destruct (is_prefix p q); reflexivity.
Qed.

Lemma lookup_same_when_absent t p : p <> [] -> exists_at t p = false -> WF t ->
  forall q, lookup t q = if is_prefix p q then None else lookup t q.
Proof.
  intros Hp He HWF q. destruct (is_prefix p q) eqn:E; [|reflexivity].
  apply is_prefix_spec in E as [s ->]. unfold exists_at in He.
  destruct (lookup t p) eqn:El; [discriminate|].
  destruct s; [rewrite app_nil_r; exact El|]. apply WF_nothing_below; [assumption|assumption|discriminate].
Qed.

(** Recursive remove through the cache: afterwards the path and everything below it is
    invisible, everything else is seen exactly as before. *)
Theorem c_remove_all_spec c p c' :
  Inv c -> p <> [] -> c_remove_all c p = (c', RUnit) ->
  Inv c' /\ forall q, vlookup c' q = if is_prefix p q then None else vlookup c q.
Proof.
  intros I Hp H. unfold c_remove_all in H. destruct p as [|n p]; [congruence|].
  destruct (exists_at (cB c) (n :: p)) eqn:Ee.
  - destruct (remove_all_at (cB c) (n :: p)) as [b|] eqn:Er; [|discriminate].
    inversion H; subst c'. destruct (remove_all_at_spec _ _ _ (inv_B c I) Hp Er) as (Wb & _ & Hl).
    split; [apply Inv_remove; assumption|]. intros q. apply vlookup_remove. exact Hl.
  - inversion H; subst c'.
    pose proof (lookup_same_when_absent (cB c) (n :: p) Hp Ee (inv_B c I)) as Hl.
    replace (add_T c (n :: p)) with (add_T (set_B c (cB c)) (n :: p)) by (destruct c; reflexivity).
    split; [apply Inv_remove; auto; exact (inv_B c I)|]. intros q. apply vlookup_remove. exact Hl.
Qed.

Theorem c_remove_spec c p c' :
  Inv c -> p <> [] -> c_remove c p = (c', RUnit) ->
  Inv c' /\ v_exists c p = true /\
  (forall q, vlookup c' q = if is_prefix p q then None else vlookup c q).
Proof.
  intros I Hp H. unfold c_remove in H. destruct p as [|n p]; [congruence|].
  destruct (v_exists c (n :: p)) eqn:Ex; simpl in H; [|discriminate].
  destruct (v_dir c (n :: p) && _); [discriminate|].
  destruct (exists_at (cB c) (n :: p)) eqn:Ee.
  - destruct (remove_at (cB c) (n :: p)) as [b|] eqn:Er; [|discriminate].
    inversion H; subst c'. destruct (remove_at_spec _ _ _ (inv_B c I) Hp Er) as (Wb & _ & Hl).
    split; [apply Inv_remove; assumption|]. split; [reflexivity|]. intros q. apply vlookup_remove. exact Hl.
  - inversion H; subst c'.
    pose proof (lookup_same_when_absent (cB c) (n :: p) Hp Ee (inv_B c I)) as Hl.
    replace (add_T c (n :: p)) with (add_T (set_B c (cB c)) (n :: p)) by (destruct c; reflexivity).
    split; [apply Inv_remove; auto; exact (inv_B c I)|]. split; [reflexivity|].
    intros q. apply vlookup_remove. exact Hl.
Qed.

(** * Writes and mkdirs *)
Lemma prefixes_from_snoc p : forall pre n,
  prefixes_from pre (p ++ [n]) = prefixes_from pre p ++ [pre ++ p ++ [n]].
Proof.
  induction p as [|m p IH]; intros pre n; simpl.
  - reflexivity.
  - rewrite IH. rewrite <- app_assoc. reflexivity.
Qed.

Lemma proper_prefixes_snoc p n : proper_prefixes (p ++ [n]) = prefixes p.
Proof. unfold proper_prefixes, prefixes. rewrite prefixes_from_snoc. apply removelast_last. Qed.

Lemma In_prefixes_from pre p a : a <> [] -> is_prefix a p = true -> In (pre ++ a) (prefixes_from pre p).
Proof.
  revert pre a; induction p as [|n p IH]; intros pre a Ha Hp.
  - destruct a; [congruence|discriminate].
  - destruct a as [|m a]; [congruence|]. simpl in Hp. apply andb_true_iff in Hp as [H1 H2].
    apply bytes_eqb_spec in H1. subst m. simpl. destruct a as [|k a].
    + left. reflexivity.
    + right. replace (pre ++ n :: k :: a) with ((pre ++ [n]) ++ k :: a) by (rewrite <- app_assoc; reflexivity).
      apply IH; [discriminate|exact H2].
Qed.

Lemma In_proper_prefixes p a x : a <> [] -> x <> [] -> p = a ++ x -> In a (proper_prefixes p).
Proof.
  intros Ha Hx ->. destruct x as [|n x] using rev_ind; [congruence|]. clear IHx.
  rewrite app_assoc, proper_prefixes_snoc. unfold prefixes.
  change (a ++ x) with (a ++ x). apply (In_prefixes_from [] (a ++ x) a Ha). apply is_prefix_app.
Qed.

Lemma check_dest_spec c p wd : check_dest c p wd = true ->
  (forall a x, a <> [] -> x <> [] -> p = a ++ x -> v_file c a = false) /\
  (if wd then v_file c p = false else v_dir c p = false).
Proof.
  unfold check_dest. intros H. apply andb_true_iff in H as [H1 H2]. split.
  - intros a x Ha Hx Hp. apply negb_true_iff in H1.
    destruct (v_file c a) eqn:E; [|reflexivity].
    assert (existsb (v_file c) (proper_prefixes p) = true); [|congruence].
    apply existsb_exists. exists a. split; [eapply In_proper_prefixes; eauto|exact E].
  - destruct wd; apply negb_true_iff in H2; exact H2.
Qed.

Lemma mkdir_chain_succeeds p : forall pre t,
  lookup t pre <> None \/ pre = [] ->
  (forall q, In q (prefixes_from pre p) -> is_file_at t q = false) ->
  exists t', mkdir_chain t (prefixes_from pre p) = Some t'.
Proof.
  induction p as [|n p IH]; intros pre t Hpre Hnf; simpl; [eauto|].
  pose proof (Hnf (pre ++ [n]) (or_introl eq_refl)) as Hq. unfold is_file_at in Hq.
  destruct (lookup t (pre ++ [n])) as [[d|]|] eqn:El; [discriminate| |].
  - apply IH; [left; congruence|]. intros q Hin. apply Hnf. right. exact Hin.
  - apply IH.
    + left. rewrite lookup_snoc by (auto using snoc_not_nil). rewrite path_eqb_refl. discriminate.
    + intros q Hin. unfold is_file_at. rewrite lookup_snoc by (auto using snoc_not_nil).
      destruct (path_eqb (pre ++ [n]) q); [reflexivity|]. apply Hnf. right. exact Hin.
Qed.

Lemma mkdir_all_succeeds t p :
  (forall a, a <> [] -> is_prefix a p = true -> is_file_at t a = false) ->
  exists t', mkdir_all t p = Some t'.
Proof.
  intros H. unfold mkdir_all, prefixes. apply mkdir_chain_succeeds; [right; reflexivity|].
  intros q Hin. destruct (prefixes_from_In _ _ _ Hin) as (a & b & Hp & Ha & Hq). simpl in Hq. subst.
  apply H; [exact Ha|apply is_prefix_app].
Qed.

Lemma buffer_file_is_view_file c a d : lookup (cB c) a = Some (F d) -> v_file c a = true.
Proof. intros H. unfold v_file, vlookup. rewrite H. reflexivity. Qed.

Lemma good_path_removelast p : good_path p = true -> good_path (removelast p) = true.
Proof.
  intros H. destruct p as [|n p] using rev_ind; [reflexivity|]. rewrite removelast_last.
  apply good_path_app in H. tauto.
Qed.

(** A write accepted by checkDest succeeds in the buffer; afterwards the view shows the new
    content at [p], directories on the way, and everything else exactly as before. *)
Theorem c_write_spec c p data :
  Inv c -> good_path p = true -> p <> [] -> check_dest c p false = true ->
  exists c', c_write c p data = (c', RUnit) /\ Inv c' /\
    vlookup c' p = Some (F data) /\
    (forall q, q <> p -> vlookup c q <> None -> vlookup c' q = vlookup c q) /\
    (forall q, q <> p -> vlookup c q = None -> vlookup c' q <> None ->
               vlookup c' q = Some D /\ is_prefix q (removelast p) = true).
Proof.
  intros I Hg Hp Hcd. destruct (check_dest_spec _ _ _ Hcd) as [Hanc Hnd].
  assert (Hpl : p = removelast p ++ [last p []]) by (apply app_removelast_last; exact Hp).
  assert (Hmk : exists t1, mkdir_all (cB c) (removelast p) = Some t1).
  { apply mkdir_all_succeeds. intros a Ha Hpre. unfold is_file_at.
    destruct (lookup (cB c) a) as [[d|]|] eqn:E; try reflexivity.
    apply is_prefix_spec in Hpre as [s Hs].
    assert (Hvf : v_file c a = false).
    { apply (Hanc a (s ++ [last p []]) Ha); [destruct s; discriminate|].
      rewrite app_assoc, <- Hs. exact Hpl. }
    pose proof (buffer_file_is_view_file c a d E). congruence. }
  destruct Hmk as [t1 Hmk].
  destruct (mkdir_all_spec _ _ _ (inv_B c I) (good_path_removelast p Hg) Hmk) as (W1 & D1 & P1 & N1).
  assert (Hwr : exists b, write_at (cB c) p data = Some b).
  { unfold write_at. rewrite Hmk. destruct (lookup t1 p) as [[d|]|] eqn:E; eauto. exfalso.
    destruct (lookup (cB c) p) as [e|] eqn:Eb.
    - rewrite (P1 p e Eb) in E. inversion E; subst e.
      unfold v_dir, vlookup in Hnd. rewrite Eb in Hnd. discriminate.
    - destruct (N1 p Eb) as [_ Hpre]; [congruence|].
      apply is_prefix_spec in Hpre as [s Hs]. apply (f_equal (@length name)) in Hs.
      rewrite app_length in Hs. apply (f_equal (@length name)) in Hpl. rewrite app_length in Hpl.
      simpl in Hpl. lia. }
  destruct Hwr as [b Hwr].
  destruct (write_at_spec _ _ _ _ (inv_B c I) Hg Hp Hwr) as (Wb & Lp & Dp & Fr & Nw).
  exists (set_B c b). unfold c_write. rewrite Hcd, Hwr. split; [reflexivity|].
  assert (HnewD : forall q, q <> p -> lookup (cB c) q = None -> lookup b q <> None ->
                  lookup b q = Some D /\ is_prefix q (removelast p) = true /\ (forall d, vis c q <> Some (F d))).
  { intros q Hq Hn Hs. destruct (Nw q Hq Hn Hs) as [A B]. split; [exact A|]. split; [exact B|].
    intros d Hv. destruct q as [|m q].
    - simpl in Hn. discriminate.
    - apply is_prefix_spec in B as [s Hs'].
      assert (Hvf : v_file c (m :: q) = false).
      { apply (Hanc (m :: q) (s ++ [last p []])); [discriminate|destruct s; discriminate|].
        rewrite app_assoc, <- Hs'. exact Hpl. }
      unfold v_file, vlookup in Hvf. rewrite Hn, Hv in Hvf. discriminate. }
  split; [|split; [|split]].
  - constructor; simpl.
    + exact Wb.
    + exact (inv_R c I).
    + exact (inv_T c I).
    + intros q Hq d. destruct (path_eqb q p) eqn:Eqp.
      { apply path_eqb_spec in Eqp. subst q. congruence. }
      apply path_eqb_false in Eqp.
      destruct (lookup (cB c) q) as [e|] eqn:Eb.
      * rewrite (Fr q Eqp) in Hq by congruence. rewrite Eb in Hq. inversion Hq; subst e.
        exact (inv_dir c I q Eb d).
      * destruct (HnewD q Eqp Eb) as (_ & _ & Hv); [congruence|]. apply Hv.
    + intros q d Hq. destruct (path_eqb q p) eqn:Eqp.
      * apply path_eqb_spec in Eqp. subst q.
        destruct (lookup (cB c) p) as [e|] eqn:Eb.
        -- destruct e as [d0|]; [exact (inv_file c I p d0 Eb)|].
           unfold v_dir, vlookup in Hnd. rewrite Eb in Hnd. discriminate.
        -- assert (Hvp : vis c p <> Some D).
           { intros Hv. unfold v_dir, vlookup in Hnd. rewrite Eb, Hv in Hnd. discriminate. }
           split; [exact Hvp|]. intros x Hx. rewrite vis_set_B. destruct (vis c (p ++ x)) eqn:Ev; [|reflexivity].
           exfalso. apply Hvp. apply (vis_prefix_dir c p x (inv_R c I) Hx). congruence.
      * apply path_eqb_false in Eqp.
        destruct (lookup (cB c) q) as [e|] eqn:Eb.
        -- rewrite (Fr q Eqp) in Hq by congruence. rewrite Eb in Hq. inversion Hq; subst e.
           exact (inv_file c I q d Eb).
        -- destruct (HnewD q Eqp Eb) as (A & _); [congruence|]. congruence.
  - unfold vlookup. simpl. rewrite Lp. reflexivity.
  - intros q Hq Hex. unfold vlookup in *. simpl.
    destruct (lookup (cB c) q) as [e|] eqn:Eb.
    + rewrite (Fr q Hq) by congruence. rewrite Eb. reflexivity.
    + destruct (lookup b q) as [e|] eqn:Eb'; [|reflexivity].
      destruct (HnewD q Hq Eb) as (A & _ & Hv); [congruence|]. rewrite Eb' in A. inversion A; subst e.
      (* the buffer now has a directory where the remote shows one too *)
      unfold vis in *. destruct (masked (cT c) q); [congruence|].
      destruct (lookup (cR c) q) as [[d|]|]; [exfalso; exact (Hv d eq_refl)|reflexivity|congruence].
  - intros q Hq Hn Hex. unfold vlookup, vis in *. simpl in *.
    destruct (lookup (cB c) q) as [e|] eqn:Eb; [congruence|].
    destruct (lookup b q) as [e|] eqn:Eb'; [|congruence].
    destruct (HnewD q Hq Eb) as (A & B & _); [congruence|]. rewrite Eb' in A. inversion A. auto.
Qed.

Theorem c_mkdir_spec c p :
  Inv c -> good_path p = true -> p <> [] -> check_dest c p true = true ->
  exists c', c_mkdir c p = (c', RUnit) /\ Inv c' /\
    vlookup c' p = Some D /\
    (forall q, vlookup c q <> None -> vlookup c' q = vlookup c q) /\
    (forall q, vlookup c q = None -> vlookup c' q <> None ->
               vlookup c' q = Some D /\ is_prefix q p = true).
Proof.
  intros I Hg Hp Hcd. destruct (check_dest_spec _ _ _ Hcd) as [Hanc Hnf].
  assert (Hnotfile : forall a, a <> [] -> is_prefix a p = true -> v_file c a = false).
  { intros a Ha Hpre. apply is_prefix_spec in Hpre as [s Hs]. destruct s as [|m s].
    - rewrite app_nil_r in Hs. subst a. exact Hnf.
    - apply (Hanc a (m :: s)); [exact Ha|discriminate|exact Hs]. }
  assert (Hmk : exists b, mkdir_all (cB c) p = Some b).
  { apply mkdir_all_succeeds. intros a Ha Hpre. unfold is_file_at.
    destruct (lookup (cB c) a) as [[d|]|] eqn:E; try reflexivity.
    pose proof (buffer_file_is_view_file c a d E). rewrite (Hnotfile a Ha Hpre) in H. discriminate. }
  destruct Hmk as [b Hmk].
  destruct (mkdir_all_spec _ _ _ (inv_B c I) Hg Hmk) as (Wb & Dp & P1 & N1).
  exists (set_B c b). unfold c_mkdir. destruct p as [|n p]; [congruence|]. rewrite Hcd, Hmk.
  split; [reflexivity|].
  assert (HnewD : forall q, lookup (cB c) q = None -> lookup b q <> None ->
                  lookup b q = Some D /\ is_prefix q (n :: p) = true /\ (forall d, vis c q <> Some (F d))).
  { intros q Hn Hs. destruct (N1 q Hn Hs) as [A B]. split; [exact A|]. split; [exact B|].
    intros d Hv. destruct q as [|m q]; [simpl in Hn; discriminate|].
    pose proof (Hnotfile (m :: q) ltac:(discriminate) B) as Hvf.
    unfold v_file, vlookup in Hvf. rewrite Hn, Hv in Hvf. discriminate. }
  split; [|split; [|split]].
  - constructor; simpl.
    + exact Wb.
    + exact (inv_R c I).
    + exact (inv_T c I).
    + intros q Hq d. destruct (lookup (cB c) q) as [e|] eqn:Eb.
      * rewrite (P1 q e Eb) in Hq. inversion Hq; subst e. exact (inv_dir c I q Eb d).
      * destruct (HnewD q Eb) as (_ & _ & Hv); [congruence|]. apply Hv.
    + intros q d Hq. destruct (lookup (cB c) q) as [e|] eqn:Eb.
      * rewrite (P1 q e Eb) in Hq. inversion Hq; subst e. exact (inv_file c I q d Eb).
      * destruct (HnewD q Eb) as (A & _); [congruence|]. congruence.
  - unfold vlookup. change (cB (set_B c b)) with b. unfold is_dir_at in Dp.
    destruct (lookup b (n :: p)) as [[|]|]; try discriminate. reflexivity.
  - intros q Hex. unfold vlookup in *. simpl.
    destruct (lookup (cB c) q) as [e|] eqn:Eb.
    + rewrite (P1 q e Eb). reflexivity.
    + destruct (lookup b q) as [e|] eqn:Eb'; [|reflexivity].
      destruct (HnewD q Eb) as (A & _ & Hv); [congruence|]. rewrite Eb' in A. inversion A; subst e.
      unfold vis in *. destruct (masked (cT c) q); [congruence|].
      destruct (lookup (cR c) q) as [[d|]|]; [exfalso; exact (Hv d eq_refl)|reflexivity|congruence].
  - intros q Hn Hex. unfold vlookup, vis in *. simpl in *.
    destruct (lookup (cB c) q) as [e|] eqn:Eb; [congruence|].
    destruct (lookup b q) as [e|] eqn:Eb'; [|congruence].
    destruct (HnewD q Eb) as (A & B & _); [congruence|]. rewrite Eb' in A. inversion A. auto.
Qed.

(** Failing writes / mkdirs leave the cache as it was. *)
Lemma c_write_Inv c p d : Inv c -> good_path p = true -> Inv (fst (c_write c p d)).
Proof.
  intros I Hg. unfold c_write. destruct (check_dest c p false) eqn:Hcd; [|exact I].
  destruct p as [|n p].
  - (* the root is a directory: checkDest refuses *)
    unfold check_dest in Hcd. simpl in Hcd. discriminate.
  - destruct (c_write_spec c (n :: p) d I Hg ltac:(discriminate) Hcd) as (c' & H & I' & _).
    unfold c_write in H. rewrite Hcd in H. rewrite H. exact I'.
Qed.

Lemma c_mkdir_Inv c p : Inv c -> good_path p = true -> Inv (fst (c_mkdir c p)).
Proof.
  intros I Hg. destruct p as [|n p]; [exact I|].
  destruct (check_dest c (n :: p) true) eqn:Hcd.
  - destruct (c_mkdir_spec c (n :: p) I Hg ltac:(discriminate) Hcd) as (c' & H & I' & _).
    rewrite H. exact I'.
  - unfold c_mkdir. rewrite Hcd. exact I.
Qed.

(** * The view as a plain tree *)
Lemma assoc_filter2 (f : path -> bool) (t : fs) q :
  assoc (filter (fun qe => f (fst qe)) t) q = if f q then assoc t q else None.
Proof. apply assoc_filter. Qed.

Lemma lookup_cview c q : lookup (cview c) q = vlookup c q.
Proof.
  destruct q as [|n q]; [reflexivity|].
  unfold cview. rewrite lookup_app. simpl lookup.
  rewrite (assoc_filter2 (fun p => negb (masked (cT c) p) &&
              match lookup (cB c) p with None => true | Some _ => false end)).
  unfold vlookup, vis. simpl lookup.
  destruct (assoc (cB c) (n :: q)) as [e|] eqn:Eb.
  - rewrite andb_false_r. reflexivity.
  - rewrite andb_true_r. destruct (masked (cT c) (n :: q)); simpl; [reflexivity|].
    destruct (assoc (cR c) (n :: q)); reflexivity.
Qed.

Lemma In_cview c q e : In (q, e) (cview c) ->
  (In (q, e) (cR c) /\ masked (cT c) q = false /\ lookup (cB c) q = None) \/ In (q, e) (cB c).
Proof.
  unfold cview. intros H. apply in_app_or in H as [H|H]; [left|right; exact H].
  apply filter_In in H as [H1 H2]. simpl in H2. apply andb_true_iff in H2 as [A B].
  apply negb_true_iff in A. split; [exact H1|]. split; [exact A|].
  destruct (lookup (cB c) q); [discriminate|reflexivity].
Qed.

Theorem cview_WF c : Inv c -> WF (cview c).
Proof.
  intros I. split.
  - unfold cview. rewrite map_app. apply NoDup_app.
    + apply NoDup_map_filter. apply (inv_R c I).
    + apply (inv_B c I).
    + intros q H1 H2. apply in_map_iff in H1 as ([q1 e1] & Hq1 & H1). simpl in Hq1. subst q1.
      apply filter_In in H1 as [_ Hf]. simpl in Hf. apply andb_true_iff in Hf as [_ Hf].
      apply in_map_iff in H2 as ([q2 e2] & Hq2 & H2). simpl in Hq2. subst q2.
      rewrite (In_lookup (cB c) q e2 (inv_B c I) H2) in Hf. discriminate.
  - intros q e Hin.
    assert (Hg : good_path q = true /\ q <> []).
    { destruct (In_cview _ _ _ Hin) as [[H _]|H];
        [apply (WF_entry_good _ _ _ (inv_R c I) H)|apply (WF_entry_good _ _ _ (inv_B c I) H)]. }
    destruct Hg as [Hg Hne]. split; [exact Hne|]. split; [exact Hg|].
    unfold is_dir_at. rewrite lookup_cview.
    assert (Hv : vlookup c q = Some e).
    { destruct (In_cview _ _ _ Hin) as [(H & Hm & Hb)|H].
      - unfold vlookup, vis. rewrite Hb, Hm. apply In_lookup; [apply (inv_R c I)|exact H].
      - unfold vlookup. rewrite (In_lookup _ _ _ (inv_B c I) H). reflexivity. }
    rewrite (view_prefix_dir c (removelast q) [last q []] I ltac:(discriminate)); [reflexivity|].
    rewrite <- (app_removelast_last (l:=q) [] Hne). congruence.
Qed.

(** * C07: read-your-writes — every read-type answer is the plain tree's answer on the view *)
Definition kind_of (e : entry) : bool := match e with D => true | F _ => false end.

Lemma children_names_NoDup t p : WF t -> NoDup (map fst (children t p)).
Proof.
  intros [Hnd _]. induction t as [|[q e] t IH]; simpl; [constructor|].
  inversion Hnd as [|? ? Hnotin Hnd']; subst. specialize (IH Hnd').
  destruct (is_prefix p q && Nat.eqb (length q) (S (length p))) eqn:E; [|exact IH].
  simpl. constructor; [|exact IH].
  intros Hin. apply in_map_iff in Hin as ([n d] & Hn & Hin). simpl in Hn. subst n.
  apply children_In in Hin as (q' & e' & Hq' & -> & _).
  apply andb_true_iff in E as [E1 E2]. apply is_prefix_spec in E1 as [s ->].
  apply Nat.eqb_eq in E2. rewrite app_length in E2.
  destruct s as [|x [|y s]]; simpl in E2; try lia. rewrite last_last in Hq'.
  apply Hnotin. apply in_map_iff. exists (p ++ [x], e'). auto.
Qed.

Theorem v_read_dir_agrees c p l : Inv c -> v_read_dir c p = Some l ->
  NoDup (map fst l) /\
  forall n d, In (n, d) l <-> exists e, vlookup c (p ++ [n]) = Some e /\ d = kind_of e.
Proof.
  intros I H. unfold v_read_dir in H.
  set (r := if masked (cT c) p then None else if is_dir_at (cR c) p then Some (children (cR c) p) else None) in *.
  set (b := if is_dir_at (cB c) p then Some (children (cB c) p) else None) in *.
  set (rl := match r with Some l => l | None => [] end) in *.
  set (bl := match b with Some l => l | None => [] end) in *.
  assert (Hl : l = filter (fun e => negb (existsb (fun be => bytes_eqb (fst be) (fst e)) bl)
                                    && negb (masked (cT c) (p ++ [fst e]))) rl ++ bl).
  { destruct r, b; inversion H; reflexivity. }
  clear H.
  assert (Hrl : forall n d, In (n, d) rl <->
            masked (cT c) p = false /\ exists e, lookup (cR c) (p ++ [n]) = Some e /\ d = kind_of e).
  { intros n d. unfold rl, r. destruct (masked (cT c) p) eqn:Em.
    - split; [intros []|intros [? _]; discriminate].
    - destruct (is_dir_at (cR c) p) eqn:Ed.
      + rewrite (listing_agrees _ p n d (inv_R c I)). unfold kind_of. split; [intros H; split; [reflexivity|exact H]|tauto].
      + split; [intros []|]. intros [_ (e & He & _)]. exfalso.
        pose proof (WF_prefix_dir (cR c) (inv_R c I) [n] p ltac:(discriminate)) as Hd.
        unfold exists_at in Hd. rewrite He in Hd. rewrite (Hd eq_refl) in Ed. discriminate. }
  assert (Hbl : forall n d, In (n, d) bl <-> exists e, lookup (cB c) (p ++ [n]) = Some e /\ d = kind_of e).
  { intros n d. unfold bl, b. destruct (is_dir_at (cB c) p) eqn:Ed.
    - rewrite (listing_agrees _ p n d (inv_B c I)). unfold kind_of. tauto.
    - split; [intros []|]. intros (e & He & _). exfalso.
      pose proof (WF_prefix_dir (cB c) (inv_B c I) [n] p ltac:(discriminate)) as Hd.
      unfold exists_at in Hd. rewrite He in Hd. rewrite (Hd eq_refl) in Ed. discriminate. }
  assert (Hinbl : forall n : name, existsb (fun be => bytes_eqb (fst be) n) bl = true <-> lookup (cB c) (p ++ [n]) <> None).
  { intros n. rewrite existsb_exists. split.
    - intros ([n' d] & Hin & Heq). simpl in Heq. apply bytes_eqb_spec in Heq. subst n'.
      apply Hbl in Hin as (e & He & _). congruence.
    - intros Hne. destruct (lookup (cB c) (p ++ [n])) as [e|] eqn:E; [|congruence].
      exists (n, kind_of e). split; [apply Hbl; eauto|apply bytes_eqb_refl]. }
  subst l. split.
  - rewrite map_app. apply NoDup_app.
    + apply NoDup_map_filter. unfold rl, r. destruct (masked (cT c) p); [constructor|].
      destruct (is_dir_at (cR c) p); [apply children_names_NoDup; apply (inv_R c I)|constructor].
    + unfold bl, b. destruct (is_dir_at (cB c) p); [apply children_names_NoDup; apply (inv_B c I)|constructor].
    + intros n H1 H2. apply in_map_iff in H1 as ([n1 d1] & Hn1 & H1). simpl in Hn1. subst n1.
      apply filter_In in H1 as [_ Hf]. simpl in Hf. apply andb_true_iff in Hf as [Hf _].
      apply negb_true_iff in Hf.
      apply in_map_iff in H2 as ([n2 d2] & Hn2 & H2). simpl in Hn2. subst n2.
      assert (existsb (fun be => bytes_eqb (fst be) n) bl = true); [|congruence].
      apply existsb_exists. exists (n, d2). split; [exact H2|apply bytes_eqb_refl].
  - intros n d. rewrite in_app_iff, filter_In. simpl. unfold vlookup, vis. split.
    + intros [[Hin Hf]|Hin].
      * apply andb_true_iff in Hf as [Hf1 Hf2]. apply negb_true_iff in Hf1, Hf2.
        apply Hrl in Hin as [_ (e & He & Hd)]. exists e. split; [|exact Hd].
        destruct (lookup (cB c) (p ++ [n])) eqn:Eb.
        -- assert (existsb (fun be => bytes_eqb (fst be) n) bl = true) by (apply Hinbl; congruence). congruence.
        -- simpl in Hf2. unfold name in *. rewrite Hf2. exact He.
      * apply Hbl in Hin as (e & He & Hd). exists e. rewrite He. auto.
    + intros (e & He & Hd). destruct (lookup (cB c) (p ++ [n])) as [e'|] eqn:Eb.
      * inversion He; subst e'. right. apply Hbl. eauto.
      * left. destruct (masked (cT c) (p ++ [n])) eqn:Em; [discriminate|]. split.
        -- apply Hrl. split; [|eauto]. destruct (masked (cT c) p) eqn:Emp; [|reflexivity].
           rewrite (masked_app _ p [n] Emp) in Em. discriminate.
        -- apply andb_true_iff. split; apply negb_true_iff; [|simpl; exact Em].
           destruct (existsb (fun be => bytes_eqb (fst be) n) bl) eqn:Ex; [|reflexivity].
           apply Hinbl in Ex. congruence.
Qed.

(** * Commit *)
Lemma write_at_succeeds t p d :
  WF t -> good_path p = true -> p <> [] ->
  (forall a, a <> [] -> is_prefix a (removelast p) = true -> is_file_at t a = false) ->
  is_dir_at t p = false ->
  exists b, write_at t p d = Some b.
Proof.
  intros HWF Hg Hp Hanc Hnd.
  destruct (mkdir_all_succeeds t (removelast p) Hanc) as [t1 Hmk].
  destruct (mkdir_all_spec _ _ _ HWF (good_path_removelast p Hg) Hmk) as (W1 & D1 & P1 & N1).
  unfold write_at. rewrite Hmk. destruct (lookup t1 p) as [[d0|]|] eqn:E; eauto. exfalso.
  destruct (lookup t p) as [e|] eqn:Eb.
  - rewrite (P1 p e Eb) in E. inversion E; subst e. unfold is_dir_at in Hnd. rewrite Eb in Hnd. discriminate.
  - destruct (N1 p Eb) as [_ Hpre]; [congruence|].
    apply is_prefix_spec in Hpre as [s Hs]. apply (f_equal (@length name)) in Hs.
    rewrite app_length in Hs.
    assert (Hpl : p = removelast p ++ [last p []]) by (apply app_removelast_last; exact Hp).
    apply (f_equal (@length name)) in Hpl.
    rewrite app_length in Hpl. simpl in Hpl. lia.
Qed.

Lemma lookup_delete_or_absent r t q : WF r -> t <> [] ->
  lookup (if exists_at r t then delete_subtree r t else r) q = if is_prefix t q then None else lookup r q.
Proof.
  intros HWF Ht. destruct (exists_at r t) eqn:E.
  - apply lookup_delete. exact Ht.
  - apply lookup_same_when_absent; assumption.
Qed.

Lemma apply_tombs_spec T : forall r,
  WF r -> (forall t, In t T -> t <> []) ->
  WF (apply_tombs r T) /\
  forall q, lookup (apply_tombs r T) q = if masked T q then None else lookup r q.
Proof.
  induction T as [|t T IH]; intros r HWF HT; simpl.
  - split; [exact HWF|reflexivity].
  - assert (Ht : t <> []) by (apply HT; left; reflexivity).
    assert (HWF' : WF (if exists_at r t then delete_subtree r t else r)).
    { destruct (exists_at r t); [apply WF_delete; assumption|exact HWF]. }
    destruct (IH _ HWF' (fun t' H => HT t' (or_intror H))) as [W L]. split; [exact W|].
    intros q. rewrite L, lookup_delete_or_absent by assumption. unfold masked. simpl.
    destruct (is_prefix t q); simpl; [|reflexivity].
    match goal with |- (if ?b then None else None) = None => destruct b; reflexivity end.
Qed.

Definition in_keys (l : fs) (q : path) : Prop := exists e, In (q, e) l.

Lemma classic_in_keys l q : in_keys l q \/ ~ in_keys l q.
Proof.
  destruct (in_dec (list_eq_dec (list_eq_dec N.eq_dec)) q (map fst l)) as [H|H].
  - left. apply in_map_iff in H as ([q' e] & Hq & Hin). simpl in Hq. subst. exists e. exact Hin.
  - right. intros [e He]. apply H. apply in_map_iff. exists (q, e). auto.
Qed.

(** Materialising (a suffix [l] of) the buffer [B] onto a remote that is compatible with it:
    processed paths carry the buffer's entry, unprocessed ones the original remote's entry or
    an implicitly created directory that the buffer has too. *)
Lemma materialise_inv B r0 :
  WF B ->
  (forall q, lookup B q = Some D -> forall d, lookup r0 q <> Some (F d)) ->
  (forall q d, lookup B q = Some (F d) -> lookup r0 q <> Some D) ->
  forall l done r, B = done ++ l -> WF r ->
  (forall q, in_keys done q -> lookup r q = lookup B q) ->
  (forall q, ~ in_keys done q -> lookup r q = lookup r0 q \/ (lookup B q = Some D /\ lookup r q = Some D)) ->
  exists r', materialise r l = Some r' /\ WF r' /\
    forall q, lookup r' q = match lookup B q with Some e => Some e | None => lookup r0 q end.
Proof.
  intros WB H1 H2 l. induction l as [|[p e] l IH]; intros done r HB Wr Hdone Hrest.
  - exists r. split; [reflexivity|]. split; [exact Wr|]. intros q.
    rewrite app_nil_r in HB. subst done.
    destruct (lookup B q) as [e|] eqn:Eb.
    + destruct q as [|n q].
      * simpl in *. inversion Eb. reflexivity.
      * rewrite <- Eb. apply Hdone. exists e. apply lookup_In; [discriminate|exact Eb].
    + destruct (Hrest q) as [A|[A _]]; [|exact A|congruence].
      intros [e He]. rewrite (In_lookup B q e WB He) in Eb. discriminate.
  - assert (Hin : In (p, e) B) by (rewrite HB; apply in_or_app; right; left; reflexivity).
    destruct (WF_entry_good _ _ _ WB Hin) as [Hg Hp].
    assert (HBp : lookup B p = Some e) by (apply In_lookup; assumption).
    assert (Hnotdone : ~ in_keys done p).
    { intros [e' He']. destruct WB as [Hnd _]. rewrite HB, map_app in Hnd. simpl in Hnd.
      apply NoDup_remove_2 in Hnd. apply Hnd. apply in_or_app. left.
      apply in_map_iff. exists (p, e'). auto. }
    (* ancestors of p are buffer directories, hence never files in r *)
    assert (Hanc : forall a, a <> [] -> forall x, x <> [] -> p = a ++ x -> is_file_at r a = false).
    { intros a Ha x Hx Hpx.
      assert (HBa : lookup B a = Some D).
      { pose proof (WF_prefix_dir B WB x a Hx) as Hd. unfold exists_at, is_dir_at in Hd.
        rewrite <- Hpx, HBp in Hd. specialize (Hd eq_refl).
        destruct (lookup B a) as [[|]|]; try discriminate. reflexivity. }
      unfold is_file_at.
      destruct (classic_in_keys done a) as [Hd|Hd].
      - rewrite (Hdone a Hd), HBa. reflexivity.
      - destruct (Hrest a Hd) as [A|[_ A]]; [|rewrite A; reflexivity].
        rewrite A. destruct (lookup r0 a) as [[d|]|] eqn:E; try reflexivity.
        exfalso. exact (H1 a HBa d E). }
    assert (Hstep : exists r1, (match e with D => mkdir_all r p | F data => write_at r p data end) = Some r1 /\
              WF r1 /\ lookup r1 p = Some e /\
              (forall q, q <> p -> lookup r q <> None -> lookup r1 q = lookup r q) /\
              (forall q, q <> p -> lookup r q = None -> lookup r1 q <> None ->
                         lookup r1 q = Some D /\ exists x, x <> [] /\ p = q ++ x)).
    { destruct e as [data|].
      - (* a file *)
        assert (Hnd : is_dir_at r p = false).
        { unfold is_dir_at. destruct (Hrest p Hnotdone) as [A|[A _]]; [|congruence].
          rewrite A. destruct (lookup r0 p) as [[|]|] eqn:E; try reflexivity.
          exfalso. exact (H2 p data HBp E). }
        destruct (write_at_succeeds r p data Wr Hg Hp) as [b Hb]; [|exact Hnd|].
        { intros a Ha Hpre. apply is_prefix_spec in Hpre as [s Hs].
          apply (Hanc a Ha (s ++ [last p []])); [destruct s; discriminate|].
          rewrite app_assoc, <- Hs. apply app_removelast_last. exact Hp. }
        destruct (write_at_spec _ _ _ _ Wr Hg Hp Hb) as (Wb & Lp & _ & Fr & Nw).
        exists b. split; [exact Hb|]. split; [exact Wb|]. split; [exact Lp|]. split; [exact Fr|].
        intros q Hq Hn Hs. destruct (Nw q Hq Hn Hs) as [A Bp]. split; [exact A|].
        apply is_prefix_spec in Bp as [s Hs']. exists (s ++ [last p []]). split; [destruct s; discriminate|].
        rewrite app_assoc, <- Hs'. apply app_removelast_last. exact Hp.
      - (* a directory *)
        destruct (mkdir_all_succeeds r p) as [b Hb].
        { intros a Ha Hpre. apply is_prefix_spec in Hpre as [s Hs]. destruct s as [|m s].
          - rewrite app_nil_r in Hs. subst a. unfold is_file_at.
            destruct (Hrest p Hnotdone) as [A|[_ A]]; [|rewrite A; reflexivity].
            rewrite A. destruct (lookup r0 p) as [[d|]|] eqn:E; try reflexivity.
            exfalso. exact (H1 p HBp d E).
          - apply (Hanc a Ha (m :: s)); [discriminate|exact Hs]. }
        destruct (mkdir_all_spec _ _ _ Wr Hg Hb) as (Wb & Dp & P1 & N1).
        exists b. split; [exact Hb|]. split; [exact Wb|]. split.
        { unfold is_dir_at in Dp. destruct (lookup b p) as [[|]|]; try discriminate. reflexivity. }
        split.
        + intros q _ Hex. destruct (lookup r q) as [e|] eqn:E; [|congruence]. apply P1. exact E.
        + intros q Hq Hn Hs. destruct (N1 q Hn Hs) as [A Bp]. split; [exact A|].
          apply is_prefix_spec in Bp as [s Hs']. exists s. split; [|exact Hs'].
          intros ->. rewrite app_nil_r in Hs'. congruence. }
    destruct Hstep as (r1 & Hs1 & W1 & Lp & Fr & Nw).
    simpl. rewrite Hs1.
    apply (IH (done ++ [(p, e)]) r1).
    + rewrite <- app_assoc. exact HB.
    + exact W1.
    + intros q [e' He']. apply in_app_or in He' as [He'|[He'|[]]].
      * assert (q <> p) by (intros ->; apply Hnotdone; exists e'; exact He').
        rewrite Fr; [apply Hdone; exists e'; exact He'|exact H|].
        rewrite (Hdone q (ex_intro _ e' He')).
        rewrite (In_lookup B q e' WB); [discriminate|]. rewrite HB. apply in_or_app. left. exact He'.
      * inversion He'; subst q e'. rewrite Lp, HBp. reflexivity.
    + intros q Hnd.
      assert (Hqp : q <> p).
      { intros ->. apply Hnd. exists e. apply in_or_app. right. left. reflexivity. }
      assert (Hnd0 : ~ in_keys done q).
      { intros [e' He']. apply Hnd. exists e'. apply in_or_app. left. exact He'. }
      destruct (lookup r q) as [eq|] eqn:Erq.
      * rewrite Fr by (auto; congruence). rewrite Erq. rewrite <- Erq. apply Hrest. exact Hnd0.
      * destruct (lookup r1 q) as [e1|] eqn:E1.
        -- destruct (Nw q Hqp Erq) as (A & x & Hx & Hpx); [congruence|]. right.
           split; [|congruence].
           pose proof (WF_prefix_dir B WB x q Hx) as Hd. unfold exists_at, is_dir_at in Hd.
           rewrite <- Hpx, HBp in Hd. specialize (Hd eq_refl).
           destruct (lookup B q) as [[|]|]; try discriminate. reflexivity.
        -- destruct (Hrest q Hnd0) as [A|[_ A]]; [left; congruence|congruence].
Qed.

(** Commit (no remote failure) succeeds and makes the remote equal to the view; the view itself
    does not change; tombstones are cleared. *)
Theorem c_commit_spec c : Inv c ->
  exists c', c_commit c = (c', RUnit) /\ Inv c' /\ cB c' = cB c /\ cT c' = [] /\
    (forall q, lookup (cR c') q = vlookup c q) /\
    (forall q, vlookup c' q = vlookup c q).
Proof.
  intros I.
  destruct (apply_tombs_spec (cT c) (cR c) (inv_R c I) (inv_T c I)) as [W0 L0].
  set (r0 := apply_tombs (cR c) (cT c)) in *.
  assert (Lv : forall q, lookup r0 q = vis c q) by (intros q; rewrite L0; reflexivity).
  destruct (materialise_inv (cB c) r0 (inv_B c I)) with (l := cB c) (done := @nil (path * entry)) (r := r0)
    as (r2 & Hm & W2 & L2).
  - intros q Hq d. rewrite Lv. exact (inv_dir c I q Hq d).
  - intros q d Hq. rewrite Lv. exact (proj1 (inv_file c I q d Hq)).
  - reflexivity.
  - exact W0.
  - intros q [e []].
  - intros q _. left. reflexivity.
  - exists (mkCache (cB c) r2 []). unfold c_commit. fold r0. rewrite Hm.
    assert (LR : forall q, lookup r2 q = vlookup c q).
    { intros q. rewrite L2. unfold vlookup. rewrite Lv. reflexivity. }
    split; [reflexivity|]. split; [|split; [reflexivity|split; [reflexivity|split; [exact LR|]]]].
    + constructor; simpl.
      * exact (inv_B c I).
      * exact W2.
      * intros t [].
      * intros q Hq d. unfold vis. simpl. rewrite LR. unfold vlookup. rewrite Hq. discriminate.
      * intros q d Hq. unfold vis. simpl. split.
        -- rewrite LR. unfold vlookup. rewrite Hq. discriminate.
        -- intros x Hx. rewrite LR. unfold vlookup.
           rewrite (WF_nothing_below_file (cB c) q d x (inv_B c I) Hq Hx).
           exact (proj2 (inv_file c I q d Hq) x Hx).
    + intros q. unfold vlookup at 1. simpl. unfold vis. simpl. rewrite LR.
      unfold vlookup. destruct (lookup (cB c) q); reflexivity.
Qed.

(** A second Commit changes nothing (lookups of the remote stay the same). *)
Corollary second_commit_changes_nothing c c1 c2 :
  Inv c -> c_commit c = (c1, RUnit) -> c_commit c1 = (c2, RUnit) ->
  forall q, lookup (cR c2) q = lookup (cR c1) q.
Proof.
  intros I H1 H2. destruct (c_commit_spec c I) as (c1' & E1 & I1 & _ & _ & L1 & V1).
  rewrite H1 in E1. inversion E1; subst c1'.
  destruct (c_commit_spec c1 I1) as (c2' & E2 & _ & _ & _ & L2 & _).
  rewrite H2 in E2. inversion E2; subst c2'. intros q. rewrite L2, V1, L1. reflexivity.
Qed.

(** * Every operation keeps the invariant *)
Lemma copy_entries_Inv l : forall c dst,
  Inv c -> good_path dst = true -> (forall rel e, In (rel, e) l -> good_path rel = true) ->
  Inv (fst (copy_entries c dst l)).
Proof.
  induction l as [|[rel e] l IH]; intros c dst I Hd Hl; simpl; [exact I|].
  assert (Hr : good_path rel = true) by (apply (Hl rel e); left; reflexivity).
  assert (Hl' : forall rel0 e0, In (rel0, e0) l -> good_path rel0 = true)
    by (intros ? ? H; eapply Hl; right; exact H).
  destruct e as [data|].
  - pose proof (c_mkdir_Inv c (dst ++ removelast rel) I) as I0.
    destruct (c_mkdir c (dst ++ removelast rel)) as [c0 r0]. simpl in I0.
    assert (Inv c0) by (apply I0; apply good_path_app; split; [exact Hd|apply good_path_removelast; exact Hr]).
    destruct r0; try (simpl; assumption).
    pose proof (c_write_Inv c0 (dst ++ rel) data H) as I1.
    destruct (c_write c0 (dst ++ rel) data) as [c1 r1]. simpl in I1.
    assert (Inv c1) by (apply I1; apply good_path_app; auto).
    destruct r1; try (simpl; assumption). apply IH; assumption.
  - pose proof (c_mkdir_Inv c (dst ++ rel) I) as I1.
    destruct (c_mkdir c (dst ++ rel)) as [c1 r1]. simpl in I1.
    assert (Inv c1) by (apply I1; apply good_path_app; auto).
    destruct r1; try (simpl; assumption). apply IH; assumption.
Qed.

Lemma cview_entry_good c q e : Inv c -> In (q, e) (cview c) -> good_path q = true.
Proof.
  intros I Hin. destruct (In_cview _ _ _ Hin) as [[H _]|H];
    [apply (WF_entry_good _ _ _ (inv_R c I) H)|apply (WF_entry_good _ _ _ (inv_B c I) H)].
Qed.

Lemma c_copy_Inv c s d : Inv c -> good_path d = true -> Inv (fst (c_copy c s d)).
Proof.
  intros I Hd. unfold c_copy. destruct s as [|n s]; [exact I|].
  destruct (is_prefix (n :: s) d); [exact I|].
  destruct (vlookup c (n :: s)) as [[data|]|]; [apply c_write_Inv; assumption| |exact I].
  pose proof (c_mkdir_Inv c d I Hd) as I1. destruct (c_mkdir c d) as [c1 r1]. simpl in I1.
  destruct r1; try (simpl; exact I1). apply copy_entries_Inv; [exact I1|exact Hd|].
  intros rel e Hin. apply In_moved in Hin as (x & _ & Hx & Hin). simpl in Hx. subst rel.
  apply (cview_entry_good c _ e I) in Hin. apply good_path_app in Hin. tauto.
Qed.

Lemma cnorm_good s p : cnorm s = Some p -> good_path p = true.
Proof. unfold cnorm. apply reduce_good. Qed.

Lemma c_remove_Inv c p : Inv c -> Inv (fst (c_remove c p)).
Proof.
  intros I. destruct p as [|n p]; [exact I|].
  destruct (c_remove c (n :: p)) as [c' r] eqn:E. destruct r;
    try (unfold c_remove in E;
         destruct (negb (v_exists c (n :: p))); [inversion E; subst; exact I|];
         destruct (v_dir c (n :: p) && _); [inversion E; subst; exact I|];
         destruct (exists_at (cB c) (n :: p)); [|discriminate];
         destruct (remove_at (cB c) (n :: p)); [discriminate|inversion E; subst; exact I]).
  destruct (c_remove_spec c (n :: p) c' I ltac:(discriminate) E) as [I' _]. exact I'.
Qed.

Lemma c_remove_all_Inv c p : Inv c -> Inv (fst (c_remove_all c p)).
Proof.
  intros I. destruct p as [|n p]; [exact I|].
  destruct (c_remove_all c (n :: p)) as [c' r] eqn:E. destruct r;
    try (unfold c_remove_all in E;
         destruct (exists_at (cB c) (n :: p)); [|discriminate];
         destruct (remove_all_at (cB c) (n :: p)); [discriminate|inversion E; subst; exact I]).
  destruct (c_remove_all_spec c (n :: p) c' I ltac:(discriminate) E) as [I' _]. exact I'.
Qed.

Theorem cache_step_Inv c co : Inv c -> Inv (fst (cache_step c co)).
Proof.
  intros I. destruct co as [o| |];
    [|destruct (c_commit_spec c I) as (c' & E & I' & _); simpl; rewrite E; exact I'|exact I].
  destruct o; simpl; unfold on1;
  repeat match goal with |- context [match cnorm ?s with _ => _ end] => destruct (cnorm s) eqn:? end;
  try exact I;
  repeat match goal with H : cnorm _ = Some _ |- _ => apply cnorm_good in H end;
  try (apply c_copy_Inv; assumption); try (apply c_mkdir_Inv; assumption);
  try (apply c_write_Inv; assumption); try (apply c_remove_Inv; assumption);
  try (apply c_remove_all_Inv; assumption).
  - match goal with |- context [v_dir c ?x] => destruct (v_dir c x) end; [apply c_copy_Inv; assumption|exact I].
  - match goal with |- context [v_file c ?x] => destruct (v_file c x) end; [apply c_copy_Inv; assumption|exact I].
Qed.

Theorem run_cache_Inv l : forall c, Inv c -> Inv (run_cache c l).
Proof.
  induction l as [|o l IH]; intros c I; simpl; [exact I|]. apply IH. apply cache_step_Inv. exact I.
Qed.

(** * Reads through the cache = reads of the plain tree [cview] *)
Definition tree_read (t : fs) (o : op) (p : path) : out :=
  match o with
  | OIsExist _ => RBool (exists_at t p)
  | OIsFile _ => RBool (is_file_at t p)
  | OIsDir _ => RBool (is_dir_at t p)
  | OReadFile _ => match lookup t p with Some (F d) => RData d | _ => RErr end
  | OReader _ bufs => match lookup t p with Some (F d) => RChunks (read_seq d bufs) | _ => RErr end
  | OLstat _ => match lookup t p with
                | Some D => RStat true 0
                | Some (F d) => RStat false (N.of_nat (length d))
                | None => RErr
                end
  | _ => RErr
  end.

Definition read_arg (o : op) : option bytes :=
  match o with
  | OIsExist s | OIsFile s | OIsDir s | OReadFile s | OReader s _ | OLstat s => Some s
  | _ => None
  end.

Theorem cache_reads_are_tree_reads c o s p :
  read_arg o = Some s -> cnorm s = Some p ->
  cache_step c (COp o) = (c, tree_read (cview c) o p).
Proof.
  intros Ha Hn. destruct o; simpl in Ha; inversion Ha; subst; simpl; unfold on1; rewrite Hn;
    unfold tree_read, exists_at, is_file_at, is_dir_at, v_exists, v_file, v_dir;
    rewrite lookup_cview; reflexivity.
Qed.

Theorem cache_reads_climbing c o s :
  read_arg o = Some s -> cnorm s = None -> cache_step c (COp o) = (c, fail_out o).
Proof.
  intros Ha Hn. destruct o; simpl in Ha; inversion Ha; subst; simpl; unfold on1; rewrite Hn; reflexivity.
Qed.

(** * Commit after a FAILED Commit converges to the same tree
    A failed Commit leaves the remote in an intermediate state: either only some of the
    tombstones were applied (the failure happened in the removal phase), or all of them and some
    of the buffer entries were materialised (any subset, in any order).  From every such state a
    later Commit without failure reaches exactly the tree of an undisturbed Commit. *)
Section Converge.
Variable B : fs.
Variable r0 : fs.
Hypothesis WB : WF B.
Hypothesis H1 : forall q, lookup B q = Some D -> forall d, lookup r0 q <> Some (F d).
Hypothesis H2 : forall q d, lookup B q = Some (F d) -> lookup r0 q <> Some D.

(** every path holds the buffer's entry, or still the entry of the tombstoned remote [r0], or —
    for a buffer directory — an implicitly created directory, or — for a buffer file — a file
    with ANY content (a streamed write that was cut short); paths the buffer does not bind hold
    what [r0] holds *)
Definition G (r : fs) : Prop :=
  WF r /\
  forall q, match lookup B q with
            | Some e => lookup r q = Some e \/ lookup r q = lookup r0 q \/ (e = D /\ lookup r q = Some D) \/
                        (exists d d', e = F d /\ lookup r q = Some (F d'))
            | None => lookup r q = lookup r0 q
            end.

Lemma G_not_file_at_buffer_dir r a : G r -> lookup B a = Some D -> is_file_at r a = false.
Proof.
  intros [_ Hg] Ha. unfold is_file_at. specialize (Hg a). rewrite Ha in Hg.
  destruct Hg as [E|[E|[[_ E]|(d1 & d2 & Ed & _)]]]; [| | |discriminate]; rewrite E; try reflexivity.
  destruct (lookup r0 a) as [[d|]|] eqn:E0; try reflexivity. exfalso. exact (H1 a Ha d E0).
Qed.

Lemma buffer_ancestor_dir p e a x : In (p, e) B -> x <> [] -> p = a ++ x -> lookup B a = Some D.
Proof.
  intros Hin Hx Hp. pose proof (WF_prefix_dir B WB x a Hx) as Hd. unfold exists_at, is_dir_at in Hd.
  rewrite <- Hp, (In_lookup B p e WB Hin) in Hd. specialize (Hd eq_refl).
  destruct (lookup B a) as [[|]|]; try discriminate. reflexivity.
Qed.

(** one send of the Commit loop; for a file, [w] is what actually gets written: the buffered
    content, or anything else when the stream is cut short *)
Lemma G_step_gen r p e w : G r -> In (p, e) B ->
  exists r1, (match e with D => mkdir_all r p | F _ => write_at r p w end) = Some r1 /\
             G r1 /\ lookup r1 p = Some (match e with D => D | F _ => F w end) /\
             (forall q, q <> p -> lookup r q <> None -> lookup r1 q = lookup r q).
Proof.
  intros HG Hin. pose proof HG as [Wr Hg].
  destruct (WF_entry_good _ _ _ WB Hin) as [Hgp Hp].
  assert (HBp : lookup B p = Some e) by (apply In_lookup; assumption).
  assert (Hanc : forall a, a <> [] -> forall x, x <> [] -> p = a ++ x -> is_file_at r a = false).
  { intros a _ x Hx Hpx. apply G_not_file_at_buffer_dir; [exact HG|eapply buffer_ancestor_dir; eauto]. }
  assert (Hstep : exists r1, (match e with D => mkdir_all r p | F _ => write_at r p w end) = Some r1 /\
            WF r1 /\ lookup r1 p = Some (match e with D => D | F _ => F w end) /\
            (forall q, q <> p -> lookup r q <> None -> lookup r1 q = lookup r q) /\
            (forall q, q <> p -> lookup r q = None -> lookup r1 q <> None ->
                       lookup r1 q = Some D /\ exists x, x <> [] /\ p = q ++ x)).
  { destruct e as [data|].
    - assert (Hnd : is_dir_at r p = false).
      { unfold is_dir_at. specialize (Hg p). rewrite HBp in Hg.
        destruct Hg as [E|[E|[[E _]|(d1 & d2 & _ & E)]]]; [rewrite E; reflexivity| |discriminate|rewrite E; reflexivity].
        rewrite E. destruct (lookup r0 p) as [[|]|] eqn:E0; try reflexivity. exfalso. exact (H2 p data HBp E0). }
      destruct (write_at_succeeds r p w Wr Hgp Hp) as [b Hb]; [|exact Hnd|].
      { intros a Ha Hpre. apply is_prefix_spec in Hpre as [s Hs].
        apply (Hanc a Ha (s ++ [last p []])); [destruct s; discriminate|].
        rewrite app_assoc, <- Hs. apply app_removelast_last. exact Hp. }
      destruct (write_at_spec _ _ _ _ Wr Hgp Hp Hb) as (Wb & Lp & _ & Fr & Nw).
      exists b. split; [exact Hb|]. split; [exact Wb|]. split; [exact Lp|]. split; [exact Fr|].
      intros q Hq Hn Hs. destruct (Nw q Hq Hn Hs) as [A Bp]. split; [exact A|].
      apply is_prefix_spec in Bp as [s Hs']. exists (s ++ [last p []]). split; [destruct s; discriminate|].
      rewrite app_assoc, <- Hs'. apply app_removelast_last. exact Hp.
    - destruct (mkdir_all_succeeds r p) as [b Hb].
      { intros a Ha Hpre. apply is_prefix_spec in Hpre as [s Hs]. destruct s as [|m s].
        - rewrite app_nil_r in Hs. subst a. apply G_not_file_at_buffer_dir; assumption.
        - apply (Hanc a Ha (m :: s)); [discriminate|exact Hs]. }
      destruct (mkdir_all_spec _ _ _ Wr Hgp Hb) as (Wb & Dp & P1 & N1).
      exists b. split; [exact Hb|]. split; [exact Wb|]. split.
      { unfold is_dir_at in Dp. destruct (lookup b p) as [[|]|]; try discriminate. reflexivity. }
      split.
      + intros q _ Hex. destruct (lookup r q) as [e|] eqn:E; [|congruence]. apply P1. exact E.
      + intros q Hq Hn Hs. destruct (N1 q Hn Hs) as [A Bp]. split; [exact A|].
        apply is_prefix_spec in Bp as [s Hs']. exists s. split; [|exact Hs'].
        intros ->. rewrite app_nil_r in Hs'. congruence. }
  destruct Hstep as (r1 & Hs1 & W1 & Lp & Fr & Nw).
  exists r1. split; [exact Hs1|]. split; [|split; [exact Lp|exact Fr]].
  split; [exact W1|]. intros q. destruct (path_eqb q p) eqn:Eqp.
  - apply path_eqb_spec in Eqp. subst q. rewrite HBp. destruct e as [data|].
    + right. right. right. exists data, w. split; [reflexivity|exact Lp].
    + left. exact Lp.
  - apply path_eqb_false in Eqp. specialize (Hg q).
    destruct (lookup r q) as [eq|] eqn:Erq.
    + rewrite (Fr q Eqp) by congruence. rewrite Erq. exact Hg.
    + destruct (lookup r1 q) as [e1|] eqn:E1.
      * destruct (Nw q Eqp Erq) as (A & x & Hx & Hpx); [congruence|].
        rewrite (buffer_ancestor_dir p e q x Hin Hx Hpx). right. right. left. split; [reflexivity|congruence].
      * exact Hg.
Qed.

Lemma G_step r p e : G r -> In (p, e) B ->
  exists r1, (match e with D => mkdir_all r p | F data => write_at r p data end) = Some r1 /\
             G r1 /\ lookup r1 p = Some e /\
             (forall q, q <> p -> lookup r q <> None -> lookup r1 q = lookup r q).
Proof.
  intros HG Hin. destruct e as [data|].
  - exact (G_step_gen r p (F data) data HG Hin).
  - exact (G_step_gen r p D [] HG Hin).
Qed.

Lemma G_materialise l : forall r, G r -> (forall p e, In (p, e) l -> In (p, e) B) ->
  exists r', materialise r l = Some r' /\ G r' /\
             (forall q, lookup r q = lookup B q -> lookup r q <> None -> lookup r' q = lookup B q) /\
             (forall p e, In (p, e) l -> lookup r' p = Some e).
Proof.
  induction l as [|[p e] l IH]; intros r HG Hl.
  - exists r. split; [reflexivity|]. split; [exact HG|]. split; [auto|]. intros p e [].
  - destruct (G_step r p e HG (Hl p e (or_introl eq_refl))) as (r1 & Hs & HG1 & Lp & Fr).
    destruct (IH r1 HG1 (fun p' e' H => Hl p' e' (or_intror H))) as (r' & Hm & HG' & Keep & All).
    exists r'. simpl. rewrite Hs. split; [exact Hm|]. split; [exact HG'|].
    assert (HBp : lookup B p = Some e) by (apply In_lookup; [exact WB|apply Hl; left; reflexivity]).
    split.
    + intros q Hq Hne. destruct (path_eqb q p) eqn:Eqp.
      * apply path_eqb_spec in Eqp. subst q. apply Keep; congruence.
      * apply path_eqb_false in Eqp. apply Keep; rewrite (Fr q Eqp Hne); assumption.
    + intros p' e' [Heq|Hin]; [|apply All; exact Hin]. inversion Heq; subst p' e'.
      rewrite <- HBp. apply Keep; congruence.
Qed.

Theorem G_commit_all r : G r ->
  exists r', materialise r B = Some r' /\ WF r' /\
    forall q, lookup r' q = match lookup B q with Some e => Some e | None => lookup r0 q end.
Proof.
  intros HG. destruct (G_materialise B r HG (fun p e H => H)) as (r' & Hm & [W' Hg'] & _ & All).
  exists r'. split; [exact Hm|]. split; [exact W'|]. intros q.
  destruct (lookup B q) as [e|] eqn:Eb.
  - destruct q as [|n q]; [simpl in *; congruence|].
    apply All. apply lookup_In; [discriminate|exact Eb].
  - specialize (Hg' q). rewrite Eb in Hg'. exact Hg'.
Qed.
End Converge.

Lemma incl_masked T1 T q : incl T1 T -> masked T1 q = true -> masked T q = true.
Proof. rewrite !masked_spec. intros Hi (t & Ht & Hp). exists t. split; [apply Hi; exact Ht|exact Hp]. Qed.

(** The intermediate remote after a failed Commit. *)
Inductive partial_remote (c : cache) : fs -> Prop :=
| PR_tombs T1 : incl T1 (cT c) -> partial_remote c (apply_tombs (cR c) T1)
| PR_buffer l r : (forall p e, In (p, e) l -> In (p, e) (cB c)) ->
                  materialise (apply_tombs (cR c) (cT c)) l = Some r -> partial_remote c r
  (** ... and the send that failed was a streamed file cut short: some other content [w]
      (typically a prefix of the buffered one) is left at its path *)
| PR_torn l r p d w r' : (forall p e, In (p, e) l -> In (p, e) (cB c)) ->
                  materialise (apply_tombs (cR c) (cT c)) l = Some r ->
                  In (p, F d) (cB c) -> write_at r p w = Some r' -> partial_remote c r'.

(** Convergence from ANY remote [rp] that, once the tombstones are applied, is in relation [G]
    with the buffer and the undisturbed tombstoned remote. *)
Theorem commit_converges_from_G c rp :
  Inv c -> G (cB c) (apply_tombs (cR c) (cT c)) (apply_tombs rp (cT c)) ->
  exists c', c_commit (mkCache (cB c) rp (cT c)) = (c', RUnit) /\
             cB c' = cB c /\ cT c' = [] /\
             forall q, lookup (cR c') q = vlookup c q.
Proof.
  intros I HG.
  destruct (apply_tombs_spec (cT c) (cR c) (inv_R c I) (inv_T c I)) as [W0 L0].
  set (r0 := apply_tombs (cR c) (cT c)) in *.
  assert (Lv : forall q, lookup r0 q = vis c q) by (intros q; rewrite L0; reflexivity).
  assert (C1 : forall q, lookup (cB c) q = Some D -> forall d, lookup r0 q <> Some (F d))
    by (intros q Hq d; rewrite Lv; exact (inv_dir c I q Hq d)).
  assert (C2 : forall q d, lookup (cB c) q = Some (F d) -> lookup r0 q <> Some D)
    by (intros q d Hq; rewrite Lv; exact (proj1 (inv_file c I q d Hq))).
  destruct (G_commit_all (cB c) r0 (inv_B c I) C1 C2 _ HG) as (r2 & Hm2 & W2 & L2).
  exists (mkCache (cB c) r2 []). unfold c_commit. simpl. rewrite Hm2.
  split; [reflexivity|]. split; [reflexivity|]. split; [reflexivity|].
  intros q. simpl. rewrite L2. unfold vlookup. rewrite Lv. reflexivity.
Qed.


Lemma partial_remote_G c rp :
  Inv c -> partial_remote c rp -> G (cB c) (apply_tombs (cR c) (cT c)) (apply_tombs rp (cT c)).
Proof.
  intros I Hp.
  destruct (apply_tombs_spec (cT c) (cR c) (inv_R c I) (inv_T c I)) as [W0 L0].
  set (r0 := apply_tombs (cR c) (cT c)) in *.
  assert (Lv : forall q, lookup r0 q = vis c q) by (intros q; rewrite L0; reflexivity).
  assert (C1 : forall q, lookup (cB c) q = Some D -> forall d, lookup r0 q <> Some (F d))
    by (intros q Hq d; rewrite Lv; exact (inv_dir c I q Hq d)).
  assert (C2 : forall q d, lookup (cB c) q = Some (F d) -> lookup r0 q <> Some D)
    by (intros q d Hq; rewrite Lv; exact (proj1 (inv_file c I q d Hq))).
  (* the state from which the retry materialises: all tombstones applied to the partial remote *)
  assert (After : forall r, G (cB c) r0 r -> G (cB c) r0 (apply_tombs r (cT c))).
    { intros r [Wr Hgr]. destruct (apply_tombs_spec (cT c) r Wr (inv_T c I)) as [W2 L2].
      split; [exact W2|]. intros q. rewrite L2. specialize (Hgr q).
      destruct (masked (cT c) q) eqn:Em.
      + assert (E0 : lookup r0 q = None) by (rewrite L0, Em; reflexivity).
        rewrite E0. destruct (lookup (cB c) q); auto.
      + exact Hgr. }
    assert (HG0 : G (cB c) r0 r0).
    { split; [exact W0|]. intros q. destruct (lookup (cB c) q); auto. }
    destruct Hp as [T1 Hincl|l r Hl Hm|l r p d w r' Hl Hm Hin Hw].
    - destruct (apply_tombs_spec T1 (cR c) (inv_R c I) (fun t H => inv_T c I t (Hincl t H))) as [W1 L1].
      destruct (apply_tombs_spec (cT c) _ W1 (inv_T c I)) as [W2 L2].
      split; [exact W2|]. intros q.
      assert (E : lookup (apply_tombs (apply_tombs (cR c) T1) (cT c)) q = lookup r0 q).
      { rewrite L2, L1, L0. destruct (masked (cT c) q) eqn:Em; [reflexivity|].
        destruct (masked T1 q) eqn:E1; [|reflexivity]. rewrite (incl_masked T1 (cT c) q Hincl E1) in Em. discriminate. }
      rewrite E. destruct (lookup (cB c) q); auto.
    - destruct (G_materialise (cB c) r0 (inv_B c I) C1 C2 l r0 HG0 Hl) as (r' & Hm' & HGr & _ & _).
      change (materialise r0 l = Some r) in Hm. rewrite Hm in Hm'. inversion Hm'; subst r'.
      apply After. exact HGr.
    - destruct (G_materialise (cB c) r0 (inv_B c I) C1 C2 l r0 HG0 Hl) as (r1 & Hm' & HGr & _ & _).
      change (materialise r0 l = Some r) in Hm. rewrite Hm in Hm'. inversion Hm'; subst r1.
      destruct (G_step_gen (cB c) r0 (inv_B c I) C1 C2 r p (F d) w HGr Hin) as (r2 & Hw2 & HG2 & _).
      simpl in Hw2. rewrite Hw in Hw2. inversion Hw2; subst r2.
      apply After. exact HG2.
Qed.

Theorem commit_converges_after_failure c rp :
  Inv c -> partial_remote c rp ->
  exists c', c_commit (mkCache (cB c) rp (cT c)) = (c', RUnit) /\
             cB c' = cB c /\ cT c' = [] /\
             forall q, lookup (cR c') q = vlookup c q.
Proof. intros I Hp. apply commit_converges_from_G; [exact I|apply partial_remote_G; assumption]. Qed.

(** * The executable check [partial_ok] implies [G] *)
Lemma nodup_paths_NoDup l : nodup_paths l = true -> NoDup l.
Proof.
  induction l as [|p l IH]; simpl; intros H; [constructor|].
  apply andb_true_iff in H as [H1 H2]. constructor; [|apply IH; exact H2].
  intros Hin. apply negb_true_iff in H1.
  assert (existsb (path_eqb p) l = true) by (apply existsb_exists; exists p; split; [exact Hin|apply path_eqb_refl]).
  congruence.
Qed.

Lemma wf_WF t : wf t = true -> WF t.
Proof.
  unfold wf, all_keys. intros H. apply andb_true_iff in H as [H H3]. apply andb_true_iff in H as [H1 H2].
  split; [apply nodup_paths_NoDup; exact H1|].
  intros p e Hin. unfold parents_ok in H2. rewrite forallb_forall in H2, H3.
  specialize (H2 _ Hin). specialize (H3 _ Hin). simpl in H2, H3.
  destruct p as [|n p]; [discriminate|]. repeat split; [discriminate|exact H3|exact H2].
Qed.

Lemma oentry_eqb_spec a b : oentry_eqb a b = true <-> a = b.
Proof.
  destruct a as [[x|]|], b as [[y|]|]; simpl; split; intros H; try discriminate; try reflexivity.
  - apply bytes_eqb_spec in H. subst. reflexivity.
  - inversion H; subst. apply bytes_eqb_refl.
Qed.

Lemma lookup_not_key t q : q <> [] -> ~ In q (map fst t) -> lookup t q = None.
Proof.
  intros Hq Hn. destruct (lookup t q) as [e|] eqn:E; [|reflexivity].
  exfalso. apply Hn. exact (in_map fst _ _ (lookup_In t q e Hq E)).
Qed.

Lemma g_ok_cond B r0 r q : g_ok B r0 r q = true ->
  match lookup B q with
  | Some e => lookup r q = Some e \/ lookup r q = lookup r0 q \/ (e = D /\ lookup r q = Some D) \/
              (exists d d', e = F d /\ lookup r q = Some (F d'))
  | None => lookup r q = lookup r0 q
  end.
Proof.
  unfold g_ok. destruct (lookup B q) as [e|].
  - intros H. apply orb_true_iff in H as [H|H]; [apply orb_true_iff in H as [H|H]|].
    + left. apply oentry_eqb_spec. exact H.
    + right. left. apply oentry_eqb_spec. exact H.
    + destruct e as [d|].
      * right. right. right. destruct (lookup r q) as [[d'|]|]; try discriminate. exists d, d'. auto.
      * right. right. left. split; [reflexivity|apply oentry_eqb_spec; exact H].
  - intros H. apply oentry_eqb_spec. exact H.
Qed.

Lemma partial_ok_G c rp : Inv c -> partial_ok c rp = true ->
  G (cB c) (apply_tombs (cR c) (cT c)) (apply_tombs rp (cT c)).
Proof.
  intros I H. unfold partial_ok in H. apply andb_true_iff in H as [Hw Hall].
  apply wf_WF in Hw. destruct (apply_tombs_spec (cT c) rp Hw (inv_T c I)) as [W2 _].
  split; [exact W2|]. intros q. rewrite forallb_forall in Hall.
  set (r0 := apply_tombs (cR c) (cT c)) in *. set (r := apply_tombs rp (cT c)) in *.
  destruct q as [|n q]; [simpl; left; reflexivity|].
  destruct (in_dec (list_eq_dec (list_eq_dec N.eq_dec)) (n :: q) (map fst r ++ map fst r0 ++ map fst (cB c))) as [Hin|Hnot].
  - apply g_ok_cond. apply Hall. exact Hin.
  - assert (Hr : lookup r (n :: q) = None) by (apply lookup_not_key; [discriminate|intros X; apply Hnot; apply in_or_app; left; exact X]).
    assert (H0 : lookup r0 (n :: q) = None) by (apply lookup_not_key; [discriminate|intros X; apply Hnot; apply in_or_app; right; apply in_or_app; left; exact X]).
    assert (HB : lookup (cB c) (n :: q) = None) by (apply lookup_not_key; [discriminate|intros X; apply Hnot; apply in_or_app; right; apply in_or_app; right; exact X]).
    rewrite HB, Hr, H0. reflexivity.
Qed.

(** What the correspondence check establishes on every observed failed Commit is enough. *)
Theorem commit_converges_from_observed c rp :
  Inv c -> partial_ok c rp = true ->
  exists c', c_commit (mkCache (cB c) rp (cT c)) = (c', RUnit) /\
             cB c' = cB c /\ cT c' = [] /\
             forall q, lookup (cR c') q = vlookup c q.
Proof. intros I H. apply commit_converges_from_G; [exact I|apply partial_ok_G; assumption]. Qed.

(** * Copies through the cache are complete *)
Lemma c_write_inv c p data c1 :
  Inv c -> good_path p = true -> p <> [] -> c_write c p data = (c1, RUnit) ->
  Inv c1 /\ vlookup c1 p = Some (F data) /\
  (forall q, q <> p -> vlookup c q <> None -> vlookup c1 q = vlookup c q).
Proof.
  intros I Hg Hp H. unfold c_write in H. destruct (check_dest c p false) eqn:E; [|discriminate].
  destruct (c_write_spec c p data I Hg Hp E) as (c' & H' & I' & L & Fr & _).
  unfold c_write in H'. rewrite E in H'. rewrite H in H'. inversion H'; subst c'. auto.
Qed.

Lemma c_mkdir_inv c p c1 :
  Inv c -> good_path p = true -> c_mkdir c p = (c1, RUnit) ->
  Inv c1 /\ vlookup c1 p = Some D /\ (forall q, vlookup c q <> None -> vlookup c1 q = vlookup c q).
Proof.
  intros I Hg H. destruct p as [|n p].
  - simpl in H. inversion H; subst. auto.
  - unfold c_mkdir in H. destruct (check_dest c (n :: p) true) eqn:E; [|discriminate].
    destruct (c_mkdir_spec c (n :: p) I Hg ltac:(discriminate) E) as (c' & H' & I' & L & Fr & _).
    unfold c_mkdir in H'. rewrite E in H'. rewrite H in H'. inversion H'; subst c'. auto.
Qed.

Lemma copy_entries_spec l : forall c dst c',
  Inv c -> good_path dst = true ->
  (forall rel e, In (rel, e) l -> good_path rel = true /\ rel <> []) ->
  NoDup (map fst l) ->
  copy_entries c dst l = (c', RUnit) ->
  Inv c' /\
  (forall rel e, In (rel, e) l -> vlookup c' (dst ++ rel) = Some e) /\
  (forall q, vlookup c q <> None -> (forall rel e, In (rel, e) l -> q <> dst ++ rel) -> vlookup c' q = vlookup c q).
Proof.
  induction l as [|[rel e] l IH]; intros c dst c' I Hd Hl Hnd H.
  - simpl in H. inversion H; subst. split; [exact I|]. split; [intros ? ? []|auto].
  - simpl in H. destruct (Hl rel e (or_introl eq_refl)) as [Hr Hrne].
    assert (Hl' : forall rel0 e0, In (rel0, e0) l -> good_path rel0 = true /\ rel0 <> [])
      by (intros ? ? Hin; eapply Hl; right; exact Hin).
    inversion Hnd as [|? ? Hnotin Hnd']; subst.
    assert (Hgp : good_path (dst ++ rel) = true) by (apply good_path_app; auto).
    assert (Hpne : dst ++ rel <> []) by (destruct dst; destruct rel; try discriminate; congruence).
    (* the state after this entry *)
    assert (Hstep : exists c1, copy_entries c1 dst l = (c', RUnit) /\ Inv c1 /\
               vlookup c1 (dst ++ rel) = Some e /\
               (forall q, q <> dst ++ rel -> vlookup c q <> None -> vlookup c1 q = vlookup c q)).
    { destruct e as [data|].
      - destruct (c_mkdir c (dst ++ removelast rel)) as [c0 r0] eqn:E0.
        destruct r0; try (inversion H; fail).
        assert (Hg0 : good_path (dst ++ removelast rel) = true)
          by (apply good_path_app; split; [exact Hd|apply good_path_removelast; exact Hr]).
        destruct (c_mkdir_inv c _ c0 I Hg0 E0) as (I0 & _ & Fr0).
        destruct (c_write c0 (dst ++ rel) data) as [c1 r1] eqn:E1.
        destruct r1; try (inversion H; fail).
        destruct (c_write_inv c0 _ data c1 I0 Hgp Hpne E1) as (I1 & L1 & Fr1).
        exists c1. split; [exact H|]. split; [exact I1|]. split; [exact L1|].
        intros q Hq Hex. rewrite Fr1; [apply Fr0; exact Hex|exact Hq|rewrite Fr0; assumption].
      - destruct (c_mkdir c (dst ++ rel)) as [c1 r1] eqn:E1.
        destruct r1; try (inversion H; fail).
        destruct (c_mkdir_inv c _ c1 I Hgp E1) as (I1 & L1 & Fr1).
        exists c1. split; [exact H|]. split; [exact I1|]. split; [exact L1|].
        intros q _ Hex. apply Fr1. exact Hex. }
    destruct Hstep as (c1 & H1 & I1 & L1 & Fr1).
    destruct (IH c1 dst c' I1 Hd Hl' Hnd' H1) as (I' & All & Keep).
    split; [exact I'|]. split.
    + intros rel0 e0 [Heq|Hin]; [|apply All; exact Hin]. inversion Heq; subst rel0 e0.
      rewrite Keep; [exact L1|congruence|].
      intros rel2 e2 Hin2 Heq2. apply app_inv_head in Heq2. subst rel2.
      apply Hnotin. apply in_map_iff. exists (rel, e2). auto.
    + intros q Hex Hq. rewrite Keep.
      * apply Fr1; [apply (Hq rel e); left; reflexivity|exact Hex].
      * rewrite Fr1; [exact Hex|apply (Hq rel e); left; reflexivity|exact Hex].
      * intros rel2 e2 Hin2. apply (Hq rel2 e2). right. exact Hin2.
Qed.

(** Copying a directory through the cache: when it reports success, every node visible below the
    source is visible below the destination with the same entry (byte for byte), and every other
    visible node that is not one of the written destinations is unchanged. *)
Theorem c_copy_dir_spec c src dst c' :
  Inv c -> good_path src = true -> good_path dst = true -> src <> [] ->
  vlookup c src = Some D -> c_copy c src dst = (c', RUnit) ->
  Inv c' /\ vlookup c' dst = Some D /\
  (forall rel e, rel <> [] -> vlookup c (src ++ rel) = Some e -> vlookup c' (dst ++ rel) = Some e).
Proof.
  intros I Hs Hd Hsne Hsrc H. unfold c_copy in H. destruct src as [|n src]; [congruence|].
  destruct (is_prefix (n :: src) dst) eqn:Ep; [discriminate|]. rewrite Hsrc in H.
  destruct (c_mkdir c dst) as [c1 r1] eqn:E1. destruct r1; try (inversion H; fail).
  destruct (c_mkdir_inv c dst c1 I Hd E1) as (I1 & L1 & Fr1).
  set (l := subtree_moved (cview c) (n :: src) []) in *.
  assert (Hl : forall rel e, In (rel, e) l -> good_path rel = true /\ rel <> []).
  { intros rel e Hin. unfold l in Hin. apply In_moved in Hin as (x & Hx & Hrel & Hin). simpl in Hrel. subst rel.
    split; [|exact Hx]. apply (cview_entry_good c _ e I) in Hin. apply good_path_app in Hin. tauto. }
  assert (Hnd : NoDup (map fst l)) by (unfold l; apply NoDup_moved; apply (cview_WF c I)).
  destruct (copy_entries_spec l c1 dst c' I1 Hd Hl Hnd H) as (I' & All & Keep).
  split; [exact I'|]. split.
  - rewrite Keep; [exact L1|congruence|].
    intros rel e Hin Heq. destruct (Hl rel e Hin) as [_ Hne].
    apply (f_equal (@length name)) in Heq. rewrite app_length in Heq. destruct rel; [congruence|simpl in Heq; lia].
  - intros rel e Hrel Hv. apply All. unfold l.
    assert (Hin : In ((n :: src) ++ rel, e) (cview c)).
    { apply lookup_In; [destruct rel; discriminate|]. rewrite lookup_cview. exact Hv. }
    clear -Hin Hrel. unfold subtree_moved. apply in_flat_map. exists ((n :: src) ++ rel, e). split; [exact Hin|].
    cbn [fst snd]. rewrite is_prefix_app. rewrite app_length.
    replace (Nat.eqb (length (n :: src) + length rel) (length (n :: src))) with false.
    2:{ symmetry. apply Nat.eqb_neq. destruct rel; [congruence|simpl; lia]. }
    simpl andb. rewrite skipn_app_exact. left. reflexivity.
Qed.
