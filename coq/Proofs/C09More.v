(** C09 proof audit: theorems that close gaps left by Props/C09.v (statements: Props/C09.v, lower part).

    Part 1 (programs without Remove/RemoveAll, ALL flavours, ALL schedules, any initial heap):
      - a creating call that returned nil HAS taken effect when it returns (WriteFile/Writer: the
        path resolves to a file object that holds exactly the written value and is unlocked;
        MkdirAll: the path resolves to a directory; Copy*: the destination resolves) and the
        binding is there in every later state (with Proofs/MemConc.v no_remove_monotone: the SAME
        object);
      - a creating call that returned an error is explained by a node that is visible in the
        state (a file on the way, or a node at the path itself);
      - two successful creations of one path got one and the same node.
    Part 2 (ALL programs, current flavour, tree-shaped initial heap): termination under every
      fair schedule with an explicit bound. *)
From GC Require Import Common.Base Model.Paths Model.Fs Model.MemConc Proofs.Paths Proofs.Fs Proofs.MemConc Proofs.MemLive.
From Coq Require Import Lia.
Open Scope nat_scope.

(** * Part 1: effect, visibility, refusals (no removals) *)

Definition pfx (q p : path) : Prop := exists rest, p = q ++ rest.

Definition target (o : cop) : option path :=
  match o with
  | CWrite p _ | CWriter p _ | CMkdir p => Some p
  | CCopy _ _ dst => Some dst
  | _ => None
  end.
Definition kind_ok (r : ref) (o : cop) : Prop :=
  match o with
  | CWrite _ _ | CWriter _ _ => exists f, r = RFile f
  | CMkdir _ => exists d, r = RDir d
  | _ => True
  end.
(** the node the call was to create is bound at its path, with the right kind *)
Definition vis (s : shared) (o : cop) : Prop :=
  match target o with
  | Some p => exists r, walk_root s p = Some r /\ kind_ok r o
  | None => True
  end.
(** the reason of a refusal is visible: the root was addressed, a file sits on the way, or a
    node sits at the path itself (for WriteFile/Writer that node is a directory, or a node that
    somebody else created between the caller's lookup and its insertion) *)
Definition refused (s : shared) (o : cop) : Prop :=
  match o with
  | CWrite p _ | CWriter p _ =>
    p = [] \/ exists q r, pfx q p /\ walk_root s q = Some r /\ (q = p \/ exists f, r = RFile f)
  | CMkdir p => exists q f, pfx q p /\ walk_root s q = Some (RFile f)
  | _ => True
  end.
Definition lasting (s : shared) (o : cop) (r : cres) : Prop :=
  match r with QErr => refused s o | _ => vis s o end.

(** the file at [p] holds exactly [v] and no handle is open on it *)
Definition holds (s : shared) (p : path) (v : bytes) : Prop :=
  exists f fo, walk_root s p = Some (RFile f) /\ nth_error (files s) f = Some fo /\
               f_data fo = v /\ f_holder fo = None.
Definition at_return (s : shared) (o : cop) (r : cres) : Prop :=
  match r with
  | QOk => match o with
           | CWrite p d => holds s p d
           | CWriter p c => holds s p (concat c)
           | _ => True
           end
  | _ => True
  end.

Definition quiet (o : cop) : Prop :=
  match o with CRead _ | CReader _ | CList _ | CExist _ => True | _ => False end.
Definition op_of_w (p : path) (w : wk) : cop :=
  match w with WData d => CWrite p d | WStream c => CWriter p c end.
Definition amk_op (o : cop) (full : path) (a : amk) : Prop :=
  match a with
  | MDone => o = CMkdir full
  | MWrite nm d => o = CWrite (full ++ [nm]) d
  | MWriter nm c => o = CWriter (full ++ [nm]) c
  | MSnap _ nm | MAdd _ nm => exists k src, o = CCopy k src (full ++ [nm])
  end.
Definition ares_at (o : cop) (a : ares) : Prop :=
  match a with
  | ACopy k dp nm => exists src, o = CCopy k src (dp ++ [nm])
  | ARemove _ _ => False
  | _ => quiet o
  end.
(** what a program counter knows about the current call [o] and about the heap: the directory it
    stands on is bound at the prefix of the path walked so far *)
Definition pc_at (s : shared) (t : nat) (o : cop) (p : pcs) : Prop :=
  match p with
  | PIdle | PPanic => True
  | PRes _ _ a => ares_at o a
  | PReadData _ | PListDir _ | PReaderOpen _ => quiet o
  | PReaderClose f => quiet o /\ held_by s t f (fun _ => True)
  | PRemGap _ _ _ | PRemOld _ _ => False
  | PMk full cur rest _ a =>
    (exists pre, full = pre ++ rest /\ walk_root s pre = Some (RDir cur)) /\ amk_op o full a
  | PLockL full d nm w => walk_root s full = Some (RDir d) /\ o = op_of_w (full ++ [nm]) w
  | PInL full d nm found w =>
    walk_root s full = Some (RDir d) /\ o = op_of_w (full ++ [nm]) w /\
    (forall r, found = Some r -> walk_root s (full ++ [nm]) = Some r)
  | PWriterAcq _ f c => exists p, o = CWriter p c /\ walk_root s p = Some (RFile f)
  | PWriting f c =>
    exists p c0, o = CWriter p c0 /\ walk_root s p = Some (RFile f) /\
                 held_by s t f (fun d => d ++ concat c = concat c0)
  | PSnap full d _ nm | PAdd full d _ nm =>
    walk_root s full = Some (RDir d) /\ exists k src, o = CCopy k src (full ++ [nm])
  end.
Definition next_at (s : shared) (t : nat) (o : cop) (n : next) : Prop :=
  match n with NPc p => pc_at s t o p | NRet r => lasting s o r /\ at_return s o r end.

(** ** walking *)
Lemma walk_app s p1 : forall cur p2,
  walk s cur (p1 ++ p2) = match walk s cur p1 with Some r => walk s r p2 | None => None end.
Proof.
  induction p1 as [|n p1 IH]; intros cur p2; simpl; auto.
  destruct cur as [d|f]; auto. destruct (nth_error (dirs s) d) as [o|]; auto.
  destruct (lookup_ch (d_ch o) n); auto.
Qed.

Lemma walk_snoc s pre d o n r :
  walk_root s pre = Some (RDir d) -> nth_error (dirs s) d = Some o -> lookup_ch (d_ch o) n = Some r ->
  walk_root s (pre ++ [n]) = Some r.
Proof.
  unfold walk_root. intros Hw Eo El. rewrite walk_app, Hw. simpl. rewrite Eo, El. reflexivity.
Qed.

Lemma split_last_app p : forall dp nm, split_last p = Some (dp, nm) -> p = dp ++ [nm].
Proof.
  induction p as [|n p IH]; intros dp nm; simpl; [discriminate|].
  destruct p as [|n' p'].
  - intros H; inv H. reflexivity.
  - destruct (split_last (n' :: p')) as [[dp' l]|] eqn:E; [|discriminate].
    intros H; inv H. simpl. f_equal. apply IH. reflexivity.
Qed.
Lemma split_last_none p : split_last p = None -> p = [].
Proof.
  induction p as [|n p IH]; auto. simpl. destruct p as [|n' p']; [discriminate|].
  destruct (split_last (n' :: p')) as [[dp' l]|] eqn:E; [discriminate|].
  intros _. specialize (IH eq_refl). discriminate.
Qed.

Lemma lookup_snoc_new ch n r : lookup_ch ch n = None -> lookup_ch (ch ++ [(n, r)]) n = Some r.
Proof.
  induction ch as [|e ch IH]; simpl app.
  - intros _. rewrite lookup_ch_cons. simpl. rewrite bytes_eqb_refl. reflexivity.
  - rewrite !lookup_ch_cons. destruct (bytes_eqb (fst e) n); [discriminate|auto].
Qed.

Lemma pfx_refl p : pfx p p.
Proof. exists []. rewrite app_nil_r. reflexivity. Qed.

(** ** monotonicity under [ext] *)
Lemma vis_ext s s' o : ext s s' -> vis s o -> vis s' o.
Proof.
  intros He. unfold vis. destruct (target o); auto. intros (r & Hw & Hk). exists r. split; auto. apply He; auto.
Qed.
Lemma refused_ext s s' o : ext s s' -> refused s o -> refused s' o.
Proof.
  intros He. destruct o; simpl; auto.
  - intros [H|(q & r & H1 & H2 & H3)]; [left; auto|right]. exists q, r. split; auto. split; auto. apply He; auto.
  - intros [H|(q & r & H1 & H2 & H3)]; [left; auto|right]. exists q, r. split; auto. split; auto. apply He; auto.
  - intros (q & f & H1 & H2). exists q, f. split; auto. apply He; auto.
Qed.
Lemma lasting_ext s s' o r : ext s s' -> lasting s o r -> lasting s' o r.
Proof. intros He. destruct r; simpl; eauto using vis_ext, refused_ext. Qed.

Lemma held_fr t t' s s' f P : fr t s s' -> t' <> t -> held_by s t' f P -> held_by s' t' f P.
Proof. intros Hfr Hn (fo & E & Eh & HP). exists fo. repeat split; eauto. Qed.

Lemma pc_at_frame t t' s s' o p : ext s s' -> fr t s s' -> t' <> t -> pc_at s t' o p -> pc_at s' t' o p.
Proof.
  intros He Hfr Hn. unfold walk_root in *. destruct p; simpl; auto.
  - intros [H1 H2]. split; auto. eapply held_fr; eauto.
  - intros [(pre & H1 & H2) H3]. split; auto. exists pre. split; auto. apply He; auto.
  - intros [H1 H2]. split; auto. apply He; auto.
  - intros (H1 & H2 & H3). split; [apply He; auto|]. split; auto. intros r Hr. apply He. auto.
  - intros (p & H1 & H2). exists p. split; auto. apply He; auto.
  - intros (p & c0 & H1 & H2 & H3). exists p, c0. split; auto. split; [apply He; auto|]. eapply held_fr; eauto.
  - intros [H1 H2]. split; auto. apply He; auto.
  - intros [H1 H2]. split; auto. apply He; auto.
Qed.

Lemma quiet_ret s o r : quiet o -> lasting s o r /\ at_return s o r.
Proof. destruct o; simpl; try tauto; intros _; destruct r; simpl; unfold vis; simpl; auto. Qed.

(** ** the transitions keep [pc_at] *)
Lemma after_mk_at s t o full d a :
  walk_root s full = Some (RDir d) -> amk_op o full a -> next_at s t o (after_mk full d a).
Proof.
  intros Hw Ha. destruct a; simpl in *; auto.
  subst o. split; simpl; auto. unfold vis. simpl. exists (RDir d). split; eauto.
Qed.
Lemma goto_mk_at s t o full c rest a :
  (exists pre, full = pre ++ rest /\ walk_root s pre = Some (RDir c)) -> amk_op o full a ->
  next_at s t o (goto_mk full c rest a).
Proof.
  intros Hp Ha. destruct rest as [|x rest]; simpl; auto.
  destruct Hp as (pre & -> & Hw). rewrite app_nil_r in *. apply after_mk_at; auto.
Qed.
Lemma root_walk s : walk_root s [] = Some (RDir ROOT).
Proof. reflexivity. Qed.
Lemma goto_mk_root s t o full a : amk_op o full a -> next_at s t o (goto_mk full ROOT full a).
Proof. intros Ha. apply goto_mk_at; auto. exists []. split; auto. Qed.

Lemma after_res_at s t o r a : ares_at o a -> next_at s t o (after_res r a).
Proof.
  intros Ha. destruct a; simpl in Ha; try tauto.
  1-4: destruct r; simpl; auto; first [exact (quiet_ret s o QErr Ha) | exact (quiet_ret s o (QBool true) Ha)].
  destruct Ha as (src & ->).
  assert (G : forall r0, next_at s t (CCopy k src (dp ++ [nm])) (goto_mk dp ROOT dp (MSnap r0 nm))).
  { intros r0. apply goto_mk_root. simpl. eauto. }
  simpl. destruct k, r; auto; split; simpl; auto.
Qed.
Lemma goto_res_at s t o r rest a : ares_at o a -> next_at s t o (goto_res r rest a).
Proof. intros Ha. destruct rest; simpl; auto using after_res_at. Qed.
Lemma res_fail_at s o a : ares_at o a -> lasting s o (res_fail a) /\ at_return s o (res_fail a).
Proof.
  intros Ha. destruct a; try (exact (quiet_ret s o _ Ha)); simpl in Ha; [tauto|].
  destruct Ha as (src & ->). split; simpl; auto.
Qed.

Lemma start_at s t o : is_remove o = false -> next_at s t o (start o).
Proof.
  intros Hr. destruct o; simpl in *; try discriminate.
  - destruct (split_last p) as [[dp nm]|] eqn:E.
    + apply split_last_app in E. subst p. apply goto_mk_root. reflexivity.
    + apply split_last_none in E. subst p. split; simpl; auto.
  - destruct (split_last p) as [[dp nm]|] eqn:E.
    + apply split_last_app in E. subst p. apply goto_mk_root. reflexivity.
    + apply split_last_none in E. subst p. split; simpl; auto.
  - apply goto_mk_root. reflexivity.
  - destruct p as [|x p]; [apply quiet_ret; exact I|]. apply (goto_res_at s t (CRead (x :: p)) (RDir ROOT) (x :: p) ARead). exact I.
  - destruct p as [|x p]; [apply quiet_ret; exact I|]. apply (goto_res_at s t (CReader (x :: p)) (RDir ROOT) (x :: p) AReader). exact I.
  - apply goto_res_at. exact I.
  - apply goto_res_at. exact I.
  - destruct (split_last dst) as [[dp nm]|] eqn:E.
    + apply split_last_app in E. subst dst.
      assert (G : next_at s t (CCopy k src (dp ++ [nm])) (goto_res (RDir ROOT) src (ACopy k dp nm))).
      { apply goto_res_at. simpl. eauto. }
      destruct k, src; auto; split; simpl; auto.
    + split; simpl; auto.
Qed.

Lemma pc_at_norm s t o p : pc_at s t o p -> pc_norm p.
Proof. destruct p; simpl; auto. destruct a; simpl; auto. Qed.

Lemma ext_root s s' p r : ext s s' -> walk_root s p = Some r -> walk_root s' p = Some r.
Proof. intros He. apply He. Qed.

Lemma nth_upd_dir s d g o : nth_error (dirs s) d = Some o -> nth_error (dirs (upd_dir s d g)) d = Some (g o).
Proof. intros E. simpl. apply nth_list_upd_eq; auto. Qed.

Ltac frs := first [apply fr_refl | apply fr_same; reflexivity].

Lemma held_intro s t f fo (P : bytes -> Prop) :
  nth_error (files s) f = Some fo -> f_holder fo = Some t -> P (f_data fo) -> held_by s t f P.
Proof. intros. exists fo. auto. Qed.

Lemma step_pc_at ar t s o p s' n :
  pc_at s t o p -> step_pc ar t s p = Some (s', n) ->
  ext s s' /\ fr t s s' /\ next_at s' t o n.
Proof.
  intros Hp H.
  destruct (step_pc_ext _ _ _ _ _ _ (pc_at_norm _ _ _ _ Hp) H) as [He _].
  split; [exact He|].
  destruct p; simpl in H; try discriminate; simpl in Hp; try tauto.
  - (* PRes *)
    brk H; inv H; (split; [frs|]); auto using after_res_at, goto_res_at; try (apply res_fail_at; auto); simpl; auto.
  - (* PReadData *) brk H; inv H; (split; [frs|]); try (exact (quiet_ret _ _ _ Hp)); simpl; auto.
  - (* PListDir *) brk H; inv H; (split; [frs|]); try (exact (quiet_ret _ _ _ Hp)); simpl; auto.
  - (* PReaderOpen *)
    brk H; inv H; try (split; [frs|]; simpl; auto; fail).
    split; [eapply fr_upd_file; eauto|]. simpl. split; auto.
    eapply held_intro; [apply nth_list_upd_eq; eauto| |]; simpl; auto.
  - (* PReaderClose *)
    destruct Hp as [Hq (fo & E & Eh & _)]. rewrite E in H. inv H.
    split; [eapply fr_upd_file; eauto|]. apply quiet_ret; auto.
  - (* PMk *)
    destruct Hp as [(pre & Hfull & Hw) Ha].
    destruct rest as [|c rest'].
    { inv H. split; [frs|]. rewrite app_nil_r in *. apply after_mk_at; auto. }
    destruct (nth_error (dirs s) cur) as [oc|] eqn:Eo; [|inv H; split; [frs|simpl; auto]].
    assert (Hpre : forall r, lookup_ch (d_ch oc) c = Some r -> walk_root s (pre ++ [c]) = Some r).
    { intros r El. eapply walk_snoc; eauto. }
    assert (Hfull' : full = (pre ++ [c]) ++ rest') by (rewrite <- app_assoc; exact Hfull).
    destruct (lookup_ch (d_ch oc) c) as [[c'|f']|] eqn:El.
    + inv H. split; [frs|]. apply goto_mk_at; auto. exists (pre ++ [c]). auto.
    + assert (Hrf : lasting s o QErr /\ at_return s o QErr).
      { split; simpl; auto. destruct a; simpl in Ha.
        - subst o. simpl. exists (pre ++ [c]), f'. split; [exists rest'; auto|auto].
        - subst o. simpl. right. exists (pre ++ [c]), (RFile f'). split; [exists (rest' ++ [nm]); rewrite Hfull', <- app_assoc; auto|].
          split; auto. right. eauto.
        - subst o. simpl. right. exists (pre ++ [c]), (RFile f'). split; [exists (rest' ++ [nm]); rewrite Hfull', <- app_assoc; auto|].
          split; auto. right. eauto.
        - destruct Ha as (k & sp & ->). exact I.
        - destruct Ha as (k & sp & ->). exact I. }
      destruct second; inv H; (split; [frs|]); auto.
      simpl. split; auto. exists pre. auto.
    + destruct second; simpl in H.
      * destruct (d_removed oc); inv H.
        { split; [frs|]. apply goto_mk_root; auto. }
        split; [apply fr_same; reflexivity|].
        apply goto_mk_at; auto. exists (pre ++ [c]). split; auto.
        eapply walk_snoc; [eapply ext_root; eauto| |].
        -- apply nth_upd_dir. simpl. apply nth_error_app_l. exact Eo.
        -- simpl. apply lookup_snoc_new. exact El.
      * inv H. split; [frs|]. simpl. split; auto. exists pre. auto.
  - (* PLockL *)
    destruct Hp as [Hw Ho].
    destruct (nth_error (dirs s) d) as [od|] eqn:Eo; [|inv H; split; [frs|simpl; auto]].
    destruct (d_L od); [discriminate|]. inv H. split; [apply fr_same; reflexivity|].
    simpl. split; [eapply ext_root; eauto|]. split; auto.
    intros r Hr. eapply ext_root; eauto. eapply walk_snoc; eauto.
  - (* PInL *)
    destruct Hp as (Hw & Ho & Hf).
    destruct (nth_error (dirs s) d) as [od|] eqn:Eo; [|inv H; split; [frs|simpl; auto]].
    assert (Herr : forall r, walk_root s' (full ++ [nm]) = Some r ->
                     lasting s' (op_of_w (full ++ [nm]) w) QErr /\ at_return s' (op_of_w (full ++ [nm]) w) QErr).
    { intros r Hr. split; simpl; auto.
      destruct w; simpl; right; exists (full ++ [nm]), r; (split; [apply pfx_refl|split; auto]). }
    destruct found as [[c|f]|].
    + inv H. split; [apply fr_same; reflexivity|]. eapply Herr. eapply ext_root; eauto.
    + destruct (nth_error (files s) f) as [fo|] eqn:Ef; [|inv H; split; [frs|simpl; auto]].
      destruct (f_holder fo) eqn:Eh; [discriminate|].
      specialize (Hf _ eq_refl).
      destruct w as [data|chunks]; inv H.
      * split; [eapply fr_trans; [eapply fr_upd_file; eauto|apply fr_same; reflexivity]|].
        split.
        -- simpl. unfold vis. simpl. exists (RFile f). split; [eapply ext_root; eauto|eauto].
        -- simpl. exists f, (set_data data fo). split; [eapply ext_root; eauto|].
           split; [simpl; apply nth_list_upd_eq; auto|simpl; auto].
      * split; [eapply fr_trans; [eapply fr_upd_file; eauto|apply fr_same; reflexivity]|].
        simpl. exists (full ++ [nm]), chunks. split; auto. split; [eapply ext_root; eauto|].
        eapply held_intro; [simpl; apply nth_list_upd_eq; eauto| |]; simpl; auto.
    + destruct (d_removed od).
      * inv H. split; [apply fr_same; reflexivity|]. apply goto_mk_root. destruct w; reflexivity.
      * destruct (lookup_ch (d_ch od) nm) as [r|] eqn:El.
        -- inv H. split; [apply fr_same; reflexivity|]. eapply Herr. eapply ext_root; eauto. eapply walk_snoc; eauto.
        -- assert (Hnew : forall fo s2, dirs s2 = list_upd (dirs s) d (set_ch (d_ch od ++ [(nm, RFile (length (files s)))])) \/
                                     dirs s2 = list_upd (list_upd (dirs s) d (set_ch (d_ch od ++ [(nm, RFile (length (files s)))]))) d (set_L None) ->
                                     files s2 = files s ++ [fo] -> ext s s2 ->
                            walk_root s2 (full ++ [nm]) = Some (RFile (length (files s))) /\
                            nth_error (files s2) (length (files s)) = Some fo /\ fr t s s2).
           { intros fo s2 Hd Hfi He2. split; [|split].
             - destruct Hd as [Hd|Hd].
               + eapply walk_snoc; [eapply ext_root; eauto| |].
                 * rewrite Hd. apply nth_list_upd_eq. exact Eo.
                 * simpl. apply lookup_snoc_new. exact El.
               + eapply walk_snoc; [eapply ext_root; eauto| |].
                 * rewrite Hd. apply nth_list_upd_eq. apply nth_list_upd_eq. exact Eo.
                 * simpl. apply lookup_snoc_new. exact El.
             - rewrite Hfi. rewrite nth_error_app2, Nat.sub_diag by lia. reflexivity.
             - intros f0 fo0 t' _ E0 _. rewrite Hfi. apply nth_error_app_l. exact E0. }
           destruct w as [data|chunks]; [|destruct (lock_first ar)]; inv H.
           ++ match type of He with ext _ ?s2 => destruct (Hnew (mkFile data None) s2 (or_intror eq_refl) eq_refl He) as (H1 & H2 & H3) end.
              split; [exact H3|]. split.
              ** simpl. unfold vis. simpl. eauto.
              ** simpl. exists (length (files s)), (mkFile data None). auto.
           ++ match type of He with ext _ ?s2 => destruct (Hnew (mkFile [] (Some t)) s2 (or_intror eq_refl) eq_refl He) as (H1 & H2 & H3) end.
              split; [exact H3|]. simpl. exists (full ++ [nm]), chunks. split; auto. split; auto.
              eapply held_intro; eauto.
           ++ match type of He with ext _ ?s2 => destruct (Hnew (mkFile [] None) s2 (or_introl eq_refl) eq_refl He) as (H1 & H2 & H3) end.
              split; [exact H3|]. simpl. exists (full ++ [nm]). auto.
  - (* PWriterAcq *)
    destruct Hp as (p & Ho & Hw).
    destruct (nth_error (files s) f) as [fo|] eqn:Ef; [|inv H; split; [frs|simpl; auto]].
    destruct (f_holder fo) eqn:Eh; [discriminate|]. inv H.
    split; [eapply fr_trans; [eapply fr_upd_file; eauto|apply fr_same; reflexivity]|].
    simpl. exists p, chunks. split; auto. split; [eapply ext_root; eauto|].
    eapply held_intro; [simpl; apply nth_list_upd_eq; eauto| |]; simpl; auto.
  - (* PWriting *)
    destruct Hp as (p & c0 & Ho & Hw & (fo & E & Eh & Hd)). rewrite E in H.
    destruct chunks as [|c rest]; inv H.
    + split; [eapply fr_upd_file; eauto|]. simpl in Hd. rewrite app_nil_r in Hd. split.
      * simpl. unfold vis. simpl. exists (RFile f). split; [eapply ext_root; eauto|eauto].
      * simpl. exists f, (set_holder None fo). split; [eapply ext_root; eauto|].
        split; [simpl; apply nth_list_upd_eq; auto|simpl; auto].
    + split; [eapply fr_upd_file; eauto|]. simpl. exists p, c0. split; auto. split; [eapply ext_root; eauto|].
      eapply held_intro; [simpl; apply nth_list_upd_eq; eauto| |]; simpl; auto.
      rewrite <- app_assoc. exact Hd.
  - (* PSnap *)
    destruct Hp as [Hw Ho].
    destruct (copy_ref (copy_fuel s) s src) as [[s1 r]|] eqn:Ec; [|discriminate]. inv H.
    split; [exact (proj2 (copy_ref_v [] t _ _ _ _ _ Ec))|]. simpl. split; auto. eapply ext_root; eauto.
  - (* PAdd *)
    destruct Hp as [Hw Ho].
    destruct (nth_error (dirs s) d) as [od|] eqn:Eo; [|inv H; split; [frs|simpl; auto]].
    destruct (d_removed od).
    { inv H. split; [frs|]. apply goto_mk_root. exact Ho. }
    destruct Ho as (k & src & ->).
    destruct (lookup_ch (d_ch od) nm) eqn:El; inv H; (split; [apply fr_same; reflexivity|]).
    + split; simpl; auto.
    + split; simpl; auto. unfold vis. simpl. exists snap. split; auto.
      eapply walk_snoc; [eapply ext_root; eauto|apply nth_upd_dir; eauto|]. simpl. apply lookup_snoc_new. exact El.
Qed.

(** ** the invariant over all runs *)
Definition norem (progs : list (list cop)) : bool := forallb (forallb (fun o => negb (is_remove o))) progs.

Definition LPa (s : shared) (t : nat) (l : local) : Prop :=
  forallb (fun o => negb (is_remove o)) (prog l) = true /\
  (pc l = PIdle \/ exists o rest, prog l = o :: rest /\ pc_at s t o (pc l)) /\
  Forall (fun e => lasting s (fst e) (snd e)) (log l).

Lemma LPa_frame t t' s s' l : ext s s' -> fr t s s' -> t' <> t -> LPa s t' l -> LPa s' t' l.
Proof.
  intros He Hfr Hn (H1 & H2 & H3). split; auto. split.
  - destruct H2 as [H2|(o & rest & E & H2)]; [left; auto|right]. exists o, rest. split; auto.
    eapply pc_at_frame; eauto.
  - eapply Forall_impl; [|exact H3]. intros e. apply lasting_ext; auto.
Qed.

Lemma app_self_snoc {A} (l : list A) x : l = l ++ [x] -> False.
Proof. intros H. apply (f_equal (@length A)) in H. rewrite app_length in H. simpl in H. lia. Qed.

Lemma apply_next_at s t l o rest n :
  prog l = o :: rest -> forallb (fun o => negb (is_remove o)) (prog l) = true ->
  Forall (fun e => lasting s (fst e) (snd e)) (log l) -> next_at s t o n ->
  LPa s t (apply_next l n) /\
  (forall o' r, log (apply_next l n) = log l ++ [(o', r)] -> at_return s o' r).
Proof.
  intros E Hf Hl Hn. destruct n as [p|r]; simpl.
  - split.
    + split; auto. split; auto. right. exists o, rest. auto.
    + intros o' r Hlog. apply app_self_snoc in Hlog. destruct Hlog.
  - unfold finish. rewrite E. simpl. destruct Hn as [Hn1 Hn2]. split.
    + rewrite E in Hf. simpl in Hf. apply andb_true_iff in Hf as [_ Hf].
      split; auto. split; auto. apply Forall_app. split; auto.
    + intros o' r' Hlog. apply app_inv_head in Hlog. inv Hlog. exact Hn2.
Qed.

Lemma step_local_at ar t s l s' l' :
  LPa s t l -> step_local ar t s l = Some (s', l') ->
  ext s s' /\ fr t s s' /\ LPa s' t l' /\
  (forall o r, log l' = log l ++ [(o, r)] -> at_return s' o r).
Proof.
  intros (Hf & Hp & Hl) H.
  apply step_local_inv in H as [(Ep & o & rest & Eo & -> & ->)|(Ep & n & Esp & ->)].
  - split; [apply ext_refl|]. split; [apply fr_refl|].
    eapply apply_next_at; eauto. apply start_at.
    rewrite Eo in Hf. simpl in Hf. apply andb_true_iff in Hf as [Hf _]. destruct (is_remove o); auto; discriminate.
  - destruct Hp as [Hp|(o & rest & Eo & Hp)]; [congruence|].
    destruct (step_pc_at _ _ _ _ _ _ _ Hp Esp) as (He & Hfr & Hn).
    split; auto. split; auto. eapply apply_next_at; eauto.
    eapply Forall_impl; [|exact Hl]. intros e. apply lasting_ext; auto.
Qed.

Definition Ia : state -> Prop := TInv (fun _ => True) LPa.

Lemma Ia_step ar t st st' : Ia st -> step ar t st = Some st' -> Ia st'.
Proof.
  apply step_lift. intros t0 s l s' l' _ HL Hs.
  destruct (step_local_at _ _ _ _ _ _ HL Hs) as (He & Hfr & Hl' & _).
  split; auto. split; auto. intros t' l'' Hn. eapply LPa_frame; eauto.
Qed.

Lemma Ia_boot s progs : norem progs = true -> Ia (boot s progs).
Proof.
  intros Hp. split; auto. intros t l E. apply boot_nth in E as (p & E & ->).
  split; simpl; auto. unfold norem in Hp. rewrite forallb_forall in Hp. apply Hp. eapply nth_error_In; eauto.
Qed.

Lemma Ia_run ar s progs sched : norem progs = true -> Ia (run ar sched (boot s progs)).
Proof. intros Hp. apply run_inv; [intros; eapply Ia_step; eauto|apply Ia_boot; auto]. Qed.

Lemma Ia_norm st : Ia st -> In_norm st.
Proof.
  intros [_ HL] t l E. destruct (HL _ _ E) as (H1 & H2 & _). split; auto.
  destruct H2 as [->|(o & rest & _ & H2)]; [exact I|]. eapply pc_at_norm; eauto.
Qed.

Lemma run_ext ar sched : forall st, In_norm st -> ext (sh st) (sh (run ar sched st)).
Proof.
  induction sched as [|t sched IH]; intros st HI; [apply ext_refl|].
  change (run ar (t :: sched) st) with (run ar sched (step_or_stay ar st t)).
  unfold step_or_stay. destruct (step ar t st) as [st'|] eqn:Es; auto.
  destruct (step_norm _ _ _ _ HI Es) as [HI' He]. eapply ext_trans; eauto.
Qed.

(** every recorded result of a creating call is explained by the state, now and in every
    continuation: nil -> the node is bound (same object from then on), error -> the obstacle *)
Theorem result_lasting ar s0 progs sched1 sched2 t o r :
  norem progs = true ->
  In (o, r) (results_of (run ar sched1 (boot s0 progs)) t) ->
  lasting (sh (run ar (sched1 ++ sched2) (boot s0 progs))) o r.
Proof.
  intros Hp Hin. rewrite run_app. pose proof (Ia_run ar s0 progs sched1 Hp) as HI.
  eapply lasting_ext; [apply run_ext; apply Ia_norm; exact HI|].
  destruct HI as [_ HL]. unfold results_of in Hin.
  destruct (nth_error (ths (run ar sched1 (boot s0 progs))) t) as [l|] eqn:E; [|destruct Hin].
  destruct (HL _ _ E) as (_ & _ & Hlog). rewrite Forall_forall in Hlog. exact (Hlog _ Hin).
Qed.

(** the step in which WriteFile / Writer.Close returns nil leaves the file at the path holding
    exactly the written value, unlocked *)
Theorem ok_takes_effect ar s0 progs sched t st' o r :
  norem progs = true ->
  let st := run ar sched (boot s0 progs) in
  step ar t st = Some st' -> results_of st' t = results_of st t ++ [(o, r)] ->
  at_return (sh st') o r.
Proof.
  intros Hp st Hs Hlog. pose proof (Ia_run ar s0 progs sched Hp) as [_ HL]. fold st in HL.
  apply step_inv in Hs as (l & s' & l' & El & Esl & ->). unfold results_of in Hlog. rewrite El in Hlog.
  simpl in Hlog. rewrite (nth_list_upd_eq _ _ (fun _ => l') _ El) in Hlog. simpl.
  destruct (step_local_at _ _ _ _ _ _ (HL _ _ El) Esl) as (_ & _ & _ & Hr). auto.
Qed.

(** two successful creations of one path (any threads, any time): one node, the same object *)
Theorem create_once_general ar s0 progs sched1 sched2 t1 o1 r1 t2 o2 r2 p :
  norem progs = true ->
  let st1 := run ar sched1 (boot s0 progs) in
  let st2 := run ar (sched1 ++ sched2) (boot s0 progs) in
  In (o1, r1) (results_of st1 t1) -> res_ok r1 = true -> target o1 = Some p ->
  In (o2, r2) (results_of st2 t2) -> res_ok r2 = true -> target o2 = Some p ->
  exists ref, walk_root (sh st1) p = Some ref /\ walk_root (sh st2) p = Some ref /\
              kind_ok ref o1 /\ kind_ok ref o2.
Proof.
  intros Hp st1 st2 H1 Hr1 Ht1 H2 Hr2 Ht2.
  pose proof (result_lasting ar s0 progs sched1 [] t1 o1 r1 Hp H1) as L1. rewrite app_nil_r in L1.
  pose proof (result_lasting ar s0 progs (sched1 ++ sched2) [] t2 o2 r2 Hp H2) as L2. rewrite app_nil_r in L2.
  assert (V1 : vis (sh st1) o1) by (destruct r1; try discriminate; exact L1).
  assert (V2 : vis (sh st2) o2) by (destruct r2; try discriminate; exact L2).
  unfold vis in V1, V2. rewrite Ht1 in V1. rewrite Ht2 in V2.
  destruct V1 as (ref & W1 & K1). destruct V2 as (ref2 & W2 & K2).
  assert (W1' : walk_root (sh st2) p = Some ref).
  { apply no_remove_monotone; auto. }
  rewrite W1' in W2. inv W2. exists ref2. auto.
Qed.

(** * Part 2: termination under every fair schedule (all programs, current flavour)

    Programs are finite, so a creator can be sent back to the root only as often as there are
    Remove/RemoveAll calls left.  Measure of a state:
      Mtot = sum of [mu] over the threads  +  (removals still to come) * (sum of [pot])
    where [mu] (Proofs/MemLive.v) bounds the steps a thread needs when it is restarted at most once
    more, and [pot] bounds what ONE removal can add to a thread's [mu] for its current and all its
    later calls.  EVERY step of EVERY thread decreases Mtot. *)
Definition rempc (p : pcs) : bool :=
  match p with PRes _ _ (ARemove _ _) | PRemGap _ _ _ | PRemOld _ _ => true | _ => false end.

Lemma rempc_norm p : pc_norm p -> rempc p = false.
Proof. destruct p; simpl; auto; try tauto. destruct a; simpl; auto; tauto. Qed.
Lemma norm_rempc p : rempc p = false -> pc_norm p.
Proof. destruct p; simpl; auto; try discriminate. destruct a; simpl; auto; discriminate. Qed.

Lemma step_pc_rm t s p s' n :
  step_pc cur t s p = Some (s', n) ->
  (forall x, rm s' x = rm s x) \/ (rempc p = true /\ exists r, n = NRet r).
Proof.
  intros H. destruct p; simpl in H; try discriminate.
  all: try (brk H; injection H as <- <-; first [left; intros x; reflexivity | left; intros x; shp; reflexivity | right; split; eauto]; fail).
  - (* PSnap *)
    destruct (copy_ref (copy_fuel s) s src) as [[s1 r]|] eqn:Ec; [|discriminate]. injection H as <- <-.
    left. eapply copy_ref_rm; eauto.
Qed.

Definition cap (p : pcs) : nat :=
  match p with
  | PRes _ _ (ACopy _ dp nm) => S (Wk dp (MSnap (RFile 0) nm))
  | PMk full _ _ _ a => S (Wk full a)
  | PLockL full _ nm w | PInL full _ nm _ w => S (Wk full (amk_of_w nm w))
  | PSnap full _ _ nm => S (Wk full (MSnap (RFile 0) nm))
  | PAdd full _ snap nm => S (Wk full (MAdd snap nm))
  | _ => 0
  end.
Definition capn (n : next) : nat := match n with NPc p => cap p | NRet _ => 0 end.

(** one removal adds at most [cap] to a thread's measure, whatever happens to the heap *)
Lemma pcm_cap s s' p : pcm s' p <= pcm s p + cap p.
Proof. destruct p; simpl; try lia; unfold Rs; repeat match goal with |- context [rm ?a ?b] => destruct (rm a b) end; unfold Wk; simpl; lia. Qed.

Lemma cap_after_mk full d a : capn (after_mk full d a) <= S (Wk full a).
Proof. destruct a; simpl; unfold Wk; simpl; lia. Qed.
Lemma cap_goto_mk full c rest a : capn (goto_mk full c rest a) <= S (Wk full a).
Proof. destruct rest; simpl; auto using cap_after_mk. Qed.
Lemma cap_after_res r r0 rest a : capn (after_res r a) <= cap (PRes r0 rest a).
Proof.
  destruct a, r; simpl; try lia.
  all: destruct k; simpl; try lia.
  all: match goal with |- capn (goto_mk ?f ?c ?r ?a) <= _ => pose proof (cap_goto_mk f c r a) as G end.
  all: unfold Wk in *; simpl in *; lia.
Qed.
Lemma cap_goto_res r r0 rest0 rest a : capn (goto_res r rest a) <= cap (PRes r0 rest0 a).
Proof. destruct rest; simpl; [apply (cap_after_res r r0 rest0 a)|destruct a; simpl; lia]. Qed.

Lemma step_pc_cap t s p s' n : step_pc cur t s p = Some (s', n) -> capn n <= cap p.
Proof.
  intros H. destruct p; simpl in H; try discriminate.
  all: brk H; injection H as <- <-; try (simpl; lia).
  all: try apply cap_after_res; try apply cap_goto_res.
  all: try (match goal with |- capn (goto_mk ?f ?c ?r ?a) <= _ => pose proof (cap_goto_mk f c r a) as G end;
            simpl; unfold Wk in *; simpl in *; lia).
  all: try (match goal with |- capn (after_mk ?f ?c ?a) <= _ => pose proof (cap_after_mk f c a) as G end;
            simpl; unfold Wk in *; simpl in *; lia).
  simpl. unfold Wk. simpl. lia.
Qed.

Lemma start_cap o : capn (start o) <= S (opcost o).
Proof.
  destruct o; simpl.
  - destruct (split_last p) as [[dp nm]|] eqn:E; simpl; [|lia]. apply split_last_length in E.
    pose proof (cap_goto_mk dp ROOT dp (MWrite nm data)) as G. unfold Wk in G. simpl in G. lia.
  - destruct (split_last p) as [[dp nm]|] eqn:E; simpl; [|lia]. apply split_last_length in E.
    pose proof (cap_goto_mk dp ROOT dp (MWriter nm chunks)) as G. unfold Wk in G. simpl in G. lia.
  - pose proof (cap_goto_mk p ROOT p MDone) as G. unfold Wk in G. simpl in G. lia.
  - destruct p as [|x p]; simpl; [lia|]. pose proof (cap_goto_res (RDir ROOT) (RDir ROOT) [] (x :: p) ARead) as G. simpl in G. simpl. lia.
  - destruct p as [|x p]; simpl; [lia|]. pose proof (cap_goto_res (RDir ROOT) (RDir ROOT) [] (x :: p) AReader) as G. simpl in G. simpl. lia.
  - pose proof (cap_goto_res (RDir ROOT) (RDir ROOT) [] p AList) as G. simpl in G. lia.
  - pose proof (cap_goto_res (RDir ROOT) (RDir ROOT) [] p AExist) as G. simpl in G. lia.
  - destruct (split_last p) as [[dp nm]|] eqn:E; simpl; [|lia].
    pose proof (cap_goto_res (RDir ROOT) (RDir ROOT) [] dp (ARemove nm all)) as G. simpl in G. lia.
  - destruct (split_last dst) as [[dp nm]|] eqn:E; simpl; [|lia]. apply split_last_length in E.
    destruct k, src; simpl; try lia.
    all: try (unfold Wk; simpl; lia).
    all: match goal with |- capn (goto_mk ?f ?c ?r ?a) <= _ => pose proof (cap_goto_mk f c r a) as G end.
    all: unfold Wk in G; simpl in G; lia.
Qed.

Definition later (l : local) : list cop := match pc l with PIdle => prog l | _ => tl (prog l) end.
Definition pot (l : local) : nat := cap (pc l) + osum (later l).
Definition nrem (l : list cop) : nat := length (filter is_remove l).
Definition rems (l : local) : nat := (if rempc (pc l) then 1 else 0) + nrem (later l).

Lemma mu_cap s s' l : mu s' l <= mu s l + pot l.
Proof. unfold mu, pot. pose proof (pcm_cap s s' (pc l)). lia. Qed.
Lemma mu_same s s' l : (forall x, rm s' x = rm s x) -> mu s' l = mu s l.
Proof. intros H. unfold mu. rewrite (pcm_ext _ _ _ H). reflexivity. Qed.

Lemma later_next l p : p <> PIdle -> later (mkLocal (prog l) p (log l)) = tl (prog l).
Proof. intros Hp. unfold later. simpl. destruct p; congruence. Qed.
Lemma later_finish l r : later (finish l r) = tl (prog l).
Proof. unfold later, finish. destruct (prog l); reflexivity. Qed.
Lemma pc_finish l r : pc (finish l r) = PIdle.
Proof. unfold finish. destruct (prog l); reflexivity. Qed.

(** what one step does to the three per-thread quantities *)
Lemma step_local_all t s l s' l' rk pv :
  SP3 s -> pc_refs s (pc l) -> forest s rk pv ->
  step_local cur t s l = Some (s', l') ->
  mu s' l' < mu s l /\ pot l' <= pot l /\ rems l' <= rems l /\
  ((forall x, rm s' x = rm s x) \/ rems l' < rems l).
Proof.
  intros HS Hp F H. split; [eapply step_local_measure; eauto|].
  apply step_local_inv in H as [(Ep & o & rest & Eo & -> & ->)|(Ep & n & Esp & ->)].
  - pose proof (start_m s o (f_rmroot _ _ _ F)) as Hs. pose proof (start_cap o) as Hc.
    assert (Hl : later l = o :: rest) by (unfold later; rewrite Ep; exact Eo).
    unfold pot, rems. rewrite Hl, Ep. simpl rempc. cbv iota.
    destruct (start o) as [p|r] eqn:Est; simpl apply_next.
    + destruct Hs as [Hn _]. rewrite (later_next l p Hn), Eo. simpl pc. simpl tl. simpl in Hc.
      assert (Hr : (if rempc p then 1 else 0) <= (if is_remove o then 1 else 0)).
      { destruct (is_remove o) eqn:Er; [destruct (rempc p); lia|].
        pose proof (start_norm o Er) as Hn'. rewrite Est in Hn'. simpl in Hn'. rewrite (rempc_norm _ Hn'). lia. }
      unfold nrem. simpl. destruct (is_remove o); simpl in *; (split; [lia|split; [lia|left; auto]]).
    + rewrite later_finish, pc_finish, Eo. simpl. unfold nrem. simpl.
      destruct (is_remove o); simpl; (split; [lia|split; [lia|left; auto]]).
  - destruct (step_pc_measure _ _ _ _ _ _ _ HS Hp F Esp) as (b & _ & Hn).
    pose proof (step_pc_cap _ _ _ _ _ Esp) as Hc.
    assert (Hl : later l = tl (prog l)) by (unfold later; destruct (pc l); congruence).
    unfold pot, rems. rewrite Hl.
    destruct n as [p|r]; simpl apply_next.
    + destruct Hn as [Hn _]. rewrite (later_next l p Hn). simpl pc. simpl in Hc.
      assert (Hr : (if rempc p then 1 else 0) <= (if rempc (pc l) then 1 else 0)).
      { destruct (rempc (pc l)) eqn:Er; [destruct (rempc p); lia|].
        destruct (step_pc_ext _ _ _ _ _ _ (norm_rempc _ Er) Esp) as [_ Hn']. simpl in Hn'.
        rewrite (rempc_norm _ Hn'). lia. }
      split; [lia|]. split; [lia|].
      destruct (step_pc_rm _ _ _ _ _ Esp) as [Hrm|[_ (r & Hr')]]; [left; auto|discriminate].
    + rewrite later_finish, pc_finish. simpl in *.
      split; [lia|]. split; [destruct (rempc (pc l)); lia|].
      destruct (step_pc_rm _ _ _ _ _ Esp) as [Hrm|[Hr' _]]; [left; auto|right]. rewrite Hr'. lia.
Qed.

(** sums over the thread list *)
Definition sumf {A} (f : A -> nat) (l : list A) : nat := fold_right (fun x acc => f x + acc) 0 l.

Lemma sumf_upd {A} (f : A -> nat) l t x x' : nth_error l t = Some x ->
  sumf f (list_upd l t (fun _ => x')) + f x = sumf f l + f x'.
Proof.
  revert t. induction l as [|y l IH]; intros [|t]; simpl; try discriminate.
  - intros H; inv H. lia.
  - intros H. apply IH in H. lia.
Qed.
Lemma sumf_ext {A} (f g : A -> nat) l : (forall x, f x = g x) -> sumf f l = sumf g l.
Proof. intros H. induction l; simpl; auto. Qed.
Lemma sumf_le3 {A} (f' f g : A -> nat) l : (forall x, f' x <= f x + g x) -> sumf f' l <= sumf f l + sumf g l.
Proof. intros H. induction l as [|y l IH]; simpl; auto. specialize (H y). lia. Qed.
Lemma sumf_step {A} (f' f g : A -> nat) l t x x' :
  nth_error l t = Some x -> (forall y, f' y <= f y + g y) -> f' x' + 1 <= f x ->
  sumf f' (list_upd l t (fun _ => x')) + 1 <= sumf f l + sumf g (list_upd l t (fun _ => x')).
Proof.
  intros E Hle Hx. revert t E. induction l as [|y l IH]; intros [|t]; simpl; try discriminate.
  - intros H; inv H. pose proof (sumf_le3 f' f g l Hle). lia.
  - intros H. apply IH in H. specialize (Hle y). lia.
Qed.

Definition Mtot (st : state) : nat :=
  sumf (mu (sh st)) (ths st) + sumf rems (ths st) * sumf pot (ths st).

Theorem step_decreases t st st' : Inv st -> step cur t st = Some st' -> Mtot st' < Mtot st.
Proof.
  intros ([HS HLoc] & _ & (rk & pv & F & _)) Hs.
  apply step_inv in Hs as (l & s' & l' & El & Esl & ->).
  destruct (step_local_all _ _ _ _ _ _ _ HS (HLoc _ _ El) F Esl) as (Hmu & Hpot & Hrem & Hcase).
  unfold Mtot. simpl.
  set (ths' := list_upd (ths st) t (fun _ => l')).
  pose proof (sumf_upd pot _ _ _ l' El) as EP. fold ths' in EP.
  pose proof (sumf_upd rems _ _ _ l' El) as ER. fold ths' in ER.
  assert (HP : sumf pot ths' <= sumf pot (ths st)) by lia.
  assert (HR : sumf rems ths' <= sumf rems (ths st)) by lia.
  destruct Hcase as [Hrm|Hlt].
  - pose proof (sumf_upd (mu s') _ _ _ l' El) as EM. fold ths' in EM.
    rewrite (sumf_ext (mu s') (mu (sh st)) (ths st)) in EM by (intros; apply mu_same; auto).
    rewrite (mu_same _ _ l Hrm) in EM.
    pose proof (Nat.mul_le_mono _ _ _ _ HR HP). lia.
  - assert (HM : sumf (mu s') ths' + 1 <= sumf (mu (sh st)) (ths st) + sumf pot ths').
    { apply (sumf_step (mu s') (mu (sh st)) pot (ths st) t l l' El); [intros y; apply mu_cap|lia]. }
    assert (HR' : sumf rems ths' + 1 <= sumf rems (ths st)) by lia.
    pose proof (Nat.mul_le_mono _ _ _ _ HR' HP) as HX. lia.
Qed.

Lemma Inv_no_enabled_final st : Inv st -> (forall t, step cur t st = None) -> final st = true.
Proof.
  intros HI Hn. unfold final. apply forallb_forall. intros l Hin. apply In_nth_error in Hin as [t El].
  destruct (done l) eqn:Hd; auto. exfalso.
  destruct (blocked_has_enabled st t l HI El Hd (Hn t)) as (t' & l' & s' & n & El' & Hr & Hs).
  assert (Hni : pc l' <> PIdle) by (intros E; rewrite E in Hr; destruct Hr as [Hr|Hr]; apply Hr; reflexivity).
  destruct (step_Some_intro _ _ _ _ _ _ El' Hni Hs) as [st' Hst]. rewrite Hn in Hst. discriminate.
Qed.

Lemma run_Mtot_le sched : forall st, Inv st -> Mtot (run cur sched st) <= Mtot st.
Proof.
  induction sched as [|t sched IH]; intros st HI; [apply le_n|].
  change (run cur (t :: sched) st) with (run cur sched (step_or_stay cur st t)).
  unfold step_or_stay. destruct (step cur t st) as [st'|] eqn:Es; auto.
  pose proof (step_decreases _ _ _ HI Es). pose proof (IH st' (Inv_step _ _ _ HI Es)). lia.
Qed.

(** a stretch of a schedule either changes nothing because every thread it names is disabled, or
    it decreases the measure *)
Lemma run_cases sched : forall st, Inv st ->
  (run cur sched st = st /\ forall t, In t sched -> step cur t st = None) \/
  Mtot (run cur sched st) < Mtot st.
Proof.
  induction sched as [|t sched IH]; intros st HI.
  - left. split; auto. intros t [].
  - change (run cur (t :: sched) st) with (run cur sched (step_or_stay cur st t)).
    unfold step_or_stay. destruct (step cur t st) as [st'|] eqn:Es.
    + right. pose proof (step_decreases _ _ _ HI Es).
      pose proof (run_Mtot_le sched st' (Inv_step _ _ _ HI Es)). lia.
    + destruct (IH st HI) as [[H1 H2]|H]; [left|right; auto].
      split; auto. intros t' [<-|Hin]; auto.
Qed.

Lemma final_run sched : forall st, final st = true -> run cur sched st = st.
Proof.
  induction sched as [|t sched IH]; intros st Hf; auto.
  change (run cur (t :: sched) st) with (run cur sched (step_or_stay cur st t)).
  unfold step_or_stay. rewrite (final_no_step cur st Hf t). auto.
Qed.

Definition covers (n : nat) (r : list nat) : Prop := forall t, t < n -> In t r.

Lemma rounds_finish : forall rounds st, Inv st ->
  (forall r, In r rounds -> covers (length (ths st)) r) -> Mtot st < length rounds ->
  final (run cur (concat rounds) st) = true.
Proof.
  induction rounds as [|r rounds IH]; intros st HI Hc Hm; [simpl in Hm; lia|].
  simpl concat. rewrite run_app.
  destruct (run_cases r st HI) as [[H1 H2]|Hlt].
  - rewrite H1. assert (Hf : final st = true).
    { apply Inv_no_enabled_final; auto. intros t.
      destruct (Nat.lt_ge_cases t (length (ths st))) as [Hl|Hl].
      - apply H2. apply Hc; simpl; auto.
      - unfold step. rewrite (proj2 (nth_error_None _ _) Hl). reflexivity. }
    rewrite final_run; auto.
  - apply IH.
    + apply Inv_run_from; auto.
    + intros r' Hr'. rewrite run_length. apply Hc. simpl; auto.
    + simpl in Hm. lia.
Qed.

(** the bound: cost of all calls, once more for every removal that can send creators back *)
Definition total_cost (progs : list (list cop)) : nat := sumf osum progs.
Definition total_removes (progs : list (list cop)) : nat := sumf nrem progs.
Definition step_bound (progs : list (list cop)) : nat := total_cost progs * S (total_removes progs).

Lemma sumf_map {A B} (f : B -> nat) (g : A -> B) l : sumf f (map g l) = sumf (fun x => f (g x)) l.
Proof. induction l; simpl; auto. Qed.

Lemma Mtot_boot s progs : Mtot (boot s progs) = step_bound progs.
Proof.
  unfold Mtot, step_bound, total_cost, total_removes, boot. simpl. rewrite !sumf_map.
  assert (E1 : sumf (fun x => mu s (mkLocal x PIdle [])) progs = sumf osum progs) by (apply sumf_ext; reflexivity).
  assert (E2 : sumf (fun x => rems (mkLocal x PIdle [])) progs = sumf nrem progs) by (apply sumf_ext; reflexivity).
  assert (E3 : sumf (fun x => pot (mkLocal x PIdle [])) progs = sumf osum progs) by (apply sumf_ext; reflexivity).
  lia.
Qed.

(** EVERY step of EVERY schedule decreases the measure, which starts at [step_bound progs] *)
Theorem every_step_decreases s0 progs sched t st' :
  good_shared s0 = true -> tree_shared s0 = true ->
  let st := run cur sched (boot s0 progs) in
  step cur t st = Some st' -> Mtot st' < Mtot st /\ Mtot st <= step_bound progs.
Proof.
  intros Hg Ht st Hs. pose proof (tree_shared_forest _ Ht) as Hf.
  split.
  - eapply step_decreases; eauto. apply Inv_run; auto.
  - rewrite <- (Mtot_boot s0 progs). apply run_Mtot_le. apply Inv_boot; auto.
Qed.

(** Termination under every fair schedule: cut the schedule into rounds in each of which every
    thread is named at least once (any schedule in which every thread occurs infinitely often has
    such a cut of any length); after more than [step_bound progs] rounds every thread has
    finished - whatever the removers do. *)
Theorem fair_terminates s0 progs rounds :
  good_shared s0 = true -> tree_shared s0 = true ->
  (forall r, In r rounds -> covers (length progs) r) ->
  step_bound progs < length rounds ->
  final (run cur (concat rounds) (boot s0 progs)) = true.
Proof.
  intros Hg Ht Hc Hb. apply rounds_finish.
  - apply Inv_boot; auto. apply tree_shared_forest; auto.
  - intros r Hr. unfold boot. simpl. rewrite map_length. auto.
  - rewrite Mtot_boot. exact Hb.
Qed.

(** explicit forms used by Props/C09.v *)
Theorem write_takes_effect ar s0 progs sched t st' o p v :
  norem progs = true ->
  let st := run ar sched (boot s0 progs) in
  step ar t st = Some st' -> results_of st' t = results_of st t ++ [(o, QOk)] ->
  (o = CWrite p v \/ exists c, o = CWriter p c /\ v = concat c) ->
  exists f fo, walk_root (sh st') p = Some (RFile f) /\ nth_error (files (sh st')) f = Some fo /\
               f_data fo = v /\ f_holder fo = None.
Proof.
  intros Hp st Hs Hlog Ho. pose proof (ok_takes_effect ar s0 progs sched t st' o QOk Hp Hs Hlog) as H.
  destruct Ho as [->|(c & -> & ->)]; exact H.
Qed.

Theorem ok_visible ar s0 progs sched1 sched2 t o r p :
  norem progs = true ->
  In (o, r) (results_of (run ar sched1 (boot s0 progs)) t) -> res_ok r = true -> target o = Some p ->
  exists ref, walk_root (sh (run ar (sched1 ++ sched2) (boot s0 progs))) p = Some ref /\ kind_ok ref o.
Proof.
  intros Hp Hin Hr Ht. pose proof (result_lasting ar s0 progs sched1 sched2 t o r Hp Hin) as L.
  assert (V : vis (sh (run ar (sched1 ++ sched2) (boot s0 progs))) o) by (destruct r; try discriminate; exact L).
  unfold vis in V. rewrite Ht in V. exact V.
Qed.

Theorem refusal_explained ar s0 progs sched1 sched2 t o :
  norem progs = true ->
  In (o, QErr) (results_of (run ar sched1 (boot s0 progs)) t) ->
  refused (sh (run ar (sched1 ++ sched2) (boot s0 progs))) o.
Proof. intros Hp Hin. exact (result_lasting ar s0 progs sched1 sched2 t o QErr Hp Hin). Qed.

(** ** A refusal that no sequential order explains (notes/C09-audit/FINDING-1, here in the model):
    WriteFile a/x looks the name up under the directory's outer lock (PLockL -> PInL, found = None),
    Copy s -> a/x inserts its node with Dir.addNode only (no outer lock), WriteFile's own addNode
    then finds the name taken.  Copy returns nil, WriteFile an error, a/x holds the copy; on a
    plain tree WriteFile of a missing name or of an existing file never fails. *)
Definition st_wvc : state :=
  boot (setup [CWrite [nS] [7%N]; CMkdir [nA]]) [[CCopy CAny [nS] [nA; nX]]; [CWrite [nA; nX] [3%N]]].
Definition sched_wvc : list nat := [1;1;1;0;0;0;0;0;1].
Theorem write_vs_copy_refuted :
  let st := run cur sched_wvc st_wvc in
  final st = true /\
  results_of st 0 = [(CCopy CAny [nS] [nA; nX], QOk)] /\
  results_of st 1 = [(CWrite [nA; nX] [3%N], QErr)] /\
  lookup (abs (sh st)) [nA; nX] = Some (F [7%N]) /\
  two_explained (abs (sh st_wvc)) (CCopy CAny [nS] [nA; nX]) (CWrite [nA; nX] [3%N]) st = false.
Proof. vm_compute. repeat split; reflexivity. Qed.

(** * Part 3: the values of a file are the values written to ITS path (programs without
    Remove/RemoveAll and without Copy*, all flavours, all schedules)

    [INJ s]: no object is reachable by two paths.  It holds of the empty filespace and is kept by
    every step of such programs, so the file object bound at a path is written only by calls that
    name this very path. *)
Definition INJ (s : shared) : Prop :=
  forall q1 q2 r, walk_root s q1 = Some r -> walk_root s q2 = Some r -> q1 = q2.

Lemma walk_dch s d n p :
  walk s (RDir d) (n :: p) = match lookup_ch (dch s d) n with Some r => walk s r p | None => None end.
Proof.
  simpl. unfold dch, view. destruct (nth_error (dirs s) d); reflexivity.
Qed.

Lemma walk_same s s' : (forall d, dch s' d = dch s d) -> forall q cur, walk s' cur q = walk s cur q.
Proof.
  intros Hd q. induction q as [|n q IH]; intros cur; [reflexivity|].
  destruct cur as [d|f]; [|reflexivity]. rewrite !walk_dch, Hd.
  destruct (lookup_ch (dch s d) n); auto.
Qed.

Lemma lookup_snoc_inv ch nm x n r :
  lookup_ch (ch ++ [(nm, x)]) n = Some r ->
  lookup_ch ch n = Some r \/ (lookup_ch ch n = None /\ n = nm /\ r = x).
Proof.
  induction ch as [|e ch IH]; simpl app; rewrite ?lookup_ch_cons.
  - simpl. destruct (bytes_eqb nm n) eqn:E; [|discriminate]. intros H; inv H.
    apply bytes_eqb_spec in E. right. auto.
  - destruct (bytes_eqb (fst e) n); auto.
Qed.

Lemma walk_rin s : SP3 s -> forall q cur r, rin s cur -> walk s cur q = Some r -> rin s r.
Proof.
  intros HS q. induction q as [|n q IH]; intros cur r Hc Hw; simpl in Hw.
  - inv Hw. exact Hc.
  - destruct cur as [d|f]; [|discriminate].
    destruct (nth_error (dirs s) d) as [o|] eqn:Eo; [|discriminate].
    destruct (lookup_ch (d_ch o) n) as [r1|] eqn:El; [|discriminate].
    apply (IH r1 r); auto. eapply SP3_lookup; eauto.
Qed.
Lemma root_rin s : SP3 s -> rin s (RDir ROOT).
Proof. intros [H _]. exact H. Qed.

(** inserting a fresh leaf under (d, nm): the new paths are exactly [pre ++ [nm]] for the paths
    [pre] of d *)
Lemma walk_insert s s' d ch nm newref :
  dch s d = ch -> lookup_ch ch nm = None ->
  (forall d0, dch s' d0 = if Nat.eqb d d0 then ch ++ [(nm, newref)] else dch s d0) ->
  (forall rest r, walk s' newref rest = Some r -> rest = []) ->
  forall q cur r, walk s' cur q = Some r ->
    walk s cur q = Some r \/ exists pre, q = pre ++ [nm] /\ walk s cur pre = Some (RDir d) /\ r = newref.
Proof.
  intros Hch Hnew Hd Hleaf q. induction q as [|n q IH]; intros cur r Hw.
  - left. exact Hw.
  - destruct cur as [d0|f]; [|discriminate]. rewrite walk_dch in *. rewrite Hd in Hw.
    assert (Hold : forall r1, lookup_ch (dch s d0) n = Some r1 -> walk s' r1 q = Some r ->
              match lookup_ch (dch s d0) n with Some r => walk s r q | None => None end = Some r \/
              exists pre, n :: q = pre ++ [nm] /\ walk s (RDir d0) pre = Some (RDir d) /\ r = newref).
    { intros r1 El Hw1. rewrite El. apply IH in Hw1 as [Hw1|(pre & -> & Hw1 & ->)]; [left; auto|right].
      exists (n :: pre). split; auto. split; auto. rewrite walk_dch, El. exact Hw1. }
    destruct (Nat.eqb_spec d d0) as [<-|Hne].
    + destruct (lookup_ch (ch ++ [(nm, newref)]) n) as [r1|] eqn:El; [|discriminate].
      apply lookup_snoc_inv in El as [El|(El & -> & ->)].
      * apply (Hold r1); auto. rewrite Hch. exact El.
      * right. apply Hleaf in Hw as Hq. subst q. simpl in Hw. inv Hw.
        exists []. auto.
    + destruct (lookup_ch (dch s d0) n) as [r1|] eqn:El; [|discriminate]. apply (Hold r1); auto.
Qed.

Section PathValues.
  Variable fl : flavour.
  Variable s0 : shared.
  Variable ops0 : list cop.

  (** the values of path [q]: its initial content, the arguments of the WriteFile calls on q, the
      whole concatenation of the Writer sessions on q (and, only before 288e3e2, the empty value
      while such a session creates the file) *)
  Definition pv (q : path) (v : bytes) : Prop :=
    (exists f fo, walk_root s0 q = Some (RFile f) /\ nth_error (files s0) f = Some fo /\ f_data fo = v) \/
    In (CWrite q v) ops0 \/
    (exists c, In (CWriter q c) ops0 /\ (v = concat c \/ (lock_first fl = false /\ v = []))).

  Definition KV (s : shared) : Prop :=
    forall q f fo, walk_root s q = Some (RFile f) -> nth_error (files s) f = Some fo ->
                   f_holder fo = None -> pv q (f_data fo).

  Lemma IK_same s s' :
    (forall d, dch s' d = dch s d) -> files s' = files s -> INJ s /\ KV s -> INJ s' /\ KV s'.
  Proof.
    intros Hd Hf [HI HK]. unfold INJ, KV, walk_root in *. split.
    - intros q1 q2 r. rewrite !(walk_same s s' Hd). apply HI.
    - intros q f fo. rewrite (walk_same s s' Hd), Hf. apply HK.
  Qed.

  Lemma IK_file s s' f fo g :
    (forall d, dch s' d = dch s d) -> nth_error (files s) f = Some fo -> files s' = list_upd (files s) f g ->
    (f_holder (g fo) = None -> forall q, walk_root s q = Some (RFile f) -> pv q (f_data (g fo))) ->
    INJ s /\ KV s -> INJ s' /\ KV s'.
  Proof.
    intros Hd Ef Hf Hg [HI HK]. unfold INJ, KV, walk_root in *. split.
    - intros q1 q2 r. rewrite !(walk_same s s' Hd). apply HI.
    - intros q f1 fo1. rewrite (walk_same s s' Hd), Hf. intros Hw E1 Hh.
      apply nth_list_upd in E1 as [[Hn E1]|[<- (x & E1 & ->)]].
      + eapply HK; eauto.
      + rewrite Ef in E1. inv E1. apply Hg; auto.
  Qed.

  Lemma IK_leaf s s' d od nm newref :
    SP3 s -> nth_error (dirs s) d = Some od -> lookup_ch (d_ch od) nm = None -> ~ rin s newref ->
    (forall d0, dch s' d0 = if Nat.eqb d d0 then d_ch od ++ [(nm, newref)] else dch s d0) ->
    (forall f fo, nth_error (files s) f = Some fo -> nth_error (files s') f = Some fo) ->
    (forall c, newref = RDir c -> dch s c = [] /\ c <> d) ->
    (forall f fo', newref = RFile f -> nth_error (files s') f = Some fo' -> f_holder fo' = None ->
       forall pre, walk_root s pre = Some (RDir d) -> pv (pre ++ [nm]) (f_data fo')) ->
    INJ s /\ KV s -> INJ s' /\ KV s'.
  Proof.
    intros HS Eo El Hfresh Hd Hfiles Hdir Hnew [HI HK].
    assert (Hch : dch s d = d_ch od) by (apply dch_get; auto).
    assert (Hleaf : forall rest r, walk s' newref rest = Some r -> rest = []).
    { intros rest r Hw. destruct rest as [|n rest]; auto. destruct newref as [c|f]; [|discriminate].
      rewrite walk_dch, Hd in Hw. destruct (Hdir c eq_refl) as [Hc Hne].
      destruct (Nat.eqb_spec d c); [congruence|]. rewrite Hc in Hw. discriminate. }
    pose proof (walk_insert s s' d (d_ch od) nm newref Hch El Hd Hleaf) as Hins.
    assert (Hold : forall q r, walk_root s q = Some r -> r <> newref).
    { intros q r Hw ->. apply Hfresh. eapply walk_rin; eauto. apply root_rin; auto. }
    unfold INJ, KV, walk_root in *. split.
    - intros q1 q2 r H1 H2. apply Hins in H1. apply Hins in H2.
      destruct H1 as [H1|(p1 & -> & H1 & ->)], H2 as [H2|(p2 & -> & H2 & E2)].
      + eapply HI; eauto.
      + subst r. exfalso. exact (Hold _ _ H1 eq_refl).
      + exfalso. exact (Hold _ _ H2 eq_refl).
      + f_equal. eapply HI; eauto.
    - intros q f fo Hw Ef Hh. apply Hins in Hw as [Hw|(pre & -> & Hw & E)].
      + assert (Hr : rin s (RFile f)) by (eapply walk_rin; eauto; apply root_rin; auto).
        simpl in Hr. destruct (nth_error (files s) f) as [fo1|] eqn:E1.
        * rewrite (Hfiles _ _ E1) in Ef. inv Ef. eapply HK; eauto.
        * apply nth_error_None in E1. lia.
      + eapply Hnew; eauto.
  Qed.
End PathValues.

Definition is_copy (o : cop) : bool := match o with CCopy _ _ _ => true | _ => false end.
Definition opath (o : cop) : path :=
  match o with CRead p | CReader p | CList p | CExist p => p | _ => [] end.

Section PathValuesRun.
  Variable fl : flavour.
  Variable s0 : shared.
  Variable ops0 : list cop.
  Local Notation PV := (pv fl s0 ops0).
  Local Notation KVs := (KV fl s0 ops0).

  (** a resolving call stands on the object bound at the prefix walked so far; a reader knows the
      file it reads is the one bound at its path *)
  Definition pc_reach (s : shared) (t : nat) (o : cop) (p : pcs) : Prop :=
    match p with
    | PRes cur rest _ => exists pre, opath o = pre ++ rest /\ walk_root s pre = Some cur
    | PReadData f | PReaderOpen f => walk_root s (opath o) = Some (RFile f)
    | PReaderClose f => walk_root s (opath o) = Some (RFile f) /\ held_by s t f (fun d => PV (opath o) d)
    | _ => True
    end.
  Definition read_ok (o : cop) (r : cres) : Prop :=
    match r with
    | QData v => match o with CRead q | CReader q => PV q v | _ => True end
    | _ => True
    end.
  Definition next_reach (s : shared) (t : nat) (o : cop) (n : next) : Prop :=
    match n with NPc p => pc_reach s t o p | NRet r => read_ok o r end.

  Lemma goto_mk_reach s t o full c rest a : next_reach s t o (goto_mk full c rest a).
  Proof. destruct rest; simpl; auto. destruct a; simpl; auto. Qed.
  Lemma after_res_reach s t o r a : walk_root s (opath o) = Some r -> next_reach s t o (after_res r a).
  Proof.
    intros Hw. destruct a, r; simpl; auto. all: destruct k; simpl; auto; apply goto_mk_reach.
  Qed.
  Lemma goto_res_reach s t o r rest a :
    (exists pre, opath o = pre ++ rest /\ walk_root s pre = Some r) -> next_reach s t o (goto_res r rest a).
  Proof.
    intros (pre & E & Hw). destruct rest; simpl; eauto.
    apply after_res_reach. rewrite E, app_nil_r. exact Hw.
  Qed.
  Lemma res_fail_reach o a : read_ok o (res_fail a).
  Proof. destruct a; simpl; auto. Qed.

  Lemma start_reach s t o : is_copy o = false -> is_remove o = false -> next_reach s t o (start o).
  Proof.
    intros Hc Hr. destruct o; simpl in *; try discriminate.
    - destruct (split_last p) as [[dp nm]|]; simpl; auto. apply goto_mk_reach.
    - destruct (split_last p) as [[dp nm]|]; simpl; auto. apply goto_mk_reach.
    - apply goto_mk_reach.
    - destruct p as [|x p]; simpl; auto. exists []. auto.
    - destruct p as [|x p]; simpl; auto. exists []. auto.
    - apply (goto_res_reach s t (CList p)). exists []. auto.
    - apply (goto_res_reach s t (CExist p)). exists []. auto.
  Qed.

  Lemma pc_reach_frame t t' s s' o p : ext s s' -> fr t s s' -> t' <> t -> pc_reach s t' o p -> pc_reach s' t' o p.
  Proof.
    intros He Hfr Hn. destruct p; simpl; auto.
    - intros (pre & H1 & H2). exists pre. split; auto. eapply ext_root; eauto.
    - eapply ext_root; eauto.
    - eapply ext_root; eauto.
    - intros [H1 H2]. split; [eapply ext_root; eauto|eapply held_fr; eauto].
  Qed.

  Ltac dsame := let x := fresh "dd" in intros x; shp; reflexivity.

  Lemma step_pc_pv t s o p s' n :
    SP3 s -> pc_refs s p -> pc_at s t o p -> pc_reach s t o p -> is_copy o = false -> In o ops0 ->
    INJ s /\ KVs s -> step_pc fl t s p = Some (s', n) ->
    (INJ s' /\ KVs s') /\ next_reach s' t o n.
  Proof.
    intros HS Hrefs Hp Hq Hc Hin HIK H.
    destruct (step_pc_ext _ _ _ _ _ _ (pc_at_norm _ _ _ _ Hp) H) as [He _].
    pose proof HIK as [HI HK].
    destruct p; simpl in H; try discriminate; simpl in Hp; try tauto.
    - (* PRes *)
      destruct Hq as (pre & Eo & Hw).
      destruct rest as [|c rest'].
      { inv H. split; auto. apply after_res_reach. rewrite Eo, app_nil_r. exact Hw. }
      destruct cur as [d|f]; [|inv H; split; auto; apply res_fail_reach].
      destruct (nth_error (dirs s) d) as [od|] eqn:Ed; [|inv H; split; simpl; auto].
      destruct (lookup_ch (d_ch od) c) as [r|] eqn:El; inv H; (split; [auto|]).
      + apply goto_res_reach. exists (pre ++ [c]). split; [rewrite <- app_assoc; exact Eo|].
        eapply walk_snoc; eauto.
      + apply res_fail_reach.
    - (* PReadData *)
      simpl in Hq. destruct (nth_error (files s) f) as [fo|] eqn:Ef; [|inv H; split; simpl; auto].
      destruct (f_holder fo) eqn:Eh; [discriminate|]. inv H. split; auto.
      simpl. destruct o; auto; simpl in Hq; eapply HK; eauto.
    - (* PListDir *) brk H; inv H; split; simpl; auto.
    - (* PReaderOpen *)
      simpl in Hq. destruct (nth_error (files s) f) as [fo|] eqn:Ef; [|inv H; split; simpl; auto].
      destruct (f_holder fo) eqn:Eh; [discriminate|]. inv H. split.
      + eapply (IK_file fl s0 ops0 s _ f fo (set_holder (Some t))); [dsame|eassumption|reflexivity| |exact HIK].
        simpl. discriminate.
      + simpl. split; [eapply ext_root; eauto|].
        eapply held_intro; [simpl; apply nth_list_upd_eq; eauto|simpl; auto|]. simpl. eapply HK; eauto.
    - (* PReaderClose *)
      destruct Hq as [Hw (fo & E & Eh & Hv)]. rewrite E in H. inv H. split.
      + eapply (IK_file fl s0 ops0 s _ f fo (set_holder None)); [dsame|eassumption|reflexivity| |exact HIK].
        simpl. intros _ q Hwq. rewrite (HI _ _ _ Hwq Hw). exact Hv.
      + simpl. destruct o; auto.
    - (* PMk *)
      destruct Hp as [(pre & Hfull & Hw) Ha].
      destruct rest as [|c rest']; [inv H; split; auto; apply goto_mk_reach || (destruct a; simpl; auto)|].
      destruct (nth_error (dirs s) cur) as [oc|] eqn:Eo; [|inv H; split; simpl; auto].
      destruct (lookup_ch (d_ch oc) c) as [[c'|f']|] eqn:El.
      + inv H. split; auto. apply goto_mk_reach.
      + destruct second; inv H; split; simpl; auto.
      + destruct second; simpl in H; [|inv H; split; simpl; auto].
        destruct (d_removed oc); inv H; [split; auto; apply goto_mk_reach|].
        split; [|apply goto_mk_reach].
        eapply (IK_leaf fl s0 ops0 s _ cur oc c (RDir (length (dirs s)))); eauto.
        * simpl. lia.
        * dsame.
        * intros c0 E0. inv E0. split.
          -- unfold dch, view. rewrite (proj2 (nth_error_None _ _)); auto.
          -- apply nth_lt in Eo. lia.
        * intros f fo' E0. discriminate.
    - (* PLockL *)
      brk H; inv H; split; simpl; auto.
      eapply (IK_same fl s0 ops0 s); eauto. dsame.
    - (* PInL *)
      destruct Hp as (Hw & Ho & Hf).
      destruct (nth_error (dirs s) d) as [od|] eqn:Eo; [|inv H; split; simpl; auto].
      assert (Hrel : INJ (release_L s d) /\ KVs (release_L s d)).
      { eapply (IK_same fl s0 ops0 s); eauto. dsame. }
      destruct found as [[c|f]|].
      + inv H. split; simpl; auto.
      + destruct (nth_error (files s) f) as [fo|] eqn:Ef; [|inv H; split; simpl; auto].
        destruct (f_holder fo) eqn:Eh; [discriminate|].
        specialize (Hf _ eq_refl).
        destruct w as [data|chunks]; inv H; (split; [|simpl; auto]).
        * eapply (IK_file fl s0 ops0 s _ f fo (set_data data)); [dsame|eassumption|reflexivity| |exact HIK].
          simpl. intros _ q Hwq. rewrite (HI _ _ _ Hwq Hf). right. left. exact Hin.
        * eapply (IK_file fl s0 ops0 s _ f fo (fun _ => mkFile [] (Some t))); [dsame|eassumption|reflexivity| |exact HIK].
          simpl. discriminate.
      + destruct (d_removed od); [inv H; split; auto; apply goto_mk_reach|].
        destruct (lookup_ch (d_ch od) nm) as [r|] eqn:El; [inv H; split; simpl; auto|].
        assert (Hfresh : ~ rin s (RFile (length (files s)))) by (simpl; lia).
        assert (Hpre : forall pre, walk_root s pre = Some (RDir d) -> pre = full) by (intros pre Hpw; eapply HI; eauto).
        destruct w as [data|chunks]; [|destruct (lock_first fl) eqn:Elf]; inv H; (split; [|simpl; auto]).
        * eapply (IK_leaf fl s0 ops0 s _ d od nm (RFile (length (files s)))); eauto.
          -- dsame.
          -- intros f fo E0. simpl. apply nth_error_app_l. exact E0.
          -- intros c0 E0. discriminate.
          -- intros f fo' E0 E1 Eh pre Hpw. inv E0. simpl in E1.
             rewrite nth_error_app2, Nat.sub_diag in E1 by lia. inv E1. simpl.
             rewrite (Hpre _ Hpw). right. left. exact Hin.
        * eapply (IK_leaf fl s0 ops0 s _ d od nm (RFile (length (files s)))); eauto.
          -- dsame.
          -- intros f fo E0. simpl. apply nth_error_app_l. exact E0.
          -- intros c0 E0. discriminate.
          -- intros f fo' E0 E1 Eh pre Hpw. inv E0. simpl in E1.
             rewrite nth_error_app2, Nat.sub_diag in E1 by lia. inv E1. discriminate.
        * eapply (IK_leaf fl s0 ops0 s _ d od nm (RFile (length (files s)))); eauto.
          -- dsame.
          -- intros f fo E0. simpl. apply nth_error_app_l. exact E0.
          -- intros c0 E0. discriminate.
          -- intros f fo' E0 E1 Eh pre Hpw. inv E0. simpl in E1.
             rewrite nth_error_app2, Nat.sub_diag in E1 by lia. inv E1. simpl.
             rewrite (Hpre _ Hpw). right. right. exists chunks. split; auto.
    - (* PWriterAcq *)
      destruct Hp as (p & Ho & Hw).
      destruct (nth_error (files s) f) as [fo|] eqn:Ef; [|inv H; split; simpl; auto].
      destruct (f_holder fo) eqn:Eh; [discriminate|]. inv H. split; [|simpl; auto].
      eapply (IK_file fl s0 ops0 s _ f fo (fun _ => mkFile [] (Some t))); [dsame|eassumption|reflexivity| |exact HIK].
      simpl. discriminate.
    - (* PWriting *)
      destruct Hp as (p & c0 & Ho & Hw & (fo & E & Eh & Hd)). rewrite E in H.
      destruct chunks as [|c rest]; inv H; (split; [|simpl; auto]).
      + eapply (IK_file fl s0 ops0 s _ f fo (set_holder None)); [dsame|eassumption|reflexivity| |exact HIK].
        simpl. intros _ q Hwq. rewrite (HI _ _ _ Hwq Hw). simpl in Hd. rewrite app_nil_r in Hd.
        right. right. exists c0. split; auto.
      + eapply (IK_file fl s0 ops0 s _ f fo (set_data (f_data fo ++ c))); [dsame|eassumption|reflexivity| |exact HIK].
        simpl. congruence.
    - (* PSnap *) destruct Hp as [_ (k & sp & ->)]. discriminate.
    - (* PAdd *) destruct Hp as [_ (k & sp & ->)]. discriminate.
  Qed.
End PathValuesRun.

Definition plain (progs : list (list cop)) : bool :=
  forallb (forallb (fun o => negb (is_remove o) && negb (is_copy o))) progs.

Lemma plain_norem progs : plain progs = true -> norem progs = true.
Proof.
  unfold plain, norem. intros H. rewrite forallb_forall in *. intros p Hp. specialize (H p Hp).
  rewrite forallb_forall in *. intros o Ho. specialize (H o Ho). apply andb_true_iff in H. tauto.
Qed.

Section PathValuesInv.
  Variable fl : flavour.
  Variable s0 : shared.
  Variable ops0 : list cop.
  Local Notation PV := (pv fl s0 ops0).
  Local Notation KVs := (KV fl s0 ops0).

  Definition LPb (s : shared) (t : nat) (l : local) : Prop :=
    Forall (fun o => In o ops0 /\ is_copy o = false) (prog l) /\
    (pc l = PIdle \/ exists o rest, prog l = o :: rest /\ pc_reach fl s0 ops0 s t o (pc l)) /\
    Forall (fun e => read_ok fl s0 ops0 (fst e) (snd e)) (log l).

  Definition SPc (s : shared) : Prop := SP3 s /\ INJ s /\ KVs s.
  Definition LPc (s : shared) (t : nat) (l : local) : Prop := LP3 s t l /\ LPa s t l /\ LPb s t l.

  Lemma apply_next_b s t l o rest n :
    prog l = o :: rest -> Forall (fun o => In o ops0 /\ is_copy o = false) (prog l) ->
    Forall (fun e => read_ok fl s0 ops0 (fst e) (snd e)) (log l) -> next_reach fl s0 ops0 s t o n ->
    LPb s t (apply_next l n).
  Proof.
    intros E Hf Hl Hn. destruct n as [p|r]; simpl.
    - split; auto. split; auto. right. exists o, rest. auto.
    - unfold finish. rewrite E. simpl. rewrite E in Hf. inv Hf.
      split; auto. split; auto. apply Forall_app. split; auto.
  Qed.

  Lemma step_local_c t s l s' l' :
    SPc s -> LPc s t l -> step_local fl t s l = Some (s', l') ->
    SPc s' /\ LPc s' t l' /\ forall t' l'', t' <> t -> LPc s t' l'' -> LPc s' t' l''.
  Proof.
    intros (HS & HI & HK) (H3 & Ha & Hb) H.
    destruct (step_local_I3 _ _ _ _ _ _ HS H3 H) as (HS' & H3' & F3).
    destruct (step_local_at _ _ _ _ _ _ Ha H) as (He & Hfr & Ha' & _).
    assert (Hmain : (INJ s' /\ KVs s') /\ LPb s' t l').
    { destruct Hb as (Hf & Hp & Hl). destruct Ha as (Hnr & Hpa & _).
      apply step_local_inv in H as [(Ep & o & rest & Eo & -> & ->)|(Ep & n & Esp & ->)].
      - split; auto. eapply apply_next_b; eauto. rewrite Eo in Hf, Hnr. inv Hf. simpl in Hnr.
        apply andb_true_iff in Hnr as [Hnr _]. apply start_reach; [tauto|destruct (is_remove o); auto; discriminate].
      - destruct Hp as [Hp|(o & rest & Eo & Hp)]; [congruence|].
        destruct Hpa as [Hpa|(o' & rest' & Eo' & Hpa)]; [congruence|]. rewrite Eo in Eo'. inv Eo'.
        rewrite Eo in Hf. inversion Hf as [|x y [Hin Hc] Hrest]; subst.
        destruct (step_pc_pv fl s0 ops0 _ _ _ _ _ _ HS H3 Hpa Hp Hc Hin (conj HI HK) Esp) as [HIK Hn].
        split; auto. eapply apply_next_b; eauto. rewrite Eo. exact Hf. }
    destruct Hmain as [[HI' HK'] Hb'].
    split; [exact (conj HS' (conj HI' HK'))|]. split; [exact (conj H3' (conj Ha' Hb'))|].
    intros t' l'' Hn (G3 & Ga & Gb). split; [apply F3; auto|]. split; [eapply LPa_frame; eauto|].
    destruct Gb as (G1 & G2 & G4). split; auto. split; auto.
    destruct G2 as [G2|(o & rest & Eo & G2)]; [left; auto|right]. exists o, rest. split; auto.
    eapply pc_reach_frame; eauto.
  Qed.

  Definition Ic : state -> Prop := TInv SPc LPc.
  Lemma Ic_step t st st' : Ic st -> step fl t st = Some st' -> Ic st'.
  Proof. apply step_lift. intros. eapply step_local_c; eauto. Qed.
End PathValuesInv.

Lemma INJ_empty : INJ empty_shared.
Proof.
  assert (H : forall q r, walk_root empty_shared q = Some r -> q = []).
  { intros [|n q] r Hw; auto. discriminate. }
  intros q1 q2 r H1 H2. rewrite (H _ _ H1), (H _ _ H2). reflexivity.
Qed.

(** In every reachable state of programs without Remove/RemoveAll/Copy*: no object has two paths;
    an unlocked file bound at path q holds a value of q; every ReadFile q / Reader q returned a
    value of q. *)
Theorem file_values_by_path ar s0 progs sched :
  good_shared s0 = true -> INJ s0 -> plain progs = true ->
  let st := run ar sched (boot s0 progs) in
  INJ (sh st) /\
  (forall q f fo, walk_root (sh st) q = Some (RFile f) -> nth_error (files (sh st)) f = Some fo ->
                  f_holder fo = None -> pv ar s0 (concat progs) q (f_data fo)) /\
  (forall t q v, In (CRead q, QData v) (results_of st t) \/ In (CReader q, QData v) (results_of st t) ->
                 pv ar s0 (concat progs) q v).
Proof.
  intros Hg Hinj Hpl st.
  assert (HI : Ic ar s0 (concat progs) st).
  { apply run_inv; [intros; eapply Ic_step; eauto|]. split.
    - split; [apply good_shared_SP3; auto|]. split; auto.
      intros q f fo Hw Ef _. left. exists f, fo. auto.
    - intros t l E. pose proof (Ia_boot s0 progs (plain_norem _ Hpl)) as [_ HA]. specialize (HA _ _ E).
      apply boot_nth in E as (p & E & ->). split; [exact I|]. split; [exact HA|].
      split; simpl; auto. apply Forall_forall. intros o Ho. split.
      + apply in_concat. exists p. split; auto. eapply nth_error_In; eauto.
      + unfold plain in Hpl. rewrite forallb_forall in Hpl. specialize (Hpl p (nth_error_In _ _ E)).
        rewrite forallb_forall in Hpl. specialize (Hpl o Ho). apply andb_true_iff in Hpl as [_ Hc].
        destruct (is_copy o); auto; discriminate. }
  destruct HI as [(HS & HI & HK) HL]. split; auto. split; auto.
  intros t q v Hin. unfold results_of in Hin.
  destruct (nth_error (ths st) t) as [l|] eqn:E; [|destruct Hin as [[]|[]]].
  destruct (HL _ _ E) as (_ & _ & (_ & _ & Hlog)). rewrite Forall_forall in Hlog.
  destruct Hin as [Hin|Hin]; exact (Hlog _ Hin).
Qed.

(** distinct paths: when q is absent initially and exactly one kind of call names it - WriteFile q v,
    possibly many times with the same v - the file at q, whenever no handle is open on it, holds v *)
Theorem sole_writer_value ar s0 progs sched q v f fo :
  good_shared s0 = true -> INJ s0 -> plain progs = true ->
  walk_root s0 q = None ->
  (forall o, In o (concat progs) -> target o = Some q -> o = CWrite q v) ->
  let st := run ar sched (boot s0 progs) in
  walk_root (sh st) q = Some (RFile f) -> nth_error (files (sh st)) f = Some fo -> f_holder fo = None ->
  f_data fo = v.
Proof.
  intros Hg Hi Hp Habs Hsole st Hw Ef Hh.
  destruct (file_values_by_path ar s0 progs sched Hg Hi Hp) as (_ & HK & _).
  destruct (HK _ _ _ Hw Ef Hh) as [(f0 & fo0 & H0 & _)|[Hin|(c & Hin & _)]].
  - rewrite Habs in H0. discriminate.
  - apply Hsole in Hin; [|reflexivity]. inv Hin. reflexivity.
  - apply Hsole in Hin; [|reflexivity]. discriminate.
Qed.
