(** Proofs about Model/Fs.v: the in-memory filespace model is a plain tree of named nodes.
    Well-formedness is preserved by every operation on every raw path string; each mutating
    operation is characterised by what [lookup] answers afterwards (including what does NOT
    change); child views are the root operations on the prefixed path. *)
From GC Require Import Common.Base Model.Paths Model.Fs Proofs.Paths.

Lemma NoDup_app_snoc {A} (l : list A) x : NoDup l -> ~ In x l -> NoDup (l ++ [x]).
Proof.
  induction l as [|y l IH]; simpl; intros Hnd Hx.
  - constructor; [intros []|constructor].
  - inversion Hnd; subst. constructor.
    + intros Hin. apply in_app_or in Hin as [Hin|[Hin|[]]]; [contradiction|]. subst. apply Hx. left; reflexivity.
    + apply IH; [assumption|]. intros Hin. apply Hx. right. exact Hin.
Qed.

Lemma NoDup_app {A} (a b : list A) :
  NoDup a -> NoDup b -> (forall x, In x a -> In x b -> False) -> NoDup (a ++ b).
Proof.
  induction a as [|y a IH]; simpl; intros Ha Hb Hd; [exact Hb|].
  inversion Ha; subst. constructor.
  - intros Hin. apply in_app_or in Hin as [Hin|Hin]; [contradiction|]. apply (Hd y); [left; reflexivity|exact Hin].
  - apply IH; auto. intros x Hx1 Hx2. apply (Hd x); [right; exact Hx1|exact Hx2].
Qed.

(** * Well-formed trees *)
Definition WF (t : fs) : Prop :=
  NoDup (map fst t) /\
  forall p e, In (p, e) t -> p <> [] /\ good_path p = true /\ is_dir_at t (removelast p) = true.

Lemma WF_nil : WF [].
Proof. split; [constructor|intros p e []]. Qed.

(** * assoc / lookup *)
Lemma assoc_In t p e : assoc t p = Some e -> In (p, e) t.
Proof.
  induction t as [|[q e0] t IH]; simpl; [discriminate|].
  destruct (path_eqb q p) eqn:E.
  - intros H; inversion H; subst. apply path_eqb_spec in E. subst. left; reflexivity.
  - intros H. right. apply IH. exact H.
Qed.

Lemma assoc_None t p : assoc t p = None <-> ~ In p (map fst t).
Proof.
  induction t as [|[q e0] t IH]; simpl.
  - split; [intros _ []|reflexivity].
  - destruct (path_eqb q p) eqn:E.
    + apply path_eqb_spec in E. subst. split; [discriminate|]. intros H. exfalso. apply H. left; reflexivity.
    + apply path_eqb_false in E. rewrite IH. split.
      * intros H [H1|H1]; [congruence|contradiction].
      * intros H H1. apply H. right. exact H1.
Qed.

Lemma In_assoc t p e : NoDup (map fst t) -> In (p, e) t -> assoc t p = Some e.
Proof.
  induction t as [|[q e0] t IH]; simpl; intros Hnd Hin; [contradiction|].
  inversion Hnd as [|x l Hnotin Hnd']; subst.
  destruct Hin as [Heq|Hin].
  - inversion Heq; subst. rewrite path_eqb_refl. reflexivity.
  - destruct (path_eqb q p) eqn:E.
    + apply path_eqb_spec in E. subst. exfalso. apply Hnotin.
      apply in_map_iff. exists (p, e). split; [reflexivity|exact Hin].
    + apply IH; assumption.
Qed.

Lemma assoc_app t u p :
  assoc (t ++ u) p = match assoc t p with Some e => Some e | None => assoc u p end.
Proof.
  induction t as [|[q e0] t IH]; simpl; [reflexivity|].
  destruct (path_eqb q p); [reflexivity|exact IH].
Qed.

Lemma lookup_app t u p :
  lookup (t ++ u) p = match lookup t p with Some e => Some e | None => lookup u p end.
Proof. destruct p; simpl; [reflexivity|apply assoc_app]. Qed.

Lemma lookup_nonroot t p : p <> [] -> lookup t p = assoc t p.
Proof. destruct p; [congruence|reflexivity]. Qed.

Lemma lookup_root t : lookup t [] = Some D.
Proof. reflexivity. Qed.

Lemma lookup_single q e p : q <> [] -> lookup [(q, e)] p = if path_eqb q p then Some e else lookup [] p.
Proof.
  intros Hq. destruct p as [|n p]; simpl.
  - destruct (path_eqb q []) eqn:E; [apply path_eqb_spec in E; congruence|reflexivity].
  - destruct (path_eqb q (n :: p)); reflexivity.
Qed.

Lemma lookup_nil p : lookup [] p = match p with [] => Some D | _ => None end.
Proof. destruct p; reflexivity. Qed.

(** Appending a fresh node: lookups elsewhere are unchanged, the new path is bound. *)
Lemma lookup_snoc t q e p : q <> [] -> lookup t q = None ->
  lookup (t ++ [(q, e)]) p = if path_eqb q p then Some e else lookup t p.
Proof.
  intros Hq Hnone. rewrite lookup_app, lookup_single by exact Hq.
  destruct (path_eqb q p) eqn:E.
  - apply path_eqb_spec in E. subst. rewrite Hnone. reflexivity.
  - destruct (lookup t p) eqn:El; [reflexivity|]. rewrite lookup_nil.
    destruct p; [simpl in El; discriminate|reflexivity].
Qed.

Lemma is_dir_at_snoc t q e p : q <> [] -> lookup t q = None ->
  is_dir_at t p = true -> is_dir_at (t ++ [(q, e)]) p = true.
Proof.
  intros Hq Hn. unfold is_dir_at. rewrite lookup_snoc by assumption.
  destruct (path_eqb q p) eqn:E; [|tauto].
  apply path_eqb_spec in E. subst. rewrite Hn. discriminate.
Qed.

Lemma removelast_snoc {A} (l : list A) x : removelast (l ++ [x]) = l.
Proof. apply removelast_last. Qed.

(** Adding a fresh node whose parent is a directory keeps the tree well formed. *)
Lemma WF_snoc t q e :
  WF t -> q <> [] -> good_path q = true -> lookup t q = None -> is_dir_at t (removelast q) = true ->
  WF (t ++ [(q, e)]).
Proof.
  intros [Hnd Hall] Hq Hg Hnone Hpar. split.
  - rewrite map_app. simpl. apply NoDup_app_snoc; [exact Hnd|].
    rewrite lookup_nonroot in Hnone by exact Hq. apply assoc_None. exact Hnone.
  - intros p e0 Hin. apply in_app_or in Hin as [Hin|[Hin|[]]].
    + destruct (Hall p e0 Hin) as (H1 & H2 & H3). repeat split; auto.
      apply is_dir_at_snoc; assumption.
    + inversion Hin; subst. repeat split; auto. apply is_dir_at_snoc; assumption.
Qed.

Lemma good_path_app a b : good_path (a ++ b) = true <-> good_path a = true /\ good_path b = true.
Proof. unfold good_path. rewrite forallb_app, andb_true_iff. tauto. Qed.

Lemma app_cons_assoc {A} (a : list A) x b : a ++ x :: b = (a ++ [x]) ++ b.
Proof. rewrite <- app_assoc. reflexivity. Qed.

Lemma snoc_not_nil {A} (a : list A) x : a ++ [x] <> [].
Proof. destruct a; discriminate. Qed.

(** In a well-formed tree every proper prefix of an existing path is a directory. *)
Lemma WF_prefix_dir t : WF t -> forall s a, s <> [] ->
  exists_at t (a ++ s) = true -> is_dir_at t a = true.
Proof.
  intros HWF s. induction s as [|x s IH] using rev_ind; intros a Hne Hex; [congruence|].
  unfold exists_at in Hex. destruct (lookup t (a ++ s ++ [x])) as [e|] eqn:El; [|discriminate].
  assert (Hq : a ++ s ++ [x] <> []) by (rewrite app_assoc; apply snoc_not_nil).
  rewrite lookup_nonroot in El by exact Hq. apply assoc_In in El.
  destruct HWF as [_ Hall]. destruct (Hall _ _ El) as (_ & _ & Hpar).
  rewrite app_assoc, removelast_last in Hpar.
  destruct s as [|y s'].
  - rewrite app_nil_r in Hpar. exact Hpar.
  - apply (IH a); [discriminate|]. unfold exists_at. unfold is_dir_at in Hpar.
    destruct (lookup t (a ++ y :: s')); [reflexivity|discriminate].
Qed.

(** * mkdir_all *)
Lemma mkdir_chain_spec p : forall pre t t',
  WF t -> good_path (pre ++ p) = true -> is_dir_at t pre = true ->
  mkdir_chain t (prefixes_from pre p) = Some t' ->
  WF t' /\ is_dir_at t' (pre ++ p) = true /\
  (forall q e, lookup t q = Some e -> lookup t' q = Some e) /\
  (forall q, lookup t q = None -> lookup t' q <> None ->
             lookup t' q = Some D /\ is_prefix pre q = true /\ is_prefix q (pre ++ p) = true).
Proof.
  induction p as [|n p IH]; intros pre t t' HWF Hg Hdir H.
  - simpl in H. inversion H; subst. rewrite app_nil_r.
    split; [exact HWF|]. split; [exact Hdir|]. split; [auto|].
    intros q Hq1 Hq2. exfalso. apply Hq2. exact Hq1.
  - cbn [prefixes_from mkdir_chain] in H.
    assert (Hg' : good_path ((pre ++ [n]) ++ p) = true) by (rewrite <- app_cons_assoc; exact Hg).
    destruct (lookup t (pre ++ [n])) as [[d|]|] eqn:El.
    + discriminate.
    + assert (Hd : is_dir_at t (pre ++ [n]) = true) by (unfold is_dir_at; rewrite El; reflexivity).
      destruct (IH _ _ _ HWF Hg' Hd H) as (W & D1 & P1 & N1).
      rewrite <- app_cons_assoc in D1.
      split; [exact W|]. split; [exact D1|]. split; [exact P1|].
      intros q Hq1 Hq2. destruct (N1 q Hq1 Hq2) as (A & B & C).
      split; [exact A|]. split.
      * eapply is_prefix_trans; [apply is_prefix_app|exact B].
      * rewrite (app_cons_assoc pre n p). exact C.
    + set (t1 := t ++ [(pre ++ [n], D)]) in *.
      apply good_path_app in Hg' as [Hgq Hgp].
      assert (HWF1 : WF t1).
      { apply WF_snoc; auto; [apply snoc_not_nil|]. rewrite removelast_last. exact Hdir. }
      assert (Hl1 : forall q, lookup t1 q = if path_eqb (pre ++ [n]) q then Some D else lookup t q).
      { intros q. unfold t1. apply lookup_snoc; [apply snoc_not_nil|exact El]. }
      assert (Hd : is_dir_at t1 (pre ++ [n]) = true).
      { unfold is_dir_at. rewrite Hl1, path_eqb_refl. reflexivity. }
      assert (Hg1 : good_path ((pre ++ [n]) ++ p) = true) by (apply good_path_app; auto).
      destruct (IH _ _ _ HWF1 Hg1 Hd H) as (W & D1 & P1 & N1).
      rewrite <- app_cons_assoc in D1.
      split; [exact W|]. split; [exact D1|]. split.
      * intros q e Hq. apply P1. rewrite Hl1.
        destruct (path_eqb (pre ++ [n]) q) eqn:E; [|exact Hq].
        apply path_eqb_spec in E. subst. congruence.
      * intros q Hq1 Hq2. destruct (lookup t1 q) as [e1|] eqn:E1.
        -- rewrite Hl1 in E1.
           destruct (path_eqb (pre ++ [n]) q) eqn:E; [|congruence].
           apply path_eqb_spec in E. subst q. split; [|split].
           ++ apply P1. rewrite Hl1, path_eqb_refl. reflexivity.
           ++ apply is_prefix_app.
           ++ rewrite (app_cons_assoc pre n p). apply is_prefix_app.
        -- destruct (N1 q E1 Hq2) as (A & B & C). split; [exact A|]. split.
           ++ eapply is_prefix_trans; [apply is_prefix_app|exact B].
           ++ rewrite (app_cons_assoc pre n p). exact C.
Qed.

Theorem mkdir_all_spec t p t' :
  WF t -> good_path p = true -> mkdir_all t p = Some t' ->
  WF t' /\ is_dir_at t' p = true /\
  (forall q e, lookup t q = Some e -> lookup t' q = Some e) /\
  (forall q, lookup t q = None -> lookup t' q <> None ->
             lookup t' q = Some D /\ is_prefix q p = true).
Proof.
  intros HWF Hg H. unfold mkdir_all, prefixes in H.
  destruct (mkdir_chain_spec p [] t t' HWF Hg eq_refl H) as (W & D1 & P1 & N1).
  split; [exact W|]. split; [exact D1|]. split; [exact P1|].
  intros q Hn Hs. destruct (N1 q Hn Hs) as (A & _ & B). split; assumption.
Qed.

(** mkdir is idempotent: once it succeeded, doing it again changes nothing. *)
Lemma mkdir_chain_noop l t : (forall q, In q l -> is_dir_at t q = true) -> mkdir_chain t l = Some t.
Proof.
  induction l as [|q l IH]; intros H; simpl; [reflexivity|].
  pose proof (H q (or_introl eq_refl)) as Hq. unfold is_dir_at in Hq.
  destruct (lookup t q) as [[|]|]; try discriminate. apply IH. intros q' Hin. apply H. right. exact Hin.
Qed.

Lemma prefixes_from_In pre p q : In q (prefixes_from pre p) ->
  exists a b, p = a ++ b /\ a <> [] /\ q = pre ++ a.
Proof.
  revert pre; induction p as [|n p IH]; intros pre Hin; simpl in Hin; [contradiction|].
  destruct Hin as [Hq|Hin].
  - exists [n], p. repeat split; [discriminate|auto].
  - destruct (IH _ Hin) as (a & b & Hp & Hne & Hq). exists (n :: a), b. subst.
    repeat split; [discriminate|]. rewrite <- app_assoc. reflexivity.
Qed.

Theorem mkdir_all_idempotent t p t' :
  WF t -> good_path p = true -> mkdir_all t p = Some t' -> mkdir_all t' p = Some t'.
Proof.
  intros HWF Hg H. destruct (mkdir_all_spec _ _ _ HWF Hg H) as (W & Dp & _ & _).
  unfold mkdir_all. apply mkdir_chain_noop. intros q Hin. unfold prefixes in Hin.
  destruct (prefixes_from_In _ _ _ Hin) as (a & b & Hp & Hne & Hq). simpl in Hq. subst.
  destruct b as [|x b]; [rewrite app_nil_r in Dp; exact Dp|].
  apply (WF_prefix_dir t' W (x :: b) a); [discriminate|].
  unfold exists_at. unfold is_dir_at in Dp. destruct (lookup t' (a ++ x :: b)); [reflexivity|discriminate].
Qed.

Lemma removelast_neq {A} (p : list A) : p <> [] -> p <> removelast p.
Proof.
  intros H E. destruct p as [|x p']; [congruence|].
  pose proof (app_removelast_last x H) as H0.
  apply (f_equal (@length A)) in H0. rewrite app_length, <- E in H0. simpl in H0. lia.
Qed.

(** * replace_entry *)
Lemma replace_entry_keys t p e : map fst (replace_entry t p e) = map fst t.
Proof.
  induction t as [|[q e0] t IH]; simpl; [reflexivity|].
  destruct (path_eqb q p); simpl; [reflexivity|]. f_equal. exact IH.
Qed.

Lemma assoc_replace t p e q :
  assoc (replace_entry t p e) q =
  if path_eqb p q then match assoc t p with Some _ => Some e | None => None end else assoc t q.
Proof.
  induction t as [|[k e0] t IH]; simpl.
  - destruct (path_eqb p q); reflexivity.
  - destruct (path_eqb k p) eqn:Ekp.
    + apply path_eqb_spec in Ekp. subst k. simpl.
      destruct (path_eqb p q); reflexivity.
    + simpl. destruct (path_eqb k q) eqn:Ekq.
      * apply path_eqb_spec in Ekq. subst k.
        rewrite path_eqb_sym, Ekp. reflexivity.
      * exact IH.
Qed.

Lemma In_replace t p e q e' : In (q, e') (replace_entry t p e) ->
  (q = p /\ e' = e) \/ In (q, e') t.
Proof.
  induction t as [|[k e0] t IH]; simpl; [tauto|].
  destruct (path_eqb k p) eqn:E.
  - apply path_eqb_spec in E. subst. simpl. intros [H|H].
    + inversion H; subst. left; auto.
    + right; right; exact H.
  - simpl. intros [H|H]; [right; left; exact H|].
    destruct (IH H) as [A|A]; [left; exact A|right; right; exact A].
Qed.

(** * write_at: a write creates missing parents and replaces content; nothing else changes. *)
Theorem write_at_spec t p data t' :
  WF t -> good_path p = true -> p <> [] -> write_at t p data = Some t' ->
  WF t' /\
  lookup t' p = Some (F data) /\
  is_dir_at t' (removelast p) = true /\
  (forall q, q <> p -> lookup t q <> None -> lookup t' q = lookup t q) /\
  (forall q, q <> p -> lookup t q = None -> lookup t' q <> None ->
             lookup t' q = Some D /\ is_prefix q (removelast p) = true).
Proof.
  intros HWF Hg Hne H. unfold write_at in H.
  assert (Hgpar : good_path (removelast p) = true).
  { rewrite (app_removelast_last [] Hne) in Hg. apply good_path_app in Hg. tauto. }
  destruct (mkdir_all t (removelast p)) as [t1|] eqn:Em; [|discriminate].
  destruct (mkdir_all_spec _ _ _ HWF Hgpar Em) as (W1 & D1 & P1 & N1).
  destruct (lookup t1 p) as [[d|]|] eqn:El; [| discriminate |].
  - (* overwrite an existing file *)
    inversion H; subst t'. clear H.
    assert (Hl : forall q, lookup (replace_entry t1 p (F data)) q =
                          if path_eqb p q then Some (F data) else lookup t1 q).
    { intros q. destruct q as [|n q]; simpl.
      - destruct (path_eqb p []) eqn:E; [apply path_eqb_spec in E; congruence|reflexivity].
      - rewrite assoc_replace. destruct (path_eqb p (n :: q)) eqn:E; [|reflexivity].
        rewrite lookup_nonroot in El by exact Hne. rewrite El. reflexivity. }
    split; [|split; [|split; [|split]]].
    + destruct W1 as [Hnd Hall]. split; [rewrite replace_entry_keys; exact Hnd|].
      intros q e Hin. apply In_replace in Hin as [[-> ->]|Hin].
      * split; [exact Hne|]. split; [exact Hg|].
        unfold is_dir_at. rewrite Hl.
        destruct (path_eqb p (removelast p)) eqn:E.
        -- apply path_eqb_spec in E. exfalso. exact (removelast_neq p Hne E).
        -- exact D1.
      * destruct (Hall q e Hin) as (A & B & C). split; [exact A|]. split; [exact B|].
        unfold is_dir_at in *. rewrite Hl.
        destruct (path_eqb p (removelast q)) eqn:E; [|exact C].
        apply path_eqb_spec in E. rewrite <- E in C. rewrite El in C. discriminate.
    + rewrite Hl, path_eqb_refl. reflexivity.
    + unfold is_dir_at in *. rewrite Hl.
      destruct (path_eqb p (removelast p)) eqn:E; [|exact D1].
      apply path_eqb_spec in E. rewrite <- E in D1. rewrite El in D1. discriminate.
    + intros q Hq Hex. rewrite Hl.
      destruct (path_eqb p q) eqn:E; [apply path_eqb_spec in E; congruence|].
      destruct (lookup t q) as [e|] eqn:Eq; [|congruence]. apply P1. exact Eq.
    + intros q Hq Hn Hex. rewrite Hl in Hex |- *.
      destruct (path_eqb p q) eqn:E; [apply path_eqb_spec in E; congruence|].
      apply N1; assumption.
  - (* create a new file *)
    inversion H; subst t'. clear H.
    assert (Hl : forall q, lookup (t1 ++ [(p, F data)]) q =
                          if path_eqb p q then Some (F data) else lookup t1 q).
    { intros q. apply lookup_snoc; assumption. }
    split; [|split; [|split; [|split]]].
    + apply WF_snoc; assumption.
    + rewrite Hl, path_eqb_refl. reflexivity.
    + apply is_dir_at_snoc; assumption.
    + intros q Hq Hex. rewrite Hl.
      destruct (path_eqb p q) eqn:E; [apply path_eqb_spec in E; congruence|].
      destruct (lookup t q) as [e|] eqn:Eq; [|congruence]. apply P1. exact Eq.
    + intros q Hq Hn Hex. rewrite Hl in Hex |- *.
      destruct (path_eqb p q) eqn:E; [apply path_eqb_spec in E; congruence|].
      apply N1; assumption.
Qed.

(** * delete_subtree *)
Lemma assoc_filter (f : path -> bool) t q :
  assoc (filter (fun qe => f (fst qe)) t) q = if f q then assoc t q else None.
Proof.
  induction t as [|[k e] t IH]; simpl.
  - destruct (f q); reflexivity.
  - destruct (f k) eqn:Ek; simpl.
    + destruct (path_eqb k q) eqn:E.
      * apply path_eqb_spec in E. subst. rewrite Ek. reflexivity.
      * exact IH.
    + destruct (path_eqb k q) eqn:E.
      * apply path_eqb_spec in E. subst. rewrite Ek in IH |- *. exact IH.
      * exact IH.
Qed.

Lemma lookup_delete t p q : p <> [] ->
  lookup (delete_subtree t p) q = if is_prefix p q then None else lookup t q.
Proof.
  intros Hp. unfold delete_subtree. destruct q as [|n q].
  - simpl. destruct p; [congruence|reflexivity].
  - simpl lookup. rewrite (assoc_filter (fun k => negb (is_prefix p k))).
    destruct (is_prefix p (n :: q)); reflexivity.
Qed.

Lemma NoDup_map_filter {A B} (g : A -> B) (f : A -> bool) l : NoDup (map g l) -> NoDup (map g (filter f l)).
Proof.
  induction l as [|x l IH]; simpl; intros H; [constructor|].
  inversion H; subst. destruct (f x); simpl; [|auto].
  constructor; [|auto]. intros Hin. apply H2. apply in_map_iff in Hin as (y & Hy & Hin).
  apply filter_In in Hin as [Hin _]. apply in_map_iff. exists y. auto.
Qed.

Lemma is_prefix_removelast p q : q <> [] -> is_prefix p (removelast q) = true -> is_prefix p q = true.
Proof.
  intros Hq H. apply is_prefix_spec in H as [s Hs]. apply is_prefix_spec.
  exists (s ++ [last q []]). rewrite app_assoc, <- Hs. apply app_removelast_last. exact Hq.
Qed.

Lemma WF_delete t p : WF t -> p <> [] -> WF (delete_subtree t p).
Proof.
  intros [Hnd Hall] Hp. split.
  - unfold delete_subtree. apply NoDup_map_filter. exact Hnd.
  - intros q e Hin. unfold delete_subtree in Hin. apply filter_In in Hin as [Hin Hf].
    simpl in Hf. apply negb_true_iff in Hf.
    destruct (Hall q e Hin) as (A & B & C). split; [exact A|]. split; [exact B|].
    unfold is_dir_at in *. rewrite lookup_delete by exact Hp.
    destruct (is_prefix p (removelast q)) eqn:E; [|exact C].
    apply is_prefix_removelast in E; [congruence|exact A].
Qed.

(** remove deletes a file or an EMPTY directory only; recursive remove deletes the subtree;
    in both cases every path outside the removed subtree is untouched. *)
Theorem remove_at_spec t p t' :
  WF t -> p <> [] -> remove_at t p = Some t' ->
  WF t' /\
  (is_file_at t p = true \/ (is_dir_at t p = true /\ has_children t p = false)) /\
  (forall q, lookup t' q = if is_prefix p q then None else lookup t q).
Proof.
  intros HWF Hp H. unfold remove_at in H.
  destruct (negb (is_dir_at t (removelast p))); [discriminate|].
  unfold is_file_at, is_dir_at.
  destruct (lookup t p) as [[d|]|] eqn:El; [| |discriminate].
  - inversion H; subst. split; [apply WF_delete; assumption|]. split; [left; reflexivity|].
    intros q. apply lookup_delete. exact Hp.
  - destruct (has_children t p) eqn:Ec; [discriminate|]. inversion H; subst.
    split; [apply WF_delete; assumption|]. split; [right; auto|].
    intros q. apply lookup_delete. exact Hp.
Qed.

Theorem remove_at_fails_on_nonempty_dir t p :
  is_dir_at t p = true -> has_children t p = true -> remove_at t p = None.
Proof.
  intros Hd Hc. unfold remove_at. destruct (negb (is_dir_at t (removelast p))); [reflexivity|].
  unfold is_dir_at in Hd. destruct (lookup t p) as [[|]|]; try discriminate. rewrite Hc. reflexivity.
Qed.

Theorem remove_all_at_spec t p t' :
  WF t -> p <> [] -> remove_all_at t p = Some t' ->
  WF t' /\ exists_at t p = true /\
  (forall q, lookup t' q = if is_prefix p q then None else lookup t q).
Proof.
  intros HWF Hp H. unfold remove_all_at in H.
  destruct (negb (is_dir_at t (removelast p))); [discriminate|].
  unfold exists_at. destruct (lookup t p) eqn:El; [|discriminate]. inversion H; subst.
  split; [apply WF_delete; assumption|]. split; [reflexivity|].
  intros q. apply lookup_delete. exact Hp.
Qed.

(** [has_children] agrees with [lookup]: a directory is non-empty iff some strictly longer path
    below it is bound. *)
Lemma has_children_spec t p : has_children t p = true <->
  exists q e, In (q, e) t /\ is_prefix p q = true /\ length q <> length p.
Proof.
  unfold has_children. rewrite existsb_exists. split.
  - intros [[q e] [Hin H]]. simpl in H. apply andb_true_iff in H as [H1 H2].
    apply negb_true_iff, Nat.eqb_neq in H2. exists q, e. auto.
  - intros (q & e & Hin & H1 & H2). exists (q, e). split; [exact Hin|]. simpl.
    rewrite H1. apply Nat.eqb_neq in H2. rewrite H2. reflexivity.
Qed.

(** * copy_at: copies are deep snapshots *)
Lemma path_eqb_app_l a x y : path_eqb (a ++ x) (a ++ y) = path_eqb x y.
Proof. induction a as [|n a IH]; simpl; [reflexivity|]. rewrite bytes_eqb_refl. exact IH. Qed.

Lemma skipn_app_exact {A} (a b : list A) : skipn (length a) (a ++ b) = b.
Proof. induction a; simpl; auto. Qed.

Lemma is_prefix_false_neq p q : is_prefix p q = false -> forall x, q <> p ++ x.
Proof. intros H x E. subst. rewrite is_prefix_app in H. discriminate. Qed.

Lemma moved_entry (src dst k : path) (e : entry) :
  (if is_prefix src k && negb (Nat.eqb (length k) (length src))
   then [(dst ++ skipn (length src) k, e)] else []) =
  match (if is_prefix src k then Some (skipn (length src) k) else None) with
  | Some (n :: y) => [(dst ++ n :: y, e)]
  | _ => []
  end.
Proof.
  destruct (is_prefix src k) eqn:E; simpl; [|reflexivity].
  apply is_prefix_spec in E as [s ->]. rewrite skipn_app_exact, app_length.
  destruct s as [|n y]; simpl.
  - rewrite Nat.add_0_r, Nat.eqb_refl. reflexivity.
  - replace (Nat.eqb (length src + S (length y)) (length src)) with false; [reflexivity|].
    symmetry. apply Nat.eqb_neq. lia.
Qed.

Lemma assoc_moved t src dst x : x <> [] ->
  assoc (subtree_moved t src dst) (dst ++ x) = assoc t (src ++ x).
Proof.
  intros Hx. unfold subtree_moved. induction t as [|[k e] t IH]; simpl; [reflexivity|].
  rewrite moved_entry. destruct (is_prefix src k) eqn:E.
  - apply is_prefix_spec in E as [s ->]. rewrite skipn_app_exact. destruct s as [|n y].
    + simpl. rewrite app_nil_r.
      replace (path_eqb src (src ++ x)) with false; [exact IH|].
      symmetry. apply path_eqb_false. intros E. apply (f_equal (@length name)) in E.
      rewrite app_length in E. destruct x; [congruence|simpl in E; lia].
    + simpl. rewrite !path_eqb_app_l. destruct (path_eqb (n :: y) x); [reflexivity|exact IH].
  - simpl. replace (path_eqb k (src ++ x)) with false; [exact IH|].
    symmetry. apply path_eqb_false. intros ->. rewrite is_prefix_app in E. discriminate.
Qed.

Lemma In_moved t src dst q e : In (q, e) (subtree_moved t src dst) ->
  exists x, x <> [] /\ q = dst ++ x /\ In (src ++ x, e) t.
Proof.
  unfold subtree_moved. induction t as [|[k e0] t IH]; simpl; [tauto|].
  rewrite moved_entry. intros Hin. apply in_app_or in Hin as [Hin|Hin].
  - destruct (is_prefix src k) eqn:E; [|destruct Hin].
    apply is_prefix_spec in E as [s ->]. rewrite skipn_app_exact in Hin.
    destruct s as [|n y]; [destruct Hin|]. destruct Hin as [Hin|[]]. inversion Hin; subst.
    exists (n :: y). split; [discriminate|]. split; [reflexivity|left; reflexivity].
  - destruct (IH Hin) as (x & A & B & C). exists x. auto.
Qed.

Lemma assoc_moved_outside t src dst q : (forall x, x <> [] -> q <> dst ++ x) ->
  assoc (subtree_moved t src dst) q = None.
Proof.
  intros H. apply assoc_None. intros Hin. apply in_map_iff in Hin as ([q' e] & Hq & Hin).
  simpl in Hq. subst q'. apply In_moved in Hin as (x & A & B & _). exact (H x A B).
Qed.

Lemma NoDup_moved t src dst : NoDup (map fst t) -> NoDup (map fst (subtree_moved t src dst)).
Proof.
  unfold subtree_moved. induction t as [|[k e] t IH]; simpl; intros Hnd; [constructor|].
  inversion Hnd as [|? ? Hnotin Hnd']; subst. rewrite moved_entry.
  destruct (is_prefix src k) eqn:E; [|simpl; auto].
  apply is_prefix_spec in E as [s ->]. rewrite skipn_app_exact.
  destruct s as [|n y]; [simpl; auto|]. simpl. constructor; [|auto].
  intros Hin. apply in_map_iff in Hin as ([q' e'] & Hq & Hin). simpl in Hq. subst q'.
  apply (In_moved t src dst) in Hin as (x & _ & B & C).
  apply app_inv_head in B. subst x. apply Hnotin. apply in_map_iff. exists (src ++ n :: y, e'). auto.
Qed.

(** Nothing exists below a path that is not itself bound (well-formed trees). *)
Lemma WF_nothing_below t p x : WF t -> lookup t p = None -> x <> [] -> lookup t (p ++ x) = None.
Proof.
  intros HWF Hn Hx. destruct (lookup t (p ++ x)) eqn:E; [|reflexivity]. exfalso.
  assert (Hd : is_dir_at t p = true).
  { apply (WF_prefix_dir t HWF x p Hx). unfold exists_at. rewrite E. reflexivity. }
  unfold is_dir_at in Hd. rewrite Hn in Hd. discriminate.
Qed.

Lemma WF_nothing_below_file t p d x : WF t -> lookup t p = Some (F d) -> x <> [] -> lookup t (p ++ x) = None.
Proof.
  intros HWF Hn Hx. destruct (lookup t (p ++ x)) eqn:E; [|reflexivity]. exfalso.
  assert (Hd : is_dir_at t p = true).
  { apply (WF_prefix_dir t HWF x p Hx). unfold exists_at. rewrite E. reflexivity. }
  unfold is_dir_at in Hd. rewrite Hn in Hd. discriminate.
Qed.

Lemma WF_entry_good t q e : WF t -> In (q, e) t -> good_path q = true /\ q <> [].
Proof. intros [_ H] Hin. destruct (H q e Hin) as (A & B & _). auto. Qed.

Lemma lookup_In t q e : q <> [] -> lookup t q = Some e -> In (q, e) t.
Proof. intros Hq H. rewrite lookup_nonroot in H by exact Hq. apply assoc_In. exact H. Qed.

Lemma In_lookup t q e : WF t -> In (q, e) t -> lookup t q = Some e.
Proof.
  intros HWF Hin. destruct (WF_entry_good _ _ _ HWF Hin) as [_ Hq].
  rewrite lookup_nonroot by exact Hq. apply In_assoc; [apply HWF|exact Hin].
Qed.

Theorem copy_at_spec k t src dst t' :
  WF t -> good_path dst = true -> dst <> [] -> copy_at k t src dst = Some t' ->
  exists t1,
    mkdir_all t (removelast dst) = Some t1 /\ lookup t1 dst = None /\ lookup t src <> None /\
    WF t' /\
    (forall x, lookup t' (dst ++ x) = match x with [] => lookup t src | _ => lookup t1 (src ++ x) end) /\
    (forall q, is_prefix dst q = false -> lookup t' q = lookup t1 q).
Proof.
  intros HWF Hg Hne H. unfold copy_at in H.
  destruct (lookup t src) as [e|] eqn:Es; [|discriminate].
  match type of H with (if negb ?c then _ else _) = _ => destruct c eqn:Ek; [|discriminate] end.
  simpl in H.
  assert (Hgpar : good_path (removelast dst) = true).
  { rewrite (app_removelast_last [] Hne) in Hg. apply good_path_app in Hg. tauto. }
  destruct (mkdir_all t (removelast dst)) as [t1|] eqn:Em; [|discriminate].
  destruct (mkdir_all_spec _ _ _ HWF Hgpar Em) as (W1 & D1 & P1 & N1).
  destruct (lookup t1 dst) eqn:Ed; [discriminate|].
  exists t1. split; [reflexivity|]. split; [exact Ed|]. split; [discriminate|].
  assert (Hbelow : forall x, x <> [] -> lookup t1 (dst ++ x) = None)
    by (intros x Hx; apply WF_nothing_below; assumption).
  destruct e as [data|].
  - (* file source *)
    inversion H; subst t'. clear H.
    assert (Hl : forall q, lookup (t1 ++ [(dst, F data)]) q =
                          if path_eqb dst q then Some (F data) else lookup t1 q)
      by (intros q; apply lookup_snoc; assumption).
    split; [apply WF_snoc; assumption|]. split.
    + intros x. rewrite Hl. destruct x as [|n x].
      * rewrite app_nil_r, path_eqb_refl. reflexivity.
      * replace (path_eqb dst (dst ++ n :: x)) with false.
        2:{ symmetry. apply path_eqb_false. intros E. apply (f_equal (@length name)) in E.
            rewrite app_length in E. simpl in E. lia. }
        rewrite Hbelow by discriminate. symmetry.
        apply (WF_nothing_below_file t1 src data); [exact W1|apply P1; exact Es|discriminate].
    + intros q Hq. rewrite Hl.
      replace (path_eqb dst q) with false; [reflexivity|].
      symmetry. apply path_eqb_false. intros ->. rewrite is_prefix_refl in Hq. discriminate.
  - (* directory source *)
    inversion H; subst t'. clear H.
    set (mv := subtree_moved t1 src dst).
    assert (Hl : forall q, lookup (t1 ++ (dst, D) :: mv) q =
              match lookup t1 q with
              | Some e => Some e
              | None => if path_eqb dst q then Some D else assoc mv q
              end).
    { intros q. rewrite lookup_app. destruct (lookup t1 q) eqn:E1; [reflexivity|].
      destruct q as [|n q]; [simpl in E1; discriminate|]. simpl. reflexivity. }
    assert (HlookD : forall x, x <> [] -> lookup (t1 ++ (dst, D) :: mv) (dst ++ x) = lookup t1 (src ++ x)).
    { intros x Hx. rewrite Hl, Hbelow by exact Hx.
      replace (path_eqb dst (dst ++ x)) with false.
      2:{ symmetry. apply path_eqb_false. intros E. apply (f_equal (@length name)) in E.
          rewrite app_length in E. destruct x; [congruence|simpl in E; lia]. }
      unfold mv. rewrite assoc_moved by exact Hx.
      symmetry. apply lookup_nonroot. destruct src; destruct x; try discriminate; congruence. }
    assert (Hmono : forall q e, lookup t1 q = Some e -> lookup (t1 ++ (dst, D) :: mv) q = Some e)
      by (intros q e Hq; rewrite Hl, Hq; reflexivity).
    split; [|split].
    + (* WF *)
      destruct W1 as [Hnd1 Hall1]. split.
      * rewrite map_app. simpl. apply NoDup_app; [exact Hnd1| |].
        -- constructor; [|apply NoDup_moved; exact Hnd1].
           intros Hin. apply in_map_iff in Hin as ([q e] & Hq & Hin). simpl in Hq. subst q.
           apply In_moved in Hin as (x & Hx & Hq & _). apply (f_equal (@length name)) in Hq.
           rewrite app_length in Hq. destruct x; [congruence|simpl in Hq; lia].
        -- intros q Hin1 Hin2. simpl in Hin2. destruct Hin2 as [<-|Hin2].
           ++ apply in_map_iff in Hin1 as ([q e] & Hq & Hin). simpl in Hq. subst q.
              rewrite (In_lookup t1 dst e (conj Hnd1 Hall1) Hin) in Ed. discriminate.
           ++ apply in_map_iff in Hin2 as ([q' e] & Hq & Hin). simpl in Hq. subst q'.
              apply In_moved in Hin as (x & Hx & -> & _).
              apply in_map_iff in Hin1 as ([q e1] & Hq & Hin1). simpl in Hq. subst q.
              specialize (Hbelow x Hx). rewrite (In_lookup t1 _ e1 (conj Hnd1 Hall1) Hin1) in Hbelow. discriminate.
      * intros q e Hin. apply in_app_or in Hin as [Hin|[Hin|Hin]].
        -- destruct (Hall1 q e Hin) as (A & B & C). split; [exact A|]. split; [exact B|].
           unfold is_dir_at in *. destruct (lookup t1 (removelast q)) as [[|]|] eqn:E; try discriminate.
           rewrite (Hmono _ _ E). reflexivity.
        -- inversion Hin; subst q e. split; [exact Hne|]. split; [exact Hg|].
           unfold is_dir_at in *. destruct (lookup t1 (removelast dst)) as [[|]|] eqn:E; try discriminate.
           rewrite (Hmono _ _ E). reflexivity.
        -- apply In_moved in Hin as (x & Hx & -> & Hin).
           destruct (Hall1 _ _ Hin) as (A & B & C).
           apply good_path_app in B as [_ Bx].
           split; [destruct dst; [congruence|discriminate]|].
           split; [apply good_path_app; auto|].
           destruct x as [|n x] using rev_ind; [congruence|]. clear IHx.
           rewrite app_assoc, removelast_last. rewrite app_assoc, removelast_last in C.
           unfold is_dir_at in *. destruct x as [|m x].
           ++ rewrite app_nil_r. rewrite Hl, Ed, path_eqb_refl. reflexivity.
           ++ rewrite HlookD by discriminate. exact C.
    + intros x. destruct x as [|n x].
      * rewrite app_nil_r, Hl, Ed, path_eqb_refl. reflexivity.
      * apply HlookD. discriminate.
    + intros q Hq. rewrite Hl. destruct (lookup t1 q) eqn:E1; [reflexivity|].
      replace (path_eqb dst q) with false.
      2:{ symmetry. apply path_eqb_false. intros ->. rewrite is_prefix_refl in Hq. discriminate. }
      unfold mv. apply assoc_moved_outside. intros x _ ->. rewrite is_prefix_app in Hq. discriminate.
Qed.

(** * The step function on raw path strings *)

Lemma reduce_node_good s p : reduce_node s = Some p -> good_path p = true /\ p <> [].
Proof.
  unfold reduce_node. destruct (reduce s) as [[|n r]|] eqn:E; try discriminate.
  intros H; inversion H; subst. split; [eapply reduce_good; eauto|discriminate].
Qed.

Lemma upd_WF t r : WF t -> (forall t', r = Some t' -> WF t') -> WF (fst (upd t r)).
Proof. intros H Hr. destruct r; simpl; auto. Qed.

(** Every operation, on every raw path string, keeps the tree well formed. *)
Theorem mem_step_WF t o : WF t -> WF (fst (mem_step t o)).
Proof.
  intros HWF. destruct o; simpl;
  repeat match goal with
  | |- context [match reduce ?s with _ => _ end] => destruct (reduce s) eqn:?
  | |- context [match reduce_node ?s with _ => _ end] => destruct (reduce_node s) eqn:?
  end; simpl; try exact HWF;
  try (apply upd_WF; [exact HWF|intros t' Ht']).
  all: repeat match goal with
  | H : reduce_node _ = Some _ |- _ => apply reduce_node_good in H; destruct H
  | H : reduce _ = Some _ |- _ => apply reduce_good in H
  end.
  all: try (match goal with |- context [is_dir_at ?tt ?x] => destruct (is_dir_at tt x) end; exact HWF).
  all: try (match goal with |- context [lookup ?tt ?x] => destruct (lookup tt x) as [[|]|] end; exact HWF).
  all: match goal with
  | Ht' : copy_at _ _ _ _ = Some _ |- _ =>
    destruct (copy_at_spec _ _ _ _ _ HWF ltac:(eassumption) ltac:(eassumption) Ht')
      as (? & _ & _ & _ & W & _); exact W
  | Ht' : mkdir_all _ _ = Some _ |- _ =>
    destruct (mkdir_all_spec _ _ _ HWF ltac:(eassumption) Ht') as (W & _); exact W
  | Ht' : write_at _ _ _ = Some _ |- _ =>
    destruct (write_at_spec _ _ _ _ HWF ltac:(eassumption) ltac:(eassumption) Ht') as (W & _); exact W
  | Ht' : remove_at _ _ = Some _ |- _ =>
    destruct (remove_at_spec _ _ _ HWF ltac:(eassumption) Ht') as (W & _); exact W
  | Ht' : remove_all_at _ _ = Some _ |- _ =>
    destruct (remove_all_at_spec _ _ _ HWF ltac:(eassumption) Ht') as (W & _); exact W
  end.
Qed.

(** An operation that reports an error (or answers a query) leaves the tree exactly as it was. *)
Theorem mem_step_unchanged t o : snd (mem_step t o) <> RUnit -> fst (mem_step t o) = t.
Proof.
  destruct o; simpl;
  repeat match goal with
  | |- context [match reduce ?s with _ => _ end] => destruct (reduce s)
  | |- context [match reduce_node ?s with _ => _ end] => destruct (reduce_node s)
  end; simpl; try reflexivity;
  try (match goal with |- context [upd t ?r] => destruct r end; simpl; congruence).
  all: try (match goal with |- context [is_dir_at ?tt ?x] => destruct (is_dir_at tt x) end; reflexivity).
  all: try (match goal with |- context [lookup ?tt ?x] => destruct (lookup tt x) as [[|]|] end; reflexivity).
Qed.

Lemma view_step_cases base t o :
  fst (view_step base t o) = t \/ exists o', view_step base t o = mem_step t o'.
Proof.
  destruct o; cbv beta iota zeta delta [view_step];
  repeat match goal with
  | |- context [match reduce ?s with _ => _ end] => destruct (reduce s)
  | |- context [match reduce_node ?s with _ => _ end] => destruct (reduce_node s)
  end; eauto.
Qed.

Theorem view_step_WF base t o : WF t -> WF (fst (view_step base t o)).
Proof.
  intros HWF. destruct (view_step_cases base t o) as [->|[o' ->]]; [exact HWF|].
  apply mem_step_WF. exact HWF.
Qed.

Theorem hist_step_WF t vo : WF t -> WF (fst (hist_step t vo)).
Proof.
  intros HWF. unfold hist_step. destruct (resolve_view None (fst vo)) as [[b|]|].
  - apply view_step_WF. exact HWF.
  - apply mem_step_WF. exact HWF.
  - exact HWF.
Qed.

(** Every state reachable by any history of operations (on the root or on views of any depth,
    with any raw path strings) is a well-formed plain tree. *)
Theorem run_hist_WF h : forall t, WF t -> WF (run_hist t h).
Proof.
  induction h as [|vo h IH]; intros t HWF; simpl; [exact HWF|].
  apply IH. apply hist_step_WF. exact HWF.
Qed.

(** No phantom node: every stored path consists of proper names, and so does every listing. *)
Theorem WF_names t p e : WF t -> In (p, e) t -> forall n, In n p -> good_name n = true.
Proof.
  intros HWF Hin n Hn. destruct (WF_entry_good _ _ _ HWF Hin) as [Hg _].
  unfold good_path in Hg. rewrite forallb_forall in Hg. auto.
Qed.

Lemma children_In t p n d : In (n, d) (children t p) ->
  exists q e, In (q, e) t /\ q = p ++ [n] /\ d = match e with D => true | F _ => false end.
Proof.
  induction t as [|[q e] t IH]; simpl; [tauto|].
  destruct (is_prefix p q && Nat.eqb (length q) (S (length p))) eqn:E.
  - intros [H|H].
    + inversion H; subst. apply andb_true_iff in E as [E1 E2].
      apply is_prefix_spec in E1 as [s ->]. apply Nat.eqb_eq in E2. rewrite app_length in E2.
      destruct s as [|x [|y s]]; simpl in E2; try lia.
      exists (p ++ [x]), e. split; [left; reflexivity|]. split; [|reflexivity].
      rewrite last_last. reflexivity.
    + destruct (IH H) as (q' & e' & A & B & C). exists q', e'. auto.
  - intros H. destruct (IH H) as (q' & e' & A & B & C). exists q', e'. auto.
Qed.

Theorem listing_names_good t p n d : WF t -> In (n, d) (children t p) -> good_name n = true.
Proof.
  intros HWF Hin. apply children_In in Hin as (q & e & Hq & -> & _).
  apply (WF_names t _ e HWF Hq). apply in_or_app. right. left. reflexivity.
Qed.

(** Listings agree with the tree: an entry is listed iff it is bound one level below. *)
Theorem listing_agrees t p n d : WF t ->
  (In (n, d) (children t p) <->
   exists e, lookup t (p ++ [n]) = Some e /\ d = match e with D => true | F _ => false end).
Proof.
  intros HWF. split.
  - intros Hin. apply children_In in Hin as (q & e & Hq & -> & ->).
    exists e. split; [apply In_lookup; assumption|reflexivity].
  - intros (e & Hl & ->). apply lookup_In in Hl; [|apply snoc_not_nil].
    clear HWF. induction t as [|[q e0] t IH]; simpl in *; [contradiction|].
    destruct Hl as [Hl|Hl].
    + inversion Hl; subst. rewrite is_prefix_app, app_length. simpl.
      replace (Nat.eqb (length p + 1) (S (length p))) with true by (symmetry; apply Nat.eqb_eq; lia).
      simpl. left. rewrite last_last. reflexivity.
    + destruct (is_prefix p q && Nat.eqb (length q) (S (length p))); [right|]; apply IH; exact Hl.
Qed.

(** * Frame: what an operation does NOT change *)

Definition targets (o : op) : list bytes :=
  match o with
  | OCopy _ d | OCopyDir _ d | OCopyFile _ d => [d]
  | OMkdirAll p | OWriteFile p _ | OWriter p _ | ORemove p | ORemoveAll p => [p]
  | _ => []
  end.

Lemma is_prefix_comparable a b c :
  is_prefix a c = true -> is_prefix b c = true -> is_prefix a b = true \/ is_prefix b a = true.
Proof.
  revert b c; induction a as [|x a IH]; intros b c Ha Hb; [left; reflexivity|].
  destruct b as [|y b]; [right; reflexivity|].
  destruct c as [|z c]; [discriminate|]. simpl in *.
  apply andb_true_iff in Ha as [Ha1 Ha2]. apply andb_true_iff in Hb as [Hb1 Hb2].
  apply bytes_eqb_spec in Ha1, Hb1. subst. rewrite bytes_eqb_refl. simpl. eapply IH; eauto.
Qed.

Lemma is_prefix_removelast_l q p : p <> [] -> is_prefix q (removelast p) = true -> is_prefix q p = true.
Proof.
  intros Hp H. apply is_prefix_spec in H as [s Hs]. apply is_prefix_spec.
  exists (s ++ [last p []]). rewrite app_assoc, <- Hs. apply app_removelast_last. exact Hp.
Qed.

(** For a path [q] that is neither a target of the operation nor below one: what was there
    stays exactly as it was, and the only thing that can newly appear at [q] is a directory on
    the way down to a target (an implicitly created parent). *)
Theorem mem_step_outside t o q :
  WF t ->
  (forall s p, In s (targets o) -> reduce s = Some p -> is_prefix p q = false) ->
  (forall e, lookup t q = Some e -> lookup (fst (mem_step t o)) q = Some e) /\
  (lookup t q = None -> lookup (fst (mem_step t o)) q <> None ->
   lookup (fst (mem_step t o)) q = Some D /\
   exists s p, In s (targets o) /\ reduce s = Some p /\ is_prefix q p = true).
Proof.
  intros HWF Hout.
  assert (Hsame : fst (mem_step t o) = t ->
          (forall e, lookup t q = Some e -> lookup (fst (mem_step t o)) q = Some e) /\
          (lookup t q = None -> lookup (fst (mem_step t o)) q <> None ->
           lookup (fst (mem_step t o)) q = Some D /\
           exists s p, In s (targets o) /\ reduce s = Some p /\ is_prefix q p = true)).
  { intros ->. split; [auto|]. intros A B. congruence. }
  destruct o; try (apply Hsame; apply mem_step_unchanged; simpl;
    repeat match goal with
    | |- context [match reduce ?s with _ => _ end] => destruct (reduce s)
    | |- context [match reduce_node ?s with _ => _ end] => destruct (reduce_node s)
    | |- context [is_dir_at ?tt ?x] => destruct (is_dir_at tt x)
    | |- context [lookup ?tt ?x] => destruct (lookup tt x) as [[|]|]
    end; simpl; discriminate); simpl in Hout |- *.
  (* the mutating operations *)
  all: repeat match goal with
  | |- context [match reduce ?s with _ => _ end] => destruct (reduce s) eqn:?
  | |- context [match reduce_node ?s with _ => _ end] => destruct (reduce_node s) eqn:?
  end; try solve [simpl; split; [auto|intros A B; congruence]].
  all: match goal with |- context [upd _ ?r] => destruct r as [t'|] eqn:Hr end;
       try solve [simpl; split; [auto|intros A B; congruence]]; simpl.
  all: repeat match goal with
  | H : reduce_node ?s = Some ?p |- _ =>
    let Hr := fresh "Hred" in
    assert (Hr : reduce s = Some p) by
      (unfold reduce_node in H; destruct (reduce s) as [[|? ?]|]; congruence);
    apply reduce_node_good in H; destruct H
  end.
  all: repeat match goal with
  | H : reduce ?s = Some ?p |- _ =>
    lazymatch goal with
    | G : good_path p = true |- _ => fail
    | _ => pose proof (reduce_good _ _ H)
    end
  end.
  - (* Copy *)
    match goal with G : good_path ?d = true, N : ?d <> [], R : copy_at _ _ _ ?d = Some _ |- _ =>
      destruct (copy_at_spec _ _ _ _ _ HWF G N R) as (t1 & Em & _ & _ & _ & _ & Hfr);
      assert (Hq : is_prefix d q = false) by (eapply Hout; [left; reflexivity|eassumption]);
      assert (Hgpar : good_path (removelast d) = true)
        by (pose proof G as G'; rewrite (app_removelast_last [] N) in G'; apply good_path_app in G'; tauto);
      rewrite (Hfr q Hq);
      destruct (mkdir_all_spec _ _ _ HWF Hgpar Em) as (_ & _ & P1 & N1);
      split; [apply P1|]; intros A B; destruct (N1 q A B) as [C Dp]; split; [exact C|];
      eexists; exists d; split; [left; reflexivity|]; split; [eassumption|];
      apply is_prefix_removelast_l; assumption
    end.
  - (* CopyDir *)
    match goal with G : good_path ?d = true, N : ?d <> [], R : copy_at _ _ _ ?d = Some _ |- _ =>
      destruct (copy_at_spec _ _ _ _ _ HWF G N R) as (t1 & Em & _ & _ & _ & _ & Hfr);
      assert (Hq : is_prefix d q = false) by (eapply Hout; [left; reflexivity|eassumption]);
      assert (Hgpar : good_path (removelast d) = true)
        by (pose proof G as G'; rewrite (app_removelast_last [] N) in G'; apply good_path_app in G'; tauto);
      rewrite (Hfr q Hq);
      destruct (mkdir_all_spec _ _ _ HWF Hgpar Em) as (_ & _ & P1 & N1);
      split; [apply P1|]; intros A B; destruct (N1 q A B) as [C Dp]; split; [exact C|];
      eexists; exists d; split; [left; reflexivity|]; split; [eassumption|];
      apply is_prefix_removelast_l; assumption
    end.
  - (* CopyFile *)
    match goal with G : good_path ?d = true, N : ?d <> [], R : copy_at _ _ _ ?d = Some _ |- _ =>
      destruct (copy_at_spec _ _ _ _ _ HWF G N R) as (t1 & Em & _ & _ & _ & _ & Hfr);
      assert (Hq : is_prefix d q = false) by (eapply Hout; [left; reflexivity|eassumption]);
      assert (Hgpar : good_path (removelast d) = true)
        by (pose proof G as G'; rewrite (app_removelast_last [] N) in G'; apply good_path_app in G'; tauto);
      rewrite (Hfr q Hq);
      destruct (mkdir_all_spec _ _ _ HWF Hgpar Em) as (_ & _ & P1 & N1);
      split; [apply P1|]; intros A B; destruct (N1 q A B) as [C Dp]; split; [exact C|];
      eexists; exists d; split; [left; reflexivity|]; split; [eassumption|];
      apply is_prefix_removelast_l; assumption
    end.
  - (* MkdirAll *)
    match goal with G : good_path ?d = true, R : mkdir_all _ ?d = Some _ |- _ =>
      destruct (mkdir_all_spec _ _ _ HWF G R) as (_ & _ & P1 & N1);
      split; [apply P1|]; intros A B; destruct (N1 q A B) as [C Dp]; split; [exact C|];
      eexists; exists d; split; [left; reflexivity|]; split; eassumption
    end.
  - (* WriteFile *)
    match goal with G : good_path ?d = true, N : ?d <> [], R : write_at _ ?d _ = Some _ |- _ =>
      destruct (write_at_spec _ _ _ _ HWF G N R) as (_ & _ & _ & P1 & N1);
      assert (Hq : is_prefix d q = false) by (eapply Hout; [left; reflexivity|eassumption]);
      assert (Hne : q <> d) by (intros ->; rewrite is_prefix_refl in Hq; discriminate);
      split;
      [ intros e He; rewrite (P1 q Hne) by congruence; exact He
      | intros A B; destruct (N1 q Hne A B) as [C Dp]; split; [exact C|];
        eexists; exists d; split; [left; reflexivity|]; split; [eassumption|];
        apply is_prefix_removelast_l; assumption ]
    end.
  - (* Writer *)
    match goal with G : good_path ?d = true, N : ?d <> [], R : write_at _ ?d _ = Some _ |- _ =>
      destruct (write_at_spec _ _ _ _ HWF G N R) as (_ & _ & _ & P1 & N1);
      assert (Hq : is_prefix d q = false) by (eapply Hout; [left; reflexivity|eassumption]);
      assert (Hne : q <> d) by (intros ->; rewrite is_prefix_refl in Hq; discriminate);
      split;
      [ intros e He; rewrite (P1 q Hne) by congruence; exact He
      | intros A B; destruct (N1 q Hne A B) as [C Dp]; split; [exact C|];
        eexists; exists d; split; [left; reflexivity|]; split; [eassumption|];
        apply is_prefix_removelast_l; assumption ]
    end.
  - (* Remove *)
    match goal with N : ?d <> [], R : remove_at _ ?d = Some _ |- _ =>
      destruct (remove_at_spec _ _ _ HWF N R) as (_ & _ & Hl);
      assert (Hq : is_prefix d q = false) by (eapply Hout; [left; reflexivity|eassumption]);
      rewrite Hl, Hq; split; [auto|]; intros A B; congruence
    end.
  - (* RemoveAll *)
    match goal with N : ?d <> [], R : remove_all_at _ ?d = Some _ |- _ =>
      destruct (remove_all_at_spec _ _ _ HWF N R) as (_ & _ & Hl);
      assert (Hq : is_prefix d q = false) by (eapply Hout; [left; reflexivity|eassumption]);
      rewrite Hl, Hq; split; [auto|]; intros A B; congruence
    end.
Qed.

(** * Child views *)

Lemma reduce_wrap_view b r : good_path b = true -> good_path r = true ->
  reduce (wrap (view_base b) r) = Some (b ++ r).
Proof.
  intros Hb Hr. unfold wrap, view_base. rewrite <- app_assoc. simpl. apply reduce_wrap; assumption.
Qed.

Lemma reduce_node_wrap_view b r : good_path b = true -> good_path r = true -> r <> [] ->
  reduce_node (wrap (view_base b) r) = Some (b ++ r).
Proof.
  intros Hb Hr Hne. unfold reduce_node. rewrite reduce_wrap_view by assumption.
  destruct (b ++ r) eqn:E; [|reflexivity]. apply app_eq_nil in E as [_ E]. congruence.
Qed.

(** A view either answers by itself (argument rejected: nothing changes) or forwards ONE root
    operation all of whose target strings are [base ++ reduced argument]. *)
Lemma view_step_forward base t o :
  fst (view_step base t o) = t \/
  exists o', view_step base t o = mem_step t o' /\
             forall s, In s (targets o') -> exists r, good_path r = true /\ s = wrap base r.
Proof.
  destruct o; cbv beta iota zeta delta [view_step];
  repeat match goal with
  | |- context [match reduce ?s with _ => _ end] => destruct (reduce s) eqn:?
  | |- context [match reduce_node ?s with _ => _ end] => destruct (reduce_node s) eqn:?
  end; auto; right; eexists; (split; [reflexivity|]); simpl; intros s Hs;
  repeat match goal with H : _ \/ _ |- _ => destruct H | H : False |- _ => destruct H end; subst;
  eexists; (split; [|reflexivity]);
  repeat match goal with
  | H : reduce_node _ = Some _ |- _ => apply reduce_node_good in H; destruct H
  | H : reduce _ = Some _ |- _ => apply reduce_good in H
  end; assumption.
Qed.

Lemma is_prefix_app_false b r q : is_prefix b q = false -> is_prefix (b ++ r) q = false.
Proof.
  intros H. destruct (is_prefix (b ++ r) q) eqn:E; [|reflexivity].
  rewrite (is_prefix_trans b (b ++ r) q (is_prefix_app b r) E) in H. discriminate.
Qed.

(** Confinement of a memfs child view rooted at [b]: for every path [q] that is not at or below
    [b], whatever operation with whatever raw arguments is issued through the view, an existing
    node at [q] is untouched, and the only thing that can appear at [q] is a directory that is an
    ancestor of the view root (created on the way down to it). *)
Theorem view_step_outside b t o q :
  WF t -> good_path b = true -> is_prefix b q = false ->
  (forall e, lookup t q = Some e -> lookup (fst (view_step (view_base b) t o)) q = Some e) /\
  (lookup t q = None -> lookup (fst (view_step (view_base b) t o)) q <> None ->
   lookup (fst (view_step (view_base b) t o)) q = Some D /\ is_prefix q b = true).
Proof.
  intros HWF Hb Hq.
  destruct (view_step_forward (view_base b) t o) as [->|(o' & -> & Ht)].
  - split; [auto|]. intros A B. congruence.
  - assert (Hout : forall s p, In s (targets o') -> reduce s = Some p -> is_prefix p q = false).
    { intros s p Hs Hp. destruct (Ht s Hs) as (r & Hr & ->).
      rewrite reduce_wrap_view in Hp by assumption. inversion Hp; subst.
      apply is_prefix_app_false. exact Hq. }
    destruct (mem_step_outside t o' q HWF Hout) as [P N]. split; [exact P|].
    intros A B. destruct (N A B) as (C & s & p & Hs & Hp & Hqp). split; [exact C|].
    destruct (Ht s Hs) as (r & Hr & ->). rewrite reduce_wrap_view in Hp by assumption.
    inversion Hp; subst.
    destruct (is_prefix_comparable q b (b ++ r) Hqp (is_prefix_app b r)) as [H|H]; [exact H|congruence].
Qed.

(** A view is the root filespace on the prefixed path (shown for the operations the property
    names; [r] is the reduced argument). *)
Theorem view_write_is_prefixed b t s data r :
  good_path b = true -> reduce_node s = Some r ->
  view_step (view_base b) t (OWriteFile s data) = upd t (write_at t (b ++ r) data).
Proof.
  intros Hb Hr. cbv beta iota zeta delta [view_step]. rewrite Hr.
  destruct (reduce_node_good _ _ Hr) as [Hg Hne].
  simpl. rewrite reduce_node_wrap_view by assumption. reflexivity.
Qed.

Theorem view_mkdir_is_prefixed b t s r :
  good_path b = true -> reduce s = Some r ->
  view_step (view_base b) t (OMkdirAll s) = upd t (mkdir_all t (b ++ r)).
Proof.
  intros Hb Hr. cbv beta iota zeta delta [view_step]. rewrite Hr.
  simpl. rewrite reduce_wrap_view by (auto; eapply reduce_good; eauto). reflexivity.
Qed.

Theorem view_remove_is_prefixed b t s r :
  good_path b = true -> reduce_node s = Some r ->
  view_step (view_base b) t (ORemove s) = upd t (remove_at t (b ++ r)) /\
  view_step (view_base b) t (ORemoveAll s) = upd t (remove_all_at t (b ++ r)).
Proof.
  intros Hb Hr. cbv beta iota zeta delta [view_step]. rewrite Hr.
  destruct (reduce_node_good _ _ Hr) as [Hg Hne].
  simpl. rewrite reduce_node_wrap_view by assumption. split; reflexivity.
Qed.

Theorem view_queries_are_prefixed b t s r :
  good_path b = true -> reduce s = Some r ->
  view_step (view_base b) t (OIsExist s) = (t, RBool (exists_at t (b ++ r))) /\
  view_step (view_base b) t (OIsDir s) = (t, RBool (is_dir_at t (b ++ r))) /\
  view_step (view_base b) t (OReadDir s) =
    (if is_dir_at t (b ++ r) then (t, RList (children t (b ++ r))) else (t, RErr)).
Proof.
  intros Hb Hr. cbv beta iota zeta delta [view_step]. rewrite Hr.
  assert (Hg : good_path r = true) by (eapply reduce_good; eauto).
  simpl. rewrite reduce_wrap_view by assumption. repeat split; reflexivity.
Qed.

Theorem view_copy_is_prefixed b t s d sr dr :
  good_path b = true -> reduce s = Some sr -> reduce_node d = Some dr ->
  view_step (view_base b) t (OCopy s d) = upd t (copy_at CAny t (b ++ sr) (b ++ dr)).
Proof.
  intros Hb Hs Hd. cbv beta iota zeta delta [view_step]. rewrite Hs, Hd.
  destruct (reduce_node_good _ _ Hd) as [Hg Hne].
  assert (Hgs : good_path sr = true) by (eapply reduce_good; eauto).
  simpl. rewrite reduce_wrap_view, reduce_node_wrap_view by assumption. reflexivity.
Qed.

(** A path that climbs above the view root is refused by the view itself: nothing changes. *)
Theorem view_climb_rejected base t o :
  (forall s, In s (match o with
                   | OCopy a d | OCopyDir a d | OCopyFile a d => [a; d]
                   | OReadDir p | OIsExist p | OIsFile p | OIsDir p | OMkdirAll p | OReadFile p
                   | OWriteFile p _ | OFilespace p | OReader p _ | OWriter p _ | ORemove p
                   | ORemoveAll p | OLstat p => [p]
                   end) -> reduce s = None) ->
  view_step base t o = (t, fail_out o).
Proof.
  intros H. destruct o; cbv beta iota zeta delta [view_step reduce_node];
  repeat match goal with
  | |- context [reduce ?s] => rewrite (H s) by (simpl; auto)
  end; reflexivity.
Qed.
