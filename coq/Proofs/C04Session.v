(** C04, Writer and Reader sessions composed on the tree.

    Proofs/Stream.v states the Writer clause conditionally (IF the session reports no error) and
    the Reader clause on a byte string.  Here: exactly when a Writer session succeeds; a session
    followed by a Reader / ReadFile on ANY spelling of the same path returns the concatenation of
    the chunks, for any buffer sizes; a second session on the file always succeeds and replaces
    the content; a second write yields the very tree (node order included) that a single write
    would have given, hence a successful StreamCopy leaves exactly the tree WriteFile(data) gives. *)
From GC Require Import Common.Base Model.Paths Model.Fs Model.Stream Model.Copy
     Proofs.Paths Proofs.Fs Proofs.Stream Proofs.Copy Proofs.C04Exact.
From Coq Require Import Lia.

(** Whether a write succeeds does not depend on the bytes. *)
Lemma write_at_some_indep t p a b :
  (exists t1, write_at t p a = Some t1) -> exists t2, write_at t p b = Some t2.
Proof.
  unfold write_at. destruct (mkdir_all t (removelast p)) as [t0|]; [|intros [? H]; discriminate].
  destruct (lookup t0 p) as [[old|]|]; eauto.
Qed.

(** A Writer session succeeds EXACTLY when the string names a node that is not a directory and
    no file lies on the way to it (memfs creates missing parents). *)
Theorem writer_step_iff t s chunks : WF t ->
  (snd (mem_step t (OWriter s chunks)) = RUnit <->
   exists p, reduce_node s = Some p /\ lookup t p <> Some D /\ parents_free true t p).
Proof.
  intros HWF. cbn [mem_step]. destruct (reduce_node s) as [p|] eqn:Er.
  - destruct (reduce_node_good _ _ Er) as [Hg Hne].
    pose proof (writer_open_iff true t p HWF Hg Hne) as Hiff. unfold writer_open in Hiff. cbn [orb] in Hiff.
    split.
    + intros H. exists p. split; [reflexivity|]. apply Hiff.
      destruct (write_at t p (concat chunks)) as [t1|] eqn:E; [|discriminate H].
      apply (write_at_some_indep t p (concat chunks) []). eauto.
    + intros (p' & Ep & Hnd & Hpf). inversion Ep; subst p'.
      destruct (write_at_some_indep t p [] (concat chunks) (proj2 Hiff (conj Hnd Hpf))) as [t2 E].
      rewrite E. reflexivity.
  - split; [discriminate|]. intros (p & Ep & _). discriminate.
Qed.

(** The handle-level session (open truncates, every Write lands at the offset) produces the
    bytes that the tree-level step stores, whatever the file held before. *)
Theorem writer_step_is_session t s chunks old :
  mem_step t (OWriter s chunks) = mem_step t (OWriteFile s (writer_result Truncate old chunks)).
Proof. rewrite writer_truncate_exact. reflexivity. Qed.

(** Round trip: Writer session, then a Reader with any buffer sizes / ReadFile / Lstat through
    any spelling of the path. *)
Theorem writer_reader_roundtrip t s s' chunks bufs p :
  WF t -> reduce_node s = Some p -> reduce_node s' = Some p ->
  snd (mem_step t (OWriter s chunks)) = RUnit ->
  let t' := fst (mem_step t (OWriter s chunks)) in
  let r := read_seq (concat chunks) bufs in
  mem_step t' (OReader s' bufs) = (t', RChunks r) /\
  mem_step t' (OReadFile s') = (t', RData (concat chunks)) /\
  (exists rest, concat chunks = chunks_concat r ++ rest /\ (saw_eof r = true -> rest = [])) /\
  (Forall (fun n => (1 <= n)%nat) bufs -> (length (concat chunks) < length bufs)%nat ->
     saw_eof r = true /\ chunks_concat r = concat chunks).
Proof.
  intros HWF Hr Hr' Hok. cbv zeta.
  destruct (writer_step_exact t s chunks p HWF Hr Hok) as (_ & L & _).
  destruct (reduce_node_good _ _ Hr) as [_ Hne].
  set (t' := fst (mem_step t (OWriter s chunks))) in *.
  split; [|split; [|split]].
  - cbn [mem_step]. rewrite Hr', L. reflexivity.
  - cbn [mem_step]. rewrite Hr', L. reflexivity.
  - exact (proj1 (proj2 (proj2 (reader_exact EofEager (concat chunks) bufs)))).
  - intros Hall Hlen.
    pose proof (reader_exact EofEager (concat chunks) bufs) as (_ & _ & (rest & E & Hrest) & _ & Heof).
    cbn [read_calls] in *. specialize (Heof Hall Hlen). split; [exact Heof|].
    rewrite (Hrest Heof), app_nil_r in E. symmetry. exact E.
Qed.

(** A second session on the file cannot fail and replaces the content, whether it writes less,
    more or nothing. *)
Theorem writer_second_session t s s' chunks chunks' p :
  WF t -> reduce_node s = Some p -> reduce_node s' = Some p ->
  snd (mem_step t (OWriter s chunks)) = RUnit ->
  let t' := fst (mem_step t (OWriter s chunks)) in
  snd (mem_step t' (OWriter s' chunks')) = RUnit /\
  lookup (fst (mem_step t' (OWriter s' chunks'))) p = Some (F (concat chunks')).
Proof.
  intros HWF Hr Hr' Hok. cbv zeta.
  destruct (writer_step_exact t s chunks p HWF Hr Hok) as (W & L & _).
  destruct (reduce_node_good _ _ Hr) as [Hg Hne].
  assert (Hok' : snd (mem_step (fst (mem_step t (OWriter s chunks))) (OWriter s' chunks')) = RUnit).
  { apply writer_step_iff; [exact W|]. exists p. split; [exact Hr'|]. split; [rewrite L; discriminate|].
    unfold parents_free. intros q data Hp Hq.
    pose proof (parent_is_dir _ p _ W Hne L) as Hd.
    pose proof (prefix_of_dir_is_dir _ _ q W Hd Hp) as Hdq. apply is_dir_at_lookup in Hdq. congruence. }
  split; [exact Hok'|].
  exact (proj1 (proj2 (writer_step_exact _ s' chunks' p W Hr' Hok'))).
Qed.

(** * A second write gives the tree a single write would have given *)

Lemma replace_entry_twice t p a b : replace_entry (replace_entry t p a) p b = replace_entry t p b.
Proof.
  induction t as [|[q e] t IH]; cbn [replace_entry]; [reflexivity|].
  destruct (path_eqb q p) eqn:E; cbn [replace_entry]; rewrite E; [reflexivity|]. rewrite IH. reflexivity.
Qed.

Lemma replace_entry_snoc t p a b : assoc t p = None ->
  replace_entry (t ++ [(p, a)]) p b = t ++ [(p, b)].
Proof.
  induction t as [|[q e] t IH]; cbn [replace_entry app assoc]; intros H.
  - rewrite path_eqb_refl. reflexivity.
  - destruct (path_eqb q p); [discriminate|]. rewrite IH by exact H. reflexivity.
Qed.

Theorem write_at_twice t p a b t1 :
  WF t -> good_path p = true -> p <> [] ->
  write_at t p a = Some t1 -> write_at t1 p b = write_at t p b.
Proof.
  intros HWF Hg Hne H.
  destruct (write_at_spec _ _ _ _ HWF Hg Hne H) as (W1 & L1 & D1 & _ & _).
  assert (Hnoop : mkdir_all t1 (removelast p) = Some t1).
  { unfold mkdir_all. apply mkdir_chain_noop. intros q Hin. unfold prefixes in Hin.
    destruct (prefixes_from_In _ _ _ Hin) as (x & y & Hp & _ & Hq). cbn [app] in Hq. subst q.
    apply (prefix_of_dir_is_dir t1 (removelast p) x W1 D1). rewrite Hp. apply is_prefix_app. }
  unfold write_at in H |- *. rewrite Hnoop.
  destruct (mkdir_all t (removelast p)) as [t0|]; [|discriminate].
  rewrite L1.
  destruct (lookup t0 p) as [[old|]|] eqn:E0; inversion H; subst t1.
  - rewrite replace_entry_twice. reflexivity.
  - rewrite replace_entry_snoc; [reflexivity|]. rewrite lookup_nonroot in E0 by exact Hne. exact E0.
Qed.

(** A successful StreamCopy / Copier.copyFile leaves exactly the tree that WriteFile(pd, data)
    gives from the destination as it was (same nodes, same creation order), [data] being the
    source file. *)
Theorem stream_copy_is_write pl st mkpar B src dst ps pd c r c' :
  (1 <= B)%nat -> WF dst -> good_path pd = true -> pd <> [] ->
  stream_copy_at pl st mkpar B src dst ps pd c = (COk, r, c') ->
  exists data, lookup src ps = Some (F data) /\ write_at dst pd data = Some r.
Proof.
  intros HB HWF Hg Hne H. unfold stream_copy_at in H.
  destruct (pl (FReader (n_reader c))); [discriminate|].
  destruct (lookup src ps) as [[data|]|]; try discriminate.
  destruct (pl (FWriter (n_writer c))); [discriminate|].
  destruct (writer_open mkpar dst pd) as [d1|] eqn:Eo; [|discriminate].
  destruct (io_copy pl st B data (n_read c) (n_write c)) as [[[r0 acc] kr] kw] eqn:Ei.
  destruct r0; try discriminate.
  destruct (pl (FCloseW (n_closew c))); [discriminate|].
  destruct (pl (FCloseR (n_closer c))); [discriminate|].
  inversion H; subst r c'. clear H.
  pose proof (proj1 (proj2 (io_copy_exact pl st B data _ _ HB)) _ _ _ Ei) as Hacc. subst acc.
  exists data. split; [reflexivity|].
  unfold writer_open in Eo. destruct (mkpar || is_dir_at dst (removelast pd)); [|discriminate].
  rewrite (write_at_twice dst pd [] data d1 HWF Hg Hne Eo).
  destruct (write_at_some_indep dst pd [] data (ex_intro _ d1 Eo)) as [t2 E2]. rewrite E2. reflexivity.
Qed.

(** * Reader: EOF is reached with ANY buffer sizes, zero-length buffers in between included, as
    soon as more non-empty buffers were offered than the file has bytes (supersedes the last
    clause of reader_exact, which asks for all sizes >= 1). *)
Definition nonzero (bufs : list nat) : list nat := filter (fun n => negb (Nat.eqb n 0)) bufs.

Lemma read_seq_eof_nz bufs : forall data,
  (length data < length (nonzero bufs))%nat -> saw_eof (read_seq data bufs) = true.
Proof.
  induction bufs as [|n bufs IH]; intros data Hlen; cbn [nonzero filter length read_seq] in *; [lia|].
  destruct n as [|n]; cbn [Nat.eqb negb] in *.
  - cbn [firstn skipn]. destruct data as [|b data]; [reflexivity|]. unfold saw_eof in *. cbn [existsb snd orb]. apply IH. exact Hlen.
  - destruct (skipn (S n) data) as [|b r] eqn:E; [reflexivity|].
    unfold saw_eof in *. cbn [existsb snd orb]. apply IH. fold (nonzero bufs) in Hlen.
    rewrite <- E, skipn_length. destruct data as [|b0 d0]; [discriminate E|]. cbn [length] in *. lia.
Qed.

Lemma read_lazy_eof_nz bufs : forall data,
  (length data < length (nonzero bufs))%nat -> saw_eof (read_lazy data bufs) = true.
Proof.
  induction bufs as [|n bufs IH]; intros data Hlen; cbn [nonzero filter length read_lazy] in *; [lia|].
  destruct n as [|n]; cbn [Nat.eqb negb] in *.
  - unfold saw_eof in *. cbn [existsb snd orb]. apply IH. exact Hlen.
  - destruct data as [|b data]; [reflexivity|].
    unfold saw_eof in *. cbn [existsb snd orb]. apply IH. fold (nonzero bufs) in Hlen.
    rewrite skipn_length. cbn [length] in *. lia.
Qed.

Theorem reader_eof_reached st data bufs :
  (length data < length (nonzero bufs))%nat ->
  saw_eof (read_calls st data bufs) = true /\ chunks_concat (read_calls st data bufs) = data.
Proof.
  intros Hlen.
  assert (Heof : saw_eof (read_calls st data bufs) = true).
  { destruct st; [apply read_seq_eof_nz|apply read_lazy_eof_nz]; exact Hlen. }
  split; [exact Heof|].
  pose proof (reader_exact st data bufs) as (_ & _ & (rest & E & Hrest) & _ & _).
  rewrite (Hrest Heof), app_nil_r in E. symmetry. exact E.
Qed.
