(** Second group of proofs about the encrypted filespace (C05): histories, every single-byte
    corruption, exact characterisation of "another secret or salt", host binding, faulty streams,
    and the witness that the truncation clause cannot lose its no-forgery premise. *)
From GC Require Import Common.Base Model.Enc Model.EncMore Proofs.Enc.
From Coq Require Import ZArith Lia ZifyBool ZifyNat ZifyN.

(** * set_nth *)
Lemma set_nth_length i b (l : bytes) : (i < length l)%nat -> length (set_nth i b l) = length l.
Proof.
  intros L. unfold set_nth. rewrite app_length. cbn [length]. rewrite firstn_length, skipn_length. lia.
Qed.

Lemma set_nth_nth i b (l : bytes) : (i < length l)%nat -> nth i (set_nth i b l) 0 = b.
Proof.
  intros L. unfold set_nth. rewrite app_nth2; rewrite firstn_length; [|lia].
  replace (i - Nat.min i (length l))%nat with 0%nat by lia. reflexivity.
Qed.

Lemma set_nth_neq i b (l : bytes) : (i < length l)%nat -> b <> nth i l 0 -> set_nth i b l <> l.
Proof. intros L B E. apply B. pose proof (set_nth_nth i b l L) as N. rewrite E in N. symmetry. exact N. Qed.

(** Position i falls into the first part. *)
Lemma set_nth_app_l i b (a r : bytes) : (i < length a)%nat -> set_nth i b (a ++ r) = set_nth i b a ++ r.
Proof.
  intros L. unfold set_nth. rewrite firstn_app, skipn_app.
  replace (i - length a)%nat with 0%nat by lia. replace (S i - length a)%nat with 0%nat by lia.
  cbn [firstn skipn]. rewrite app_nil_r, <- app_assoc. reflexivity.
Qed.

(** Position i falls behind the first part. *)
Lemma set_nth_app_r i b (a r : bytes) : (length a <= i)%nat -> set_nth i b (a ++ r) = a ++ set_nth (i - length a) b r.
Proof.
  intros L. unfold set_nth. rewrite firstn_app, skipn_app.
  rewrite firstn_all2 by lia. rewrite skipn_all2 by lia.
  replace (S i - length a)%nat with (S (i - length a)) by lia.
  cbn [app]. rewrite <- app_assoc. reflexivity.
Qed.

Lemma nth_app_r_bytes i (a r : bytes) : (length a <= i)%nat -> nth i (a ++ r) 0 = nth (i - length a) r 0.
Proof. intros L. apply app_nth2. lia. Qed.
Lemma nth_app_l_bytes i (a r : bytes) : (i < length a)%nat -> nth i (a ++ r) 0 = nth i a 0.
Proof. intros L. apply app_nth1. assumption. Qed.

(** * keymat: when two settings have the same key material *)
Lemma keymat_differs hostid s1 s2 :
  hostonly s1 = hostonly s2 ->
  length (secret s1) = length (secret s2) \/ length (salt s1) = length (salt s2) ->
  other_secret_or_salt s1 s2 ->
  keymat hostid s1 <> keymat hostid s2.
Proof.
  intros HO LEN D E. unfold keymat in E. rewrite HO in E.
  assert (L1 : length (secret s1) = length (secret s2)).
  { destruct LEN as [L|L]; [assumption|].
    apply (f_equal (@length byte)) in E. rewrite !app_length in E. lia. }
  apply app_eq_len in E as [E1 E2]; [|assumption].
  apply app_inv_head in E2. destruct D as [D|D]; contradiction.
Qed.

Lemma keymat_host hostid s1 s2 :
  secret s1 = secret s2 -> salt s1 = salt s2 -> hostonly s1 <> hostonly s2 -> hostid <> [] ->
  keymat hostid s1 <> keymat hostid s2.
Proof.
  intros SE SA HO HN E. unfold keymat in E. rewrite SE, SA in E. apply app_inv_head in E.
  assert (X : hostid ++ salt s2 = salt s2).
  { destruct (hostonly s1), (hostonly s2); try (exfalso; apply HO; reflexivity);
      cbn [app] in E; congruence. }
  apply (f_equal (@length byte)) in X. rewrite app_length in X.
  destruct hostid; [apply HN; reflexivity|cbn [length] in X; lia].
Qed.

Lemma keymat_host_empty s1 s2 :
  secret s1 = secret s2 -> salt s1 = salt s2 -> keymat [] s1 = keymat [] s2.
Proof. intros SE SA. unfold keymat. rewrite SE, SA. destruct (hostonly s1), (hostonly s2); reflexivity. Qed.

Section More.
  Variable key : Type.
  Variable seal : key -> nonce -> bytes -> bytes.
  Variable open : key -> nonce -> bytes -> option bytes.
  Variable hash : bytes -> key.
  Variable hostid : bytes.
  Variable nsop nsres : Type.
  Variable base_ns : nsop -> (path -> option bytes) -> nsres * (path -> option bytes).

  Notation encrypt := (encrypt key seal hash).
  Notation decrypt := (decrypt key open hash).
  Notation store := (store key seal hash).
  Notation decrypt_reader := (decrypt_reader key open hash).
  Notation read_stored := (read_stored key open hash).
  Notation fs_write := (fs_write key seal hash hostid).
  Notation fs_read := (fs_read key open hash hostid).
  Notation keymat := (keymat hostid).
  Notation eop := (eop nsop).
  Notation estep := (estep key seal open hash hostid nsop nsres base_ns).
  Notation erun := (erun key seal open hash hostid nsop nsres base_ns).
  Notation etrace := (etrace key seal open hash hostid nsop nsres base_ns).
  Notation quiet := (quiet nsop nsres base_ns).

  (** * Histories *)
  Lemma erun_app h1 h2 st : erun (h1 ++ h2) st = erun h2 (erun h1 st).
  Proof. apply fold_left_app. Qed.

  Lemma estep_quiet p o st : quiet p o -> files (estep st o) p = files st p.
  Proof.
    destruct o as [c s n q w|rp c s q|op]; cbn [EncMore.quiet EncMore.estep]; intros Q.
    - cbn [Enc.fs_write files]. unfold upd. destruct (bytes_eqb p q) eqn:E; [|reflexivity].
      apply bytes_eqb_spec in E. exfalso. apply Q. symmetry. assumption.
    - rewrite fs_read_files. reflexivity.
    - rewrite fs_ns_passthrough. cbn [snd files]. apply Q.
  Qed.

  Lemma erun_quiet p h : forall st, Forall (quiet p) h -> files (erun h st) p = files st p.
  Proof.
    induction h as [|o h IH]; intros st F; [reflexivity|].
    inversion F as [|? ? Q F']; subst. cbn [EncMore.erun fold_left].
    change (files (erun h (estep st o)) p = files st p).
    rewrite IH by assumption. apply estep_quiet. assumption.
  Qed.

  Lemma estep_handles o st : handles (estep st o) = handles st.
  Proof.
    destruct o as [c s n q w|rp c s q|op]; cbn [EncMore.estep].
    - reflexivity.
    - apply (fs_read_handles key seal).
    - rewrite fs_ns_passthrough. reflexivity.
  Qed.

  Lemma erun_handles h : forall st, handles (erun h st) = handles st.
  Proof.
    induction h as [|o h IH]; intros st; [reflexivity|].
    change (handles (erun h (estep st o)) = handles st). rewrite IH. apply estep_handles.
  Qed.

  Lemma fs_read_no_panic rp c s st p : fst (fs_read rp c s st p) <> Panic.
  Proof.
    rewrite fs_read_fst. destruct (files st p); [|discriminate].
    apply (read_stored_no_panic key seal).
  Qed.

  Lemma etrace_no_panic h : forall st, Forall (fun r => r <> Panic) (etrace h st).
  Proof.
    induction h as [|o h IH]; intros st; [constructor|].
    cbn [EncMore.etrace]. apply Forall_app. split; [|apply IH].
    destruct o; try constructor; [apply fs_read_no_panic|constructor].
  Qed.

  (** The stored bytes at p after (anything; write at p; quiet operations). *)
  Lemma erun_last_write h1 h2 c s n p w st :
    Forall (quiet p) h2 ->
    files (erun (h1 ++ EWrite nsop c s n p w :: h2) st) p = Some (store c (keymat s) n w).
  Proof.
    intros Q. rewrite erun_app. cbn [EncMore.erun fold_left].
    change (files (erun h2 (estep (erun h1 st) (EWrite nsop c s n p w))) p = Some (store c (keymat s) n w)).
    rewrite erun_quiet by assumption. cbn [EncMore.estep Enc.fs_write files].
    apply upd_same.
  Qed.

  Section WithH1.
    Hypothesis H1 : aead_correct seal open.

    Lemma roundtrip_history h1 h2 rp c s n p w st :
      length n = NONCE_SIZE -> Forall (quiet p) h2 ->
      fst (fs_read rp c s (erun (h1 ++ EWrite nsop c s n p w :: h2) st) p) = Ok (wreq_data w).
    Proof.
      intros L Q. rewrite fs_read_fst, erun_last_write by assumption.
      apply roundtrip_stored; assumption.
    Qed.

    (** The read is itself an operation of the history: what the trace records for it. *)
    Lemma etrace_app h1 h2 st : etrace (h1 ++ h2) st = etrace h1 st ++ etrace h2 (erun h1 st).
    Proof.
      revert st; induction h1 as [|o h IH]; intros st; [reflexivity|].
      cbn [app EncMore.etrace]. rewrite IH, app_assoc. reflexivity.
    Qed.

    Lemma roundtrip_trace h1 h2 h3 rp c s n p w st :
      length n = NONCE_SIZE -> Forall (quiet p) h2 ->
      let h := h1 ++ EWrite nsop c s n p w :: h2 in
      nth (length (etrace h st)) (etrace (h ++ ERead nsop rp c s p :: h3) st) Panic = Ok (wreq_data w).
    Proof.
      intros L Q h. rewrite etrace_app, app_nth2 by lia. rewrite Nat.sub_diag.
      cbn [EncMore.etrace app nth]. apply roundtrip_history; assumption.
    Qed.
  End WithH1.

  (** * Another key, exactly *)
  Section WithH15.
    Hypothesis H1 : aead_correct seal open.
    Hypothesis H5 : aead_separated seal open.

    Lemma cross_read_exact rp c s1 s2 n st p w :
      length n = NONCE_SIZE ->
      (hash (keymat s1) = hash (keymat s2) -> keymat s1 = keymat s2) ->
      fst (fs_read rp c s2 (fs_write c s1 n st p w) p)
      = if bytes_eqb (keymat s1) (keymat s2) then Ok (wreq_data w) else Err.
    Proof.
      intros L Inj. destruct (bytes_eqb _ _) eqn:E.
      - apply bytes_eqb_spec in E. rewrite fs_read_after_write, <- E.
        apply roundtrip_stored; assumption.
      - apply wrong_key_fs; try assumption. intros K. rewrite K, bytes_eqb_refl in E. discriminate.
    Qed.
  End WithH15.

  Section WithH5.
    Hypothesis H5 : aead_separated seal open.

    Lemma wrong_secret_or_salt rp c s1 s2 n st p w :
      length n = NONCE_SIZE ->
      hostonly s1 = hostonly s2 ->
      length (secret s1) = length (secret s2) \/ length (salt s1) = length (salt s2) ->
      other_secret_or_salt s1 s2 ->
      (hash (keymat s1) = hash (keymat s2) -> keymat s1 = keymat s2) ->
      fst (fs_read rp c s2 (fs_write c s1 n st p w) p) = Err.
    Proof.
      intros L HO LEN D Inj. apply wrong_key_fs; try assumption.
      apply keymat_differs; assumption.
    Qed.

    Lemma wrong_host_binding rp c s1 s2 n st p w :
      length n = NONCE_SIZE ->
      secret s1 = secret s2 -> salt s1 = salt s2 -> hostonly s1 <> hostonly s2 -> hostid <> [] ->
      (hash (keymat s1) = hash (keymat s2) -> keymat s1 = keymat s2) ->
      fst (fs_read rp c s2 (fs_write c s1 n st p w) p) = Err.
    Proof.
      intros L SE SA HO HN Inj. apply wrong_key_fs; try assumption.
      apply keymat_host; assumption.
    Qed.

    (** Written under km1, read under km2 after any quiet history: still an error. *)
    Lemma wrong_key_history h1 h2 rp c s1 s2 n p w st :
      length n = NONCE_SIZE -> Forall (quiet p) h2 ->
      keymat s1 <> keymat s2 ->
      (hash (keymat s1) = hash (keymat s2) -> keymat s1 = keymat s2) ->
      fst (fs_read rp c s2 (erun (h1 ++ EWrite nsop c s1 n p w :: h2) st) p) = Err.
    Proof.
      intros L Q D Inj. rewrite fs_read_fst, erun_last_write by assumption.
      apply wrong_key_stored; try assumption. intros E. apply D, Inj, E.
    Qed.
  End WithH5.

  (** * Every single-byte corruption of a stored value *)
  Section Corrupt.
    Hypothesis H2 : aead_ideal seal open.
    Hypothesis H5 : aead_separated seal open.
    Hypothesis H6 : aead_dist2 seal.

    Lemma corrupt_header rp km i b r :
      (i < 4)%nat -> b <> nth i cipher_tag 0 ->
      read_stored rp Tagged km (set_nth i b (cipher_tag ++ r)) = Err.
    Proof.
      intros I B. rewrite cipher_tag_eq in *.
      destruct i as [|[|[|[|i]]]]; try lia; cbn [nth] in B;
        unfold set_nth; cbn [firstn skipn app]; apply (tamper_tag key seal);
        rewrite cipher_tag_eq; congruence.
    Qed.

    Lemma corrupt_sealed rp c km n p i b :
      length n = NONCE_SIZE ->
      (i < length (seal (hash km) n p))%nat -> b <> nth i (seal (hash km) n p) 0 ->
      read_stored rp c km (header c ++ n ++ set_nth i b (seal (hash km) n p)) = Err.
    Proof.
      intros L I B. apply (tamper_sealed key seal open hash H2); try assumption.
      intros [p' E]. revert E. apply H6; assumption.
    Qed.

    Lemma corrupt_nonce rp c km n p i b :
      length n = NONCE_SIZE -> (i < length n)%nat -> b <> nth i n 0 ->
      read_stored rp c km (header c ++ set_nth i b n ++ seal (hash km) n p) = Err.
    Proof.
      intros L I B. apply tamper_nonce; try assumption.
      - rewrite set_nth_length; assumption.
      - apply set_nth_neq; assumption.
    Qed.

    Lemma corrupt_any_byte rp c km n w i b :
      length n = NONCE_SIZE ->
      (i < length (store c km n w))%nat -> b <> nth i (store c km n w) 0 ->
      read_stored rp c km (set_nth i b (store c km n w)) = Err.
    Proof.
      rewrite store_structure. set (x := seal (hash km) n (wreq_data w)).
      intros L I B. rewrite !app_length in I.
      destruct (Nat.lt_ge_cases i (length (header c))) as [A|A].
      - (* the cipher tag *)
        destruct c; [cbn in A; lia|]. cbn [header] in *.
        rewrite nth_app_l_bytes in B by assumption. apply corrupt_header; assumption.
      - rewrite set_nth_app_r by assumption. rewrite nth_app_r_bytes in B by assumption.
        destruct (Nat.lt_ge_cases (i - length (header c)) (length n)) as [A'|A'].
        + (* the nonce *)
          rewrite set_nth_app_l by assumption. rewrite nth_app_l_bytes in B by assumption.
          apply corrupt_nonce; assumption.
        + (* ciphertext or GCM tag *)
          rewrite set_nth_app_r by assumption. rewrite nth_app_r_bytes in B by assumption.
          apply corrupt_sealed; [assumption|subst x; lia|assumption].
    Qed.

    (** The same at the filespace level: the bytes a write left in the base (whatever happened
        before, whatever quiet operations followed), with one byte changed behind the back of the
        encrypted filespace. *)
    Lemma corrupt_any_byte_fs h1 h2 rp c s n p w st i b :
      let st1 := erun (h1 ++ EWrite nsop c s n p w :: h2) st in
      let d := store c (keymat s) n w in
      length n = NONCE_SIZE -> Forall (quiet p) h2 ->
      (i < length d)%nat -> b <> nth i d 0 ->
      files st1 p = Some d /\
      fst (fs_read rp c s {| files := upd (files st1) p (set_nth i b d); handles := handles st1 |} p) = Err.
    Proof.
      intros st1 d L Q I B. split; [apply erun_last_write; assumption|].
      rewrite fs_read_fst. cbn [files]. rewrite upd_same.
      apply corrupt_any_byte; assumption.
    Qed.
  End Corrupt.

  (** * The stream reader on ANY base stream (faults included) *)
  Lemma raw_reader_spec km st :
    fst (raw_reader key open hash km st)
    = if s_fail st || s_close_err st then Err else decrypt Raw km (s_data st).
  Proof.
    unfold Enc.raw_reader, read_all, close. destruct st as [d f ce k]; cbn [s_fail s_close_err s_data].
    destruct f; cbn [orb]; [reflexivity|]. destruct ce; reflexivity.
  Qed.

  Lemma decrypt_reader_spec c km st :
    fst (decrypt_reader c km st)
    = if s_fail st || s_close_err st then Err else decrypt c km (s_data st).
  Proof.
    destruct c; [apply raw_reader_spec|].
    cbn [Enc.decrypt_reader Enc.decrypt]. unfold Enc.ext_reader, read_full, TAG_SIZE.
    destruct (Nat.ltb_spec (length (s_data st)) 4) as [L|L].
    - rewrite (ext_decrypt_short key seal) by assumption. destruct (_ || _); reflexivity.
    - destruct st as [d f ce k]. cbn [s_data s_fail s_close_err s_closes] in *.
      destruct d as [|b0 [|b1 [|b2 [|b3 r]]]]; cbn [length] in L; try lia.
      rewrite ext_decrypt_cons. cbn [firstn skipn le32].
      destruct (known_cipher _).
      + rewrite raw_reader_spec. reflexivity.
      + destruct (_ || _); reflexivity.
  Qed.

  Lemma faulty_stream_err c km st :
    s_fail st = true \/ s_close_err st = true -> fst (decrypt_reader c km st) = Err.
  Proof.
    intros F. rewrite decrypt_reader_spec.
    destruct F as [-> | ->]; [reflexivity|]. rewrite orb_true_r. reflexivity.
  Qed.
End More.

(** * Host binding is void when the host id is empty (as idutil.HostID() is today) *)
Lemma host_binding_void key seal open (hash : bytes -> key) :
  aead_correct seal open ->
  forall rp c s1 s2 n st p w,
    length n = NONCE_SIZE -> secret s1 = secret s2 -> salt s1 = salt s2 ->
    fst (fs_read key open hash [] rp c s2 (fs_write key seal hash [] c s1 n st p w) p) = Ok (wreq_data w).
Proof.
  intros H1 rp c s1 s2 n st p w L SE SA.
  rewrite fs_read_after_write, <- (keymat_host_empty s1 s2) by assumption.
  apply roundtrip_stored; assumption.
Qed.

(** * The toy AEAD satisfies H6 *)
Lemma sum_from_acc (l : bytes) a : fold_left N.add l a = a + fold_left N.add l 0.
Proof.
  revert a; induction l as [|x l IH]; intros a; cbn [fold_left]; [lia|].
  rewrite IH, (IH (0 + x)). lia.
Qed.

Lemma sum_set_nth i b (l : bytes) :
  (i < length l)%nat -> fold_left N.add (set_nth i b l) 0 + nth i l 0 = fold_left N.add l 0 + b.
Proof.
  revert i; induction l as [|x l IH]; intros i L; cbn [length] in L; [lia|].
  destruct i as [|i].
  - unfold set_nth. cbn [firstn skipn app nth fold_left].
    rewrite (sum_from_acc l (0 + b)), (sum_from_acc l (0 + x)). lia.
  - assert (Li : (i < length l)%nat) by lia. specialize (IH i Li).
    change (set_nth (S i) b (x :: l)) with (x :: set_nth i b l).
    cbn [nth fold_left]. rewrite (sum_from_acc (set_nth i b l) (0 + x)), (sum_from_acc l (0 + x)). lia.
Qed.

Lemma toy_H6 : aead_dist2 toy_seal.
Proof.
  intros k n p p' i b I B E.
  assert (LP : length p = length p').
  { apply (f_equal (@length byte)) in E. rewrite set_nth_length in E by assumption.
    rewrite !toy_H4 in E. lia. }
  unfold toy_seal in *. rewrite app_length, toy_mac_len in I.
  destruct (Nat.lt_ge_cases i (length p)) as [A|A].
  - rewrite set_nth_app_l in E by assumption. rewrite nth_app_l_bytes in B by assumption.
    apply app_eq_len in E as [E1 E2]; [|rewrite set_nth_length; assumption].
    unfold toy_mac in E2. injection E2 as E2. apply app_inv_head in E2. injection E2 as E2 _.
    pose proof (sum_set_nth i b p A) as S. rewrite E1, <- E2 in S. apply B. lia.
  - rewrite set_nth_app_r in E by assumption. rewrite nth_app_r_bytes in B by assumption.
    apply app_eq_len in E as [E1 E2]; [|assumption]. subst p'.
    revert E2. apply set_nth_neq; [rewrite toy_mac_len; lia|assumption].
Qed.

(** * The no-forgery premise of the truncation theorem cannot be dropped
    A plaintext that ends in the 16 bytes which the primitive appends to its own front part: the
    stored value cut after those bytes IS a stored value (of the front part).  True of every
    AEAD whose ciphertext is a prefix-preserving image of the plaintext (the toy one here, and
    every counter-mode AEAD such as AES-GCM for a plaintext computed from key and nonce). *)
Definition trunc_n : nonce := [1; 2; 3; 4; 5; 6; 7; 8; 9; 10; 11; 12].
Definition trunc_km : bytes := [107].
Definition trunc_front : bytes := [104; 105].
Definition trunc_p : bytes := trunc_front ++ toy_mac (toy_hash trunc_km) trunc_n trunc_front.

Lemma trunc_refuted_witness :
  forall rp c,
    let s := encrypt N toy_seal toy_hash c trunc_km trunc_n trunc_p in
    let m := (length (header c) + NONCE_SIZE + length trunc_front + OVERHEAD)%nat in
    (m < length s)%nat /\ trunc_front <> trunc_p /\
    read_stored N toy_open toy_hash rp c trunc_km (firstn m s) = Ok trunc_front.
Proof. intros [|] [|]; vm_compute; (split; [repeat constructor|split; [discriminate|reflexivity]]). Qed.

Lemma trunc_unconditional_refuted :
  ~ (forall key seal open (hash : bytes -> key),
       aead_correct seal open -> aead_ideal seal open -> aead_len seal -> aead_separated seal open -> aead_dist2 seal ->
       forall rp c km n p m, length n = NONCE_SIZE -> (m < length (encrypt key seal hash c km n p))%nat ->
         read_stored key open hash rp c km (firstn m (encrypt key seal hash c km n p)) = Err).
Proof.
  intros F.
  destruct (trunc_refuted_witness RFile Tagged) as (M & _ & R). cbv zeta in *.
  rewrite (F N toy_seal toy_open toy_hash toy_H1 toy_H2 toy_H4 toy_H5 toy_H6 RFile Tagged trunc_km trunc_n trunc_p _ eq_refl M) in R.
  discriminate R.
Qed.

(** * Secrecy is not a consequence of H1, H2, H4, H5, H6: the toy AEAD meets them and stores the
      plaintext in the clear.  (Why the secrecy clause stays with the oracles on the real AES-GCM.) *)
Lemma secrecy_not_implied :
  aead_correct toy_seal toy_open /\ aead_ideal toy_seal toy_open /\ aead_len toy_seal /\
  aead_separated toy_seal toy_open /\ aead_dist2 toy_seal /\
  forall c km n w, exists a b, store N toy_seal toy_hash c km n w = a ++ wreq_data w ++ b.
Proof.
  refine (conj toy_H1 (conj toy_H2 (conj toy_H4 (conj toy_H5 (conj toy_H6 _))))).
  intros c km n w. rewrite store_structure. unfold toy_seal.
  exists (header c ++ n), (toy_mac (toy_hash km) n (wreq_data w)). rewrite <- !app_assoc. reflexivity.
Qed.

(** * Statements freed of the section variable [seal] that they do not mention. *)
Lemma decrypt_reader_spec_c key open (hash : bytes -> key) c km st :
  fst (decrypt_reader key open hash c km st)
  = if s_fail st || s_close_err st then Err else decrypt key open hash c km (s_data st).
Proof. exact (decrypt_reader_spec key nil_seal open hash c km st). Qed.

Lemma faulty_stream_err_c key open (hash : bytes -> key) c km st :
  s_fail st = true \/ s_close_err st = true -> fst (decrypt_reader key open hash c km st) = Err.
Proof. exact (faulty_stream_err key nil_seal open hash c km st). Qed.
