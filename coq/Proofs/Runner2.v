(** Proofs about the runner model, part 2: the C14 statements. *)
From Coq Require Import Lia ZifyBool ZifyNat ZifyN.
From GC Require Import Common.Base Model.Runner Proofs.Runner.
Local Open Scope nat_scope.

Lemma NoDup_snoc {A} (l : list A) (x : A) : NoDup l -> ~ In x l -> NoDup (l ++ [x]).
Proof.
  induction l as [|y r IH]; simpl; intros Hnd Hx.
  - constructor; [intros [] | constructor].
  - inversion Hnd as [|? ? Hy Hr]; subst. constructor.
    + intro H. apply in_app_or in H as [H|[H|[]]]; [auto | subst; apply Hx; left; reflexivity].
    + apply IH; [assumption | intro H; apply Hx; right; assumption].
Qed.

(** * Immutable parts of a task; BodyBegin events carry the task's own wait list *)

Definition same_static (t t' : task) : Prop :=
  t_name t' = t_name t /\ t_waits t' = t_waits t /\ t_body t' = t_body t /\ t_ctx t' = t_ctx t.

Lemma T_upd_static s s' m st n t :
  tasks s' = upd m st (tasks s) -> T s n t -> exists t', T s' n t' /\ same_static t t'.
Proof.
  intros Ht HT. unfold T. rewrite Ht. destruct (N.eq_dec n m) as [->|Hne].
  - exists (set_status st t). split; [apply find_upd_same; assumption | repeat split].
  - exists t. split; [rewrite find_upd_other; assumption | repeat split].
Qed.

Lemma tr_static ext s s' n t : tr ext s s' -> T s n t -> exists t', T s' n t' /\ same_static t t'.
Proof.
  intros Htr HT.
  assert (U : forall m st x, tasks x = tasks s -> tasks s' = upd m st (tasks x) ->
                             exists t', T s' n t' /\ same_static t t').
  { intros m st x Hx Hs'. rewrite Hx in Hs'. eapply T_upd_static; eauto. }
  destruct Htr.
  - exists t. split; [exact HT | repeat split].
  - exists t. split; [unfold T; simpl; apply find_app_some; exact HT | repeat split].
  - exists t. split; [unfold T; rewrite fail_ctx_tasks; exact HT | repeat split].
  - eapply (U n0 _ s); reflexivity.
  - eapply (U n0 _ (fail_ctx (t_ctx t0) s)); [apply fail_ctx_tasks | reflexivity].
  - eapply (U n0 _ s); reflexivity.
  - eapply (U n0 _ s); reflexivity.
  - eapply (U n0 _ s); reflexivity.
  - eapply (U n0 _ s); reflexivity.
  - eapply (U n0 _ s); reflexivity.
  - eapply (U n0 _ s); reflexivity.
  - eapply (U n0 _ (fail_ctx (t_ctx t0) s)); [apply fail_ctx_tasks | reflexivity].
  - eapply (U n0 _ s); reflexivity.
Qed.

Definition BBW (s : state) : Prop :=
  forall n ws, In (EBodyBegin n ws) (log s) -> exists t, T s n t /\ t_waits t = ws.

Lemma tr_BBW ext s s' : BBW s -> tr ext s s' -> BBW s'.
Proof.
  intros HB Htr n' ws Hin.
  assert (Hold : In (EBodyBegin n' ws) (log s) -> exists t, T s' n' t /\ t_waits t = ws).
  { intro Ho. destruct (HB _ _ Ho) as [t0 [HT0 Hw]].
    destruct (tr_static _ _ _ _ _ Htr HT0) as [t' [HT' (_ & Hw' & _)]]. exists t'. split; [assumption|congruence]. }
  destruct Htr; simpl in Hin; rewrite ?fail_ctx_log in Hin; auto;
    try (destruct Hin as [Hin|Hin]; [try discriminate|auto]).
  inversion Hin; subst. exists (set_status (Running 0 PBefore) t). split; [|reflexivity].
  unfold T; simpl. apply find_upd_same. assumption.
Qed.

Lemma BBW_run root sched : BBW (run false sched (init root)).
Proof. apply run_inv; [apply tr_BBW | intros n ws []]. Qed.

(** * The C14 safety statements *)

Lemma hist_app P a e b : hist P (a ++ e :: b) -> P e b.
Proof. induction a as [|x a IH]; simpl; intros [H1 H2]; auto. Qed.

Lemma after_prereqs root sched a n ws b :
  log (run false sched (init root)) = a ++ EBodyBegin n ws :: b ->
  (exists t, T (run false sched (init root)) n t /\ t_waits t = ws) /\
  forall u, In u ws -> In (EFinished u true) b.
Proof.
  intro E. split.
  - apply BBW_run. rewrite E. apply in_or_app. right. left. reflexivity.
  - pose proof (inv_hbb _ (Inv_run root sched)) as H. rewrite E in H. apply hist_app in H.
    intros u Hu. eapply H; eauto.
Qed.

Lemma failed_prereq root sched n t u :
  let s := run false sched (init root) in
  T s n t -> In u (t_waits t) -> In (EFinished u false) (log s) ->
  (forall ws, ~ In (EBodyBegin n ws) (log s)) /\ (forall i, ~ In (ECmdBegin n i) (log s))
  /\ (forall ok, t_st t = Finished ok -> ok = false).
Proof.
  intros s HT Hu Hf. pose proof (Inv_run root sched) as HI. fold s in HI.
  assert (Hno : forall ws, ~ In (EBodyBegin n ws) (log s)).
  { intros ws Hb. destruct (BBW_run root sched _ _ Hb) as [t' [HT' Hw]]. fold s in HT'.
    unfold T in *. rewrite HT in HT'. inversion HT'; subst t'.
    apply in_split in Hb as (a & b & E).
    pose proof (inv_hbb _ HI) as H. rewrite E in H. apply hist_app in H.
    assert (Ht : In (EFinished u true) (log s)).
    { rewrite E. apply in_or_app. right. right. eapply H; eauto. rewrite <- Hw. assumption. }
    destruct (inv_fin _ HI _ _ Ht) as [t1 [H1 H1']]. destruct (inv_fin _ HI _ _ Hf) as [t2 [H2 H2']].
    unfold T in *. rewrite H1 in H2. inversion H2; subst. congruence. }
  split; [assumption|]. pose proof (inv_tasks _ HI _ _ HT) as [Hn Hti]. split.
  - intros i Hi. destruct (t_st t) as [k | pc ph | | ok |].
    + destruct Hti as [_ Hnc]. eapply Hnc; [exact Hi | reflexivity].
    + destruct Hti as [Hb _]. eapply Hno; eauto.
    + destruct Hti as [_ [Hb|Hnc]]; [eapply Hno; eauto | eapply Hnc; [exact Hi | reflexivity]].
    + destruct Hti as (_ & _ & _ & [Hb|Hnc]); [eapply Hno; eauto | eapply Hnc; [exact Hi | reflexivity]].
    + contradiction.
  - intros ok Hst. destruct ok; [|reflexivity]. rewrite Hst in Hti. destruct Hti as (_ & _ & Hb & _).
    exfalso. eapply Hno. apply Hb. reflexivity.
Qed.

Lemma sequential_body root sched a n j b :
  log (run false sched (init root)) = a ++ ECmdBegin n j :: b ->
  (forall i, i < j -> In (ECmdBegin n i) b /\ In (ECmdEnd n i true) b) /\
  (forall i, In (ECmdBegin n i) b -> i < j) /\
  (forall i, ~ In (ECmdEnd n i false) b).
Proof.
  intro E. pose proof (inv_hseq _ (Inv_run root sched)) as H. rewrite E in H.
  apply hist_app in H. apply H. reflexivity.
Qed.

Lemma cmd_after_bodybegin root sched n j :
  let s := run false sched (init root) in
  In (ECmdBegin n j) (log s) -> exists t, T s n t /\ In (EBodyBegin n (t_waits t)) (log s).
Proof.
  intros s Hin. pose proof (Inv_run root sched) as HI. fold s in HI.
  assert (R : registered n (tasks s) = true) by (apply (inv_evreg _ HI _ Hin); reflexivity).
  apply registered_find in R as [t HT]. exists t. split; [assumption|].
  pose proof (inv_tasks _ HI _ _ HT) as [Hn Hti].
  destruct (t_st t) as [k | pc ph | | ok |].
  - destruct Hti as [_ Hnc]. exfalso. eapply Hnc; [exact Hin | reflexivity].
  - apply Hti.
  - destruct Hti as [_ [Hb|Hnc]]; [assumption | exfalso; eapply Hnc; [exact Hin | reflexivity]].
  - destruct Hti as (_ & _ & _ & [Hb|Hnc]); [assumption | exfalso; eapply Hnc; [exact Hin | reflexivity]].
  - contradiction.
Qed.

(** * Creation order: the wait relation is a DAG ordered by creation; names are unique; the
    manager counter counts the unfinished tasks *)

Definition ordered (ts : list task) : Prop :=
  forall a t b, ts = a ++ t :: b ->
    forall u, In u (t_waits t) -> registered u a = true /\ u <> t_name t.

Fixpoint unfinished (ts : list task) : nat :=
  match ts with [] => 0 | t :: r => (if is_finished (t_st t) then 0 else 1) + unfinished r end.

Record Inv2 (s : state) : Prop := {
  inv_ord : ordered (tasks s);
  inv_nodup : NoDup (map t_name (tasks s));
  inv_count : counter s = unfinished (tasks s) }.

Lemma create_accepted_waits sb c p s s' :
  create false sb c p s = (s', true) ->
  forall u, In u (s_waits sb) -> registered u (tasks s) = true /\ u <> s_name sb.
Proof.
  intros E u Hu. destruct (create_false_cases sb c p s) as [E'|(R & V & E')]; rewrite E' in E; [discriminate|].
  unfold valid_waits in V. rewrite forallb_forall in V. specialize (V u Hu).
  apply andb_true_iff in V as [V1 V2]. split; [assumption|].
  intro; subst. rewrite N.eqb_refl in V1. discriminate.
Qed.

Lemma ordered_upd n st ts : ordered ts -> ordered (upd n st ts).
Proof.
  intros Ho a t b E u Hu. unfold upd in E.
  apply map_eq_app in E as (a0 & r0 & E0 & Ea & Er).
  destruct r0 as [|t0 b0]; [discriminate|]. simpl in Er. inversion Er as [[Et Eb]].
  assert (Hs : t_waits t = t_waits t0 /\ t_name t = t_name t0).
  { rewrite <- Et. destruct (N.eqb (t_name t0) n); split; reflexivity. }
  destruct Hs as [Hw Hn]. rewrite Hw in Hu. destruct (Ho _ _ _ E0 u Hu) as [H1 H2].
  split; [|congruence]. subst a. fold (upd n st a0). rewrite registered_upd. assumption.
Qed.

Lemma ordered_app ts x :
  ordered ts -> (forall u, In u (t_waits x) -> registered u ts = true /\ u <> t_name x) ->
  ordered (ts ++ [x]).
Proof.
  intros Ho Hx a t b E u Hu.
  destruct b as [|y b'] using rev_ind.
  - replace (a ++ [t]) with (a ++ [t]) in E by reflexivity.
    apply app_inj_tail in E as [-> ->]. auto.
  - clear IHb'. rewrite app_comm_cons, app_assoc in E. apply app_inj_tail in E as [E ->].
    eapply Ho; eauto.
Qed.

Lemma unfinished_app ts x : unfinished (ts ++ [x]) = unfinished ts + (if is_finished (t_st x) then 0 else 1).
Proof. induction ts as [|y r IH]; simpl; [lia | rewrite IH; lia]. Qed.

Lemma unfinished_upd n st ts t :
  NoDup (map t_name ts) -> find_task n ts = Some t ->
  unfinished (upd n st ts) + (if is_finished (t_st t) then 0 else 1)
  = unfinished ts + (if is_finished st then 0 else 1).
Proof.
  unfold find_task, upd. induction ts as [|x r IH]; simpl; [discriminate|].
  intros Hnd. inversion Hnd as [|? ? Hni Hnd']; subst.
  destruct (N.eqb (t_name x) n) eqn:E.
  - intro H; inversion H; subst x. simpl.
    assert (Hr : map (fun t0 => if N.eqb (t_name t0) n then set_status st t0 else t0) r = r).
    { apply N.eqb_eq in E. clear -Hni E. induction r as [|y r IH]; simpl; [reflexivity|].
      destruct (N.eqb (t_name y) n) eqn:E2.
      - apply N.eqb_eq in E2. exfalso. apply Hni. left. congruence.
      - f_equal. apply IH. intro H. apply Hni. right. assumption. }
    rewrite Hr. lia.
  - intro H. specialize (IH Hnd' H). lia.
Qed.

Lemma tr_inv2 ext s s' : Inv2 s -> tr ext s s' -> Inv2 s'.
Proof.
  intros [Ho Hn Hc] Htr.
  assert (Hact : forall n t st k,
             T s n t -> tasks s' = upd n st (tasks s) ->
             k + (if is_finished (t_st t) then 0 else 1) = counter s + (if is_finished st then 0 else 1) ->
             counter s' = k -> Inv2 s').
  { intros n t st k HT Ht Hk Hc'. split.
    - rewrite Ht. apply ordered_upd. assumption.
    - rewrite Ht, names_upd. assumption.
    - rewrite Ht, Hc'. pose proof (unfinished_upd n st _ _ Hn HT). lia. }
  destruct Htr;
    try (eapply (Hact n t _ (counter s)); [eassumption | simpl; rewrite ?fail_ctx_tasks; reflexivity
                                           | rewrite ?H0; simpl; lia | simpl; rewrite ?fail_ctx_counter; reflexivity]).
  - split; assumption.
  - split; simpl.
    + apply ordered_app; [assumption|]. simpl. intros u Hu.
      unfold valid_waits in H0. rewrite forallb_forall in H0. specialize (H0 u Hu).
      apply andb_true_iff in H0 as [V1 V2]. split; [assumption|].
      intro; subst. rewrite N.eqb_refl in V1. discriminate.
    + rewrite map_app. simpl. apply NoDup_snoc; [assumption|].
      intro Hin. apply registered_in in Hin. simpl in Hin. congruence.
    + rewrite unfinished_app. simpl. lia.
  - split; rewrite ?fail_ctx_tasks, ?fail_ctx_counter; assumption.
  - (* finish *)
    eapply (Hact n t _ (pred (counter s))); [eassumption | reflexivity | | reflexivity].
    rewrite H0. simpl.
    assert (counter s > 0).
    { rewrite Hc. pose proof (find_task_some _ _ _ H) as [_ Hin]. clear -Hin H0.
      induction (tasks s) as [|x r IH]; simpl in *; [tauto|]. destruct Hin as [->|Hin].
      - rewrite H0. simpl. lia.
      - specialize (IH Hin). lia. }
    lia.
Qed.

Lemma Inv2_run root sched : Inv2 (run false sched (init root)).
Proof. apply run_inv; [apply tr_inv2 | split; simpl; [intros [|] ? ? E; discriminate | constructor | reflexivity]]. Qed.

Lemma unfinished_zero ts : unfinished ts = 0 <-> forallb (fun t => is_finished (t_st t)) ts = true.
Proof.
  induction ts as [|x r IH]; simpl; [tauto|]. destruct (is_finished (t_st x)); simpl; [exact IH|].
  split; [lia | discriminate].
Qed.

(** TaskManager.Wait: enabled iff every registered task finished; it reports an error iff some
    registered task has errors. *)
Lemma manager_wait root sched :
  let s := run false sched (init root) in
  (mgr_wait s <> None <-> all_finished s = true) /\
  (forall r, mgr_wait s = Some r ->
     (r = true <-> exists t, In t (tasks s) /\ task_has_errors s t = true)).
Proof.
  intros s. pose proof (Inv2_run root sched) as [_ _ Hc]. fold s in Hc. unfold mgr_wait. split.
  - split.
    + destruct (Nat.eqb (counter s) 0 && all_finished s) eqn:E; [|congruence].
      intros _. apply andb_true_iff in E. apply E.
    + intro Ha. assert (counter s = 0) by (rewrite Hc; apply unfinished_zero; exact Ha).
      rewrite H, Ha. simpl. discriminate.
  - intros r. destruct (Nat.eqb (counter s) 0 && all_finished s); [|discriminate].
    intro E; inversion E; subst. rewrite existsb_exists. tauto.
Qed.

(** Closed world (no error appended from outside): a context has an error only because a task
    running in it failed. *)
Definition no_ext_fail (sched : list label) : Prop :=
  forall l, In l sched -> match l with LFailCtx _ => False | _ => True end.

Definition CulpritX (X : ctxid -> Prop) (s : state) : Prop :=
  forall c, ctx_failed c s = true ->
    (exists t, In t (tasks s) /\ t_ctx t = c /\ (t_st t = Closing \/ t_st t = Finished false)) \/ X c.
Definition Culprit (s : state) : Prop := CulpritX (fun _ => False) s.

Lemma in_upd_intro n st ts t :
  find_task n ts = Some t -> In (set_status st t) (upd n st ts).
Proof.
  intro H. apply find_task_some in H as [Hn Hin]. unfold upd. apply in_map_iff. exists t.
  rewrite Hn, N.eqb_refl. auto.
Qed.

Lemma in_upd_keep n st ts t :
  In t ts -> (t_st t = Closing \/ t_st t = Finished false) ->
  (st = Closing \/ st = Finished false) ->
  exists t', In t' (upd n st ts) /\ t_ctx t' = t_ctx t /\ (t_st t' = Closing \/ t_st t' = Finished false).
Proof.
  intros Hin Hs Hst. destruct (N.eqb (t_name t) n) eqn:E.
  - exists (set_status st t). split; [|split; [reflexivity | exact Hst]].
    unfold upd. apply in_map_iff. exists t. rewrite E. auto.
  - exists t. split; [|auto]. unfold upd. apply in_map_iff. exists t. rewrite E. auto.
Qed.

Lemma culprit_other s n t st :
  Inv s -> Inv2 s -> T s n t -> is_finished (t_st t) = false -> t_st t <> Closing ->
  forall t0, In t0 (tasks s) -> (t_st t0 = Closing \/ t_st t0 = Finished false) ->
  In t0 (upd n st (tasks s)).
Proof.
  intros HI HI2 HT Hnf Hnc t0 Hin Hs. unfold upd. apply in_map_iff. exists t0. split; [|assumption].
  destruct (N.eqb (t_name t0) n) eqn:E; [|reflexivity]. apply N.eqb_eq in E.
  pose proof (in_find _ _ _ (inv_nodup _ HI2) Hin E) as F. unfold T in HT. rewrite HT in F. inversion F; subst.
  destruct Hs as [Hs|Hs]; rewrite Hs in *; [congruence | discriminate].
Qed.

Lemma run_inv_closed (I : state -> Prop) :
  (forall s s', I s -> tr false s s' -> I s') ->
  forall sched s, no_ext_fail sched -> I s -> I (run false sched s).
Proof.
  intros Hpres sched. induction sched as [|l r IH]; intros s Hc Hs; simpl; [assumption|].
  apply IH; [intros l' Hl'; apply Hc; right; assumption|].
  unfold step_skip. destruct (step false l s) as [s'|] eqn:E; [|assumption].
  apply (step_tr_gen false) in E.
  - destruct E as [E | s1 E1 E2]; eauto.
  - specialize (Hc l (or_introl eq_refl)). destruct l; auto; contradiction.
Qed.

Definition Inv3X (X : ctxid -> Prop) (s : state) : Prop := Inv s /\ Inv2 s /\ CulpritX X s.
Definition Inv3 (s : state) : Prop := Inv3X (fun _ => False) s.

Lemma culprit_act X s s' n t st :
  Inv3X X s -> T s n t -> is_finished (t_st t) = false ->
  tasks s' = upd n st (tasks s) ->
  (forall c, ctx_failed c s' = true -> ctx_failed c s = true \/ (c = t_ctx t /\ st = Closing)) ->
  (t_st t = Closing -> ctx_failed (t_ctx t) s = true -> st = Finished false \/ st = Closing) ->
  CulpritX X s'.
Proof.
  intros (HI & HI2 & HC) HT Hnf Ht Hnew Hcl c Hc.
  destruct (Hnew c Hc) as [Hold | [-> ->]].
  - destruct (HC c Hold) as [[t0 (Hin & Hctx & Hs)] | HX]; [|right; exact HX]. left.
    destruct (N.eqb (t_name t0) n) eqn:E.
    + apply N.eqb_eq in E. pose proof (in_find _ _ _ (inv_nodup _ HI2) Hin E) as F.
      unfold T in HT. rewrite HT in F. inversion F; subst t0.
      destruct Hs as [Hs|Hs]; [|rewrite Hs in Hnf; discriminate].
      exists (set_status st t). split; [rewrite Ht; apply in_upd_intro; assumption|].
      split; [assumption|]. simpl. subst c. destruct (Hcl Hs Hold); auto.
    + exists t0. split; [|auto]. rewrite Ht. unfold upd. apply in_map_iff. exists t0. rewrite E. auto.
  - left. exists (set_status Closing t). split; [rewrite Ht; apply in_upd_intro; assumption|].
    split; [reflexivity|]. left. reflexivity.
Qed.

Lemma tr_inv3X X s s' : Inv3X X s -> tr false s s' -> Inv3X X s'.
Proof.
  intros H3 Htr. pose proof H3 as (HI & HI2 & HC).
  split; [eapply tr_inv; eauto|]. split; [eapply tr_inv2; eauto|].
  destruct Htr.
  - intros c Hc. destruct (HC c Hc) as [[t0 (A & B & C)]|HX]; [left; exists t0; auto | right; exact HX].
  - intros c0 Hc. destruct (HC c0 Hc) as [[t0 (A & B & C)]|HX]; [left; exists t0; simpl; split; [apply in_or_app; auto|auto] | right; exact HX].
  - discriminate.
  - eapply (culprit_act X s _ n t (Waiting (S i))); [exact H3 | eassumption | rewrite H0; reflexivity | reflexivity | auto | rewrite H0; discriminate].
  - eapply (culprit_act X s _ n t Closing); [exact H3 | eassumption | rewrite H0; reflexivity
        | simpl; rewrite fail_ctx_tasks; reflexivity | | rewrite H0; discriminate].
    intros c0 Hc. rewrite cf_set_st in Hc. apply ctx_failed_fail_inv in Hc as [->|Hc]; auto.
  - eapply (culprit_act X s _ n t (Running 0 PBefore)); [exact H3 | eassumption | rewrite H0; reflexivity | reflexivity | auto | rewrite H0; discriminate].
  - eapply (culprit_act X s _ n t Closing); [exact H3 | eassumption | rewrite H0; reflexivity | reflexivity | auto | rewrite H0; discriminate].
  - eapply (culprit_act X s _ n t (Running pc PIn)); [exact H3 | eassumption | rewrite H0; reflexivity | reflexivity | auto | rewrite H0; discriminate].
  - eapply (culprit_act X s _ n t (Running pc ph)); [exact H3 | eassumption | rewrite H0; reflexivity | reflexivity | auto | rewrite H0; discriminate].
  - eapply (culprit_act X s _ n t (Running (S pc) PBefore)); [exact H3 | eassumption | rewrite H0; reflexivity | reflexivity | auto | rewrite H0; discriminate].
  - eapply (culprit_act X s _ n t Closing); [exact H3 | eassumption | rewrite H0; reflexivity | reflexivity | auto | rewrite H0; discriminate].
  - eapply (culprit_act X s _ n t Closing); [exact H3 | eassumption | rewrite H0; reflexivity
        | simpl; rewrite fail_ctx_tasks; reflexivity | | rewrite H0; discriminate].
    intros c0 Hc. rewrite cf_emit, cf_set_st in Hc. apply ctx_failed_fail_inv in Hc as [->|Hc]; auto.
  - eapply (culprit_act X s _ n t (Finished (negb (ctx_failed (t_ctx t) s)))); [exact H3 | eassumption | rewrite H0; reflexivity | reflexivity | auto | ].
    intros _ Hc. rewrite Hc. left. reflexivity.
Qed.

Lemma tr_inv3 s s' : Inv3 s -> tr false s s' -> Inv3 s'.
Proof. apply tr_inv3X. Qed.

Lemma Inv3_run root sched : no_ext_fail sched -> Inv3 (run false sched (init root)).
Proof.
  intro Hc. apply run_inv_closed; [apply tr_inv3 | assumption |].
  split; [apply Inv_init|]. split.
  - split; simpl; [intros [|] ? ? E; discriminate | constructor | reflexivity].
  - intros c H. discriminate.
Qed.

(** Closed world: the manager reports an error iff some task finished failed. *)
Lemma manager_wait_closed root sched r :
  no_ext_fail sched ->
  let s := run false sched (init root) in
  mgr_wait s = Some r ->
  (r = true <-> exists t, In t (tasks s) /\ t_st t = Finished false).
Proof.
  intros Hc s Hw. pose proof (Inv3_run root sched Hc) as (HI & HI2 & HC). fold s in HI, HI2, HC.
  pose proof (manager_wait root sched) as [H1 H2]. fold s in H1, H2.
  assert (Ha : all_finished s = true) by (apply H1; congruence).
  rewrite (H2 r Hw). split.
  - intros [t [Hin He]]. destruct (HC _ He) as [[t0 (A & B & [C|C])]|[]]; [|eauto].
    unfold all_finished in Ha. rewrite forallb_forall in Ha. specialize (Ha _ A). rewrite C in Ha. discriminate.
  - intros [t [Hin Hs]]. exists t. split; [assumption|].
    pose proof (in_find _ _ _ (inv_nodup _ HI2) Hin eq_refl) as F.
    pose proof (inv_tasks _ HI _ _ F) as [_ Hti]. rewrite Hs in Hti. apply Hti. reflexivity.
Qed.

(** * F21: with [register_before_validate] a rejected submission stays registered for ever *)

Lemma create_find_stable q sb c p s m tm :
  find_task m (tasks s) = Some tm -> find_task m (tasks (fst (create q sb c p s))) = Some tm.
Proof.
  intro H. unfold create. destruct (registered (s_name sb) (tasks s)); [exact H|].
  destruct (_ && _ && _); simpl; [apply find_app_some; exact H|].
  destruct q; simpl; [apply find_app_some; exact H | exact H].
Qed.

Lemma task_step_find_stable q t s s' m tm :
  task_step q t s = Some s' -> m <> t_name t ->
  find_task m (tasks s) = Some tm -> find_task m (tasks s') = Some tm.
Proof.
  intros Hs Hne Hf. unfold task_step in Hs.
  repeat match type of Hs with
         | match ?x with _ => _ end = Some _ => destruct x eqn:?; try discriminate
         | (let (_, _) := ?x in _) = Some _ => destruct x eqn:?
         | (if ?x then _ else _) = Some _ => destruct x eqn:?; try discriminate
         end;
    inversion Hs; subst; simpl; rewrite ?find_upd_other, ?fail_ctx_tasks by assumption; try assumption.
  match goal with
  | H : create _ ?sb ?c ?p s = (?s1, _) |- _ =>
    replace s1 with (fst (create q sb c p s)) by (rewrite H; reflexivity)
  end.
  apply create_find_stable. assumption.
Qed.

Definition HasZombie (z : name) (s : state) : Prop :=
  exists tz, find_task z (tasks s) = Some tz /\ t_st tz = Zombie.

Lemma zombie_step q z l s : HasZombie z s -> HasZombie z (step_skip q s l).
Proof.
  intros [tz [Hf Hz]]. unfold step_skip. destruct (step q l s) as [s'|] eqn:E; [|exists tz; auto].
  exists tz. split; [|assumption]. destruct l as [sb c | n | n | c]; simpl in E.
  - inversion E; subst. apply create_find_stable. assumption.
  - destruct (find_task n (tasks s)) as [t|] eqn:En; [|discriminate].
    pose proof (find_task_some _ _ _ En) as [Hn _].
    destruct (N.eq_dec z n) as [->|Hne].
    + rewrite Hf in En. inversion En; subst t. unfold task_step in E. rewrite Hz in E. discriminate.
    + eapply task_step_find_stable; eauto. congruence.
  - destruct (find_task n (tasks s)) as [t|] eqn:En; [|discriminate].
    destruct (N.eq_dec z n) as [->|Hne].
    + rewrite Hf in En. inversion En; subst t. rewrite Hz in E. discriminate.
    + destruct (t_st t) as [| pc [| | |] | | |]; try discriminate.
      destruct (ctx_failed (t_ctx t) s); [|discriminate]. inversion E; subst. simpl.
      rewrite find_upd_other; assumption.
  - inversion E; subst. rewrite fail_ctx_tasks. assumption.
Qed.

Lemma zombie_run q z sched s : HasZombie z s -> HasZombie z (run q sched s).
Proof.
  revert s. induction sched as [|l r IH]; intros s H; simpl; [assumption|].
  apply IH. apply zombie_step. assumption.
Qed.

Lemma zombie_blocks_manager z s : HasZombie z s -> mgr_wait s = None.
Proof.
  intros [tz [Hf Hz]]. unfold mgr_wait.
  assert (all_finished s = false).
  { apply find_task_some in Hf as [_ Hin]. unfold all_finished.
    destruct (forallb _ (tasks s)) eqn:E; [|reflexivity].
    rewrite forallb_forall in E. specialize (E _ Hin). rewrite Hz in E. discriminate. }
  rewrite H, andb_false_r. reflexivity.
Qed.

Definition f21_sub : subm := {| s_name := 1%N; s_waits := [2%N]; s_body := [COk] |}.

Lemma F21_refuted :
  let s0 := run true [LCreate f21_sub 7%N] (init 0%N) in
  log s0 = [ESubmitted 1%N false]            (* the submission is rejected ... *)
  /\ registered 1%N (tasks s0) = true         (* ... but stays registered ... *)
  /\ counter s0 = 0
  /\ forall sched, mgr_wait (run true sched s0) = None   (* ... and Wait never returns. *)
  /\ registered 1%N (tasks (run true sched s0)) = true.
Proof.
  cbv zeta. split; [vm_compute; reflexivity|]. split; [vm_compute; reflexivity|].
  split; [vm_compute; reflexivity|]. intro sched.
  assert (HZ : HasZombie 1%N (run true [LCreate f21_sub 7%N] (init 0%N))).
  { eexists. split; vm_compute; reflexivity. }
  pose proof (zombie_run true _ sched _ HZ) as HZ'. split.
  - eapply zombie_blocks_manager; eauto.
  - destruct HZ' as [tz [Hf _]]. apply registered_find. eauto.
Qed.

(** With the repaired code the same submission leaves nothing behind. *)
Lemma F21_fixed :
  let s0 := run false [LCreate f21_sub 7%N] (init 0%N) in
  tasks s0 = [] /\ mgr_wait s0 = Some false.
Proof. split; vm_compute; reflexivity. Qed.

(** * Termination measure *)

Lemma inner_cost_eq b :
  (fix cost (l : list cmd) : nat := match l with [] => 0 | x :: r => cmd_cost x + cost r end) b = body_cost b.
Proof. induction b as [|x r IH]; simpl; [reflexivity | rewrite IH; reflexivity]. Qed.

Lemma cmd_cost_spawn nm ws b : cmd_cost (CSpawn nm ws b) = 4 + subm_cost ws b.
Proof. unfold subm_cost. simpl. rewrite inner_cost_eq. reflexivity. Qed.

Lemma cmd_cost_ge2 c : 2 <= cmd_cost c.
Proof. destruct c; simpl; lia. Qed.

Lemma body_cost_skipn b pc c :
  nth_error b pc = Some c -> body_cost (skipn pc b) = cmd_cost c + body_cost (skipn (S pc) b).
Proof.
  revert pc. induction b as [|x r IH]; intros [|pc]; simpl; try discriminate.
  - intro H; inversion H; subst. reflexivity.
  - intro H. apply IH in H. exact H.
Qed.

Lemma body_cost_skipn_none b pc : nth_error b pc = None -> body_cost (skipn pc b) = 0.
Proof. intro H. apply nth_error_None in H. rewrite skipn_all2 by assumption. reflexivity. Qed.

Lemma work_l_app ts x : work_l (ts ++ [x]) = work_l ts + task_work x.
Proof. induction ts as [|y r IH]; simpl; [lia | rewrite IH; lia]. Qed.

Lemma work_l_upd n st ts t :
  NoDup (map t_name ts) -> find_task n ts = Some t ->
  work_l (upd n st ts) + task_work t = work_l ts + task_work (set_status st t).
Proof.
  unfold find_task, upd. induction ts as [|x r IH]; simpl; [discriminate|].
  intros Hnd. inversion Hnd as [|? ? Hni Hnd']; subst.
  destruct (N.eqb (t_name x) n) eqn:E.
  - intro H; inversion H; subst x.
    assert (Hr : map (fun t0 => if N.eqb (t_name t0) n then set_status st t0 else t0) r = r).
    { apply N.eqb_eq in E. clear -Hni E. induction r as [|y r IH]; simpl; [reflexivity|].
      destruct (N.eqb (t_name y) n) eqn:E2.
      - apply N.eqb_eq in E2. exfalso. apply Hni. left. congruence.
      - f_equal. apply IH. intro H. apply Hni. right. assumption. }
    rewrite Hr. lia.
  - intro H. specialize (IH Hnd' H). lia.
Qed.

Lemma work_set_st s n st t :
  NoDup (map t_name (tasks s)) -> T s n t ->
  work (set_st n st s) + task_work t = work s + task_work (set_status st t).
Proof. intros. unfold work. simpl. apply work_l_upd; assumption. Qed.

Ltac tw := unfold task_work; cbn [set_status t_st t_waits t_body].

Lemma task_step_work t s s' :
  NoDup (map t_name (tasks s)) -> T s (t_name t) t ->
  task_step false t s = Some s' -> work s' < work s.
Proof.
  intros Hnd HT. set (n := t_name t) in *.
  assert (Wf : forall c x, work (set_st n x (fail_ctx c s)) + task_work t = work s + task_work (set_status x t)).
  { intros c x. unfold work. simpl. rewrite fail_ctx_tasks. apply work_l_upd; assumption. }
  assert (W : forall x, work (set_st n x s) + task_work t = work s + task_work (set_status x t)).
  { intros x. apply work_set_st; assumption. }
  unfold task_step. fold n.
  destruct (t_st t) as [i | pc ph | | ok |] eqn:Est; try discriminate.
  - destruct (nth_error (t_waits t) i) as [u|] eqn:Enth.
    + assert (i < length (t_waits t)) by (apply nth_error_Some; congruence).
      destruct (find_task u (tasks s)) as [tu|] eqn:Eu.
      * destruct (is_finished (t_st tu)); [|discriminate].
        destruct (ctx_failed (t_ctx tu) s); intro E; inversion E; subst.
        -- specialize (Wf (t_ctx t) Closing). revert Wf. tw. rewrite Est. lia.
        -- specialize (W (Waiting (S i))). revert W. tw. rewrite Est. lia.
      * intro E; inversion E; subst. specialize (Wf (t_ctx t) Closing). revert Wf. tw. rewrite Est. lia.
    + intro E; inversion E; subst. specialize (W (Running 0 PBefore)). revert W. tw. rewrite Est.
      change (skipn 0 (t_body t)) with (t_body t). change (work (emit _ ?x)) with (work x). lia.
  - destruct ph as [| | c |].
    + destruct (nth_error (t_body t) pc) eqn:Enth; intro E; inversion E; subst.
      * specialize (W (Running pc PIn)). revert W. tw. rewrite Est.
        change (work (emit _ ?x)) with (work x). lia.
      * specialize (W Closing). revert W. tw. rewrite Est. lia.
    + destruct (nth_error (t_body t) pc) as [[| | nm ws b]|] eqn:Enth; try discriminate.
      * pose proof (body_cost_skipn _ _ _ Enth) as B. cbn [cmd_cost] in B.
        destruct (ctx_failed (t_ctx t) s); intro E; inversion E; subst;
          change (work (emit _ ?x)) with (work x).
        -- specialize (W Closing). revert W. tw. rewrite Est. lia.
        -- specialize (W (Running (S pc) PBefore)). revert W. tw. rewrite Est. lia.
      * intro E; inversion E; subst. change (work (emit _ ?x)) with (work x).
        specialize (Wf (t_ctx t) Closing). revert Wf. tw. rewrite Est. lia.
      * pose proof (body_cost_skipn _ _ _ Enth) as B. rewrite cmd_cost_spawn in B.
        set (sb := {| s_name := nm; s_waits := ws; s_body := b |}).
        destruct (create_false_cases sb (t_ctx t) (Some n) s) as [Ec | (R & V & Ec)]; rewrite Ec.
        -- intro E; inversion E; subst. change (work (set_st n (Running pc PRejected) s) < work s).
           specialize (W (Running pc PRejected)). revert W. tw. rewrite Est. lia.
        -- intro E; inversion E; subst.
           set (nt := new_task sb (t_ctx t) (Some n) s).
           assert (Hnd' : NoDup (map t_name (tasks s ++ [nt]))).
           { rewrite map_app. simpl. apply NoDup_snoc; [assumption|].
             intro Hin. apply registered_in in Hin. simpl in Hin. unfold sb in R; simpl in R. congruence. }
           pose proof (work_l_upd n (Running pc (PSpawned nm)) _ t Hnd' (find_app_some _ _ nt _ HT)) as W'.
           unfold work. simpl. fold nt. rewrite work_l_app in W'. revert W'. tw. rewrite Est.
           unfold subm_cost in B. unfold nt, new_task, sb. cbn [t_st t_waits t_body s_waits s_body s_name]. lia.
    + destruct (find_task c (tasks s)) as [tc|]; [|discriminate].
      destruct (is_finished (t_st tc) || t_orphan tc); [|discriminate].
      destruct (ctx_failed (t_ctx t) s); intro E; inversion E; subst;
        change (work (emit _ ?x)) with (work x).
      * specialize (W Closing). revert W. tw. rewrite Est. lia.
      * specialize (W (Running (S pc) PBefore)). revert W. tw. rewrite Est. lia.
    + intro E; inversion E; subst. change (work (emit _ ?x)) with (work x).
      specialize (Wf (t_ctx t) Closing). revert Wf. tw. rewrite Est. lia.
  - intro E; inversion E; subst.
    change (work (emit _ (with_counter _ ?x))) with (work x).
    specialize (W (Finished (negb (ctx_failed (t_ctx t) s)))). revert W. tw. rewrite Est. lia.
Qed.

Definition runner_label (l : label) : bool :=
  match l with LTask _ | LAbort _ => true | _ => false end.

Lemma step_work l s s' :
  NoDup (map t_name (tasks s)) -> runner_label l = true ->
  step false l s = Some s' -> work s' < work s.
Proof.
  intros Hnd Hl. destruct l as [sb c | n | n | c]; try discriminate; simpl.
  - destruct (find_task n (tasks s)) as [t|] eqn:E; [|discriminate].
    pose proof (find_task_some _ _ _ E) as [Hn _]. intro H.
    eapply task_step_work; eauto. unfold T. rewrite Hn. exact E.
  - destruct (find_task n (tasks s)) as [t|] eqn:E; [|discriminate].
    destruct (t_st t) as [| pc [| | |] | | |] eqn:Est; try discriminate.
    destruct (ctx_failed (t_ctx t) s); [|discriminate]. intro H; inversion H; subst.
    pose proof (work_set_st s n Closing t Hnd E) as W. revert W. unfold task_work; simpl. rewrite Est. lia.
Qed.

Lemma create_work sb c p s :
  work (fst (create false sb c p s)) <= work s + subm_cost (s_waits sb) (s_body sb).
Proof.
  destruct (create_false_cases sb c p s) as [E | (_ & _ & E)]; rewrite E; simpl.
  - change (work (emit _ ?x)) with (work x). lia.
  - unfold work; simpl. rewrite work_l_app. unfold task_work, subm_cost; simpl. lia.
Qed.

(** Number of steps of a schedule that are not skipped. *)
Fixpoint effective (sched : list label) (s : state) : nat :=
  match sched with
  | [] => 0
  | l :: r => match step false l s with
              | Some s' => S (effective r s')
              | None => effective r s
              end
  end.

Lemma NoDup_step l s s' :
  NoDup (map t_name (tasks s)) -> step false l s = Some s' -> NoDup (map t_name (tasks s')).
Proof.
  intros Hnd E. apply step_tr in E.
  assert (P : forall x a b, NoDup (map t_name (tasks a)) -> tr x a b -> NoDup (map t_name (tasks b))).
  { clear. intros x a b Hnd Htr. destruct Htr; simpl; rewrite ?fail_ctx_tasks, ?names_upd; try assumption.
    rewrite map_app. simpl. apply NoDup_snoc; [assumption|].
    intro Hin. apply registered_in in Hin. simpl in Hin. congruence. }
  destruct E as [E | s1 E1 E2]; eauto.
Qed.

(** Bodies terminate: along any schedule of runner steps the number of executed steps is bounded
    by the remaining work, so every maximal run stops, and (no_deadlock) it stops only when every
    accepted task has finished. *)
Lemma runner_steps_bounded sched s :
  NoDup (map t_name (tasks s)) -> forallb runner_label sched = true ->
  effective sched s + work (run false sched s) <= work s.
Proof.
  revert s. induction sched as [|l r IH]; intros s Hnd Hl; simpl; [lia|].
  simpl in Hl. apply andb_true_iff in Hl as [Hl Hr]. unfold step_skip.
  destruct (step false l s) as [s'|] eqn:E.
  - pose proof (step_work _ _ _ Hnd Hl E). pose proof (IH s' (NoDup_step _ _ _ Hnd E) Hr). lia.
  - apply IH; assumption.
Qed.

(** * No deadlock (nested submissions with empty wait lists) *)

Fixpoint flat_cmd (c : cmd) : bool :=
  match c with
  | CSpawn _ ws b =>
    match ws with [] => true | _ => false end
    && (fix fl (l : list cmd) : bool := match l with [] => true | x :: r => flat_cmd x && fl r end) b
  | _ => true
  end.
Definition flat_body (b : list cmd) : bool := forallb flat_cmd b.
Definition flat_sched (sched : list label) : Prop :=
  forall sb c, In (LCreate sb c) sched -> flat_body (s_body sb) = true.

Lemma flat_inner b :
  (fix fl (l : list cmd) : bool := match l with [] => true | x :: r => flat_cmd x && fl r end) b = flat_body b.
Proof. induction b as [|x r IH]; simpl; [reflexivity | rewrite IH; reflexivity]. Qed.

Lemma flat_spawn b pc nm ws b' :
  flat_body b = true -> nth_error b pc = Some (CSpawn nm ws b') -> ws = [] /\ flat_body b' = true.
Proof.
  intros Hf Hn. apply nth_error_In in Hn. unfold flat_body in Hf. rewrite forallb_forall in Hf.
  specialize (Hf _ Hn). simpl in Hf. rewrite flat_inner in Hf. apply andb_true_iff in Hf as [H1 H2].
  destruct ws; [auto | discriminate].
Qed.

Record InvK (s : state) : Prop := {
  k_idx : forall t, In t (tasks s) -> t_idx t < length (tasks s);
  k_spawn : forall n t pc c, T s n t -> t_st t = Running pc (PSpawned c) ->
            exists tc, T s c tc /\ t_idx t < t_idx tc /\ t_waits tc = [];
  k_pin : forall n t pc, T s n t -> t_st t = Running pc PIn -> pc < length (t_body t);
  k_flat : forall t, In t (tasks s) -> flat_body (t_body t) = true }.

Lemma in_upd_inv n st ts t' :
  In t' (upd n st ts) -> exists t0, In t0 ts /\ (t' = t0 \/ (t' = set_status st t0 /\ t_name t0 = n)).
Proof.
  unfold upd. intro H. apply in_map_iff in H as [t0 [E Hin]]. exists t0. split; [assumption|].
  destruct (N.eqb (t_name t0) n) eqn:En; [apply N.eqb_eq in En|]; auto.
Qed.

Lemma upd_length n st ts : length (upd n st ts) = length ts.
Proof. unfold upd. apply map_length. Qed.

(** What a task step does to the task table. *)
Lemma task_step_shape t s s' :
  let n := t_name t in
  T s n t -> task_step false t s = Some s' ->
  (exists st, tasks s' = upd n st (tasks s)
              /\ (forall pc c, st <> Running pc (PSpawned c))
              /\ (forall pc, st = Running pc PIn -> pc < length (t_body t)))
  \/ (exists pc nm ws b, t_st t = Running pc PIn /\ nth_error (t_body t) pc = Some (CSpawn nm ws b)
        /\ registered nm (tasks s) = false
        /\ tasks s' = upd n (Running pc (PSpawned nm))
                          (tasks s ++ [new_task {| s_name := nm; s_waits := ws; s_body := b |} (t_ctx t) (Some n) s])).
Proof.
  intros n HT. unfold task_step. fold n.
  destruct (t_st t) as [i | pc ph | | ok |] eqn:Est; try discriminate.
  - destruct (nth_error (t_waits t) i) as [u|].
    + destruct (find_task u (tasks s)) as [tu|].
      * destruct (is_finished (t_st tu)); [|discriminate].
        destruct (ctx_failed (t_ctx tu) s); intro E; inversion E; subst; left; eexists; simpl;
          rewrite ?fail_ctx_tasks; (split; [reflexivity|split; intros; discriminate]).
      * intro E; inversion E; subst; left; eexists; simpl;
          rewrite ?fail_ctx_tasks; (split; [reflexivity|split; intros; discriminate]).
    + intro E; inversion E; subst; left; eexists; simpl; (split; [reflexivity|split; intros; discriminate]).
  - destruct ph as [| | c |].
    + destruct (nth_error (t_body t) pc) eqn:Enth; intro E; inversion E; subst; left; eexists; simpl;
        (split; [reflexivity|split; intros; try discriminate]).
      match goal with H : Running _ _ = Running _ _ |- _ => inversion H; subst end.
      apply nth_error_Some. congruence.
    + destruct (nth_error (t_body t) pc) as [[| | nm ws b]|] eqn:Enth; try discriminate.
      * destruct (ctx_failed (t_ctx t) s); intro E; inversion E; subst; left; eexists; simpl;
          (split; [reflexivity|split; intros; discriminate]).
      * intro E; inversion E; subst; left; eexists; simpl; rewrite ?fail_ctx_tasks;
          (split; [reflexivity|split; intros; discriminate]).
      * set (sb := {| s_name := nm; s_waits := ws; s_body := b |}).
        destruct (create_false_cases sb (t_ctx t) (Some n) s) as [Ec | (R & V & Ec)]; rewrite Ec;
          intro E; inversion E; subst.
        -- left; eexists; simpl; (split; [reflexivity|split; intros; discriminate]).
        -- right. exists pc, nm, ws, b. repeat split; auto.
    + destruct (find_task c (tasks s)) as [tc|]; [|discriminate].
      destruct (is_finished (t_st tc) || t_orphan tc); [|discriminate].
      destruct (ctx_failed (t_ctx t) s); intro E; inversion E; subst; left; eexists; simpl;
        (split; [reflexivity|split; intros; discriminate]).
    + intro E; inversion E; subst; left; eexists; simpl; rewrite ?fail_ctx_tasks;
        (split; [reflexivity|split; intros; discriminate]).
  - intro E; inversion E; subst; left; eexists; simpl; (split; [reflexivity|split; intros; discriminate]).
Qed.

Lemma InvK_upd s ts' n t st :
  InvK s -> T s n t -> ts' = upd n st (tasks s) ->
  (forall pc c, st = Running pc (PSpawned c) ->
     exists tc, T s c tc /\ t_idx t < t_idx tc /\ t_waits tc = [] /\ c <> n) ->
  (forall pc, st = Running pc PIn -> pc < length (t_body t)) ->
  forall s', tasks s' = ts' -> InvK s'.
Proof.
  intros [K1 K2 K3 K4] HT -> Hns Hpin s' Ht. split.
  - intros t' Hin. rewrite Ht in *. rewrite upd_length. apply in_upd_inv in Hin as [t0 [H0 [->|[-> _]]]]; simpl; auto.
  - intros m t' pc c HT' Hst. unfold T in HT'. rewrite Ht in HT'.
    destruct (N.eq_dec m n) as [->|Hne].
    + rewrite (find_upd_same _ _ _ _ HT) in HT'. inversion HT'; subst t'. simpl in Hst.
      destruct (Hns _ _ Hst) as [tc (A & B & C & D)]. exists tc. split; [|auto].
      unfold T. rewrite Ht, find_upd_other; assumption.
    + rewrite find_upd_other in HT' by assumption.
      destruct (K2 _ _ _ _ HT' Hst) as [tc (A & B & C)].
      destruct (T_upd_static s s' n st c tc Ht A) as [tc' [A' (S1 & S2 & S3 & S4)]].
      exists tc'. split; [assumption|]. split; [|congruence].
      (* idx is static too *)
      unfold T in A, A'. rewrite Ht in A'. destruct (N.eq_dec c n) as [->|Hc].
      * rewrite (find_upd_same _ _ _ _ A) in A'. inversion A'; subst. assumption.
      * rewrite find_upd_other in A' by assumption. congruence.
  - intros m t' pc HT' Hst. unfold T in HT'. rewrite Ht in HT'.
    destruct (N.eq_dec m n) as [->|Hne].
    + rewrite (find_upd_same _ _ _ _ HT) in HT'. inversion HT'; subst t'. simpl in *. auto.
    + rewrite find_upd_other in HT' by assumption. eauto.
  - intros t' Hin. rewrite Ht in Hin. apply in_upd_inv in Hin as [t0 [H0 [->|[-> _]]]]; simpl; auto.
Qed.

Lemma InvK_app s x :
  InvK s -> registered (t_name x) (tasks s) = false -> t_idx x = length (tasks s) ->
  flat_body (t_body x) = true -> t_st x = Waiting 0 ->
  forall s', tasks s' = tasks s ++ [x] -> InvK s'.
Proof.
  intros [K1 K2 K3 K4] R Hidx Hfl Hst s' Ht. split.
  - intros t' Hin. rewrite Ht in *. rewrite app_length. simpl.
    apply in_app_or in Hin as [Hin|[<-|[]]]; [specialize (K1 _ Hin); lia | lia].
  - intros m t' pc c HT' Hs. unfold T in HT'. rewrite Ht in HT'.
    destruct (find_task m (tasks s)) as [t0|] eqn:E0.
    + rewrite (find_app_some _ _ _ _ E0) in HT'. inversion HT'; subst t0.
      destruct (K2 _ _ _ _ E0 Hs) as [tc (A & B & C)]. exists tc. split; [|auto].
      unfold T. rewrite Ht. apply find_app_some. assumption.
    + rewrite (find_app_none _ _ _ E0) in HT'. destruct (N.eqb (t_name x) m); [|discriminate].
      inversion HT'; subst. congruence.
  - intros m t' pc HT' Hs. unfold T in HT'. rewrite Ht in HT'.
    destruct (find_task m (tasks s)) as [t0|] eqn:E0.
    + rewrite (find_app_some _ _ _ _ E0) in HT'. inversion HT'; subst t0. eauto.
    + rewrite (find_app_none _ _ _ E0) in HT'. destruct (N.eqb (t_name x) m); [|discriminate].
      inversion HT'; subst. congruence.
  - intros t' Hin. rewrite Ht in Hin. apply in_app_or in Hin as [Hin|[<-|[]]]; auto.
Qed.

Lemma InvK_same s s' : InvK s -> tasks s' = tasks s -> InvK s'.
Proof.
  intros [K1 K2 K3 K4] Ht. split; unfold T in *; rewrite Ht; eauto.
Qed.

Lemma InvK_step l s s' :
  InvK s -> match l with LCreate sb _ => flat_body (s_body sb) = true | _ => True end ->
  step false l s = Some s' -> InvK s'.
Proof.
  intros HK Hfl. destruct l as [sb c | n | n | c]; simpl.
  - intro E; inversion E; subst. destruct (create_false_cases sb c None s) as [Ec | (R & V & Ec)]; rewrite Ec; simpl.
    + eapply InvK_same; eauto.
    + eapply (InvK_app s (new_task sb c None s)); eauto.
  - destruct (find_task n (tasks s)) as [t|] eqn:E; [|discriminate].
    pose proof (find_task_some _ _ _ E) as [Hn Hin]. intro Hs.
    assert (HT : T s (t_name t) t) by (unfold T; rewrite Hn; exact E).
    destruct (task_step_shape t s s' HT Hs) as [(st & Ht & Hns & Hpin) | (pc & nm & ws & b & Hst & Hnth & R & Ht)].
    + eapply (InvK_upd s _ (t_name t) t st); eauto. intros pc c0 Ec. exfalso. eapply Hns; eauto.
    + destruct (flat_spawn _ _ _ _ _ (k_flat _ HK _ Hin) Hnth) as [-> Hfb].
      set (nt := new_task {| s_name := nm; s_waits := []; s_body := b |} (t_ctx t) (Some (t_name t)) s) in *.
      set (s1 := with_tasks (tasks s ++ [nt]) s).
      assert (HK1 : InvK s1) by (eapply (InvK_app s nt); eauto).
      assert (HT1 : T s1 (t_name t) t) by (unfold T; simpl; apply find_app_some; exact HT).
      eapply (InvK_upd s1 _ (t_name t) t (Running pc (PSpawned nm))); eauto.
      * intros pc' c0 Ec. inversion Ec; subst c0 pc'. exists nt.
        assert (nm <> t_name t).
        { intro; subst nm. apply find_task_none in R. unfold T in HT. congruence. }
        split; [|split; [|split]]; auto.
        -- unfold T; simpl. rewrite find_app_none by (apply find_task_none; assumption).
           simpl. rewrite N.eqb_refl. reflexivity.
        -- simpl. apply (k_idx _ HK). assumption.
      * intros pc' Ec. discriminate.
  - destruct (find_task n (tasks s)) as [t|] eqn:E; [|discriminate].
    destruct (t_st t) as [| pc [| | |] | | |]; try discriminate.
    destruct (ctx_failed (t_ctx t) s); [|discriminate]. intro H; inversion H; subst.
    eapply (InvK_upd s _ n t Closing); eauto; try discriminate; try reflexivity.
  - intro E; inversion E; subst. eapply InvK_same; eauto. apply fail_ctx_tasks.
Qed.

Lemma InvK_run root sched : flat_sched sched -> InvK (run false sched (init root)).
Proof.
  assert (G : forall sched s, flat_sched sched -> InvK s -> InvK (run false sched s)).
  { clear. induction sched as [|l r IH]; intros s Hf Hs; simpl; [assumption|].
    apply IH; [intros sb c H; apply (Hf sb c); right; assumption|].
    unfold step_skip. destruct (step false l s) as [s'|] eqn:E; [|assumption].
    eapply InvK_step; eauto. destruct l; auto. apply (Hf sb c). left. reflexivity. }
  intro Hf. apply G; [assumption|]. split; simpl; try tauto; intros; discriminate.
Qed.

Lemma first_unfinished ts :
  forallb (fun t => is_finished (t_st t)) ts = false ->
  exists a x b, ts = a ++ x :: b /\ forallb (fun t => is_finished (t_st t)) a = true
                /\ is_finished (t_st x) = false.
Proof.
  induction ts as [|y r IH]; simpl; [discriminate|].
  destruct (is_finished (t_st y)) eqn:E; simpl.
  - intro H. destruct (IH H) as (a & x & b & -> & Ha & Hx). exists (y :: a), x, b. simpl. rewrite E. auto.
  - intros _. exists [], y, r. auto.
Qed.

Lemma find_app_l n a b t : find_task n a = Some t -> find_task n (a ++ b) = Some t.
Proof. unfold find_task. induction a as [|y r IH]; simpl; [discriminate|]. destruct (N.eqb _ _); auto. Qed.

(** Descend along "blocked on the task I spawned": the chain ends in an enabled task. *)
Lemma descend s :
  Inv s -> InvK s ->
  forall d n t, T s n t -> length (tasks s) - t_idx t <= d ->
    is_finished (t_st t) = false -> (forall i, t_st t = Waiting i -> t_waits t = []) ->
    exists m, step false (LTask m) s <> None.
Proof.
  intros HI HK. induction d as [|d IH]; intros n t HT Hd Hnf Hw.
  - pose proof (find_task_some _ _ _ HT) as [_ Hin]. pose proof (k_idx _ HK _ Hin). lia.
  - pose proof (find_task_some _ _ _ HT) as [Hn Hin].
    assert (Hstep : step false (LTask n) s = task_step false t s) by (simpl; unfold T in HT; rewrite HT; reflexivity).
    destruct (t_st t) as [i | pc ph | | ok |] eqn:Est; try discriminate.
    + exists n. rewrite Hstep. unfold task_step. rewrite Est, (Hw i eq_refl). destruct i; simpl; discriminate.
    + destruct ph as [| | c |].
      * exists n. rewrite Hstep. unfold task_step. rewrite Est. destruct (nth_error _ _); discriminate.
      * exists n. rewrite Hstep. unfold task_step. rewrite Est.
        pose proof (k_pin _ HK _ _ _ HT Est) as Hpc. apply nth_error_Some in Hpc.
        destruct (nth_error (t_body t) pc) as [[| | nm ws b]|]; [| | |congruence].
        -- destruct (ctx_failed _ _); discriminate.
        -- discriminate.
        -- destruct (create _ _ _ _ _). discriminate.
      * destruct (k_spawn _ HK _ _ _ _ HT Est) as [tc (A & B & C)].
        destruct (is_finished (t_st tc) || t_orphan tc) eqn:Ef.
        -- exists n. rewrite Hstep. unfold task_step. rewrite Est. unfold T in A. rewrite A, Ef.
           destruct (ctx_failed _ _); discriminate.
        -- apply orb_false_iff in Ef as [Ef _].
           apply (IH c tc A); [lia | assumption | intros; assumption].
      * exists n. rewrite Hstep. unfold task_step. rewrite Est. discriminate.
    + exists n. rewrite Hstep. unfold task_step. rewrite Est. discriminate.
    + pose proof (inv_tasks _ HI _ _ HT) as [_ Hti]. rewrite Est in Hti. contradiction.
Qed.

Lemma no_deadlock root sched :
  flat_sched sched ->
  let s := run false sched (init root) in
  all_finished s = false -> exists n, step false (LTask n) s <> None.
Proof.
  intros Hfl s Hnf. pose proof (Inv_run root sched) as HI. pose proof (Inv2_run root sched) as [Ho Hnd _].
  pose proof (InvK_run root sched Hfl) as HK. fold s in HI, Ho, Hnd, HK.
  destruct (first_unfinished _ Hnf) as (a & x & b & E & Ha & Hx).
  assert (Hin : In x (tasks s)) by (rewrite E; apply in_or_app; right; left; reflexivity).
  pose proof (in_find _ _ _ Hnd Hin eq_refl) as HT.
  destruct (t_st x) as [i | pc ph | | ok |] eqn:Est.
  - destruct (nth_error (t_waits x) i) as [u|] eqn:Enth.
    + exists (t_name x). simpl. rewrite HT. unfold task_step. rewrite Est, Enth.
      destruct (Ho _ _ _ E u (nth_error_In _ _ Enth)) as [R _].
      apply registered_find in R as [tu Hu].
      pose proof (find_task_some _ _ _ Hu) as [_ Hina].
      rewrite E. rewrite (find_app_l _ _ _ _ Hu).
      rewrite forallb_forall in Ha. rewrite (Ha _ Hina). destruct (ctx_failed _ _); discriminate.
    + exists (t_name x). simpl. rewrite HT. unfold task_step. rewrite Est, Enth. discriminate.
  - eapply (descend s HI HK _ _ x HT (Nat.le_refl _)); [rewrite Est; reflexivity | rewrite Est; discriminate].
  - eapply (descend s HI HK _ _ x HT (Nat.le_refl _)); [rewrite Est; reflexivity | rewrite Est; discriminate].
  - simpl in Hx. discriminate.
  - pose proof (inv_tasks _ HI _ _ HT) as [_ Hti]. rewrite Est in Hti. contradiction.
Qed.
