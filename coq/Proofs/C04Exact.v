(** C04, exactness and totality of the copy helpers.

    Proofs/Stream.v and Proofs/Copy.v prove "Ok => the source is in the destination and old
    nodes are kept".  Here the destination after an Ok copy is characterised at EVERY path by an
    executable specification ([expected_file], [expected]): the copy adds nothing that is neither
    the source nor a needed parent directory, so the result does not depend on the callback
    order; the front ends taking raw path strings (StreamCopy, Copier.copyFile) and
    Copier.copyDirectory (MkdirAll of the destination root first) get the same statements, and
    the conditions under which the Writer can be opened are spelt out, which turns the
    conditional progress statements into total ones. *)
From GC Require Import Common.Base Model.Paths Model.Fs Model.Stream Model.Copy
     Proofs.Paths Proofs.Fs Proofs.Stream Proofs.Copy.
From Coq Require Import Lia Permutation.

Lemma is_dir_at_lookup t p : is_dir_at t p = true <-> lookup t p = Some D.
Proof.
  unfold is_dir_at. destruct (lookup t p) as [[|]|]; split; intros H; try discriminate; reflexivity.
Qed.

(** [below d q]: q lies strictly below d. *)
Definition below (d q : path) : bool := is_prefix d q && negb (Nat.eqb (length q) (length d)).

Lemma below_spec d q : below d q = true <-> exists x, x <> [] /\ q = d ++ x.
Proof.
  unfold below. rewrite andb_true_iff, negb_true_iff, Nat.eqb_neq, is_prefix_spec. split.
  - intros [[x ->] Hl]. exists x. split; [|reflexivity]. intros ->. rewrite app_nil_r in Hl. congruence.
  - intros (x & Hx & ->). split; [eauto|]. rewrite app_length. destruct x; [congruence|simpl; lia].
Qed.

(** * One file *)

(** The destination after a stream copy of [data] to [pd]: the file, its parent chain as
    directories, everything else as before. *)
Definition expected_file (dst : fs) (pd : path) (data : bytes) (q : path) : option entry :=
  if path_eqb q pd then Some (F data)
  else if is_prefix q (removelast pd) then Some D
  else lookup dst q.

Theorem stream_copy_exact pl st mkpar B src dst ps pd c r c' :
  (1 <= B)%nat -> WF dst -> good_path pd = true -> pd <> [] ->
  stream_copy_at pl st mkpar B src dst ps pd c = (COk, r, c') ->
  exists data, lookup src ps = Some (F data) /\ WF r /\
    forall q, lookup r q = expected_file dst pd data q.
Proof.
  intros HB HWF Hg Hne H.
  destruct (stream_copy_ok _ _ _ _ _ _ _ _ _ _ _ HB HWF Hg Hne H) as (data & Hs & W & L & K & N).
  exists data. split; [exact Hs|]. split; [exact W|].
  intros q. unfold expected_file. destruct (path_eqb q pd) eqn:Eq.
  { apply path_eqb_spec in Eq. subst q. exact L. }
  apply path_eqb_false in Eq.
  destruct (is_prefix q (removelast pd)) eqn:Ep.
  - assert (Hpar : is_dir_at r (removelast pd) = true) by (eapply parent_is_dir; eassumption).
    apply is_prefix_spec in Ep as [sfx E]. destruct sfx as [|z sfx].
    + rewrite app_nil_r in E. subst q. apply is_dir_at_lookup. exact Hpar.
    + apply is_dir_at_lookup. apply (WF_prefix_dir r W (z :: sfx) q); [discriminate|].
      unfold exists_at. rewrite <- E. apply is_dir_at_lookup in Hpar. rewrite Hpar. reflexivity.
  - destruct (lookup dst q) as [e|] eqn:El.
    + rewrite <- El. apply K; [exact Eq|rewrite El; discriminate].
    + destruct (lookup r q) eqn:Er; [exfalso|reflexivity].
      destruct (N q Eq El) as [_ Hp]; [rewrite Er; discriminate|]. congruence.
Qed.

(** StreamCopy on a raw path string (source and destination reduce it the same way). *)
Theorem stream_copy_raw_exact pl st mkpar B src dst s c r c' :
  (1 <= B)%nat -> WF dst -> stream_copy pl st mkpar B src dst s c = (COk, r, c') ->
  exists p data, reduce_node s = Some p /\ lookup src p = Some (F data) /\ WF r /\
    forall q, lookup r q = expected_file dst p data q.
Proof.
  intros HB HWF H. unfold stream_copy in H. destruct (reduce_node s) as [p|] eqn:Er; [|discriminate].
  destruct (reduce_node_good _ _ Er) as [Hg Hne].
  destruct (stream_copy_exact _ _ _ _ _ _ _ _ _ _ _ HB HWF Hg Hne H) as (data & A & W & E).
  exists p, data. auto.
Qed.

(** Copier.copyFile on raw path strings: any spelling of the two paths. *)
Theorem copier_file_exact pl st mkpar B src dst s d c r c' :
  (1 <= B)%nat -> WF dst -> copier_file pl st mkpar B src dst s d c = (COk, r, c') ->
  exists ps pd data, reduce_node s = Some ps /\ reduce_node d = Some pd /\
    lookup src ps = Some (F data) /\ WF r /\ forall q, lookup r q = expected_file dst pd data q.
Proof.
  intros HB HWF H. unfold copier_file in H.
  destruct (reduce_node s) as [ps|] eqn:Es; [|discriminate].
  destruct (reduce_node d) as [pd|] eqn:Ed; [|discriminate].
  destruct (reduce_node_good _ _ Ed) as [Hg Hne].
  destruct (stream_copy_exact _ _ _ _ _ _ _ _ _ _ _ HB HWF Hg Hne H) as (data & A & W & E).
  exists ps, pd, data. auto.
Qed.

(** ** When the Writer can be opened *)

Definition parents_free (mkpar : bool) (t : fs) (p : path) : Prop :=
  if mkpar then forall q data, is_prefix q (removelast p) = true -> lookup t q <> Some (F data)
  else is_dir_at t (removelast p) = true.

Lemma prefix_of_dir_is_dir t p q : WF t -> is_dir_at t p = true -> is_prefix q p = true -> is_dir_at t q = true.
Proof.
  intros HWF Hd Hp. apply is_prefix_spec in Hp as [sfx E]. destruct sfx as [|z sfx].
  - rewrite app_nil_r in E. subst q. exact Hd.
  - apply (WF_prefix_dir t HWF (z :: sfx) q); [discriminate|]. unfold exists_at. rewrite <- E.
    apply is_dir_at_lookup in Hd. rewrite Hd. reflexivity.
Qed.

Theorem writer_open_iff mkpar t p : WF t -> good_path p = true -> p <> [] ->
  ((exists t1, writer_open mkpar t p = Some t1) <-> lookup t p <> Some D /\ parents_free mkpar t p).
Proof.
  intros HWF Hg Hne.
  assert (Hgp : good_path (removelast p) = true) by (apply good_path_removelast; exact Hg).
  split.
  - intros [t1 H]. unfold writer_open in H.
    destruct (mkpar || is_dir_at t (removelast p)) eqn:Eo; [|discriminate].
    unfold write_at in H. destruct (mkdir_all t (removelast p)) as [t0|] eqn:Em; [|discriminate].
    destruct (mkdir_all_spec _ _ _ HWF Hgp Em) as (W0 & D0 & P0 & _).
    split.
    + intros Hd. rewrite (P0 _ _ Hd) in H. discriminate.
    + unfold parents_free. destruct mkpar; [|exact Eo].
      intros q data Hp Hq. pose proof (prefix_of_dir_is_dir t0 _ q W0 D0 Hp) as Hdq.
      apply is_dir_at_lookup in Hdq. rewrite (P0 _ _ Hq) in Hdq. discriminate.
  - intros [Hnd Hpf]. unfold writer_open.
    assert (Hpre : forall q, q <> [] -> is_prefix q (removelast p) = true ->
                             lookup t q = None \/ lookup t q = Some D).
    { intros q _ Hp. unfold parents_free in Hpf. destruct mkpar.
      - destruct (lookup t q) as [[data|]|] eqn:El; auto. exfalso. exact (Hpf q data Hp El).
      - right. apply is_dir_at_lookup. exact (prefix_of_dir_is_dir t _ q HWF Hpf Hp). }
    assert (Eo : mkpar || is_dir_at t (removelast p) = true).
    { unfold parents_free in Hpf. destruct mkpar; [reflexivity|exact Hpf]. }
    rewrite Eo. unfold write_at.
    destruct (mkdir_all_ok t (removelast p) Hpre) as [t0 Em]. rewrite Em.
    destruct (mkdir_all_spec _ _ _ HWF Hgp Em) as (W0 & D0 & P0 & N0).
    destruct (lookup t p) as [[old|]|] eqn:El.
    + rewrite (P0 _ _ El). eauto.
    + congruence.
    + destruct (lookup t0 p) as [e0|] eqn:E0; [|eauto]. exfalso.
      destruct (N0 p El) as [_ Hp]; [rewrite E0; discriminate|].
      apply is_prefix_len in Hp. rewrite (removelast_length p Hne) in Hp. lia.
Qed.

(** Total statement for one file: without a planned fault, Copier.copyFile succeeds EXACTLY when
    both path strings name a node, the source is a file and the Writer can be opened. *)
Theorem copier_file_total pl st mkpar B src dst s d c :
  (1 <= B)%nat -> WF dst -> (forall f, pl f = false) ->
  ((exists r c', copier_file pl st mkpar B src dst s d c = (COk, r, c')) <->
   (exists ps pd data, reduce_node s = Some ps /\ reduce_node d = Some pd /\
      lookup src ps = Some (F data) /\ lookup dst pd <> Some D /\ parents_free mkpar dst pd)).
Proof.
  intros HB HWF Hn. split.
  - intros (r & c' & H). unfold copier_file in H.
    destruct (reduce_node s) as [ps|] eqn:Es; [|discriminate].
    destruct (reduce_node d) as [pd|] eqn:Ed; [|discriminate].
    destruct (reduce_node_good _ _ Ed) as [Hg Hne].
    unfold stream_copy_at in H. rewrite !Hn in H.
    destruct (lookup src ps) as [[data|]|] eqn:El; try discriminate.
    destruct (writer_open mkpar dst pd) as [d1|] eqn:Eo; [|discriminate].
    destruct (proj1 (writer_open_iff mkpar dst pd HWF Hg Hne) (ex_intro _ d1 Eo)) as [Hnd Hpf].
    exists ps, pd, data. split; [reflexivity|]. split; [reflexivity|]. split; [exact El|]. split; assumption.
  - intros (ps & pd & data & Es & Ed & El & Hnd & Hpf). unfold copier_file. rewrite Es, Ed.
    destruct (reduce_node_good _ _ Ed) as [Hg Hne].
    destruct (proj2 (writer_open_iff mkpar dst pd HWF Hg Hne) (conj Hnd Hpf)) as [d1 Eo].
    pose proof (stream_copy_nofault pl st mkpar B src dst ps pd c data d1 HB Hn El Eo) as Hok.
    destruct (stream_copy_at pl st mkpar B src dst ps pd c) as [[r t] c'].
    cbn [fst] in Hok. subst r. eauto.
Qed.

(** * Trees *)

(** The destination after a tree copy of the subtree of [src] at [s] to [d]: below [d] the source
    nodes win, every other path is as before. *)
Definition expected (src : fs) (s d : path) (dst : fs) (q : path) : option entry :=
  if below d q then
    match lookup src (s ++ skipn (length d) q) with
    | Some e => Some e
    | None => lookup dst q
    end
  else lookup dst q.

Lemma run_cbs_exact k src s d l dst c t c' :
  (1 <= cc_buf k)%nat -> WF src -> WF dst -> good_path d = true ->
  (forall x, In x l -> sound_cb src s x) ->
  (forall x e, x <> [] -> lookup src (s ++ x) = Some e -> In (cb_of (x, e)) l) ->
  lookup dst d = Some D ->
  run_cbs k src s d dst c l = (COk, t, c') ->
  WF t /\ forall q, lookup t q = expected src s d dst q.
Proof.
  intros HB HWFs HWF Hgd Hs Hc Hd H.
  destruct (run_cbs_ok k src s d HB HWFs Hgd l dst c t c' HWF Hs H) as (W & _ & Est & Fr & New).
  split; [exact W|]. intros q. unfold expected. destruct (below d q) eqn:Eb.
  - apply below_spec in Eb as (x & Hx & ->). rewrite skipn_app_exact.
    destruct (lookup src (s ++ x)) as [e|] eqn:El.
    + apply Est; [apply Hc; assumption|exact Hx|exact El].
    + destruct (lookup dst (d ++ x)) as [e|] eqn:Eq.
      * apply Fr; [exact Eq|]. intros y Hy E. apply app_inv_head in E. subst y.
        destruct (Hs _ Hy) as (y' & e' & Hcb & Hy' & Hl').
        destruct e' as [data|]; cbn [cb_of snd fst] in Hcb; inversion Hcb; subst y'. congruence.
      * destruct (lookup t (d ++ x)) eqn:Et; [exfalso|reflexivity].
        destruct (New (d ++ x) Eq) as (cb0 & Hin & Hp); [rewrite Et; discriminate|].
        destruct (Hs _ Hin) as (y & e' & -> & Hy & Hl).
        assert (Hcp : cb_path (cb_of (y, e')) = y) by (destruct e'; reflexivity).
        rewrite Hcp in Hp. rewrite is_prefix_app_inv in Hp.
        destruct (path_eqb x y) eqn:Exy.
        { apply path_eqb_spec in Exy. subst. congruence. }
        apply path_eqb_false in Exy.
        rewrite (src_prefix_dir src s y x e' HWFs Hl Hp Exy) in El. discriminate.
  - destruct (lookup dst q) as [e|] eqn:Eq.
    + apply Fr; [exact Eq|]. intros y Hy ->.
      destruct (Hs _ Hy) as (y' & e' & Hcb & Hy' & _).
      destruct e' as [data|]; cbn [cb_of snd fst] in Hcb; inversion Hcb; subst y'.
      assert (X : below d (d ++ y) = true) by (apply below_spec; eauto). congruence.
    + destruct (lookup t q) eqn:Et; [exfalso|reflexivity].
      destruct (New q Eq) as (cb0 & Hin & Hp); [rewrite Et; discriminate|].
      destruct (is_prefix_comparable q d _ Hp (is_prefix_app d (cb_path cb0))) as [Hqd|Hdq].
      * assert (X : is_dir_at dst q = true).
        { apply (prefix_of_dir_is_dir dst d q HWF); [apply is_dir_at_lookup; exact Hd|exact Hqd]. }
        apply is_dir_at_lookup in X. congruence.
      * apply is_prefix_spec in Hdq as [x ->]. destruct x as [|n x].
        { rewrite app_nil_r in Eq. congruence. }
        assert (X : below d (d ++ n :: x) = true).
        { apply below_spec. exists (n :: x). split; [discriminate|reflexivity]. }
        congruence.
Qed.

(** fshelper.Copy: Ok => the destination is EXACTLY the expected tree, for every callback order
    and every plan (supersedes the lookup clauses of treecopy_ok_complete when the destination
    root exists). *)
Theorem treecopy_exact k src s d dst cbs t :
  (1 <= cc_buf k)%nat -> WF src -> WF dst -> good_path d = true ->
  lookup dst d = Some D ->
  Permutation cbs (cbs_of src s) ->
  tree_copy k src s d dst cbs = (COk, t) ->
  WF t /\ forall q, lookup t q = expected src s d dst q.
Proof.
  intros HB HWFs HWF Hgd Hd Hp H. destruct (tree_copy_inv _ _ _ _ _ _ _ H) as (c' & Hr & _).
  apply (run_cbs_exact k src s d cbs dst ctr0 t c' HB HWFs HWF Hgd); auto.
  - apply perm_sound; assumption.
  - intros x e Hx Hl. apply (perm_complete src s cbs x e Hp Hx Hl).
Qed.

(** The callback order does not matter: two complete walks that both end Ok leave the same tree
    (as a function from paths to nodes), whatever their plans were. *)
Theorem treecopy_order_independent k1 k2 src s d dst cbs1 cbs2 t1 t2 :
  (1 <= cc_buf k1)%nat -> (1 <= cc_buf k2)%nat -> WF src -> WF dst -> good_path d = true ->
  lookup dst d = Some D ->
  Permutation cbs1 (cbs_of src s) -> Permutation cbs2 (cbs_of src s) ->
  tree_copy k1 src s d dst cbs1 = (COk, t1) -> tree_copy k2 src s d dst cbs2 = (COk, t2) ->
  forall q, lookup t1 q = lookup t2 q.
Proof.
  intros HB1 HB2 HWFs HWF Hgd Hd Hp1 Hp2 H1 H2 q.
  destruct (treecopy_exact k1 src s d dst cbs1 t1 HB1 HWFs HWF Hgd Hd Hp1 H1) as [_ E1].
  destruct (treecopy_exact k2 src s d dst cbs2 t2 HB2 HWFs HWF Hgd Hd Hp2 H2) as [_ E2].
  rewrite E1, E2. reflexivity.
Qed.

(** Into an empty destination directory the copy is a mirror: below [d] the result has exactly
    the nodes of the source subtree. *)
Corollary treecopy_mirror k src s d dst cbs t :
  (1 <= cc_buf k)%nat -> WF src -> WF dst -> good_path d = true ->
  lookup dst d = Some D -> (forall x, x <> [] -> lookup dst (d ++ x) = None) ->
  Permutation cbs (cbs_of src s) ->
  tree_copy k src s d dst cbs = (COk, t) ->
  forall x, x <> [] -> lookup t (d ++ x) = lookup src (s ++ x).
Proof.
  intros HB HWFs HWF Hgd Hd Hem Hp H x Hx.
  destruct (treecopy_exact k src s d dst cbs t HB HWFs HWF Hgd Hd Hp H) as [_ E].
  rewrite E. unfold expected.
  assert (X : below d (d ++ x) = true) by (apply below_spec; eauto). rewrite X, skipn_app_exact.
  destruct (lookup src (s ++ x)); [reflexivity|]. apply Hem. exact Hx.
Qed.

(** Total correctness of fshelper.Copy: no planned fault, no file/directory conflict, every
    callback order => Ok AND the destination is exactly the expected tree. *)
Theorem treecopy_total k src s d dst cbs :
  (1 <= cc_buf k)%nat -> WF src -> WF dst -> good_path d = true ->
  (forall f, cc_plan k f = false) -> cc_file_mkdir k = true ->
  lookup dst d = Some D -> no_conflict src s dst d ->
  Permutation cbs (cbs_of src s) ->
  exists t, tree_copy k src s d dst cbs = (COk, t) /\ WF t /\ forall q, lookup t q = expected src s d dst q.
Proof.
  intros HB HWFs HWF Hgd Hnf Hmk Hd Hnc Hp.
  destruct (treecopy_nofault k src s d dst cbs HB HWFs HWF Hgd Hnf Hmk Hd Hnc Hp) as [t H].
  exists t. split; [exact H|]. exact (treecopy_exact k src s d dst cbs t HB HWFs HWF Hgd Hd Hp H).
Qed.

(** * Copier.copyDirectory: IsDir(SrcPath), MkdirAll(DestPath), then the walk *)

Lemma copier_dir_inv k src s d dst l t :
  copier_dir k src s d dst l = (COk, t) ->
  is_dir_at src s = true /\ cc_plan k (FMkdir 0) = false /\
  exists t1 c', mkdir_all dst d = Some t1 /\ run_cbs k src s d t1 (bump_mkdir ctr0) l = (COk, t, c').
Proof.
  unfold copier_dir. destruct (is_dir_at src s); [|discriminate]. cbn [negb].
  unfold mkdir_step. cbn [n_mkdir ctr0]. destruct (cc_plan k (FMkdir 0)); [discriminate|].
  destruct (mkdir_all dst d) as [t1|]; [|discriminate].
  destruct (run_cbs k src s d t1 (bump_mkdir ctr0) l) as [[r t'] c'] eqn:E.
  destruct (existsb _ _); [discriminate|]. intros H. inversion H; subst.
  split; [reflexivity|]. split; [reflexivity|]. eauto.
Qed.

Theorem copier_dir_exact k src s d dst cbs t :
  (1 <= cc_buf k)%nat -> WF src -> WF dst -> good_path d = true ->
  Permutation cbs (cbs_of src s) ->
  copier_dir k src s d dst cbs = (COk, t) ->
  is_dir_at src s = true /\
  exists t1, mkdir_all dst d = Some t1 /\ WF t /\ forall q, lookup t q = expected src s d t1 q.
Proof.
  intros HB HWFs HWF Hgd Hp H.
  destruct (copier_dir_inv _ _ _ _ _ _ _ H) as (Hsd & _ & t1 & c' & Em & Hr).
  split; [exact Hsd|]. exists t1. split; [exact Em|].
  destruct (mkdir_all_spec _ _ _ HWF Hgd Em) as (W1 & D1 & _ & _).
  apply (run_cbs_exact k src s d cbs t1 (bump_mkdir ctr0) t c' HB HWFs W1 Hgd).
  - apply perm_sound; assumption.
  - intros x e Hx Hl. apply (perm_complete src s cbs x e Hp Hx Hl).
  - apply is_dir_at_lookup. exact D1.
  - exact Hr.
Qed.

(** Progress of Copier.copyDirectory: the source is a directory, the destination root can be made
    (no file on the way), no conflict below it, no planned fault => Ok, in every order. *)
Theorem copier_dir_total k src s d dst cbs :
  (1 <= cc_buf k)%nat -> WF src -> WF dst -> good_path d = true ->
  (forall f, cc_plan k f = false) -> cc_file_mkdir k = true ->
  is_dir_at src s = true ->
  (forall q data, is_prefix q d = true -> lookup dst q <> Some (F data)) ->
  no_conflict src s dst d ->
  Permutation cbs (cbs_of src s) ->
  exists t t1, copier_dir k src s d dst cbs = (COk, t) /\ mkdir_all dst d = Some t1 /\
               WF t /\ forall q, lookup t q = expected src s d t1 q.
Proof.
  intros HB HWFs HWF Hgd Hnf Hmk Hsd Hfree Hnc Hp.
  destruct (mkdir_all_ok dst d) as [t1 Em].
  { intros q _ Hq. destruct (lookup dst q) as [[data|]|] eqn:El; auto. exfalso. exact (Hfree q data Hq El). }
  destruct (mkdir_all_spec _ _ _ HWF Hgd Em) as (W1 & D1 & P1 & N1).
  assert (Hnc1 : no_conflict src s t1 d).
  { intros x e e' Hx Hl Ht. destruct (lookup dst (d ++ x)) as [e0|] eqn:E0.
    - rewrite (P1 _ _ E0) in Ht. inversion Ht; subst. exact (Hnc x e e' Hx Hl E0).
    - exfalso. destruct (N1 (d ++ x) E0) as [_ Hpre]; [rewrite Ht; discriminate|].
      apply is_prefix_len in Hpre. rewrite app_length in Hpre. destruct x; [congruence|simpl in Hpre; lia]. }
  destruct (run_cbs_progress k src s d HB HWFs Hgd Hnf Hmk cbs t1 (bump_mkdir ctr0))
    as (t & c' & E).
  { split; [exact W1|]. split; [apply is_dir_at_lookup; exact D1|exact Hnc1]. }
  { apply perm_sound; assumption. }
  assert (H : copier_dir k src s d dst cbs = (COk, t)).
  { unfold copier_dir. rewrite Hsd. cbn [negb]. unfold mkdir_step. rewrite Hnf, Em, E.
    replace (existsb _ _) with false; [reflexivity|]. symmetry.
    apply not_true_is_false. intros Hex. apply existsb_exists in Hex as (i & _ & Hi). rewrite Hnf in Hi. discriminate. }
  exists t, t1. split; [exact H|]. split; [exact Em|].
  destruct (copier_dir_exact k src s d dst cbs t HB HWFs HWF Hgd Hp H) as (_ & t1' & Em' & W & E').
  rewrite Em in Em'. inversion Em'; subst t1'. auto.
Qed.
